import LadimProofs.Bridge.PolySeq
import LadimProofs.Bridge.Release
import LadimProofs.C17Measure
/-!
# C03 / C17 end to end — the clauses of the properties, stated about the interpretation of the current source

Property C03 — Release positions lie inside the requested area and carry its attributes
STATEMENT: A point location is reproduced exactly for every particle; for polygon, multi-polygon, metric-offset and GeoJSON locations every generated position lies inside (or on the edge of) the union of the given simple polygons, whatever their orientation, convexity or vertex count. With GeoJSON input each particle carries the properties of the feature whose polygon contains it, and metric offsets are laid out around the centre so that converting the positions back to metres lands inside the offset polygon (degree<->metre conversions are mutual inverses on the WGS84 ellipsoid).
QUANTIFIER: all simple, hole-free, non-degenerate polygons with 3..N vertices, clockwise or counter-clockwise, convex or not; 1..k pairwise disjoint polygons per location; GeoJSON Polygon and MultiPolygon features with arbitrary property tables; centres at any latitude in (-89, 89); every particle count and seed

Property C17 — Release positions are uniformly distributed over the release area
STATEMENT: Over many draws the expected share of particles in any sub-region of the release area equals that sub-region's share of the total area: the polygons of a multi-polygon or GeoJSON layer receive particles in proportion to their areas, and positions are uniform within each polygon. Two-element range attributes are uniform on their range.
QUANTIFIER: all simple polygons and disjoint multi-polygons, all half-plane cuts through them, all seeds; decided statistically with exact binomial tail bounds at a fixed, very small false-alarm probability

## What is stated here

Every theorem named `c03_…` / `c17_…` has in its statement the *interpretation of the generated statement sequences*
(`Seq.getLocationSeq` = `runRet … Gen.get_location_seq …`, `Seq.latlonFromPolySeq`, `Seq.getLocationFileSeq`,
`Seq.triangulateMultiSeq`, `Seq.triangulateNonconvexSeq`, `Seq.triangulateSeq`, `Seq.sampleConvexSeq`,
`Seq.polygonSampleTrianglesSeq`, `Seq.triangleAreasSeq`, `Seq.metricToDegSeq`, `Seq.degToMetricSeq`, `Seq.getAttrSeq`)
or the generated formulas (`Gen.metric_to_deg`, `Gen.deg_to_metric`, `Gen.rel_bary`, `Gen.rel_triangle_area`), never
the hand-written model functions; the bridges (`LadimProofs/Bridge/{LocationSeq,GeoSeq,PolySeq,Release}.lean`) and the
model theorems (`C03`, `C17`, `C17M`, `C04`) are the lemmas.  Where an interpreter takes another function as a
parameter (`tri`, `locFile`) the interpretation of *that function's* sequence is plugged in (`c03_triCode`,
`c03_locFileCode`), so the statements are about the composed code.

| clause | theorem |
|---|---|
| C03 point reproduced exactly | `c03_point_exact` |
| C03 polygon / multi-polygon inside | `c03_latlon_from_poly_inside`, `c03_get_location_polygon_inside`, `c03_get_location_single_polygon_inside` |
| C03 inside, fan triangulation (proved without a contract) | `c03_convex_sample_in_polygon` |
| C03 metric offsets | `c03_get_location_offset_inside` |
| C03 conversions mutually inverse | `c03_metric_degree_inverse`, `c03_metric_degree_inverse_seq`, `c03_metric_degree_inverse_real`, `c03_conversion_defined_real` |
| C03 GeoJSON: inside + properties of the owning feature | `c03_get_location_geojson` |
| C17 sampler = fixed map of independent draws | `c17_particle_is_image_of_draws`, `c17_unit_triangle_sample_fold` |
| C17 triangle chosen with probability ∝ area | `c17_triangle_choice_interval`, `c17_triangle_choice_probability` |
| C17 point uniform in the triangle (push-forward) | `c17_point_uniform_in_triangle` |
| C17 polygons in proportion to their areas | `c17_polygon_share_partial`, `c17_fan_weights_sum_to_area` |
| C17 two-element ranges | `c17_range_attribute_affine`, `c17_range_uniform` |

## Hypotheses that the bridges / model theorems force

* `hd` / `hrng` — the random numbers are in `[0, 1)` (`C03.sample_in_chosen_triangle`, `C03.fold_in_triangle`): what
  `np.random.rand` produces; this is "every seed".
* `hlib : c03_TriLibInside trLib inside` — the external `triangle` library is a parameter (`trLib`) of the
  interpretation; that its triangles lie inside the polygon is its contract, stated once as a definition.  For the fan
  (`triangulate`) no contract is needed.  Simplicity, hole-freeness, non-degeneracy and disjointness of the polygons are
  *not* hypotheses: they only matter for the library's contract.
* `hpi`, `hc`, `hr` — the conversion is defined at the reference latitude (generic ordered field with abstract `sin`,
  `cos`, `sqrt`, `π`); over `ℝ` they follow from `-89 < lat < 89` (`c03_conversion_defined_real`).
* `ht` — positive total area (`C17.pick_interval`; `cumarea / cumarea[-1]` divides by it).
* `hn : num ≠ 2`, `hd : num ≤ draws.length` for ranges (`C04.range_values`; the source tests `len(v) == 2 and num != 2`).
* a result of `min num (number of draws)` particles: the draws are a parameter of the location interpreters; with at
  least `num` draws this is `num`.

## Not covered (see the theorems' comments)

* Metric offsets: one offset polygon (`offset = [ox list, oy list]`); lists of offset polygons are not treated.

* For the library triangulation "inside the polygon" *is* the contract `hlib`; only the fan is proved geometric.
  `get_location` always uses the library path (`latlon_from_poly` → `triangulate_nonconvex_multi`); the fan
  (`get_polygon_sample_convex`) is not reachable from `get_location` in the current source.
* C17 as one measure statement on the union of the polygons needs (i) the tiling half of the library's contract and
  (ii) the product decomposition of the law of `(u, s, t)`; what is proved is each factor (`c17_triangle_choice_probability`,
  `c17_point_uniform_in_triangle`, `c17_polygon_share_partial`) and the structure theorem that the code is that map.
* The link between the per-particle draws `(u, s, t)` of the location interpreters and the global numpy stream is the
  bridge `Bridge.get_polygon_sample_triangles` (used in `c17_particle_is_image_of_draws`); inside `latlon_from_poly`
  the draws are a parameter.
-/
open Ladim Ladim.Seq Ladim.Sample Ladim.Table

set_option linter.unusedSectionVars false
set_option linter.unusedVariables false
set_option linter.unusedSimpArgs false
namespace OnCode

/-! ## 0. Vocabulary -/

/-- "the code returns `r`": the interpretation knows every text (`some`) and the run does not raise (`some`) -/
def c03_returned {β : Type} (o : Option (Option β)) : Option β := o.bind id

section vocab
variable {α : Type} [Add α] [Sub α] [Mul α] [Div α] [Neg α] [LT α] [DecidableLT α] [OfScientific α]

/-- `triangulate_nonconvex_multi` as the parameter `tri` of the location interpreters: the interpretation of
`Gen.rel_triangulate_nonconvex_multi_seq` (which runs that of `Gen.rel_triangulate_nonconvex_seq` per polygon) -/
def c03_triCode (trLib : List (α × α) → List (Nat × Nat) → String → Option (TrData α)) :
    List (List (α × α)) → Option (List (Tri α) × List Nat) :=
  fun coords => c03_returned (triangulateMultiSeq trLib coords)

/-- `get_location_file` as the parameter `locFile` of `Seq.getLocationSeq`: the interpretation of
`Gen.get_location_file_seq` -/
def c03_locFileCode {φ : Type} (readJson : φ → Option (GeoData α)) (upper : String → String)
    (tri : List (List (α × α)) → Option (List (Tri α) × List Nat)) (draws : List (α × α × α)) :
    φ → Nat → Option (List α × List α × Frame α) :=
  fun f num => c03_returned (getLocationFileSeq readJson upper tri draws f num)

theorem c03_triCode_eq (trLib : List (α × α) → List (Nat × Nat) → String → Option (TrData α)) :
    c03_triCode trLib = Bridge.triangulateMultiSpec trLib := by
  funext coords
  simp [c03_triCode, c03_returned, Bridge.triangulate_nonconvex_multi]

theorem c03_locFileCode_eq {φ : Type} (readJson : φ → Option (GeoData α)) (upper : String → String)
    (tri : List (List (α × α)) → Option (List (Tri α) × List Nat)) (draws : List (α × α × α)) :
    c03_locFileCode readJson upper tri draws = Bridge.locationFileSpec readJson upper tri draws := by
  funext f num
  simp [c03_locFileCode, c03_returned, Bridge.get_location_file]

end vocab

section field
variable {α : Type} [Field α] [LinearOrder α] [IsStrictOrderedRing α]

/-- `(x, y)` is a convex combination of the three vertices of `T`: a point of the closed triangle -/
def c03_InTri (T : Tri α) (x y : α) : Prop :=
  ∃ s t : α, 0 ≤ s ∧ 0 ≤ t ∧ s + t ≤ 1 ∧
    x = (1 - s - t) * T.x1 + s * T.x2 + t * T.x3 ∧ y = (1 - s - t) * T.y1 + s * T.y2 + t * T.y3

/-- **The stated contract of the external `triangle` library** (parameter `trLib`): every triangle read back from
`triangle.triangulate(dict(vertices=c, segments=closed ring), 'p')` lies inside the region `inside c` of the polygon
with the vertex rows `c` (`inside` is arbitrary: the interior-or-edge predicate of a simple polygon in the intended
reading). -/
def c03_TriLibInside (trLib : List (α × α) → List (Nat × Nat) → String → Option (TrData α))
    (inside : List (α × α) → α → α → Prop) : Prop :=
  ∀ c d, trLib c (Bridge.ringSegments c.length) "p" = some d → ∀ t ∈ d.triangles, ∀ T,
    triAtRows d.vertices t.1 t.2.1 t.2.2 = some T → ∀ x y, c03_InTri T x y → inside c x y

/-! ## 1. list lemmas: the polygon number of a triangle -/

theorem c03_getElem?_map_some {β γ : Type} (f : β → γ) (l : List β) (j : Nat) (c : γ) (h : (l.map f)[j]? = some c) :
    ∃ b, l[j]? = some b ∧ f b = c := by
  rw [List.getElem?_map] at h
  cases hb : l[j]? with
  | none => rw [hb] at h; cases h
  | some b => rw [hb] at h; exact ⟨b, rfl, by simpa using h⟩

theorem c03_zip_replicate_right {β γ : Type} (l : List β) (c : γ) :
    l.zip (List.replicate l.length c) = l.map (fun b => (b, c)) := by
  induction l with
  | nil => rfl
  | cons a l ih => simp [List.replicate_succ, ih]

theorem c03_zip_flatten_replicate {β : Type} (tss : List (List β)) (s : Nat) :
    tss.flatten.zip ((tss.zipIdx s).map (fun p => List.replicate p.1.length p.2)).flatten =
      (tss.zipIdx s).flatMap (fun p => p.1.map (fun T => (T, p.2))) := by
  induction tss generalizing s with
  | nil => rfl
  | cons ts tss ih =>
    simp only [List.flatten_cons, List.zipIdx_cons, List.map_cons, List.flatMap_cons]
    rw [List.zip_append (by simp), ih, c03_zip_replicate_right]

theorem c03_flatten_owner {β : Type} (tss : List (List β)) (k i : Nat) (T : β)
    (h1 : tss.flatten[k]? = some T)
    (h2 : (tss.zipIdx.map (fun p => List.replicate p.1.length p.2)).flatten[k]? = some i) :
    ∃ ts, tss[i]? = some ts ∧ T ∈ ts := by
  have hz : (tss.flatten.zip (tss.zipIdx.map (fun p => List.replicate p.1.length p.2)).flatten)[k]? = some (T, i) := by
    rw [List.getElem?_zip_eq_some]; exact ⟨h1, h2⟩
  rw [c03_zip_flatten_replicate] at hz
  have hm := List.mem_of_getElem? hz
  obtain ⟨p, hp, hq⟩ := List.mem_flatMap.mp hm
  obtain ⟨T', hT', he⟩ := List.mem_map.mp hq
  simp only [Prod.mk.injEq] at he
  obtain ⟨rfl, rfl⟩ := he
  refine ⟨p.1, ?_, hT'⟩
  have := List.mem_zipIdx_iff_getElem?.mp hp
  simpa using this

/-- in what `triangulate_nonconvex_multi` returns, triangle `k` with polygon number `i` is one of the triangles that
`triangulate_nonconvex` returned for polygon `i` -/
theorem c03_multi_owner (trLib : List (α × α) → List (Nat × Nat) → String → Option (TrData α))
    (coords : List (List (α × α))) (flat : List (Tri α)) (idx : List Nat)
    (h : Bridge.triangulateMultiSpec trLib coords = some (flat, idx)) (k i : Nat) (T : Tri α)
    (h1 : flat[k]? = some T) (h2 : idx[k]? = some i) :
    ∃ c ts, coords[i]? = some c ∧ Bridge.triangulateNonconvexSpec trLib c = some ts ∧ T ∈ ts := by
  unfold Bridge.triangulateMultiSpec at h
  obtain ⟨tss, hm, h⟩ := Option.bind_eq_some_iff.mp h
  obtain ⟨fl, hf, h⟩ := Option.bind_eq_some_iff.mp h
  obtain ⟨ix, hi, h⟩ := Option.map_eq_some_iff.mp h
  simp only [Prod.mk.injEq] at h
  obtain ⟨rfl, rfl⟩ := h
  have hfl : fl = tss.flatten := by
    unfold npConcatTris at hf
    split at hf
    · cases hf
    · split at hf
      · cases hf
      · simpa using hf.symm
  have hix : ix = (tss.zipIdx.map (fun p => List.replicate p.1.length p.2)).flatten := by
    unfold npConcatIdx at hi
    split at hi
    · cases hi
    · simpa using hi.symm
  subst hfl hix
  obtain ⟨ts, hts, hT⟩ := c03_flatten_owner tss k i T h1 h2
  have hg := Bridge.mapM_getElem? _ _ _ hm i
  rw [hts] at hg
  cases hc : coords[i]? with
  | none => rw [hc] at hg; simp at hg
  | some c =>
    rw [hc] at hg
    simp only [Option.bind_some] at hg
    exact ⟨c, ts, rfl, hg.symm, hT⟩

/-- under the contract of the library every triangle of `triangulate_nonconvex(c)` lies inside polygon `c` -/
theorem c03_nonconvex_inside (trLib : List (α × α) → List (Nat × Nat) → String → Option (TrData α))
    (inside : List (α × α) → α → α → Prop) (hlib : c03_TriLibInside trLib inside) (c : List (α × α)) (ts : List (Tri α))
    (h : Bridge.triangulateNonconvexSpec trLib c = some ts) (T : Tri α) (hT : T ∈ ts) (x y : α) (hin : c03_InTri T x y) :
    inside c x y := by
  unfold Bridge.triangulateNonconvexSpec at h
  split at h
  · cases h
  · obtain ⟨d, hd, hm⟩ := Option.bind_eq_some_iff.mp h
    obtain ⟨t, ht, htT⟩ := Bridge.mapM_mem _ _ _ hm T hT
    exact hlib c d hd t ht T htT x y hin

/-! ## 4. C03 — the convex fan: inside the polygon, proved -/

theorem c03_mem_zipWith_exists {β γ δ : Type} (f : β → γ → δ) : ∀ (l1 : List β) (l2 : List γ) (c : δ),
    c ∈ List.zipWith f l1 l2 → ∃ a ∈ l1, ∃ b ∈ l2, f a b = c
  | [], _, c, h => by simp at h
  | _ :: _, [], c, h => by simp at h
  | a :: l1, b :: l2, c, h => by
    simp only [List.zipWith_cons_cons, List.mem_cons] at h
    rcases h with rfl | h
    · exact ⟨a, by simp, b, by simp, rfl⟩
    · obtain ⟨a', ha, b', hb, e⟩ := c03_mem_zipWith_exists f l1 l2 c h
      exact ⟨a', List.mem_cons_of_mem _ ha, b', List.mem_cons_of_mem _ hb, e⟩

/-- the rows of a fan triangle are vertices of the polygon -/
theorem c03_fan_vertices (coords : List (α × α)) (T : Tri α) (h : T ∈ Bridge.fanTriangles coords) :
    ∃ p ∈ coords, ∃ q ∈ coords, ∃ r ∈ coords, T = triOfRows p q r := by
  cases coords with
  | nil => simp [Bridge.fanTriangles] at h
  | cons p rest =>
    obtain ⟨q, hq, r, hr, e⟩ := c03_mem_zipWith_exists _ _ _ _ h
    exact ⟨p, by simp, q, List.mem_cons_of_mem _ hq, r, List.mem_cons_of_mem _ (List.mem_of_mem_tail hr), e.symm⟩

theorem c03_rngDraws_mem (n : Nat) (rng : List α) (d : α × α × α) (h : d ∈ Bridge.rngDraws n rng) :
    d.2.1 ∈ rng ∧ d.2.2 ∈ rng := by
  unfold Bridge.rngDraws at h
  have h2 := (List.of_mem_zip (a := d.1) (b := d.2) h).2
  have h3 := List.of_mem_zip (a := d.2.1) (b := d.2.2) h2
  exact ⟨List.mem_of_mem_drop (List.mem_of_mem_take h3.1), List.mem_of_mem_drop (List.mem_of_mem_take h3.2)⟩

/-- **C03 for the fan triangulation (no contract needed)**, on `get_polygon_sample_convex` (interpretation of
`Gen.rel_sample_convex_seq`, running those of `Gen.rel_triangulate_seq`, `Gen.polygon_sample_triangles_seq`,
`Gen.triangle_areas_seq`, `Gen.unit_triangle_sample_seq`).  Whatever the code returns for a stream of numbers of
`[0, 1)`: exactly `num` positions; each is a convex combination of the vertices of a triangle that `triangulate`
(interpretation of its sequence) returns, whose rows are vertices of the polygon; hence each lies on the inner side of
every line that has all vertices of the polygon on its inner side — in the convex hull of the vertices, which *is* the
(closed) polygon when the polygon is convex, whatever its orientation or vertex count. -/
theorem c03_convex_sample_in_polygon (trLib : List (α × α) → List (Nat × Nat) → String → Option (TrData α))
    (coords : List (α × α)) (num : Nat) (rng rest : List α) (xs ys : List α)
    (hrng : ∀ u ∈ rng, 0 ≤ u ∧ u < 1)
    (h : sampleConvexSeq trLib coords num rng = some (some ((xs, ys), rest))) :
    xs.length = num ∧ ys.length = num ∧ num * 3 ≤ rng.length ∧ rest = rng.drop (num * 3) ∧
    ∀ (j : Nat) (x y : α), xs[j]? = some x → ys[j]? = some y →
      (∃ T, (∃ ts, triangulateSeq coords = some (some ts) ∧ T ∈ ts) ∧ c03_InTri T x y ∧
        ∃ p ∈ coords, ∃ q ∈ coords, ∃ r ∈ coords, T = triOfRows p q r) ∧
      ∀ a b c : α, (∀ v ∈ coords, a * v.1 + b * v.2 ≤ c) → a * x + b * y ≤ c := by
  rw [Bridge.get_polygon_sample_convex] at h
  simp only [Option.some.injEq] at h
  unfold Bridge.sampleConvexSpec at h
  obtain ⟨⟨⟨xs', ys', ks⟩, rest'⟩, hr, he⟩ := Option.map_eq_some_iff.mp h
  simp only [Bridge.polyDropTriangleNum, Prod.mk.injEq] at he
  obtain ⟨⟨rfl, rfl⟩, rfl⟩ := he
  have hseq : polygonSampleTrianglesSeq (Bridge.fanTriangles coords) num rng = some (some ((xs', ys', ks), rest')) := by
    rw [Bridge.get_polygon_sample_triangles, hr]
  obtain ⟨h3, hrest, _, ps, hps, rfl, rfl, rfl⟩ :=
    Bridge.get_polygon_sample_triangles_points _ _ _ _ _ _ _ hseq
  have hlen : ps.length = num := by
    have := congrArg List.length hps
    simpa [Bridge.rngDraws_length num rng h3] using this.symm
  refine ⟨by simpa using hlen, by simpa using hlen, h3, hrest, ?_⟩
  intro j x y hx hy
  obtain ⟨q, hq, rfl⟩ := c03_getElem?_map_some _ _ _ _ hx
  obtain ⟨q', hq', rfl⟩ := c03_getElem?_map_some _ _ _ _ hy
  rw [hq] at hq'
  cases hq'
  have hmem : some q ∈ (Bridge.rngDraws num rng).map (fun d => samplePoint (Bridge.fanTriangles coords) d.1 d.2.1 d.2.2) := by
    rw [hps]; exact List.mem_map.mpr ⟨q, List.mem_of_getElem? hq, rfl⟩
  obtain ⟨d, hdm, hdq⟩ := List.mem_map.mp hmem
  obtain ⟨m1, m2⟩ := c03_rngDraws_mem num rng d hdm
  obtain ⟨T, hT, s, t, hs0, ht0, hst, hxe, hye, hk⟩ :=
    C03.sample_in_chosen_triangle _ d.1 d.2.1 d.2.2 q.1 q.2.1 q.2.2 (hrng _ m1).1 (hrng _ m1).2 (hrng _ m2).1
      (hrng _ m2).2 hdq
  obtain ⟨p, hp, v, hv, r, hr', rfl⟩ := c03_fan_vertices coords T hT
  refine ⟨⟨_, ⟨_, Bridge.triangulate coords, hT⟩, ⟨s, t, hs0, ht0, hst, hxe, hye⟩, p, hp, v, hv, r, hr', rfl⟩, ?_⟩
  intro a b c hall
  have := C03.sample_in_halfplanes (triOfRows p v r) s t a b c hs0 ht0 hst (hall p hp) (hall v hv) (hall r hr')
  rw [C03.bary_convex, C03.bary_convex] at this
  rw [hxe, hye]
  exact this

/-! ## 2. C03 — polygon / multi-polygon positions lie inside the polygons -/

/-- what is known about one returned particle: its `(first, second)` coordinate `(x, y)` lies in the closed triangle
`T`, one of the triangles `triangulate_nonconvex` (interpretation of `Gen.rel_triangulate_nonconvex_seq`) returns for
the polygon `c` with the returned polygon number `i`; hence — contract of the library — inside that polygon -/
def c03_ParticleInside (trLib : List (α × α) → List (Nat × Nat) → String → Option (TrData α))
    (inside : List (α × α) → α → α → Prop) (coords : List (List (α × α))) (x y : α) (i : Nat) : Prop :=
  ∃ c T ts, coords[i]? = some c ∧ c03_returned (triangulateNonconvexSeq trLib c) = some ts ∧ T ∈ ts ∧ c03_InTri T x y ∧
    inside c x y

theorem c03_latlonSpec_inside (trLib : List (α × α) → List (Nat × Nat) → String → Option (TrData α))
    (inside : List (α × α) → α → α → Prop) (hlib : c03_TriLibInside trLib inside)
    (draws : List (α × α × α)) (lat lon : Coord α) (n : Nat) (xs ys : List α) (pn : List Nat)
    (hd : ∀ d ∈ draws, 0 ≤ d.2.1 ∧ d.2.1 < 1 ∧ 0 ≤ d.2.2 ∧ d.2.2 < 1)
    (h : Bridge.latlonFromPolySpec (c03_triCode trLib) draws lat lon n = some (xs, ys, pn)) :
    ∃ coords, Bridge.polyCoords lat lon = some coords ∧
      xs.length = min n draws.length ∧ ys.length = min n draws.length ∧ pn.length = min n draws.length ∧
      ∀ (j : Nat) (x y : α) (i : Nat), xs[j]? = some x → ys[j]? = some y → pn[j]? = some i → c03_ParticleInside trLib inside coords x y i := by
  unfold Bridge.latlonFromPolySpec at h
  split at h
  · obtain ⟨coords, hc, h⟩ := Option.bind_eq_some_iff.mp h
    obtain ⟨tp, ht, h⟩ := Option.bind_eq_some_iff.mp h
    obtain ⟨r, hs, h⟩ := Option.bind_eq_some_iff.mp h
    obtain ⟨p, hp, h⟩ := Option.map_eq_some_iff.mp h
    obtain ⟨_, ps, hps, rfl⟩ := Bridge.sampleTriangles_points tp.1 n draws r hs
    simp only [Prod.mk.injEq] at h
    obtain ⟨rfl, rfl, rfl⟩ := h
    have hlen : ps.length = min n draws.length := by
      have := congrArg List.length hps
      simpa using this.symm
    have hpn := Bridge.mapM_map_some _ _ _ hp
    have hplen : p.length = ps.length := by
      have := congrArg List.length hpn
      simpa using this.symm
    rw [c03_triCode_eq] at ht
    refine ⟨coords, hc, by simpa using hlen, by simpa using hlen, by rw [hplen, hlen], ?_⟩
    intro j x y i hx hy hi
    obtain ⟨q, hq, rfl⟩ := c03_getElem?_map_some _ _ _ _ hx
    obtain ⟨q', hq', rfl⟩ := c03_getElem?_map_some _ _ _ _ hy
    rw [hq] at hq'
    cases hq'
    have hqm : q ∈ ps := List.mem_of_getElem? hq
    -- the polygon number
    have hnum : tp.2[q.2.2]? = some i := by
      have h1 : ((ps.map (fun p => p.2.2)).map (fun k => tp.2[k]?))[j]? = (p.map some)[j]? := by rw [hpn]
      simp only [List.getElem?_map, hq, hi, Option.map_some] at h1
      simpa using h1
    -- the triangle
    have hmem : some q ∈ (draws.take n).map (fun d => samplePoint tp.1 d.1 d.2.1 d.2.2) := by
      rw [hps]; exact List.mem_map.mpr ⟨q, hqm, rfl⟩
    obtain ⟨d, hdm, hdq⟩ := List.mem_map.mp hmem
    obtain ⟨h1, h2, h3, h4⟩ := hd d (List.mem_of_mem_take hdm)
    obtain ⟨T, _, s, t, hs0, ht0, hst, hxe, hye, hk⟩ :=
      C03.sample_in_chosen_triangle tp.1 d.1 d.2.1 d.2.2 q.1 q.2.1 q.2.2 h1 h2 h3 h4 hdq
    obtain ⟨c, ts, hci, hts, hT⟩ := c03_multi_owner trLib coords tp.1 tp.2 (by rw [ht]) q.2.2 i T hk hnum
    have hin : c03_InTri T q.1 q.2.1 := ⟨s, t, hs0, ht0, hst, hxe, hye⟩
    refine ⟨c, T, ts, hci, ?_, hT, hin, c03_nonconvex_inside trLib inside hlib c ts hts T hT _ _ hin⟩
    simp [c03_returned, Bridge.triangulate_nonconvex, hts]
  · cases h

/-- **C03, polygon and multi-polygon clause, on `latlon_from_poly`** (interpretation of `Gen.latlon_from_poly_seq`, with
the interpretation of `Gen.rel_triangulate_nonconvex_multi_seq` as its triangulation).  Whatever the code returns:
exactly `min n (number of draws)` particles, and particle `j` — first coordinate `x`, second `y`, polygon number `i` —
is a convex combination of the vertices of a triangle handed back by the triangulation of polygon `i` of the vertex
rows `polyCoords lat lon`, hence (contract of the library) inside polygon `i`.  No assumption on orientation,
convexity, vertex count or disjointness.

Hypotheses: `hd` — the draws `(s, t)` of `_unit_triangle_sample` are numbers of `[0, 1)` (what `np.random.rand`
produces; forced by `C03.sample_in_chosen_triangle`); `hlib` — the contract of the external library (the statement of
the property for the library triangulation is this contract). -/
theorem c03_latlon_from_poly_inside (trLib : List (α × α) → List (Nat × Nat) → String → Option (TrData α))
    (inside : List (α × α) → α → α → Prop) (hlib : c03_TriLibInside trLib inside)
    (draws : List (α × α × α)) (lat lon : Coord α) (n : Nat) (xs ys : List α) (pn : List Nat)
    (hd : ∀ d ∈ draws, 0 ≤ d.2.1 ∧ d.2.1 < 1 ∧ 0 ≤ d.2.2 ∧ d.2.2 < 1)
    (h : latlonFromPolySeq (c03_triCode trLib) draws lat lon n = some (some (xs, ys, pn))) :
    ∃ coords, Bridge.polyCoords lat lon = some coords ∧
      xs.length = min n draws.length ∧ ys.length = min n draws.length ∧ pn.length = min n draws.length ∧
      ∀ (j : Nat) (x y : α) (i : Nat), xs[j]? = some x → ys[j]? = some y → pn[j]? = some i → c03_ParticleInside trLib inside coords x y i := by
  rw [Bridge.latlon_from_poly] at h
  simp only [Option.some.injEq] at h
  exact c03_latlonSpec_inside trLib inside hlib draws lat lon n xs ys pn hd h

section loc
variable [HasSqrt α] [HasSin α] [HasCos α] [HasPi α]

/-- the frame `get_location` returns for the forms without property columns -/
theorem c03_locFrame_nil (lon lat : List α) :
    Bridge.locFrame lon lat [] = [("longitude", lon.map Cell.num), ("latitude", lat.map Cell.num)] := rfl

/-- **C03, polygon and multi-polygon clause, on `get_location`** (interpretation of `Gen.get_location_seq`; it runs the
interpretations of `Gen.latlon_from_poly_seq` and of the triangulation sequences).  For a location `[lon_spec,
lat_spec]` whose `lon_spec` is a sequence (one polygon: two flat lists; several polygons: two lists of lists), whatever
`get_location` returns is the mapping `{longitude, latitude}` with `min num (number of draws)` entries each, and
particle `j` = `(lat, lon)` lies inside one of the given polygons (vertex rows `(lat, lon)`).
Hypotheses: as in `c03_latlon_from_poly_inside`; `hns` selects the polygon forms of `loc_conf`. -/
theorem c03_get_location_polygon_inside {φ : Type} (openFile : String → Option φ)
    (locFile : φ → Nat → Option (List α × List α × Frame α))
    (trLib : List (α × α) → List (Nat × Nat) → String → Option (TrData α))
    (inside : List (α × α) → α → α → Prop) (hlib : c03_TriLibInside trLib inside)
    (draws : List (α × α × α)) (lonSpec latSpec : Coord α) (num : Nat) (f : Frame α)
    (hns : ∀ x, lonSpec ≠ .scalar x)
    (hd : ∀ d ∈ draws, 0 ≤ d.2.1 ∧ d.2.1 < 1 ∧ 0 ≤ d.2.2 ∧ d.2.2 < 1)
    (h : getLocationSeq openFile locFile (c03_triCode trLib) draws (.pair lonSpec latSpec) num = some (some f)) :
    ∃ (coords : List (List (α × α))) (lons lats : List α), Bridge.polyCoords latSpec lonSpec = some coords ∧
      f = [("longitude", lons.map Cell.num), ("latitude", lats.map Cell.num)] ∧
      lons.length = min num draws.length ∧ lats.length = min num draws.length ∧
      ∀ (j : Nat) (lo la : α), lons[j]? = some lo → lats[j]? = some la →
        ∃ i, c03_ParticleInside trLib inside coords la lo i := by
  rw [Bridge.get_location] at h
  simp only [Option.some.injEq] at h
  have key : (Bridge.latlonFromPolySpec (c03_triCode trLib) draws latSpec lonSpec num).map
      (fun r => Bridge.locFrame r.2.1 r.1 []) = some f := by
    cases lonSpec with
    | scalar x => exact absurd rfl (hns x)
    | single lo => exact h
    | multi lo => exact h
  obtain ⟨r, hr, rfl⟩ := Option.map_eq_some_iff.mp key
  obtain ⟨xs, ys, pn⟩ := r
  obtain ⟨coords, hc, h1, h2, h3, hall⟩ := c03_latlonSpec_inside trLib inside hlib draws latSpec lonSpec num xs ys pn hd hr
  refine ⟨coords, ys, xs, hc, c03_locFrame_nil _ _, h2, h1, ?_⟩
  intro j lo la hlo hla
  have hj : j < pn.length := by
    have := (List.getElem?_eq_some_iff.mp hlo).1
    omega
  exact ⟨pn[j], hall j la lo pn[j] hla hlo (List.getElem?_eq_getElem hj)⟩

/-- one polygon given as `[lon list, lat list]`: every position lies inside *that* polygon -/
theorem c03_get_location_single_polygon_inside {φ : Type} (openFile : String → Option φ)
    (locFile : φ → Nat → Option (List α × List α × Frame α))
    (trLib : List (α × α) → List (Nat × Nat) → String → Option (TrData α))
    (inside : List (α × α) → α → α → Prop) (hlib : c03_TriLibInside trLib inside)
    (draws : List (α × α × α)) (lonL latL : List α) (num : Nat) (f : Frame α)
    (hd : ∀ d ∈ draws, 0 ≤ d.2.1 ∧ d.2.1 < 1 ∧ 0 ≤ d.2.2 ∧ d.2.2 < 1)
    (h : getLocationSeq openFile locFile (c03_triCode trLib) draws (.pair (.single lonL) (.single latL)) num
      = some (some f)) :
    ∃ (lons lats : List α), f = [("longitude", lons.map Cell.num), ("latitude", lats.map Cell.num)] ∧
      lons.length = min num draws.length ∧ lats.length = min num draws.length ∧
      ∀ (j : Nat) (lo la : α), lons[j]? = some lo → lats[j]? = some la → inside (latL.zip lonL) la lo := by
  obtain ⟨coords, lons, lats, hc, hf, h1, h2, hall⟩ :=
    c03_get_location_polygon_inside openFile locFile trLib inside hlib draws _ _ num f (by intro x hx; cases hx) hd h
  refine ⟨lons, lats, hf, h1, h2, ?_⟩
  intro j lo la hlo hla
  obtain ⟨i, c, T, ts, hci, _, _, _, hin⟩ := hall j lo la hlo hla
  have hcc : coords = [latL.zip lonL] := by
    simp only [Bridge.polyCoords] at hc
    split at hc
    · simpa using hc.symm
    · cases hc
  subst hcc
  cases i with
  | zero => simp at hci; subst hci; exact hin
  | succ i => simp at hci

/-! ## 3. C03 — metric offsets -/

/-- a position `(lat, lon)` converted back to metres relative to the centre with the generated
`degree_diff_to_metric` formula, as `(north, east)` — the order of the vertex rows `(lat, lon)` -/
def c03_backToMetres (clon clat la lo : α) : α × α :=
  ((Gen.deg_to_metric (lo - clon) (la - clat) clat).2, (Gen.deg_to_metric (lo - clon) (la - clat) clat).1)

/-- a triangle with `(lat, lon)` vertex rows converted back to metres, vertex by vertex -/
def c03_triToMetres (clon clat : α) (T : Tri α) : Tri α :=
  ⟨(c03_backToMetres clon clat T.x1 T.y1).1, (c03_backToMetres clon clat T.x1 T.y1).2,
   (c03_backToMetres clon clat T.x2 T.y2).1, (c03_backToMetres clon clat T.x2 T.y2).2,
   (c03_backToMetres clon clat T.x3 T.y3).1, (c03_backToMetres clon clat T.x3 T.y3).2⟩

/-- the polygon handed to the triangulation by `get_location_offset`: centre + offsets converted to degrees with the
generated `metric_diff_to_degrees` formula at the centre latitude; rows `(lat, lon)` -/
def c03_offsetVerts (clon clat : α) (ox oy : List α) : List (α × α) :=
  (oy.zip ox).map (fun p => (clat + (Gen.metric_to_deg p.2 p.1 clat).2, clon + (Gen.metric_to_deg p.2 p.1 clat).1))

/-- at a fixed reference latitude the conversion to metres is linear: it maps convex combinations to convex
combinations -/
theorem c03_backToMetres_inTri (clon clat : α) (T : Tri α) (la lo : α) (h : c03_InTri T la lo) :
    c03_InTri (c03_triToMetres clon clat T) (c03_backToMetres clon clat la lo).1 (c03_backToMetres clon clat la lo).2 := by
  obtain ⟨s, t, hs, ht, hst, rfl, rfl⟩ := h
  refine ⟨s, t, hs, ht, hst, ?_, ?_⟩
  · simp only [c03_triToMetres, c03_backToMetres, Gen.deg_to_metric]
    generalize (sqrt _ : α) = R
    generalize (180.0 : α) = c
    ring
  · simp only [c03_triToMetres, c03_backToMetres, Gen.deg_to_metric]
    generalize (cos _ : α) = C
    generalize (180.0 : α) = c
    generalize (6378137.0 : α) = a
    ring


/-- **C03, conversion clause**: the generated degree → metre formula undoes the generated metre → degree formula, and
vice versa, at every fixed reference latitude at which the conversion is defined (`π ≠ 0`, `cos φ ≠ 0`: not a pole; the
meridional radius term `≠ 0`).  (`C03.metric_deg_inverse` / `deg_metric_inverse` with only the operations the formulas
use.) -/
theorem c03_metric_degree_inverse (lat : α) (hpi : (pi : α) ≠ 0)
    (hc : cos (lat * pi / 180.0) ≠ 0)
    (hr : sqrt ((6378137.0 * sin (lat * pi / 180.0)) * (6378137.0 * sin (lat * pi / 180.0)) +
        (6356752.314245 * cos (lat * pi / 180.0)) * (6356752.314245 * cos (lat * pi / 180.0))) ≠ 0) :
    (∀ dx dy : α, Gen.deg_to_metric (Gen.metric_to_deg dx dy lat).1 (Gen.metric_to_deg dx dy lat).2 lat = (dx, dy)) ∧
    (∀ dlon dlat : α,
      Gen.metric_to_deg (Gen.deg_to_metric dlon dlat lat).1 (Gen.deg_to_metric dlon dlat lat).2 lat = (dlon, dlat)) := by
  have h180 : (180.0 : α) ≠ 0 := by norm_num
  have ha : (6378137.0 : α) ≠ 0 := by norm_num
  constructor
  · intro dx dy
    unfold Gen.deg_to_metric Gen.metric_to_deg
    simp only []
    generalize sqrt ((6378137.0 * sin (lat * pi / 180.0)) * (6378137.0 * sin (lat * pi / 180.0)) +
          (6356752.314245 * cos (lat * pi / 180.0)) * (6356752.314245 * cos (lat * pi / 180.0))) = R at hr ⊢
    generalize cos (lat * pi / 180.0) = C at hc ⊢
    refine Prod.ext ?_ ?_
    · simp only []; field_simp
    · simp only []; field_simp
  · intro dlon dlat
    unfold Gen.deg_to_metric Gen.metric_to_deg
    simp only []
    generalize sqrt ((6378137.0 * sin (lat * pi / 180.0)) * (6378137.0 * sin (lat * pi / 180.0)) +
          (6356752.314245 * cos (lat * pi / 180.0)) * (6356752.314245 * cos (lat * pi / 180.0))) = R at hr ⊢
    generalize cos (lat * pi / 180.0) = C at hc ⊢
    refine Prod.ext ?_ ?_
    · simp only []; field_simp
    · simp only []; field_simp

/-- the same on the interpretations of the statement sequences `Gen.rel_metric_diff_to_degrees_seq` and
`Gen.rel_degree_diff_to_metric_seq`: neither function raises, and each undoes the other -/
theorem c03_metric_degree_inverse_seq (lat : α) (hpi : (pi : α) ≠ 0)
    (hc : cos (lat * pi / 180.0) ≠ 0)
    (hr : sqrt ((6378137.0 * sin (lat * pi / 180.0)) * (6378137.0 * sin (lat * pi / 180.0)) +
        (6356752.314245 * cos (lat * pi / 180.0)) * (6356752.314245 * cos (lat * pi / 180.0))) ≠ 0) :
    (∀ dx dy : α, ∃ p, metricToDegSeq dx dy lat = some (some p) ∧ degToMetricSeq p.1 p.2 lat = some (some (dx, dy))) ∧
    (∀ dlon dlat : α, ∃ q, degToMetricSeq dlon dlat lat = some (some q) ∧
      metricToDegSeq q.1 q.2 lat = some (some (dlon, dlat))) := by
  obtain ⟨h1, h2⟩ := c03_metric_degree_inverse lat hpi hc hr
  constructor
  · intro dx dy
    exact ⟨_, Bridge.metric_diff_to_degrees dx dy lat, by rw [Bridge.degree_diff_to_metric, h1]⟩
  · intro dlon dlat
    exact ⟨_, Bridge.degree_diff_to_metric dlon dlat lat, by rw [Bridge.metric_diff_to_degrees, h2]⟩

/-- every vertex of the polygon handed to the triangulation converts back to its offset in metres *exactly*
(`degree_diff_to_metric ∘ metric_diff_to_degrees = id` at the centre latitude) -/
theorem c03_offsetVerts_back (clon clat : α) (ox oy : List α) (hpi : (pi : α) ≠ 0)
    (hc : cos (clat * pi / 180.0) ≠ 0)
    (hr : sqrt ((6378137.0 * sin (clat * pi / 180.0)) * (6378137.0 * sin (clat * pi / 180.0)) +
        (6356752.314245 * cos (clat * pi / 180.0)) * (6356752.314245 * cos (clat * pi / 180.0))) ≠ 0) :
    (c03_offsetVerts clon clat ox oy).map (fun v => c03_backToMetres clon clat v.1 v.2) = oy.zip ox := by
  unfold c03_offsetVerts
  rw [List.map_map]
  conv_rhs => rw [← List.map_id (oy.zip ox)]
  apply List.map_congr_left
  intro p _
  have h := (c03_metric_degree_inverse clat hpi hc hr).1 p.2 p.1
  simp only [Function.comp, c03_backToMetres, add_sub_cancel_left, h, id]

/-- **C03, metric-offset clause, on `get_location`** (interpretation of `Gen.get_location_seq`, running those of
`Gen.get_location_offset_seq`, `Gen.latlon_from_poly_seq` and of the triangulation sequences; the conversions are the
generated formulas `Gen.metric_to_deg` / `Gen.deg_to_metric`, which `Bridge.metric_diff_to_degrees` /
`degree_diff_to_metric` identify with the interpretations of their statement sequences).
For `loc_conf = {center: [clon, clat], offset: [ox, oy]}` (one polygon of offsets in metres east / north), whatever
`get_location` returns is `{longitude, latitude}` with `min num (number of draws)` entries, and
* the polygon handed to the triangulation is `c03_offsetVerts` = centre + converted offsets, and its vertices converted back
  to metres are the offsets `(oy_i, ox_i)` exactly;
* every particle, converted back to metres, is a convex combination of the metre images of the vertices of a triangle
  the triangulation handed back for that polygon;
* hence — contract of the library read in the metre chart around the centre — inside the offset polygon `oy.zip ox`
  (rows `(north, east)`).
Hypotheses: `hpi`, `hc`, `hr` — the conversion is defined at the centre latitude (`π ≠ 0`, `cos φ ≠ 0`: not a pole, the
meridional radius term `≠ 0`; needed by `c03_metric_degree_inverse`; `c03_conversion_defined_real` discharges them over `ℝ`
for every latitude in `(-89, 89)`); `hd` — draws in `[0, 1)`; `hlib` — the contract of the library, for the region
`insideM` of a polygon given in metres and pulled back to degrees by the (invertible, linear) chart. -/
theorem c03_get_location_offset_inside {φ : Type} (openFile : String → Option φ)
    (locFile : φ → Nat → Option (List α × List α × Frame α))
    (trLib : List (α × α) → List (Nat × Nat) → String → Option (TrData α))
    (insideM : List (α × α) → α → α → Prop) (clon clat : α) (ox oy : List α)
    (hlib : c03_TriLibInside trLib (fun c la lo =>
      insideM (c.map (fun v => c03_backToMetres clon clat v.1 v.2)) (c03_backToMetres clon clat la lo).1
        (c03_backToMetres clon clat la lo).2))
    (draws : List (α × α × α)) (num : Nat) (f : Frame α)
    (hpi : (pi : α) ≠ 0) (hc : cos (clat * pi / 180.0) ≠ 0)
    (hr : sqrt ((6378137.0 * sin (clat * pi / 180.0)) * (6378137.0 * sin (clat * pi / 180.0)) +
        (6356752.314245 * cos (clat * pi / 180.0)) * (6356752.314245 * cos (clat * pi / 180.0))) ≠ 0)
    (hd : ∀ d ∈ draws, 0 ≤ d.2.1 ∧ d.2.1 < 1 ∧ 0 ≤ d.2.2 ∧ d.2.2 < 1)
    (h : getLocationSeq openFile locFile (c03_triCode trLib) draws
      (.offset ⟨some (clon, clat), (.single ox, .single oy)⟩) num = some (some f)) :
    ∃ (lons lats : List α), f = [("longitude", lons.map Cell.num), ("latitude", lats.map Cell.num)] ∧
      lons.length = min num draws.length ∧ lats.length = min num draws.length ∧
      (c03_offsetVerts clon clat ox oy).map (fun v => c03_backToMetres clon clat v.1 v.2) = oy.zip ox ∧
      ∀ (j : Nat) (lo la : α), lons[j]? = some lo → lats[j]? = some la →
        (∃ T ts, c03_returned (triangulateNonconvexSeq trLib (c03_offsetVerts clon clat ox oy)) = some ts ∧ T ∈ ts ∧
          c03_InTri (c03_triToMetres clon clat T) (c03_backToMetres clon clat la lo).1 (c03_backToMetres clon clat la lo).2) ∧
        insideM (oy.zip ox) (c03_backToMetres clon clat la lo).1 (c03_backToMetres clon clat la lo).2 := by
  rw [Bridge.get_location_offset_form] at h
  simp only [Option.some.injEq] at h
  obtain ⟨r, hr', rfl⟩ := Option.map_eq_some_iff.mp h
  simp only [Bridge.locationOffsetSpec, Coord.mapArr, Coord.map] at hr'
  obtain ⟨⟨xs, ys, pn⟩, hq, rfl⟩ := Option.map_eq_some_iff.mp hr'
  obtain ⟨coords, hcs, h1, h2, h3, hall⟩ := c03_latlonSpec_inside trLib _ hlib draws _ _ num xs ys pn hd hq
  have hback := c03_offsetVerts_back clon clat ox oy hpi hc hr
  have hz : (List.map (fun d => clat + d) (List.map (latDiff clat) oy)).zip
      (List.map (fun d => clon + d) (List.map (lonDiff clat) ox)) = c03_offsetVerts clon clat ox oy := by
    rw [List.map_map, List.map_map, List.zip_map]
    unfold c03_offsetVerts
    apply List.map_congr_left
    intro p _
    rfl
  have hcc : coords = [c03_offsetVerts clon clat ox oy] := by
    simp only [Bridge.polyCoords] at hcs
    split at hcs
    · rw [hz] at hcs; simpa using hcs.symm
    · cases hcs
  subst hcc
  refine ⟨ys, xs, rfl, h2, h1, hback, ?_⟩
  intro j lo la hlo hla
  have hj : j < pn.length := by
    have := (List.getElem?_eq_some_iff.mp hlo).1
    omega
  obtain ⟨c, T, ts, hci, hts, hT, hin, hins⟩ := hall j la lo pn[j] hla hlo (List.getElem?_eq_getElem hj)
  have hc0 : c = c03_offsetVerts clon clat ox oy := by
    cases hi : pn[j] with
    | zero => rw [hi] at hci; simpa using hci.symm
    | succ i => rw [hi] at hci; simp at hci
  subst hc0
  refine ⟨⟨T, ts, hts, hT, c03_backToMetres_inTri clon clat T la lo hin⟩, ?_⟩
  rw [hback] at hins
  exact hins

end loc
/-! ## 5. C03 — GeoJSON: positions inside a polygon of the layer, properties of the owning feature -/

theorem c03_returned_eq_some {β : Type} (o : Option (Option β)) (b : β) : c03_returned o = some b ↔ o = some (some b) := by
  rcases o with _ | _ | c <;> simp [c03_returned]

theorem c03_lookup_map_key {β : Type} (g : String → β) (l : List String) (c : String) (h : c ∈ l) :
    lookup (l.map (fun k => (k, g k))) c = some (g c) := by
  induction l with
  | nil => simp at h
  | cons a l ih =>
    unfold lookup
    simp only [List.map_cons, List.find?_cons]
    by_cases hac : a = c
    · subst hac; simp
    · have : (a == c) = false := by simpa using hac
      simp only [this]
      have hc : c ∈ l := by
        rcases List.mem_cons.mp h with e | e
        · exact absurd e.symm hac
        · exact e
      exact ih hc

theorem c03_zip_map_same {β γ δ : Type} (f : β → γ) (g : β → δ) (l : List β) :
    (l.map f).zip (l.map g) = l.map (fun x => (f x, g x)) := by
  induction l with
  | nil => rfl
  | cons a l ih => simp [ih]

/-- the vertex rows `latlon_from_poly` builds from the rings of the layer: per ring its positions with the columns
swapped, `(lat, lon)` = (column 1, column 0) -/
theorem c03_polyCoords_flat (flat : List (Nat × List (α × α))) (coords : List (List (α × α)))
    (h : Bridge.polyCoords (.multi (flat.map (fun p => p.2.map (fun c => c.2))))
      (.multi (flat.map (fun p => p.2.map (fun c => c.1)))) = some coords) :
    coords = flat.map (fun p => p.2.map (fun c => (c.2, c.1))) := by
  simp only [Bridge.polyCoords, stackCoords, c03_zip_map_same, List.mapM_map] at h
  have := Bridge.mapM_of_forall
    ((fun p : List α × List α => if p.1.length = p.2.length then some (p.1.zip p.2) else none) ∘
      (fun x : Nat × List (α × α) => (x.2.map (fun c => c.2), x.2.map (fun c => c.1))))
    (fun p => p.2.map (fun c => (c.2, c.1))) flat (by intro a _; simp [c03_zip_map_same])
  rw [this] at h
  simpa using h.symm

/-- what `get_location_file` returned, particle by particle -/
theorem c03_geojson_core {φ : Type} (readJson : φ → Option (GeoData α)) (upper : String → String)
    (trLib : List (α × α) → List (Nat × Nat) → String → Option (TrData α))
    (inside : List (α × α) → α → α → Prop) (hlib : c03_TriLibInside trLib inside)
    (draws : List (α × α × α)) (file : φ) (num : Nat) (lons lats : List α) (attrs : Frame α)
    (hd : ∀ d ∈ draws, 0 ≤ d.2.1 ∧ d.2.1 < 1 ∧ 0 ≤ d.2.2 ∧ d.2.2 < 1)
    (h : getLocationFileSeq readJson upper (c03_triCode trLib) draws file num = some (some (lons, lats, attrs))) :
    ∃ (data : GeoData α) (layer : Layer α) (feats : List (Feature α)) (byParticle : DF α),
      readJson file = some data ∧ Bridge.firstLayer data = some layer ∧ layer.features = some feats ∧
      attrs = byParticle.toDict ∧
      byParticle.cols = seriesCols (feats.map (fun ft => ft.properties.getD [])) ∧
      lons.length = min num draws.length ∧ lats.length = min num draws.length ∧
      ∀ (j : Nat) (lo la : α), lons[j]? = some lo → lats[j]? = some la →
        ∃ (i : Nat) (ft : Feature α) (ps : List (List (α × α))) (poly : List (α × α)),
          feats[i]? = some ft ∧ c03_returned (featurePolygonsSeq upper ft) = some ps ∧ poly ∈ ps ∧
          inside (poly.map (fun c => (c.2, c.1))) la lo ∧
          ∀ c ∈ byParticle.cols, ∃ col, lookup byParticle.toDict c = some col ∧
            col[j]? = some ((lookup (ft.properties.getD []) c).getD Cell.nan) := by
  obtain ⟨data, layer, feats, pss, r, byParticle, h1, h2, h3, h4, h6, rfl, rfl, rfl, hcols, hrows⟩ :=
    Bridge.get_location_file_rows readJson upper (c03_triCode trLib) draws file num lons lats attrs h
  obtain ⟨xs, ys, pn⟩ := r
  obtain ⟨coords, hc, l1, l2, l3, hall⟩ := c03_latlonSpec_inside trLib inside hlib draws _ _ num xs ys pn hd h6
  have hcoords := c03_polyCoords_flat _ _ hc
  subst hcoords
  refine ⟨data, layer, feats, byParticle, h1, h2, h3, rfl, hcols, l2, l1, ?_⟩
  intro j lo la hlo hla
  have hj : j < pn.length := by
    have := (List.getElem?_eq_some_iff.mp hlo).1
    simp only at this l2 l3
    omega
  have hk : pn[j]? = some pn[j] := List.getElem?_eq_getElem hj
  obtain ⟨c, T, ts, hci, _, _, _, hins⟩ := hall j la lo pn[j] hla hlo hk
  obtain ⟨⟨i, poly⟩, hp, rfl⟩ := c03_getElem?_map_some _ _ _ _ hci
  obtain ⟨ps, hps, hpoly⟩ := Bridge.flatWithId_owner pss pn[j] i poly hp
  have hg := Bridge.mapM_getElem? _ _ _ h4 i
  rw [hps] at hg
  cases hft : feats[i]? with
  | none => rw [hft] at hg; simp at hg
  | some ft =>
    rw [hft] at hg
    simp only [Option.bind_some] at hg
    refine ⟨i, ft, ps, poly, hft, by rw [Bridge.feature_polygons]; simpa [c03_returned] using hg.symm, hpoly, hins, ?_⟩
    intro c hcm
    have hrow : byParticle.rows[j]? = some ((seriesCols (feats.map (fun ft => ft.properties.getD []))).map
        (fun c => (c, (lookup (ft.properties.getD []) c).getD Cell.nan))) := by
      rw [hrows j]
      simp only [hk, Option.bind_some, hp, Bridge.dfOfSeries_row, List.getElem?_map, hft, Option.map_some]
    refine ⟨_, c03_lookup_map_key _ _ c hcm, ?_⟩
    rw [List.getElem?_map, hrow]
    simp only [Option.map_some]
    rw [hcols] at hcm
    rw [c03_lookup_map_key _ _ c hcm]
    rfl

theorem c03_seriesCols_nodup (ss : List (List (String × Cell α))) : (seriesCols ss).Nodup := by
  unfold seriesCols
  generalize ss.flatMap (fun r => r.map (fun p => p.1)) = l
  have key : ∀ (l acc : List String), acc.Nodup →
      (l.foldl (fun acc c => if acc.contains c then acc else acc ++ [c]) acc).Nodup := by
    intro l
    induction l with
    | nil => intro acc h; exact h
    | cons c l ih =>
      intro acc h
      simp only [List.foldl_cons]
      apply ih
      split
      · exact h
      · rename_i hc
        have hc' : c ∉ acc := by simpa using hc
        rw [List.nodup_append]
        refine ⟨h, by simp, ?_⟩
        intro a ha b hb
        simp only [List.mem_singleton] at hb
        subst hb
        intro e; subst e; exact hc' ha
  exact key l [] List.nodup_nil

theorem c03_lookup_filter {β : Type} (q : String × β → Bool) (c : String) (l : List (String × β))
    (hq : ∀ p ∈ l, (p.1 == c) = true → q p = true) : lookup (l.filter q) c = lookup l c := by
  induction l with
  | nil => rfl
  | cons a l ih =>
    have ih' := ih (fun p hp => hq p (List.mem_cons_of_mem _ hp))
    unfold lookup at ih' ⊢
    by_cases hqa : q a = true
    · rw [List.filter_cons_of_pos hqa]
      simp only [List.find?_cons]
      cases (a.1 == c)
      · exact ih'
      · rfl
    · rw [List.filter_cons_of_neg hqa]
      have hac : (a.1 == c) = false := by
        cases hb : (a.1 == c) with
        | false => rfl
        | true => exact absurd (hq a List.mem_cons_self hb) hqa
      simp only [List.find?_cons, hac]
      exact ih'

section loc2
variable [HasSqrt α] [HasSin α] [HasCos α] [HasPi α]

/-- **C03, GeoJSON clause, on `get_location`** (interpretation of `Gen.get_location_seq`, with the interpretation of
`Gen.get_location_file_seq` — which runs those of `Gen.polygons_from_feature_seq` and `Gen.latlon_from_poly_seq` — as
its file reader and that of `Gen.rel_triangulate_nonconvex_multi_seq` as the triangulation).  For a stream object, or
a file name that opens, whatever `get_location` returns is a mapping with the `min num (number of draws)` sampled
positions under `longitude` / `latitude`, and for every particle `j` there is a feature `i` of the first layer such
that
* `(lat, lon)` lies inside one of the polygons `get_polygons_from_feature_geometry` (interpretation of
  `Gen.polygons_from_feature_seq`) returns for the geometry of that feature (a Polygon's outer ring, or one of the outer
  rings of a MultiPolygon, closing position dropped; vertex rows swapped to `(lat, lon)`), and
* in every property column `c` (the union of the property names of the layer, `longitude` / `latitude` excepted) the
  cell of particle `j` is the value of `c` in the property table of feature `i` (NaN if the feature has no such
  property).
Hypotheses: `hd`, `hlib` as in `c03_latlon_from_poly_inside`; `hconf` names the two GeoJSON forms of `loc_conf`. -/
theorem c03_get_location_geojson {φ : Type} (openFile : String → Option φ)
    (readJson : φ → Option (GeoData α)) (upper : String → String)
    (trLib : List (α × α) → List (Nat × Nat) → String → Option (TrData α))
    (inside : List (α × α) → α → α → Prop) (hlib : c03_TriLibInside trLib inside)
    (draws : List (α × α × α)) (conf : LocConf α φ) (file : φ) (num : Nat) (f : Frame α)
    (hconf : conf = .stream file ∨ ∃ name, conf = .fileName name ∧ openFile name = some file)
    (hd : ∀ d ∈ draws, 0 ≤ d.2.1 ∧ d.2.1 < 1 ∧ 0 ≤ d.2.2 ∧ d.2.2 < 1)
    (h : getLocationSeq openFile (c03_locFileCode readJson upper (c03_triCode trLib) draws) (c03_triCode trLib) draws conf num
      = some (some f)) :
    ∃ (lons lats : List α) (feats : List (Feature α)) (cols : List String),
      (∃ data layer, readJson file = some data ∧ Bridge.firstLayer data = some layer ∧ layer.features = some feats) ∧
      cols = seriesCols (feats.map (fun ft => ft.properties.getD [])) ∧
      lookup f "longitude" = some (lons.map Cell.num) ∧ lookup f "latitude" = some (lats.map Cell.num) ∧
      lons.length = min num draws.length ∧ lats.length = min num draws.length ∧
      ∀ (j : Nat) (lo la : α), lons[j]? = some lo → lats[j]? = some la →
        ∃ (i : Nat) (ft : Feature α) (ps : List (List (α × α))) (poly : List (α × α)),
          feats[i]? = some ft ∧ c03_returned (featurePolygonsSeq upper ft) = some ps ∧ poly ∈ ps ∧
          inside (poly.map (fun c => (c.2, c.1))) la lo ∧
          ∀ c ∈ cols, c ≠ "longitude" → c ≠ "latitude" → ∃ col, lookup f c = some col ∧
            col[j]? = some ((lookup (ft.properties.getD []) c).getD Cell.nan) := by
  rw [Bridge.get_location] at h
  simp only [Option.some.injEq] at h
  have key : (c03_locFileCode readJson upper (c03_triCode trLib) draws file num).map
      (fun r => Bridge.locFrame r.1 r.2.1 r.2.2) = some f := by
    rcases hconf with rfl | ⟨name, rfl, ho⟩
    · exact h
    · simpa [Bridge.locationSpec, ho] using h
  obtain ⟨⟨lons, lats, attrs⟩, hr, rfl⟩ := Option.map_eq_some_iff.mp key
  have hseq := (c03_returned_eq_some _ _).mp hr
  obtain ⟨data, layer, feats, byParticle, h1, h2, h3, rfl, hcols, l1, l2, hall⟩ :=
    c03_geojson_core readJson upper trLib inside hlib draws file num lons lats attrs hd hseq
  have hn : ((DF.toDict byParticle).map (fun p => p.1)).Nodup := by
    have : (DF.toDict byParticle).map (fun p => p.1) = byParticle.cols := by
      simp [DF.toDict, List.map_map, Function.comp_def]
    rw [this, hcols]
    exact c03_seriesCols_nodup _
  refine ⟨lons, lats, feats, byParticle.cols, ⟨data, layer, h1, h2, h3⟩, hcols,
    Bridge.locFrame_lookup_lon _ _ _, Bridge.locFrame_lookup_lat _ _ _, l1, l2, ?_⟩
  intro j lo la hlo hla
  obtain ⟨i, ft, ps, poly, hft, hps, hpoly, hins, hprops⟩ := hall j lo la hlo hla
  refine ⟨i, ft, ps, poly, hft, hps, hpoly, hins, ?_⟩
  intro c hc hc1 hc2
  obtain ⟨col, hcol, hcell⟩ := hprops c hc
  refine ⟨col, ?_, hcell⟩
  rw [Bridge.locFrame_eq_cons _ _ _ hn]
  have e1 : ("longitude" == c) = false := by simpa using Ne.symm hc1
  have e2 : ("latitude" == c) = false := by simpa using Ne.symm hc2
  have : lookup (("longitude", lons.map Cell.num) :: ("latitude", lats.map Cell.num) ::
      Bridge.locProps (DF.toDict byParticle)) c = lookup (Bridge.locProps (DF.toDict byParticle)) c := by
    simp only [lookup, List.find?_cons, e1, e2]
  rw [this, Bridge.locProps, c03_lookup_filter _ c _ ?_, hcol]
  intro p _ hp
  have hpc : p.1 = c := eq_of_beq hp
  simp [hpc, hc1, hc2]

end loc2

/-! ## 6. C03 — point locations -/
section loc3
variable [HasSqrt α] [HasSin α] [HasCos α] [HasPi α]

/-- **C03, point clause, on `get_location`** (interpretation of `Gen.get_location_seq`): for a location `[lon, lat]` of
two numbers the code never raises and returns exactly `{longitude: [lon] * num, latitude: [lat] * num}` — the point is
reproduced exactly for every particle, for every particle count, whatever the triangulation, the file system and the
random draws are.  No hypotheses.  (The bridge `Bridge.get_location_point` uses the operations of the scalar type only,
so this holds verbatim for `Float`.) -/
theorem c03_point_exact {φ : Type} (openFile : String → Option φ)
    (locFile : φ → Nat → Option (List α × List α × Frame α))
    (tri : List (List (α × α)) → Option (List (Tri α) × List Nat)) (draws : List (α × α × α))
    (x y : α) (num : Nat) :
    ∃ f, getLocationSeq openFile locFile tri draws (.pair (.scalar x) (.scalar y)) num = some (some f) ∧
      f = [("longitude", List.replicate num (Cell.num x)), ("latitude", List.replicate num (Cell.num y))] ∧
      (∀ col, lookup f "longitude" = some col → col.length = num ∧ ∀ c ∈ col, c = Cell.num x) ∧
      (∀ col, lookup f "latitude" = some col → col.length = num ∧ ∀ c ∈ col, c = Cell.num y) := by
  refine ⟨_, Bridge.get_location_point openFile locFile tri draws x y num, by simp, ?_, ?_⟩
  · intro col h
    simp [lookup] at h
    subst h
    exact ⟨by simp, fun c hc => (List.mem_replicate.mp hc).2⟩
  · intro col h
    simp [lookup] at h
    subst h
    exact ⟨by simp, fun c hc => (List.mem_replicate.mp hc).2⟩

end loc3

/-! ## 7. C17 — the sampler is a fixed map of three uniform draws per particle -/

/-- **C17, structure of the sampler, on `get_polygon_sample_triangles`** (interpretation of
`Gen.polygon_sample_triangles_seq`, running those of `Gen.triangle_areas_seq` and `Gen.unit_triangle_sample_seq`).
Whatever the code returns, with `areas` what the interpretation of `triangle_areas` returns for the triangle array:
the stream held the `3 · num` numbers the code draws, and particle `i < num` is the image of *its own* three numbers
`u = rng[i]`, `s = rng[num + i]`, `t = rng[2 num + i]` (no number is used twice) under the fixed map
`(u, s, t) ↦ (Gen.rel_bary (vertices of triangle k) (fold (s, t)), k)`, `k = pickTriangle areas u`
(`np.searchsorted(cumarea / cumarea[-1], u)`), `fold` = the reflection of the upper half of the unit square.
For a stream of independent uniform numbers the particles are therefore independent, each distributed as the
push-forward of the uniform law on the unit cube under that map; `c17_triangle_choice_interval`,
`c17_triangle_choice_probability` and `c17_point_uniform_in_triangle` compute this push-forward.  No hypotheses. -/
theorem c17_particle_is_image_of_draws (tris : List (Tri α)) (n : Nat) (rng rest : List α) (xs ys : List α)
    (ks : List Nat) (h : polygonSampleTrianglesSeq tris n rng = some (some ((xs, ys, ks), rest))) :
    ∃ areas, triangleAreasSeq tris = some (some areas) ∧ areas.length = tris.length ∧ (∀ a ∈ areas, 0 ≤ a) ∧
      ∃ h3 : n * 3 ≤ rng.length, xs.length = n ∧ ys.length = n ∧ ks.length = n ∧
      ∀ (i : Nat) (hi : i < n),
        let u := rng[i]'(by omega)
        let s := rng[n + i]'(by omega)
        let t := rng[n * 2 + i]'(by omega)
        let k := pickTriangle areas u
        ∃ T, tris[k]? = some T ∧ ks[i]? = some k ∧
          xs[i]? = some (Gen.rel_bary T.x1 T.x2 T.x3 T.y1 T.y2 T.y3 (foldUnit s t).1 (foldUnit s t).2).1 ∧
          ys[i]? = some (Gen.rel_bary T.x1 T.x2 T.x3 T.y1 T.y2 T.y3 (foldUnit s t).1 (foldUnit s t).2).2 := by
  obtain ⟨h3, _, _, ps, hps, rfl, rfl, rfl⟩ := Bridge.get_polygon_sample_triangles_points _ _ _ _ _ _ _ h
  have hlen : ps.length = n := by
    have := congrArg List.length hps
    simpa [Bridge.rngDraws_length n rng h3] using this.symm
  refine ⟨tris.map triArea, Bridge.triangle_areas tris, by simp, ?_, h3, by simpa using hlen, by simpa using hlen,
    by simpa using hlen, ?_⟩
  · intro a ha
    obtain ⟨T, _, rfl⟩ := List.mem_map.mp ha
    exact C03.triArea_nonneg T
  · intro i hi
    have hd := Bridge.rngDraws_getElem? n rng i h3 hi
    have hi' : i < ps.length := by omega
    have e : ((Bridge.rngDraws n rng).map (fun d => samplePoint tris d.1 d.2.1 d.2.2))[i]? = (ps.map some)[i]? := by
      rw [hps]
    simp only [List.getElem?_map, hd, Option.map_some, List.getElem?_eq_getElem hi'] at e
    simp only [samplePoint] at e
    cases hT : tris[pickTriangle (tris.map triArea) rng[i]]? with
    | none => rw [hT] at e; simp at e
    | some T =>
      rw [hT] at e
      simp only [Option.some.injEq] at e
      refine ⟨T, hT, ?_, ?_, ?_⟩
      · simp only [List.getElem?_map, List.getElem?_eq_getElem hi', Option.map_some, ← e]
      · simp only [List.getElem?_map, List.getElem?_eq_getElem hi', Option.map_some, ← e, ← Bridge.rel_bary]
      · simp only [List.getElem?_map, List.getElem?_eq_getElem hi', Option.map_some, ← e, ← Bridge.rel_bary]

/-- **the fold, on `_unit_triangle_sample`** (interpretation of `Gen.unit_triangle_sample_seq`): column `j` of the array
the code returns is the pair `(rng[j], rng[num + j])` of the stream, reflected through the centre of the unit square
when it lies above the diagonal — the map written `foldUnit` in the other statements -/
theorem c17_unit_triangle_sample_fold (num : Nat) (rng : List α) (h : num * 2 ≤ rng.length) :
    unitTriangleSeq num rng =
      some (some
        ((((rng.take num).zip ((rng.drop num).take num)).map
            (fun p => (if 1 < p.1 + p.2 then (1 - p.1, 1 - p.2) else p).1),
          ((rng.take num).zip ((rng.drop num).take num)).map
            (fun p => (if 1 < p.1 + p.2 then (1 - p.1, 1 - p.2) else p).2)),
         rng.drop (num * 2))) ∧
    ∀ s t : α, foldUnit s t = if 1 < s + t then (1 - s, 1 - t) else (s, t) := by
  have hf : ∀ s t : α, foldUnit s t = if 1 < s + t then (1 - s, 1 - t) else (s, t) := by
    intro s t; unfold foldUnit; lits
  refine ⟨?_, hf⟩
  rw [Bridge.unit_triangle_sample, Bridge.unitTriangleSpec, if_pos h]
  simp only [List.map_map, Function.comp_def, hf]

/-- the bracket of the triangle choice: triangle `k` is chosen exactly for `u` in an interval `(lo, hi]` of `[0, 1]` of
length `areas[k] / total area` (`C17.pick_interval`, `pick_interval_length`, `normCum_last`) -/
theorem c17_pick_bracket (areas : List α) (tot : α) (k : Nat) (hk : k < areas.length) (ht : 0 < tot)
    (hpos : ∀ a ∈ areas, 0 ≤ a) (hlast : (cumsum areas).getLast? = some tot) :
    ∃ lo hi : α, 0 ≤ lo ∧ lo ≤ hi ∧ hi ≤ 1 ∧ hi - lo = areas[k] / tot ∧
      ∀ u : α, (lo < u → u ≤ hi → pickTriangle areas u = k) ∧
        (0 ≤ u → pickTriangle areas u = k → lo ≤ u ∧ u ≤ hi) := by
  have hlen := C17.normCum_length areas tot
  have hkl : k < (C17.normCum areas tot).length := by rw [hlen]; exact hk
  have hpw := List.pairwise_iff_getElem.mp (C17.normCum_pairwise areas tot ht hpos)
  have h0 : (0 : α) ≤ (C17.normCum areas tot)[0]'(by omega) := by
    rw [C17.pick_interval_length_zero areas tot (by omega)]
    exact div_nonneg (hpos _ (List.getElem_mem _)) ht.le
  have hge : ∀ (j : Nat) (hj : j < (C17.normCum areas tot).length), 0 ≤ (C17.normCum areas tot)[j] := by
    intro j hj
    rcases Nat.eq_zero_or_pos j with rfl | hjp
    · exact h0
    · exact le_trans h0 (hpw 0 j (by omega) hj hjp)
  have hle1 : (C17.normCum areas tot)[k] ≤ 1 := by
    have hl := C17.normCum_last areas tot ht hlast
    rw [List.getLast?_eq_getElem?] at hl
    have hidx : (C17.normCum areas tot).length - 1 < (C17.normCum areas tot).length := by omega
    rw [List.getElem?_eq_getElem hidx] at hl
    simp only [Option.some.injEq] at hl
    rcases Nat.lt_or_ge k ((C17.normCum areas tot).length - 1) with hlt | hge'
    · rw [← hl]; exact hpw k _ hkl hidx hlt
    · have : k = (C17.normCum areas tot).length - 1 := by omega
      subst this; exact hl.le
  have hiff := fun u => C17.pick_interval areas tot u k hk ht hpos hlast
  cases k with
  | zero =>
    refine ⟨0, (C17.normCum areas tot)[0], le_refl _, h0, hle1, ?_, ?_⟩
    · rw [sub_zero]; exact C17.pick_interval_length_zero areas tot (by omega)
    · intro u
      constructor
      · intro _ hu; exact (hiff u).mpr ⟨fun h => absurd h (lt_irrefl 0), hu⟩
      · intro hu hp; exact ⟨hu, ((hiff u).mp hp).2⟩
  | succ k =>
    have hkl' : k < (C17.normCum areas tot).length := by omega
    refine ⟨(C17.normCum areas tot)[k], (C17.normCum areas tot)[k + 1], hge k hkl',
      hpw k (k + 1) hkl' hkl (by omega), hle1, C17.pick_interval_length areas tot k hk, ?_⟩
    intro u
    constructor
    · intro h1 h2
      refine (hiff u).mpr ⟨fun _ => ?_, h2⟩
      simpa using h1
    · intro _ hp
      have := ((hiff u).mp hp)
      have h1 := this.1 (by omega)
      simp only [Nat.add_sub_cancel] at h1
      exact ⟨h1.le, this.2⟩

/-- **C17, area-proportional choice of the triangle, on the interpretations.**  With `areas` what the interpretation of
`Gen.triangle_areas_seq` returns for the triangle array (= the weights `get_polygon_sample_triangles` uses,
`c17_particle_is_image_of_draws`) and a positive total: `np.searchsorted(cumarea / cumarea[-1], u)` is triangle `k`
exactly for `u` in a half-open interval `(lo, hi] ⊆ [0, 1]` whose length is `areas[k] / total`: the *share of the area*.
The intervals of different triangles are disjoint (the choice is a function) and every `u ∈ [0, 1)` chooses a valid
triangle.  Hypothesis `ht`: the total area is positive (non-degenerate polygon). -/
theorem c17_triangle_choice_interval (tris : List (Tri α)) (areas : List α) (tot : α)
    (ha : triangleAreasSeq tris = some (some areas)) (hlast : (cumsum areas).getLast? = some tot) (ht : 0 < tot) :
    areas.length = tris.length ∧ (∀ a ∈ areas, 0 ≤ a) ∧
    (∀ u : α, u < 1 → pickTriangle areas u < tris.length) ∧
    ∀ (k : Nat) (hk : k < areas.length), ∃ lo hi : α, 0 ≤ lo ∧ lo ≤ hi ∧ hi ≤ 1 ∧ hi - lo = areas[k] / tot ∧
      ∀ u : α, (lo < u → u ≤ hi → pickTriangle areas u = k) ∧
        (0 ≤ u → pickTriangle areas u = k → lo ≤ u ∧ u ≤ hi) := by
  rw [Bridge.triangle_areas] at ha
  simp only [Option.some.injEq] at ha
  subst ha
  have hpos : ∀ a ∈ tris.map triArea, 0 ≤ a := by
    intro a ha
    obtain ⟨T, _, rfl⟩ := List.mem_map.mp ha
    exact C03.triArea_nonneg T
  have hne : tris.map triArea ≠ [] := by
    intro h; rw [h] at hlast; simp [Sample.cumsum] at hlast
  refine ⟨by simp, hpos, ?_, fun k hk => c17_pick_bracket _ tot k hk ht hpos hlast⟩
  intro u hu
  have := C03.pick_in_range (tris.map triArea) u hu hne hpos (fun t' h' => by rw [hlast] at h'; cases h'; exact ht)
  simpa using this

/-! ## 8. C17 — the weights of the fan add up to the area of the polygon -/

/-- **C17, the fan weights, on the interpretations** of `Gen.rel_triangulate_seq` and `Gen.triangle_areas_seq`: the
code never raises; the doubled *signed* areas of the triangles `triangulate` returns add up to the shoelace sum of the
polygon for every vertex list; and when the fan triangles have one orientation (as for a convex polygon, clockwise or
counter-clockwise) the weights `triangle_areas` returns add up to the area of the polygon (shoelace formula).  Together
with `c17_triangle_choice_interval` (share `areas[k] / total`) and `c17_point_uniform_in_triangle` this is the uniform
law on a convex polygon. -/
theorem c17_fan_weights_sum_to_area (coords : List (α × α)) :
    ∃ ts areas, triangulateSeq coords = some (some ts) ∧ triangleAreasSeq ts = some (some areas) ∧
      ts.length = coords.length - 2 ∧
      (∀ p rest, coords = p :: rest → (ts.map Bridge.triSignedArea2).sum = shoelace2 coords p.1 p.2) ∧
      (((∀ T ∈ ts, 0 ≤ Bridge.triSignedArea2 T) ∨ (∀ T ∈ ts, Bridge.triSignedArea2 T ≤ 0)) →
        areas.sum = polygonArea coords) := by
  refine ⟨_, _, Bridge.triangulate coords, Bridge.triangle_areas _, Bridge.fanTriangles_length coords, ?_, ?_⟩
  · intro p rest h; subst h; exact Bridge.fan_signed_area_sum p rest
  · intro h; exact Bridge.fan_area_sum coords h

/-! ## 9a. C17 — two-element range attributes -/

/-- **C17, range clause, on `get_attr`** (interpretation of `Gen.get_attr_seq`, running that of
`Gen.get_distribution_seq`): a two-element attribute `[lo, hi]` is the affine image `lo + (hi − lo) · u` of the next
`num` uniform draws, one draw per particle (`c17_range_uniform`: hence uniform on `[lo, hi)`).
Hypotheses forced by the code (`C04.range_values`): `hn` — for `num = 2` a two-element list is taken as the two values
themselves (the test `len(v) == 2 and num != 2` of the source); `hd` — the stream holds the `num` numbers drawn. -/
theorem c17_range_attribute_affine (lo hi : α) (byName : Bool) (num : Nat) (draws : List α) (hn : num ≠ 2)
    (hd : num ≤ draws.length) :
    getAttrSeq byName (.list [lo, hi]) num draws =
      some (some ((draws.take num).map (fun u => lo + (hi - lo) * u))) := by
  obtain ⟨cv, _, h⟩ := Bridge.get_attr_seq (α := α)
  rw [h]
  obtain ⟨vs, hv, _, rfl⟩ := C04.range_values cv lo hi num draws hn hd
  rw [hv]

end field

/-! ## 9. Over `ℝ`: the side conditions of the conversion, and uniformity as a measure statement -/
section real
open MeasureTheory

/-- `np.pi` over `ℝ` -/
@[reducible] noncomputable def c03_realPi : HasPi ℝ := ⟨Real.pi⟩
attribute [local instance] c03_realPi

/-- over `ℝ` with the standard `sin`, `cos`, `sqrt`, `π` the conversion is defined at every latitude of the property's
range `(-89, 89)` (indeed for `|lat| < 90`): the hypotheses `hpi`, `hc`, `hr` of `c03_metric_degree_inverse` and
`c03_get_location_offset_inside` hold -/
theorem c03_conversion_defined_real (lat : ℝ) (h1 : -89 < lat) (h2 : lat < 89) :
    (pi : ℝ) ≠ 0 ∧ cos (lat * pi / 180.0) ≠ 0 ∧
    sqrt ((6378137.0 * sin (lat * pi / 180.0)) * (6378137.0 * sin (lat * pi / 180.0)) +
        (6356752.314245 * cos (lat * pi / 180.0)) * (6356752.314245 * cos (lat * pi / 180.0))) ≠ 0 := by
  have hpi : (pi : ℝ) = Real.pi := rfl
  have hcos : 0 < Real.cos (lat * Real.pi / 180.0) := by
    apply Real.cos_pos_of_mem_Ioo
    have e : (180.0 : ℝ) = 180 := by norm_num
    rw [e]
    constructor <;> nlinarith [Real.pi_pos]
  refine ⟨by rw [hpi]; exact Real.pi_ne_zero, ?_, ?_⟩
  · rw [hpi]; exact ne_of_gt hcos
  · rw [hpi]
    show Real.sqrt _ ≠ 0
    rw [Real.sqrt_ne_zero']
    have hb : (6356752.314245 : ℝ) * Real.cos (lat * Real.pi / 180.0) ≠ 0 :=
      mul_ne_zero (by norm_num) (ne_of_gt hcos)
    exact add_pos_of_nonneg_of_pos (mul_self_nonneg _) (mul_self_pos.mpr hb)

/-- **C03, conversion clause at full strength over `ℝ`**: for every reference latitude in `(-89, 89)` the generated
`metric_diff_to_degrees` and `degree_diff_to_metric` formulas (WGS84 semi-axes) are mutual inverses -/
theorem c03_metric_degree_inverse_real (lat : ℝ) (h1 : -89 < lat) (h2 : lat < 89) :
    (∀ dx dy : ℝ, Gen.deg_to_metric (Gen.metric_to_deg dx dy lat).1 (Gen.metric_to_deg dx dy lat).2 lat = (dx, dy)) ∧
    (∀ dlon dlat : ℝ,
      Gen.metric_to_deg (Gen.deg_to_metric dlon dlat lat).1 (Gen.deg_to_metric dlon dlat lat).2 lat = (dlon, dlat)) := by
  obtain ⟨a, b, c⟩ := c03_conversion_defined_real lat h1 h2
  exact c03_metric_degree_inverse lat a b c

/-- **C17, "the triangle is picked with probability proportional to its area"**: for a uniform draw `u ∈ [0, 1)`
(Lebesgue measure on the unit interval) the probability that `np.searchsorted(cumarea / cumarea[-1], u)` is triangle `k`
equals `areas[k] / total area`, with `areas` what the interpretation of `Gen.triangle_areas_seq` returns.
Hypothesis `ht`: positive total area. -/
theorem c17_triangle_choice_probability (tris : List (Tri ℝ)) (areas : List ℝ) (tot : ℝ)
    (ha : triangleAreasSeq tris = some (some areas)) (hlast : (cumsum areas).getLast? = some tot) (ht : 0 < tot)
    (k : Nat) (hk : k < areas.length) :
    volume {u : ℝ | 0 ≤ u ∧ u < 1 ∧ pickTriangle areas u = k} = ENNReal.ofReal (areas[k] / tot) := by
  obtain ⟨_, _, _, hbr⟩ := c17_triangle_choice_interval tris areas tot ha hlast ht
  obtain ⟨lo, hi, h0, hlh, h1, hlen, hu⟩ := hbr k hk
  rw [← hlen]
  apply le_antisymm
  · rw [← Real.volume_Icc]
    apply measure_mono
    rintro u ⟨hu0, _, hp⟩
    exact (hu u).2 hu0 hp
  · rw [← Real.volume_Ioo]
    apply measure_mono
    rintro u ⟨hul, huh⟩
    exact ⟨by linarith, by linarith, (hu u).1 hul huh.le⟩

/-- the closed triangle as a set of the plane -/
def c17_triangleSet (T : Tri ℝ) : Set (ℝ × ℝ) := {q | c03_InTri T q.1 q.2}

theorem c17_triangleSet_eq (T : Tri ℝ) :
    c17_triangleSet T = C17M.aff (T.x1, T.y1) (T.x2, T.y2) (T.x3, T.y3) '' C17M.Tunit := by
  ext ⟨x, y⟩
  simp only [c17_triangleSet, c03_InTri, C17M.aff, C17M.Tunit, Set.mem_ofPred_eq, Set.mem_image, Prod.exists, Prod.mk.injEq,
    C03.bary_convex]
  constructor
  · rintro ⟨s, t, hs, ht, hst, rfl, rfl⟩; exact ⟨s, t, ⟨hs, ht, hst⟩, rfl, rfl⟩
  · rintro ⟨s, t, ⟨hs, ht, hst⟩, rfl, rfl⟩; exact ⟨s, t, hs, ht, hst, rfl, rfl⟩

/-- **C17, "the point is uniform in the triangle"**, as the push-forward of the uniform law on the draws: for a
non-degenerate triangle `T` (positive weight `Gen.rel_triangle_area`), the probability — Lebesgue measure on the unit
square `[0,1)²` of the two draws `(s, t)` — that the position `Gen.rel_bary T (fold (s, t))` computed by
`get_polygon_sample_triangles` (`c17_particle_is_image_of_draws`) falls in a measurable part `B` of the closed
triangle is `area B / area T`; and the Lebesgue area of the triangle *is* the weight `Gen.rel_triangle_area` the code
uses for the choice of the triangle.  Hence a polygon (a set of triangles) receives particles in proportion to its
area, and the positions are uniform within it. -/
theorem c17_point_uniform_in_triangle (T : Tri ℝ)
    (hT : 0 < Gen.rel_triangle_area (T.x2 - T.x1) (T.y2 - T.y1) (T.x3 - T.x1) (T.y3 - T.y1))
    (B : Set (ℝ × ℝ)) (hB : MeasurableSet B) (hsub : B ⊆ c17_triangleSet T) :
    volume (c17_triangleSet T) =
      ENNReal.ofReal (Gen.rel_triangle_area (T.x2 - T.x1) (T.y2 - T.y1) (T.x3 - T.x1) (T.y3 - T.y1)) ∧
    volume {p : ℝ × ℝ | p ∈ C17M.Q ∧
        Gen.rel_bary T.x1 T.x2 T.x3 T.y1 T.y2 T.y3 (foldUnit p.1 p.2).1 (foldUnit p.1 p.2).2 ∈ B} =
      MeasureTheory.volume B / ENNReal.ofReal (Gen.rel_triangle_area (T.x2 - T.x1) (T.y2 - T.y1) (T.x3 - T.x1) (T.y3 - T.y1)) := by
  have hvol := C17M.volume_triangle_eq_triArea T
  rw [Bridge.rel_triangle_area T, ← c17_triangleSet_eq] at hvol
  rw [← Bridge.rel_triangle_area T] at hT
  have hdet : C17M.det (T.x1, T.y1) (T.x2, T.y2) (T.x3, T.y3) ≠ 0 := by
    intro h0
    rw [C17.triangle_areas_abs] at hT
    simp only [C17M.det] at h0
    rw [h0] at hT
    simp at hT
  refine ⟨hvol, ?_⟩
  rw [← hvol, c17_triangleSet_eq]
  rw [c17_triangleSet_eq] at hsub
  rw [← C17M.sample_uniform_on_triangle _ _ _ hdet B hB hsub]
  congr 1
  ext p
  simp only [Set.mem_ofPred_eq, Set.mem_inter_iff, Set.mem_preimage, Function.comp_apply, C17M.fold_eq_foldUnit, C17M.aff,
    ← Bridge.rel_bary]
  exact and_comm

/-- **C17, range clause**: the affine map of `c17_range_attribute_affine` pushes the uniform law on `[0, 1)` to the
uniform law on `[lo, hi)`: the probability of a measurable `B ⊆ [lo, hi)` is `length B / (hi − lo)` -/
theorem c17_range_uniform (lo hi : ℝ) (h : lo < hi) (B : Set ℝ) (hB : MeasurableSet B) (hsub : B ⊆ Set.Ico lo hi) :
    volume {u : ℝ | 0 ≤ u ∧ u < 1 ∧ lo + (hi - lo) * u ∈ B} = volume B / ENNReal.ofReal (hi - lo) := by
  have hpos : 0 < hi - lo := by linarith
  have hset : {u : ℝ | 0 ≤ u ∧ u < 1 ∧ lo + (hi - lo) * u ∈ B} =
      (fun u => (hi - lo) * u) ⁻¹' ((fun x => lo + x) ⁻¹' B) := by
    ext u
    simp only [Set.mem_ofPred_eq, Set.mem_preimage]
    constructor
    · rintro ⟨_, _, hb⟩; exact hb
    · intro hb
      obtain ⟨h1, h2⟩ := hsub hb
      refine ⟨?_, ?_, hb⟩
      · by_contra hneg
        have hneg' := not_le.mp hneg
        nlinarith
      · by_contra hneg
        have hneg' := not_lt.mp hneg
        nlinarith
  rw [hset, Real.volume_preimage_mul_left (ne_of_gt hpos), measure_preimage_add, abs_of_pos (inv_pos.mpr hpos),
    ENNReal.ofReal_inv_of_pos hpos, ENNReal.div_eq_inv_mul]

theorem c17_pick_measurable (areas : List ℝ) (tot : ℝ) (k : Nat) (hk : k < areas.length) (ht : 0 < tot)
    (hpos : ∀ a ∈ areas, 0 ≤ a) (hlast : (cumsum areas).getLast? = some tot) :
    MeasurableSet {u : ℝ | 0 ≤ u ∧ u < 1 ∧ pickTriangle areas u = k} := by
  have hiff := fun u => C17.pick_interval areas tot u k hk ht hpos hlast
  simp only [hiff]
  refine (measurableSet_le measurable_const measurable_id).inter
    ((measurableSet_lt measurable_id measurable_const).inter (MeasurableSet.inter ?_
      (measurableSet_le measurable_id measurable_const)))
  by_cases h0 : 0 < k
  · simp only [h0, forall_true_left]
    exact measurableSet_lt measurable_const measurable_id
  · simp only [h0, IsEmpty.forall_iff]
    exact MeasurableSet.univ

/-- **C17, "the polygons of a multi-polygon or GeoJSON layer receive particles in proportion to their areas"**, for
the weights the code uses: with `polynum` the polygon number of every triangle (second component of what
`triangulate_nonconvex_multi` returns) the probability that a uniform draw `u ∈ [0, 1)` chooses a triangle of polygon
`i` is (the sum of the weights `areas[k]` of the triangles of polygon `i`) / (sum of all weights).
`…_partial`: that the weights of polygon `i` add up to *its area* is proved for the fan (`c17_fan_weights_sum_to_area`);
for the library triangulation it is the tiling part of the library's contract (the triangles of a polygon cover it and
overlap in null sets only), which is not formalised. -/
theorem c17_polygon_share_partial (tris : List (Tri ℝ)) (areas : List ℝ) (tot : ℝ)
    (ha : triangleAreasSeq tris = some (some areas)) (hlast : (cumsum areas).getLast? = some tot) (ht : 0 < tot)
    (polynum : List Nat) (i : Nat) :
    volume {u : ℝ | 0 ≤ u ∧ u < 1 ∧ polynum[pickTriangle areas u]? = some i} =
      ENNReal.ofReal ((∑ k ∈ (Finset.range areas.length).filter (fun k => polynum[k]? = some i), areas.getD k 0) / tot)
    := by
  obtain ⟨hl, hpos, hrange, _⟩ := c17_triangle_choice_interval tris areas tot ha hlast ht
  set F := (Finset.range areas.length).filter (fun k => polynum[k]? = some i) with hF
  have hset : {u : ℝ | 0 ≤ u ∧ u < 1 ∧ polynum[pickTriangle areas u]? = some i} =
      ⋃ k ∈ F, {u : ℝ | 0 ≤ u ∧ u < 1 ∧ pickTriangle areas u = k} := by
    ext u
    simp only [Set.mem_ofPred_eq, Set.mem_iUnion, exists_prop, hF, Finset.mem_filter, Finset.mem_range]
    constructor
    · rintro ⟨h0, h1, hp⟩
      exact ⟨_, ⟨by rw [hl]; exact hrange u h1, hp⟩, h0, h1, rfl⟩
    · rintro ⟨k, ⟨_, hp⟩, h0, h1, rfl⟩
      exact ⟨h0, h1, hp⟩
  rw [hset, measure_biUnion_finset]
  · have hterm : ∀ k ∈ F, volume {u : ℝ | 0 ≤ u ∧ u < 1 ∧ pickTriangle areas u = k} =
        ENNReal.ofReal (areas.getD k 0 / tot) := by
      intro k hk
      have hk' : k < areas.length := by
        simp only [hF, Finset.mem_filter, Finset.mem_range] at hk; exact hk.1
      rw [c17_triangle_choice_probability tris areas tot ha hlast ht k hk']
      simp [List.getD_eq_getElem?_getD, List.getElem?_eq_getElem hk']
    rw [Finset.sum_congr rfl hterm, ← ENNReal.ofReal_sum_of_nonneg, Finset.sum_div]
    intro k hk
    have hk' : k < areas.length := by
      simp only [hF, Finset.mem_filter, Finset.mem_range] at hk; exact hk.1
    apply div_nonneg _ ht.le
    simp only [List.getD_eq_getElem?_getD, List.getElem?_eq_getElem hk', Option.getD_some]
    exact hpos _ (List.getElem_mem _)
  · intro a _ b _ hab
    simp only [Function.onFun]
    rw [Set.disjoint_left]
    rintro u ⟨_, _, h1⟩ ⟨_, _, h2⟩
    exact hab (h1.symm.trans h2)
  · intro k hk
    have hk' : k < areas.length := by
      simp only [hF, Finset.mem_filter, Finset.mem_range] at hk; exact hk.1
    exact c17_pick_measurable areas tot k hk' ht hpos hlast

end real

/-! ## 10. Non-vacuity: the hypotheses are satisfiable on concrete instances

Runs of the interpreters on concrete inputs are evaluated by the kernel (`decide +kernel`: plain kernel reduction, no compiled code);
scalars are `ℚ`.  For the runs that need `sin`, `cos`, `sqrt`, `π` on `ℚ` a flat chart is used (`cos = 1`, `sin = 0`,
`sqrt = id`, `π = 3`): these stand-ins only serve to *execute* the interpreters; the side conditions of the conversion
are discharged for the real functions in `c03_conversion_defined_real`. -/
section examples

theorem c03_exists_of_isSome {β : Type} (o : Option (Option β)) (h : (c03_returned o).isSome = true) :
    ∃ r, o = some (some r) := by
  rcases o with _ | _ | r
  · simp [c03_returned] at h
  · simp [c03_returned] at h
  · exact ⟨r, rfl⟩

/-- the region used in the examples: the convex hull of the vertex rows (for a convex polygon: the closed polygon) -/
def c03_hull {α : Type} [Field α] [LinearOrder α] (c : List (α × α)) (x y : α) : Prop :=
  ∀ a b k : α, (∀ v ∈ c, a * v.1 + b * v.2 ≤ k) → a * x + b * y ≤ k

/-- the contract `c03_TriLibInside` holds, for the hull region, for *every* library behaviour that invents no vertices -/
theorem c03_triLibInside_hull {α : Type} [Field α] [LinearOrder α] [IsStrictOrderedRing α]
    (trLib : List (α × α) → List (Nat × Nat) → String → Option (TrData α))
    (hv : ∀ c segs flag d, trLib c segs flag = some d → ∀ v ∈ d.vertices, v ∈ c) : c03_TriLibInside trLib c03_hull := by
  intro c d hd t _ T hT x y hin a b k hall
  unfold triAtRows at hT
  split at hT
  · rename_i p q r hp hq hr
    cases hT
    obtain ⟨s, t', hs, ht, hst, rfl, rfl⟩ := hin
    have h1 := hall p (hv _ _ _ _ hd p (List.mem_of_getElem? hp))
    have h2 := hall q (hv _ _ _ _ hd q (List.mem_of_getElem? hq))
    have h3 := hall r (hv _ _ _ _ hd r (List.mem_of_getElem? hr))
    have := C03.sample_in_halfplanes (triOfRows p q r) s t' a b k hs ht hst h1 h2 h3
    rw [C03.bary_convex, C03.bary_convex] at this
    exact this
  · cases hT

/-- … and so does the contract read in the metre chart around a centre (the form `c03_get_location_offset_inside`
uses): the chart is linear, so it maps the triangles of the library into the hull of the converted vertices -/
theorem c03_triLibInside_hull_metres {α : Type} [Field α] [LinearOrder α] [IsStrictOrderedRing α]
    [HasSqrt α] [HasSin α] [HasCos α] [HasPi α] (clon clat : α)
    (trLib : List (α × α) → List (Nat × Nat) → String → Option (TrData α))
    (hv : ∀ c segs flag d, trLib c segs flag = some d → ∀ v ∈ d.vertices, v ∈ c) :
    c03_TriLibInside trLib (fun c la lo =>
      c03_hull (c.map (fun v => c03_backToMetres clon clat v.1 v.2)) (c03_backToMetres clon clat la lo).1
        (c03_backToMetres clon clat la lo).2) := by
  intro c d hd t _ T hT x y hin a b k hall
  unfold triAtRows at hT
  split at hT
  · rename_i p q r hp hq hr
    cases hT
    obtain ⟨s, t', hs, ht, hst, ex, ey⟩ := c03_backToMetres_inTri clon clat (triOfRows p q r) x y hin
    have hm : ∀ v ∈ d.vertices, a * (c03_backToMetres clon clat v.1 v.2).1 + b * (c03_backToMetres clon clat v.1 v.2).2 ≤ k :=
      fun v hvm => hall _ (List.mem_map.mpr ⟨v, hv _ _ _ _ hd v hvm, rfl⟩)
    have h1 := hm p (List.mem_of_getElem? hp)
    have h2 := hm q (List.mem_of_getElem? hq)
    have h3 := hm r (List.mem_of_getElem? hr)
    have := C03.sample_in_halfplanes (c03_triToMetres clon clat (triOfRows p q r)) s t' a b k hs ht hst h1 h2 h3
    rw [C03.bary_convex, C03.bary_convex] at this
    rw [ex, ey]
    exact this
  · cases hT

/-- a library stand-in: one triangle, the first three vertices -/
def c03_trLibOne {α : Type} : List (α × α) → List (Nat × Nat) → String → Option (TrData α) :=
  fun c _ _ => some ⟨c, [(0, 1, 2)]⟩

theorem c03_trLibOne_inside : c03_TriLibInside (c03_trLibOne (α := ℚ)) c03_hull :=
  c03_triLibInside_hull _ (by intro c _ _ d h v hv; cases h; exact hv)

@[reducible] def c03_qSqrt : HasSqrt ℚ := ⟨fun x => x⟩
@[reducible] def c03_qSin : HasSin ℚ := ⟨fun _ => 0⟩
@[reducible] def c03_qCos : HasCos ℚ := ⟨fun _ => 1⟩
@[reducible] def c03_qPi : HasPi ℚ := ⟨3⟩
attribute [local instance] c03_qSqrt c03_qSin c03_qCos c03_qPi

/-- two particles: draws `(u, s, t)` in `[0, 1)` -/
def c03_exDraws : List (ℚ × ℚ × ℚ) := [(1/2, 1/4, 1/4), (9/10, 3/4, 1/2)]

theorem c03_exDraws_ok : ∀ d ∈ c03_exDraws, 0 ≤ d.2.1 ∧ d.2.1 < 1 ∧ 0 ≤ d.2.2 ∧ d.2.2 < 1 := by decide +kernel

/-- `c03_point_exact` has no hypotheses; a run: three particles at `(5, 60)` -/
example : getLocationSeq (φ := Unit) (fun _ => none) (fun _ _ => none) (c03_triCode (c03_trLibOne (α := ℚ))) c03_exDraws
    (.pair (.scalar 5) (.scalar 60)) 3 =
    some (some [("longitude", [.num 5, .num 5, .num 5]), ("latitude", [.num 60, .num 60, .num 60])]) := by
  decide +kernel

/-- `c03_latlon_from_poly_inside`, `c03_get_location_polygon_inside`, `c03_get_location_single_polygon_inside`: the
triangle `lon = [0, 4, 0]`, `lat = [0, 0, 3]`, two particles — the run returns, the draws are in `[0, 1)`, the contract
holds; the conclusion is then available -/
example : ∃ f, getLocationSeq (φ := Unit) (fun _ => none) (fun _ _ => none) (c03_triCode (c03_trLibOne (α := ℚ))) c03_exDraws
      (.pair (.single [0, 4, 0]) (.single [0, 0, 3])) 2 = some (some f) ∧
    ∃ lons lats : List ℚ, f = [("longitude", lons.map Cell.num), ("latitude", lats.map Cell.num)] ∧
      lons.length = 2 ∧ ∀ (j : Nat) (lo la : ℚ), lons[j]? = some lo → lats[j]? = some la →
        c03_hull ([0, 0, 3].zip [0, 4, 0]) la lo := by
  obtain ⟨f, hf⟩ := c03_exists_of_isSome (getLocationSeq (φ := Unit) (fun _ => none) (fun _ _ => none)
    (c03_triCode (c03_trLibOne (α := ℚ))) c03_exDraws (.pair (.single [0, 4, 0]) (.single [0, 0, 3])) 2) (by decide +kernel)
  obtain ⟨lons, lats, h1, h2, _, h4⟩ := c03_get_location_single_polygon_inside _ _ _ c03_hull c03_trLibOne_inside c03_exDraws
    _ _ 2 f c03_exDraws_ok hf
  exact ⟨f, hf, lons, lats, h1, h2, h4⟩

/-- a multi-polygon (two triangles given as lists of lists) -/
example : (c03_returned (getLocationSeq (φ := Unit) (fun _ => none) (fun _ _ => none) (c03_triCode (c03_trLibOne (α := ℚ))) c03_exDraws
    (.pair (.multi [[0, 4, 0], [10, 12, 10]]) (.multi [[0, 0, 3], [0, 0, 1]])) 2)).isSome = true := by
  decide +kernel

/-- `c03_get_location_offset_inside`: centre `(5, 60)`, offsets in metres; the run returns (flat chart), the conversion
hypotheses hold in the chart used — and for the real functions by `c03_conversion_defined_real` —, the contract in the
metre chart holds for the stand-in library (`c03_triLibInside_hull_metres`) -/
example : c03_TriLibInside (c03_trLibOne (α := ℚ)) (fun c la lo =>
    c03_hull (c.map (fun v => c03_backToMetres 5 60 v.1 v.2)) (c03_backToMetres 5 60 la lo).1 (c03_backToMetres 5 60 la lo).2) :=
  c03_triLibInside_hull_metres 5 60 _ (by intro c _ _ d h v hv; cases h; exact hv)

example : (c03_returned (getLocationSeq (φ := Unit) (fun _ => none) (fun _ _ => none) (c03_triCode (c03_trLibOne (α := ℚ))) c03_exDraws
      (.offset ⟨some (5, 60), (.single [0, 1000, 0], .single [0, 0, 500])⟩) 2)).isSome = true ∧
    (pi : ℚ) ≠ 0 ∧ cos ((60 : ℚ) * pi / 180.0) ≠ 0 ∧
    sqrt ((6378137.0 * sin ((60 : ℚ) * pi / 180.0)) * (6378137.0 * sin ((60 : ℚ) * pi / 180.0)) +
        (6356752.314245 * cos ((60 : ℚ) * pi / 180.0)) * (6356752.314245 * cos ((60 : ℚ) * pi / 180.0))) ≠ 0 := by
  refine ⟨by decide +kernel, by decide +kernel, by decide +kernel, by decide +kernel⟩

/-- GeoJSON: a layer with a Polygon feature and a MultiPolygon feature with different property tables -/
def c03_exUpper : String → String := fun s =>
  if s = "Polygon" then "POLYGON" else if s = "MultiPolygon" then "MULTIPOLYGON" else s

def c03_exLayer : GeoData ℚ := .layer ⟨some [
  ⟨some [("farm", .str "A"), ("weight", .num 2)],
    some ⟨"Polygon", .polygon [[(0, 0), (4, 0), (0, 3), (0, 0)]]⟩⟩,
  ⟨some [("farm", .str "B")],
    some ⟨"MultiPolygon", .multi [[[(10, 0), (12, 0), (10, 1), (10, 0)]], [[(20, 0), (21, 0), (20, 1), (20, 0)]]]⟩⟩]⟩

/-- `c03_get_location_geojson`: the run on a stream returns -/
example : (c03_returned (getLocationSeq (φ := Unit) (fun _ => none)
    (c03_locFileCode (fun _ => some c03_exLayer) c03_exUpper (c03_triCode (c03_trLibOne (α := ℚ))) c03_exDraws)
    (c03_triCode (c03_trLibOne (α := ℚ))) c03_exDraws (.stream ()) 2)).isSome = true := by
  decide +kernel

/-- `c03_convex_sample_in_polygon`: a square, two particles, a stream of six numbers of `[0, 1)` -/
example : (c03_returned (sampleConvexSeq (c03_trLibOne (α := ℚ)) [(0, 0), (1, 0), (1, 1), (0, 1)] 2
      [1/5, 4/5, 1/2, 3/4, 1/4, 7/8])).isSome = true ∧
    ∀ u ∈ ([1/5, 4/5, 1/2, 3/4, 1/4, 7/8] : List ℚ), 0 ≤ u ∧ u < 1 := by
  refine ⟨by decide +kernel, by decide +kernel⟩

/-- `c17_particle_is_image_of_draws`: two triangles of areas 6 and 2, two particles -/
example : (c03_returned (polygonSampleTrianglesSeq [(⟨0, 0, 0, 4, 3, 0⟩ : Tri ℚ), ⟨0, 0, 2, 0, 0, 2⟩] 2
      [1/5, 4/5, 1/2, 3/4, 1/4, 7/8])).isSome = true := by
  decide +kernel

/-- `c17_triangle_choice_interval`: areas 6 and 2, total 8 -/
example : triangleAreasSeq [(⟨0, 0, 0, 4, 3, 0⟩ : Tri ℚ), ⟨0, 0, 2, 0, 0, 2⟩] = some (some [6, 2]) ∧
    (cumsum [(6 : ℚ), 2]).getLast? = some 8 ∧ (0 : ℚ) < 8 := by
  refine ⟨by decide +kernel, by decide +kernel, by norm_num⟩

/-- `c17_fan_weights_sum_to_area` has no hypotheses; the orientation condition of its last clause on the unit square -/
example : ∀ T ∈ Bridge.fanTriangles [((0 : ℚ), (0 : ℚ)), (1, 0), (1, 1), (0, 1)], 0 ≤ Bridge.triSignedArea2 T := by
  decide +kernel

/-- `c17_range_attribute_affine`: `[10, 20]`, three particles -/
example : getAttrSeq false (.list [(10 : ℚ), 20]) 3 [1/2, 1/4, 3/4, 1/8] = some (some [15, 25/2, 35/2]) := by
  decide +kernel

end examples

section realExamples
open MeasureTheory
attribute [local instance] c03_realPi

/-- `c03_metric_degree_inverse_real` / `c03_conversion_defined_real`: latitude 60 -/
example : (pi : ℝ) ≠ 0 ∧ cos ((60 : ℝ) * pi / 180.0) ≠ 0 :=
  ⟨(c03_conversion_defined_real 60 (by norm_num) (by norm_num)).1,
   (c03_conversion_defined_real 60 (by norm_num) (by norm_num)).2.1⟩

/-- `c17_triangle_choice_probability`, `c17_polygon_share_partial`: areas 6 and 2 over `ℝ` -/
example : triangleAreasSeq [(⟨0, 0, 0, 4, 3, 0⟩ : Tri ℝ), ⟨0, 0, 2, 0, 0, 2⟩] = some (some [6, 2]) ∧
    (cumsum [(6 : ℝ), 2]).getLast? = some 8 ∧ (0 : ℝ) < 8 := by
  refine ⟨?_, ?_, by norm_num⟩
  · rw [Bridge.triangle_areas]
    norm_num [triArea, fabs]
  · norm_num [Sample.cumsum, Sample.cumsumFrom]

/-- `c17_point_uniform_in_triangle`: the right triangle with legs 3 and 4 has positive weight (6) -/
example : (0 : ℝ) < Gen.rel_triangle_area (3 - 0) (0 - 0) (0 - 0) (4 - 0) := by
  norm_num [Gen.rel_triangle_area, fabs]

/-- `c17_range_uniform`: `[10, 20)`, `B = [12, 13)` -/
example : volume {u : ℝ | 0 ≤ u ∧ u < 1 ∧ (10 : ℝ) + (20 - 10) * u ∈ Set.Ico (12 : ℝ) 13} =
    volume (Set.Ico (12 : ℝ) 13) / ENNReal.ofReal (20 - 10) :=
  c17_range_uniform 10 20 (by norm_num) _ measurableSet_Ico
    (fun x hx => ⟨by linarith [hx.1], by linarith [hx.2]⟩)

end realExamples

end OnCode
