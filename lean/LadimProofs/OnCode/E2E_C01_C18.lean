import LadimProofs.C01
import LadimProofs.C18
import LadimProofs.Bridge.Config
import LadimProofs.Bridge.ReleaseSeq
/-!
# C01 / C18 end to end — the property clauses about the interpretation of the current source

Property C01 — Release table is complete: one intact row per requested particle
STATEMENT: For every valid release configuration the generated table has exactly as many rows as the sum of the requested particle counts, every column has that length, each group contributes exactly its own count, and the values belonging to one particle (date, position, attributes) stay together in one row. The columns are the requested column list in that order, or by default date, longitude, latitude, depth followed by the attributes, and an attribute that a group does not define is 0 for that group's particles.
QUANTIFIER: all configurations: 1..k groups; per-group counts >= 0 (including 0 and 1); every mix of location forms (point, polygon, multi-polygon, metric offset, GeoJSON) and attribute forms; explicit `attrs` and implicit attributes; with and without a `columns` list; flat, list and grouped containers

Property C18 — Release generation is reproducible, whatever way the config is supplied
STATEMENT: With a seed, repeated runs give identical tables, and the same specification gives the same table whether passed as a mapping, a list of groups, a YAML stream, a YAML file or through the command line. The file written (tab-separated, no header) parses back to exactly the returned table, column by column, and invalid configurations are rejected with an error that names what is missing instead of producing a partial table.
QUANTIFIER: all valid configurations and seeds; all containers; all missing-key combinations for the error path

Every `c01_…` / `c18_…` theorem below is about `runMakeRelease … Gen.make_release_seq`,
`runSingleRelease … Gen.make_single_release_seq` (through the abbreviation `GroupIn.run g prog`) or
`runStrict cfgAtom cfgStep Gen.load_config_seq` (through the abbreviation `cfgOutcome prog c`): the statement
sequences regenerated from `release/makrel.py` on every run.  The bridges `Bridge.make_release_seq_full`,
`Bridge.make_single_release_seq_full`, `Bridge.load_config`, `Bridge.tail_run` and the model theorems of
`LadimProofs/C01.lean`, `C18.lean` are used as lemmas only.

Hypotheses.
* Table theorems (`c01_rows_are_group_rows`, `c01_table_shape`, `c01_row_integrity`, `c01_every_particle_has_row`,
  `c01_columns`, `c01_sorted_by_date`): the *only* hypothesis is "the interpreted `make_release` returned the table
  `(cols, rows)`"; `c01_valid_returns` shows that it does for every valid configuration (≥ 1 group, rectangular
  group frames, requested columns exist) and `c18_invalid_table_raises` that it raises otherwise.
  `c01_sorted_by_date` needs `date` among the requested columns (else the table has no date column).
* Forced by the bridge `make_single_release_seq_full` / the interpreter `relStep`: the value of
  `attrs_default = dict(depth=0.0)` is a free parameter of the interpreter; the theorems instantiate it with the
  one-column frame `[("depth", depth0)]` (what the source text says).  The interpreter takes `get_attrs`, `date_range`,
  `get_location` as already evaluated columns (`GroupIn`): the draws are inputs.
* `GroupIn.WF` (for `c01_single_release_values`, `c01_end_to_end`): the three mappings are Python dicts (no duplicate
  keys — a `Frame` is an association list, this is well-formedness of the encoding) and `get_location` returned
  `longitude` and `latitude` (otherwise the code raises, `c01_single_release_returns`).
* `load_config` theorems: the interpreter starts from a parsed object (`Container`, keys only); file names, streams,
  YAML and the command line are outside (their conditions are `false` in `cfgAtom`).

Stability of the sort: `c01_ties_keep_order` (rows with the same date keep the order of the concatenated groups, i.e.
group order and particle order inside a group — what C04's "verbatim in particle order" needs when a group is released
at one time).  Not connected (see the report): `to_csv` round trip, YAML stream / file / command line containers, the text
of the error message (only the list `not_present` it is formatted from, `…_partial`), and the link "same normalised
configuration ⇒ same evaluated groups" (`Container` carries keys, not values).
-/
open Ladim Ladim.Table Ladim.Seq

set_option linter.unusedSectionVars false
set_option linter.unusedVariables false
namespace OnCode
namespace Rel
variable {α : Type}

/-! ## helper lemmas (lists, `dictMerge`, `selectCols`); the theorems about the code start at `c01_…` -/

/-- the fold that `allCols` and (on keys) `dictMerge` perform: append the names that are new -/
def addKeys (acc l : List String) : List String :=
  l.foldl (fun acc c => if acc.contains c then acc else acc ++ [c]) acc

theorem allCols_eq (fs : List (Frame α)) : allCols fs = addKeys [] (fs.flatMap (fun f => f.map (·.1))) := rfl

theorem addKeys_prefix (acc l : List String) : ∃ rest, addKeys acc l = acc ++ rest := by
  unfold addKeys
  induction l generalizing acc with
  | nil => exact ⟨[], by simp⟩
  | cons c cs ih =>
    simp only [List.foldl_cons]
    split
    · exact ih acc
    · obtain ⟨r, hr⟩ := ih (acc ++ [c])
      exact ⟨c :: r, by rw [hr]; simp⟩

theorem addKeys_append (acc l₁ l₂ : List String) : addKeys acc (l₁ ++ l₂) = addKeys (addKeys acc l₁) l₂ := by
  simp [addKeys, List.foldl_append]

theorem addKeys_new (acc l : List String) (hnew : ∀ c ∈ l, c ∉ acc) (hnd : l.Nodup) : addKeys acc l = acc ++ l := by
  unfold addKeys
  induction l generalizing acc with
  | nil => simp
  | cons c cs ih =>
    simp only [List.foldl_cons]
    have hc : acc.contains c = false := by
      simpa using hnew c (by simp)
    simp only [hc, Bool.false_eq_true, if_false]
    rw [List.nodup_cons] at hnd
    rw [ih (acc ++ [c])]
    · simp
    · intro d hd
      simp only [List.mem_append, List.mem_singleton, not_or]
      exact ⟨hnew d (by simp [hd]), fun h => hnd.1 (h ▸ hd)⟩
    · exact hnd.2

theorem addKeys_mem (acc l : List String) (c : String) : c ∈ addKeys acc l ↔ c ∈ acc ∨ c ∈ l := by
  unfold addKeys
  induction l generalizing acc with
  | nil => simp
  | cons d ds ih =>
    simp only [List.foldl_cons, List.mem_cons]
    split
    · rename_i h
      rw [ih acc]
      have hd : d ∈ acc := by simpa using h
      constructor
      · rintro (h | h)
        · exact Or.inl h
        · exact Or.inr (Or.inr h)
      · rintro (h | rfl | h)
        · exact Or.inl h
        · exact Or.inl hd
        · exact Or.inr h
    · rw [ih (acc ++ [d])]
      simp only [List.mem_append, List.mem_singleton]
      tauto

theorem addKeys_nodup (acc l : List String) (h : acc.Nodup) : (addKeys acc l).Nodup := by
  unfold addKeys
  induction l generalizing acc with
  | nil => simpa
  | cons d ds ih =>
    simp only [List.foldl_cons]
    split
    · exact ih acc h
    · rename_i hc
      apply ih
      have hd : d ∉ acc := by simpa using hc
      rw [List.nodup_append]
      refine ⟨h, by simp, ?_⟩
      intro a ha b hb
      simp only [List.mem_singleton] at hb
      subst hb
      exact fun he => hd (he ▸ ha)

/-- keys of `{**base, **upd}`: the keys of `base`, then the new keys of `upd` in order -/
theorem dictMerge_keys {β : Type} (base upd : List (String × β)) :
    (dictMerge base upd).map (·.1) = addKeys (base.map (·.1)) (upd.map (·.1)) := by
  unfold dictMerge addKeys
  induction upd generalizing base with
  | nil => simp
  | cons kv rest ih =>
    simp only [List.foldl_cons, List.map_cons]
    have hany : base.any (fun p => p.1 == kv.1) = (base.map (·.1)).contains kv.1 := by
      induction base with
      | nil => simp
      | cons p ps ihp => simp [ihp]; rw [BEq.comm]
    rw [← hany]
    by_cases h : base.any (fun p => p.1 == kv.1)
    · simp only [h, if_true]
      rw [ih]
      congr 1
      rw [List.map_map]
      apply List.map_congr_left
      intro p _
      simp only [Function.comp]
      split <;> rfl
    · simp only [h, Bool.false_eq_true, if_false]
      rw [ih]
      simp

/-- value of `{**base, **upd}[k]`: the (last) value `upd` gives to `k`, else the value in `base` -/
theorem lookup_dictMerge_fold {β : Type} (base upd : List (String × β)) (k : String) :
    lookup (dictMerge base upd) k = upd.foldl (fun o kv => if kv.1 == k then some kv.2 else o) (lookup base k) := by
  unfold dictMerge
  induction upd generalizing base with
  | nil => simp
  | cons kv rest ih =>
    simp only [List.foldl_cons]
    rw [ih]
    congr 1
    by_cases h : base.any (fun p => p.1 == kv.1)
    · simp only [h, if_true]
      induction base with
      | nil => simp at h
      | cons p ps ihp =>
        simp only [lookup, List.map_cons, List.find?_cons] at ihp ⊢
        by_cases hp : p.1 == kv.1
        · simp only [hp, if_true]
          by_cases hk : kv.1 == k
          · have : p.1 == k := by rw [eq_of_beq hp]; exact hk
            simp [hk, this]
          · have : (p.1 == k) = false := by
              rw [eq_of_beq hp]; simpa using hk
            simp only [this, hk, Bool.false_eq_true, if_false]
            by_cases hps : ps.any (fun p => p.1 == kv.1)
            · have := ihp hps
              simpa [hk] using this
            · have hmap : ps.map (fun p => if (p.1 == kv.1) = true then (p.1, kv.2) else p) = ps := by
                conv_rhs => rw [← List.map_id ps]
                apply List.map_congr_left
                intro q hq
                have : (q.1 == kv.1) = false := by
                  rw [List.any_eq_true] at hps
                  by_contra hc
                  exact hps ⟨q, hq, by simpa using hc⟩
                simp [this]
              rw [hmap]
        · simp only [hp, Bool.false_eq_true, if_false]
          have hps : ps.any (fun p => p.1 == kv.1) := by
            simpa [hp] using h
          cases hpk : p.1 == k
          · simpa using ihp hps
          · have hk : (kv.1 == k) = false := by
              cases hkk : kv.1 == k
              · rfl
              · exfalso
                have := (eq_of_beq hpk).trans (eq_of_beq hkk).symm
                simp [this] at hp
            simp [hk]
    · simp only [h, Bool.false_eq_true, if_false]
      by_cases hk : kv.1 == k
      · simp only [hk, if_true]
        have hnone : base.find? (fun p => p.1 == k) = none := by
          rw [List.find?_eq_none]
          intro q hq hqk
          apply h
          rw [List.any_eq_true]
          exact ⟨q, hq, by rw [eq_of_beq hk]; exact hqk⟩
        simp [lookup, List.find?_append, hnone, hk]
      · simp only [hk, Bool.false_eq_true, if_false]
        simp only [lookup, List.find?_append]
        cases hf : base.find? (fun p => p.1 == k) <;> simp [hk]

theorem fold_absent {β : Type} (upd : List (String × β)) (k : String) (o : Option β) (h : ∀ p ∈ upd, p.1 ≠ k) :
    upd.foldl (fun o kv => if kv.1 == k then some kv.2 else o) o = o := by
  induction upd generalizing o with
  | nil => rfl
  | cons kv rest ih =>
    simp only [List.foldl_cons]
    have : (kv.1 == k) = false := by simpa using h kv (by simp)
    simp only [this, Bool.false_eq_true, if_false]
    exact ih o (fun p hp => h p (by simp [hp]))

theorem lookup_eq_none_iff {β : Type} (f : List (String × β)) (k : String) :
    lookup f k = none ↔ ∀ p ∈ f, p.1 ≠ k := by
  simp [lookup, List.find?_eq_none]

theorem lookup_isSome_iff {β : Type} (f : List (String × β)) (k : String) :
    (lookup f k).isSome ↔ k ∈ f.map (·.1) := by
  rw [← not_iff_not, Bool.not_eq_true, Option.isSome_eq_false_iff, Option.isNone_iff_eq_none, lookup_eq_none_iff]
  simp only [List.mem_map, not_exists, not_and]

/-- `{**base, **upd}[k]` for a key `upd` does not have -/
theorem lookup_dictMerge_absent {β : Type} (base upd : List (String × β)) (k : String)
    (h : lookup upd k = none) : lookup (dictMerge base upd) k = lookup base k := by
  rw [lookup_dictMerge_fold, fold_absent _ _ _ ((lookup_eq_none_iff upd k).1 h)]

/-- `{**base, **upd}[k]` for a key `upd` has (`upd` a dict: no duplicate keys) -/
theorem lookup_dictMerge_present {β : Type} (base upd : List (String × β)) (k : String) (v : β)
    (hnd : (upd.map (·.1)).Nodup) (h : lookup upd k = some v) : lookup (dictMerge base upd) k = some v := by
  rw [lookup_dictMerge_fold]
  generalize lookup base k = o
  induction upd generalizing o with
  | nil => simp [lookup] at h
  | cons kv rest ih =>
    simp only [List.foldl_cons]
    simp only [List.map_cons, List.nodup_cons] at hnd
    by_cases hk : kv.1 == k
    · simp only [hk, if_true]
      have hv : kv.2 = v := by simpa [lookup, List.find?_cons, hk] using h
      rw [fold_absent, hv]
      intro p hp he
      exact hnd.1 (by rw [eq_of_beq hk, ← he]; exact List.mem_map_of_mem hp)
    · simp only [hk, Bool.false_eq_true, if_false]
      apply ih hnd.2
      simpa [lookup, List.find?_cons, hk] using h

/-- `{**base, **upd}[k]`, `upd` a dict -/
theorem lookup_dictMerge {β : Type} (base upd : List (String × β)) (k : String)
    (hnd : (upd.map (·.1)).Nodup) : lookup (dictMerge base upd) k = (lookup upd k).or (lookup base k) := by
  cases h : lookup upd k with
  | none => simp [lookup_dictMerge_absent _ _ _ h]
  | some v => simp [lookup_dictMerge_present _ _ _ _ hnd h]

theorem dictMerge_keys_nodup {β : Type} (base upd : List (String × β)) (h : (base.map (·.1)).Nodup) :
    ((dictMerge base upd).map (·.1)).Nodup := by
  rw [dictMerge_keys]; exact addKeys_nodup _ _ h

theorem lookup_filter_lonlat {β : Type} (f : List (String × β)) (k : String) (h1 : k ≠ "longitude")
    (h2 : k ≠ "latitude") :
    lookup (f.filter (fun p => !(p.1 == "longitude" || p.1 == "latitude"))) k = lookup f k := by
  induction f with
  | nil => rfl
  | cons p f ih =>
    simp only [lookup] at ih ⊢
    rw [List.filter_cons]
    by_cases hp : (p.1 == "longitude" || p.1 == "latitude")
    · have hk : (p.1 == k) = false := by
        rw [Bool.or_eq_true] at hp
        rcases hp with hp | hp
        · rw [eq_of_beq hp]; simpa using fun h => h1 h.symm
        · rw [eq_of_beq hp]; simpa using fun h => h2 h.symm
      simp only [hp, Bool.not_true, Bool.false_eq_true, if_false, List.find?_cons, hk]
      exact ih
    · simp only [hp, Bool.not_false, if_true, List.find?_cons]
      cases (p.1 == k)
      · exact ih
      · rfl

/-! ### `frame[columns]` on a laid-out row -/

theorem idxOf_bind_map {β : Type} (cols : List String) (h : String → β) (c : String) :
    (cols.idxOf? c).bind (fun j => (cols.map h)[j]?) = if c ∈ cols then some (h c) else none := by
  induction cols with
  | nil => simp
  | cons x xs ih =>
    rw [List.idxOf?_cons]
    by_cases hx : x == c
    · have : x = c := eq_of_beq hx
      simp [this]
    · have hne : ¬ c = x := fun he => hx (by simp [he])
      simp only [hx, Bool.false_eq_true, if_false, List.mem_cons, hne, false_or]
      rw [← ih]
      cases xs.idxOf? c <;> simp

theorem mapM_some_of_forall {γ δ : Type} (g : γ → Option δ) (h : γ → δ) (l : List γ)
    (hg : ∀ a ∈ l, g a = some (h a)) : l.mapM g = some (l.map h) := by
  induction l with
  | nil => rfl
  | cons a as ih =>
    simp only [List.mapM_cons, hg a (by simp), ih (fun b hb => hg b (by simp [hb]))]
    rfl

theorem mapM_none_of_mem {γ δ : Type} (g : γ → Option δ) (l : List γ) (a : γ) (ha : a ∈ l) (hg : g a = none) :
    l.mapM g = none := by
  induction l with
  | nil => simp at ha
  | cons b bs ih =>
    simp only [List.mapM_cons]
    rcases List.mem_cons.1 ha with rfl | hm
    · simp [hg]
    · cases g b <;> simp [ih hm]

theorem mapM_eq_some_getD {γ δ : Type} (g : γ → Option δ) (d : δ) (l : List γ) (out : List δ)
    (h : l.mapM g = some out) : out = l.map (fun a => (g a).getD d) ∧ ∀ a ∈ l, (g a).isSome := by
  have hall : ∀ a ∈ l, (g a).isSome := by
    intro a ha
    cases hga : g a with
    | none => rw [mapM_none_of_mem g l a ha hga] at h; cases h
    | some v => rfl
  refine ⟨?_, hall⟩
  have := mapM_some_of_forall g (fun a => (g a).getD d) l (fun a ha => by
    have := hall a ha
    cases hga : g a with
    | none => simp [hga] at this
    | some v => rfl)
  rw [this] at h
  exact (Option.some.inj h).symm

variable (zero : α)

/-- `frame[want]` on the row of particle `i` of a group: the same particle laid out on the wanted columns; a
`KeyError` when a wanted column does not exist -/
theorem selectCols_rowOf (cols want : List String) (f : Frame α) (i : Nat) :
    selectCols cols want (rowOf zero cols f i) =
      if ∀ c ∈ want, c ∈ cols then some (rowOf zero want f i) else none := by
  unfold selectCols
  by_cases hw : ∀ c ∈ want, c ∈ cols
  · rw [if_pos hw]
    apply mapM_some_of_forall
    intro c hc
    rw [rowOf, idxOf_bind_map, if_pos (hw c hc)]
  · rw [if_neg hw]
    simp only [not_forall] at hw
    obtain ⟨c, hc, hcn⟩ := hw
    apply mapM_none_of_mem _ _ c hc
    rw [rowOf, idxOf_bind_map, if_neg hcn]

/-- the sort key of a laid-out row: the group's date string of that particle -/
theorem dateKey_rowOf (cols : List String) (f : Frame α) (i : Nat) (h : "date" ∈ cols) :
    dateKey cols (rowOf zero cols f i) =
      match fill zero ((lookup f "date").bind (fun col => col[i]?)) with
      | .str s => s
      | _ => "" := by
  have := idxOf_bind_map cols (fun c => fill zero ((lookup f c).bind (fun col => col[i]?))) "date"
  rw [if_pos h] at this
  unfold dateKey
  rw [rowOf]
  cases hidx : cols.idxOf? "date" with
  | none => simp [hidx] at this
  | some j =>
    simp only [hidx, Option.bind_some] at this
    simp only [this]
    cases fill zero ((lookup f "date").bind fun col => col[i]?) <;> rfl

/-! ### what a returned table is made of -/

theorem rowsOf_flat_length (cols : List String) (l : List (Frame α × Nat)) :
    (l.flatMap (fun g => rowsOf zero cols g.1 g.2)).length = (l.map (·.2)).sum := by
  induction l with
  | nil => simp
  | cons h t iht => simp [List.flatMap_cons, C01.rowsOf_length, iht]

theorem mem_flat_rows (cols : List String) (groups : List (Frame α × Nat)) (r : List (Cell α))
    (hr : r ∈ groups.flatMap (fun g => rowsOf zero cols g.1 g.2)) :
    ∃ g ∈ groups, ∃ i, i < g.2 ∧ r = rowOf zero cols g.1 i := by
  rw [List.mem_flatMap] at hr
  obtain ⟨g, hg, hr⟩ := hr
  simp only [rowsOf, List.mem_map, List.mem_range] at hr
  obtain ⟨i, hi, rfl⟩ := hr
  exact ⟨g, hg, i, hi, rfl⟩

/-- the exact outcome of the interpreted `make_release`, inverted: a returned table comes from a non-empty list of
rectangular group frames and is `Table.makeTable` of them -/
theorem run_inv {groups : List (Frame α × Nat)} {columns : Option (List String)} {hasSeed fname : Bool}
    {cols : List String} {rows : List (List (Cell α))}
    (h : runMakeRelease zero groups columns hasSeed fname Gen.make_release_seq = some (some (cols, rows))) :
    groups ≠ [] ∧ groups.all (fun g => frameOk g.1 g.2) = true ∧ makeTable zero groups columns = some (cols, rows) := by
  rw [Bridge.make_release_seq_full] at h
  have h := Option.some.inj h
  by_cases he : groups.isEmpty
  · rw [if_pos he] at h; cases h
  · rw [if_neg he] at h
    refine ⟨fun hn => he (by simp [hn]), ?_, h⟩
    unfold makeTable at h
    by_contra hok
    rw [if_neg hok] at h
    cases h

/-- the rows of a returned table are, up to the order, the rows of the groups laid out on the *returned* columns -/
theorem rows_perm {groups : List (Frame α × Nat)} {columns : Option (List String)}
    {cols : List String} {rows : List (List (Cell α))}
    (h : makeTable zero groups columns = some (cols, rows)) :
    rows.Perm (groups.flatMap (fun g => rowsOf zero cols g.1 g.2)) ∧
    ((∀ want, columns = some want → "date" ∈ want) →
      List.Pairwise (fun a b => dateKey cols a ≤ dateKey cols b) rows) := by
  unfold makeTable at h
  split_ifs at h with hok
  cases columns with
  | none =>
    simp only [Option.some.injEq, Prod.mk.injEq] at h
    obtain ⟨rfl, rfl⟩ := h
    exact ⟨C01.sortRows_perm _ _, fun _ => C01.sortRows_sorted _ _⟩
  | some want =>
    simp only [Option.map_eq_some_iff, Prod.mk.injEq] at h
    obtain ⟨rs, hrs, rfl, rfl⟩ := h
    set all := (concatFill zero groups).1 with hall
    set full := (concatFill zero groups).2 with hfull
    have hfull' : full = groups.flatMap (fun g => rowsOf zero all g.1 g.2) := rfl
    obtain ⟨hout, hsome⟩ := mapM_eq_some_getD (selectCols all want) [] _ _ hrs
    have hperm := C01.sortRows_perm all full
    have hsorted := C01.sortRows_sorted all full
    by_cases hw : ∀ c ∈ want, c ∈ all
    · have hG : ∀ (f : Frame α) (i : Nat), (selectCols all want (rowOf zero all f i)).getD [] = rowOf zero want f i := by
        intro f i; rw [selectCols_rowOf, if_pos hw]; rfl
      constructor
      · rw [hout]
        refine (hperm.map _).trans ?_
        rw [hfull', List.map_flatMap]
        apply List.Perm.of_eq
        congr 1
        funext g
        simp only [rowsOf, List.map_map]
        apply List.map_congr_left
        intro i _
        exact hG g.1 i
      · intro hdate
        have hd : "date" ∈ want := hdate want rfl
        rw [hout, List.pairwise_map]
        refine hsorted.imp_of_mem ?_
        intro a b ha hb hab
        obtain ⟨ga, _, ia, _, rfl⟩ := mem_flat_rows zero all groups a (hfull' ▸ hperm.mem_iff.1 ha)
        obtain ⟨gb, _, ib, _, rfl⟩ := mem_flat_rows zero all groups b (hfull' ▸ hperm.mem_iff.1 hb)
        rw [hG, hG, dateKey_rowOf zero want _ _ hd, dateKey_rowOf zero want _ _ hd]
        rw [dateKey_rowOf zero all _ _ (hw _ hd), dateKey_rowOf zero all _ _ (hw _ hd)] at hab
        exact hab
    · -- a wanted column does not exist: `frame[columns]` raises on every row, so there is no row at all
      have hnil : sortRows all full = [] := by
        cases hs : sortRows all full with
        | nil => rfl
        | cons a as =>
          exfalso
          have ha : a ∈ sortRows all full := by rw [hs]; simp
          obtain ⟨g, _, i, _, rfl⟩ := mem_flat_rows zero all groups a (hfull' ▸ hperm.mem_iff.1 ha)
          have := hsome _ ha
          rw [selectCols_rowOf, if_neg hw] at this
          cases this
      have hfnil : full = [] := by
        have := hperm.length_eq
        rw [hnil] at this
        exact List.eq_nil_of_length_eq_zero this.symm
      have hrows : rs = [] := by rw [hout, hnil]; rfl
      have hzero : groups.flatMap (fun g => rowsOf zero want g.1 g.2) = [] := by
        apply List.eq_nil_of_length_eq_zero
        rw [rowsOf_flat_length, ← rowsOf_flat_length zero all, ← hfull', hfnil]; rfl
      rw [hrows, hzero]
      exact ⟨List.Perm.refl _, fun _ => List.Pairwise.nil⟩

end Rel

/-! # C01 on the interpretation of `Gen.make_release_seq` -/
section C01table
open Rel
variable {α : Type} (zero : α)

/-- **C01, rows = groups' rows (main form).**  Whenever the interpreted `make_release` returns a table `(cols, rows)`
for the group frames `groups` (frame returned by `make_single_release`, `num`), with or without a `columns` list:
the rows are a permutation of the concatenation, group by group, of the `num` rows of each group laid out on the
returned columns — each group contributes exactly its own `num` rows (second conjunct), and every row is the layout of
*one* particle `i` of *one* group (`rowOf`: cell under column `c` = `fill (frame[c][i])`). -/
theorem c01_rows_are_group_rows (groups : List (Frame α × Nat)) (columns : Option (List String))
    (hasSeed fname : Bool) (cols : List String) (rows : List (List (Cell α)))
    (h : runMakeRelease zero groups columns hasSeed fname Gen.make_release_seq = some (some (cols, rows))) :
    rows.Perm (groups.flatMap (fun g => rowsOf zero cols g.1 g.2)) ∧
    ∀ g ∈ groups, (rowsOf zero cols g.1 g.2).length = g.2 :=
  ⟨(rows_perm zero (run_inv zero h).2.2).1, fun g _ => C01.rowsOf_length zero cols g.1 g.2⟩

/-- **C01, size.**  The returned table has exactly `Σ num` rows and every row has one cell per column: every column
has length `Σ num`. -/
theorem c01_table_shape (groups : List (Frame α × Nat)) (columns : Option (List String))
    (hasSeed fname : Bool) (cols : List String) (rows : List (List (Cell α)))
    (h : runMakeRelease zero groups columns hasSeed fname Gen.make_release_seq = some (some (cols, rows))) :
    rows.length = (groups.map (·.2)).sum ∧ (∀ r ∈ rows, r.length = cols.length) ∧
    ∀ j, j < cols.length → (rows.filterMap (fun r => r[j]?)).length = (groups.map (·.2)).sum := by
  have hp := (c01_rows_are_group_rows zero groups columns hasSeed fname cols rows h).1
  have hlen : rows.length = (groups.map (·.2)).sum := by rw [hp.length_eq, rowsOf_flat_length]
  have hrect : ∀ r ∈ rows, r.length = cols.length := by
    intro r hr
    obtain ⟨g, _, i, _, rfl⟩ := mem_flat_rows zero cols groups r (hp.mem_iff.1 hr)
    simp [rowOf]
  refine ⟨hlen, hrect, ?_⟩
  intro j hj
  rw [← hlen]
  have : rows.filterMap (fun r => r[j]?) = rows.map (fun r => (r[j]?).getD (.num zero)) := by
    clear hp hlen h
    induction rows with
    | nil => rfl
    | cons r rs ih =>
      have hr : j < r.length := by rw [hrect r (by simp)]; exact hj
      rw [List.filterMap_cons, List.map_cons, List.getElem?_eq_getElem hr]
      simp only [Option.getD_some]
      rw [ih (fun r' hr' => hrect r' (by simp [hr']))]
  rw [this, List.length_map]

/-- **C01, one intact row per particle; undefined attributes are 0.**  Every row of the returned table belongs to
one particle `i < num` of one group: under *every* column `cols[j]` it carries that group's value for that particle,
`frame[cols[j]][i]` (NaN → 0), and `0` if the group's frame has no column of that name. -/
theorem c01_row_integrity (groups : List (Frame α × Nat)) (columns : Option (List String))
    (hasSeed fname : Bool) (cols : List String) (rows : List (List (Cell α)))
    (h : runMakeRelease zero groups columns hasSeed fname Gen.make_release_seq = some (some (cols, rows))) :
    ∀ r ∈ rows, ∃ g ∈ groups, ∃ i, i < g.2 ∧ ∀ j (hj : j < cols.length),
      r[j]? = some (fill zero ((lookup g.1 cols[j]).bind (fun col => col[i]?))) ∧
      (lookup g.1 cols[j] = none → r[j]? = some (Cell.num zero)) := by
  intro r hr
  have hp := (c01_rows_are_group_rows zero groups columns hasSeed fname cols rows h).1
  obtain ⟨g, hg, i, hi, rfl⟩ := mem_flat_rows zero cols groups r (hp.mem_iff.1 hr)
  refine ⟨g, hg, i, hi, fun j hj => ?_⟩
  have h1 : (rowOf zero cols g.1 i)[j]? = some (fill zero ((lookup g.1 cols[j]).bind (fun col => col[i]?))) := by
    simp [rowOf, hj]
  exact ⟨h1, fun hm => by rw [h1, hm]; rfl⟩

/-- … and conversely every requested particle has its row: particle `i < num` of every group occurs in the table. -/
theorem c01_every_particle_has_row (groups : List (Frame α × Nat)) (columns : Option (List String))
    (hasSeed fname : Bool) (cols : List String) (rows : List (List (Cell α)))
    (h : runMakeRelease zero groups columns hasSeed fname Gen.make_release_seq = some (some (cols, rows))) :
    ∀ g ∈ groups, ∀ i, i < g.2 → rowOf zero cols g.1 i ∈ rows := by
  intro g hg i hi
  have hp := (c01_rows_are_group_rows zero groups columns hasSeed fname cols rows h).1
  rw [hp.mem_iff, List.mem_flatMap]
  exact ⟨g, hg, by simp only [rowsOf, List.mem_map, List.mem_range]; exact ⟨i, hi, rfl⟩⟩

/-- **C01, columns.**  The columns of the returned table are the requested list in that order, or by default the
union of the group frames' columns in order of first appearance (for the first group's frame see
`c01_single_default_columns`). -/
theorem c01_columns (groups : List (Frame α × Nat)) (columns : Option (List String))
    (hasSeed fname : Bool) (cols : List String) (rows : List (List (Cell α)))
    (h : runMakeRelease zero groups columns hasSeed fname Gen.make_release_seq = some (some (cols, rows))) :
    (∀ want, columns = some want → cols = want) ∧
    (columns = none → cols = allCols (groups.map (·.1))) := by
  have hm := (run_inv zero h).2.2
  constructor
  · intro want hw; subst hw
    exact (C01.columns_requested zero groups want cols rows hm).1
  · intro hn; subst hn
    exact C01.columns_default zero groups cols rows hm

/-- **C01, sorted by date.**  The rows of the returned table are in non-decreasing order of the date string (when a
`columns` list is given it must contain `date`, otherwise the table has no date to compare). -/
theorem c01_sorted_by_date (groups : List (Frame α × Nat)) (columns : Option (List String))
    (hasSeed fname : Bool) (cols : List String) (rows : List (List (Cell α)))
    (hdate : ∀ want, columns = some want → "date" ∈ want)
    (h : runMakeRelease zero groups columns hasSeed fname Gen.make_release_seq = some (some (cols, rows))) :
    List.Pairwise (fun a b => dateKey cols a ≤ dateKey cols b) rows :=
  (rows_perm zero (run_inv zero h).2.2).2 hdate

/-- **Ties keep their order** (C01 "the values belonging to one particle stay together", C04 "explicit lists are
reproduced verbatim in particle order" for particles released at one time).  Without a `columns` list the rows of the
returned table that carry a given date string are, in this order, the rows with that date of the groups' zero-filled
rows concatenated group by group: the date sort never reorders particles that share a release time. -/
theorem c01_ties_keep_order (groups : List (Frame α × Nat)) (hasSeed fname : Bool) (cols : List String)
    (rows : List (List (Cell α))) (hne : groups ≠ [])
    (h : runMakeRelease zero groups none hasSeed fname Gen.make_release_seq = some (some (cols, rows))) (k : String) :
    cols = (concatFill zero groups).1 ∧
      rows.filter (fun x => dateKey cols x == k) = (concatFill zero groups).2.filter (fun x => dateKey cols x == k) := by
  rw [Bridge.make_release_seq zero groups none hasSeed fname hne] at h
  unfold makeTable at h
  split at h
  · simp only [Option.some.injEq, Prod.mk.injEq] at h
    obtain ⟨rfl, rfl⟩ := h
    exact ⟨rfl, C01.sortRows_stable _ _ k⟩
  · simp at h

theorem Rel.frames_ok_iff {α : Type} (groups : List (Frame α × Nat)) :
    groups.all (fun g => frameOk g.1 g.2) = true ↔ ∀ g ∈ groups, ∀ p ∈ g.1, p.2.length = g.2 := by
  simp [frameOk, List.all_eq_true]

/-- **C01, "for every valid release configuration".**  A valid configuration does produce a table: at least one
group, every column of every group frame has `num` cells, and the requested columns (if any) exist in some group. -/
theorem c01_valid_returns (groups : List (Frame α × Nat)) (columns : Option (List String)) (hasSeed fname : Bool)
    (hne : groups ≠ []) (hok : ∀ g ∈ groups, ∀ p ∈ g.1, p.2.length = g.2)
    (hcols : ∀ want, columns = some want → ∀ c ∈ want, c ∈ allCols (groups.map (·.1))) :
    ∃ cols rows, runMakeRelease zero groups columns hasSeed fname Gen.make_release_seq = some (some (cols, rows)) := by
  rw [Bridge.make_release_seq zero groups columns hasSeed fname hne]
  unfold makeTable
  rw [if_pos ((frames_ok_iff groups).2 hok)]
  cases columns with
  | none => exact ⟨_, _, rfl⟩
  | some want =>
    set all := (concatFill zero groups).1
    set full := (concatFill zero groups).2
    have hw : ∀ c ∈ want, c ∈ all := hcols want rfl
    have hfull' : full = groups.flatMap (fun g => rowsOf zero all g.1 g.2) := rfl
    have hperm := C01.sortRows_perm all full
    have := mapM_some_of_forall (selectCols all want) (fun r => (selectCols all want r).getD []) (sortRows all full)
      (fun a ha => by
        obtain ⟨g, _, i, _, rfl⟩ := mem_flat_rows zero all groups a (hfull' ▸ hperm.mem_iff.1 ha)
        rw [selectCols_rowOf, if_pos hw]; rfl)
    refine ⟨want, (sortRows all full).map (fun r => (selectCols all want r).getD []), ?_⟩
    show some (Option.map _ (List.mapM (selectCols all want) (sortRows all full))) = _
    rw [this]; rfl

/-- **C18, no partial table (table level).**  The interpreted `make_release` raises — it does not return a table —
when there is no group (`pd.concat([])`), when a group frame is ragged (`pd.DataFrame` of columns of different
lengths), or when a requested column exists in no group and there is at least one particle. -/
theorem c18_invalid_table_raises (groups : List (Frame α × Nat)) (columns : Option (List String))
    (hasSeed fname : Bool)
    (hbad : groups = [] ∨ (∃ g ∈ groups, ∃ p ∈ g.1, p.2.length ≠ g.2) ∨
      (∃ want c, columns = some want ∧ c ∈ want ∧ c ∉ allCols (groups.map (·.1)) ∧ ∃ g ∈ groups, 0 < g.2)) :
    runMakeRelease zero groups columns hasSeed fname Gen.make_release_seq = some none := by
  rw [Bridge.make_release_seq_full]
  by_cases he : groups.isEmpty
  · rw [if_pos he]
  · rw [if_neg he]
    congr 1
    have hne : groups ≠ [] := fun hn => he (by simp [hn])
    rcases hbad with h0 | hrag | ⟨want, c, rfl, hc, hcn, g, hg, hpos⟩
    · exact absurd h0 hne
    · unfold makeTable
      rw [if_neg]
      rw [frames_ok_iff]
      obtain ⟨g, hg, p, hp, hlen⟩ := hrag
      exact fun hall => hlen (hall g hg p hp)
    · unfold makeTable
      split_ifs with hok
      · set all := (concatFill zero groups).1
        set full := (concatFill zero groups).2
        have hfull' : full = groups.flatMap (fun g => rowsOf zero all g.1 g.2) := rfl
        have hperm := C01.sortRows_perm all full
        have hmem : rowOf zero all g.1 0 ∈ sortRows all full := by
          rw [hperm.mem_iff, hfull', List.mem_flatMap]
          exact ⟨g, hg, by simp only [rowsOf, List.mem_map, List.mem_range]; exact ⟨0, hpos, rfl⟩⟩
        have hsel : selectCols all want (rowOf zero all g.1 0) = none := by
          rw [selectCols_rowOf, if_neg]
          exact fun hall => hcn (hall c hc)
        show Option.map _ (List.mapM (selectCols all want) (sortRows all full)) = none
        rw [mapM_none_of_mem _ _ _ hmem hsel]; rfl
      · rfl

end C01table

/-! # C01 on the interpretation of `Gen.make_single_release_seq` -/
section C01single
open Rel
variable {α : Type}

/-- what one group of the configuration evaluates to, before `make_single_release` assembles it: the release times
(`date_range`), the location columns (`get_location`: `longitude`, `latitude` and, for GeoJSON, the feature
properties), the default depth column (`dict(depth=0.0)`), the evaluated implicit and explicit attribute columns
(`get_attrs`; the random draws are in here), and `num`. -/
structure GroupIn (α : Type) where
  date : List (Cell α)
  loc : Frame α
  depth0 : List (Cell α)
  implicit : Frame α
  explicit : Frame α
  num : Nat

/-- the column of values that the group's specification gives to the name `k` (Python's precedence: explicit `attrs`
over implicit attributes over the default depth over the location's properties over the release date) -/
def GroupIn.column (g : GroupIn α) (k : String) : Option (List (Cell α)) :=
  (lookup g.explicit k).or <| (lookup g.implicit k).or <|
    if k = "depth" then some g.depth0
    else if k = "longitude" ∨ k = "latitude" then lookup g.loc k
    else (lookup g.loc k).or (if k = "date" then some g.date else none)

/-- well-formed group: the mappings are Python dicts (no duplicate keys) and `get_location` has returned a position -/
structure GroupIn.WF (g : GroupIn α) : Prop where
  loc_nodup : (g.loc.map (·.1)).Nodup
  implicit_nodup : (g.implicit.map (·.1)).Nodup
  explicit_nodup : (g.explicit.map (·.1)).Nodup
  lon : (lookup g.loc "longitude").isSome
  lat : (lookup g.loc "latitude").isSome

/-- the interpretation of `make_single_release` on a group -/
abbrev GroupIn.run (g : GroupIn α) (prog : List Stmt) : Option (Option (Frame α)) :=
  runSingleRelease g.date g.loc [("depth", g.depth0)] g.implicit g.explicit prog

theorem Rel.lookup_depth0 (d0 : List (Cell α)) (k : String) :
    lookup [("depth", d0)] k = if k = "depth" then some d0 else none := by
  by_cases hk : k = "depth"
  · subst hk; simp [lookup]
  · have : ("depth" == k) = false := by simpa using fun h => hk h.symm
    simp [lookup, hk, this]

theorem Rel.lookup_attrs (d0 : List (Cell α)) (implicit explicit : Frame α)
    (hi : (implicit.map (·.1)).Nodup) (he : (explicit.map (·.1)).Nodup) (k : String) :
    lookup (dictMerge (dictMerge [("depth", d0)] implicit) explicit) k =
      (lookup explicit k).or ((lookup implicit k).or (if k = "depth" then some d0 else none)) := by
  rw [lookup_dictMerge _ _ _ he, lookup_dictMerge _ _ _ hi, lookup_depth0]

theorem Rel.depth_present (d0 : List (Cell α)) (implicit explicit : Frame α) :
    (lookup (dictMerge (dictMerge [("depth", d0)] implicit) explicit) "depth").isSome := by
  rw [lookup_isSome_iff, dictMerge_keys, dictMerge_keys, addKeys_mem, addKeys_mem]
  simp

theorem Rel.single_inv {g : GroupIn α} {f : Frame α}
    (h : g.run Gen.make_single_release_seq = some (some f)) :
    (lookup g.loc "longitude").isSome ∧ (lookup g.loc "latitude").isSome ∧
      f = singleRelease .depthFourth g.date g.loc [("depth", g.depth0)] g.implicit g.explicit := by
  unfold GroupIn.run at h
  rw [Bridge.make_single_release_seq_full] at h
  have h := Option.some.inj h
  split_ifs at h with hc
  simp only [Bool.and_eq_true] at hc
  exact ⟨hc.1.1, hc.1.2, (Option.some.inj h).symm⟩

/-- **C01, a group's frame exists.**  For a location with a position the interpreted `make_single_release` returns a
frame (the default depth makes `attrs['depth']` always defined); without a position it raises (`KeyError`). -/
theorem c01_single_release_returns (g : GroupIn α) :
    ((lookup g.loc "longitude").isSome ∧ (lookup g.loc "latitude").isSome →
      ∃ f, g.run Gen.make_single_release_seq = some (some f)) ∧
    (lookup g.loc "longitude" = none ∨ lookup g.loc "latitude" = none →
      g.run Gen.make_single_release_seq = some none) := by
  unfold GroupIn.run
  rw [Bridge.make_single_release_seq_full]
  constructor
  · rintro ⟨h1, h2⟩
    exact ⟨_, by rw [if_pos (by simp [h1, h2, depth_present])]⟩
  · intro h
    rw [if_neg]
    rcases h with h | h <;> simp [h]

/-- **C01, the values of a group's frame.**  The frame that the interpreted `make_single_release` returns for a
well-formed group has, under every name `k`, exactly the column the specification gives to `k` (`GroupIn.column`):
the release times under `date`, the sampled position under `longitude` / `latitude`, the attribute columns under
their names (explicit over implicit over the default depth), the GeoJSON properties under theirs — and no column
under any other name. -/
theorem c01_single_release_values (g : GroupIn α) (hwf : g.WF) (f : Frame α)
    (h : g.run Gen.make_single_release_seq = some (some f)) (k : String) :
    lookup f k = g.column k := by
  obtain ⟨hlon, hlat, rfl⟩ := single_inv h
  obtain ⟨lon, hlon⟩ := Option.isSome_iff_exists.1 hlon
  obtain ⟨lat, hlat⟩ := Option.isSome_iff_exists.1 hlat
  obtain ⟨d, hd⟩ := Option.isSome_iff_exists.1 (depth_present g.depth0 g.implicit g.explicit)
  have hA := lookup_attrs g.depth0 g.implicit g.explicit hwf.implicit_nodup hwf.explicit_nodup
  have hAnd : ((dictMerge (dictMerge [("depth", g.depth0)] g.implicit) g.explicit).map (·.1)).Nodup :=
    dictMerge_keys_nodup _ _ (dictMerge_keys_nodup _ _ (by simp))
  have hPnd : ((g.loc.filter (fun p => !(p.1 == "longitude" || p.1 == "latitude"))).map (·.1)).Nodup :=
    hwf.loc_nodup.sublist (List.filter_sublist.map _)
  have hPlon : lookup (g.loc.filter (fun p => !(p.1 == "longitude" || p.1 == "latitude"))) "longitude" = none := by
    rw [lookup_eq_none_iff]; intro p hp; simp only [List.mem_filter] at hp; intro he; simp [he] at hp
  have hPlat : lookup (g.loc.filter (fun p => !(p.1 == "longitude" || p.1 == "latitude"))) "latitude" = none := by
    rw [lookup_eq_none_iff]; intro p hp; simp only [List.mem_filter] at hp; intro he; simp [he] at hp
  unfold singleRelease
  simp only [hd, List.filterMap_cons, hlon, hlat, Option.map_some, List.filterMap_nil]
  rw [lookup_dictMerge _ _ _ hAnd, lookup_dictMerge _ _ _ hPnd, hA, Option.or_assoc, Option.or_assoc]
  unfold GroupIn.column
  congr 2
  by_cases hk : k = "depth"
  · subst hk; simp
  · rw [if_neg hk, if_neg hk, Option.none_or]
    by_cases hk1 : k = "longitude"
    · subst hk1; rw [hPlon, hlon]; simp [lookup]
    · by_cases hk2 : k = "latitude"
      · subst hk2; rw [hPlat, hlat]; simp [lookup]
      · rw [if_neg (by simp [hk1, hk2]), lookup_filter_lonlat _ _ hk1 hk2]
        congr 1
        by_cases hk3 : k = "date"
        · subst hk3; simp [lookup]
        · have e1 : ("date" == k) = false := by simpa using fun h => hk3 h.symm
          have e2 : ("longitude" == k) = false := by simpa using fun h => hk1 h.symm
          have e3 : ("latitude" == k) = false := by simpa using fun h => hk2 h.symm
          have e4 : ("depth" == k) = false := by simpa using fun h => hk h.symm
          simp [lookup, e1, e2, e3, e4, hk3]

theorem Rel.addKeys_head_mem (acc l : List String) (c : String) (hc : c ∈ acc) :
    addKeys acc (c :: l) = addKeys acc l := by
  have : acc.contains c = true := by simpa using hc
  simp only [addKeys, List.foldl_cons, this, if_true]

/-- **C01, default column order of a group (every location form, every attribute form).**  The frame returned by the
interpreted `make_single_release` starts with `date, longitude, latitude, depth` — also when the location carries
GeoJSON properties and wherever the group lists `depth` among its attributes — and has no duplicate column. -/
theorem c01_single_default_columns (g : GroupIn α) (f : Frame α)
    (h : g.run Gen.make_single_release_seq = some (some f)) :
    (∃ rest, f.map (·.1) = ["date", "longitude", "latitude", "depth"] ++ rest) ∧ (f.map (·.1)).Nodup := by
  obtain ⟨hlon, hlat, rfl⟩ := single_inv h
  obtain ⟨lon, hlon⟩ := Option.isSome_iff_exists.1 hlon
  obtain ⟨lat, hlat⟩ := Option.isSome_iff_exists.1 hlat
  refine ⟨C01.default_order_prefix g.date lon lat g.depth0 g.loc g.implicit g.explicit hlon hlat, ?_⟩
  obtain ⟨d, hd⟩ := Option.isSome_iff_exists.1 (depth_present g.depth0 g.implicit g.explicit)
  unfold singleRelease
  simp only [hd, List.filterMap_cons, hlon, hlat, Option.map_some, List.filterMap_nil]
  exact dictMerge_keys_nodup _ _ (dictMerge_keys_nodup _ _ (by simp))

/-- **C01, default column order of a group, exact.**  When the names of the location properties, the implicit and
the explicit attributes are pairwise different and none of them is `date`, `longitude`, `latitude`, `depth`, the
columns are `date, longitude, latitude, depth` followed by the properties and the attributes, in the order in which
the configuration lists them. -/
theorem c01_single_default_columns_exact (g : GroupIn α) (f : Frame α)
    (h : g.run Gen.make_single_release_seq = some (some f))
    (hnd : ((g.loc.filter (fun p => !(p.1 == "longitude" || p.1 == "latitude"))).map (·.1)
              ++ g.implicit.map (·.1) ++ g.explicit.map (·.1)).Nodup)
    (hres : ∀ c ∈ (g.loc.filter (fun p => !(p.1 == "longitude" || p.1 == "latitude"))).map (·.1)
              ++ g.implicit.map (·.1) ++ g.explicit.map (·.1),
            c ∉ ["date", "longitude", "latitude", "depth"]) :
    f.map (·.1) = ["date", "longitude", "latitude", "depth"]
      ++ (g.loc.filter (fun p => !(p.1 == "longitude" || p.1 == "latitude"))).map (·.1)
      ++ g.implicit.map (·.1) ++ g.explicit.map (·.1) := by
  obtain ⟨hlon, hlat, rfl⟩ := single_inv h
  obtain ⟨lon, hlon⟩ := Option.isSome_iff_exists.1 hlon
  obtain ⟨lat, hlat⟩ := Option.isSome_iff_exists.1 hlat
  obtain ⟨d, hd⟩ := Option.isSome_iff_exists.1 (depth_present g.depth0 g.implicit g.explicit)
  unfold singleRelease
  simp only [hd, List.filterMap_cons, hlon, hlat, Option.map_some, List.filterMap_nil]
  set pk := (g.loc.filter (fun p => !(p.1 == "longitude" || p.1 == "latitude"))).map (·.1) with hpk
  set ik := g.implicit.map (·.1)
  set ek := g.explicit.map (·.1)
  rw [List.append_assoc] at hnd
  have hnd' := List.nodup_append.1 hnd
  have hnd'' := List.nodup_append.1 hnd'.2.1
  have hresP : ∀ c ∈ pk, c ∉ ["date", "longitude", "latitude", "depth"] := fun c hc => hres c (by simp [hc])
  have hresI : ∀ c ∈ ik, c ∉ ["date", "longitude", "latitude", "depth"] := fun c hc => hres c (by simp [hc])
  have hresE : ∀ c ∈ ek, c ∉ ["date", "longitude", "latitude", "depth"] := fun c hc => hres c (by simp [hc])
  rw [dictMerge_keys, dictMerge_keys, dictMerge_keys, dictMerge_keys]
  have e1 : addKeys (List.map (fun x => x.1) [("depth", g.depth0)]) ik = ["depth"] ++ ik := by
    apply addKeys_new _ _ _ hnd''.1
    intro c hc hm
    exact hresI c hc (by simp only [List.map_cons, List.map_nil, List.mem_singleton] at hm; simp [hm])
  have e2 : addKeys (["depth"] ++ ik) ek = ["depth"] ++ ik ++ ek := by
    apply addKeys_new _ _ _ hnd''.2.1
    intro c hc hm
    simp only [List.mem_append, List.mem_singleton] at hm
    rcases hm with hm | hm
    · exact hresE c hc (by simp [hm])
    · exact hnd''.2.2 c hm c hc rfl
  have e3 : addKeys (List.map (fun x => x.1)
      (("date", g.date) :: [("longitude", lon), ("latitude", lat)] ++ [("depth", d)])) pk
      = ["date", "longitude", "latitude", "depth"] ++ pk := by
    apply addKeys_new _ _ _ hnd'.1
    intro c hc hm
    exact hresP c hc (by simpa using hm)
  rw [e1, e2, e3, List.append_assoc ["depth"], List.singleton_append,
    addKeys_head_mem _ _ _ (by simp), addKeys_new _ _ _ hnd'.2.1]
  · simp
  · intro c hc hm
    simp only [List.mem_append] at hm hc
    rcases hm with hm | hm
    · rcases hc with hc | hc
      · exact hresI c hc hm
      · exact hresE c hc hm
    · exact hnd'.2.2 c hm c (by simpa using hc) rfl

end C01single

/-! # C01 end to end: `make_release` over `make_single_release` -/
section C01e2e
open Rel
variable {α : Type} (zero : α)

/-- the row of particle `i` of group `g` on the columns `cols`, straight from the specification -/
def GroupIn.row (g : GroupIn α) (cols : List String) (i : Nat) : List (Cell α) :=
  cols.map (fun c => fill zero ((g.column c).bind (fun col => col[i]?)))

theorem Rel.flat_eq (cols : List String) (ins : List (GroupIn α)) (frames : List (Frame α × Nat))
    (hwf : ∀ g ∈ ins, g.WF)
    (hsingle : List.Forall₂ (fun (g : GroupIn α) (fr : Frame α × Nat) =>
      g.run Gen.make_single_release_seq = some (some fr.1) ∧ fr.2 = g.num) ins frames) :
    frames.flatMap (fun fr => rowsOf zero cols fr.1 fr.2)
      = ins.flatMap (fun g => (List.range g.num).map (g.row zero cols)) ∧
    frames.map (·.2) = ins.map (·.num) := by
  induction hsingle with
  | nil => exact ⟨rfl, rfl⟩
  | @cons g fr ins' frames' hhd _ ih =>
    obtain ⟨ih1, ih2⟩ := ih (fun g' hg' => hwf g' (by simp [hg']))
    refine ⟨?_, by simp [ih2, hhd.2]⟩
    rw [List.flatMap_cons, List.flatMap_cons, ih1]
    congr 1
    rw [rowsOf, hhd.2]
    apply List.map_congr_left
    intro i _
    unfold rowOf GroupIn.row
    apply List.map_congr_left
    intro c _
    rw [c01_single_release_values g (hwf g (by simp)) fr.1 hhd.1 c]

/-- **C01 end to end.**  `ins` are the evaluated groups of a configuration (dates, sampled positions, attribute
draws, `num`), `frames` what the interpreted `make_single_release` returns for them, `(cols, rows)` what the
interpreted `make_release` returns on those frames, with or without a `columns` list.  Then

* the rows are, up to the order, exactly: for every group, for every particle `i < num`, the row that carries under
  every column `c` the value the group's specification gives to `c` for particle `i` — and `0` where the group does
  not define `c` (`GroupIn.row`);  hence each group contributes exactly its `num` rows and one particle's values are in
  one row;
* there are `Σ num` rows, each with one cell per column;
* the columns are the requested list, or by default start with `date, longitude, latitude, depth`. -/
theorem c01_end_to_end (ins : List (GroupIn α)) (frames : List (Frame α × Nat)) (columns : Option (List String))
    (hasSeed fname : Bool) (cols : List String) (rows : List (List (Cell α)))
    (hwf : ∀ g ∈ ins, g.WF)
    (hsingle : List.Forall₂ (fun (g : GroupIn α) (fr : Frame α × Nat) =>
      g.run Gen.make_single_release_seq = some (some fr.1) ∧ fr.2 = g.num) ins frames)
    (hrun : runMakeRelease zero frames columns hasSeed fname Gen.make_release_seq = some (some (cols, rows))) :
    rows.Perm (ins.flatMap (fun g => (List.range g.num).map (g.row zero cols))) ∧
    rows.length = (ins.map (·.num)).sum ∧
    (∀ r ∈ rows, r.length = cols.length) ∧
    (∀ want, columns = some want → cols = want) ∧
    (columns = none → ∃ rest, cols = ["date", "longitude", "latitude", "depth"] ++ rest) := by
  obtain ⟨hflat, hnum⟩ := flat_eq zero cols ins frames hwf hsingle
  have hshape := c01_table_shape zero frames columns hasSeed fname cols rows hrun
  refine ⟨?_, ?_, hshape.2.1, (c01_columns zero frames columns hasSeed fname cols rows hrun).1, ?_⟩
  · rw [← hflat]
    exact (c01_rows_are_group_rows zero frames columns hasSeed fname cols rows hrun).1
  · rw [hshape.1, hnum]
  · intro hn
    have hc := (c01_columns zero frames columns hasSeed fname cols rows hrun).2 hn
    have hne := (run_inv zero hrun).1
    cases hsingle with
    | nil => exact absurd rfl hne
    | @cons g fr ins' frames' hhd _ =>
      obtain ⟨⟨rest, hrest⟩, _⟩ := c01_single_default_columns g fr.1 hhd.1
      rw [hc, allCols_eq, List.map_cons, List.flatMap_cons, hrest, addKeys_append, addKeys_append]
      have e : addKeys [] ["date", "longitude", "latitude", "depth"] = ["date", "longitude", "latitude", "depth"] := by
        decide
      rw [e]
      obtain ⟨r1, h1⟩ := addKeys_prefix ["date", "longitude", "latitude", "depth"] rest
      obtain ⟨r2, h2⟩ := addKeys_prefix (addKeys ["date", "longitude", "latitude", "depth"] rest)
        (frames'.map (·.1) |>.flatMap (fun f => f.map (·.1)))
      rw [h2, h1]
      exact ⟨r1 ++ r2, by simp⟩

end C01e2e

/-! # C18 on the interpretation of `Gen.load_config_seq` and `Gen.make_release_seq` -/
section C18
open Rel
variable {α : Type} (zero : α)

/-- the interpretation of `load_config` on a parsed configuration object, projected to what it returns:
`some (some (global keys, groups))` = the normalised configuration, `some none` = the code raises, `none` = a
statement the interpreter does not know -/
abbrev cfgOutcome (prog : List Stmt) (c : Container) : Option (Option (List String × List RawGroup)) :=
  (runStrict cfgAtom cfgStep prog (CfgSt.init c)).map
    (fun r => r.map (fun s => (match s.cfg with | .grouped gl gs => (gl, gs) | _ => ([], []))))

/-- **C18, valid configurations are accepted and normalised.**  If every group has `date`, `location` and `num`,
the interpreted `load_config` returns the normalised configuration (`normalise`: a list `gs` ↦ `([], gs)`; a mapping
with `groups` ↦ itself; a flat mapping ↦ its `seed` / `columns` keys and one group with the other keys). -/
theorem c18_valid_config_accepted (c : Container)
    (h : ∀ g ∈ (normalise c).2, ∀ k ∈ ["date", "location", "num"], k ∈ g.keys) :
    cfgOutcome Gen.load_config_seq c = some (some (normalise c)) := by
  have hb := Bridge.load_config c
  unfold Bridge.loadConfigSpec at hb
  rw [if_pos ((C18.validate_none_iff c).2 h)] at hb
  exact hb

/-- **C18, invalid configurations are rejected.**  If some group lacks one of `date`, `location`, `num`, the
interpreted `load_config` raises: no configuration, hence no (partial) table. -/
theorem c18_invalid_config_raises (c : Container) (g : RawGroup) (k : String) (hg : g ∈ (normalise c).2)
    (hk : k ∈ ["date", "location", "num"]) (hmiss : k ∉ g.keys) :
    cfgOutcome Gen.load_config_seq c = some none := by
  have hb := Bridge.load_config c
  unfold Bridge.loadConfigSpec at hb
  rw [if_neg (fun hv => hmiss ((C18.validate_none_iff c).1 hv g hg k hk))] at hb
  exact hb

/-- **C18, the container does not matter.**  Two configuration objects with the same normal form get the same
outcome from the interpreted `load_config` (both the same normalised configuration, or both an error). -/
theorem c18_containers_agree (c₁ c₂ : Container) (h : normalise c₁ = normalise c₂) :
    cfgOutcome Gen.load_config_seq c₁ = cfgOutcome Gen.load_config_seq c₂ := by
  have h1 := Bridge.load_config c₁
  have h2 := Bridge.load_config c₂
  have : Bridge.loadConfigSpec c₁ = Bridge.loadConfigSpec c₂ := by
    unfold Bridge.loadConfigSpec
    rw [C18.validate_congr c₁ c₂ (by rw [h]), h]
  exact h1.trans (this ▸ h2.symm)

/-- a list of groups is the mapping `{groups: …}` -/
theorem c18_list_same_as_mapping (gs : List RawGroup) :
    cfgOutcome Gen.load_config_seq (.list gs) = cfgOutcome Gen.load_config_seq (.grouped [] gs) :=
  c18_containers_agree _ _ rfl

/-- a flat mapping is the mapping with its `seed` / `columns` keys as global keys and one group of the other keys -/
theorem c18_flat_same_as_mapping (keys : List String) :
    cfgOutcome Gen.load_config_seq (.flat keys) =
      cfgOutcome Gen.load_config_seq
        (.grouped (keys.filter (fun k => ["seed", "columns"].contains k))
          [⟨keys.filter (fun k => !["seed", "columns"].contains k)⟩]) :=
  c18_containers_agree _ _ rfl

set_option maxRecDepth 100000 in
/-- **C18, the error names what is missing (partial).**  After the first fifteen statements of `load_config` the
variable `not_present`, from which the message `Missing parameters: …` is formatted, holds for every group exactly
its missing necessary keys, and the rest of the function raises iff one of these lists is non-empty.
Partial: the formatting of the message (`', '.join`, the group index) is a no-op of the interpreter. -/
theorem c18_error_lists_missing_keys_partial (c : Container) :
    ∃ s : CfgSt, runStrict cfgAtom cfgStep (Gen.load_config_seq.take 15) (CfgSt.init c) = some (some s) ∧
      s.notPresent = (normalise c).2.map (fun g => ["date", "location", "num"].filter (fun k => !g.keys.contains k)) ∧
      runStrict cfgAtom cfgStep (Gen.load_config_seq.drop 15) s =
        if s.notPresent.any (fun m => !m.isEmpty) then some none else some (some s) := by
  cases c with
  | flat keys =>
    exact ⟨⟨.grouped (normalise (.flat keys)).1 (normalise (.flat keys)).2, globalKeys, (normalise (.flat keys)).1,
      (normalise (.flat keys)).2, necessary, (normalise (.flat keys)).2.map missing⟩, rfl, rfl, Bridge.tail_run _⟩
  | list gs => exact ⟨⟨.grouped [] gs, [], [], [], necessary, gs.map missing⟩, rfl, rfl, Bridge.tail_run _⟩
  | grouped gl gs => exact ⟨⟨.grouped gl gs, [], [], [], necessary, gs.map missing⟩, rfl, rfl, Bridge.tail_run _⟩

/-- **C18, the table is a function of the configuration content and the draws only.**  Whether a seed is set and
whether a file is written does not change what the interpreted `make_release` returns for the same evaluated
groups and `columns`. -/
theorem c18_table_independent_of_seed_flag_and_file (groups : List (Frame α × Nat)) (columns : Option (List String))
    (s₁ f₁ s₂ f₂ : Bool) :
    runMakeRelease zero groups columns s₁ f₁ Gen.make_release_seq =
      runMakeRelease zero groups columns s₂ f₂ Gen.make_release_seq := by
  rw [Bridge.make_release_seq_full, Bridge.make_release_seq_full]

/-- **C18, reproducibility.**  Two runs on the same evaluated groups (same configuration content, same draws —
which is what a seed gives) go through the interpreted `make_single_release` and `make_release` to the same
outcome: the same table, or an error both times. -/
theorem c18_same_draws_same_table (ins : List (GroupIn α)) (frames₁ frames₂ : List (Frame α × Nat))
    (columns : Option (List String)) (s₁ f₁ s₂ f₂ : Bool)
    (h₁ : List.Forall₂ (fun (g : GroupIn α) (fr : Frame α × Nat) =>
      g.run Gen.make_single_release_seq = some (some fr.1) ∧ fr.2 = g.num) ins frames₁)
    (h₂ : List.Forall₂ (fun (g : GroupIn α) (fr : Frame α × Nat) =>
      g.run Gen.make_single_release_seq = some (some fr.1) ∧ fr.2 = g.num) ins frames₂) :
    runMakeRelease zero frames₁ columns s₁ f₁ Gen.make_release_seq =
      runMakeRelease zero frames₂ columns s₂ f₂ Gen.make_release_seq := by
  have : frames₁ = frames₂ := by
    induction h₁ generalizing frames₂ with
    | nil => cases h₂; rfl
    | @cons g fr ins' frames' hhd _ ih =>
      cases h₂ with
      | @cons _ fr' _ frames'' hhd' htl' =>
        rw [ih _ htl']
        congr 1
        have e1 : fr.1 = fr'.1 := Option.some.inj (Option.some.inj (hhd.1.symm.trans hhd'.1))
        exact Prod.ext e1 (hhd.2.trans hhd'.2.symm)
  rw [this]
  exact c18_table_independent_of_seed_flag_and_file zero frames₂ columns s₁ f₁ s₂ f₂

end C18

/-! # Non-vacuity: the hypotheses of the theorems above on concrete instances -/
section Examples
open Rel

/-- group 1: a GeoJSON location with a property `region`, an implicit attribute `w`, an explicit `depth`; 1 particle -/
def exG1 : GroupIn Int :=
  { date := [.str "2020-01-02"], loc := [("longitude", [.num 5]), ("latitude", [.num 60]), ("region", [.num 2])],
    depth0 := [.num 0], implicit := [("w", [.num 7])], explicit := [("depth", [.num 3])], num := 1 }

/-- group 2: a point location, no attributes; 2 particles -/
def exG2 : GroupIn Int :=
  { date := [.str "2020-01-01", .str "2020-01-03"], loc := [("longitude", [.num 4, .num 4]), ("latitude", [.num 61, .num 61])],
    depth0 := [.num 0, .num 0], implicit := [], explicit := [], num := 2 }

def exF1 : Frame Int :=
  [("date", [.str "2020-01-02"]), ("longitude", [.num 5]), ("latitude", [.num 60]), ("depth", [.num 3]),
   ("region", [.num 2]), ("w", [.num 7])]

def exF2 : Frame Int :=
  [("date", [.str "2020-01-01", .str "2020-01-03"]), ("longitude", [.num 4, .num 4]), ("latitude", [.num 61, .num 61]),
   ("depth", [.num 0, .num 0])]

example : exG1.WF := ⟨by decide, by decide, by decide, by decide, by decide⟩
example : exG2.WF := ⟨by decide, by decide, by decide, by decide, by decide⟩

theorem exRun1 : exG1.run Gen.make_single_release_seq = some (some exF1) := by
  unfold GroupIn.run; rw [Bridge.make_single_release_seq_full]; decide

theorem exRun2 : exG2.run Gen.make_single_release_seq = some (some exF2) := by
  unfold GroupIn.run; rw [Bridge.make_single_release_seq_full]; decide

/-- `c01_single_default_columns_exact` applied: group 1 without its explicit `depth`, with an explicit attribute `s` -/
example (f : Frame Int) (h : ({ exG1 with explicit := [("s", [.num 9])] } : GroupIn Int).run
    Gen.make_single_release_seq = some (some f)) :
    f.map (·.1) = ["date", "longitude", "latitude", "depth", "region", "w", "s"] :=
  c01_single_default_columns_exact _ f h (by decide) (by decide)

/-- `c01_single_release_values` applied: the `w` column of group 1's frame is the implicit attribute, there is no `s` -/
example : lookup exF1 "w" = some [.num 7] ∧ lookup exF1 "s" = none ∧ lookup exF1 "depth" = some [.num 3] := by
  have hwf : exG1.WF := ⟨by decide, by decide, by decide, by decide, by decide⟩
  rw [c01_single_release_values exG1 hwf exF1 exRun1, c01_single_release_values exG1 hwf exF1 exRun1,
    c01_single_release_values exG1 hwf exF1 exRun1]
  decide

theorem exForall : List.Forall₂ (fun (g : GroupIn Int) (fr : Frame Int × Nat) =>
    g.run Gen.make_single_release_seq = some (some fr.1) ∧ fr.2 = g.num) [exG1, exG2] [(exF1, 1), (exF2, 2)] :=
  .cons ⟨exRun1, rfl⟩ (.cons ⟨exRun2, rfl⟩ .nil)

/-- the hypotheses of `c01_end_to_end` (and of every `c01_…` table theorem), default columns: three rows sorted by
date, `region` and `w` are 0 for the particles of group 2 -/
theorem exTable : runMakeRelease (0 : Int) [(exF1, 1), (exF2, 2)] none true false Gen.make_release_seq =
    some (some (["date", "longitude", "latitude", "depth", "region", "w"],
      [[.str "2020-01-01", .num 4, .num 61, .num 0, .num 0, .num 0],
       [.str "2020-01-02", .num 5, .num 60, .num 3, .num 2, .num 7],
       [.str "2020-01-03", .num 4, .num 61, .num 0, .num 0, .num 0]])) := by
  rw [Bridge.make_release_seq _ _ _ _ _ (by simp)]; decide

/-- … and with a `columns` list -/
theorem exTableCols : runMakeRelease (0 : Int) [(exF1, 1), (exF2, 2)] (some ["w", "date"]) false true
    Gen.make_release_seq =
    some (some (["w", "date"], [[.num 0, .str "2020-01-01"], [.num 7, .str "2020-01-02"], [.num 0, .str "2020-01-03"]])) := by
  rw [Bridge.make_release_seq _ _ _ _ _ (by simp)]; decide

/-- `c01_end_to_end` applied -/
example := c01_end_to_end (0 : Int) [exG1, exG2] _ none true false _ _
  (by intro g hg; simp only [List.mem_cons, List.not_mem_nil, or_false] at hg
      rcases hg with rfl | rfl <;> exact ⟨by decide, by decide, by decide, by decide, by decide⟩)
  exForall exTable

/-- `c01_valid_returns`: its hypotheses on the two frames -/
example : ∃ cols rows, runMakeRelease (0 : Int) [(exF1, 1), (exF2, 2)] (some ["w", "date"]) true true
    Gen.make_release_seq = some (some (cols, rows)) :=
  c01_valid_returns 0 _ _ _ _ (by simp) (by decide) (by intro want hw; cases hw; decide)

/-- `c18_invalid_table_raises`: a requested column that no group has -/
example : runMakeRelease (0 : Int) [(exF1, 1), (exF2, 2)] (some ["X"]) true true Gen.make_release_seq = some none :=
  c18_invalid_table_raises 0 _ _ _ _ (Or.inr (Or.inr ⟨["X"], "X", rfl, by decide, by decide, (exF1, 1), by simp, by decide⟩))

/-- **the sort of the interpretation is stable** (`c01_ties_keep_order`): two particles of one group with the same date
come out in particle order -/
example : runMakeRelease (0 : Int) [([("date", [.str "d", .str "d"]), ("w", [.num 1, .num 2])], 2)] none false false
    Gen.make_release_seq = some (some (["date", "w"], [[.str "d", .num 1], [.str "d", .num 2]])) := by
  rw [Bridge.make_release_seq _ _ _ _ _ (by simp)]; decide

/-- `c18_valid_config_accepted` / `c18_invalid_config_raises`: a flat mapping with `seed`, a list with an incomplete
second group -/
example : cfgOutcome Gen.load_config_seq (.flat ["num", "seed", "date", "location", "w"]) =
    some (some (["seed"], [⟨["num", "date", "location", "w"]⟩])) :=
  c18_valid_config_accepted _ (by decide)

example : cfgOutcome Gen.load_config_seq (.list [⟨["date", "location", "num"]⟩, ⟨["num", "date"]⟩]) = some none :=
  c18_invalid_config_raises _ ⟨["num", "date"]⟩ "location" (by decide) (by decide) (by decide)

end Examples

end OnCode

