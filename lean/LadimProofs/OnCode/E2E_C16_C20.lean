import LadimProofs.C16
import LadimProofs.C20
import LadimProofs.OnCode.C16
import LadimProofs.OnCode.C20
import LadimProofs.Bridge.BioSeq
import LadimProofs.Bridge.Band
import LadimProofs.Bridge.BioCtorSeq
import LadimProofs.Bridge.DevelopSeq
import LadimProofs.Bridge.Swim
import LadimProofs.Bridge.Mixing
import LadimProofs.Bridge.ChemSeq
import LadimProofs.Bridge.SedimentSeq
import LadimProofs.Bridge.SedFactorySeq
import Mathlib.Probability.Distributions.Gaussian.Real
import Mathlib.Analysis.SpecialFunctions.Integrals.Basic

/-!
# C16 and C20 — end-to-end theorems about the INTERPRETATION OF THE CURRENT SOURCE

Every theorem `OnCode.c16_*` / `OnCode.c20_*` of this file has in its statement the interpretation of a generated
statement sequence (`calcDensityRun … Gen.eos_calc_density_seq`, `eggRun` = the run of `Gen.egg_update_seq`,
`liceRun`, `larvaeRun`, `shrimpDielRun`, `Seq.runChemDiffuseConst Gen.chem_diffuse_const_seq`, …) or a generated
formula (`Gen.*`), never a hand-written model function; the bridges (`LadimProofs/Bridge/*`) and the model theorems
(`LadimProofs/C16.lean`, `C20.lean`, `C20Measure.lean`, `OnCode/C20.lean`) are used as lemmas only.

## Property C16 — Buoyancy, swimming and light/density formulas are right-signed and consistent
STATEMENT: Eggs lighter than the surrounding water rise and denser eggs sink, with a speed that is an odd, non-decreasing function of the density difference and zero at neutral buoyancy; larvae swim down when the light at their depth, attenuated with the configured extinction coefficient, exceeds their preference and up otherwise, salmon lice swim up in light and down in water fresher than their tolerance, and shrimp move toward their preferred day or night depth. Surface light is finite everywhere, stays within [1.15e-5, 1505.76] umol photons per m2 per s, is continuous across its day / twilight / night bands and decays with depth as exp(-k x depth), and seawater density reproduces the EOS-80 check values and increases with salinity. The independent copies of these formulas in different modules (egg vs. larvae sinking speed, density and viscosity, surface light and sun height) give the same values.
QUANTIFIER: all temperatures (-2..40 C), salinities (0..42), egg buoyancies and diameters in the oceanic range, all values of the documented behavioural parameters (extinction coefficient, preferred light, swim speed, depth limits, species defaults and their overrides), all light levels, all depths relative to the preferred depth, all dates of the year and hours, longitudes in [-180,180], latitudes in (-90,90), depths >= 0 and extinction coefficients >= 0

## Property C20 — Vertical random walks keep a well-mixed tracer well-mixed (variance 2 K dt)
STATEMENT: For a tracer that is uniformly distributed over the water column, vertical mixing steps leave the expected concentration uniform - no artificial accumulation at the surface, at the bed or where the diffusivity changes - exactly so for constant diffusivity with reflecting boundaries, and within the scheme's accuracy for depth-varying diffusivity whenever the (sub-)step satisfies the module's own stability criterion. Away from boundaries the variance of the displacement added by one step of length dt is 2 x K x dt.
QUANTIFIER: uniformity: all constant diffusivities and depths with step smaller than the depth for the schemes with two reflecting boundaries (chemicals, sedimentation constant mixing, sand eel, eel); smooth, linear and discontinuous diffusivity profiles, sub-step lengths, sampling distances and caps for the chemicals LaBolle scheme and the sedimentation solver. Variance: additionally mine, egg, lice and shrimp for interior particles. All seeds; decided statistically on >= 10^5 particles with a fixed very small false-alarm probability (exact constant-diffusivity case) or the repository's own 10-bin criterion with margin (depth-varying case, only inside the stability bound)

## Conventions
* Depth `Z` is positive downwards: a NEGATIVE vertical velocity is UPWARD motion ("rise"), a positive one "sink".
* Results of runs: `none` = a statement text is not a known one (tie with the source broken), `some none` = the code
  raises, `some (some v)` = the code finishes with `v`.  Every theorem below asserts `some (some _)`.
* The scalar type `α` is an arbitrary linear ordered field with arbitrary functions `sqrt`, `exp`, `rpow`, `narrow`, …
  Where a clause needs a law of such a function it is a hypothesis bundle of `LadimProofs/Laws.lean` (`SqrtLaws`,
  `ExpLaws`, `RpowLaws`: all proved for `ℝ` there, `RealInst.*`) or an explicit hypothesis (monotone `narrow` with
  `narrow 0 = 0`; `rpow a 0.5 * rpow a 0.5 = a`).  These are laws of the arithmetic, not of the configuration.
* Each main theorem is followed by an `example` on `ℝ` that discharges all its hypotheses on concrete values.
* Helper lemmas carry the same prefixes (`c16_…`, `c20_…`) so that nothing in this file can clash with another file
  of the namespace.
-/

open Ladim Ladim.BioSeq Ladim.BioCtorSeq Ladim.DevSeq
open MeasureTheory Set ProbabilityTheory

set_option linter.unusedSectionVars false
set_option linter.unusedVariables false
set_option linter.unusedSimpArgs false
namespace OnCode

/-! instances, used ONLY by the `example`s, for the non-field operations on `ℝ` that `LadimProofs/Laws.lean` does
not provide (`sqrt`, `exp`, `log`, `sin`, `cos`, `rpow` on `ℝ` are the instances of `Laws.lean`) -/
noncomputable local instance e2eC16C20_HasAsinReal : HasAsin ℝ := ⟨Real.arcsin⟩
noncomputable local instance e2eC16C20_HasPiReal : HasPi ℝ := ⟨Real.pi⟩
local instance e2eC16C20_HasNarrowReal : HasNarrow ℝ := ⟨id⟩
noncomputable local instance e2eC16C20_HasFloorReal : HasFloor ℝ := ⟨fun x => (⌊x⌋ : ℝ)⟩
noncomputable local instance e2eC16C20_HasRoundReal : HasRound ℝ := ⟨fun x => (round x : ℝ)⟩
noncomputable local instance e2eC16C20_HasTruncReal : HasTrunc ℝ := ⟨fun x => ⌊x⌋⟩

section c16
variable {α : Type} [Field α] [LinearOrder α] [IsStrictOrderedRing α]
  [HasSqrt α] [HasExp α] [HasLog α] [HasSin α] [HasCos α] [HasAsin α] [HasRpow α] [HasPi α] [HasNarrow α]
  [HasFloor α] [HasRound α]

/-! ## C16 (1) seawater density -/

/-- **C16 (density: finite, copies agree).**  The interpreted `calc_density` of `utils/eos.py` and its copy in
`egg/ibm.py` finish for every temperature and salinity with the same value, the generated EOS-80 polynomial. -/
theorem c16_density_never_raises (temp salt : α) :
    calcDensityRun temp salt Gen.eos_calc_density_seq = some (some (Gen.eos_density temp salt)) ∧
    calcDensityRun temp salt Gen.egg_calc_density_seq = some (some (Gen.eos_density temp salt)) := by
  refine ⟨Bridge.eos_calc_density_seq temp salt, ?_⟩
  rw [Bridge.egg_calc_density_seq, C16.density_copies_equal]

/-- **C16 (density increases with salinity)**, on both interpreted copies of `calc_density`: for every temperature in
`[-2, 40]` and salinities `0 ≤ S₁ < S₂ ≤ 42`.  Hypotheses: exactly the quantifier of the property; `hS`: `sqrt` is a
square root (`salt ** (1/2)` in the source). -/
theorem c16_density_increases_with_salinity (hS : SqrtLaws α) (temp s₁ s₂ : α)
    (ht0 : -2 ≤ temp) (ht1 : temp ≤ 40) (h0 : 0 ≤ s₁) (h12 : s₁ < s₂) (h2 : s₂ ≤ 42) :
    ∃ ρ₁ ρ₂ : α,
      calcDensityRun temp s₁ Gen.eos_calc_density_seq = some (some ρ₁) ∧
      calcDensityRun temp s₂ Gen.eos_calc_density_seq = some (some ρ₂) ∧
      calcDensityRun temp s₁ Gen.egg_calc_density_seq = some (some ρ₁) ∧
      calcDensityRun temp s₂ Gen.egg_calc_density_seq = some (some ρ₂) ∧ ρ₁ < ρ₂ :=
  ⟨_, _, (c16_density_never_raises temp s₁).1, (c16_density_never_raises temp s₂).1,
    (c16_density_never_raises temp s₁).2, (c16_density_never_raises temp s₂).2,
    C16.density_increases_with_salinity hS temp s₁ s₂ ht0 ht1 h0 h12 h2⟩

example := c16_density_increases_with_salinity (α := ℝ) RealInst.sqrtLaws 5 30 35
  (by norm_num) (by norm_num) (by norm_num) (by norm_num) (by norm_num)

/-- **C16 (EOS-80 check values)** on the interpreted `calc_density`: `ρ(S=0, T68=5) = 999.96675`,
`ρ(35, 5) = 1027.67547`, `ρ(35, 25) = 1023.34306` to `10⁻⁵` (UNESCO 1983; the function converts its input with
`T68 = 1.00024·T`, so the IPTS-68 table temperatures are attained at `T = T68 / 1.00024`). -/
theorem c16_density_check_values (hS : SqrtLaws α) :
    ∃ ρ₁ ρ₂ ρ₃ : α,
      calcDensityRun (5 / 1.00024 : α) 0 Gen.eos_calc_density_seq = some (some ρ₁) ∧
      calcDensityRun (5 / 1.00024 : α) 35 Gen.eos_calc_density_seq = some (some ρ₂) ∧
      calcDensityRun (25 / 1.00024 : α) 35 Gen.eos_calc_density_seq = some (some ρ₃) ∧
      |ρ₁ - 999.96675| < 1e-5 ∧ |ρ₂ - 1027.67547| < 1e-5 ∧ |ρ₃ - 1023.34306| < 1e-5 := by
  obtain ⟨a, b, c⟩ := C16.density_check_values (α := α) hS
  exact ⟨_, _, _, (c16_density_never_raises _ _).1, (c16_density_never_raises _ _).1,
    (c16_density_never_raises _ _).1, a, b, c⟩

example := c16_density_check_values (α := ℝ) RealInst.sqrtLaws

/-! ## C16 (2) egg buoyancy on the interpreted egg `update` -/

/-- the velocity expression of `egg/ibm.py :: update` in terms of the two densities and the viscosity -/
theorem c16_egg_velocity_form (temp salt buoy d : α) :
    Gen.egg_velocity temp salt buoy d =
      (let dw := Gen.egg_density temp salt;
       let de := Gen.egg_density temp buoy;
       let m := Gen.egg_my_w temp salt;
       let dmax := rpow (9.0 * m * m / (1025.0 * 9.81 * fabs (dw - de))) (1.0 / 3.0);
       let W := (if d ≤ dmax then 1.0 / 18.0 * (1.0 / m) * 9.81 * (d * d) * fabs (dw - de)
          else 0.08825 * (d - 0.4 * dmax) * rpow (fabs (dw - de)) (2.0 / 3.0) * rpow m (-1.0 / 3.0));
       (-W) * fsign (dw - de)) := by
  unfold Gen.egg_velocity Gen.egg_my_w
  simp only [decide_eq_true_eq]

theorem c16_my_w_pos (temp salt : α) (hs : 0 ≤ salt) : 0 < Gen.egg_my_w temp salt := by
  unfold Gen.egg_my_w
  simp only []
  nlinarith [mul_self_nonneg (temp - 38.4)]

theorem c16_fsign_of_pos (x : α) (h : 0 < x) : fsign x = 1 := by
  unfold fsign; lits; rw [if_neg (by linarith), if_pos h]
theorem c16_fsign_of_neg (x : α) (h : x < 0) : fsign x = -1 := by
  unfold fsign; lits; rw [if_pos h]
theorem c16_fsign_zero : fsign (0 : α) = 0 := by
  unfold fsign; lits; simp
theorem c16_fabs_pos_of_ne (x : α) (h : x ≠ 0) : 0 < fabs x := by
  unfold fabs; lits
  rcases lt_or_gt_of_ne h with h | h
  · rw [if_pos h]; linarith
  · rw [if_neg (by linarith)]; exact h
/-- the unsigned speed of the egg IBM is positive whenever the densities differ -/
theorem c16_egg_speed_pos (hR : RpowLaws α) (m dw de d : α) (hm : 0 < m) (hd : 0 < d) (hne : dw - de ≠ 0) :
    0 < (if d ≤ rpow (9.0 * m * m / (1025.0 * 9.81 * fabs (dw - de))) (1.0 / 3.0)
          then 1.0 / 18.0 * (1.0 / m) * 9.81 * (d * d) * fabs (dw - de)
          else 0.08825 * (d - 0.4 * rpow (9.0 * m * m / (1025.0 * 9.81 * fabs (dw - de))) (1.0 / 3.0))
            * rpow (fabs (dw - de)) (2.0 / 3.0) * rpow m (-1.0 / 3.0)) := by
  have ha := c16_fabs_pos_of_ne _ hne
  set A := fabs (dw - de)
  have hq : 0 ≤ 9.0 * m * m / (1025.0 * 9.81 * A) := by
    lits
    have : (0 : α) < 9.81 := by norm_num
    positivity
  have hdm := hR.rpow_nonneg _ (1.0 / 3.0) hq
  set dmax := rpow (9.0 * m * m / (1025.0 * 9.81 * A)) (1.0 / 3.0)
  split_ifs with hb
  · lits
    have : (0 : α) < 9.81 := by norm_num
    positivity
  · have h4 : 0 < d - 0.4 * dmax := by
      have := not_le.mp hb
      norm_num; nlinarith
    have h1 := hR.rpow_pos A (2.0 / 3.0) ha
    have h2 := hR.rpow_pos m (-1.0 / 3.0) hm
    have h88 : (0 : α) < 0.08825 := by norm_num
    exact mul_pos (mul_pos (mul_pos h88 h4) h1) h2

/-- sign of the vertical velocity computed by `egg/ibm.py :: update` -/
theorem c16_egg_velocity_sign (hR : RpowLaws α) (temp salt buoy d : α) (hs : 0 ≤ salt) (hd : 0 < d) :
    (Gen.egg_density temp buoy < Gen.egg_density temp salt → Gen.egg_velocity temp salt buoy d < 0) ∧
    (Gen.egg_density temp salt < Gen.egg_density temp buoy → 0 < Gen.egg_velocity temp salt buoy d) ∧
    (Gen.egg_density temp salt = Gen.egg_density temp buoy → Gen.egg_velocity temp salt buoy d = 0) := by
  rw [c16_egg_velocity_form]
  simp only []
  have hm := c16_my_w_pos temp salt hs
  refine ⟨fun h => ?_, fun h => ?_, fun h => ?_⟩
  · have hp : 0 < Gen.egg_density temp salt - Gen.egg_density temp buoy := by linarith
    have := c16_egg_speed_pos hR _ _ _ d hm hd hp.ne'
    rw [c16_fsign_of_pos _ hp]
    linarith
  · have hp : Gen.egg_density temp salt - Gen.egg_density temp buoy < 0 := by linarith
    have := c16_egg_speed_pos hR _ _ _ d hm hd hp.ne
    rw [c16_fsign_of_neg _ hp]
    linarith
  · rw [h, sub_self, c16_fsign_zero, mul_zero]

/-- the interpreted `update` of the egg IBM on one particle: it finishes, and the new depth is the generated position
window `Gen.egg_Z` applied to the generated velocity (plus the random velocity iff `self.vertical_diffusion`) -/
theorem c16_egg_update_core (e : EggEnv α) (x y z age buoy xi : α) (rest : List α) :
    ∃ s, eggRun e x y z age buoy (xi :: rest) = some (some s) ∧
      s.z = Gen.egg_Z z (if e.vertDiff
          then Gen.egg_velocity (e.temp x y z) (e.salt x y z) buoy e.eggDiam + xi * rpow (2.0 * e.D / e.dt) 0.5
          else Gen.egg_velocity (e.temp x y z) (e.salt x y z) buoy e.eggDiam) e.dt := by
  obtain ⟨D, dt, diam, vd, ft, fs⟩ := e
  cases vd
  · obtain ⟨s, hs, hz, -⟩ := Bridge.egg_run_nodiff D dt diam ft fs x y z age buoy (xi :: rest)
    exact ⟨s, hs, by rw [hz, Bridge.egg_update_z]; rfl⟩
  · obtain ⟨s, hs, hz, -⟩ := Bridge.egg_run_diff D dt diam ft fs x y z age buoy xi rest
    exact ⟨s, hs, by rw [hz, Bridge.egg_update_z]; rfl⟩

theorem c16_egg_Z_plain (z W dt : α) (h0 : 0 ≤ z + W * dt) (h1 : z + W * dt < 200) : Gen.egg_Z z W dt = z + W * dt := by
  have e200 : (200.0 : α) = 200 := by norm_num
  unfold Gen.egg_Z
  lits
  simp only [decide_eq_true_eq, e200]
  rw [if_neg (not_lt.mpr h0), if_neg (not_le.mpr h1)]

/-- **C16 (eggs lighter than the surrounding water rise)** on the interpreted `update` of the egg IBM
(`Gen.egg_update_seq`, one particle, forcing read at the old position).  An egg whose neutral-buoyancy salinity `buoy`
is below the ambient salinity is lighter than the water (composition with "density increases with salinity"); the
run finishes, its buoyancy velocity `W` is negative (upward), the new depth is the generated position window
`Gen.egg_Z` of `W` (plus the random velocity iff `self.vertical_diffusion`), and without mixing the egg ends strictly
above its old depth unless it would cross the surface (where it is mirrored).
Hypotheses: the property's ranges (`T ∈ [-2,40]`, `0 ≤ buoy < S ≤ 42`), positive diameter and time step; `hS`, `hR`:
laws of `sqrt` / `**`.  Forced by the bridge: the supply of random numbers is non-empty (`xi :: rest`; the number is
only consumed when `self.vertical_diffusion`). -/
theorem c16_egg_update_buoyant_rises (hS : SqrtLaws α) (hR : RpowLaws α) (e : EggEnv α) (x y z age buoy xi : α)
    (rest : List α) (hd : 0 < e.eggDiam) (hdt : 0 < e.dt)
    (ht0 : -2 ≤ e.temp x y z) (ht1 : e.temp x y z ≤ 40)
    (hb0 : 0 ≤ buoy) (hbs : buoy < e.salt x y z) (hs1 : e.salt x y z ≤ 42) :
    ∃ s W, eggRun e x y z age buoy (xi :: rest) = some (some s) ∧ W < 0 ∧
      s.z = Gen.egg_Z z (if e.vertDiff then W + xi * rpow (2.0 * e.D / e.dt) 0.5 else W) e.dt ∧
      (e.vertDiff = false → 0 ≤ z + W * e.dt → z < 200 → s.z < z) := by
  obtain ⟨s, hs, hz⟩ := c16_egg_update_core e x y z age buoy xi rest
  have hdens := C16.density_increases_with_salinity hS (e.temp x y z) buoy (e.salt x y z) ht0 ht1 hb0 hbs hs1
  rw [C16.density_copies_equal, C16.density_copies_equal] at hdens
  have hW := (c16_egg_velocity_sign hR (e.temp x y z) (e.salt x y z) buoy e.eggDiam (by linarith) hd).1 hdens
  refine ⟨s, _, hs, hW, hz, fun hv h0 h200 => ?_⟩
  rw [hz, hv]
  simp only [Bool.false_eq_true, if_false]
  have : Gen.egg_velocity (e.temp x y z) (e.salt x y z) buoy e.eggDiam * e.dt < 0 := mul_neg_of_neg_of_pos hW hdt
  rw [c16_egg_Z_plain _ _ _ h0 (by linarith)]
  linarith

/-- a 1.4 mm egg of neutral-buoyancy salinity 32 in water of 5 °C and salinity 34, no mixing -/
noncomputable def c16_exEgg (vd : Bool) : EggEnv ℝ := ⟨0.01, 600, 0.0014, vd, fun _ _ _ => 5, fun _ _ _ => 34⟩
example := c16_egg_update_buoyant_rises RealInst.sqrtLaws RealInst.rpowLaws (c16_exEgg false) 0 0 10 0 32 0 []
  (by norm_num [c16_exEgg]) (by norm_num [c16_exEgg]) (by norm_num [c16_exEgg]) (by norm_num [c16_exEgg]) (by norm_num)
  (by norm_num [c16_exEgg]) (by norm_num [c16_exEgg])

/-- **C16 (denser eggs sink)** on the interpreted egg `update`: `S < buoy ≤ 42` gives a positive (downward) velocity,
and without mixing the egg ends strictly below its old depth as long as it stays above the 200 m cap. -/
theorem c16_egg_update_dense_sinks (hS : SqrtLaws α) (hR : RpowLaws α) (e : EggEnv α) (x y z age buoy xi : α)
    (rest : List α) (hd : 0 < e.eggDiam) (hdt : 0 < e.dt)
    (ht0 : -2 ≤ e.temp x y z) (ht1 : e.temp x y z ≤ 40)
    (hs0 : 0 ≤ e.salt x y z) (hsb : e.salt x y z < buoy) (hb1 : buoy ≤ 42) :
    ∃ s W, eggRun e x y z age buoy (xi :: rest) = some (some s) ∧ 0 < W ∧
      s.z = Gen.egg_Z z (if e.vertDiff then W + xi * rpow (2.0 * e.D / e.dt) 0.5 else W) e.dt ∧
      (e.vertDiff = false → 0 ≤ z → z + W * e.dt < 200 → z < s.z) := by
  obtain ⟨s, hs, hz⟩ := c16_egg_update_core e x y z age buoy xi rest
  have hdens := C16.density_increases_with_salinity hS (e.temp x y z) (e.salt x y z) buoy ht0 ht1 hs0 hsb hb1
  rw [C16.density_copies_equal, C16.density_copies_equal] at hdens
  have hW := (c16_egg_velocity_sign hR (e.temp x y z) (e.salt x y z) buoy e.eggDiam hs0 hd).2.1 hdens
  refine ⟨s, _, hs, hW, hz, fun hv h0 h200 => ?_⟩
  rw [hz, hv]
  simp only [Bool.false_eq_true, if_false]
  have : 0 < Gen.egg_velocity (e.temp x y z) (e.salt x y z) buoy e.eggDiam * e.dt := mul_pos hW hdt
  rw [c16_egg_Z_plain _ _ _ (by linarith) h200]
  linarith

example := c16_egg_update_dense_sinks RealInst.sqrtLaws RealInst.rpowLaws (c16_exEgg false) 0 0 10 0 36 0 []
  (by norm_num [c16_exEgg]) (by norm_num [c16_exEgg]) (by norm_num [c16_exEgg]) (by norm_num [c16_exEgg]) (by norm_num [c16_exEgg])
  (by norm_num [c16_exEgg]) (by norm_num)

/-- **C16 (zero at neutral buoyancy)** on the interpreted egg `update`: for `buoy` equal to the ambient salinity the
velocity is `0` (over a field `x / 0 = 0`; in IEEE arithmetic `dmax = inf` selects the Stokes branch, `0` as well) and
an egg in `[0, 200)` is not moved (no mixing). -/
theorem c16_egg_update_neutral_stays (e : EggEnv α) (x y z age xi : α) (rest : List α)
    (hv : e.vertDiff = false) (h0 : 0 ≤ z) (h200 : z < 200) :
    Gen.egg_velocity (e.temp x y z) (e.salt x y z) (e.salt x y z) e.eggDiam = 0 ∧
    ∃ s, eggRun e x y z age (e.salt x y z) (xi :: rest) = some (some s) ∧ s.z = z := by
  have hW : Gen.egg_velocity (e.temp x y z) (e.salt x y z) (e.salt x y z) e.eggDiam = 0 := by
    rw [c16_egg_velocity_form]
    simp only [sub_self, c16_fsign_zero, mul_zero]
  obtain ⟨s, hs, hz⟩ := c16_egg_update_core e x y z age (e.salt x y z) xi rest
  refine ⟨hW, s, hs, ?_⟩
  rw [hz, hv]
  simp only [Bool.false_eq_true, if_false, hW]
  rw [c16_egg_Z_plain _ _ _ (by simpa using h0) (by simpa using h200)]
  simp

example := c16_egg_update_neutral_stays (c16_exEgg false) 0 0 10 0 0 [] rfl (by norm_num) (by norm_num)

/-! ## C16 (3) the larvae module's `sinkvel_egg`; consistency of the copies -/

/-- **C16 (odd function of the density difference)** on the interpreted `sinkvel_egg` of the larvae module:
exchanging the two densities negates the result and changes nothing else. -/
theorem c16_sinkvel_seq_odd (mu a b d : α) :
    larvaeSinkvelRun mu a b d Gen.larvae_sinkvel_egg_seq
      = (larvaeSinkvelRun mu b a d Gen.larvae_sinkvel_egg_seq).map (Option.map fun w => -w) := by
  rw [Bridge.larvae_sinkvel_egg_seq, Bridge.larvae_sinkvel_egg_seq, C16.sink_speed_odd mu a b d]
  rfl

/-- **C16 (zero at neutral buoyancy)** on the interpreted `sinkvel_egg`. -/
theorem c16_sinkvel_seq_zero_at_neutral (mu a d : α) :
    larvaeSinkvelRun mu a a d Gen.larvae_sinkvel_egg_seq = some (some 0) := by
  rw [Bridge.larvae_sinkvel_egg_seq, C16.sink_speed_zero_at_neutral]

/-- **C16 (right sign)** on the interpreted `sinkvel_egg`, both branches (Stokes and Dallavalle): lighter eggs get a
negative (upward) velocity, denser eggs a positive one.  Hypotheses: positive viscosity and diameter; `hR`: powers of
positive numbers are positive. -/
theorem c16_sinkvel_seq_sign (hR : RpowLaws α) (mu dw de d : α) (hmu : 0 < mu) (hd : 0 < d) :
    ∃ W, larvaeSinkvelRun mu dw de d Gen.larvae_sinkvel_egg_seq = some (some W) ∧
      (de < dw → W < 0) ∧ (dw < de → 0 < W) ∧ (de = dw → W = 0) := by
  refine ⟨_, Bridge.larvae_sinkvel_egg_seq mu dw de d, ?_⟩
  have h3 : de = dw → Gen.larvae_sinkvel_egg mu dw de d = 0 := fun h => by
    rw [h]; exact C16.sink_speed_zero_at_neutral mu dw d
  by_cases hbr : d ≤ rpow ((9.0 * mu * mu) / (1025.0 * 9.81 * (fabs (dw - de) + 1.0e-16))) (1.0 / 3.0)
  · obtain ⟨h1, h2⟩ := C16.sink_speed_sign_stokes mu dw de d hmu hd hbr
    exact ⟨h1, h2, h3⟩
  · have hpos : 0 ≤ rpow ((9.0 * mu * mu) / (1025.0 * 9.81 * (fabs (dw - de) + 1.0e-16))) (1.0 / 3.0) := by
      apply hR.rpow_nonneg
      have : 0 ≤ fabs (dw - de) := by
        unfold fabs; lits; split_ifs with h <;> linarith
      lits
      have h981 : (0 : α) < 9.81 := by norm_num
      positivity
    obtain ⟨h1, h2⟩ := C16.sink_speed_sign_dallavalle hR mu dw de d hmu hbr hpos
    exact ⟨h1, h2, h3⟩

example := c16_sinkvel_seq_sign (α := ℝ) RealInst.rpowLaws 0.0015 1027 1026 0.0014 (by norm_num) (by norm_num)

/-- **C16 (non-decreasing in the density difference) — PARTIAL**: shown inside the Stokes regime (both eggs below the
maximal Stokes diameter `dmax`, hypotheses `hb1`, `hb2`), where the speed is linear in the density difference.
MISSING: the Dallavalle branch and the switch between the branches — they need monotonicity / continuity laws of `**`
(`dmax` itself depends on the density difference), which no existing lemma provides. -/
theorem c16_sinkvel_seq_monotone_stokes_partial (mu dw de₁ de₂ d : α) (hmu : 0 < mu)
    (hb1 : d ≤ rpow ((9.0 * mu * mu) / (1025.0 * 9.81 * (fabs (dw - de₁) + 1.0e-16))) (1.0 / 3.0))
    (hb2 : d ≤ rpow ((9.0 * mu * mu) / (1025.0 * 9.81 * (fabs (dw - de₂) + 1.0e-16))) (1.0 / 3.0))
    (h12 : de₁ - dw ≤ de₂ - dw) :
    ∃ W₁ W₂, larvaeSinkvelRun mu dw de₁ d Gen.larvae_sinkvel_egg_seq = some (some W₁) ∧
      larvaeSinkvelRun mu dw de₂ d Gen.larvae_sinkvel_egg_seq = some (some W₂) ∧ W₁ ≤ W₂ := by
  refine ⟨_, _, Bridge.larvae_sinkvel_egg_seq mu dw de₁ d, Bridge.larvae_sinkvel_egg_seq mu dw de₂ d, ?_⟩
  rw [C16.sink_speed_stokes mu dw de₁ d hb1, C16.sink_speed_stokes mu dw de₂ d hb2]
  have hk : 0 ≤ 9.81 * (d * d) / (18 * mu) := by
    have : (0 : α) < 9.81 := by norm_num
    have := mul_self_nonneg d
    positivity
  nlinarith [mul_le_mul_of_nonneg_left h12 hk]

/-- cube-root bound used to place a concrete egg in the Stokes regime -/
theorem c16_ex_cuberoot (d x : ℝ) (hd : 0 ≤ d) (h : d ^ 3 ≤ x) : d ≤ rpow x (1.0 / 3.0) := by
  have e : (1.0 / 3.0 : ℝ) = 1 / 3 := by norm_num
  show d ≤ x ^ (1.0 / 3.0 : ℝ)
  rw [e]
  calc d = (d ^ 3) ^ ((1 : ℝ) / 3) := by
        rw [← Real.rpow_natCast, ← Real.rpow_mul hd]; norm_num
    _ ≤ x ^ ((1 : ℝ) / 3) := Real.rpow_le_rpow (by positivity) h (by norm_num)

example := c16_sinkvel_seq_monotone_stokes_partial (α := ℝ) 0.0015 1027 1026 1026.5 0.0005 (by norm_num)
  (by apply c16_ex_cuberoot _ _ (by norm_num); norm_num [fabs])
  (by apply c16_ex_cuberoot _ _ (by norm_num); norm_num [fabs])
  (by norm_num)

set_option maxRecDepth 100000 in
/-- the locals of the interpreted egg `update` when it finishes (no mixing): velocity, viscosity, the two densities -/
theorem c16_egg_run_locals (D dt diam : α) (ft fs : α → α → α → α) (x y z age buoy : α) (rest : List α) :
    ∃ s, eggRun ⟨D, dt, diam, false, ft, fs⟩ x y z age buoy rest = some (some s) ∧
      s.W = some (Gen.egg_velocity (ft x y z) (fs x y z) buoy diam) ∧
      s.myW = some (Gen.egg_my_w (ft x y z) (fs x y z)) ∧
      s.densWater = some (Gen.egg_density (ft x y z) (fs x y z)) ∧
      s.densEgg = some (Gen.egg_density (ft x y z) buoy) :=
  ⟨_, rfl, rfl, rfl, rfl, rfl⟩

theorem c16_fabs_mul_fsign (x : α) : fabs x * fsign x = x := by
  unfold fabs fsign; lits
  rcases lt_trichotomy x 0 with h | h | h
  · rw [if_pos h, if_pos h]; ring
  · subst h; simp
  · rw [if_neg (by linarith), if_neg (by linarith), if_pos h]; ring

/-- Stokes regime of both copies: the egg IBM's velocity is the larvae module's `sinkvel_egg` -/
theorem c16_egg_velocity_eq_sinkvel_stokes (temp salt buoy d : α)
    (h1 : d ≤ rpow (9.0 * Gen.egg_my_w temp salt * Gen.egg_my_w temp salt
      / (1025.0 * 9.81 * fabs (Gen.egg_density temp salt - Gen.egg_density temp buoy))) (1.0 / 3.0))
    (h2 : d ≤ rpow (9.0 * Gen.egg_my_w temp salt * Gen.egg_my_w temp salt
      / (1025.0 * 9.81 * (fabs (Gen.egg_density temp salt - Gen.egg_density temp buoy) + 1.0e-16))) (1.0 / 3.0)) :
    Gen.larvae_sinkvel_egg (Gen.egg_my_w temp salt) (Gen.egg_density temp salt) (Gen.egg_density temp buoy) d
      = Gen.egg_velocity temp salt buoy d := by
  rw [C16.sink_speed_stokes _ _ _ _ h2, c16_egg_velocity_form]
  simp only [h1, if_true]
  have := c16_fabs_mul_fsign (Gen.egg_density temp salt - Gen.egg_density temp buoy)
  set A := fabs (Gen.egg_density temp salt - Gen.egg_density temp buoy)
  set S := fsign (Gen.egg_density temp salt - Gen.egg_density temp buoy)
  rw [← this]
  lits
  ring

/-- **C16 (the independent copies give the same values)**, stated on the locals of the interpreted egg `update`
(no mixing) against the interpreted library functions: the inlined viscosity `my_w` is `utils.eos.viscosity`, the two
densities are `utils.eos.calc_density` (and the egg module's own `calc_density` is the same), and the egg IBM's
velocity `W` is the larvae module's `sinkvel_egg` of these values.
The last clause is PARTIAL: only when the diameter is in the Stokes regime of BOTH copies.  The copies are NOT
identical on the Dallavalle branch: the larvae module regularises `dmax` with `+ 1e-16` in the denominator, the egg
module does not (a real difference of the source, numerically negligible). -/
theorem c16_copies_agree (D dt diam : α) (ft fs : α → α → α → α) (x y z age buoy : α) (rest : List α) :
    ∃ s, eggRun ⟨D, dt, diam, false, ft, fs⟩ x y z age buoy rest = some (some s) ∧
      viscosityRun (ft x y z) (fs x y z) Gen.eos_viscosity_seq = some s.myW ∧
      calcDensityRun (ft x y z) (fs x y z) Gen.eos_calc_density_seq = some s.densWater ∧
      calcDensityRun (ft x y z) buoy Gen.eos_calc_density_seq = some s.densEgg ∧
      calcDensityRun (ft x y z) (fs x y z) Gen.egg_calc_density_seq = some s.densWater ∧
      (∀ mu dw de, s.myW = some mu → s.densWater = some dw → s.densEgg = some de →
        diam ≤ rpow (9.0 * mu * mu / (1025.0 * 9.81 * fabs (dw - de))) (1.0 / 3.0) →
        diam ≤ rpow (9.0 * mu * mu / (1025.0 * 9.81 * (fabs (dw - de) + 1.0e-16))) (1.0 / 3.0) →
        larvaeSinkvelRun mu dw de diam Gen.larvae_sinkvel_egg_seq = some s.W) := by
  obtain ⟨s, hs, hW, hm, hdw, hde⟩ := c16_egg_run_locals D dt diam ft fs x y z age buoy rest
  refine ⟨s, hs, ?_, ?_, ?_, ?_, ?_⟩
  · rw [Bridge.eos_viscosity_seq, hm, C16.viscosity_generated_copies_equal]
  · rw [Bridge.eos_calc_density_seq, hdw, C16.density_copies_equal]
  · rw [Bridge.eos_calc_density_seq, hde, C16.density_copies_equal]
  · rw [Bridge.egg_calc_density_seq, hdw]
  · intro mu dw de h1 h2 h3 hb1 hb2
    rw [hm] at h1; rw [hdw] at h2; rw [hde] at h3
    cases h1; cases h2; cases h3
    rw [Bridge.larvae_sinkvel_egg_seq, hW, c16_egg_velocity_eq_sinkvel_stokes _ _ _ _ hb1 hb2]

example := c16_copies_agree (α := ℝ) 0.01 600 0.0014 (fun _ _ _ => 5) (fun _ _ _ => 34) 0 0 10 0 32 []

/-! ## C16 (4) behaviour: larvae, salmon lice, shrimp -/

/-- **C16 (larvae swim down when the light at their depth exceeds their preference and up otherwise)** on the
interpreted `update_ibm` of the larvae IBM.  `Eb` is the value of the interpreted `utils.light.light` at the larva's
OLD depth with the configured extinction coefficient `self.k`; the swimming velocity `W` stored by the code is positive
(down) iff `desired_light < Eb` and negative (up) iff `Eb < desired_light`; the new depth is the clipped old depth plus
`float32(float32(W) · float32(dt))` (`narrow` = rounding to binary32: `W` is a `float32` array in the source), with
the random term added iff `self.D ≠ 0`.
Hypotheses: hatched larva, positive swim speed; `hE`: `exp > 0`.  Forced by the bridge: `hg`, `hl` — the configured
callables `self.growth` / `self.length` are the species defaults `growth_cod_larvae` / `weight_to_length`; non-empty
supply of random numbers. -/
theorem c16_larvae_update_swims_by_light (hE : ExpLaws α) (e : LarvaEnv α) (hg : e.growth = Gen.larvae_growth)
    (hl : e.length = Gen.larvae_weight_to_length) (x y buoy : α) (p : Bio.Larva α) (xi : α) (rest : List α)
    (hhatch : e.c.hatchDay < p.age) (hs : 0 < e.c.swimSpeed) :
    ∃ W Eb : α,
      lightRun e.light0 x y p.z e.c.k Gen.light_seq = some (some Eb) ∧
      (0 < W ↔ e.c.desired < Eb) ∧ (W < 0 ↔ Eb < e.c.desired) ∧
      (larvaeRun e x y buoy p (xi :: rest)).map (Option.map fun s => s.particle.z)
        = some (some (fmax (fmin (p.z + narrow ((if Bio.isZeroS e.c.D then narrow W
            else narrow (narrow W + xi * sqrt (2.0 * e.c.D / e.c.dt))) * narrow e.c.dt)) e.c.maxDepth) e.c.minDepth)) := by
  have hb := Bridge.larvae_update_seq e hg hl x y buoy p xi rest
  refine ⟨_, _, Bridge.light_seq e.light0 x y p.z e.c.k,
    (C16.larva_swims_down_iff hE e.c.swimSpeed e.c.desired _
      (Bio.larvaWeight e.c.initWeight (e.temp x y p.z) e.c.dt p.weight) hs).1,
    (C16.larva_swims_down_iff hE e.c.swimSpeed e.c.desired _
      (Bio.larvaWeight e.c.initWeight (e.temp x y p.z) e.c.dt p.weight) hs).2, ?_⟩
  generalize larvaeRun e x y buoy p (xi :: rest) = r at hb ⊢
  rcases r with _ | _ | s
  · simp at hb
  · simp at hb
  · simp only [Option.map_some, Option.some.injEq, Prod.mk.injEq] at hb ⊢
    rw [hb.1]
    cases hD : Bio.isZeroS e.c.D <;>
    simp [Bio.larvaUpdate, Bio.larvaFinalZ, Bio.clipDepth, not_le.mpr hhatch]

/-- a cod larva configuration without mixing: band 5–60 m, preferred light 1, surface light 100 -/
noncomputable def c16_exLarva : LarvaEnv ℝ :=
  ⟨⟨60, 0.093, 0.2, 1, 5, 60, 0.2, 0, 600, 600, 0.0011, true⟩, fun _ _ _ => 5, fun _ _ _ => 34, fun _ _ => 100,
    Gen.larvae_growth, Gen.larvae_weight_to_length, false, fun x y => (x, y)⟩
example := c16_larvae_update_swims_by_light RealInst.expLaws c16_exLarva rfl rfl 0 0 32 ⟨20, 100, 0.2⟩ 0 []
  (by norm_num [c16_exLarva]) (by norm_num [c16_exLarva])

theorem c16_clip_mono_ge (lo hi z d : α) (h1 : lo ≤ z) (h2 : z ≤ hi) (hd : 0 ≤ d) : z ≤ fmax (fmin (z + d) hi) lo := by
  unfold fmax fmin; split_ifs <;> linarith
theorem c16_clip_mono_le (lo hi z d : α) (h1 : lo ≤ z) (h2 : z ≤ hi) (hd : d ≤ 0) : fmax (fmin (z + d) hi) lo ≤ z := by
  unfold fmax fmin; split_ifs <;> linarith

/-- … hence the movement itself: without mixing, for a larva inside its depth band, the new depth is `≥` the old one
when the light exceeds the preference and `≤` when it is below.  Extra hypotheses: rounding to binary32 is monotone and
keeps `0` (`hNm`, `hN0`); weak inequalities because the rounded step may be flushed to `0` and the band clips. -/
theorem c16_larvae_update_direction (hE : ExpLaws α) (hN0 : narrow (0 : α) = 0)
    (hNm : ∀ a b : α, a ≤ b → narrow a ≤ narrow b) (e : LarvaEnv α) (hg : e.growth = Gen.larvae_growth)
    (hl : e.length = Gen.larvae_weight_to_length) (x y buoy : α) (p : Bio.Larva α) (xi : α) (rest : List α)
    (hhatch : e.c.hatchDay < p.age) (hs : 0 < e.c.swimSpeed) (hD : Bio.isZeroS e.c.D = true) (hdt : 0 ≤ e.c.dt)
    (hz1 : e.c.minDepth ≤ p.z) (hz2 : p.z ≤ e.c.maxDepth) :
    ∃ Eb znew : α,
      lightRun e.light0 x y p.z e.c.k Gen.light_seq = some (some Eb) ∧
      (larvaeRun e x y buoy p (xi :: rest)).map (Option.map fun s => s.particle.z) = some (some znew) ∧
      (e.c.desired < Eb → p.z ≤ znew) ∧ (Eb < e.c.desired → znew ≤ p.z) := by
  obtain ⟨W, Eb, hL, hpos, hneg, hrun⟩ := c16_larvae_update_swims_by_light hE e hg hl x y buoy p xi rest hhatch hs
  rw [hD] at hrun
  simp only [if_true] at hrun
  have hndt : 0 ≤ narrow e.c.dt := by rw [← hN0]; exact hNm _ _ hdt
  refine ⟨Eb, _, hL, hrun, fun h => ?_, fun h => ?_⟩
  · have hW : 0 ≤ narrow W := by rw [← hN0]; exact hNm _ _ (hpos.mpr h).le
    have : 0 ≤ narrow (narrow W * narrow e.c.dt) := by rw [← hN0]; exact hNm _ _ (mul_nonneg hW hndt)
    exact c16_clip_mono_ge _ _ _ _ hz1 hz2 this
  · have hW : narrow W ≤ 0 := by rw [← hN0]; exact hNm _ _ (hneg.mpr h).le
    have : narrow (narrow W * narrow e.c.dt) ≤ 0 := by
      rw [← hN0]; exact hNm _ _ (mul_nonpos_of_nonpos_of_nonneg hW hndt)
    exact c16_clip_mono_le _ _ _ _ hz1 hz2 this

example := c16_larvae_update_direction RealInst.expLaws rfl (fun _ _ h => h) c16_exLarva rfl rfl 0 0 32 ⟨20, 100, 0.2⟩ 0 []
  (by norm_num [c16_exLarva]) (by norm_num [c16_exLarva]) (by norm_num [c16_exLarva, Bio.isZeroS]) (by norm_num [c16_exLarva])
  (by norm_num [c16_exLarva]) (by norm_num [c16_exLarva])

/-- the interpreted lice update: new depth -/
theorem c16_lice_update_core (e : LiceEnv α) (x y : α) (p : Bio.Lice α) (r xi : α) (rest : List α) :
    (liceRun e x y p (r :: xi :: rest)).map (Option.map fun s => s.particle.z)
      = some (some (Gen.lice_Z p.z
          (if e.vertDiff then
            Gen.lice_W e.swimVel (Gen.light_at_depth (e.light0 x y) p.z e.k) (e.salt x y p.z) r
              (p.age + e.temp x y p.z * e.stateDt / 86400.0) + xi * rpow (2.0 * e.D / e.dt) 0.5
           else Gen.lice_W e.swimVel (Gen.light_at_depth (e.light0 x y) p.z e.k) (e.salt x y p.z) r
              (p.age + e.temp x y p.z * e.stateDt / 86400.0)) e.dt)) := by
  have hb := Bridge.lice_update_seq e x y p r xi rest
  generalize liceRun e x y p (r :: xi :: rest) = q at hb ⊢
  rcases q with _ | _ | s
  · simp at hb
  · simp at hb
  · simp only [Option.map_some, Option.some.injEq, Prod.mk.injEq] at hb ⊢
    rw [hb.1, ← Bridge.lice_Z, ← Bridge.lice_W]
    cases e.vertDiff <;> rfl

theorem c16_lice_Z_plain (z W dt : α) (h0 : 0 ≤ z + W * dt) (h1 : z + W * dt < 20) : Gen.lice_Z z W dt = z + W * dt := by
  have e20 : (20.0 : α) = 20 := by norm_num
  unfold Gen.lice_Z
  lits
  simp only [decide_eq_true_eq, e20]
  rw [if_neg (not_lt.mpr h0), if_neg (not_le.mpr h1)]

theorem c16_lice_W_up_value (sv Eb salt r age : α) (hE : 0.01 ≤ Eb) (hs : 32 ≤ salt) (hr0 : 0 ≤ r) :
    Gen.lice_W sv Eb salt r age = -sv := by
  unfold Gen.lice_W
  lits
  have h1 : ¬ (salt < 28 - r * 8) := by nlinarith
  have h2 : ¬ (salt < 32 - r * 2) := by nlinarith
  simp [hE, h1, h2]

theorem c16_lice_W_down_value (sv Eb salt r age : α) (hs : salt < 20) (hr0 : 0 ≤ r) (hr1 : r < 1) :
    Gen.lice_W sv Eb salt r age = sv := by
  unfold Gen.lice_W
  lits
  have h1 : salt < 28 - r * 8 := by nlinarith
  have h2 : salt < 32 - r * 2 := by nlinarith
  by_cases hn : age < 40 <;> simp [h1, h2, hn]

/-- **C16 (salmon lice swim up in light)** on the interpreted `update_ibm` of the salmon-lice IBM: if the light at
the louse's depth (`light0 · exp(-k·Z)` = the interpreted `utils.light.light`) is at least `0.01` and the water is
salty enough (`S ≥ 32`, whatever the stage and the uniform draw `r ≥ 0`), the swimming velocity is `-swim_vel < 0`
(upward); the new depth is the generated window `Gen.lice_Z` of it (plus the random velocity iff
`self.vertical_diffusion`) and, without mixing, strictly above the old depth unless the surface is crossed.
Forced by the bridge: two numbers in the supply (`r` uniform, `xi` normal; `xi` is consumed only with mixing). -/
theorem c16_lice_update_up_in_light (e : LiceEnv α) (x y : α) (p : Bio.Lice α) (r xi : α) (rest : List α)
    (hsv : 0 < e.swimVel) (hE : 0.01 ≤ Gen.light_at_depth (e.light0 x y) p.z e.k)
    (hs : 32 ≤ e.salt x y p.z) (hr0 : 0 ≤ r) :
    ∃ W znew : α, W < 0 ∧ W = -e.swimVel ∧
      lightRun e.light0 x y p.z e.k Gen.light_seq = some (some (Gen.light_at_depth (e.light0 x y) p.z e.k)) ∧
      (liceRun e x y p (r :: xi :: rest)).map (Option.map fun s => s.particle.z) = some (some znew) ∧
      znew = Gen.lice_Z p.z (if e.vertDiff then W + xi * rpow (2.0 * e.D / e.dt) 0.5 else W) e.dt ∧
      (e.vertDiff = false → 0 < e.dt → 0 ≤ p.z + W * e.dt → p.z < 20 → znew < p.z) := by
  have hval := c16_lice_W_up_value e.swimVel (Gen.light_at_depth (e.light0 x y) p.z e.k) (e.salt x y p.z) r
    (p.age + e.temp x y p.z * e.stateDt / 86400.0) hE hs hr0
  refine ⟨-e.swimVel, _, by linarith, rfl, Bridge.light_seq _ _ _ _ _, c16_lice_update_core e x y p r xi rest, ?_, ?_⟩
  · rw [hval]
  · intro hv hdt h0 h20
    rw [hv, hval]
    simp only [Bool.false_eq_true, if_false]
    have : -e.swimVel * e.dt < 0 := mul_neg_of_neg_of_pos (by linarith) hdt
    rw [c16_lice_Z_plain _ _ _ h0 (by linarith)]
    linarith

/-- salmon lice: `swim_vel = 0.0005`, `k = 0.2`, surface light 100, salinity `s` -/
noncomputable def c16_exLice (s : ℝ) : LiceEnv ℝ :=
  ⟨0.99, 0.2, 0.0005, 0.001, 600, 600, false, fun _ _ _ => 10, fun _ _ _ => s, fun _ _ => 100⟩
example := c16_lice_update_up_in_light (c16_exLice 34) 0 0 ⟨0, 50, 5, 1, true⟩ 0.5 0 []
  (by norm_num [c16_exLice]) (by simp [c16_exLice, Gen.light_at_depth, HasExp.exp]; norm_num) (by norm_num [c16_exLice])
  (by norm_num)

/-- **C16 (… and down in water fresher than their tolerance)**: for `S < 20` (below both tolerance thresholds
`28 - 8r`, `32 - 2r` for every draw `r ∈ [0,1)`) the velocity is `+swim_vel`, whatever the light and the stage. -/
theorem c16_lice_update_down_in_fresh (e : LiceEnv α) (x y : α) (p : Bio.Lice α) (r xi : α) (rest : List α)
    (hsv : 0 < e.swimVel) (hs : e.salt x y p.z < 20) (hr0 : 0 ≤ r) (hr1 : r < 1) :
    ∃ W znew : α, 0 < W ∧ W = e.swimVel ∧
      (liceRun e x y p (r :: xi :: rest)).map (Option.map fun s => s.particle.z) = some (some znew) ∧
      znew = Gen.lice_Z p.z (if e.vertDiff then W + xi * rpow (2.0 * e.D / e.dt) 0.5 else W) e.dt ∧
      (e.vertDiff = false → 0 < e.dt → 0 ≤ p.z → p.z + W * e.dt < 20 → p.z < znew) := by
  have hval := c16_lice_W_down_value e.swimVel (Gen.light_at_depth (e.light0 x y) p.z e.k) (e.salt x y p.z) r
    (p.age + e.temp x y p.z * e.stateDt / 86400.0) hs hr0 hr1
  refine ⟨e.swimVel, _, hsv, rfl, c16_lice_update_core e x y p r xi rest, ?_, ?_⟩
  · rw [hval]
  · intro hv hdt h0 h20
    rw [hv, hval]
    simp only [Bool.false_eq_true, if_false]
    have : 0 < e.swimVel * e.dt := mul_pos hsv hdt
    rw [c16_lice_Z_plain _ _ _ (by linarith) h20]
    linarith

example := c16_lice_update_down_in_fresh (c16_exLice 15) 0 0 ⟨3, 50, 5, 1, true⟩ 0.5 0 []
  (by norm_num [c16_exLice]) (by norm_num [c16_exLice]) (by norm_num) (by norm_num)

theorem c16_shrimp_migrate_between (dt speed pref z : α) (hs : 0 ≤ dt * speed) :
    (z ≤ pref → z ≤ Bio.shrimpMigrate dt speed pref z ∧ Bio.shrimpMigrate dt speed pref z ≤ pref) ∧
    (pref ≤ z → pref ≤ Bio.shrimpMigrate dt speed pref z ∧ Bio.shrimpMigrate dt speed pref z ≤ z) := by
  unfold Bio.shrimpMigrate fsign fmin fabs
  lits
  rcases lt_trichotomy pref z with h | h | h
  · have h1 : pref - z < 0 := by linarith
    simp only [h1, if_true]
    constructor <;> intro hh <;> split_ifs <;> constructor <;> nlinarith
  · subst h; simp
  · have h1 : ¬ pref - z < 0 := by linarith
    have h2 : 0 < pref - z := by linarith
    simp only [h1, if_false, h2, if_true]
    constructor <;> intro hh <;> split_ifs <;> constructor <;> nlinarith

theorem c16_shrimp_pref_eq (h minDay minNgh maxDay maxNgh q : α) :
    Bio.shrimpPreferred (if decide ((0.0 : α) < h) = true then minDay else minNgh)
        (if decide ((0.0 : α) < h) = true then maxDay else maxNgh) q
      = if 0 < h then minDay + (maxDay - minDay) * q else minNgh + (maxNgh - minNgh) * q := by
  unfold Bio.shrimpPreferred
  lits
  by_cases hh : 0 < h <;> simp [hh]

/-- **C16 (shrimp move toward their preferred day or night depth)** on the interpreted `diel_migration`
(`Gen.shrimp_diel_migration_seq`, the sun height from the interpreted `sunheight`): the preferred depth is
`mindepth + (maxdepth - mindepth)·q` of the DAY tables when the sun is above the horizon and of the NIGHT tables
otherwise, and the new depth lies between the old depth and the preferred depth (toward it, never past it).
Hypotheses: `dt ≥ 0`, non-negative speeds.  Forced by the bridge (the five table reads must succeed): the stage tables
have at least the five pelagic stages and the integer part of the stage is `≥ 1` (true after `growth`, which clips the
stage to `[1, 6]`). -/
theorem c16_shrimp_diel_toward_preferred [HasTrunc α] {τ : Type} (e : ShrimpEnv α τ) (p : Shrimp α)
    (hl1 : 5 ≤ e.vertSpeed.length) (hl2 : 5 ≤ e.maxDay.length) (hl3 : 5 ≤ e.maxNgh.length)
    (hl4 : 5 ≤ e.minDay.length) (hl5 : 5 ≤ e.minNgh.length) (hst : 1 ≤ trunc p.stage)
    (hspeed : ∀ v ∈ e.vertSpeed, 0 ≤ v) (hdt : 0 ≤ e.dt) :
    ∃ (p' : Shrimp α) (h maxDay maxNgh minDay minNgh pref : α),
      shrimpSunheightRun e.timetuple (if e.hasTimestamp then e.timestamp else e.timeVar)
        (e.lonlat p.x p.y).1 (e.lonlat p.x p.y).2 = some (some h) ∧
      npIndex e.maxDay (shrimpIntStage p.stage) = some maxDay ∧
      npIndex e.maxNgh (shrimpIntStage p.stage) = some maxNgh ∧
      npIndex e.minDay (shrimpIntStage p.stage) = some minDay ∧
      npIndex e.minNgh (shrimpIntStage p.stage) = some minNgh ∧
      pref = (if 0 < h then minDay + (maxDay - minDay) * p.q else minNgh + (maxNgh - minNgh) * p.q) ∧
      shrimpDielRun e p = some (some p') ∧
      (p.z ≤ pref → p.z ≤ p'.z ∧ p'.z ≤ pref) ∧ (pref ≤ p.z → pref ≤ p'.z ∧ p'.z ≤ p.z) := by
  obtain ⟨speed, h1⟩ := Bridge.shrimp_table_read e.vertSpeed hl1 p.stage hst
  obtain ⟨maxDay, h2⟩ := Bridge.shrimp_table_read e.maxDay hl2 p.stage hst
  obtain ⟨maxNgh, h3⟩ := Bridge.shrimp_table_read e.maxNgh hl3 p.stage hst
  obtain ⟨minDay, h4⟩ := Bridge.shrimp_table_read e.minDay hl4 p.stage hst
  obtain ⟨minNgh, h5⟩ := Bridge.shrimp_table_read e.minNgh hl5 p.stage hst
  have hsp : 0 ≤ speed := by
    apply hspeed
    unfold npIndex at h1
    split_ifs at h1 with a b
    · exact List.mem_of_getElem? h1
    · exact List.mem_of_getElem? h1
  have hrun := Bridge.shrimp_diel_migration_seq e p speed maxDay maxNgh minDay minNgh h1 h2 h3 h4 h5
  dsimp only at hrun
  rw [c16_shrimp_pref_eq] at hrun
  exact ⟨_, _, maxDay, maxNgh, minDay, minNgh, _, Bridge.shrimp_sunheight_seq _ _ _ _, h2, h3, h4, h5, rfl, hrun,
    c16_shrimp_migrate_between e.dt speed _ p.z (mul_nonneg hdt hsp)⟩

/-- shrimp with five pelagic stages -/
noncomputable def c16_exShrimp : ShrimpEnv ℝ Unit :=
  ⟨[0.01, 0.01, 0.01, 0.01, 0.01], [0.01, 0.01, 0.02, 0.02, 0.03], [100, 100, 150, 150, 200], [20, 20, 30, 30, 40],
    [50, 50, 60, 60, 80], [0, 0, 5, 5, 10], 600, fun _ _ _ => 5, fun _ _ _ => 34, fun x y => (x, y), true, (), (),
    fun _ => (100, 12), false⟩
example := c16_shrimp_diel_toward_preferred c16_exShrimp ⟨0, 0, 30, 2, 10, 0.5, true, none, none, none⟩
  (by simp [c16_exShrimp]) (by simp [c16_exShrimp]) (by simp [c16_exShrimp]) (by simp [c16_exShrimp]) (by simp [c16_exShrimp])
  (by simp [HasTrunc.trunc]) (by simp [c16_exShrimp]; norm_num) (by norm_num [c16_exShrimp])

/-! ## C16 (5) light -/

/-- **C16 (surface light is finite everywhere)**: the interpreted `surface_light` finishes for EVERY day, hour,
longitude and latitude, with the five-band function `C16.bandLight` of the generated sun height and day ratio. -/
theorem c16_surface_light_is_band (yday hours lon lat : α) :
    surfaceLightRun yday hours lon lat Gen.surface_light_seq
      = some (some (C16.bandLight (Gen.surface_light_height yday hours lon lat)
          (Gen.surface_light_ratio yday hours lon lat))) := by
  rw [Bridge.surface_light_seq, C16.surface_light_is_band]

example := c16_surface_light_is_band (α := ℝ) 100 12 5 60

theorem c16_band_light_bounds_day (h q : α) (hq : 0 ≤ h → 0 ≤ q ∧ q ≤ 1) :
    1.15e-5 ≤ C16.bandLight h q ∧ C16.bandLight h q ≤ 1505.76 := by
  unfold C16.bandLight
  by_cases h0 : 0 ≤ h
  · obtain ⟨a, b⟩ := hq h0
    rw [if_pos h0]
    norm_num
    constructor <;> nlinarith
  · rw [if_neg h0]
    norm_num
    split_ifs <;> constructor <;> nlinarith

/-- **C16 (surface light stays within `[1.15e-5, 1505.76]`) — PARTIAL**: given that in the day band (sun height `≥ 0`)
the ratio `sin h / sin h₁₂` is in `[0, 1]`.  MISSING: that hypothesis from the input ranges — it needs laws of `sin`,
`cos`, `asin`, `π` (`sin h = a - b·cos τ ≤ a + b = sin h₁₂` for `b = cos δ · cos φ ≥ 0`; `C16.day_ratio_unit` is the
algebraic core) and fails at the pole in polar night (`0/0`), which the quantifier `lat ∈ (-90, 90)` excludes. -/
theorem c16_surface_light_bounds_partial (yday hours lon lat : α)
    (hq : 0 ≤ Gen.surface_light_height yday hours lon lat →
      0 ≤ Gen.surface_light_ratio yday hours lon lat ∧ Gen.surface_light_ratio yday hours lon lat ≤ 1) :
    ∃ L, surfaceLightRun yday hours lon lat Gen.surface_light_seq = some (some L) ∧ 1.15e-5 ≤ L ∧ L ≤ 1505.76 :=
  ⟨_, c16_surface_light_is_band yday hours lon lat, c16_band_light_bounds_day _ _ hq⟩

/- `c16_surface_light_bounds_partial`: its hypothesis is about `Gen.surface_light_ratio` at concrete date / position
(sines of irrational arguments) — instantiation out of reach; the band-level statement is instantiated instead -/
example := c16_band_light_bounds_day (α := ℝ) 10 (1 / 2) (fun _ => by norm_num)

/-- the night / twilight part of the band function is monotone and 1-Lipschitz in the sun height -/
theorem c16_band_light_lipschitz_night (h h' q q' : α) (hh : h ≤ h') (h0 : h' < 0) :
    C16.bandLight h q ≤ C16.bandLight h' q' ∧ C16.bandLight h' q' - C16.bandLight h q ≤ h' - h := by
  unfold C16.bandLight
  have a0 : ¬ 0 ≤ h' := by linarith
  have b0 : ¬ 0 ≤ h := by linarith
  rw [if_neg a0, if_neg b0]
  norm_num
  split_ifs <;> constructor <;> linarith

/-- the day edge: below the horizon the value is within `|h|` of the twilight constant `5.76`, above it it is
`1500·q + 5.76` -/
theorem c16_band_light_day_edge (h h' q q' : α) (h0 : h < 0) (h1 : 0 ≤ h') :
    C16.bandLight h' q' = 1500 * q' + 5.76 ∧ C16.bandLight h q ≤ 5.76 ∧ 5.76 - C16.bandLight h q ≤ -h := by
  unfold C16.bandLight
  have b0 : ¬ 0 ≤ h := by linarith
  rw [if_pos h1, if_neg b0]
  norm_num
  split_ifs <;> constructor <;> linarith

/-- **C16 (continuous across the day / twilight / night bands)** on two runs of the interpreted `surface_light`:
below the horizon the value is monotone and 1-Lipschitz in the sun height (across the edges `-6°`, `-12°`, `-18°`
too), and across the horizon the jump is squeezed between `1500·q'` and `1500·q' + |h|` (`q'` = the day ratio
`sin h'/sin h₁₂`, which is `0` at `h' = 0`): no jump at any band edge. -/
theorem c16_surface_light_continuous (yday hours lon lat yday' hours' lon' lat' : α) :
    ∃ L L' : α,
      surfaceLightRun yday hours lon lat Gen.surface_light_seq = some (some L) ∧
      surfaceLightRun yday' hours' lon' lat' Gen.surface_light_seq = some (some L') ∧
      (Gen.surface_light_height yday hours lon lat ≤ Gen.surface_light_height yday' hours' lon' lat' →
        Gen.surface_light_height yday' hours' lon' lat' < 0 →
        L ≤ L' ∧ L' - L ≤ Gen.surface_light_height yday' hours' lon' lat' - Gen.surface_light_height yday hours lon lat) ∧
      (Gen.surface_light_height yday hours lon lat < 0 → 0 ≤ Gen.surface_light_height yday' hours' lon' lat' →
        1500 * Gen.surface_light_ratio yday' hours' lon' lat' ≤ L' - L ∧
        L' - L ≤ 1500 * Gen.surface_light_ratio yday' hours' lon' lat' - Gen.surface_light_height yday hours lon lat) := by
  refine ⟨_, _, c16_surface_light_is_band yday hours lon lat, c16_surface_light_is_band yday' hours' lon' lat',
    fun hh h0 => c16_band_light_lipschitz_night _ _ _ _ hh h0, fun h0 h1 => ?_⟩
  obtain ⟨e1, e2, e3⟩ := c16_band_light_day_edge (Gen.surface_light_height yday hours lon lat)
    (Gen.surface_light_height yday' hours' lon' lat') (Gen.surface_light_ratio yday hours lon lat)
    (Gen.surface_light_ratio yday' hours' lon' lat') h0 h1
  rw [e1]
  constructor <;> linarith

example := c16_surface_light_continuous (α := ℝ) 100 12 5 60 100 13 5 60

/-- **C16 (light decays with depth as `exp(-k·depth)`)** on the interpreted `utils.light.light`: the value is
`surface · exp(-k·d)`, it is multiplicative over depth increments, and non-increasing in depth for `k ≥ 0`. -/
theorem c16_light_decays_with_depth (hE : ExpLaws α) (surf : α → α → α) (lon lat k d₁ d₂ : α) :
    ∃ E₁ E₂ E₁₂ : α,
      lightRun surf lon lat d₁ k Gen.light_seq = some (some E₁) ∧
      lightRun surf lon lat d₂ k Gen.light_seq = some (some E₂) ∧
      lightRun surf lon lat (d₁ + d₂) k Gen.light_seq = some (some E₁₂) ∧
      E₁ = surf lon lat * exp (-k * d₁) ∧
      E₁₂ = E₁ * exp (-k * d₂) ∧
      (0 ≤ surf lon lat → 0 ≤ k → d₁ ≤ d₂ → E₂ ≤ E₁) := by
  refine ⟨_, _, _, Bridge.light_seq surf lon lat d₁ k, Bridge.light_seq surf lon lat d₂ k,
    Bridge.light_seq surf lon lat (d₁ + d₂) k, C16.light_decay _ _ _, ?_,
    fun h0 hk hd => C16.light_decay_monotone hE _ k d₁ d₂ h0 hk hd⟩
  have := C16.light_decay_additive hE (surf lon lat) k d₁ d₂
  rw [this, C16.light_decay (Gen.light_at_depth (surf lon lat) d₁ k)]

example := c16_light_decays_with_depth RealInst.expLaws (fun _ _ => (100 : ℝ)) 5 60 0.2 3 7

/-- **C16 (copies: surface light and sun height)**: the interpreted `sunheight` of the shrimp IBM returns the very sun
height from which the interpreted `utils.light.surface_light` computes its value. -/
theorem c16_sunheight_copies_agree {τ : Type} (tt : τ → α × α) (t : τ) (lon lat : α) :
    ∃ h : α, shrimpSunheightRun tt t lon lat = some (some h) ∧
      surfaceLightRun (tt t).1 (tt t).2 lon lat Gen.surface_light_seq
        = some (some (C16.bandLight h (Gen.surface_light_ratio (tt t).1 (tt t).2 lon lat))) := by
  refine ⟨_, Bridge.shrimp_sunheight_seq tt t lon lat, ?_⟩
  rw [c16_surface_light_is_band, C16.sunheight_copy_equal]

example := c16_sunheight_copies_agree (α := ℝ) (fun _ : Unit => (100, 12)) () 5 60

end c16

/-! ## C20 (1) chemicals: `diffuse_const`, `diffuse_labolle` -/

section c20field
variable {α : Type} [Field α] [LinearOrder α] [IsStrictOrderedRing α] [HasSqrt α]

/-- **C20 (chemicals `diffuse_const` is the reflected uniform-increment random walk)**: the interpreted method body
(with its call of the interpreted `reflect`) consumes exactly ONE number `u` of the particle's supply and returns the
reflection (generated window `Gen.chem_reflect`) of `Z + sqrt(2D)·(2u-1)·sqrt(3dt)`.  No hypothesis. -/
theorem c20_chem_diffuse_const_is_reflected_walk (dt D H u : α) (rest : List α) (z : α) :
    Seq.runChemDiffuseConst Gen.chem_diffuse_const_seq dt D H (u :: rest) z
      = some (some (Gen.chem_reflect (z + sqrt (2 * D) * ((2 * u - 1) * sqrt (3 * dt))) H, rest, 1)) := by
  let _ : HasFloor α := ⟨id⟩
  let _ : HasRound α := ⟨id⟩
  rw [Bridge.chem_diffuse_const_seq, Bridge.chem_diffuse_const]
  unfold Gen.chem_diffuse_const
  lits
  simp only [mul_comm u 2]

example := c20_chem_diffuse_const_is_reflected_walk (α := ℝ) 600 0.001 50 0.25 [] 10

/-- the increment of the interpreted `diffuse_const` (previous theorem) squared is `2·D·dt · 3(2u-1)²`; the factor has
mean 1 for uniform `u` (`c20_chem_diffuse_const_mean_variance`) -/
theorem c20_chem_diffuse_const_increment_sq (hS : SqrtLaws α) (dt D u : α) (hD : 0 ≤ D) (hdt : 0 ≤ dt) :
    (sqrt (2 * D) * ((2 * u - 1) * sqrt (3 * dt))) ^ 2 = 2 * D * dt * (3 * (2 * u - 1) ^ 2) := by
  have := C20.uniform_step_sq hS D dt u hD hdt
  unfold Chemicals.uniformDW at this
  lits
  rw [← this]; ring

example := c20_chem_diffuse_const_increment_sq RealInst.sqrtLaws 600 0.001 0.25 (by norm_num) (by norm_num)

end c20field

/-- the new depth the interpreted `diffuse_const` (with its `reflect`) returns for the draw `u` (`0` is never used:
the run always finishes) -/
noncomputable def c20_chemConstStep (dt D H u z : ℝ) : ℝ :=
  (((Seq.runChemDiffuseConst Gen.chem_diffuse_const_seq dt D H [u] z).join).map (fun r => r.1)).getD 0

theorem c20_chemConstStep_eq (dt D H u z : ℝ) :
    c20_chemConstStep dt D H u z = Gen.chem_reflect (Gen.chem_diffuse_const z D dt u) H := by
  let _ : HasFloor ℝ := ⟨id⟩
  let _ : HasRound ℝ := ⟨id⟩
  unfold c20_chemConstStep
  rw [Bridge.chem_diffuse_const_seq, Bridge.chem_diffuse_const]
  rfl

/-- **C20 (well-mixed stays well-mixed, exact, constant diffusivity)** lifted from the window to the interpreted method
body: with the depth uniform on `[0,H]` and the draw uniform on `[0,1]`, independent, the depth returned by the
interpreted `diffuse_const` (+ `reflect`) is again uniform on `[0,H]` — no accumulation at the surface or the bed.
Hypothesis: the largest possible step `sqrt(2D)·sqrt(3dt)` does not exceed the depth (the property's "step smaller than
the depth"). -/
theorem c20_chem_diffuse_const_wellmixed (H D dt : ℝ) (hH : 0 ≤ H)
    (hstep : Real.sqrt (2 * D) * Real.sqrt (3 * dt) ≤ H) :
    (∀ u z rest, ∃ z', Seq.runChemDiffuseConst Gen.chem_diffuse_const_seq dt D H (u :: rest) z
        = some (some (z', rest, 1))) ∧
    ((volume.restrict (Icc (0 : ℝ) 1)).prod (volume.restrict (Icc 0 H))).map
        (fun p => c20_chemConstStep dt D H p.1 p.2)
      = volume.restrict (Icc 0 H) := by
  refine ⟨fun u z rest => ⟨_, c20_chem_diffuse_const_is_reflected_walk dt D H u rest z⟩, ?_⟩
  simp only [c20_chemConstStep_eq]
  exact chem_const_walk_wellmixed H D dt hH hstep

theorem c20_ex_step_le (D dt H : ℝ) (hD : 0 ≤ 2 * D) (hH : 0 ≤ H) (h : 2 * D * (3 * dt) ≤ H ^ 2) :
    Real.sqrt (2 * D) * Real.sqrt (3 * dt) ≤ H := by
  rw [← Real.sqrt_mul hD]
  exact Real.sqrt_le_iff.mpr ⟨hH, h⟩

example := c20_chem_diffuse_const_wellmixed 50 0.001 600 (by norm_num)
  (c20_ex_step_le _ _ _ (by norm_num) (by norm_num) (by norm_num))

/-- **C20 (variance `2·D·dt` away from boundaries)** for the interpreted `diffuse_const`: an interior particle is
displaced by exactly the increment, and over the uniform draw the increment has mean `0` and second moment (=
variance) `2·D·dt`. -/
theorem c20_chem_diffuse_const_mean_variance (D dt : ℝ) (hD : 0 ≤ D) (hdt : 0 ≤ dt) :
    (∀ H z u rest, 0 ≤ z + Real.sqrt (2 * D) * ((2 * u - 1) * Real.sqrt (3 * dt)) →
      z + Real.sqrt (2 * D) * ((2 * u - 1) * Real.sqrt (3 * dt)) ≤ H →
      Seq.runChemDiffuseConst Gen.chem_diffuse_const_seq dt D H (u :: rest) z
        = some (some (z + Real.sqrt (2 * D) * ((2 * u - 1) * Real.sqrt (3 * dt)), rest, 1))) ∧
    (∫ u in (0 : ℝ)..1, Real.sqrt (2 * D) * ((2 * u - 1) * Real.sqrt (3 * dt))) = 0 ∧
    (∫ u in (0 : ℝ)..1, (Real.sqrt (2 * D) * ((2 * u - 1) * Real.sqrt (3 * dt))) ^ 2) = 2 * D * dt := by
  refine ⟨fun H z u rest h0 h1 => ?_, ?_, ?_⟩
  · have := c20_chem_diffuse_const_is_reflected_walk dt D H u rest z
    simp only [HasSqrt.sqrt] at this
    rw [this]
    unfold Gen.chem_reflect
    lits
    simp only [decide_eq_true_eq, if_neg (not_lt.mpr h1), if_neg (not_lt.mpr h0)]
  · set c := Real.sqrt (2 * D) * Real.sqrt (3 * dt) with hc
    have e : (fun u : ℝ => Real.sqrt (2 * D) * ((2 * u - 1) * Real.sqrt (3 * dt))) = fun u => (2 * c) * u - c := by
      funext u; rw [hc]; ring
    simp only [e]
    rw [intervalIntegral.integral_sub (by apply Continuous.intervalIntegrable; fun_prop)
      (by apply Continuous.intervalIntegrable; fun_prop), intervalIntegral.integral_const_mul, integral_id,
      intervalIntegral.integral_const]
    simp
    ring
  · have hsq : ∀ u : ℝ, (Real.sqrt (2 * D) * ((2 * u - 1) * Real.sqrt (3 * dt))) ^ 2
        = (24 * D * dt) * u ^ 2 - ((24 * D * dt) * u - 6 * D * dt) := by
      intro u
      have := c20_chem_diffuse_const_increment_sq RealInst.sqrtLaws dt D u hD hdt
      simp only [HasSqrt.sqrt] at this
      rw [this]; ring
    simp only [hsq]
    rw [intervalIntegral.integral_sub (by apply Continuous.intervalIntegrable; fun_prop)
      (by apply Continuous.intervalIntegrable; fun_prop),
      intervalIntegral.integral_sub (by apply Continuous.intervalIntegrable; fun_prop)
      (by apply Continuous.intervalIntegrable; fun_prop),
      intervalIntegral.integral_const_mul, intervalIntegral.integral_const_mul, integral_id, integral_pow,
      intervalIntegral.integral_const]
    simp
    ring

example := c20_chem_diffuse_const_mean_variance 0.001 600 (by norm_num) (by norm_num)

section c20labolle
variable {α : Type} [Field α] [LinearOrder α] [IsStrictOrderedRing α] [HasSqrt α] [HasFloor α]

/-- the sub-step lengths of the `while current_time < dt` loop, from the generated window `Gen.chem_labolle_time` -/
def c20_genSubsteps (dt vdt : α) : Nat → α → List α
  | 0, _ => []
  | n + 1, cur =>
    if cur < dt then (Gen.chem_labolle_time cur dt vdt).2 :: c20_genSubsteps dt vdt n (Gen.chem_labolle_time cur dt vdt).1
    else []

theorem c20_genSubsteps_eq (dt vdt : α) : ∀ (fuel : Nat) (cur : α),
    Chemicals.substeps dt vdt fuel cur = c20_genSubsteps dt vdt fuel cur := by
  intro fuel
  induction fuel with
  | zero => intro cur; rfl
  | succ n ih =>
    intro cur
    rw [Bridge.chem_labolle_time]
    unfold c20_genSubsteps
    split_ifs
    · rw [ih]
    · rfl

/-- iterating the interpreted `diffuse_const` (with its `reflect`) over the sub-steps, one draw each -/
def c20_chemConstIter (D H : α) : List α → List α → α → α
  | ddt :: ds, u :: us, z =>
    c20_chemConstIter D H ds us
      ((((Seq.runChemDiffuseConst Gen.chem_diffuse_const_seq ddt D H [u] z).join).map (fun r => r.1)).getD z)
  | _, _, z => z

theorem c20_labolle_const_iter (k vmax dz H : α) : ∀ (ds us : List α) (z : α),
    Chemicals.diffuseLabolle (fun _ => k) vmax dz H ds us z = c20_chemConstIter (fmin k vmax) H ds us z := by
  let _ : HasRound α := ⟨id⟩
  intro ds
  induction ds with
  | nil => intro us z; cases us <;> rfl
  | cons ddt ds ih =>
    intro us z
    cases us with
    | nil => rfl
    | cons u us =>
      unfold Chemicals.diffuseLabolle c20_chemConstIter
      rw [ih, C20.labolle_const_reduces, Bridge.chem_diffuse_const_seq]
      rfl

/-- **C20 (LaBolle reduces to the constant walk for constant `K`)**: if the diffusivity profile at the particle's
position is constant `= k`, the interpreted `diffuse_labolle` IS the interpreted `diffuse_const` with `D = min(k,
vertdiff_max)`, iterated over the sub-steps of the `while` loop (`c20_genSubsteps`, from the generated window
`Gen.chem_labolle_time`), one draw each.  Forced by the bridge: `hlen` — the supply holds a number per sub-step. -/
theorem c20_chem_labolle_constant_K_is_const_walk (e : Chemicals.Env α) (dt vdt dz vmax x y k : α) (fuel : Nat)
    (us : List α) (z : α) (hK : ∀ zz, e.vdiff x y zz = k)
    (hlen : (c20_genSubsteps dt vdt fuel 0.0).length ≤ us.length) :
    Seq.runChemDiffuseLabolle Gen.chem_diffuse_labolle_seq e dt vdt dz vmax x y fuel us z
      = some (some (c20_chemConstIter (fmin k vmax) (e.depth x y) (c20_genSubsteps dt vdt fuel 0.0) us z,
          us.drop (c20_genSubsteps dt vdt fuel 0.0).length, (c20_genSubsteps dt vdt fuel 0.0).length)) := by
  let _ : HasRound α := ⟨id⟩
  rw [← c20_genSubsteps_eq] at hlen ⊢
  rw [Bridge.chem_diffuse_labolle_seq e dt vdt dz vmax x y fuel us z hlen]
  have : e.vdiff x y = fun _ => k := funext hK
  rw [this, c20_labolle_const_iter]

/-- the sub-steps add up to `dt` and none exceeds `vertdiff_dt` (loop bound `fuel` large enough) -/
theorem c20_chem_labolle_substeps_cover (dt vdt : α) (hv : 0 < vdt) (hdt : 0 ≤ dt) (fuel : Nat)
    (hf : dt ≤ fuel * vdt) :
    (c20_genSubsteps dt vdt fuel 0.0).sum = dt ∧ ∀ d ∈ c20_genSubsteps dt vdt fuel 0.0, 0 < d ∧ d ≤ vdt := by
  let _ : HasRound α := ⟨id⟩
  rw [← c20_genSubsteps_eq]
  have := C20.substeps_cover dt vdt hv fuel 0.0 (by lits; exact hdt) (by lits; simpa using hf)
  lits
  simpa using this

example := c20_chem_labolle_substeps_cover (α := ℝ) 600 100 (by norm_num) (by norm_num) 10 (by norm_num)

end c20labolle

/-! ## C20 (2) sedimentation and mine: constant mixing with the normal draw -/

section c20sed
variable {α : Type} [Field α] [LinearOrder α] [IsStrictOrderedRing α] [HasSqrt α]

theorem c20_sed_mix_const_cases (z h dt v xi : α) :
    (0 ≤ z + sqrt (2 * v) * (xi * sqrt dt) → z + sqrt (2 * v) * (xi * sqrt dt) ≤ h →
      Gen.sed_mix_const z h dt v xi = z + sqrt (2 * v) * (xi * sqrt dt)) ∧
    (z + sqrt (2 * v) * (xi * sqrt dt) < 0 → -(z + sqrt (2 * v) * (xi * sqrt dt)) ≤ h →
      Gen.sed_mix_const z h dt v xi = -(z + sqrt (2 * v) * (xi * sqrt dt))) ∧
    (0 ≤ z + sqrt (2 * v) * (xi * sqrt dt) → h < z + sqrt (2 * v) * (xi * sqrt dt) →
      Gen.sed_mix_const z h dt v xi = 2 * h - (z + sqrt (2 * v) * (xi * sqrt dt))) := by
  unfold Gen.sed_mix_const
  lits
  simp only [decide_eq_true_eq]
  set w := z + sqrt (2 * v) * (xi * sqrt dt)
  refine ⟨fun h0 h1 => ?_, fun h0 h1 => ?_, fun h0 h1 => ?_⟩
  · rw [if_neg (not_lt.mpr h0), if_neg (not_lt.mpr h1)]
  · rw [if_pos h0, if_neg (by rw [mul_neg, mul_one]; exact not_lt.mpr h1)]; ring
  · rw [if_neg (not_lt.mpr h0), if_pos h1]

/-- **C20 (sedimentation, constant mixing)** on the interpreted `diffuse` of the sedimentation IBM with
`vertical_mixing` a constant `v`, for a suspended particle (`active ≠ 0`): the increment is `sqrt(2v)·(ξ·sqrt(dt))`
with square `2·v·dt·ξ²`; an interior particle moves by exactly the increment, one that crosses the surface is mirrored
there and one that crosses the bed is mirrored at the bed; and the function object the interpreted factory
`get_vdiff_constant_fn(v)` returns computes the same depth from the standard-normal draw `ξ`.
Forced by the bridge: `Sed.Config` carries the mixing method the constructor selected (`hmix`). -/
theorem c20_sed_const_mixing_step (hS : SqrtLaws α) (c : Sed.Config α) (cache : Grain.Cache α) (t : Int)
    (e : Sed.Env α) (xi : α) (a : Nat) (z v : α) (hmix : c.mixing = .const v) (ha : a ≠ 0)
    (hv : 0 ≤ v) (hdt : 0 ≤ c.dt) :
    ∃ (inc z' : α) (cache' : Grain.Cache α),
      Seq.runSedDiffuse Gen.sed_diffuse_seq c cache t e xi a z = some (some (z', cache')) ∧
      inc = sqrt (2 * v) * (xi * sqrt c.dt) ∧ inc ^ 2 = 2 * v * c.dt * xi ^ 2 ∧
      (0 ≤ z + inc → z + inc ≤ e.H → z' = z + inc) ∧
      (z + inc < 0 → -(z + inc) ≤ e.H → z' = -(z + inc)) ∧
      (0 ≤ z + inc → e.H < z + inc → z' = 2 * e.H - (z + inc)) ∧
      (∃ fn, Seq.runVdiffConstantFn Gen.sed_get_vdiff_constant_fn_seq v = some (some fn) ∧
        ∀ (draw : Seq.SfDraw → α) (us : α), draw .stdNormal = xi → fn draw z e.H c.dt us = some (some z')) := by
  let _ : HasFloor α := ⟨id⟩
  have hrun := Bridge.sed_diffuse_seq_full c cache t e xi a z
  rw [hmix] at hrun
  simp only [ha, if_false] at hrun
  rw [Bridge.sed_mix_const] at hrun
  obtain ⟨c1, c2, c3⟩ := c20_sed_mix_const_cases z e.H c.dt v xi
  refine ⟨_, _, _, hrun, rfl, ?_, c1, c2, c3, ?_⟩
  · have := C20.normal_step_sq hS v c.dt xi hv hdt
    lits
    exact this
  · have hf := Bridge.sed_get_vdiff_constant_fn v
    rw [Bridge.sf_mix_fn_const_gen] at hf
    refine ⟨_, hf, fun draw us hd => ?_⟩
    rw [hd]

example := c20_sed_const_mixing_step RealInst.sqrtLaws (⟨600, 600, 1000000, .const 0.001, .numeric⟩ : Sed.Config ℝ)
  ⟨0, 0⟩ 1 ⟨50, 0.1, 0, none, 0.01⟩ 0.3 1 10 0.001 rfl (by norm_num) (by norm_num) (by norm_num)

theorem c20_mine_mix_cases (z dt v xi : α) :
    (0 ≤ z + sqrt (2 * v) * (xi * sqrt dt) →
      Gen.mine_mix z v dt xi = z + sqrt (2 * v) * (xi * sqrt dt)) ∧
    (z + sqrt (2 * v) * (xi * sqrt dt) < 0 →
      Gen.mine_mix z v dt xi = -(z + sqrt (2 * v) * (xi * sqrt dt))) ∧
    0 ≤ Gen.mine_mix z v dt xi := by
  unfold Gen.mine_mix
  lits
  simp only [decide_eq_true_eq]
  set w := z + sqrt (2 * v) * (xi * sqrt dt)
  refine ⟨fun h0 => ?_, fun h0 => ?_, ?_⟩
  · rw [if_neg (not_lt.mpr h0)]
  · rw [if_pos h0]; ring
  · split_ifs with h <;> linarith

/-- **C20 (mine, constant mixing)** on the interpreted `diffuse` of the mine IBM, active particle: increment
`sqrt(2K)·(ξ·sqrt(dt))` with square `2·K·dt·ξ²`, interior particles move by exactly the increment, reflection at the
surface (result never negative). -/
theorem c20_mine_mixing_step (hS : SqrtLaws α) (vdiff dt xi : α) (act : Nat) (z : α) (ha : act ≠ 0)
    (hv : 0 ≤ vdiff) (hdt : 0 ≤ dt) :
    ∃ inc z' : α,
      Seq.runMineDiffuse Gen.mine_diffuse_seq vdiff dt xi act z = some (some z') ∧
      inc = sqrt (2 * vdiff) * (xi * sqrt dt) ∧ inc ^ 2 = 2 * vdiff * dt * xi ^ 2 ∧
      (0 ≤ z + inc → z' = z + inc) ∧ (z + inc < 0 → z' = -(z + inc)) ∧ 0 ≤ z' := by
  let _ : HasFloor α := ⟨id⟩
  have hrun := Bridge.mine_diffuse_seq vdiff dt xi act z
  simp only [ha, if_false] at hrun
  rw [Bridge.mine_mix] at hrun
  obtain ⟨c1, c2, c3⟩ := c20_mine_mix_cases z dt vdiff xi
  refine ⟨_, _, hrun, rfl, ?_, c1, c2, c3⟩
  have := C20.normal_step_sq hS vdiff dt xi hv hdt
  lits
  exact this

example := c20_mine_mixing_step RealInst.sqrtLaws (0.001 : ℝ) 600 0.3 1 10 (by norm_num) (by norm_num) (by norm_num)

end c20sed

/-- **C20 (variance `2·K·dt` with the normal draw)** for the interpreted mine `diffuse` and the interpreted
sedimentation `diffuse` with constant mixing: interior particles are displaced by exactly the increment, and with `ξ`
standard normal the increment has mean `0` and variance `2·K·dt`. -/
theorem c20_normal_increment_mean_variance (K dt : ℝ) (hK : 0 ≤ K) (hdt : 0 ≤ dt) :
    (∀ (z xi : ℝ) (act : Nat), act ≠ 0 → 0 ≤ z + Real.sqrt (2 * K) * (xi * Real.sqrt dt) →
      Seq.runMineDiffuse Gen.mine_diffuse_seq K dt xi act z
        = some (some (z + Real.sqrt (2 * K) * (xi * Real.sqrt dt)))) ∧
    (∀ (c : Sed.Config ℝ) (cache : Grain.Cache ℝ) (t : Int) (e : Sed.Env ℝ) (z xi : ℝ) (a : Nat),
      c.mixing = .const K → c.dt = dt → a ≠ 0 → 0 ≤ z + Real.sqrt (2 * K) * (xi * Real.sqrt dt) →
      z + Real.sqrt (2 * K) * (xi * Real.sqrt dt) ≤ e.H →
      (Seq.runSedDiffuse Gen.sed_diffuse_seq c cache t e xi a z).map (Option.map Prod.fst)
        = some (some (z + Real.sqrt (2 * K) * (xi * Real.sqrt dt)))) ∧
    (∫ xi, Real.sqrt (2 * K) * (xi * Real.sqrt dt) ∂(gaussianReal 0 1)) = 0 ∧
    Var[fun xi : ℝ => Real.sqrt (2 * K) * (xi * Real.sqrt dt); gaussianReal 0 1] = 2 * K * dt := by
  have e : (fun xi : ℝ => Real.sqrt (2 * K) * (xi * Real.sqrt dt))
      = fun xi => (Real.sqrt (2 * K) * Real.sqrt dt) * xi := by
    funext xi; ring
  refine ⟨fun z xi act ha h0 => ?_, fun c cache t e z xi a hm hd ha h0 h1 => ?_, ?_, ?_⟩
  · obtain ⟨inc, z', hrun, hinc, -, h1, -⟩ := c20_mine_mixing_step RealInst.sqrtLaws K dt xi act z ha hK hdt
    simp only [HasSqrt.sqrt] at hinc
    rw [hrun, h1 (by rw [hinc]; exact h0), hinc]
  · obtain ⟨inc, z', cache', hrun, hinc, -, hi, -⟩ :=
      c20_sed_const_mixing_step RealInst.sqrtLaws c cache t e xi a z K hm ha hK (by rw [hd]; exact hdt)
    simp only [HasSqrt.sqrt] at hinc
    rw [hd] at hinc
    rw [hrun, hi (by rw [hinc]; exact h0) (by rw [hinc]; exact h1), hinc]
    rfl
  · simp only [e]
    rw [integral_const_mul, integral_id_gaussianReal, mul_zero]
  · rw [e, variance_const_mul, variance_fun_id_gaussianReal]
    have h1 := Real.mul_self_sqrt (by positivity : 0 ≤ 2 * K)
    have h2 := Real.mul_self_sqrt hdt
    simp only [NNReal.coe_one, mul_one]
    calc (Real.sqrt (2 * K) * Real.sqrt dt) ^ 2
        = (Real.sqrt (2 * K) * Real.sqrt (2 * K)) * (Real.sqrt dt * Real.sqrt dt) := by ring
      _ = 2 * K * dt := by rw [h1, h2]

example := c20_normal_increment_mean_variance 0.001 600 (by norm_num) (by norm_num)

/-! ## C20 (3) interior variance of the biological IBMs (shrimp, egg, salmon lice, sand eel) -/

section c20bio
variable {α : Type} [Field α] [LinearOrder α] [IsStrictOrderedRing α]
  [HasSqrt α] [HasExp α] [HasLog α] [HasSin α] [HasCos α] [HasAsin α] [HasRpow α] [HasPi α] [HasNarrow α]
  [HasFloor α] [HasRound α]

/-- **C20 (shrimp, interior variance)** on the interpreted `mixing`: increment `sqrt(2·v·dt)·ξ` (`v` = the mixing
coefficient of the particle's stage), square `2·v·dt·ξ²`; mirrored at the surface. -/
theorem c20_shrimp_mixing_step [HasTrunc α] (hS : SqrtLaws α) (vm : List α) (dt : α) (p : Shrimp α) (xi : α)
    (rest : List α) (log : List Draw) (v : α) (hv : npIndex vm (shrimpIntStage p.stage) = some v)
    (h0 : 0 ≤ v) (hdt : 0 ≤ dt) :
    ∃ (inc : α) (p' : Shrimp α),
      shrimpMixRun vm dt p ⟨xi :: rest, log⟩ = some (some (p', ⟨rest, log ++ [.normal]⟩)) ∧
      inc = sqrt (2 * v * dt) * xi ∧ inc ^ 2 = 2 * v * dt * xi ^ 2 ∧
      (0 ≤ p.z + inc → p'.z = p.z + inc) ∧ (p.z + inc < 0 → p'.z = -(p.z + inc)) ∧ 0 ≤ p'.z := by
  have hrun := Bridge.shrimp_mixing_seq vm dt p ⟨xi :: rest, log⟩
  rw [hv] at hrun
  simp only [Rng.pop, Option.bind_some, Option.map_some] at hrun
  refine ⟨_, _, hrun, rfl, ?_, ?_, ?_, ?_⟩
  · have := C20.normal_step_sq_single hS v dt xi (by lits; positivity)
    lits
    rw [← this]; ring
  all_goals
    simp only [Bio.shrimpMix]
    lits
  · intro h; rw [if_neg (not_lt.mpr h)]
  · intro h; rw [if_pos h]
  · split_ifs with h <;> linarith

example := c20_shrimp_mixing_step RealInst.sqrtLaws [0.01, 0.01, 0.01, 0.01, 0.01] 600
  ⟨0, 0, 30, 2, 10, 0.5, true, none, none, none⟩ 0.3 [] [] 0.01 (by simp [npIndex, shrimpIntStage, HasTrunc.trunc])
  (by norm_num) (by norm_num)

theorem c20_half_power_step_sq (D dt xi r : α) (hpow : r * r = 2 * D / dt) (hdt : dt ≠ 0) :
    (xi * r * dt) ^ 2 = 2 * D * dt * xi ^ 2 := by
  calc (xi * r * dt) ^ 2 = (r * r) * dt ^ 2 * xi ^ 2 := by ring
    _ = 2 * D * dt * xi ^ 2 := by rw [hpow]; field_simp

/-- **C20 (egg, interior variance)** on the interpreted egg `update` with mixing: the random part of the displacement
is `ξ·(2D/dt)^0.5·dt`, with square `2·D·dt·ξ²`; an interior egg is moved by buoyancy plus exactly this.
`hpow`: `x ** 0.5` is a square root of `2D/dt` (law of the Python-float power). -/
theorem c20_egg_random_increment (e : EggEnv α) (x y z age buoy xi : α) (rest : List α) (hv : e.vertDiff = true)
    (hpow : rpow (2.0 * e.D / e.dt) 0.5 * rpow (2.0 * e.D / e.dt) 0.5 = 2 * e.D / e.dt) (hdt : e.dt ≠ 0) :
    ∃ (s : EggSt α) (inc : α),
      eggRun e x y z age buoy (xi :: rest) = some (some s) ∧
      inc = xi * rpow (2.0 * e.D / e.dt) 0.5 * e.dt ∧ inc ^ 2 = 2 * e.D * e.dt * xi ^ 2 ∧
      (0 ≤ z + Gen.egg_velocity (e.temp x y z) (e.salt x y z) buoy e.eggDiam * e.dt + inc →
        z + Gen.egg_velocity (e.temp x y z) (e.salt x y z) buoy e.eggDiam * e.dt + inc < 200 →
        s.z = z + Gen.egg_velocity (e.temp x y z) (e.salt x y z) buoy e.eggDiam * e.dt + inc) := by
  obtain ⟨s, hs, hz⟩ := c16_egg_update_core e x y z age buoy xi rest
  refine ⟨s, _, hs, rfl, c20_half_power_step_sq _ _ _ _ hpow hdt, fun h0 h1 => ?_⟩
  rw [hz, hv]
  simp only [if_true]
  have e1 : z + (Gen.egg_velocity (e.temp x y z) (e.salt x y z) buoy e.eggDiam + xi * rpow (2.0 * e.D / e.dt) 0.5) * e.dt
      = z + Gen.egg_velocity (e.temp x y z) (e.salt x y z) buoy e.eggDiam * e.dt
        + xi * rpow (2.0 * e.D / e.dt) 0.5 * e.dt := by ring
  rw [c16_egg_Z_plain _ _ _ (by rw [e1]; exact h0) (by rw [e1]; exact h1), e1]

theorem c20_ex_half_power (a : ℝ) (ha : 0 < a) : rpow a 0.5 * rpow a 0.5 = a := by
  show a ^ (0.5 : ℝ) * a ^ (0.5 : ℝ) = a
  rw [← Real.rpow_add ha]; norm_num

example := c20_egg_random_increment (c16_exEgg true) 0 0 10 0 32 0.3 [] rfl
  (by simp only [c16_exEgg]; exact (c20_ex_half_power _ (by norm_num)).trans (by norm_num)) (by norm_num [c16_exEgg])

/-- **C20 (salmon lice, interior variance)**, same statement for the interpreted lice `update_ibm`. -/
theorem c20_lice_random_increment (e : LiceEnv α) (x y : α) (p : Bio.Lice α) (r xi : α) (rest : List α)
    (hv : e.vertDiff = true)
    (hpow : rpow (2.0 * e.D / e.dt) 0.5 * rpow (2.0 * e.D / e.dt) 0.5 = 2 * e.D / e.dt) (hdt : e.dt ≠ 0) :
    ∃ (W inc znew : α),
      (liceRun e x y p (r :: xi :: rest)).map (Option.map fun s => s.particle.z) = some (some znew) ∧
      W = Gen.lice_W e.swimVel (Gen.light_at_depth (e.light0 x y) p.z e.k) (e.salt x y p.z) r
              (p.age + e.temp x y p.z * e.stateDt / 86400.0) ∧
      inc = xi * rpow (2.0 * e.D / e.dt) 0.5 * e.dt ∧ inc ^ 2 = 2 * e.D * e.dt * xi ^ 2 ∧
      (0 ≤ p.z + W * e.dt + inc → p.z + W * e.dt + inc < 20 → znew = p.z + W * e.dt + inc) := by
  refine ⟨_, _, _, c16_lice_update_core e x y p r xi rest, rfl, rfl, c20_half_power_step_sq _ _ _ _ hpow hdt,
    fun h0 h1 => ?_⟩
  rw [hv]
  simp only [if_true]
  generalize Gen.lice_W e.swimVel (Gen.light_at_depth (e.light0 x y) p.z e.k) (e.salt x y p.z) r
              (p.age + e.temp x y p.z * e.stateDt / 86400.0) = W at h0 h1 ⊢
  have e1 : p.z + (W + xi * rpow (2.0 * e.D / e.dt) 0.5) * e.dt
      = p.z + W * e.dt + xi * rpow (2.0 * e.D / e.dt) 0.5 * e.dt := by ring
  rw [c16_lice_Z_plain _ _ _ (by rw [e1]; exact h0) (by rw [e1]; exact h1), e1]

example := c20_lice_random_increment
  (⟨0.99, 0.2, 0.0005, 0.001, 600, 600, true, fun _ _ _ => 10, fun _ _ _ => 34, fun _ _ => 100⟩ : LiceEnv ℝ)
  0 0 ⟨3, 50, 5, 1, true⟩ 0.5 0.3 [] rfl
  ((c20_ex_half_power _ (by norm_num)).trans (by norm_num)) (by norm_num)

/-- **C20 (sand eel, interior variance)** on the interpreted `vertical_diffuse`, active particle: increment
`ξ·sqrt(2·D·dt)`, square `2·D·dt·ξ²`; the result is the generated window `Gen.sandeel_vertical` (two reflecting
boundaries `0` and `min(maxdepth, H)`), interior particles move by exactly the increment. -/
theorem c20_sandeel_mixing_step (hS : SqrtLaws α) (e : SandeelEnv α) (x y z xi : α) (rest : List α)
    (log : List Draw) (h0 : 0 ≤ e.D) (hdt : 0 ≤ e.dt) :
    ∃ (inc z' : α),
      sandeelVertRun e x y z true ⟨xi :: rest, log⟩ = some (some (z', ⟨rest, log ++ [.normal]⟩)) ∧
      inc = xi * sqrt (2 * e.D * e.dt) ∧ inc ^ 2 = 2 * e.D * e.dt * xi ^ 2 ∧
      z' = Gen.sandeel_vertical z xi e.D e.dt e.maxdepth (e.sampleDepth x y) ∧
      (0 ≤ z + inc → z + inc ≤ fmin e.maxdepth (e.sampleDepth x y) → z' = z + inc) := by
  have hrun := Bridge.sandeel_vertical_diffuse_seq e x y z true ⟨xi :: rest, log⟩
  simp only [if_true, Rng.pop, Option.map_some] at hrun
  rw [Bridge.sandeel_vertical] at hrun
  refine ⟨_, _, hrun, rfl, ?_, rfl, fun a b => ?_⟩
  · have := C20.normal_step_sq_single hS e.D e.dt xi (by lits; positivity)
    lits
    exact this
  · unfold Gen.sandeel_vertical Gen.sandeel_reflexive fmin fmax
    lits
    simp only [decide_eq_true_eq]
    unfold fmin at b
    set w := z + xi * sqrt (2 * e.D * e.dt)
    set m := (if e.sampleDepth x y < e.maxdepth then e.sampleDepth x y else e.maxdepth)
    rw [if_neg (not_lt.mpr a), if_neg (not_lt.mpr b), if_neg (not_lt.mpr a), if_neg (not_lt.mpr b)]

example := c20_sandeel_mixing_step RealInst.sqrtLaws
  (⟨0.001, 600, 100, 0, 0, fun _ _ => 5, fun _ _ _ => 5, fun _ _ => 50, fun _ _ => some (some 10), false⟩ : SandeelEnv ℝ)
  0 0 10 0.3 [] [] (by norm_num) (by norm_num)

end c20bio

theorem c20_genSubsteps_one {α : Type} [Field α] [LinearOrder α] [IsStrictOrderedRing α] [HasSqrt α] [HasFloor α]
    (dt vdt : α) (fuel : Nat) (h0 : 0 < dt) (h1 : dt ≤ vdt) :
    c20_genSubsteps dt vdt (fuel + 1) 0.0 = [dt] := by
  unfold c20_genSubsteps Gen.chem_labolle_time fmin
  lits
  simp only [h0, if_true, zero_add, if_neg (not_lt.mpr h1), sub_zero]
  cases fuel with
  | zero => rfl
  | succ n => unfold c20_genSubsteps; simp

/-- the new depth the interpreted `diffuse_labolle` returns for the single draw `u` -/
noncomputable def c20_chemLabolleStep [HasFloor ℝ] (e : Chemicals.Env ℝ) (dt vdt dz vmax x y : ℝ) (fuel : Nat) (u z : ℝ) : ℝ :=
  (((Seq.runChemDiffuseLabolle Gen.chem_diffuse_labolle_seq e dt vdt dz vmax x y fuel [u] z).join).map
    (fun r => r.1)).getD 0

/-- … hence **C20 (well-mixed) for LaBolle with constant `K`**, when `dt ≤ vertdiff_dt` (one sub-step): uniform depth
× uniform draw ↦ uniform depth.  PARTIAL in the number of sub-steps: for `n > 1` sub-steps the result is the `n`-fold
composition of this measure-preserving step with independent draws, which is not formalised. -/
theorem c20_chem_labolle_constant_K_wellmixed_one_substep [HasFloor ℝ] (e : Chemicals.Env ℝ)
    (dt vdt dz vmax x y k : ℝ) (fuel : Nat) (hK : ∀ zz, e.vdiff x y zz = k) (hdt : 0 < dt) (hv : dt ≤ vdt)
    (hH : 0 ≤ e.depth x y)
    (hstep : Real.sqrt (2 * fmin k vmax) * Real.sqrt (3 * dt) ≤ e.depth x y) :
    ((volume.restrict (Icc (0 : ℝ) 1)).prod (volume.restrict (Icc 0 (e.depth x y)))).map
        (fun p => c20_chemLabolleStep e dt vdt dz vmax x y (fuel + 1) p.1 p.2)
      = volume.restrict (Icc 0 (e.depth x y)) := by
  have h1 := c20_genSubsteps_one dt vdt fuel hdt hv
  have hfun : (fun p : ℝ × ℝ => c20_chemLabolleStep e dt vdt dz vmax x y (fuel + 1) p.1 p.2)
      = fun p => c20_chemConstStep dt (fmin k vmax) (e.depth x y) p.1 p.2 := by
    funext p
    unfold c20_chemLabolleStep
    rw [c20_chem_labolle_constant_K_is_const_walk e dt vdt dz vmax x y k (fuel + 1) [p.1] p.2 hK
      (by rw [h1]; simp), h1]
    simp only [c20_chemConstIter, Option.join_some, Option.map_some, Option.getD_some]
    rw [c20_chemConstStep_eq, c20_chem_diffuse_const_is_reflected_walk]
    simp only [Option.join_some, Option.map_some, Option.getD_some]
    unfold Gen.chem_diffuse_const
    simp only [HasSqrt.sqrt]
    lits
    ring_nf
  rw [hfun]
  exact (c20_chem_diffuse_const_wellmixed (e.depth x y) (fmin k vmax) dt hH hstep).2

/-- a 50 m column with constant diffusivity `0.001` -/
noncomputable def c20_exChemEnv : Chemicals.Env ℝ :=
  ⟨fun _ _ => 50, fun _ _ _ => 0, fun _ _ _ => 0.001, fun _ _ _ => 1, fun _ _ => 800, fun _ _ => 800, fun _ _ => true⟩
example := c20_chem_labolle_constant_K_is_const_walk c20_exChemEnv 600 600 0 0.01 0 0 0.001 1 [0.25] 10 (fun _ => rfl)
  (by rw [c20_genSubsteps_one _ _ 0 (by norm_num) (by norm_num)]; simp)
example := c20_chem_labolle_constant_K_wellmixed_one_substep c20_exChemEnv 600 600 0 0.01 0 0 0.001 3 (fun _ => rfl)
  (by norm_num) (by norm_num) (by norm_num [c20_exChemEnv])
  (by
    have : fmin (0.001 : ℝ) 0.01 = 0.001 := by norm_num [fmin]
    rw [this]
    exact c20_ex_step_le _ _ _ (by norm_num) (by norm_num [c20_exChemEnv]) (by norm_num [c20_exChemEnv]))

end OnCode
