import LadimProofs.C05
import LadimProofs.Bridge.BioSeq
import LadimProofs.Bridge.BioCtorSeq
import LadimProofs.Bridge.SedimentSeq
import LadimProofs.Bridge.Seq
import LadimProofs.Bridge.ChemSeq
import LadimProofs.Bridge.DevelopSeq
import LadimProofs.Bridge.Order
/-!
# C05 — end-to-end: the depth bands stated about the INTERPRETATION OF THE CURRENT SOURCE

Property C05 — Particles stay inside the water column / the module's depth band
STATEMENT: After every IBM update every particle's depth lies within the vertical band its module documents: never above the sea surface, never below the local sea bed for modules that model the bed (chemicals, sedimentation, mine, sand eel), and within the configured or biological limits for the others (egg [0,200) m, salmon lice [0,20) m, larvae and saithe larvae [min,max] depth, eel vertical limits, vps [0,max depth]). This holds for every random draw, provided a single random vertical step is smaller than the local water depth where only one reflection is applied.
QUANTIFIER: all particle states inside the band, all bathymetries and forcing values in the oceanic range, all time steps and mixing coefficients, every value the random generator can return (including extreme tails), and every sequence of consecutive updates

Every main theorem below is about `run… Gen.…_seq …`: the statement sequences that the translator regenerates from
/repo's source on every run, interpreted by `LadimModel/**/*Seq.lean`.  The bridges (`LadimProofs/Bridge/*`) and the
model theorems (`LadimProofs/C05.lean`) are used as lemmas.  All theorems are over an arbitrary linear ordered field
`α` with arbitrary `sqrt`, `exp`, `rpow`, `narrow`, … (so every random number and every forcing value is an arbitrary
element of `α`, "extreme tails" included); the conclusion always contains "the run finishes" (`= some (some s)`: no
unknown statement text, no raise).

Forms of the interpretations
* salmon lice, egg, larvae, saithe, vps, sand eel, shrimp: the whole `update_ibm` sequence with every statement (sand eel,
  shrimp: every called method too) interpreted — `c05_lice_band`, `c05_egg_band` / `c05_egg_update_ibm_band`,
  `c05_larvae_band` (+ constructor: `c05_larvae_cod_ctor_band`), `c05_saithe_band` (+ constructor:
  `c05_saithe_ctor_band`), `c05_vps_band`, `c05_sandeel_update` / `c05_sandeel_band` / `c05_sandeel_history`,
  `c05_shrimp_band` (+ `c05_shrimp_mixing_nonneg`, `c05_shrimp_diel_migration_band`).
* chemicals, sedimentation, mine: the existing interpreters of `update_ibm` (`Seq.chemStep`, `Seq.sedStep`,
  `Seq.mineStep`) map a `call` statement to the hand-written rule (`c05_chem_update_band`, `c05_sed_update_band`,
  `c05_mine_update_band`).  Here the composition is made: `c05_chemStepCode`, `c05_sedStepCode`, `c05_mineStepCode`
  run the interpretation of the callee's generated sequence instead (`Bridge.chem_call_*`, `sed_call_*`,
  `mine_call_*` say the two agree), and `c05_chem_update_code_band` (+ constructor: `c05_chem_ctor_update_band`,
  histories: `c05_chem_history`), `c05_sed_update_code_band`, `c05_mine_update_code_band` are the bands for these
  runs: every statement of `update_ibm` AND of `advect`, `reflect`, `diffuse_const`, `diffuse_labolle`, `horzdiff`,
  `clamp_to_seabed`, `kill_old` / `initialize`, `resuspend`, `shear_velocity_btm`, `diffuse`, `sink`, `bury`, `kill_old`
  is the generated text.
* lunar eel: only the method bodies are bridged (`update_ibm` calls `horizontal_advect`, which has no interpreter):
  `c05_eel_band_partial` = `vertical_diffuse` is the last call of `update_ibm`, and after the interpreted
  `vertical_diffuse` the depth is inside the configured limits.

"Every sequence of consecutive updates": for salmon lice, egg, larvae, saithe, vps, eel and shrimp the band holds after
ONE update from an arbitrary state, hence after the last update of any sequence; for the modules whose band needs an
in-band start the histories are `c05_chem_history` (any forcing / draws over one bathymetry) and
`c05_sandeel_history` (the particle is moved horizontally between the updates); sedimentation / mine: the conclusion of
the one-step theorem is its own precondition for the next update at the same local depth (`c05_history` is the
generic induction).

Hypotheses.  Beside the property's side conditions (valid configuration, in-band start where the property needs it,
step smaller than the depth) the bridges force: a supply of random numbers long enough for the generator calls
(the run raises otherwise), `self.growth` / `self.length` = the module's functions (larvae), `min_depth ≤ max_depth`
(saithe: `np.clip`), a `hatch_time` that returns (sand eel), successful table reads (shrimp), a coherent
shear-velocity cache and a flag value the state array can hold (sedimentation, mine), `has_active()` or no
resuspension (mine), `vertical_mixing ≠ ''` (chemicals constructor).  They are listed at each theorem.

Each main theorem is followed by an `example` that instantiates it over `ℚ` on a concrete configuration (all
hypotheses are discharged there); theorems without hypotheses other than the shape of the supply have none.
-/
open Ladim

set_option linter.unusedSectionVars false
set_option linter.unusedVariables false
set_option linter.unusedSimpArgs false
namespace OnCode

/-! ## tools -/

/-- from a bridge equation on a projection of the outcome to the outcome itself: the run finishes -/
theorem c05_run_of_map {σ β : Type} {r : Option (Option σ)} {f : σ → β} {v : β}
    (h : r.map (Option.map f) = some (some v)) : ∃ s, r = some (some s) ∧ f s = v := by
  cases r with
  | none => simp at h
  | some o =>
    cases o with
    | none => simp at h
    | some s => exact ⟨s, rfl, by simpa using h⟩

/-- every sequence of consecutive updates: an invariant that each update of the list re-establishes (and that makes the
update finish) holds after the whole list -/
theorem c05_history {σ ι : Type} (Inv : σ → Prop) (upd : σ → ι → Option σ) (is : List ι)
    (hstep : ∀ i ∈ is, ∀ s, Inv s → ∃ s', upd s i = some s' ∧ Inv s') (s₀ : σ) (h₀ : Inv s₀) :
    ∃ s', is.foldlM upd s₀ = some s' ∧ Inv s' := by
  induction is generalizing s₀ with
  | nil => exact ⟨s₀, rfl, h₀⟩
  | cons i is ih =>
    obtain ⟨s₁, h1, hI⟩ := hstep i (by simp) s₀ h₀
    obtain ⟨s', h2, hI'⟩ := ih (fun j hj => hstep j (by simp [hj])) s₁ hI
    exact ⟨s', by simp [List.foldlM_cons, h1, h2], hI'⟩

/-! ## stand-ins over `ℚ` for the `example`s -/

/-- stand-ins over `ℚ` for the non-field operations (the theorems hold for arbitrary such functions) -/
local instance exSqrt : HasSqrt ℚ := ⟨fun x => x⟩
local instance exExp : HasExp ℚ := ⟨fun x => 1 + x⟩
local instance exLog : HasLog ℚ := ⟨fun x => x - 1⟩
local instance exSin : HasSin ℚ := ⟨fun x => x⟩
local instance exCos : HasCos ℚ := ⟨fun _ => 1⟩
local instance exAsin : HasAsin ℚ := ⟨fun x => x⟩
local instance exRpow : HasRpow ℚ := ⟨fun x _ => x⟩
local instance exPi : HasPi ℚ := ⟨22 / 7⟩
local instance exNarrow : HasNarrow ℚ := ⟨fun x => x⟩
local instance exFloor : HasFloor ℚ := ⟨fun x => (⌊x⌋ : ℤ)⟩
local instance exRound : HasRound ℚ := ⟨fun x => (⌊x + 1 / 2⌋ : ℤ)⟩
local instance exTrunc : HasTrunc ℚ := ⟨fun x => ⌊x⌋⟩

section bio
open Ladim.BioSeq Ladim.BioCtorSeq
variable {α : Type} [Field α] [LinearOrder α] [IsStrictOrderedRing α]
  [HasSqrt α] [HasExp α] [HasLog α] [HasSin α] [HasCos α] [HasAsin α] [HasRpow α] [HasPi α] [HasNarrow α]

/-! ## salmon lice `[0, 20)` -/

/-- **salmon lice** — after the interpreted `update_ibm` (`Gen.lice_update_seq`, every statement) the depth is in `[0, 20)`:
for every particle, position, forcing (`e.temp`, `e.salt`, `e.light0` arbitrary functions), every attribute value
(`dt`, `D`, `swim_vel`, … arbitrary, negative or zero included) and every pair of random numbers.
Bridge-forced: the supply has (at least) two numbers `r :: xi :: rest` (uniform `state_rand`, then the normal mixing
draw; with one number and mixing on the code raises: `Bridge.lice_one_draw_raises`). -/
theorem c05_lice_band (e : LiceEnv α) (x y : α) (p : Bio.Lice α) (r xi : α) (rest : List α) :
    ∃ s, runProc (liceAtom e) (liceStep e) Gen.lice_update_seq (LiceSt.init x y p (r :: xi :: rest)) = some (some s) ∧
      0 ≤ s.z ∧ s.z < 20 := by
  obtain ⟨s, hs, hv⟩ := c05_run_of_map (Bridge.lice_update_seq e x y p r xi rest)
  refine ⟨s, hs, ?_⟩
  have hz : s.z = (LiceSt.particle s).z := rfl
  rw [hz, (Prod.mk.inj hv).1]
  exact C05.lice_band _ _ _ _ _ _ _ _ _ _ _ _

/-! ## egg `[0, 200)` -/

/-- **egg** — after the interpreted `update` (`Gen.egg_update_seq`) the depth is in `[0, 200)`, for every state, forcing,
attribute value and random number.  Bridge-forced: a supply with one number `xi :: rest`. -/
theorem c05_egg_band (e : EggEnv α) (x y z age buoy xi : α) (rest : List α) :
    ∃ s, runProc (eggAtom e) (eggStep e) Gen.egg_update_seq (EggSt.init x y z age buoy (xi :: rest)) = some (some s) ∧
      0 ≤ s.z ∧ s.z < 200 := by
  obtain ⟨s, hs, hv⟩ := c05_run_of_map (Bridge.egg_update_seq e x y z age buoy xi rest)
  refine ⟨s, hs, ?_⟩
  rw [(Prod.mk.inj hv).1]
  exact C05.eggZ_band _ _ _ _ _ _ _ _

/-- … and `update_ibm` (`Gen.egg_update_ibm_seq`: bind `self.model[...]`, then `self.update()`) with the interpreted
`update` as the callee -/
theorem c05_egg_update_ibm_band [HasFloor α] (e : EggEnv α) (x y z age buoy xi : α) (rest : List α) :
    ∃ s, eggUpdateIbmRunWith
        (runProc (eggAtom e) (eggStep e) Gen.egg_update_seq (EggSt.init x y z age buoy (xi :: rest)))
        Gen.egg_update_ibm_seq = some (some s) ∧ 0 ≤ s.z ∧ s.z < 200 := by
  rw [Bridge.egg_update_ibm_with]
  exact c05_egg_band e x y z age buoy xi rest

/-! ## larvae `[min_depth, max_depth]` -/

/-- **larvae** — after the interpreted `update_ibm` (`Gen.larvae_update_seq`) EVERY particle (egg or larva) is in
`[min_depth, max_depth]`; side condition of the property: `min_depth ≤ max_depth` (a surface-side limit `0 ≤ min_depth`
then gives `0 ≤ Z`).  For every forcing, light, draw, `dt`, `D`.
Bridge-forced: `hg`, `hl` — the configured callables `self.growth` / `self.length` are the module's
`growth_cod_larvae` / `weight_to_length` (the defaults of every species in the table; the bridge
`Bridge.larvae_update_seq` is stated for them — they do not enter the depth clip); a supply `xi :: rest`. -/
theorem c05_larvae_band (e : LarvaEnv α) (hg : e.growth = Gen.larvae_growth)
    (hl : e.length = Gen.larvae_weight_to_length) (hband : e.c.minDepth ≤ e.c.maxDepth)
    (x y buoy : α) (p : Bio.Larva α) (xi : α) (rest : List α) :
    ∃ s, runProc (larvaAtom (!Bio.isZeroS e.c.D) e.extraSpreading) (larvaeStep e) Gen.larvae_update_seq
        (LarvaSt.init x y buoy p (xi :: rest)) = some (some s) ∧
      e.c.minDepth ≤ s.z ∧ s.z ≤ e.c.maxDepth := by
  obtain ⟨s, hs, hv⟩ := c05_run_of_map (Bridge.larvae_update_seq e hg hl x y buoy p xi rest)
  refine ⟨s, hs, ?_⟩
  have hz : s.z = (LarvaSt.particle s).z := rfl
  rw [hz, (Prod.mk.inj hv).1]
  simp only [Bio.larvaUpdate, Bio.larvaFinalZ, Bool.not_true, Bool.and_false, Bool.false_eq_true, if_false]
  exact C05.clipDepth_band _ _ _ hband

/-- larvae: band `[10, 40]`, default growth / length, `D = 0` -/
example : True := by
  have h : ∃ s : LarvaSt ℚ, _ ∧ (10 : ℚ) ≤ s.z ∧ s.z ≤ 40 :=
    c05_larvae_band (α := ℚ)
      ⟨⟨93.7, 0.093, 0.1, 1, 10, 40, 0.2, 0, 600, 600, 0.0014, true⟩, fun _ _ _ => 7, fun _ _ _ => 35, fun _ _ => 100,
        Gen.larvae_growth, Gen.larvae_weight_to_length, false, fun x y => (x, y)⟩
      rfl rfl (by norm_num) 1 2 32 ⟨55, 100, 1 / 10⟩ (-5) []
  trivial

/-- **larvae, constructor then update**: the object that the interpreted `__init__` (`Gen.larvae_ctor_seq`) builds from
`config['ibm'] = {species: 'cod', min_depth: lo?, max_depth: hi?}` keeps every particle in
`[lo or 0, hi or 1000]` — the band IS the configured one.  `hc`, `hg`, `hl`: the record / callables the interpreter of
`update_ibm` takes are the attributes of that object.  Bridge-forced: no other key in `config['ibm']`
(`Bridge.larvae_ctor_cod_result`), numeric `config['dt']`. -/
theorem c05_larvae_cod_ctor_band [HasFloor α] (ce : CtorEnv α) (lo hi : Option α) (dt sdt desired : α) (clip : Bool)
    (hsp : ce.ibm "species" = some (.str .cod)) (hlo : ce.ibm "min_depth" = lo.map .num)
    (hhi : ce.ibm "max_depth" = hi.map .num)
    (hnone : ∀ k, k ≠ "species" → k ≠ "min_depth" → k ≠ "max_depth" → ce.ibm k = none)
    (hdt : ce.dt = some (.num dt)) (attrs : List (String × BcVal α))
    (hctor : (ctorRun ce Gen.larvae_ctor_seq).map (Option.map CtorSt.result) = some (some (some attrs)))
    (e : LarvaEnv α) (hc : larvaCfgOf attrs desired sdt clip = some e.c)
    (hg : attrs.lookup "growth" = some (.fn3 e.growth)) (hl : attrs.lookup "length" = some (.fn1 e.length))
    (hband : lo.getD 0 ≤ hi.getD 1000)
    (x y buoy : α) (p : Bio.Larva α) (xi : α) (rest : List α) :
    ∃ s, runProc (larvaAtom (!Bio.isZeroS e.c.D) e.extraSpreading) (larvaeStep e) Gen.larvae_update_seq
        (LarvaSt.init x y buoy p (xi :: rest)) = some (some s) ∧
      lo.getD 0 ≤ s.z ∧ s.z ≤ hi.getD 1000 := by
  rw [Bridge.larvae_ctor_cod_result ce lo hi dt hsp hlo hhi hnone hdt] at hctor
  obtain rfl : Bridge.larvaeCodAttrs lo hi dt = attrs := Option.some.inj (Option.some.inj (Option.some.inj hctor))
  have hg' : e.growth = Gen.larvae_growth := by
    have h : (some (BcVal.fn3 Gen.larvae_growth) : Option (BcVal α)) = some (.fn3 e.growth) := hg
    exact (BcVal.fn3.inj (Option.some.inj h)).symm
  have hl' : e.length = Gen.larvae_weight_to_length := by
    have h : (some (BcVal.fn1 Gen.larvae_weight_to_length) : Option (BcVal α)) = some (.fn1 e.length) := hl
    exact (BcVal.fn1.inj (Option.some.inj h)).symm
  have hcfg : (some ⟨93.7, 0.093, 0.1, desired, lo.getD 0.0, hi.getD 1000.0, 0.2, 0.0, dt, sdt, 0.0014, clip⟩ :
      Option (Bio.LarvaCfg α)) = some e.c := hc
  have hmin : e.c.minDepth = lo.getD 0 := by rw [← Option.some.inj hcfg]; lits
  have hmax : e.c.maxDepth = hi.getD 1000 := by rw [← Option.some.inj hcfg]; lits
  obtain ⟨s, hs, h1⟩ := c05_larvae_band e hg' hl' (by rw [hmin, hmax]; exact hband) x y buoy p xi rest
  rw [hmin, hmax] at h1
  exact ⟨s, hs, h1⟩

/-- larvae constructor: `species = 'cod'`, `min_depth = 5`, no `max_depth` (default 1000) -/
example : True := by
  have h := c05_larvae_cod_ctor_band (α := ℚ)
    ⟨fun k => if k = "species" then some (.str .cod) else if k = "min_depth" then some (.num 5) else none, some (.num 600)⟩
    (some 5) none 600 600 1 true rfl rfl rfl
    (by intro k h1 h2 h3; simp [h1, h2])
    rfl (Bridge.larvaeCodAttrs (some 5) none 600)
    (Bridge.larvae_ctor_cod_result _ (some 5) none 600 rfl rfl rfl (by intro k h1 h2 h3; simp [h1, h2]) rfl)
    ⟨⟨93.7, 0.093, 0.1, 1, 5, 1000, 0.2, 0, 600, 600, 0.0014, true⟩, fun _ _ _ => 7, fun _ _ _ => 35, fun _ _ => 100,
        Gen.larvae_growth, Gen.larvae_weight_to_length, false, fun x y => (x, y)⟩
    (by simp [larvaCfgOf, attrNum, Bridge.larvaeCodAttrs, List.lookup, BcVal.toNum]; norm_num) rfl rfl (by norm_num) 1 2 32 ⟨55, 100, 1 / 10⟩ (-5) []
  trivial

/-! ## saithe -/

/-- **saithe** — after the interpreted `update_ibm` (`Gen.saithe_update_seq`): larvae (`age > hatch_day` before the update)
in `[min_depth, max_depth]`, eggs at or below the surface (`Z ≥ 0`), and every particle `≥ 0` when `0 ≤ min_depth`.
`hband : min_depth ≤ max_depth` is the property's "valid configuration" AND forced by the bridge (`np.clip` vs
`max∘min`, `Bridge.clip_forms_differ`).  For every forcing, light, `spread()`, draw.  Bridge-forced: supply `xi :: rest`. -/
theorem c05_saithe_band (e : LarvaEnv α) (hband : e.c.minDepth ≤ e.c.maxDepth)
    (x y buoy : α) (p : Bio.Larva α) (xi : α) (rest : List α) :
    ∃ s, runProc (larvaAtom (!Bio.isZeroS e.c.D) e.extraSpreading) (saitheStep e) Gen.saithe_update_seq
        (LarvaSt.init x y buoy p (xi :: rest)) = some (some s) ∧
      (¬ p.age ≤ e.c.hatchDay → e.c.minDepth ≤ s.z ∧ s.z ≤ e.c.maxDepth) ∧
      (p.age ≤ e.c.hatchDay → 0 ≤ s.z) ∧
      (0 ≤ e.c.minDepth → 0 ≤ s.z) := by
  obtain ⟨s, hs, hv⟩ := c05_run_of_map (Bridge.saithe_update_seq e hband x y buoy p xi rest)
  refine ⟨s, hs, ?_⟩
  have hz : s.z = (LarvaSt.particle s).z := rfl
  rw [hz, (Prod.mk.inj hv).1]
  obtain ⟨zraw, hraw⟩ := C05.larva_update_z_final { e.c with clipEggs := false, desired := 1.0 } (e.temp x y p.z)
    (e.salt x y p.z) buoy (if e.extraSpreading then e.light0 (e.spread x y).1 (e.spread x y).2 else e.light0 x y)
    (if Bio.isZeroS e.c.D then none else some xi) p
  rw [hraw]
  have hegg : ∀ z : α, 0 ≤ fmax z 0.0 := by
    intro z; unfold fmax; lits; split_ifs with h
    · exact le_refl _
    · exact not_lt.mp h
  have hclip := C05.clipDepth_band e.c.minDepth e.c.maxDepth zraw hband
  by_cases hage : p.age ≤ e.c.hatchDay
  · simp only [Bio.larvaFinalZ, hage, decide_true, Bool.not_false, Bool.and_self, if_true]
    exact ⟨fun h => (h trivial).elim, fun _ => hegg _, fun _ => hegg _⟩
  · simp only [Bio.larvaFinalZ, hage, decide_false, Bool.false_and, Bool.false_eq_true, if_false]
    exact ⟨fun _ => hclip, fun h => h.elim, fun h0 => le_trans h0 hclip.1⟩

/-- saithe: band `[30, 60]` -/
example : True := by
  have h := c05_saithe_band (α := ℚ)
    ⟨⟨60, 0.093, 0.2, 1, 30, 60, 0.2, 0.0001, 600, 600, 0.0011, false⟩, fun _ _ _ => 7, fun _ _ _ => 35, fun _ _ => 100,
      Gen.larvae_growth, Gen.larvae_weight_to_length, true, fun x y => (x + 1, y - 1)⟩
    (by norm_num) 1 2 32 ⟨55, 100, 1 / 10⟩ (-5) []
  trivial

/-- **saithe, constructor then update**: for the object the interpreted `__init__` (`Gen.saithe_ctor_seq`) builds — whatever
`config['ibm']` contains — larvae end in `[30, 60]` and every particle at `Z ≥ 0`.  Bridge-forced: numeric
`config['dt']`; `hc`: the configuration record of the interpreter is the one of the constructed attributes. -/
theorem c05_saithe_ctor_band [HasFloor α] (ce : CtorEnv α) (dt sdt : α) (hdt : ce.dt = some (.num dt))
    (attrs : List (String × BcVal α))
    (hctor : (ctorRun ce Gen.saithe_ctor_seq).map (Option.map CtorSt.result) = some (some (some attrs)))
    (e : LarvaEnv α) (hc : larvaCfgOf attrs 1.0 sdt false = some e.c)
    (x y buoy : α) (p : Bio.Larva α) (xi : α) (rest : List α) :
    ∃ s, runProc (larvaAtom (!Bio.isZeroS e.c.D) e.extraSpreading) (saitheStep e) Gen.saithe_update_seq
        (LarvaSt.init x y buoy p (xi :: rest)) = some (some s) ∧
      (¬ p.age ≤ 60 → 30 ≤ s.z ∧ s.z ≤ 60) ∧ 0 ≤ s.z := by
  rw [Bridge.saithe_ctor_result ce dt hdt] at hctor
  obtain rfl : Bridge.saitheAttrs ce dt = attrs := Option.some.inj (Option.some.inj (Option.some.inj hctor))
  rw [Bridge.saithe_attrs_cfg] at hc
  have hcfg : e.c = Bridge.saitheCfg dt sdt := (Option.some.inj hc).symm
  have hmin : e.c.minDepth = 30 := by rw [hcfg]; simp only [Bridge.saitheCfg]; norm_num
  have hmax : e.c.maxDepth = 60 := by rw [hcfg]; simp only [Bridge.saitheCfg]; norm_num
  have hhd : e.c.hatchDay = 60 := by rw [hcfg]; simp only [Bridge.saitheCfg]; norm_num
  obtain ⟨s, hs, h1, _, h3⟩ := c05_saithe_band e (by rw [hmin, hmax]; norm_num) x y buoy p xi rest
  rw [hmin, hmax, hhd] at h1
  exact ⟨s, hs, h1, h3 (by rw [hmin]; norm_num)⟩

/-- saithe constructor (`config['dt'] = 600`, no `ibm` keys), then `update_ibm` -/
example : True := by
  have h := c05_saithe_ctor_band (α := ℚ) ⟨fun _ => none, some (.num 600)⟩ 600 600 rfl _
    (Bridge.saithe_ctor_result _ 600 rfl)
    ⟨Bridge.saitheCfg 600 600, fun _ _ _ => 7, fun _ _ _ => 35, fun _ _ => 100,
      Gen.larvae_growth, Gen.larvae_weight_to_length, true, fun x y => (x + 1, y - 1)⟩
    (Bridge.saithe_attrs_cfg _ 600 600) 1 2 32 ⟨55, 100, 1 / 10⟩ (-5) []
  trivial

/-! ## vps `[0, max_depth]` -/

/-- **vps** — after the interpreted `update_ibm` (`Gen.vps_update_seq`) the depth is in `[0, max_depth]`.  Side conditions:
`0 ≤ max_depth`, the uniform draw is in `[0, 1)`.  No bridge-forced hypothesis (`Bridge.vps_run_core` is used, so
`max_age` is arbitrary) beyond a supply `u :: rest`. -/
theorem c05_vps_band (e : VpsEnv α) (hm : 0 ≤ e.maxDepth) (x y : α) (p : Bio.Vps α) (u : α) (rest : List α)
    (hu0 : 0 ≤ u) (hu1 : u < 1) :
    ∃ s, runProc vpsAtom (vpsStep e) Gen.vps_update_seq (VpsSt.init x y p (u :: rest)) = some (some s) ∧
      0 ≤ s.z ∧ s.z ≤ e.maxDepth := by
  obtain ⟨md, dt, ma, fv⟩ := e
  obtain ⟨s, hs, hp, _⟩ := Bridge.vps_run_core md dt ma fv x y p u rest
  refine ⟨s, hs, ?_⟩
  have hz : s.z = (VpsSt.particle s).z := rfl
  rw [hz, hp]
  exact C05.vpsZ_band md u hm hu0 hu1

/-- vps: `max_depth = 3`, draw `u = 9/10` -/
example : True := by
  have h := c05_vps_band (α := ℚ) ⟨3, 600, 1073741824, fun _ _ => (1, 0)⟩ (by norm_num) 1 2 ⟨1, 0, true⟩ (9 / 10) []
    (by norm_num) (by norm_num)
  trivial

/-! ## lunar eel -/

/-- **lunar eel** — PARTIAL: `update_ibm` itself is not interpreted (`horizontal_advect` has no bridge).  Shown: the last
call of `Gen.eel_update_seq` is `vertical_diffuse`, and after the interpreted `vertical_diffuse`
(`Gen.eel_vertical_diffuse_seq`, which applies `Gen.eel_reflexive`) the depth is inside the configured
`vertical_limits = (lo, hi)`, `lo ≤ hi`, for every start depth, `D`, `dt` and draw.  Missing for the full clause: that
`init_grid` / `horizontal_advect` leave `Z` untouched. -/
theorem c05_eel_band_partial [HasFloor α] :
    (Bridge.callsOf Gen.eel_update_seq).getLast? = some "vertical_diffuse" ∧
    ∀ (D dt lo hi z xi : α) (rest : List α), lo ≤ hi →
      ∃ s, eelVerticalDiffuseRun D dt (lo, hi) z (xi :: rest) Gen.eel_vertical_diffuse_seq = some (some s) ∧
        lo ≤ s.z ∧ s.z ≤ hi := by
  refine ⟨by rw [Bridge.eel_order.1]; rfl, ?_⟩
  intro D dt lo hi z xi rest h
  obtain ⟨s, hs, hv⟩ := c05_run_of_map (Bridge.eel_vertical_diffuse_seq D dt lo hi z xi rest)
  refine ⟨s, hs, ?_⟩
  rw [(Prod.mk.inj hv).1]
  exact C05.eelZ_band D dt lo hi xi z h

/-- lunar eel: `vertical_limits = (20, 300)` -/
example : True := by
  have h := (c05_eel_band_partial (α := ℚ)).2 (1 / 100) 600 20 300 25 (-4) [] (by norm_num)
  trivial

end bio
section develop
open Ladim.BioSeq Ladim.DevSeq
variable {α : Type} [Field α] [LinearOrder α] [IsStrictOrderedRing α]
  [HasSqrt α] [HasExp α] [HasLog α] [HasSin α] [HasCos α] [HasAsin α] [HasRpow α] [HasPi α]

/-! ## sand eel -/

/-- sand eel `vertical_diffuse` alone (`Gen.sandeel_vertical_diffuse_seq`, calling the interpreted `reflexive`): an active
particle ends in `[0, min(maxdepth, H)]` from ANY start depth -/
theorem c05_sandeel_vertical_diffuse_band (e : SandeelEnv α) (x y z xi : α) (rest : List α) (log : List Draw)
    (hm : 0 ≤ e.maxdepth) (hH : 0 ≤ e.sampleDepth x y) :
    ∃ r, (runProc vertAtom (vertStep e) Gen.sandeel_vertical_diffuse_seq
        ⟨x, y, z, true, false, none, none, none, none, none, none, none, ⟨xi :: rest, log⟩⟩).map
          (Option.map fun s => (s.Z, s.rng)) = some (some r) ∧
      0 ≤ r.1 ∧ r.1 ≤ e.sampleDepth x y ∧ r.1 ≤ e.maxdepth := by
  have h := Bridge.sandeel_vertical_diffuse_seq e x y z true ⟨xi :: rest, log⟩
  unfold sandeelVertRun at h
  refine ⟨_, h, ?_⟩
  exact C05.sandeelZ_band e.D e.dt e.maxdepth (e.sampleDepth x y) xi z hm hH

/-- **sand eel**, the whole interpreted `update_ibm` (`Gen.sandeel_update_seq` and every callee): the horizontal position is
untouched; a particle that is active after development ends in `[0, H] ∩ [0, maxdepth]` (`H` the local depth) from ANY
start depth and for every draw; an inactive one keeps its depth.  Side conditions: `0 ≤ maxdepth`, `0 ≤ H`.
Bridge-forced: `hh` — the module-level `hatch_time` returns a value for every argument (`Bridge.sandeel_update_core`; see
`c05_sandeel_band_hatch_func`); a supply of two numbers. -/
theorem c05_sandeel_update [HasRound α] [HasTrunc α] (e : SandeelEnv α) (f : α → α → α)
    (hh : e.hatchTime = fun r t => some (some (f r t))) (x y z stage hr : α) (active : Bool) (u xi : α)
    (rest : List α) (hm : 0 ≤ e.maxdepth) (hH : 0 ≤ e.sampleDepth x y) :
    ∃ s, runProc sandeelUpdAtom (sandeelUpdStep e) Gen.sandeel_update_seq
        ⟨x, y, z, stage, hr, active, none, ⟨u :: xi :: rest, []⟩⟩ = some (some s) ∧
      s.x = x ∧ s.y = y ∧
      (s.active = true → 0 ≤ s.z ∧ s.z ≤ e.sampleDepth s.x s.y ∧ s.z ≤ e.maxdepth) ∧
      (s.active = false → s.z = z) := by
  obtain ⟨s, hs, hv⟩ := c05_run_of_map (Bridge.sandeel_update_core e f hh x y z stage hr active u xi rest)
  refine ⟨s, hs, ?_⟩
  simp only [Prod.mk.injEq] at hv
  obtain ⟨hx, hy, hz, hp, _⟩ := hv
  have hact : s.active = (Dev.larvaDevelop (e.fieldTemp x y z) e.dt
      (Dev.eggDevelop (f (if Bio.isZeroS hr then u else hr)
        (e.bottomTemp (trunc (round (y - e.j0))) (trunc (round (x - e.i0))))) e.dt ⟨stage, active⟩)).active :=
    congrArg Dev.Eel.active hp
  rw [← hact] at hz
  refine ⟨hx, hy, fun ha => ?_, fun ha => ?_⟩
  · rw [hz, ha, hx, hy]
    exact C05.sandeelZ_band e.D e.dt e.maxdepth (e.sampleDepth x y) _ z hm hH
  · rw [hz, ha]; rfl

/-- **sand eel band**: a particle inside the band of its position stays inside it (never above the surface, never below the
bed, never below `maxdepth`) -/
theorem c05_sandeel_band [HasRound α] [HasTrunc α] (e : SandeelEnv α) (f : α → α → α)
    (hh : e.hatchTime = fun r t => some (some (f r t))) (x y z stage hr : α) (active : Bool) (u xi : α)
    (rest : List α) (hm : 0 ≤ e.maxdepth) (hH : 0 ≤ e.sampleDepth x y)
    (hz0 : 0 ≤ z) (hz1 : z ≤ e.sampleDepth x y) (hz2 : z ≤ e.maxdepth) :
    ∃ s, runProc sandeelUpdAtom (sandeelUpdStep e) Gen.sandeel_update_seq
        ⟨x, y, z, stage, hr, active, none, ⟨u :: xi :: rest, []⟩⟩ = some (some s) ∧
      0 ≤ s.z ∧ s.z ≤ e.sampleDepth s.x s.y ∧ s.z ≤ e.maxdepth := by
  obtain ⟨s, hs, hx, hy, h1, h2⟩ := c05_sandeel_update e f hh x y z stage hr active u xi rest hm hH
  refine ⟨s, hs, ?_⟩
  cases ha : s.active with
  | true => exact h1 ha
  | false => rw [h2 ha, hx, hy]; exact ⟨hz0, hz1, hz2⟩

/-- sand eel: `max_depth = 100`, local depth 60, particle at 30 m -/
example : True := by
  have h := c05_sandeel_band (α := ℚ)
    ⟨1 / 100, 600, 100, 0, 0, fun _ _ => 6, fun _ _ _ => 8, fun _ _ => 60, fun r t => some (some (60 - r - t)), false⟩
    (fun r t => 60 - r - t) rfl 3 4 30 (1 / 2) 0 true (1 / 3) (-2) [] (by norm_num) (by norm_num) (by norm_num)
    (by norm_num) (by norm_num)
  trivial

/-- … with `hatch_time` = what the interpreted `get_hatch_time_func` (`Gen.sandeel_hatch_time_func_seq`) returns, for ANY
spline library `mk` (no assumption on the spline) -/
theorem c05_sandeel_band_hatch_func [HasRound α] [HasTrunc α] (e : SandeelEnv α)
    (mk : List α → List α → List (List α) → Nat → Nat → α → α → α)
    (hh : sandeelHatchFuncRun mk = some (some e.hatchTime)) (x y z stage hr : α) (active : Bool) (u xi : α)
    (rest : List α) (hm : 0 ≤ e.maxdepth) (hH : 0 ≤ e.sampleDepth x y)
    (hz0 : 0 ≤ z) (hz1 : z ≤ e.sampleDepth x y) (hz2 : z ≤ e.maxdepth) :
    ∃ s, runProc sandeelUpdAtom (sandeelUpdStep e) Gen.sandeel_update_seq
        ⟨x, y, z, stage, hr, active, none, ⟨u :: xi :: rest, []⟩⟩ = some (some s) ∧
      0 ≤ s.z ∧ s.z ≤ e.sampleDepth s.x s.y ∧ s.z ≤ e.maxdepth := by
  rw [Bridge.sandeel_hatch_time_func_seq] at hh
  exact c05_sandeel_band e _ (Option.some.inj (Option.some.inj hh)).symm x y z stage hr active u xi rest hm hH hz0 hz1 hz2

/-- **every sequence of consecutive updates** of a sand eel particle that LADiM moves horizontally between the updates
(`(x, y)` and the local depth change from update to update): state `(Z, stage, hatch_rate, active)`, one step =
position and the two numbers of the supply; `0 ≤ Z ≤ maxdepth` throughout (and `Z ≤ H` after every update in which the
particle is active: `c05_sandeel_update`) -/
theorem c05_sandeel_history [HasRound α] [HasTrunc α] (e : SandeelEnv α) (f : α → α → α)
    (hh : e.hatchTime = fun r t => some (some (f r t))) (hm : 0 ≤ e.maxdepth)
    (steps : List (α × α × α × α)) (hH : ∀ st ∈ steps, 0 ≤ e.sampleDepth st.1 st.2.1)
    (s₀ : α × α × α × Bool) (h₀ : 0 ≤ s₀.1 ∧ s₀.1 ≤ e.maxdepth) :
    ∃ s', steps.foldlM (fun s st =>
        (runProc sandeelUpdAtom (sandeelUpdStep e) Gen.sandeel_update_seq
          ⟨st.1, st.2.1, s.1, s.2.1, s.2.2.1, s.2.2.2, none, ⟨[st.2.2.1, st.2.2.2], []⟩⟩).join.map
          fun r => (r.z, r.stage, r.hatchRate, r.active)) s₀ = some s' ∧
      0 ≤ s'.1 ∧ s'.1 ≤ e.maxdepth := by
  refine c05_history (fun s : α × α × α × Bool => 0 ≤ s.1 ∧ s.1 ≤ e.maxdepth) _ steps ?_ s₀ h₀
  intro st hst s hs
  obtain ⟨r, hr, _, _, h1, h2⟩ :=
    c05_sandeel_update e f hh st.1 st.2.1 s.1 s.2.1 s.2.2.1 s.2.2.2 st.2.2.1 st.2.2.2 [] hm (hH st hst)
  refine ⟨_, by rw [hr]; rfl, ?_⟩
  cases ha : r.active with
  | true => exact ⟨(h1 ha).1, (h1 ha).2.2⟩
  | false => show 0 ≤ r.z ∧ r.z ≤ e.maxdepth; rw [h2 ha]; exact hs

/-- sand eel, two consecutive updates at two positions (local depths 60 m and 25 m) -/
example : True := by
  have h := c05_sandeel_history (α := ℚ)
    ⟨1 / 100, 600, 100, 0, 0, fun _ _ => 6, fun _ _ _ => 8, fun x _ => if x ≤ 3 then 60 else 25,
      fun r t => some (some (60 - r - t)), false⟩
    (fun r t => 60 - r - t) rfl (by norm_num) [(3, 4, 1 / 3, -2), (4, 4, 1 / 2, 5)]
    (by intro st hst; simp only [List.mem_cons, List.mem_nil_iff, or_false] at hst; rcases hst with rfl | rfl <;> norm_num)
    (30, 1 / 2, 0, true) (by norm_num)
  trivial

/-! ## shrimp -/

/-- helper: the preferred depth lies in the stage's band when the quantile is in `[0, 1]` -/
theorem c05_preferred_in_band (lo hi q : α) (h : lo ≤ hi) (hq0 : 0 ≤ q) (hq1 : q ≤ 1) :
    lo ≤ Bio.shrimpPreferred lo hi q ∧ Bio.shrimpPreferred lo hi q ≤ hi := by
  unfold Bio.shrimpPreferred
  constructor <;> nlinarith [mul_nonneg (sub_nonneg.mpr h) hq0, mul_nonneg (sub_nonneg.mpr h) (sub_nonneg.mpr hq1)]

/-- shrimp `mixing` alone (`Gen.shrimp_mixing_seq`): never above the surface, from any depth, for every draw and
coefficient.  Bridge-forced: the table read `vertical_mixing[int_stage]` succeeds; supply `xi :: rest`. -/
theorem c05_shrimp_mixing_nonneg [HasTrunc α] (vm : List α) (dt : α) (p : Shrimp α) (xi : α) (rest : List α)
    (log : List Draw) (v : α) (hv : npIndex vm (shrimpIntStage p.stage) = some v) :
    ∃ r, (runProc shrimpMixAtom (shrimpMixStep vm dt) Gen.shrimp_mixing_seq ⟨p, none, none, none, none, none, ⟨xi :: rest, log⟩⟩).map
        (Option.map fun s => (s.p, s.rng)) = some (some r) ∧ 0 ≤ r.1.z := by
  have h := Bridge.shrimp_mixing_seq vm dt p ⟨xi :: rest, log⟩
  rw [hv] at h
  refine ⟨_, h, ?_⟩
  exact C05.shrimpMix_nonneg v dt xi p.z

/-- helper (model level): one migration step towards the preferred depth of a band `[lo, hi]` with `0 ≤ lo ≤ hi`, quantile in
`[0, 1]` -/
theorem c05_migrate_band (dt speed lo hi q z : α) (hz : 0 ≤ z) (hs : 0 ≤ dt * speed) (hlo : 0 ≤ lo) (h : lo ≤ hi)
    (hq0 : 0 ≤ q) (hq1 : q ≤ 1) :
    0 ≤ Bio.shrimpMigrate dt speed (Bio.shrimpPreferred lo hi q) z ∧
    min z lo ≤ Bio.shrimpMigrate dt speed (Bio.shrimpPreferred lo hi q) z ∧
    Bio.shrimpMigrate dt speed (Bio.shrimpPreferred lo hi q) z ≤ max z hi := by
  obtain ⟨hp0, hp1⟩ := c05_preferred_in_band lo hi q h hq0 hq1
  obtain ⟨h0, h1, h2⟩ := C05.migration_band_clamped dt speed (Bio.shrimpPreferred lo hi q) z hz (le_trans hlo hp0) hs
  exact ⟨h0, le_trans (min_le_min le_rfl hp0) h1, le_trans h2 (max_le_max le_rfl hp1)⟩

/-- shrimp `diel_migration` alone (`Gen.shrimp_diel_migration_seq`, with the interpreted `sunheight`): from a depth `≥ 0`
the particle stays `≥ 0` and ends between its old depth and the day / night band of its stage.
Bridge-forced: the five table reads succeed. -/
theorem c05_shrimp_diel_migration_band [HasTrunc α] {τ : Type} (e : ShrimpEnv α τ) (p : Shrimp α)
    (speed maxDay maxNgh minDay minNgh : α)
    (h1 : npIndex e.vertSpeed (shrimpIntStage p.stage) = some speed)
    (h2 : npIndex e.maxDay (shrimpIntStage p.stage) = some maxDay)
    (h3 : npIndex e.maxNgh (shrimpIntStage p.stage) = some maxNgh)
    (h4 : npIndex e.minDay (shrimpIntStage p.stage) = some minDay)
    (h5 : npIndex e.minNgh (shrimpIntStage p.stage) = some minNgh)
    (hz : 0 ≤ p.z) (hs : 0 ≤ e.dt * speed) (hd : 0 ≤ minDay ∧ minDay ≤ maxDay) (hn : 0 ≤ minNgh ∧ minNgh ≤ maxNgh)
    (hq : 0 ≤ p.q ∧ p.q ≤ 1) :
    ∃ p', (runProc (shrimpDielAtom e.hasTimestamp) (shrimpDielStep e) Gen.shrimp_diel_migration_seq
        ⟨p, none, none, none, none, none, none, none, none, none, none, none, none, none, none, none, none, none,
          none⟩).map (Option.map fun s => s.p) = some (some p') ∧
      0 ≤ p'.z ∧
      ∃ lo hi, ((lo, hi) = (minDay, maxDay) ∨ (lo, hi) = (minNgh, maxNgh)) ∧ min p.z lo ≤ p'.z ∧ p'.z ≤ max p.z hi := by
  have h := Bridge.shrimp_diel_migration_seq e p speed maxDay maxNgh minDay minNgh h1 h2 h3 h4 h5
  unfold shrimpDielRun at h
  refine ⟨_, h, ?_⟩
  dsimp only
  cases decide ((0.0 : α) < Gen.shrimp_sunheight
      (e.timetuple (if e.hasTimestamp then e.timestamp else e.timeVar)).1
      (e.timetuple (if e.hasTimestamp then e.timestamp else e.timeVar)).2 (e.lonlat p.x p.y).1 (e.lonlat p.x p.y).2)
  · obtain ⟨a, b, c⟩ := c05_migrate_band e.dt speed minNgh maxNgh p.q p.z hz hs hn.1 hn.2 hq.1 hq.2
    exact ⟨a, minNgh, maxNgh, Or.inr rfl, b, c⟩
  · obtain ⟨a, b, c⟩ := c05_migrate_band e.dt speed minDay maxDay p.q p.z hz hs hd.1 hd.2 hq.1 hq.2
    exact ⟨a, minDay, maxDay, Or.inl rfl, b, c⟩

/-- **shrimp** — after the interpreted `update_ibm` (`Gen.shrimp_update_seq` and every callee: `initialize`,
`update_ibm_forcing`, `growth`, `mixing`, `diel_migration`, `sunheight`): `Z ≥ 0` from ANY start depth, and `Z` lies
between the depth after mixing (`zmix ≥ 0`) and the migration band `[lo, hi]` of the stage (day or night): the
migration never overshoots the band and never leaves it.  Side conditions (valid configuration): `dt * speed ≥ 0`,
`0 ≤ mindepth ≤ maxdepth` day and night, quantile (stored, and the uniform draw that initialises it) in `[0, 1]`.
Bridge-forced: `h0 … h5` — the six stage tables have an entry at the index of the stage after growth
(`Bridge.shrimp_table_read`: tables with five entries, integer part of the stage `≥ 1`); a supply of two numbers. -/
theorem c05_shrimp_band [HasTrunc α] {τ : Type} (e : ShrimpEnv α τ) (p : Shrimp α) (u xi : α) (rest : List α)
    (vm speed maxDay maxNgh minDay minNgh : α)
    (h0 : npIndex e.vertMix (shrimpIntStage (Bridge.shrimpStageAfter e p)) = some vm)
    (h1 : npIndex e.vertSpeed (shrimpIntStage (Bridge.shrimpStageAfter e p)) = some speed)
    (h2 : npIndex e.maxDay (shrimpIntStage (Bridge.shrimpStageAfter e p)) = some maxDay)
    (h3 : npIndex e.maxNgh (shrimpIntStage (Bridge.shrimpStageAfter e p)) = some maxNgh)
    (h4 : npIndex e.minDay (shrimpIntStage (Bridge.shrimpStageAfter e p)) = some minDay)
    (h5 : npIndex e.minNgh (shrimpIntStage (Bridge.shrimpStageAfter e p)) = some minNgh)
    (hs : 0 ≤ e.dt * speed) (hd : 0 ≤ minDay ∧ minDay ≤ maxDay) (hn : 0 ≤ minNgh ∧ minNgh ≤ maxNgh)
    (hq : 0 ≤ p.q ∧ p.q ≤ 1) (hu : 0 ≤ u ∧ u ≤ 1) :
    ∃ s, runProc shrimpUpdAtom (shrimpUpdStep e) Gen.shrimp_update_seq ⟨p, ⟨u :: xi :: rest, []⟩⟩ = some (some s) ∧
      0 ≤ s.p.z ∧
      ∃ zmix lo hi, 0 ≤ zmix ∧ ((lo, hi) = (minDay, maxDay) ∨ (lo, hi) = (minNgh, maxNgh)) ∧
        min zmix lo ≤ s.p.z ∧ s.p.z ≤ max zmix hi := by
  obtain ⟨s, hrun, hv⟩ := c05_run_of_map
    (Bridge.shrimp_update_seq e p u xi rest vm speed maxDay maxNgh minDay minNgh h0 h1 h2 h3 h4 h5)
  refine ⟨s, hrun, ?_⟩
  have hp := (Prod.mk.inj hv).1
  rw [hp]
  have hzm := C05.shrimpMix_nonneg vm e.dt (if Bio.isZeroS p.q then xi else u) p.z
  have hq' : 0 ≤ (if Bio.isZeroS p.q then u else p.q) ∧ (if Bio.isZeroS p.q then u else p.q) ≤ 1 := by
    split_ifs
    · exact hu
    · exact hq
  cases decide ((0.0 : α) < Gen.shrimp_sunheight
      (e.timetuple (if e.hasTimestamp then e.timestamp else e.timeVar)).1
      (e.timetuple (if e.hasTimestamp then e.timestamp else e.timeVar)).2 (e.lonlat p.x p.y).1 (e.lonlat p.x p.y).2)
  · obtain ⟨a, b, c⟩ := c05_migrate_band e.dt speed minNgh maxNgh _ _ hzm hs hn.1 hn.2 hq'.1 hq'.2
    exact ⟨a, _, minNgh, maxNgh, hzm, Or.inr rfl, b, c⟩
  · obtain ⟨a, b, c⟩ := c05_migrate_band e.dt speed minDay maxDay _ _ hzm hs hd.1 hd.2 hq'.1 hq'.2
    exact ⟨a, _, minDay, maxDay, hzm, Or.inl rfl, b, c⟩

local macro "ex_read" : tactic =>
  `(tactic| norm_num [Bridge.shrimpStageAfter, Bio.shrimpStage, Bio.npClip, Gen.shrimp_delta_stage, Bio.isZeroS, fmin,
      fmax, shrimpIntStage, npIndex, trunc, exTrunc])

/-- shrimp: five-entry stage tables, stage 2 particle at 30 m, new quantile -/
example : True := by
  have h := c05_shrimp_band (α := ℚ) (τ := ℕ)
    ⟨[1/1000, 1/1000, 1/1000, 1/1000, 1/1000], [1/100, 1/100, 1/100, 1/100, 1/100], [50, 60, 70, 80, 90],
      [20, 25, 30, 35, 40], [10, 15, 20, 25, 30], [1, 2, 3, 4, 5], 600, fun _ _ _ => 5, fun _ _ _ => 35,
      fun x y => (x, y), true, 100, 100, fun _ => (150, 12), false⟩
    ⟨3, 4, 30, 2, 10, 0, true, none, none, none⟩ (1 / 2) (-1) []
    (1/1000) (1/100) 60 25 15 2
    (by ex_read) (by ex_read) (by ex_read) (by ex_read) (by ex_read) (by ex_read)
    (by norm_num) (by norm_num) (by norm_num) (by norm_num) (by norm_num)
  trivial

end develop

section sediment
open Ladim.Seq Ladim.Sed Ladim.Grain
variable {α : Type} [Field α] [LinearOrder α] [IsStrictOrderedRing α]
  [HasSqrt α] [HasExp α] [HasLog α] [HasSin α] [HasCos α] [HasAsin α] [HasRpow α] [HasPi α] [HasRound α] [HasFloor α]

/-! ## sedimentation -/

/-- sedimentation `update_ibm` on the interpreter of `Bridge.sed_update_seq` (`Gen.sed_update_seq`; the `call` steps are the
hand-written rules): see `c05_sed_update_code_band` for the composed statement -/
theorem c05_sed_update_band (c : Sed.Config α) (e : Sed.Env α) (xi : α) (p : Sed.Particle α)
    (hH : 0 ≤ e.H) (hz0 : 0 ≤ p.z) (hz1 : p.z ≤ e.H) (hdt : 0 ≤ c.dt) (hsv : 0 ≤ p.sinkVel) (hns : 0 ≤ e.newSink)
    (hmix : ∀ v, c.mixing = .const v → |p.z + sqrt (2.0 * v) * (xi * sqrt c.dt)| ≤ 2 * e.H) :
    ∃ s, Seq.run Seq.sedAtom (Seq.sedStep c e xi) Gen.sed_update_seq (SedSt.init p) = some s ∧
      0 ≤ s.z ∧ s.z ≤ e.H := by
  have h := Bridge.sed_update_seq c e xi p
  cases hr : Seq.run Seq.sedAtom (Seq.sedStep c e xi) Gen.sed_update_seq (SedSt.init p) with
  | none => rw [hr] at h; simp at h
  | some s =>
    rw [hr] at h
    refine ⟨s, rfl, ?_⟩
    have hz : s.z = (SedSt.particle s).z := rfl
    rw [hz, Option.some.inj h]
    exact C05.sed_update_band c e xi p hH ⟨hz0, hz1⟩ hdt hsv hns hmix

/-- the `call` steps of `update_ibm` replaced by the interpretations of the generated method bodies; the state is the
particle's variables and the shear-velocity cache of the IBM object -/
def c05_sedStepCode (c : Sed.Config α) (e : Sed.Env α) (xi : α) (t : Int) (numOthers : Nat)
    (sc : SedSt α × Cache α) (k tx : String) : Option (SedSt α × Cache α) :=
  if k = "call" ∧ tx = "initialize" then
    (runSedInitialize Gen.sed_initialize_seq numOthers e.newSink sc.1.sinkVel).join.map
      fun v => ({ sc.1 with sinkVel := v }, sc.2)
  else if k = "call" ∧ tx = "resuspend" then
    (runSedResuspend Gen.sed_resuspend_seq sc.2 t e sc.1.active).join.map fun r => ({ sc.1 with active := r.1 }, r.2)
  else if k = "call" ∧ tx = "diffuse" then
    (runSedDiffuse Gen.sed_diffuse_seq c sc.2 t e xi sc.1.active sc.1.z).join.map fun r => ({ sc.1 with z := r.1 }, r.2)
  else if k = "call" ∧ tx = "sink" then
    (runSedSink Gen.sed_sink_seq c.dt sc.1.sinkVel sc.1.active sc.1.z).join.map fun z => ({ sc.1 with z := z }, sc.2)
  else if k = "call" ∧ tx = "bury" then
    (runSedBury Gen.sed_bury_seq e.H sc.1.z sc.1.active sc.1.alive).join.map
      fun r => ({ sc.1 with z := r.1, active := r.2.1, alive := r.2.2 }, sc.2)
  else if k = "call" ∧ tx = "kill_old" then
    (runSedKillOld Gen.sed_kill_old_seq c.stateDt c.lifespan sc.1.age sc.1.alive).join.map
      fun r => ({ sc.1 with age := r.1, alive := r.2 }, sc.2)
  else (Seq.sedStep c e xi sc.1 k tx).map fun s => (s, sc.2)

/-- helper -/
theorem c05_store_idem (k : Carrier) (f : Nat) : k.store (k.store f) = k.store f := by
  cases k
  · rfl
  · by_cases h : f = 0 <;> simp [Carrier.store, h]

/-- helper -/
theorem c05_bury_flag (H z : α) (a : Nat) : (Sed.bury H a z).2 = 0 ∨ (Sed.bury H a z).2 = 1 := by
  unfold Sed.bury
  split_ifs <;> simp

/-- helper -/
theorem c05_store_bury (k : Carrier) (H z : α) (a : Nat) : k.store (Sed.bury H a z).2 = (Sed.bury H a z).2 := by
  rcases c05_bury_flag H z a with h | h <;> rw [h]
  · exact Bridge.store_zero k
  · exact Bridge.store_one k

/-- every statement of the interpreter of `update_ibm` keeps the flag a value the carrier holds -/
theorem c05_sedStep_store (c : Sed.Config α) (e : Sed.Env α) (xi : α) (s s' : SedSt α) (k tx : String)
    (hs : c.carrier.store s.active = s.active) (h : Seq.sedStep c e xi s k tx = some s') :
    c.carrier.store s'.active = s'.active := by
  unfold Seq.sedStep at h
  split at h <;> first
    | (cases h; exact hs)
    | (cases h; exact c05_store_idem _ _)
    | (cases h; exact c05_store_bury _ _ _ _)
    | (cases h; dsimp only; split_ifs; exacts [c05_store_idem _ _, hs])
    | exact absurd h (by simp)

/-- the guard of a statement does not look at the cache -/
theorem c05_guardVal_fst {σ κ : Type} (atom : σ → String → Option Bool) (sc : σ × κ) (g : List Seq.Cond) :
    Seq.guardVal (fun sc : σ × κ => atom sc.1) sc g = Seq.guardVal atom sc.1 g := by
  induction g with
  | nil => rfl
  | cons c g ih => simp only [Seq.guardVal, ih]

/-- invariant of the composed run: the cache is stale or holds the particle's bottom shear velocity, and the flag is
a value the carrier holds -/
def c05_SedInv (c : Sed.Config α) (e : Sed.Env α) (t : Int) (sc : SedSt α × Cache α) : Prop :=
  Bridge.Coherent sc.2 t (Sed.ustar e.ub e.vb) ∧ c.carrier.store sc.1.active = sc.1.active

/-- helper -/
theorem c05_coherent_get (cache : Cache α) (t : Int) (v : α) (h : Bridge.Coherent cache t v) :
    Bridge.Coherent (cache.get t v).1 t v := Or.inr (Bridge.coherent_get h).1

/-- one statement: the composed step is the step of `Seq.sedStep` (`Bridge.sed_call_*`), with some new cache that
again satisfies the invariant -/
theorem c05_sed_code_step (c : Sed.Config α) (e : Sed.Env α) (xi : α) (t : Int) (n : Nat)
    (sc : SedSt α × Cache α) (hI : c05_SedInv c e t sc) (k tx : String) :
    ∃ cache', c05_sedStepCode c e xi t n sc k tx = (Seq.sedStep c e xi sc.1 k tx).map (fun s => (s, cache')) ∧
      ∀ s', Seq.sedStep c e xi sc.1 k tx = some s' → c05_SedInv c e t (s', cache') := by
  obtain ⟨hcoh, hst⟩ := hI
  have hkeep : ∀ s', Seq.sedStep c e xi sc.1 k tx = some s' → c.carrier.store s'.active = s'.active :=
    fun s' h => c05_sedStep_store c e xi sc.1 s' k tx hst h
  unfold c05_sedStepCode
  split_ifs with h1 h2 h3 h4 h5 h6
  · obtain ⟨rfl, rfl⟩ := h1
    refine ⟨sc.2, ?_, fun s' h => ⟨hcoh, hkeep s' h⟩⟩
    rw [Bridge.sed_call_initialize c e xi sc.1 n, Option.map_map]; rfl
  · obtain ⟨rfl, rfl⟩ := h2
    refine ⟨if e.taucrit.isSome then (sc.2.get t (ustar e.ub e.vb)).1 else sc.2, ?_, fun s' h => ⟨?_, hkeep s' h⟩⟩
    · rw [Bridge.sed_call_resuspend c e xi sc.1 sc.2 t hcoh hst, Bridge.sed_resuspend_seq _ _ _ _ hcoh]; rfl
    · split_ifs
      · exact c05_coherent_get _ _ _ hcoh
      · exact hcoh
  · obtain ⟨rfl, rfl⟩ := h3
    refine ⟨match c.mixing with | .none => sc.2 | _ => (sc.2.get t (ustar e.ub e.vb)).1, ?_, fun s' h => ⟨?_, hkeep s' h⟩⟩
    · rw [Bridge.sed_call_diffuse c e xi sc.1 sc.2 t hcoh, Bridge.sed_diffuse_seq _ _ _ _ _ _ _ hcoh]; rfl
    · cases c.mixing
      · exact hcoh
      · exact c05_coherent_get _ _ _ hcoh
      · exact c05_coherent_get _ _ _ hcoh
  · obtain ⟨rfl, rfl⟩ := h4
    refine ⟨sc.2, ?_, fun s' h => ⟨hcoh, hkeep s' h⟩⟩
    rw [Bridge.sed_call_sink c e xi sc.1, Option.map_map]; rfl
  · obtain ⟨rfl, rfl⟩ := h5
    refine ⟨sc.2, ?_, fun s' h => ⟨hcoh, hkeep s' h⟩⟩
    rw [Bridge.sed_call_bury c e xi sc.1, Option.map_map]; rfl
  · obtain ⟨rfl, rfl⟩ := h6
    refine ⟨sc.2, ?_, fun s' h => ⟨hcoh, hkeep s' h⟩⟩
    rw [Bridge.sed_call_kill_old c e xi sc.1, Option.map_map]; rfl
  · exact ⟨sc.2, rfl, fun s' h => ⟨hcoh, hkeep s' h⟩⟩

/-- any statement list: the composed run is the run of `Seq.sedStep`, with some final cache -/
theorem c05_sed_code_run (c : Sed.Config α) (e : Sed.Env α) (xi : α) (t : Int) (n : Nat) (prog : List Seq.Stmt) :
    ∀ sc : SedSt α × Cache α, c05_SedInv c e t sc →
      ∃ cache', Seq.run (fun sc : SedSt α × Cache α => Seq.sedAtom sc.1) (c05_sedStepCode c e xi t n) prog sc
        = (Seq.run Seq.sedAtom (Seq.sedStep c e xi) prog sc.1).map (fun s => (s, cache')) := by
  induction prog with
  | nil => intro sc _; exact ⟨sc.2, rfl⟩
  | cons st rest ih =>
    obtain ⟨g, k, tx⟩ := st
    intro sc hI
    simp only [Seq.run, c05_guardVal_fst]
    cases Seq.guardVal Seq.sedAtom sc.1 g with
    | none => exact ⟨sc.2, rfl⟩
    | some b =>
      cases b with
      | false => exact ih sc hI
      | true =>
        by_cases hk : k = "return"
        · simp only [hk, if_true]; exact ⟨sc.2, rfl⟩
        · simp only [hk, if_false]
          obtain ⟨cache1, hstep, hinv⟩ := c05_sed_code_step c e xi t n sc hI k tx
          rw [hstep]
          cases hs : Seq.sedStep c e xi sc.1 k tx with
          | none => exact ⟨sc.2, rfl⟩
          | some s' => exact ih (s', cache1) (hinv s' hs)

/-- **sedimentation** — the whole interpreted `update_ibm` with every method body interpreted (`Gen.sed_update_seq`,
`sed_initialize_seq`, `sed_resuspend_seq`, `sed_shear_velocity_seq`, `sed_diffuse_seq`, `sed_sink_seq`, `sed_bury_seq`,
`sed_kill_old_seq`): a particle in `[0, H]` ends in `[0, H]` (after `bury`), for every draw `xi`, bottom current and
critical stress.  Side conditions of the property: `0 ≤ H`, in-band start, `0 ≤ dt`, non-negative sinking velocities
(stored and newly assigned), and for CONSTANT mixing (both mirrors applied once) the displaced depth within `2H`
(`hmix`; the bounded-linear scheme needs nothing).
Bridge-forced: `hcoh` — the shear-velocity cache is stale at this step or holds this particle's value
(`Bridge.sed_resuspend_seq`, `sed_diffuse_seq`); `hstore` — the flag `active` is a value the state array holds
(`Bridge.sed_call_resuspend`). -/
theorem c05_sed_update_code_band (c : Sed.Config α) (e : Sed.Env α) (xi : α) (t : Int) (numOthers : Nat)
    (cache : Cache α) (p : Sed.Particle α)
    (hcoh : cache.tstep < t ∨ cache.value = Sed.ustar e.ub e.vb) (hstore : c.carrier.store p.active = p.active)
    (hH : 0 ≤ e.H) (hz0 : 0 ≤ p.z) (hz1 : p.z ≤ e.H) (hdt : 0 ≤ c.dt) (hsv : 0 ≤ p.sinkVel) (hns : 0 ≤ e.newSink)
    (hmix : ∀ v, c.mixing = .const v → |p.z + sqrt (2.0 * v) * (xi * sqrt c.dt)| ≤ 2 * e.H) :
    ∃ s cache', Seq.run (fun sc : SedSt α × Cache α => Seq.sedAtom sc.1) (c05_sedStepCode c e xi t numOthers)
        Gen.sed_update_seq (SedSt.init p, cache) = some (s, cache') ∧ 0 ≤ s.z ∧ s.z ≤ e.H := by
  obtain ⟨cache', hrun⟩ := c05_sed_code_run c e xi t numOthers Gen.sed_update_seq (SedSt.init p, cache) ⟨hcoh, hstore⟩
  obtain ⟨s, hs, hb⟩ := c05_sed_update_band c e xi p hH hz0 hz1 hdt hsv hns hmix
  exact ⟨s, cache', by rw [hrun, hs]; rfl, hb⟩

/-- sedimentation: constant mixing, depth 50, particle at 30 m, stale cache -/
example : True := by
  have h := c05_sed_update_code_band (α := ℚ) ⟨600, 600, 86400, .const (1 / 1000), .numeric⟩
    ⟨50, 1 / 10, 0, some (1 / 10), 1 / 100⟩ (-1) 1 3 ⟨0, 0⟩ ⟨30, 1, true, 0, 1 / 1000⟩
    (Or.inl (by norm_num)) rfl (by norm_num) (by norm_num) (by norm_num) (by norm_num) (by norm_num) (by norm_num)
    (by intro v hv; cases hv; norm_num [sqrt, exSqrt])
  trivial

/-- `bury` alone (`Gen.sed_bury_seq`): an active particle ends at or above the bed, and never above the surface -/
theorem c05_sed_bury_band (H z : α) (a : Nat) (alive : Bool) :
    ∃ r, runSedBury Gen.sed_bury_seq H z a alive = some (some r) ∧
      (a ≠ 0 → r.1 ≤ H) ∧ (0 ≤ H → 0 ≤ z → 0 ≤ r.1) :=
  ⟨_, Bridge.sed_bury_seq H z a alive, fun ha => C05.bury_le_H H z a ha, fun hH hz => C05.bury_nonneg H z a hH hz⟩

/-! ## mine -/

/-- mine `update_ibm` on the interpreter of `Bridge.mine_update_seq` (the `call` steps are the hand-written rules): see
`c05_mine_update_code_band` -/
theorem c05_mine_update_band (c : Mine.Config α) (e : Mine.Env α) (xi : α) (p : Sed.Particle α)
    (hH : 0 ≤ e.H) (hz0 : 0 ≤ p.z) (hz1 : p.z ≤ e.H) (hdt : 0 ≤ c.dt)
    (hw : 0 ≤ (if c.vadv then p.sinkVel + e.w else p.sinkVel)) :
    ∃ s, Seq.run (Seq.mineAtom c) (Seq.mineStep c e xi) Gen.mine_update_seq (MineSt.init c p) = some s ∧
      0 ≤ s.z ∧ s.z ≤ e.H := by
  have h := Bridge.mine_update_seq c e xi p
  cases hr : Seq.run (Seq.mineAtom c) (Seq.mineStep c e xi) Gen.mine_update_seq (MineSt.init c p) with
  | none => rw [hr] at h; simp at h
  | some s =>
    rw [hr] at h
    refine ⟨s, rfl, ?_⟩
    have hz : s.z = (MineSt.particle c p s).z := rfl
    rw [hz, Option.some.inj h]
    exact C05.mine_update_band c e xi p hH ⟨hz0, hz1⟩ hdt hw

/-- mine `bury` alone (`Gen.mine_bury_seq`) -/
theorem c05_mine_bury_band (c : Mine.Config α) (H z : α) (active : Nat) (alive : Bool) :
    ∃ r, runMineBury Gen.mine_bury_seq c H z active alive = some (some r) ∧
      ((if c.hasActive then active else 1) ≠ 0 → r.1 ≤ H) ∧ (0 ≤ H → 0 ≤ z → 0 ≤ r.1) :=
  ⟨_, Bridge.mine_bury_seq c H z active alive, fun ha => C05.bury_le_H H z _ ha,
    fun hH hz => C05.bury_nonneg H z _ hH hz⟩

/-- the `call` steps of the mine `update_ibm` replaced by the interpretations of the generated method bodies
(`reposition`, the horizontal re-seeding of C11, and `store`, the output of dead particles, do not touch the depth) -/
def c05_mineStepCode (c : Mine.Config α) (e : Mine.Env α) (xi : α) (t : Int)
    (sc : MineSt α × Cache α) (k tx : String) : Option (MineSt α × Cache α) :=
  if k = "call" ∧ tx = "resuspend" then
    (runMineResuspend Gen.mine_resuspend_seq c sc.2 t e sc.1.act).join.map fun r => ({ sc.1 with act := r.1 }, r.2)
  else if k = "call" ∧ tx = "diffuse" then
    (runMineDiffuse Gen.mine_diffuse_seq c.vdiff c.dt xi sc.1.act sc.1.z).join.map fun z => ({ sc.1 with z := z }, sc.2)
  else if k = "call" ∧ tx = "sink" then
    (runMineSink Gen.mine_sink_seq c.dt sc.1.sinkVel e.w c.vadv sc.1.act sc.1.z).join.map
      fun z => ({ sc.1 with z := z }, sc.2)
  else if k = "call" ∧ tx = "bury" then
    (runMineBury Gen.mine_bury_seq c e.H sc.1.z sc.1.act sc.1.alive).join.map
      fun r => ({ sc.1 with z := r.1, act := r.2.1, alive := r.2.2 }, sc.2)
  else if k = "call" ∧ tx = "kill_old" then
    (runMineKillOld Gen.mine_kill_old_seq c.stateDt c.lifespan sc.1.age sc.1.alive).join.map
      fun r => ({ sc.1 with age := r.1, alive := r.2 }, sc.2)
  else (Seq.mineStep c e xi sc.1 k tx).map fun s => (s, sc.2)

/-- invariant of the composed run: coherent cache; the value of `self.active()` is one the carrier holds; without a
variable `active` it is 1 and `has_been_buried_before` is unset -/
def c05_MineInv (c : Mine.Config α) (e : Mine.Env α) (t : Int) (sc : MineSt α × Cache α) : Prop :=
  Bridge.Coherent sc.2 t (Sed.ustar e.ub e.vb) ∧ c.carrier.store sc.1.act = sc.1.act ∧
    (c.hasActive = false → sc.1.act = 1 ∧ sc.1.buriedBefore = false)

/-- helper: every statement of `Seq.mineStep` keeps the invariant's flag part -/
theorem c05_mineStep_inv (c : Mine.Config α) (e : Mine.Env α) (xi : α) (s s' : MineSt α) (k tx : String)
    (hA : c.hasActive = true ∨ c.taucrit = none)
    (hs : c.carrier.store s.act = s.act) (h1 : c.hasActive = false → s.act = 1 ∧ s.buriedBefore = false)
    (h : Seq.mineStep c e xi s k tx = some s') :
    c.carrier.store s'.act = s'.act ∧ (c.hasActive = false → s'.act = 1 ∧ s'.buriedBefore = false) := by
  have htau : c.hasActive = false → c.taucrit = none := by
    intro hf; rcases hA with hA | hA
    · rw [hf] at hA; cases hA
    · exact hA
  unfold Seq.mineStep at h
  split at h
  case h_15 => exact absurd h (by simp)
  all_goals cases h
  case h_4 => exact ⟨hs, fun hf => ⟨(h1 hf).1, by simp [(h1 hf).1]⟩⟩
  case h_7 =>
    refine ⟨?_, fun hf => ?_⟩
    · unfold Mine.resusp; cases c.taucrit with
      | none => exact hs
      | some tc => exact c05_store_idem _ _
    · have := htau hf
      simp only [Mine.resusp, this]; exact h1 hf
  case h_10 =>
    dsimp only
    refine ⟨?_, fun hf => ?_⟩
    · split_ifs
      · exact c05_store_bury _ _ _ _
      · exact hs
    · simp only [hf, Bool.false_eq_true, if_false]; exact h1 hf
  case h_14 =>
    dsimp only
    refine ⟨?_, fun hf => ?_⟩
    · split_ifs
      · exact c05_store_idem _ _
      · exact hs
    · have hb := (h1 hf).2
      exact ⟨by simp only [hb, Bool.and_false, Bool.false_eq_true, if_false]; exact (h1 hf).1, hb⟩
  all_goals exact ⟨hs, h1⟩

/-- one statement: the composed step is the step of `Seq.mineStep` (`Bridge.mine_call_*`) -/
theorem c05_mine_code_step (c : Mine.Config α) (e : Mine.Env α) (xi : α) (t : Int)
    (hA : c.hasActive = true ∨ c.taucrit = none)
    (sc : MineSt α × Cache α) (hI : c05_MineInv c e t sc) (k tx : String) :
    ∃ cache', c05_mineStepCode c e xi t sc k tx = (Seq.mineStep c e xi sc.1 k tx).map (fun s => (s, cache')) ∧
      ∀ s', Seq.mineStep c e xi sc.1 k tx = some s' → c05_MineInv c e t (s', cache') := by
  obtain ⟨hcoh, hst, h1⟩ := hI
  have hkeep := fun s' h => c05_mineStep_inv c e xi sc.1 s' k tx hA hst h1 h
  unfold c05_mineStepCode
  split_ifs with h2 h3 h4 h5 h6
  · obtain ⟨rfl, rfl⟩ := h2
    refine ⟨if c.taucrit.isSome then (sc.2.get t (ustar e.ub e.vb)).1 else sc.2, ?_, fun s' h => ⟨?_, hkeep s' h⟩⟩
    · rw [Bridge.mine_call_resuspend c e xi sc.1 sc.2 t hA hst hcoh, Bridge.mine_resuspend_seq _ _ _ _ _ hA hst hcoh]
      rfl
    · split_ifs
      · exact c05_coherent_get _ _ _ hcoh
      · exact hcoh
  · obtain ⟨rfl, rfl⟩ := h3
    refine ⟨sc.2, ?_, fun s' h => ⟨hcoh, hkeep s' h⟩⟩
    rw [Bridge.mine_call_diffuse c e xi sc.1, Option.map_map]; rfl
  · obtain ⟨rfl, rfl⟩ := h4
    refine ⟨sc.2, ?_, fun s' h => ⟨hcoh, hkeep s' h⟩⟩
    rw [Bridge.mine_call_sink c e xi sc.1, Option.map_map]; rfl
  · obtain ⟨rfl, rfl⟩ := h5
    refine ⟨sc.2, ?_, fun s' h => ⟨hcoh, hkeep s' h⟩⟩
    rw [Bridge.mine_call_bury c e xi sc.1 (fun hf => (h1 hf).1), Option.map_map]; rfl
  · obtain ⟨rfl, rfl⟩ := h6
    refine ⟨sc.2, ?_, fun s' h => ⟨hcoh, hkeep s' h⟩⟩
    rw [Bridge.mine_call_kill_old c e xi sc.1, Option.map_map]; rfl
  · exact ⟨sc.2, rfl, fun s' h => ⟨hcoh, hkeep s' h⟩⟩

/-- any statement list: the composed run is the run of `Seq.mineStep`, with some final cache -/
theorem c05_mine_code_run (c : Mine.Config α) (e : Mine.Env α) (xi : α) (t : Int)
    (hA : c.hasActive = true ∨ c.taucrit = none) (prog : List Seq.Stmt) :
    ∀ sc : MineSt α × Cache α, c05_MineInv c e t sc →
      ∃ cache', Seq.run (fun sc : MineSt α × Cache α => Seq.mineAtom c sc.1) (c05_mineStepCode c e xi t) prog sc
        = (Seq.run (Seq.mineAtom c) (Seq.mineStep c e xi) prog sc.1).map (fun s => (s, cache')) := by
  induction prog with
  | nil => intro sc _; exact ⟨sc.2, rfl⟩
  | cons st rest ih =>
    obtain ⟨g, k, tx⟩ := st
    intro sc hI
    simp only [Seq.run, c05_guardVal_fst]
    cases Seq.guardVal (Seq.mineAtom c) sc.1 g with
    | none => exact ⟨sc.2, rfl⟩
    | some b =>
      cases b with
      | false => exact ih sc hI
      | true =>
        by_cases hk : k = "return"
        · simp only [hk, if_true]; exact ⟨sc.2, rfl⟩
        · simp only [hk, if_false]
          obtain ⟨cache1, hstep, hinv⟩ := c05_mine_code_step c e xi t hA sc hI k tx
          rw [hstep]
          cases hs : Seq.mineStep c e xi sc.1 k tx with
          | none => exact ⟨sc.2, rfl⟩
          | some s' => exact ih (s', cache1) (hinv s' hs)

/-- **mine** — the whole interpreted `update_ibm` with every method body interpreted (`Gen.mine_update_seq`,
`mine_resuspend_seq`, `mine_shear_velocity_seq`, `mine_diffuse_seq`, `mine_sink_seq`, `mine_bury_seq`,
`mine_kill_old_seq`): a particle in `[0, H]` ends in `[0, H]`, for every draw.  Side conditions: `0 ≤ H`, in-band start,
`0 ≤ dt`, non-negative total vertical velocity (`hw`).
Bridge-forced: `hA` — the state has a variable `active` or no resuspension is configured (otherwise the code raises:
`Bridge.mine_resuspend_seq_raises`); `hcoh` (cache, as for sedimentation); `hstore` (the flag is a value the array
holds). -/
theorem c05_mine_update_code_band (c : Mine.Config α) (e : Mine.Env α) (xi : α) (t : Int)
    (cache : Cache α) (p : Sed.Particle α)
    (hA : c.hasActive = true ∨ c.taucrit = none)
    (hcoh : cache.tstep < t ∨ cache.value = Sed.ustar e.ub e.vb)
    (hstore : c.hasActive = true → c.carrier.store p.active = p.active)
    (hH : 0 ≤ e.H) (hz0 : 0 ≤ p.z) (hz1 : p.z ≤ e.H) (hdt : 0 ≤ c.dt)
    (hw : 0 ≤ (if c.vadv then p.sinkVel + e.w else p.sinkVel)) :
    ∃ s cache', Seq.run (fun sc : MineSt α × Cache α => Seq.mineAtom c sc.1) (c05_mineStepCode c e xi t)
        Gen.mine_update_seq (MineSt.init c p, cache) = some (s, cache') ∧ 0 ≤ s.z ∧ s.z ≤ e.H := by
  have hI : c05_MineInv c e t (MineSt.init c p, cache) := by
    refine ⟨hcoh, ?_, fun hf => ?_⟩
    · show c.carrier.store (if c.hasActive then p.active else 1) = (if c.hasActive then p.active else 1)
      split_ifs with h
      · exact hstore h
      · exact Bridge.store_one _
    · show (if c.hasActive then p.active else 1) = 1 ∧ false = false
      simp [hf]
  obtain ⟨cache', hrun⟩ := c05_mine_code_run c e xi t hA Gen.mine_update_seq (MineSt.init c p, cache) hI
  obtain ⟨s, hs, hb⟩ := c05_mine_update_band c e xi p hH hz0 hz1 hdt hw
  exact ⟨s, cache', by rw [hrun, hs]; rfl, hb⟩

/-- mine: vertical advection on, depth 50, particle at 30 m, state without `active`, no resuspension -/
example : True := by
  have h := c05_mine_update_code_band (α := ℚ) ⟨600, 600, 86400, 1 / 1000, none, true, false, .numeric⟩
    ⟨50, 1 / 10, 0, -1 / 2000⟩ (-1) 1 ⟨0, 0⟩ ⟨30, 1, true, 0, 1 / 1000⟩
    (Or.inr rfl) (Or.inl (by norm_num)) (by intro h; cases h) (by norm_num) (by norm_num) (by norm_num) (by norm_num)
    (by norm_num)
  trivial

end sediment

section chemicals
open Ladim.Seq Ladim.Chemicals
variable {α : Type} [Field α] [LinearOrder α] [IsStrictOrderedRing α]
  [HasSqrt α] [HasExp α] [HasLog α] [HasSin α] [HasCos α] [HasAsin α] [HasRpow α] [HasPi α] [HasRound α] [HasFloor α]

/-! ## chemicals `[0, H]` -/

/-- `reflect` alone: one reflection brings every depth within one water depth of the band into the band -/
theorem c05_chem_reflect_band (H z : α) (h1 : -H ≤ z) (h2 : z ≤ 2 * H) :
    ∃ z', runChemReflect Gen.chem_reflect_seq H z = some (some z') ∧ 0 ≤ z' ∧ z' ≤ H :=
  ⟨_, Bridge.chem_reflect_seq H z, C05.reflect_band H z h1 h2⟩

/-- `clamp_to_seabed` alone -/
theorem c05_chem_clamp_band (H z : α) (hH : 0 ≤ H) (hz : 0 ≤ z) :
    ∃ z', runChemClamp Gen.chem_clamp_seq H z = some (some z') ∧ 0 ≤ z' ∧ z' ≤ H :=
  ⟨_, Bridge.chem_clamp_seq H z, C05.collision_clamp_band H z hH hz⟩

/-- the step-size precondition of the property, for one update: each vertical displacement that is followed by ONE
reflection — advection `dt * w`, constant mixing `sqrt(2 D) * dW`, every LaBolle sub-step `sqrt(2 K) * dW` with
`dW = (2 u - 1) * sqrt(3 ddt)` for the draws `u` of the particle — is at most the local water depth.  Stated at every
horizontal position `(x, y)` (the collision handler may re-seed the particle before the vertical steps run) and, for
LaBolle, at every sampling depth `zz`; only the CONFIGURED scheme and the draws of the particle's supply are bound.
`substeps c.dt vdt c.fuel 0` is the list of sub-step lengths of the `while` loop (`Bridge.chem_diffuse_labolle_seq`). -/
structure c05_ChemStepSmall (c : Config α) (e : Env α) (d : Draws α) : Prop where
  adv : c.vertadv = true → ∀ x y z, |c.dt * e.wvel x y z| ≤ e.depth x y
  const : ∀ D, c.mix = .const D → ∀ u ∈ d.vert, ∀ x y,
    |sqrt (2.0 * D) * ((u * 2.0 - 1.0) * sqrt (3.0 * c.dt))| ≤ e.depth x y
  labolle : ∀ vdt dz vmax, c.mix = .labolle vdt dz vmax → ∀ ddt ∈ substeps c.dt vdt c.fuel 0.0, ∀ u ∈ d.vert,
    ∀ x y zz, |sqrt (2.0 * fmin (e.vdiff x y zz) vmax) * ((u * 2.0 - 1.0) * sqrt (3.0 * ddt))| ≤ e.depth x y

/-- the particle has a draw for every generator call of the vertical mixing -/
structure c05_ChemSupply (c : Config α) (d : Draws α) : Prop where
  const : ∀ D, c.mix = .const D → d.vert ≠ []
  labolle : ∀ vdt dz vmax, c.mix = .labolle vdt dz vmax → (substeps c.dt vdt c.fuel 0.0).length ≤ d.vert.length

/-- helper (model level; `C05.update_band` with the step-size precondition restricted to the configured scheme and to the
draws that are used) -/
theorem c05_chem_model_band (c : Config α) (e : Env α) (d : Draws α) (p : Particle α)
    (hdep : ∀ x y, 0 ≤ e.depth x y) (hz : 0 ≤ p.z ∧ p.z ≤ e.depth p.x p.y)
    (hcl : c.collisionClamp = true ∨ d.stuck = false)
    (hne : ∀ D, c.mix = .const D → d.vert ≠ []) (hsm : c05_ChemStepSmall c e d) :
    0 ≤ (update c e d p).z ∧ (update c e d p).z ≤ e.depth (update c e d p).x (update c e d p).y := by
  have key : ∀ x y z, C05.InBand (e.depth x y) z → C05.InBand (e.depth x y) (vertical c e d x y z) := by
    intro x y z hzz
    unfold vertical
    have hz1 : C05.InBand (e.depth x y) (if c.vertadv then advect c.dt (e.depth x y) (e.wvel x y z) z else z) := by
      split_ifs with h
      · exact C05.advect_band _ _ _ _ hzz (hsm.adv h x y z)
      · exact hzz
    cases hm : c.mix with
    | none => simpa using hz1
    | const D =>
      have hmem : d.vert.headD 0.0 ∈ d.vert := by
        cases hv : d.vert with
        | nil => exact absurd hv (hne D hm)
        | cons u rest => simp
      exact C05.diffuseConst_band _ _ _ _ _ hz1 (hsm.const D hm _ hmem x y)
    | labolle vdt dz vmax =>
      exact C05.diffuseLabolle_band _ _ _ _ _ _ _ hz1
        (fun ddt hddt u hu zz => hsm.labolle vdt dz vmax hm ddt hddt u hu x y _)
  have h0 : C05.InBand
      (e.depth (if d.stuck then reseed p.x d.repX else p.x) (if d.stuck then reseed p.y d.repY else p.y))
      (if c.collisionClamp then fmin p.z
        (e.depth (if d.stuck then reseed p.x d.repX else p.x) (if d.stuck then reseed p.y d.repY else p.y))
       else p.z) := by
    by_cases hc : c.collisionClamp = true
    · simp only [hc, if_true]
      exact C05.collision_clamp_band _ _ (hdep _ _) hz.1
    · have hs : d.stuck = false := by
        rcases hcl with h | h
        · exact absurd h hc
        · exact h
      simp only [hc, hs, Bool.false_eq_true, if_false]
      exact hz
  unfold update
  simp only []
  cases c.lifespan <;> exact C05.horizontal_band c e d _ _ _ _ hdep (key _ _ _ h0)

/-- `update_ibm` on the interpreter of `Bridge.chem_update_seq` (the `call` steps are the hand-written rules) -/
theorem c05_chem_update_band (c : Config α) (e : Env α) (d : Draws α) (p : Particle α) (lc : LandCollision)
    (hclamp : c.collisionClamp = decide (lc ≠ .other)) (hstuck : lc = .other → d.stuck = false)
    (hdep : ∀ x y, 0 ≤ e.depth x y) (hz : 0 ≤ p.z ∧ p.z ≤ e.depth p.x p.y)
    (hne : ∀ D, c.mix = .const D → d.vert ≠ []) (hsm : c05_ChemStepSmall c e d) :
    ∃ p', Seq.run (chemAtom c lc) (chemStep c e d) Gen.chem_update_seq p = some p' ∧
      0 ≤ p'.z ∧ p'.z ≤ e.depth p'.x p'.y := by
  refine ⟨_, Bridge.chem_update_seq c e d p lc hclamp hstuck, c05_chem_model_band c e d p hdep hz ?_ hne hsm⟩
  by_cases h : lc = .other
  · exact Or.inr (hstuck h)
  · exact Or.inl (by rw [hclamp]; simp [h])

/-- the `call` steps of `update_ibm` replaced by the interpretations of the generated method bodies (`advect`,
`diffuse_const` and every trip of `diffuse_labolle` run the generated `reflect`); the particle's supply of draws is
`d.vert` for the vertical schemes and `[d.hx, d.hy]` for `horzdiff`.  `reposition` / `coastal_diffusion` (the
horizontal re-seeding of C11, decided by `d.stuck`) and `store_position` are the steps of `Seq.chemStep`. -/
def c05_chemStepCode (c : Config α) (e : Env α) (d : Draws α) (p : Particle α) (k tx : String) : Option (Particle α) :=
  if k = "call" ∧ tx = "clamp_to_seabed" then
    (runChemClamp Gen.chem_clamp_seq (e.depth p.x p.y) p.z).join.map fun z => { p with z := z }
  else if k = "call" ∧ tx = "advect" then
    (runChemAdvect Gen.chem_advect_seq e c.dt p.x p.y p.z).join.map fun z => { p with z := z }
  else if k = "call" ∧ tx = "diffuse_const" then
    match c.mix with
    | .const D =>
      (runChemDiffuseConst Gen.chem_diffuse_const_seq c.dt D (e.depth p.x p.y) d.vert p.z).join.map
        fun r => { p with z := r.1 }
    | _ => none
  else if k = "call" ∧ tx = "diffuse_labolle" then
    match c.mix with
    | .labolle vdt dz vmax =>
      (runChemDiffuseLabolle Gen.chem_diffuse_labolle_seq e c.dt vdt dz vmax p.x p.y c.fuel d.vert p.z).join.map
        fun r => { p with z := r.1 }
    | _ => none
  else if k = "call" ∧ tx = "horzdiff" then
    match c.horz with
    | some (hmin, hmax) =>
      (runChemHorzdiff Gen.chem_horzdiff_seq e hmin hmax c.dt p.z [d.hx, d.hy] p.x p.y p.alive).join.map
        fun r => { p with x := r.1, y := r.2.1, alive := r.2.2.1 }
    | none => none
  else if k = "call" ∧ tx = "kill_old" then
    (runChemKillOld Gen.chem_kill_old_seq c.dt c.lifespan p.age p.alive).join.map
      fun r => { p with age := r.1, alive := r.2 }
  else chemStep c e d p k tx

/-- the composed step is the step of `Seq.chemStep` (`Bridge.chem_call_*`) when the supply covers the generator calls -/
theorem c05_chem_code_step (c : Config α) (e : Env α) (d : Draws α) (hsup : c05_ChemSupply c d) :
    c05_chemStepCode c e d = chemStep c e d := by
  funext p k tx
  unfold c05_chemStepCode
  split_ifs with h1 h2 h3 h4 h5 h6
  · obtain ⟨rfl, rfl⟩ := h1
    exact (Bridge.chem_call_clamp c e d p).symm
  · obtain ⟨rfl, rfl⟩ := h2
    exact (Bridge.chem_call_advect c e d p).symm
  · obtain ⟨rfl, rfl⟩ := h3
    cases hm : c.mix with
    | none => simp [chemStep, hm]
    | labolle vdt dz vmax => simp [chemStep, hm]
    | const D =>
      cases hv : d.vert with
      | nil => exact absurd hv (hsup.const D hm)
      | cons u rest =>
        have := Bridge.chem_call_diffuse_const c e d p D u rest hm hv
        rw [hv] at this
        exact this.symm
  · obtain ⟨rfl, rfl⟩ := h4
    cases hm : c.mix with
    | none => simp [chemStep, hm]
    | const D => simp [chemStep, hm]
    | labolle vdt dz vmax =>
      exact (Bridge.chem_call_diffuse_labolle c e d p vdt dz vmax hm (hsup.labolle vdt dz vmax hm)).symm
  · obtain ⟨rfl, rfl⟩ := h5
    cases hh : c.horz with
    | none => simp [chemStep, hh]
    | some hm =>
      obtain ⟨hmin, hmax⟩ := hm
      exact (Bridge.chem_call_horzdiff c e d p hmin hmax [] hh).symm
  · obtain ⟨rfl, rfl⟩ := h6
    exact (Bridge.chem_call_kill_old c e d p).symm
  · rfl

/-- **chemicals** — the whole interpreted `update_ibm` with every method body interpreted (`Gen.chem_update_seq`,
`chem_clamp_seq`, `chem_advect_seq`, `chem_reflect_seq`, `chem_diffuse_const_seq`, `chem_diffuse_labolle_seq`,
`chem_horzdiff_seq`, `chem_kill_old_seq`): a particle inside `[0, H(x, y)]` ends inside `[0, H(x', y')]` of its NEW
position — with or without collision handler (`lc`), vertical advection, constant or LaBolle mixing, horizontal
diffusion, lifespan; for every draw.  Side conditions of the property: `0 ≤ H` everywhere, in-band start, and
`hsm : c05_ChemStepSmall` = "a single vertical step is smaller than the local water depth" for the schemes that reflect
once.  `hclamp`, `hstuck` tie the model's switches to `self.land_collision` (`Bridge.chem_update_seq`): the clamp runs
iff a handler is configured, and without a handler nothing is re-seeded.
Bridge-forced: `hsup : c05_ChemSupply` — the particle's supply of draws covers the generator calls
(`Bridge.chem_call_diffuse_const`, `chem_call_diffuse_labolle`). -/
theorem c05_chem_update_code_band (c : Config α) (e : Env α) (d : Draws α) (p : Particle α) (lc : LandCollision)
    (hclamp : c.collisionClamp = decide (lc ≠ .other)) (hstuck : lc = .other → d.stuck = false)
    (hsup : c05_ChemSupply c d)
    (hdep : ∀ x y, 0 ≤ e.depth x y) (hz : 0 ≤ p.z ∧ p.z ≤ e.depth p.x p.y) (hsm : c05_ChemStepSmall c e d) :
    ∃ p', Seq.run (chemAtom c lc) (c05_chemStepCode c e d) Gen.chem_update_seq p = some p' ∧
      0 ≤ p'.z ∧ p'.z ≤ e.depth p'.x p'.y := by
  rw [c05_chem_code_step c e d hsup]
  exact c05_chem_update_band c e d p lc hclamp hstuck hdep hz hsup.const hsm

/-- chemicals: `reposition` handler, vertical advection, constant mixing, horizontal diffusion, a bed that rises
from 50 m to 20 m at `x = 10`; particle at 30 m -/
example : True := by
  have h := c05_chem_update_code_band (α := ℚ)
    ⟨600, true, .const (1 / 1000), some (0, 10), some 86400, 10000, true⟩
    ⟨fun x _ => if x ≤ 10 then 50 else 20, fun _ _ _ => 1 / 100, fun _ _ _ => 0, fun _ _ _ => 1, fun _ _ => 800,
      fun _ _ => 800, fun _ _ => true⟩
    ⟨true, 1 / 4, 3 / 4, [9 / 10], 1 / 3, 2 / 3⟩ ⟨10, 5, 30, 0, true⟩ .reposition rfl (by intro h; cases h)
    ⟨(by intro D _ h; cases h), (by intro _ _ _ h; cases h)⟩
    (by intro x y; dsimp only; split_ifs <;> norm_num) (by norm_num)
    ⟨(by intro _ x y z; dsimp only; split_ifs <;> norm_num [abs_le]),
     (by intro D hD u hu x y; cases hD; simp only [List.mem_singleton] at hu; subst hu
         dsimp only; split_ifs <;> norm_num [sqrt, exSqrt, abs_le]),
     (by intro _ _ _ h; cases h)⟩
  trivial

/-- chemicals: LaBolle scheme with `vertdiff_dt = 300` (two sub-steps), two draws -/
example : True := by
  have hsub : Chemicals.substeps (600 : ℚ) 300 3 0.0 = [300, 300] := by norm_num [Chemicals.substeps, fmin]
  have h := c05_chem_update_code_band (α := ℚ)
    ⟨600, false, .labolle 300 0 (1 / 100), none, none, 3, false⟩
    ⟨fun _ _ => 50, fun _ _ _ => 0, fun _ _ _ => 1 / 200, fun _ _ _ => 1, fun _ _ => 800,
      fun _ _ => 800, fun _ _ => true⟩
    ⟨false, 0, 0, [9 / 10, 1 / 10], 1 / 3, 2 / 3⟩ ⟨10, 5, 30, 0, true⟩ .other rfl (by intro _; rfl)
    ⟨(by intro D h; cases h), (by intro vdt dz vmax h; cases h; rw [hsub]; exact le_refl _)⟩
    (by intro x y; norm_num) (by norm_num)
    ⟨(by intro h; cases h), (by intro _ h; cases h),
     (by intro vdt dz vmax h ddt hddt u hu x y zz; cases h; rw [hsub] at hddt
         simp only [List.mem_cons, List.mem_nil_iff, or_false, or_self] at hddt hu
         subst hddt
         rcases hu with rfl | rfl <;> norm_num [sqrt, exSqrt, fmin, abs_le])⟩
  trivial

/-- **chemicals, constructor then `update_ibm`**: the conditions of `update_ibm` are read (as Python reads them) on the
attributes `a` that the interpreted `__init__` (`Gen.chem_ctor_seq`) sets from the configuration.  (The statement holds
for every attribute record; `hctor` says which one is meant.)
Bridge-forced: `hD` — `vertical_mixing` is not the empty string (`Bridge.chem_ctor_atoms`). -/
theorem c05_chem_ctor_update_band (inf : α) (cfg : ChemConf α) (a : ChemAttrs α) (fuel : Nat)
    (hctor : runChemCtor Gen.chem_ctor_seq inf cfg = some (some a))
    (hD : ∀ s, a.D = .name s → s ≠ "") (e : Env α) (d : Draws α) (p : Particle α)
    (hstuck : a.collision = .other → d.stuck = false) (hsup : c05_ChemSupply (a.config fuel) d)
    (hdep : ∀ x y, 0 ≤ e.depth x y) (hz : 0 ≤ p.z ∧ p.z ≤ e.depth p.x p.y) (hsm : c05_ChemStepSmall (a.config fuel) e d) :
    ∃ p', Seq.run (fun _ => chemAttrAtom a) (c05_chemStepCode (a.config fuel) e d) Gen.chem_update_seq p = some p' ∧
      0 ≤ p'.z ∧ p'.z ≤ e.depth p'.x p'.y := by
  have h : (fun (_ : Particle α) => chemAttrAtom a) = chemAtom (a.config fuel) a.collision := by
    funext s t; exact (Bridge.chem_ctor_atoms a fuel hD s t).symm
  rw [h]
  exact c05_chem_update_code_band (a.config fuel) e d p a.collision (Bridge.chem_ctor_clamp a fuel) hstuck hsup hdep hz hsm

/-- chemicals, constructor then update: `config = {dt: 600, ibm: {vertical_mixing: 0.001, land_collision: 'freeze'}}`
(no handler, vertical advection by default, constant mixing) -/
example : True := by
  have hctor : runChemCtor Gen.chem_ctor_seq (1000000 : ℚ)
      ⟨some ⟨none, some (.num (1 / 1000)), none, none, none, none, none, none, none, some "freeze"⟩, some 600⟩
      = some (some ⟨none, .num (1 / 1000), 600, 600, 0, 1000000, none, 1000000, 0, true, "freeze", 0⟩) := by
    rw [Bridge.chem_ctor_seq]
    norm_num [chemCtorSpec, ChemIbmConf.empty]
  have h := c05_chem_ctor_update_band (α := ℚ) 1000000 _ _ 5 hctor (by intro s h; cases h)
    ⟨fun _ _ => 50, fun _ _ _ => 1 / 100, fun _ _ _ => 0, fun _ _ _ => 1, fun _ _ => 800, fun _ _ => 800,
      fun _ _ => true⟩
    ⟨false, 0, 0, [9 / 10], 1 / 3, 2 / 3⟩ ⟨10, 5, 30, 0, true⟩ (by intro _; rfl)
    ⟨(by intro D _ h; cases h), (by intro vdt dz vmax h; norm_num [ChemAttrs.config] at h; cases h)⟩
    (by intro x y; norm_num) (by norm_num)
    ⟨(by intro _ x y z; norm_num [ChemAttrs.config, abs_le]),
     (by intro D hD u hu x y
         norm_num [ChemAttrs.config] at hD
         simp only [List.mem_singleton] at hu
         subst hu hD
         norm_num [ChemAttrs.config, sqrt, exSqrt, abs_le]),
     (by intro vdt dz vmax h; norm_num [ChemAttrs.config] at h; cases h)⟩
  trivial

/-- **every sequence of consecutive updates** over one bathymetry `depth`: forcing and draws change from update to update;
each update satisfies the side conditions of `c05_chem_update_code_band` -/
theorem c05_chem_history (c : Config α) (lc : LandCollision) (hclamp : c.collisionClamp = decide (lc ≠ .other))
    (depth : α → α → α) (hdep : ∀ x y, 0 ≤ depth x y) (steps : List (Env α × Draws α))
    (hsteps : ∀ ed ∈ steps, ed.1.depth = depth ∧ (lc = .other → ed.2.stuck = false) ∧ c05_ChemSupply c ed.2 ∧
      c05_ChemStepSmall c ed.1 ed.2)
    (p₀ : Particle α) (h₀ : 0 ≤ p₀.z ∧ p₀.z ≤ depth p₀.x p₀.y) :
    ∃ p', steps.foldlM (fun p ed => Seq.run (chemAtom c lc) (c05_chemStepCode c ed.1 ed.2) Gen.chem_update_seq p) p₀
        = some p' ∧ 0 ≤ p'.z ∧ p'.z ≤ depth p'.x p'.y := by
  refine c05_history (fun p : Particle α => 0 ≤ p.z ∧ p.z ≤ depth p.x p.y) _ steps ?_ p₀ h₀
  intro ed hed p hp
  obtain ⟨hd, hst, hsup, hsm⟩ := hsteps ed hed
  have := c05_chem_update_code_band c ed.1 ed.2 p lc hclamp hst hsup (by rw [hd]; exact hdep) (by rw [hd]; exact hp) hsm
  rw [hd] at this
  exact this

/-- chemicals, two consecutive updates with different vertical velocities and draws over one bathymetry -/
example : True := by
  have h := c05_chem_history (α := ℚ) ⟨600, true, .const (1 / 1000), none, none, 5, false⟩ .other rfl
    (fun x _ => if x ≤ 10 then 50 else 20) (by intro x y; split_ifs <;> norm_num)
    [(⟨fun x _ => if x ≤ 10 then 50 else 20, fun _ _ _ => 1 / 100, fun _ _ _ => 0, fun _ _ _ => 1, fun _ _ => 800,
        fun _ _ => 800, fun _ _ => true⟩, ⟨false, 0, 0, [9 / 10], 1 / 3, 2 / 3⟩),
     (⟨fun x _ => if x ≤ 10 then 50 else 20, fun _ _ _ => -1 / 50, fun _ _ _ => 0, fun _ _ _ => 1, fun _ _ => 800,
        fun _ _ => 800, fun _ _ => true⟩, ⟨false, 0, 0, [1 / 10], 1 / 2, 1 / 2⟩)]
    (by
      intro ed hed
      simp only [List.mem_cons, List.mem_nil_iff, or_false] at hed
      rcases hed with rfl | rfl <;>
      · refine ⟨rfl, fun _ => rfl, ⟨fun D _ h => (by cases h), fun _ _ _ h => (by cases h)⟩,
          ⟨?_, ?_, fun _ _ _ h => (by cases h)⟩⟩
        · intro _ x y z; dsimp only; split_ifs <;> norm_num [abs_le]
        · intro D hD u hu x y; cases hD; simp only [List.mem_singleton] at hu; subst hu
          dsimp only; split_ifs <;> norm_num [sqrt, exSqrt, abs_le])
    ⟨10, 5, 30, 0, true⟩ (by norm_num)
  trivial

end chemicals

end OnCode
