import LadimProofs.C08
import LadimProofs.Bridge.Settle
/-!
# C08 — property theorems stated for the generated code

Each statement below is a property theorem of C05 / C07 / C08 / C16 with the hand-written model function replaced by
the window translated from /repo's current source (`Ladim.Gen.*`), obtained by rewriting with the bridge equalities.
Nothing hand-written stands between these statements and the source except the translator.
-/
open Ladim

set_option linter.unusedSectionVars false
set_option linter.unusedVariables false
namespace OnCode
variable {α : Type} [Field α] [LinearOrder α] [IsStrictOrderedRing α]
  [HasSqrt α] [HasExp α] [HasLog α] [HasSin α] [HasCos α] [HasAsin α] [HasRpow α] [HasPi α] [HasRound α] [HasFloor α]

/-! ## C08 — resuspension -/

/-- a settled particle is resuspended iff the bottom stress `1000 · 0.003 · (u² + v²)` reaches the critical stress -/
theorem resuspend_iff (hS : SqrtLaws α) (u v taucrit : α) :
    Gen.sed_resuspend (Gen.sed_ustar u v) taucrit = true ↔ taucrit ≤ 1000 * (0.003 * (u * u + v * v)) := by
  have h := C08.tau_formula hS u v
  rw [Bridge.sed_ustar, Bridge.sed_shear] at h
  simp only [Gen.sed_resuspend, decide_eq_true_eq, h]

end OnCode
