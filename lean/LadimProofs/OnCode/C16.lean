import LadimProofs.C16
import LadimProofs.Bridge.Swim
/-!
# C16 — property theorems stated for the generated code

Each statement below is a property theorem of C05 / C07 / C08 / C16 with the hand-written model function replaced by
the window translated from /repo's current source (`Ladim.Gen.*`), obtained by rewriting with the bridge equalities.
Nothing hand-written stands between these statements and the source except the translator.
-/
open Ladim

set_option linter.unusedSectionVars false
set_option linter.unusedVariables false
namespace OnCode
variable {α : Type} [Field α] [LinearOrder α] [IsStrictOrderedRing α]
  [HasSqrt α] [HasExp α] [HasLog α] [HasSin α] [HasCos α] [HasAsin α] [HasRpow α] [HasPi α] [HasRound α] [HasFloor α]

/-! ## C16 — swimming directions -/

/-- salmon lice swim up (negative velocity) in light when the water is salty enough -/
theorem lice_up_in_light (sv Eb salt r age : α) (hsv : 0 < sv) (hE : 0.01 ≤ Eb) (hr0 : 0 ≤ r)
    (hs : 32 ≤ salt) : Gen.lice_W sv Eb salt r age < 0 := by
  rw [← Bridge.lice_W]
  exact C16.lice_up_in_light sv Eb salt r _ hsv hE hs hr0

end OnCode
