import LadimProofs.C08
import LadimProofs.Bridge.Settle
import LadimProofs.Bridge.Seq
import LadimProofs.Bridge.Mixing
import LadimProofs.Bridge.SedimentSeq
import LadimProofs.Bridge.SedFactorySeq
/-!
# C08 end to end — the clauses of the property about the interpretation of the current source

Property C08 — Sediment particles settle, rest and resuspend according to bed shear stress

STATEMENT: A suspended particle sinks by exactly sinking velocity x time step (plus the configured mixing), and when it reaches the sea bed it is placed exactly on the bed and marked settled; a settled particle keeps its position until the bed shear stress (1000 x 0.003 x bottom speed squared) reaches the local critical stress - constant or derived from the grain-size map cell nearest to it - and never resuspends when no critical stress is configured. Particles that have rested on the bed before are flagged distinctly from never-settled ones when the activity flag can hold more than two values, and in the mining variant without resuspension settled particles leave the simulation.

QUANTIFIER: all mixtures of suspended / settled / previously-settled particles, all depths, bottom speeds, sinking velocities, critical stresses (absent, 0, constant, grain-size bin/poly maps), mixing methods (none, constant, bounded-linear) with any random draws, over any number of consecutive updates

## What the theorems speak about

`c08SedUpdate` / `c08MineUpdate` (defined here) are the TWO-LEVEL interpretation of `update_ibm`: the generated statement
sequence `Gen.sed_update_seq` / `Gen.mine_update_seq` is run by `Seq.run`; every `call` statement whose method body has
a generated sequence runs the interpretation of THAT sequence (`runSedInitialize Gen.sed_initialize_seq`,
`runSedResuspend Gen.sed_resuspend_seq` — which in turn runs `Gen.sed_shear_velocity_seq` —, `runSedDiffuse
Gen.sed_diffuse_seq`, `runSedSink Gen.sed_sink_seq`, `runSedBury Gen.sed_bury_seq`, `runSedKillOld
Gen.sed_kill_old_seq`; mine likewise), the shear-velocity cache `(self._ustar_tstep, self._ustar)` being handed from
method to method; the remaining statements (assignments of `update_ibm`, mine's `reposition` and `store`, which do not
touch the vertical state) are those of `Seq.sedStep` / `Seq.mineStep`.  A raise or an unknown text anywhere makes the
result `none`.  No hand-written model function occurs in the statements of the `c08_…` theorems; depths and stresses
are written with the generated windows (`Gen.sed_mix_const`, `Gen.sed_mix_bounded_linear`, `Gen.sed_turbulence`,
`Gen.sed_ustar`, `Gen.mine_mix`, `Gen.mine_sink`, `Gen.mine_sink_vadv`, `Gen.sed_taucrit_poly`) or in closed form.
The proofs go through the bridges (`Bridge.sed_*_seq`, `Bridge.mine_*_seq`, `Bridge.sed_get_taucrit_fn`,
`Bridge.sed_ctor_config`, …) and the model theorems of `LadimProofs/C08.lean` (private lemmas `c08aux_…`).

Per-particle reading (inherited from the interpreters): arrays are the particle's element, masks its condition; the
particles of a mixture do not interact except through `numOthers` (number of OTHER new particles seen by
`initialize`), which is universally quantified.  Parameters of the interpretation, not interpreted further:
`e.H` = `grid.sample_depth`, `e.ub`, `e.vb` = `forcing.velocity` at the bed, `e.taucrit` = the particle's element of
`self.taucrit_fn(lon, lat)` (`none` iff `self.taucrit_fn is None`; section `ctor` derives it from the interpreted
constructor through `c08TauAt`), `e.newSink` = the value `sinkvel(n)` hands to the particle, `xi` = the particle's
normal draw, `c.carrier` = what the flag array can hold (`numeric`: 0, 1, 2; `bool`: every non-zero value reads 1).

## Hypotheses (all are side conditions of the property; the bridge that forces each is named)

* `hc : cache.tstep < t` — the IBM has not evaluated the bottom shear velocity at step `t` yet (the constructor sets
  the counter to -1, LADiM's step counter increases from update to update; in histories: the steps are strictly
  increasing).  Forced by `Bridge.sed_resuspend_seq`, `Bridge.sed_diffuse_seq`, `Bridge.mine_resuspend_seq`
  (`Coherent cache t (ustar ub vb)`): a cache filled at the same step by ANOTHER velocity would be returned as is
  (`c08_sed_shear_velocity_same_step`).
* `hs : c.carrier = .bool → p.active ≤ 1` — the incoming flag is a value the flag array can hold.  Forced by
  `Bridge.sed_call_resuspend` / `Bridge.mine_resuspend_seq` (`c.carrier.store s.active = s.active`).
* mine, `hA : c.hasActive = true ∨ c.taucrit = none` — with resuspension configured the state must have the variable
  `active`; otherwise the code raises (`c08_mine_resuspension_needs_active_variable`, `Bridge.mine_resuspend_seq_raises`).
* `hS : SqrtLaws α` — `sqrt x * sqrt x = x` for `0 ≤ x`: needed to write the stress `ustar * ustar * 1000` as
  `1000 * (0.003 * (u*u + v*v))` (`C08.tau_formula`); `hT : C08.TruncLaw α` — `np.int32` truncates non-negative
  numbers; both hold for `ℝ` (`RealInst.sqrtLaws`, section `examples`).
* grain-size raster: the file opens, has the variable, both axes have at least two points and the raster at least
  one cell per axis — otherwise the code raises (`Bridge.sed_get_taucrit_fn_grain_size`).

## Not covered

* `…_partial` (grain-size raster): "the cell nearest to it" is shown for positions inside the raster extent, beyond the
  last coordinate (last cell) and within half a cell of the first coordinate (first cell).  For positions more than half
  a cell before the first coordinate the index is only shown to lie in the raster: `C08.TruncLaw` says nothing about
  `np.int32` of negative numbers.
* `grid.lonlat`, `grid.sample_depth`, `forcing.velocity`, the spline of `sinkvel` are parameters; the value `None` of
  `self._ustar` before the first evaluation is not modelled (as in `SedimentSeq.lean`).

Remark on "resuspended exactly when τ ≥ τ_crit": the method `resuspend` sets the flag to `True` exactly then
(`c08_sed_resuspend_method`); a particle lifted off the bed that sinks below the bed again in the same step is buried
again by `bury`, so the flag AFTER the update is non-zero iff τ ≥ τ_crit and `zs ≤ H` (`c08_sed_resuspends_iff`,
`c08_mine_resuspends_iff`) — without mixing and with a positive sinking velocity a resting particle is re-buried at once.
-/
open Ladim Ladim.Seq Ladim.Sed Ladim.Grain

set_option linter.unusedSectionVars false
set_option linter.unusedVariables false
set_option linter.unusedSimpArgs false
set_option linter.unnecessarySeqFocus false
namespace OnCode
variable {α : Type} [Field α] [LinearOrder α] [IsStrictOrderedRing α] [HasSqrt α]

/-- the variables of one sediment particle together with the shear-velocity cache -/
abbrev C08SedSt (α : Type) := SedSt α × Cache α

/-- one statement of the sedimentation `update_ibm`: a `call` of a method runs the interpretation of the generated
sequence of that method's body (a raise, `some none`, ends the run with `none`); the flag and the cache it returns
are stored; any other call is unknown; the assignments are those of `Seq.sedStep` -/
def c08SedStep (c : Sed.Config α) (t : Int) (e : Sed.Env α) (xi : α) (numOthers : Nat) (s : C08SedSt α) :
    String → String → Option (C08SedSt α)
  | "call", "initialize" =>
    (runSedInitialize Gen.sed_initialize_seq numOthers e.newSink s.1.sinkVel).join.map
      (fun v => ({ s.1 with sinkVel := v }, s.2))
  | "call", "resuspend" =>
    (runSedResuspend Gen.sed_resuspend_seq s.2 t e s.1.active).join.map
      (fun r => ({ s.1 with active := r.1 }, r.2))
  | "call", "diffuse" =>
    (runSedDiffuse Gen.sed_diffuse_seq c s.2 t e xi s.1.active s.1.z).join.map
      (fun r => ({ s.1 with z := r.1 }, r.2))
  | "call", "sink" =>
    (runSedSink Gen.sed_sink_seq c.dt s.1.sinkVel s.1.active s.1.z).join.map
      (fun z => ({ s.1 with z := z }, s.2))
  | "call", "bury" =>
    (runSedBury Gen.sed_bury_seq e.H s.1.z s.1.active s.1.alive).join.map
      (fun r => ({ s.1 with z := r.1, active := r.2.1, alive := r.2.2 }, s.2))
  | "call", "kill_old" =>
    (runSedKillOld Gen.sed_kill_old_seq c.stateDt c.lifespan s.1.age s.1.alive).join.map
      (fun r => ({ s.1 with age := r.1, alive := r.2 }, s.2))
  | "call", _ => none
  | k, tx => (Seq.sedStep c e xi s.1 k tx).map (fun s' => (s', s.2))

/-- **the interpreted `update_ibm` of the sedimentation IBM** for one particle at step `t` (two levels: the statement
sequence of `update_ibm`, and of every method it calls): the particle and the cache afterwards -/
def c08SedUpdate (c : Sed.Config α) (t : Int) (e : Sed.Env α) (xi : α) (numOthers : Nat) (cache : Cache α)
    (p : Sed.Particle α) : Option (Sed.Particle α × Cache α) :=
  (Seq.run (fun s => Seq.sedAtom s.1) (c08SedStep c t e xi numOthers) Gen.sed_update_seq (SedSt.init p, cache)).map
    (fun s => (s.1.particle, s.2))

private theorem c08aux_store_resuspend (c : Sed.Config α) (e : Sed.Env α) (a : Nat) (hs : c.carrier.store a = a) :
    c.carrier.store (resuspend e a) = resuspend e a := by
  unfold resuspend
  cases e.taucrit with
  | none => exact hs
  | some tc => by_cases hle : tc ≤ shearStress (ustar e.ub e.vb) <;> simp [hle, hs, Bridge.store_one]

private theorem c08aux_storable_iff (k : Carrier) (a : Nat) : k.store a = a ↔ (k = .bool → a ≤ 1) := by
  cases k <;> simp [Carrier.store]
  split_ifs <;> omega

/-- composition of the bridges: the two-level interpretation is the model's `Sed.update` -/
private theorem c08aux_sed_code_eq_model (c : Sed.Config α) (t : Int) (e : Sed.Env α) (xi : α) (n : Nat) (cache : Cache α)
    (p : Sed.Particle α) (hc : cache.tstep < t) (hs' : c.carrier = .bool → p.active ≤ 1) :
    ∃ k, c08SedUpdate c t e xi n cache p = some (Sed.update c e xi p, k) ∧ k.tstep ≤ t := by
  have hs := (c08aux_storable_iff _ _).mpr hs'
  have hst := c08aux_store_resuspend c e p.active hs
  unfold resuspend at hst
  rcases ht : e.taucrit with _ | tc <;> rcases hm : c.mixing with _ | v | m <;>
  simp [c08SedUpdate, Seq.run, Seq.guardVal, Seq.sedAtom, c08SedStep, Seq.sedStep, Gen.sed_update_seq,
    Bridge.sed_initialize_seq, Bridge.sed_resuspend_seq_full, Bridge.sed_diffuse_seq_full, Bridge.sed_sink_seq,
    Bridge.sed_bury_seq, Bridge.sed_kill_old_seq, SedSt.init, SedSt.particle, Sed.update, Cache.get, hc, ht, hm,
    resuspend, diffuse] at hst ⊢
  all_goals simp [hst, le_of_lt hc]

/-- the variables of one mine particle together with the shear-velocity cache -/
abbrev C08MineSt (α : Type) := MineSt α × Cache α

/-- one statement of the mine `update_ibm`: `resuspend`, `diffuse`, `sink`, `bury`, `kill_old` run the interpretation
of the generated sequence of the method body; `reposition`, `store` and the assignments are those of `Seq.mineStep` -/
def c08MineStep (c : Mine.Config α) (t : Int) (e : Mine.Env α) (xi : α) (s : C08MineSt α) :
    String → String → Option (C08MineSt α)
  | "call", "resuspend" =>
    (runMineResuspend Gen.mine_resuspend_seq c s.2 t e s.1.act).join.map
      (fun r => ({ s.1 with act := r.1 }, r.2))
  | "call", "diffuse" =>
    (runMineDiffuse Gen.mine_diffuse_seq c.vdiff c.dt xi s.1.act s.1.z).join.map
      (fun z => ({ s.1 with z := z }, s.2))
  | "call", "sink" =>
    (runMineSink Gen.mine_sink_seq c.dt s.1.sinkVel e.w c.vadv s.1.act s.1.z).join.map
      (fun z => ({ s.1 with z := z }, s.2))
  | "call", "bury" =>
    (runMineBury Gen.mine_bury_seq c e.H s.1.z s.1.act s.1.alive).join.map
      (fun r => ({ s.1 with z := r.1, act := r.2.1, alive := r.2.2 }, s.2))
  | "call", "kill_old" =>
    (runMineKillOld Gen.mine_kill_old_seq c.stateDt c.lifespan s.1.age s.1.alive).join.map
      (fun r => ({ s.1 with age := r.1, alive := r.2 }, s.2))
  | k, tx => (Seq.mineStep c e xi s.1 k tx).map (fun s' => (s', s.2))

/-- **the interpreted `update_ibm` of the mine IBM** for one particle at step `t` -/
def c08MineUpdate (c : Mine.Config α) (t : Int) (e : Mine.Env α) (xi : α) (cache : Cache α)
    (p : Sed.Particle α) : Option (Sed.Particle α × Cache α) :=
  (Seq.run (fun s => Seq.mineAtom c s.1) (c08MineStep c t e xi) Gen.mine_update_seq (MineSt.init c p, cache)).map
    (fun s => (MineSt.particle c p s.1, s.2))

/-- composition of the bridges: the two-level interpretation is the model's `Sed.Mine.update` -/
private theorem c08aux_mine_code_eq_model (c : Mine.Config α) (t : Int) (e : Mine.Env α) (xi : α) (cache : Cache α)
    (p : Sed.Particle α) (hc : cache.tstep < t) (hA : c.hasActive = true ∨ c.taucrit = none)
    (hs' : c.hasActive = true → c.carrier = .bool → p.active ≤ 1) :
    ∃ k, c08MineUpdate c t e xi cache p = some (Mine.update c e xi p, k) ∧ k.tstep ≤ t := by
  have hs : c.hasActive = true → c.carrier.store p.active = p.active :=
    fun h => (c08aux_storable_iff _ _).mpr (hs' h)
  rcases ht : c.taucrit with _ | tc <;> rcases hh : c.hasActive with _ | _ <;>
  simp [c08MineUpdate, Seq.run, Seq.guardVal, Seq.mineAtom, c08MineStep, Seq.mineStep, Gen.mine_update_seq,
    Bridge.mine_resuspend_seq_full, Bridge.mine_diffuse_seq, Bridge.mine_sink_seq,
    Bridge.mine_bury_seq, Bridge.mine_kill_old_seq, MineSt.init, MineSt.particle, Mine.update, Cache.get, hc, ht, hh,
    Mine.resusp] at hA hs ⊢
  · exact le_of_lt hc
  · exact le_of_lt hc
  · have hst : c.carrier.store (if tc ≤ shearStress (ustar e.ub e.vb) then 1 else p.active)
        = if tc ≤ shearStress (ustar e.ub e.vb) then 1 else p.active := by
      split_ifs
      · exact Bridge.store_one _
      · exact hs
    simp [hst]

/-! ## sedimentation: the clauses -/

/-- depth of a mobile particle after `diffuse`, in the generated windows of the configured mixing function -/
def c08SedMixed (c : Sed.Config α) (e : Sed.Env α) (xi z : α) : α :=
  match c.mixing with
  | .none => z
  | .const v => Gen.sed_mix_const z e.H c.dt v xi
  | .boundedLinear m =>
    Gen.sed_mix_bounded_linear z e.H c.dt
      (Gen.sed_turbulence (Gen.sed_ustar e.ub e.vb) (max (e.H - z) 0) m).1
      (Gen.sed_turbulence (Gen.sed_ustar e.ub e.vb) (max (e.H - z) 0) m).2 xi

/-- depth of a mobile particle after `diffuse` and `sink`, before `bury` -/
def c08SedSunk (c : Sed.Config α) (e : Sed.Env α) (xi : α) (p : Sed.Particle α) : α :=
  c08SedMixed c e xi p.z + c.dt * (if p.sinkVel = 0 then e.newSink else p.sinkVel)

private theorem c08aux_isZero (x : α) : isZero x = true ↔ x = 0 := by
  unfold isZero
  lits
  simp only [Bool.not_eq_true', Bool.or_eq_false_iff, decide_eq_false_iff_not, not_lt]
  constructor
  · rintro ⟨h1, h2⟩; exact le_antisymm h2 h1
  · rintro rfl; simp

private theorem c08aux_sv (e : Sed.Env α) (p : Sed.Particle α) :
    C08.sv e p = if p.sinkVel = 0 then e.newSink else p.sinkVel := by
  unfold C08.sv
  by_cases h : p.sinkVel = 0
  · simp [h, (c08aux_isZero _).mpr]
  · have : isZero p.sinkVel = false := by
      rw [← Bool.not_eq_true]; exact fun h' => h ((c08aux_isZero _).mp h')
    simp [h, this]

private theorem c08aux_fmax (a : α) : fmax a (0.0 : α) = max a 0 := by
  unfold fmax; lits
  by_cases h : a < 0
  · simp [h, max_eq_right (le_of_lt h)]
  · simp [h, max_eq_left (not_lt.mp h)]

private theorem c08aux_diffuse (c : Sed.Config α) (e : Sed.Env α) (xi : α) (a : Nat) (z : α) (ha : a ≠ 0) :
    diffuse c e xi a z = c08SedMixed c e xi z := by
  unfold diffuse c08SedMixed
  cases c.mixing with
  | none => simp [ha]
  | const v =>
    simp only [ha, if_false]
    unfold mixConst Gen.sed_mix_const
    lits
    simp [mul_neg]
  | boundedLinear m =>
    simp only [ha, if_false]
    rw [← c08aux_fmax, ← Bridge.sed_ustar]
    unfold mixBoundedLinear Gen.sed_mix_bounded_linear Gen.sed_turbulence
    lits
    simp [mul_neg]

private theorem c08aux_a1_ne (c : Sed.Config α) (e : Sed.Env α) (p : Sed.Particle α) (ha : p.active ≠ 0) :
    C08.a1 c e p ≠ 0 := by
  unfold C08.a1 resuspend
  have h : ∀ n : Nat, n ≠ 0 → c.carrier.store n ≠ 0 := by
    intro n hn; cases c.carrier <;> simp [Carrier.store, hn]
  cases e.taucrit with
  | none => exact h _ ha
  | some tc =>
    show c.carrier.store (if tc ≤ shearStress (ustar e.ub e.vb) then 1 else p.active) ≠ 0
    split_ifs <;> [exact h _ one_ne_zero; exact h _ ha]

private theorem c08aux_zSunk (c : Sed.Config α) (e : Sed.Env α) (xi : α) (p : Sed.Particle α) (ha : C08.a1 c e p ≠ 0) :
    C08.zSunk c e xi p = c08SedSunk c e xi p := by
  rw [C08.sink_exact_mixing c e xi p ha, c08aux_diffuse c e xi _ _ ha, c08aux_sv]; rfl

/-- the value the flag array stores for "mobile, has rested on the bed before" -/
def c08Flag2 (k : Carrier) : Nat := if k = .numeric then 2 else 1

private theorem c08aux_store2 (k : Carrier) : k.store 2 = c08Flag2 k := by cases k <;> rfl

/-- **"A suspended particle sinks by exactly sinking velocity × time step (plus the configured mixing), and when it
reaches the sea bed it is placed exactly on the bed and marked settled."**  For a particle that is not settled
(`active ≠ 0`: never settled or has rested before), every mixing method, every draw: the interpreted update returns;
the sinking velocity is the stored one (a new particle, `sink_vel == 0`, gets `e.newSink`); with `zs = c08SedSunk` =
(depth after the configured mixing, in the generated windows) + `dt × w`: if `zs ≤ H` the particle is at `zs` and stays
mobile, if `zs > H` it is at `H` exactly and flagged 0.  Hypotheses: `hc`, `hs` (header). -/
theorem c08_sed_suspended_sinks_and_settles (c : Sed.Config α) (t : Int) (e : Sed.Env α) (xi : α) (n : Nat)
    (cache : Cache α) (p : Sed.Particle α) (hc : cache.tstep < t) (hs : c.carrier = .bool → p.active ≤ 1)
    (ha : p.active ≠ 0) :
    ∃ q k, c08SedUpdate c t e xi n cache p = some (q, k) ∧
      q.sinkVel = (if p.sinkVel = 0 then e.newSink else p.sinkVel) ∧
      (c08SedSunk c e xi p ≤ e.H → q.z = c08SedSunk c e xi p ∧ q.active ≠ 0) ∧
      (e.H < c08SedSunk c e xi p → q.z = e.H ∧ q.active = 0) := by
  obtain ⟨k, hk, _⟩ := c08aux_sed_code_eq_model c t e xi n cache p hc hs
  have ha1 := c08aux_a1_ne c e p ha
  refine ⟨_, k, hk, ?_, ?_, ?_⟩
  · rw [← c08aux_sv]; rfl
  · intro hz
    rw [← c08aux_zSunk c e xi p ha1] at hz ⊢
    exact C08.stays_suspended c e xi p ha1 hz
  · intro hz
    rw [← c08aux_zSunk c e xi p ha1] at hz
    exact C08.settle_on_bed c e xi p ha1 hz

/-- the same without mixing, above the bed: the new depth is `z + dt × w` exactly -/
theorem c08_sed_sinks_exactly_no_mixing (c : Sed.Config α) (t : Int) (e : Sed.Env α) (xi : α) (n : Nat)
    (cache : Cache α) (p : Sed.Particle α) (hc : cache.tstep < t) (hs : c.carrier = .bool → p.active ≤ 1)
    (ha : p.active ≠ 0) (hm : c.mixing = .none)
    (hz : p.z + c.dt * (if p.sinkVel = 0 then e.newSink else p.sinkVel) ≤ e.H) :
    ∃ q k, c08SedUpdate c t e xi n cache p = some (q, k) ∧
      q.z = p.z + c.dt * (if p.sinkVel = 0 then e.newSink else p.sinkVel) ∧ q.active ≠ 0 := by
  obtain ⟨q, k, hk, _, h1, _⟩ := c08_sed_suspended_sinks_and_settles c t e xi n cache p hc hs ha
  have hsunk : c08SedSunk c e xi p = p.z + c.dt * (if p.sinkVel = 0 then e.newSink else p.sinkVel) := by
    unfold c08SedSunk c08SedMixed; rw [hm]
  rw [hsunk] at h1
  exact ⟨q, k, hk, h1 hz⟩

/-- **"a settled particle keeps its position until the bed shear stress (1000 × 0.003 × bottom speed squared) reaches
the local critical stress … and never resuspends when no critical stress is configured"**: a settled particle
(`active = 0`) with no critical stress, or with `1000·0.003·(u² + v²) < taucrit`, has the same depth and flag 0 after
the update, whatever mixing, draw and sinking velocity.  Hypotheses: `hc`; `hS` (header). -/
theorem c08_sed_settled_rests (hS : SqrtLaws α) (c : Sed.Config α) (t : Int) (e : Sed.Env α) (xi : α) (n : Nat)
    (cache : Cache α) (p : Sed.Particle α) (hc : cache.tstep < t) (h0 : p.active = 0)
    (hq : e.taucrit = none ∨ ∃ tc, e.taucrit = some tc ∧ 1000 * (0.003 * (e.ub * e.ub + e.vb * e.vb)) < tc) :
    ∃ q k, c08SedUpdate c t e xi n cache p = some (q, k) ∧ q.z = p.z ∧ q.active = 0 := by
  have hs : c.carrier = .bool → p.active ≤ 1 := fun _ => by rw [h0]; omega
  obtain ⟨k, hk, _⟩ := c08aux_sed_code_eq_model c t e xi n cache p hc hs
  refine ⟨_, k, hk, ?_⟩
  apply C08.settled_rests c e xi p h0
  rw [C08.tau_formula hS]
  exact hq

/-- **"never resuspends when no critical stress is configured"** (no law of `sqrt` needed) -/
theorem c08_sed_never_resuspends_without_taucrit (c : Sed.Config α) (t : Int) (e : Sed.Env α) (xi : α) (n : Nat)
    (cache : Cache α) (p : Sed.Particle α) (hc : cache.tstep < t) (h0 : p.active = 0) (hq : e.taucrit = none) :
    ∃ q k, c08SedUpdate c t e xi n cache p = some (q, k) ∧ q.z = p.z ∧ q.active = 0 := by
  have hs : c.carrier = .bool → p.active ≤ 1 := fun _ => by rw [h0]; omega
  obtain ⟨k, hk, _⟩ := c08aux_sed_code_eq_model c t e xi n cache p hc hs
  exact ⟨_, k, hk, C08.settled_rests c e xi p h0 (Or.inl hq)⟩

/-- **resuspension, exact rule**: a settled particle with critical stress `tc` is mobile after the update iff
`tc ≤ 1000·0.003·(u² + v²)` and it does not sink below the bed again in the same step (`zs ≤ H`); when the stress
reaches `tc` it is mixed and sinks like a suspended particle, and its flag is the code's "has rested before" value:
2 in a numeric flag array, 1 (`True`) in a boolean one (`c08Flag2`); re-buried: at `H`, flag 0. -/
theorem c08_sed_resuspends_iff (hS : SqrtLaws α) (c : Sed.Config α) (t : Int) (e : Sed.Env α) (xi : α) (n : Nat)
    (cache : Cache α) (p : Sed.Particle α) (tc : α) (hc : cache.tstep < t) (h0 : p.active = 0)
    (ht : e.taucrit = some tc) :
    ∃ q k, c08SedUpdate c t e xi n cache p = some (q, k) ∧
      (q.active ≠ 0 ↔ (tc ≤ 1000 * (0.003 * (e.ub * e.ub + e.vb * e.vb)) ∧ c08SedSunk c e xi p ≤ e.H)) ∧
      (tc ≤ 1000 * (0.003 * (e.ub * e.ub + e.vb * e.vb)) →
        (c08SedSunk c e xi p ≤ e.H → q.z = c08SedSunk c e xi p ∧ q.active = c08Flag2 c.carrier) ∧
        (e.H < c08SedSunk c e xi p → q.z = e.H ∧ q.active = 0)) := by
  have hs : c.carrier = .bool → p.active ≤ 1 := fun _ => by rw [h0]; omega
  obtain ⟨k, hk, _⟩ := c08aux_sed_code_eq_model c t e xi n cache p hc hs
  refine ⟨_, k, hk, ?_, ?_⟩
  · by_cases hle : tc ≤ 1000 * (0.003 * (e.ub * e.ub + e.vb * e.vb))
    · have ha1 : C08.a1 c e p ≠ 0 := by
        unfold C08.a1 resuspend; rw [ht]
        simp only [C08.tau_formula hS, hle, if_true, Bridge.store_one]; exact one_ne_zero
      rw [C08.resuspends_iff c e xi p tc h0 ht, C08.tau_formula hS, c08aux_zSunk c e xi p ha1, not_lt]
    · rw [C08.resuspends_iff c e xi p tc h0 ht, C08.tau_formula hS]
      simp [hle]
  · intro hle
    have ha1' : C08.a1 c e p = 1 := by
      unfold C08.a1 resuspend; rw [ht]
      simp only [C08.tau_formula hS, hle, if_true, Bridge.store_one]
    have ha1 : C08.a1 c e p ≠ 0 := by rw [ha1']; exact one_ne_zero
    rw [← c08aux_zSunk c e xi p ha1]
    refine ⟨fun hz => ⟨(C08.stays_suspended c e xi p ha1 hz).1, ?_⟩, fun hz => C08.settle_on_bed c e xi p ha1 hz⟩
    rw [C08.update_active]
    have hb : bury e.H (C08.a1 c e p) (C08.zSunk c e xi p) = (C08.zSunk c e xi p, 1) := by
      unfold bury; simp [ha1, not_lt.mpr hz]
    rw [hb, ← c08aux_store2]
    simp [h0]

/-! ### flags, histories -/

private theorem c08aux_flag_bool (c : Sed.Config α) (e : Sed.Env α) (xi : α) (p : Sed.Particle α) (hb : c.carrier = .bool) :
    (Sed.update c e xi p).active ≤ 1 := by
  unfold Sed.update
  simp only [hb, Carrier.store]
  unfold bury
  split_ifs <;> simp_all

/-- **"Particles that have rested on the bed before are flagged distinctly from never-settled ones when the activity
flag can hold more than two values"**: after an update a numeric flag is 0, 1 or 2; it is 2 exactly for the mobile
particles whose flag was not 1 before (settled or rested before); a flag that is not 1 never becomes 1 again; a
boolean flag stays in {0, 1}.  Also: the cache counter afterwards is at most `t`. -/
theorem c08_sed_flag_values (c : Sed.Config α) (t : Int) (e : Sed.Env α) (xi : α) (n : Nat)
    (cache : Cache α) (p : Sed.Particle α) (hc : cache.tstep < t) (hs : c.carrier = .bool → p.active ≤ 1) :
    ∃ q k, c08SedUpdate c t e xi n cache p = some (q, k) ∧ k.tstep ≤ t ∧
      (c.carrier = .numeric → q.active ≤ 2 ∧ (q.active = 2 ↔ (q.active ≠ 0 ∧ p.active ≠ 1)) ∧
        (p.active ≠ 1 → q.active ≠ 1)) ∧
      (c.carrier = .bool → q.active ≤ 1) := by
  obtain ⟨k, hk, hk'⟩ := c08aux_sed_code_eq_model c t e xi n cache p hc hs
  exact ⟨_, k, hk, hk',
    fun hn => ⟨C08.flag_range c e xi p hn, C08.flag_distinct c e xi p hn, C08.flag_never_back_to_one c e xi p hn⟩,
    c08aux_flag_bool c e xi p⟩

/-- consecutive updates of one particle: step counter, environment, normal draw and number of other new particles
of every update; the cache is handed from update to update -/
def c08SedRun (c : Sed.Config α) : List (Int × Sed.Env α × α × Nat) → Sed.Particle α × Cache α →
    Option (Sed.Particle α × Cache α)
  | [], s => some s
  | st :: rest, s => (c08SedUpdate c st.1 st.2.1 st.2.2.1 st.2.2.2 s.2 s.1).bind (c08SedRun c rest)

/-- **flags over any number of consecutive updates** (steps strictly increasing, all after the cached step): the
interpreted run returns, the flag stays in its value set ({0,1,2} numeric, {0,1} boolean), and a particle that has
rested on the bed (flag ≠ 1) is never flagged "never settled" again. -/
theorem c08_sed_flag_history (c : Sed.Config α) (steps : List (Int × Sed.Env α × α × Nat))
    (hinc : steps.Pairwise (fun a b => a.1 < b.1)) :
    ∀ (cache : Cache α) (p : Sed.Particle α), (∀ st ∈ steps, cache.tstep < st.1) →
      (c.carrier = .bool → p.active ≤ 1) →
      ∃ q k, c08SedRun c steps (p, cache) = some (q, k) ∧
        (c.carrier = .numeric → (p.active ≤ 2 → q.active ≤ 2) ∧ (p.active ≠ 1 → q.active ≠ 1)) ∧
        (c.carrier = .bool → q.active ≤ 1) := by
  induction steps with
  | nil =>
    intro cache p _ hs
    exact ⟨p, cache, rfl, fun _ => ⟨id, id⟩, hs⟩
  | cons st rest ih =>
    intro cache p h0 hs
    rw [List.pairwise_cons] at hinc
    obtain ⟨q1, k1, h1, hk1, hn1, hb1⟩ :=
      c08_sed_flag_values c st.1 st.2.1 st.2.2.1 st.2.2.2 cache p (h0 st (by simp)) hs
    obtain ⟨q, k, h2, hn2, hb2⟩ := ih hinc.2 k1 q1
      (fun s hs' => lt_of_le_of_lt hk1 (hinc.1 s hs')) hb1
    refine ⟨q, k, ?_, ?_, hb2⟩
    · simp only [c08SedRun, h1, Option.bind_some, h2]
    · intro hn
      exact ⟨fun _ => (hn2 hn).1 (hn1 hn).1, fun hp => (hn2 hn).2 ((hn1 hn).2.2 hp)⟩

/-- **a settled particle keeps its position over any number of consecutive updates** during which the bed shear stress
stays below the critical stress (or none is configured) -/
theorem c08_sed_rests_history (hS : SqrtLaws α) (c : Sed.Config α) (steps : List (Int × Sed.Env α × α × Nat))
    (hinc : steps.Pairwise (fun a b => a.1 < b.1))
    (hq : ∀ st ∈ steps, st.2.1.taucrit = none ∨ ∃ tc, st.2.1.taucrit = some tc ∧
      1000 * (0.003 * (st.2.1.ub * st.2.1.ub + st.2.1.vb * st.2.1.vb)) < tc) :
    ∀ (cache : Cache α) (p : Sed.Particle α), (∀ st ∈ steps, cache.tstep < st.1) → p.active = 0 →
      ∃ q k, c08SedRun c steps (p, cache) = some (q, k) ∧ q.z = p.z ∧ q.active = 0 := by
  induction steps with
  | nil => intro cache p _ h0; exact ⟨p, cache, rfl, rfl, h0⟩
  | cons st rest ih =>
    intro cache p hc h0
    rw [List.pairwise_cons] at hinc
    have hs : c.carrier = .bool → p.active ≤ 1 := fun _ => by rw [h0]; omega
    obtain ⟨q1, k1, h1, hk1, _⟩ := c08_sed_flag_values c st.1 st.2.1 st.2.2.1 st.2.2.2 cache p (hc st (by simp)) hs
    obtain ⟨q1', k1', h1', hz1, ha1⟩ :=
      c08_sed_settled_rests hS c st.1 st.2.1 st.2.2.1 st.2.2.2 cache p (hc st (by simp)) h0 (hq st (by simp))
    rw [h1] at h1'
    obtain ⟨rfl, rfl⟩ := Prod.mk.inj (Option.some.inj h1')
    obtain ⟨q, k, h2, hz2, ha2⟩ := ih hinc.2 (fun s hs' => hq s (by simp [hs'])) k1 q1
      (fun s hs' => lt_of_le_of_lt hk1 (hinc.1 s hs')) ha1
    exact ⟨q, k, by simp only [c08SedRun, h1, Option.bind_some, h2], hz2.trans hz1, ha2⟩

/-! ### the method `resuspend` and the shear-velocity cache -/

/-- **the method `resuspend` alone**: without critical stress nothing changes (flag, cache); with `tc`: the flag
becomes 1 (`True`) if `tc ≤ 1000·0.003·(u² + v²)` and is unchanged if the stress is smaller; the cache then holds the
current step and the current bottom shear velocity `Gen.sed_ustar u v`. -/
theorem c08_sed_resuspend_method (hS : SqrtLaws α) (cache : Cache α) (t : Int) (e : Sed.Env α) (a : Nat)
    (hc : cache.tstep < t) :
    ∃ a' k, runSedResuspend Gen.sed_resuspend_seq cache t e a = some (some (a', k)) ∧
      (e.taucrit = none → a' = a ∧ k = cache) ∧
      (∀ tc, e.taucrit = some tc →
        (tc ≤ 1000 * (0.003 * (e.ub * e.ub + e.vb * e.vb)) → a' = 1) ∧
        (1000 * (0.003 * (e.ub * e.ub + e.vb * e.vb)) < tc → a' = a) ∧
        k.tstep = t ∧ k.value = Gen.sed_ustar e.ub e.vb) := by
  rw [Bridge.sed_resuspend_seq cache t e a (Or.inl hc)]
  refine ⟨_, _, rfl, ?_, ?_⟩
  · intro h; simp [resuspend, h]
  · intro tc h
    simp only [resuspend, h, C08.tau_formula hS, Option.isSome_some, if_true, Cache.get, hc, ← Bridge.sed_ustar]
    refine ⟨fun hle => by simp [hle], fun hlt => by simp [not_le.mpr hlt], ?_⟩
    exact ⟨trivial, trivial⟩

/-- **shear-velocity cache**: the first lookup at a new step computes `sqrt(0.003 (u² + v²))` from the current bottom
velocity and stores the step -/
theorem c08_sed_shear_velocity_new_step (cache : Cache α) (t : Int) (H ub vb : α) (h : cache.tstep < t) :
    runSedShearVelocity Gen.sed_shear_velocity_seq cache t H ub vb
      = some (some (⟨t, Gen.sed_ustar ub vb⟩, Gen.sed_ustar ub vb)) := by
  rw [Bridge.sed_shear_velocity_seq]; simp [Cache.get, h, ← Bridge.sed_ustar]

/-- a further lookup within the same step returns the cached value and leaves the cache as it is -/
theorem c08_sed_shear_velocity_same_step (cache : Cache α) (H ub vb : α) :
    runSedShearVelocity Gen.sed_shear_velocity_seq cache cache.tstep H ub vb = some (some (cache, cache.value)) :=
  Bridge.sed_shear_velocity_same_step cache H ub vb

theorem c08_mine_shear_velocity_new_step (cache : Cache α) (t : Int) (H ub vb : α) (h : cache.tstep < t) :
    runMineShearVelocity Gen.mine_shear_velocity_seq cache t H ub vb
      = some (some (⟨t, Gen.mine_ustar ub vb⟩, Gen.mine_ustar ub vb)) := by
  rw [Bridge.mine_shear_velocity_seq]; simp [Cache.get, h, ← Bridge.mine_ustar]

theorem c08_mine_shear_velocity_same_step (cache : Cache α) (H ub vb : α) :
    runMineShearVelocity Gen.mine_shear_velocity_seq cache cache.tstep H ub vb = some (some (cache, cache.value)) :=
  Bridge.mine_shear_velocity_same_step cache H ub vb

/-- a sequence of lookups `(step, depth, u, v)`, the cache handed on: the returned values -/
def c08SedUstarRun : List (Int × α × α × α) → Cache α → Option (List α)
  | [], _ => some []
  | st :: rest, cache =>
    match runSedShearVelocity Gen.sed_shear_velocity_seq cache st.1 st.2.1 st.2.2.1 st.2.2.2 with
    | some (some (k, v)) => (c08SedUstarRun rest k).map (v :: ·)
    | _ => none

/-- **the shear-velocity cache returns the value of the current step** over any run of lookups at strictly
increasing steps (all after the cached step), whatever the velocities -/
theorem c08_sed_shear_velocity_history (steps : List (Int × α × α × α))
    (hinc : steps.Pairwise (fun a b => a.1 < b.1)) :
    ∀ cache : Cache α, (∀ st ∈ steps, cache.tstep < st.1) →
      c08SedUstarRun steps cache = some (steps.map (fun st => Gen.sed_ustar st.2.2.1 st.2.2.2)) := by
  induction steps with
  | nil => intro _ _; rfl
  | cons st rest ih =>
    intro cache h0
    rw [List.pairwise_cons] at hinc
    have h1 := c08_sed_shear_velocity_new_step cache st.1 st.2.1 st.2.2.1 st.2.2.2 (h0 st (by simp))
    simp only [c08SedUstarRun, h1, List.map_cons]
    rw [ih hinc.2 _ (fun s hs => hinc.1 s hs)]
    rfl

/-! ### the critical stress function (`get_taucrit_fn`, `get_taucrit_fn_grain_size`) -/
section taucrit
variable [HasTrunc α] [HasNarrow α]

/-- `get_taucrit_fn(None)` is `None` -/
theorem c08_sed_taucrit_fn_absent (openDs : String → Option (SfDataset α)) :
    sedTaucritFnSeq openDs (.none : SfConf α) = some (some none) := by
  rw [Bridge.sed_get_taucrit_fn]; rfl

/-- a number, or `{method: constant, value: v}`: the constant function `v` -/
theorem c08_sed_taucrit_fn_constant (openDs : String → Option (SfDataset α)) (v : α) (md : Option α)
    (src vn : Option String) :
    ∃ f, sedTaucritFnSeq openDs (.num v) = some (some (some f)) ∧
      sedTaucritFnSeq openDs (.dict ⟨some "constant", some v, md, src, vn⟩) = some (some (some f)) ∧
      ∀ lon lat, f lon lat = some (some v) := by
  refine ⟨Bridge.sfTauConst v, ?_, ?_, fun lon lat => Bridge.sf_tau_const_field v lon lat⟩
  · rw [Bridge.sed_get_taucrit_fn]; rfl
  · rw [Bridge.sed_get_taucrit_fn]; simp [Bridge.sfTaucritSpec]

/-- the generated window of `taucrit_poly` is the polynomial of the property -/
theorem c08_taucrit_poly_formula (sed : α) :
    Gen.sed_taucrit_poly sed = if sed = 0 then 0.12 else 6e-6 * (sed * sed) + 3e-5 * sed + 0.0591 := by
  unfold Gen.sed_taucrit_poly Gen.feq
  lits
  by_cases h : sed = 0
  · simp [h]
  · rcases lt_or_gt_of_ne h with h1 | h1
    · simp [h, h1, not_lt.mpr (le_of_lt h1)]; norm_num
    · simp [h, h1, not_lt.mpr (le_of_lt h1)]; norm_num

/-- `j` is a cell index the code may select along a raster axis with first coordinate `x0`, spacing `dx` and `n`
cells for the coordinate `x` (`t = (x - x0) / dx` is the position in cell units): it lies in the raster; for a
position inside the raster extent it is the nearest cell (`|t - j| ≤ 1/2`); beyond the last coordinate it is the last
cell; within half a cell around the first coordinate it is the first cell -/
def c08NearestIdx (x0 dx x : α) (n : Nat) (j : Int) : Prop :=
  0 ≤ j ∧ j < n ∧
  (0 ≤ (x - x0) / dx → (x - x0) / dx ≤ (n : α) - 1 → |(x - x0) / dx - (j : α)| ≤ 1 / 2) ∧
  ((n : α) - 1 ≤ (x - x0) / dx → j = (n : Int) - 1) ∧
  (-(1 / 2) < (x - x0) / dx → (x - x0) / dx < 1 / 2 → j = 0)

/-- the threshold table of `taucrit_bin` (the array is `float32`: `narrow`) -/
def c08BinTable (sed tc : α) : Prop :=
  (sed = 0 → tc = narrow 0.12) ∧ (0 < sed → sed < 70 → tc = narrow 0.06) ∧
  (70 ≤ sed → sed ≤ 180 → tc = narrow 0.12) ∧ (180 < sed → tc = narrow 0.32)

private theorem c08aux_nearest_idx (hT : C08.TruncLaw α) (x0 dx x : α) (n : Nat) (hn : 0 < n) :
    c08NearestIdx x0 dx x n (nearestCell x0 dx ((n : Int) - 1) x) := by
  have hr := C08.nearest_cell_clamped x0 dx x ((n : Int) - 1) (by omega)
  refine ⟨hr.1, by omega, fun h0 h1 => ?_, fun h1 => ?_, fun h0 h1 => ?_⟩
  · exact C08.nearest_cell_is_nearest hT x0 dx x ((n : Int) - 1) h0 (by push_cast; exact h1) (by omega)
  · unfold nearestCell clipInt
    set t := (x - x0) / dx
    have hn1 : (1 : α) ≤ (n : α) := by exact_mod_cast hn
    obtain ⟨hl, hu⟩ := hT (0.5 + t) (by norm_num; linarith)
    set k := trunc (0.5 + t)
    norm_num at hl hu
    have hk : (n : Int) - 1 ≤ k := by
      by_contra hneg
      have : k + 1 ≤ (n : Int) - 1 := by omega
      have : (k : α) + 1 ≤ (n : α) - 1 := by exact_mod_cast this
      linarith
    rw [if_neg (by omega)]
    split_ifs <;> omega
  · unfold nearestCell clipInt
    set t := (x - x0) / dx
    obtain ⟨hl, hu⟩ := hT (0.5 + t) (by norm_num; linarith)
    set k := trunc (0.5 + t)
    norm_num at hl hu
    have hk0 : k = 0 := by
      have h1' : (k : α) < 1 := by linarith
      have h2' : (-1 : α) < (k : α) := by linarith
      have h1'' : k < 1 := by exact_mod_cast h1'
      have h2'' : -1 < k := by exact_mod_cast h2'
      omega
    rw [hk0]
    simp
    omega

/-- **"derived from the grain-size map cell nearest to it"**: for `{method: grain_size_bin | grain_size_poly, source,
varname}` the interpreted `get_taucrit_fn` returns a function whose value at `(lon, lat)` is taken from the raster
cell `[j, i]` (a NaN cell reads 0) with `j`, `i` as in `c08NearestIdx` along the latitude / longitude axis; `poly`:
the generated window `Gen.sed_taucrit_poly` (`c08_taucrit_poly_formula`: 0.12 at 0, else 6e-6 s² + 3e-5 s + 0.0591);
`bin`: the `float32` table 0.12 / 0.06 / 0.12 / 0.32 (`c08BinTable`).  PARTIAL: see the header (positions more than
half a cell before the first coordinate).  Hypotheses: the file content is well formed (else the code raises);
`hT`. -/
theorem c08_sed_taucrit_fn_grain_size_partial (hT : C08.TruncLaw α) (openDs : String → Option (SfDataset α))
    (d : SfDataset α) (g : SfGrid2 α) (src vn : String) (la0 la1 lo0 lo1 : α) (lar lor : List α)
    (val md : Option α)
    (hd : openDs src = some d) (hg : d.dataVars vn = some g)
    (hla : d.latitude = la0 :: la1 :: lar) (hlo : d.longitude = lo0 :: lo1 :: lor)
    (hs0 : 0 < g.shape0) (hs1 : 0 < g.shape1) (lon lat : α) :
    ∃ fb fp,
      sedTaucritFnSeq openDs (.dict ⟨some "grain_size_bin", val, md, some src, some vn⟩) = some (some (some fb)) ∧
      sedTaucritFnSeq openDs (.dict ⟨some "grain_size_poly", val, md, some src, some vn⟩) = some (some (some fp)) ∧
      ∃ j i : Int, c08NearestIdx la0 (la1 - la0) lat g.shape0 j ∧ c08NearestIdx lo0 (lo1 - lo0) lon g.shape1 i ∧
        fp lon lat = some (some (Gen.sed_taucrit_poly ((g.val j.toNat i.toNat).getD 0))) ∧
        ∃ tcb, fb lon lat = some (some tcb) ∧ c08BinTable ((g.val j.toNat i.toNat).getD 0) tcb := by
  have hjx := c08aux_nearest_idx hT la0 (la1 - la0) lat g.shape0 hs0
  have hix := c08aux_nearest_idx hT lo0 (lo1 - lo0) lon g.shape1 hs1
  set j := nearestCell la0 (la1 - la0) ((g.shape0 : Int) - 1) lat with hjdef
  set i := nearestCell lo0 (lo1 - lo0) ((g.shape1 : Int) - 1) lon with hidef
  have hcell : sfCell g j i = some (g.val j.toNat i.toNat) := by
    unfold sfCell; rw [if_pos ⟨hjx.1, hjx.2.1, hix.1, hix.2.1⟩]
  have hgeom : Bridge.sfGrainGeom openDs src vn = some (g, la0, la1 - la0, lo0, lo1 - lo0) := by
    simp [Bridge.sfGrainGeom, hd, hg, hla, hlo, Bridge.sfAxis]
  have hsv : Bridge.sfSedValue g la0 (la1 - la0) lo0 (lo1 - lo0) lon lat = some ((g.val j.toNat i.toNat).getD 0) := by
    unfold Bridge.sfSedValue; rw [← hjdef, ← hidef, hcell]; lits; rfl
  refine ⟨fun lon lat => some ((Bridge.sfSedValue g la0 (la1 - la0) lo0 (lo1 - lo0) lon lat).map taucritBinF32),
    fun lon lat => some ((Bridge.sfSedValue g la0 (la1 - la0) lo0 (lo1 - lo0) lon lat).map taucritPoly), ?_, ?_,
    j, i, hjx, hix, ?_, taucritBinF32 ((g.val j.toNat i.toNat).getD 0), ?_,
    Bridge.sf_taucrit_bin_f32_table _⟩
  · rw [Bridge.sed_get_taucrit_fn]; simp [Bridge.sfTaucritSpec, Bridge.sfGrainSpec, hgeom]
  · rw [Bridge.sed_get_taucrit_fn]; simp [Bridge.sfTaucritSpec, Bridge.sfGrainSpec, hgeom]
  · simp only [hsv, Option.map_some, Bridge.sf_taucrit_poly_gen]
  · simp only [hsv, Option.map_some]

end taucrit

/-! ## mine: the clauses -/

/-- depth of a mobile mine particle after `diffuse` and `sink`, before `bury`, in the generated windows -/
def c08MineSunk (c : Mine.Config α) (e : Mine.Env α) (xi : α) (p : Sed.Particle α) : α :=
  if c.vadv then Gen.mine_sink_vadv (Gen.mine_mix p.z c.vdiff c.dt xi) p.sinkVel c.dt e.w
  else Gen.mine_sink (Gen.mine_mix p.z c.vdiff c.dt xi) p.sinkVel c.dt

private theorem c08aux_mine_sunk (c : Mine.Config α) (e : Mine.Env α) (xi : α) (p : Sed.Particle α) (a : Nat) (ha : a ≠ 0) :
    sink c.dt (if c.vadv then p.sinkVel + e.w else p.sinkVel) a (mixMine c.vdiff c.dt xi p.z)
      = c08MineSunk c e xi p := by
  have hm : mixMine c.vdiff c.dt xi p.z = Gen.mine_mix p.z c.vdiff c.dt xi := by
    unfold mixMine Gen.mine_mix; lits; simp [mul_neg]
  unfold sink c08MineSunk Gen.mine_sink_vadv Gen.mine_sink
  rw [hm]
  cases c.vadv <;> simp [ha]

private theorem c08aux_store_ne (k : Carrier) (n : Nat) (hn : n ≠ 0) : k.store n ≠ 0 := by
  cases k <;> simp [Carrier.store, hn]

private theorem c08aux_mine_a1_ne (c : Mine.Config α) (e : Mine.Env α) (a : Nat) (ha : a ≠ 0) : Mine.resusp c e a ≠ 0 := by
  unfold Mine.resusp
  cases c.taucrit with
  | none => exact ha
  | some tc =>
    show c.carrier.store (if tc ≤ shearStress (ustar e.ub e.vb) then 1 else a) ≠ 0
    split_ifs <;> [exact c08aux_store_ne _ _ one_ne_zero; exact c08aux_store_ne _ _ ha]

/-- the model's update of a particle that is mobile after `resuspend` -/
private theorem c08aux_mine_update_mobile (c : Mine.Config α) (e : Mine.Env α) (xi : α) (p : Sed.Particle α)
    (ha1 : Mine.resusp c e (if c.hasActive then p.active else 1) ≠ 0) :
    Mine.update c e xi p =
      ⟨if e.H < c08MineSunk c e xi p then e.H else c08MineSunk c e xi p,
       if c.hasActive then
         (if e.H < c08MineSunk c e xi p then 0 else if p.active ≠ 1 then c.carrier.store 2 else 1)
       else p.active,
       (if c.taucrit.isNone then p.alive && decide (¬ e.H < c08MineSunk c e xi p) else p.alive)
         && decide (p.age + c.stateDt ≤ c.lifespan),
       p.age + c.stateDt, p.sinkVel⟩ := by
  have hsunk := c08aux_mine_sunk c e xi p _ ha1
  unfold Mine.update
  simp only [ha1, if_false, hsunk]
  unfold bury
  simp only [ha1, if_false]
  cases hh : c.hasActive <;> by_cases hz : e.H < c08MineSunk c e xi p <;> simp [hh] at ha1 <;>
    simp [hh, hz, ha1]

/-- **mine: sinking, settling, leaving.**  A mobile particle (`self.active() ≠ 0`; 1 for every particle when the state
has no variable `active`) is at `zs = c08MineSunk` = `Gen.mine_mix` + `dt × w` (`w` plus the vertical water velocity
when `vertical_advection`) if `zs ≤ H`, stays mobile, and `alive` is changed by the age limit only; if `zs > H` it is
at `H` exactly, flagged 0 (if there is a flag), and **without resuspension it leaves the simulation**
(`alive = False`), with resuspension it stays.  Hypotheses: `hc`, `hA`, `hs` (header). -/
theorem c08_mine_suspended_sinks_and_settles (c : Mine.Config α) (t : Int) (e : Mine.Env α) (xi : α)
    (cache : Cache α) (p : Sed.Particle α) (hc : cache.tstep < t) (hA : c.hasActive = true ∨ c.taucrit = none)
    (hs : c.hasActive = true → c.carrier = .bool → p.active ≤ 1) (ha : c.hasActive = true → p.active ≠ 0) :
    ∃ q k, c08MineUpdate c t e xi cache p = some (q, k) ∧
      (c08MineSunk c e xi p ≤ e.H → q.z = c08MineSunk c e xi p ∧ (c.hasActive = true → q.active ≠ 0) ∧
        q.alive = (p.alive && decide (p.age + c.stateDt ≤ c.lifespan))) ∧
      (e.H < c08MineSunk c e xi p → q.z = e.H ∧ (c.hasActive = true → q.active = 0) ∧
        (c.taucrit = none → q.alive = false) ∧
        (c.taucrit ≠ none → q.alive = (p.alive && decide (p.age + c.stateDt ≤ c.lifespan)))) := by
  obtain ⟨k, hk, _⟩ := c08aux_mine_code_eq_model c t e xi cache p hc hA hs
  refine ⟨_, k, hk, ?_⟩
  have ha0 : (if c.hasActive then p.active else 1) ≠ 0 := by
    cases hh : c.hasActive <;> simp [hh] at ha ⊢
    exact ha
  rw [c08aux_mine_update_mobile c e xi p (c08aux_mine_a1_ne c e _ ha0)]
  constructor
  · intro hz
    have hz' := not_lt.mpr hz
    refine ⟨by simp [hz'], fun hh => ?_, ?_⟩
    · simp only [hh, hz', if_true, if_false]
      split_ifs <;> [exact c08aux_store_ne _ _ (by norm_num); exact one_ne_zero]
    · cases c.taucrit <;> simp [hz']
  · intro hz
    refine ⟨by simp [hz], fun hh => by simp [hh, hz], fun ht => by simp [ht, hz], fun ht => ?_⟩
    cases htc : c.taucrit with
    | none => exact absurd htc ht
    | some tc => simp

/-- the mining variant without resuspension: a particle that reaches the bed leaves the simulation -/
theorem c08_mine_settled_leaves (c : Mine.Config α) (t : Int) (e : Mine.Env α) (xi : α)
    (cache : Cache α) (p : Sed.Particle α) (hc : cache.tstep < t) (ht : c.taucrit = none)
    (hs : c.hasActive = true → c.carrier = .bool → p.active ≤ 1) (ha : c.hasActive = true → p.active ≠ 0)
    (hz : e.H < c08MineSunk c e xi p) :
    ∃ q k, c08MineUpdate c t e xi cache p = some (q, k) ∧ q.z = e.H ∧ q.alive = false := by
  obtain ⟨q, k, hk, _, h2⟩ := c08_mine_suspended_sinks_and_settles c t e xi cache p hc (Or.inr ht) hs ha
  exact ⟨q, k, hk, (h2 hz).1, (h2 hz).2.2.1 ht⟩

private theorem c08aux_mine_update_settled (c : Mine.Config α) (e : Mine.Env α) (xi : α) (p : Sed.Particle α)
    (hh : c.hasActive = true) (ha1 : Mine.resusp c e p.active = 0) :
    (Mine.update c e xi p).z = p.z ∧ (Mine.update c e xi p).active = 0 := by
  unfold Mine.update
  simp only [hh, if_true, ha1]
  unfold sink bury
  simp

/-- mine: a settled particle rests while `1000·0.003·(u² + v²) < taucrit` (or no resuspension is configured) -/
theorem c08_mine_settled_rests (hS : SqrtLaws α) (c : Mine.Config α) (t : Int) (e : Mine.Env α) (xi : α)
    (cache : Cache α) (p : Sed.Particle α) (hc : cache.tstep < t) (hh : c.hasActive = true) (h0 : p.active = 0)
    (hq : c.taucrit = none ∨ ∃ tc, c.taucrit = some tc ∧ 1000 * (0.003 * (e.ub * e.ub + e.vb * e.vb)) < tc) :
    ∃ q k, c08MineUpdate c t e xi cache p = some (q, k) ∧ q.z = p.z ∧ q.active = 0 := by
  have hs : c.hasActive = true → c.carrier = .bool → p.active ≤ 1 := fun _ _ => by rw [h0]; omega
  obtain ⟨k, hk, _⟩ := c08aux_mine_code_eq_model c t e xi cache p hc (Or.inl hh) hs
  refine ⟨_, k, hk, c08aux_mine_update_settled c e xi p hh ?_⟩
  unfold Mine.resusp
  rcases hq with h | ⟨tc, h, hlt⟩
  · rw [h]; exact h0
  · rw [h]
    simp only [C08.tau_formula hS, not_le.mpr hlt, if_false, h0, Bridge.store_zero]

/-- mine: exact resuspension rule, as `c08_sed_resuspends_iff` -/
theorem c08_mine_resuspends_iff (hS : SqrtLaws α) (c : Mine.Config α) (t : Int) (e : Mine.Env α) (xi : α)
    (cache : Cache α) (p : Sed.Particle α) (tc : α) (hc : cache.tstep < t) (hh : c.hasActive = true)
    (h0 : p.active = 0) (ht : c.taucrit = some tc) :
    ∃ q k, c08MineUpdate c t e xi cache p = some (q, k) ∧
      (q.active ≠ 0 ↔ (tc ≤ 1000 * (0.003 * (e.ub * e.ub + e.vb * e.vb)) ∧ c08MineSunk c e xi p ≤ e.H)) ∧
      (tc ≤ 1000 * (0.003 * (e.ub * e.ub + e.vb * e.vb)) →
        (c08MineSunk c e xi p ≤ e.H → q.z = c08MineSunk c e xi p ∧ q.active = c08Flag2 c.carrier) ∧
        (e.H < c08MineSunk c e xi p → q.z = e.H ∧ q.active = 0)) := by
  have hs : c.hasActive = true → c.carrier = .bool → p.active ≤ 1 := fun _ _ => by rw [h0]; omega
  obtain ⟨k, hk, _⟩ := c08aux_mine_code_eq_model c t e xi cache p hc (Or.inl hh) hs
  refine ⟨_, k, hk, ?_⟩
  by_cases hle : tc ≤ 1000 * (0.003 * (e.ub * e.ub + e.vb * e.vb))
  · have ha1 : Mine.resusp c e (if c.hasActive then p.active else 1) ≠ 0 := by
      unfold Mine.resusp
      simp only [hh, if_true, ht, C08.tau_formula hS, hle, Bridge.store_one]
      exact one_ne_zero
    rw [c08aux_mine_update_mobile c e xi p ha1]
    simp only [hh, if_true, h0, ← c08aux_store2]
    by_cases hz : e.H < c08MineSunk c e xi p
    · simp [hz, hle, not_le.mpr hz]
    · have hz' := not_lt.mp hz
      simp [hz, hle, hz', c08aux_store_ne]
  · have ha1 : Mine.resusp c e p.active = 0 := by
      unfold Mine.resusp
      simp only [ht, C08.tau_formula hS, hle, if_false, h0, Bridge.store_zero]
    have := c08aux_mine_update_settled c e xi p hh ha1
    simp [this.2, hle]

private theorem c08aux_mine_flags (c : Mine.Config α) (e : Mine.Env α) (xi : α) (p : Sed.Particle α)
    (hh : c.hasActive = true) :
    (c.carrier = .numeric → (Mine.update c e xi p).active ≤ 2 ∧
      ((Mine.update c e xi p).active = 2 ↔ ((Mine.update c e xi p).active ≠ 0 ∧ p.active ≠ 1)) ∧
      (p.active ≠ 1 → (Mine.update c e xi p).active ≠ 1)) ∧
    (c.carrier = .bool → (Mine.update c e xi p).active ≤ 1) := by
  unfold Mine.update
  simp only [hh, if_true]
  unfold bury
  constructor
  · intro hn
    simp only [hn, Carrier.store]
    split_ifs <;> simp_all
  · intro hb
    simp only [hb, Carrier.store]
    split_ifs <;> simp_all

/-- mine: flag values after one update, as `c08_sed_flag_values` -/
theorem c08_mine_flag_values (c : Mine.Config α) (t : Int) (e : Mine.Env α) (xi : α)
    (cache : Cache α) (p : Sed.Particle α) (hc : cache.tstep < t) (hh : c.hasActive = true)
    (hs : c.carrier = .bool → p.active ≤ 1) :
    ∃ q k, c08MineUpdate c t e xi cache p = some (q, k) ∧ k.tstep ≤ t ∧
      (c.carrier = .numeric → q.active ≤ 2 ∧ (q.active = 2 ↔ (q.active ≠ 0 ∧ p.active ≠ 1)) ∧
        (p.active ≠ 1 → q.active ≠ 1)) ∧
      (c.carrier = .bool → q.active ≤ 1) := by
  obtain ⟨k, hk, hk'⟩ := c08aux_mine_code_eq_model c t e xi cache p hc (Or.inl hh) (fun _ => hs)
  have hf := c08aux_mine_flags c e xi p hh
  exact ⟨_, k, hk, hk', hf.1, hf.2⟩

/-- consecutive updates of one mine particle, the cache handed from update to update -/
def c08MineRun (c : Mine.Config α) : List (Int × Mine.Env α × α) → Sed.Particle α × Cache α →
    Option (Sed.Particle α × Cache α)
  | [], s => some s
  | st :: rest, s => (c08MineUpdate c st.1 st.2.1 st.2.2 s.2 s.1).bind (c08MineRun c rest)

/-- mine: flags over any number of consecutive updates, as `c08_sed_flag_history` -/
theorem c08_mine_flag_history (c : Mine.Config α) (hh : c.hasActive = true) (steps : List (Int × Mine.Env α × α))
    (hinc : steps.Pairwise (fun a b => a.1 < b.1)) :
    ∀ (cache : Cache α) (p : Sed.Particle α), (∀ st ∈ steps, cache.tstep < st.1) →
      (c.carrier = .bool → p.active ≤ 1) →
      ∃ q k, c08MineRun c steps (p, cache) = some (q, k) ∧
        (c.carrier = .numeric → (p.active ≤ 2 → q.active ≤ 2) ∧ (p.active ≠ 1 → q.active ≠ 1)) ∧
        (c.carrier = .bool → q.active ≤ 1) := by
  induction steps with
  | nil =>
    intro cache p _ hs
    exact ⟨p, cache, rfl, fun _ => ⟨id, id⟩, hs⟩
  | cons st rest ih =>
    intro cache p h0 hs
    rw [List.pairwise_cons] at hinc
    obtain ⟨q1, k1, h1, hk1, hn1, hb1⟩ :=
      c08_mine_flag_values c st.1 st.2.1 st.2.2 cache p (h0 st (by simp)) hh hs
    obtain ⟨q, k, h2, hn2, hb2⟩ := ih hinc.2 k1 q1
      (fun s hs' => lt_of_le_of_lt hk1 (hinc.1 s hs')) hb1
    refine ⟨q, k, ?_, ?_, hb2⟩
    · simp only [c08MineRun, h1, Option.bind_some, h2]
    · intro hn
      exact ⟨fun _ => (hn2 hn).1 (hn1 hn).1, fun hp => (hn2 hn).2 ((hn1 hn).2.2 hp)⟩

/-- the code raises when resuspension is configured and the state has no variable `active` -/
theorem c08_mine_resuspension_needs_active_variable (c : Mine.Config α) (t : Int) (e : Mine.Env α) (xi : α)
    (cache : Cache α) (p : Sed.Particle α) (tc : α) (hh : c.hasActive = false) (ht : c.taucrit = some tc) :
    c08MineUpdate c t e xi cache p = none := by
  simp [c08MineUpdate, Seq.run, Seq.guardVal, Seq.mineAtom, c08MineStep, Seq.mineStep, Gen.mine_update_seq,
    Bridge.mine_resuspend_seq_full, MineSt.init, hh, ht]

/-- the critical stress of the mining variant: none for a configured value of 1000 or more, else that constant -/
theorem c08_mine_taucrit_fn (value : α) :
    (1000 ≤ value → mineTaucritFnSeq value = some (some none)) ∧
    (value < 1000 → ∃ f, mineTaucritFnSeq value = some (some (some f)) ∧ ∀ lon lat, f lon lat = some (some value)) := by
  rw [Bridge.mine_get_taucrit_fn]
  unfold Bridge.sfMineTaucrit
  lits
  constructor
  · intro h; simp [h]
  · intro h
    refine ⟨Bridge.sfTauConst value, by simp [not_le.mpr h], fun lon lat => Bridge.sf_tau_const_field value lon lat⟩

/-! ## constructors: which critical stress an update sees -/
section ctor
variable [HasTrunc α] [HasNarrow α]

/-- the particle's element of `self.taucrit_fn(lon, lat)` — the parameter `taucrit` of the interpretation of
`resuspend` (`Sed.Env.taucrit`): `none` iff `self.taucrit_fn is None` -/
def c08TauAt (fn : Option (SfTauFn α)) (lon lat : α) : Option α := fn.bind (fun f => (f lon lat).join)

/-- the attribute `taucrit_fn` of a constructed sedimentation IBM is what the interpretation of `get_taucrit_fn`
returns for `config['ibm'].get('taucrit', None)`; the cache counter starts at -1 -/
theorem c08_sed_ctor_taucrit (openDs : String → Option (SfDataset α)) (cfg : SfSedCfg α) (self : SfSedSelf α)
    (h : sedCtorSeq openDs cfg = some (some self)) :
    ∃ ibm, cfg.ibm = some ibm ∧
      sedTaucritFnSeq openDs (ibm.taucrit.getD .none) = some (some self.taucritFn) ∧ self.ustarTstep = -1 := by
  obtain ⟨c, ibm, _, hibm, _, _, _, ht, hu⟩ := Bridge.sed_ctor_config openDs cfg 0 .numeric self h
  exact ⟨ibm, hibm, by rw [Bridge.sed_get_taucrit_fn, ht], hu⟩

/-- **"never resuspends when no critical stress is configured", from the constructor on**: with the key `taucrit`
absent or `None` every update of the constructed IBM sees `e.taucrit = none` (then `c08_sed_never_resuspends_without_taucrit`) -/
theorem c08_sed_ctor_tau_absent (openDs : String → Option (SfDataset α)) (cfg : SfSedCfg α) (self : SfSedSelf α)
    (ibm : SfSedIbm α) (h : sedCtorSeq openDs cfg = some (some self)) (hibm : cfg.ibm = some ibm)
    (ht : ibm.taucrit = none ∨ ibm.taucrit = some .none) (lon lat : α) :
    c08TauAt self.taucritFn lon lat = none := by
  obtain ⟨ibm', hibm', hf, _⟩ := c08_sed_ctor_taucrit openDs cfg self h
  rw [hibm] at hibm'; cases hibm'
  have : ibm.taucrit.getD .none = .none := by rcases ht with ht | ht <;> rw [ht] <;> rfl
  rw [this, c08_sed_taucrit_fn_absent] at hf
  have hn : self.taucritFn = none := by
    have := Option.some.inj (Option.some.inj hf); exact this.symm
  rw [hn]; rfl

/-- a constant critical stress configured -/
theorem c08_sed_ctor_tau_constant (openDs : String → Option (SfDataset α)) (cfg : SfSedCfg α) (self : SfSedSelf α)
    (ibm : SfSedIbm α) (v : α) (md : Option α) (src vn : Option String)
    (h : sedCtorSeq openDs cfg = some (some self)) (hibm : cfg.ibm = some ibm)
    (ht : ibm.taucrit = some (.num v) ∨ ibm.taucrit = some (.dict ⟨some "constant", some v, md, src, vn⟩))
    (lon lat : α) :
    c08TauAt self.taucritFn lon lat = some v := by
  obtain ⟨ibm', hibm', hf, _⟩ := c08_sed_ctor_taucrit openDs cfg self h
  rw [hibm] at hibm'; cases hibm'
  obtain ⟨f, h1, h2, h3⟩ := c08_sed_taucrit_fn_constant openDs v md src vn
  have hn : self.taucritFn = some f := by
    rcases ht with ht | ht <;> rw [ht] at hf <;> simp only [Option.getD_some] at hf
    · rw [h1] at hf; exact (Option.some.inj (Option.some.inj hf)).symm
    · rw [h2] at hf; exact (Option.some.inj (Option.some.inj hf)).symm
  rw [hn]; simp [c08TauAt, h3]

/-- **the critical stress an update of the constructed IBM sees comes from the raster cell nearest to the particle**
(`c08_sed_taucrit_fn_grain_size_partial` through the interpreted constructor) -/
theorem c08_sed_ctor_tau_grain_size_partial (hT : C08.TruncLaw α) (openDs : String → Option (SfDataset α))
    (cfg : SfSedCfg α) (self : SfSedSelf α) (ibm : SfSedIbm α)
    (d : SfDataset α) (g : SfGrid2 α) (src vn : String) (la0 la1 lo0 lo1 : α) (lar lor : List α)
    (val md : Option α)
    (h : sedCtorSeq openDs cfg = some (some self)) (hibm : cfg.ibm = some ibm)
    (hd : openDs src = some d) (hg : d.dataVars vn = some g)
    (hla : d.latitude = la0 :: la1 :: lar) (hlo : d.longitude = lo0 :: lo1 :: lor)
    (hs0 : 0 < g.shape0) (hs1 : 0 < g.shape1) (lon lat : α) :
    ∃ j i : Int, c08NearestIdx la0 (la1 - la0) lat g.shape0 j ∧ c08NearestIdx lo0 (lo1 - lo0) lon g.shape1 i ∧
      (ibm.taucrit = some (.dict ⟨some "grain_size_poly", val, md, some src, some vn⟩) →
        c08TauAt self.taucritFn lon lat = some (Gen.sed_taucrit_poly ((g.val j.toNat i.toNat).getD 0))) ∧
      (ibm.taucrit = some (.dict ⟨some "grain_size_bin", val, md, some src, some vn⟩) →
        ∃ tcb, c08TauAt self.taucritFn lon lat = some tcb ∧ c08BinTable ((g.val j.toNat i.toNat).getD 0) tcb) := by
  obtain ⟨ibm', hibm', hf, _⟩ := c08_sed_ctor_taucrit openDs cfg self h
  rw [hibm] at hibm'; cases hibm'
  obtain ⟨fb, fp, hb, hp, j, i, hjx, hix, hpv, tcb, hbv, htab⟩ :=
    c08_sed_taucrit_fn_grain_size_partial hT openDs d g src vn la0 la1 lo0 lo1 lar lor val md hd hg hla hlo hs0 hs1
      lon lat
  refine ⟨j, i, hjx, hix, fun ht => ?_, fun ht => ⟨tcb, ?_, htab⟩⟩
  · rw [ht] at hf; simp only [Option.getD_some] at hf
    rw [hp] at hf
    rw [← Option.some.inj (Option.some.inj hf)]
    simp [c08TauAt, hpv]
  · rw [ht] at hf; simp only [Option.getD_some] at hf
    rw [hb] at hf
    rw [← Option.some.inj (Option.some.inj hf)]
    simp [c08TauAt, hbv]

end ctor

/-- the mining variant: default (key `taucrit` absent) or a configured value of 1000 or more — no resuspension -/
theorem c08_mine_ctor_no_resuspension (cfg : SfMineCfg α) (self : SfMineSelf α) (stateDt : α) (hasActive : Bool)
    (carrier : Carrier) (ibm : SfMineIbm α) (h : mineCtorSeq cfg = some (some self)) (hibm : cfg.ibm = some ibm)
    (ht : ibm.taucrit = none ∨ ∃ v, ibm.taucrit = some v ∧ 1000 ≤ v) :
    self.taucritFn = none ∧ ∃ c, Bridge.sfMineConfigOf cfg stateDt hasActive carrier = some c ∧ c.taucrit = none := by
  obtain ⟨c, hc, _, _, _, _, htf, _⟩ := Bridge.mine_ctor_config cfg stateDt hasActive carrier self h
  have hct : c.taucrit = none := by
    unfold Bridge.sfMineConfigOf at hc
    rw [hibm] at hc
    cases hl : ibm.lifespan <;> cases hd : cfg.dt <;> simp [hl, hd] at hc
    subst hc
    show Bridge.sfMineTaucrit _ = none
    unfold Bridge.sfMineTaucrit
    lits
    rcases ht with ht | ⟨v, ht, hv⟩ <;> simp [ht]
    exact hv
  refine ⟨by rw [htf, hct]; rfl, c, hc, hct⟩

/-! ## the hypotheses are satisfiable: concrete instances over `ℝ` -/
section examples

noncomputable local instance c08RealTrunc : HasTrunc ℝ := ⟨fun x => ⌊x⌋⟩
local instance c08RealNarrow : HasNarrow ℝ := ⟨id⟩

private theorem c08aux_real_trunc_law : C08.TruncLaw ℝ := fun x _ => ⟨Int.floor_le x, Int.lt_floor_add_one x⟩

/-- `c08_sed_sinks_exactly_no_mixing`: a never-settled particle at 5 m, sinking velocity 0.01 m/s, time step 600 s,
water depth 100 m, flag 1: after the update it is at 11 m and still mobile -/
example : ∃ q k, c08SedUpdate (α := ℝ) ⟨600, 600, 1000000, .none, .numeric⟩ 0 ⟨100, 0.1, 0, none, 0.02⟩ 0 0 ⟨-1, 0⟩
    ⟨5, 1, true, 0, 0.01⟩ = some (q, k) ∧ q.z = 11 ∧ q.active ≠ 0 := by
  obtain ⟨q, k, h, hz, ha⟩ := c08_sed_sinks_exactly_no_mixing (α := ℝ) ⟨600, 600, 1000000, .none, .numeric⟩ 0
    ⟨100, 0.1, 0, none, 0.02⟩ 0 0 ⟨-1, 0⟩ ⟨5, 1, true, 0, 0.01⟩ (by decide) (fun _ => le_refl _) (by decide) rfl (by norm_num)
  refine ⟨q, k, h, ?_, ha⟩
  rw [hz]; norm_num

/-- `c08_sed_suspended_sinks_and_settles` with constant mixing and a boolean flag array -/
example : ∃ q k, c08SedUpdate (α := ℝ) ⟨600, 600, 1000000, .const 0.01, .bool⟩ 3 ⟨100, 0.1, 0, some 0.12, 0.02⟩ 0.5 2
    ⟨2, 7⟩ ⟨5, 1, true, 0, 0⟩ = some (q, k) ∧ q.sinkVel = 0.02 := by
  obtain ⟨q, k, h, hw, _⟩ := c08_sed_suspended_sinks_and_settles (α := ℝ) ⟨600, 600, 1000000, .const 0.01, .bool⟩ 3
    ⟨100, 0.1, 0, some 0.12, 0.02⟩ 0.5 2 ⟨2, 7⟩ ⟨5, 1, true, 0, 0⟩ (by decide) (fun _ => le_refl _) (by decide)
  exact ⟨q, k, h, by rw [hw]; norm_num⟩

/-- `c08_sed_settled_rests`: bottom speed 0.1 m/s gives 0.03 Pa < 0.12 Pa -/
example : ∃ q k, c08SedUpdate (α := ℝ) ⟨600, 600, 1000000, .boundedLinear 0.01, .numeric⟩ 3
    ⟨100, 0.1, 0, some 0.12, 0.02⟩ 0.5 2 ⟨2, 7⟩ ⟨100, 0, true, 0, 0.01⟩ = some (q, k) ∧ q.z = 100 ∧ q.active = 0 :=
  c08_sed_settled_rests RealInst.sqrtLaws _ 3 ⟨100, 0.1, 0, some 0.12, 0.02⟩ 0.5 2 ⟨2, 7⟩ ⟨100, 0, true, 0, 0.01⟩
    (by decide) rfl (Or.inr ⟨0.12, rfl, by norm_num⟩)

/-- `c08_sed_resuspends_iff`: bottom speed 0.3 m/s gives 0.27 Pa ≥ 0.12 Pa; the particle rests at 90 m in 100 m of
water, no mixing: it is lifted off the bed, sinks 6 m and is flagged 2 -/
example : ∃ q k, c08SedUpdate (α := ℝ) ⟨600, 600, 1000000, .none, .numeric⟩ 3
    ⟨100, 0.3, 0, some 0.12, 0.02⟩ 0.5 2 ⟨2, 7⟩ ⟨90, 0, true, 0, 0.01⟩ = some (q, k) ∧ q.z = 96 ∧ q.active = 2 := by
  obtain ⟨q, k, h, _, h2⟩ := c08_sed_resuspends_iff RealInst.sqrtLaws (α := ℝ) ⟨600, 600, 1000000, .none, .numeric⟩ 3
    ⟨100, 0.3, 0, some 0.12, 0.02⟩ 0.5 2 ⟨2, 7⟩ ⟨90, 0, true, 0, 0.01⟩ 0.12 (by decide) rfl rfl
  have hsunk : c08SedSunk (α := ℝ) ⟨600, 600, 1000000, .none, .numeric⟩ ⟨100, 0.3, 0, some 0.12, 0.02⟩ 0.5
      ⟨90, 0, true, 0, 0.01⟩ = 96 := by
    simp only [c08SedSunk, c08SedMixed]; norm_num
  rw [hsunk] at h2
  obtain ⟨hz, ha⟩ := (h2 (by norm_num)).1 (by norm_num)
  exact ⟨q, k, h, hz, ha⟩

/-- `c08_sed_flag_history` / `c08_sed_rests_history`: three updates at steps 0, 1, 4 -/
example : ∃ q k, c08SedRun (α := ℝ) ⟨600, 600, 1000000, .const 0.01, .numeric⟩
    [(0, ⟨100, 0.1, 0, some 0.12, 0.02⟩, 0.5, 0), (1, ⟨100, 0.1, 0.1, some 0.12, 0.02⟩, -0.5, 1),
     (4, ⟨100, 0, 0, none, 0.02⟩, 0.1, 0)] (⟨100, 0, true, 0, 0.01⟩, ⟨-1, 0⟩) = some (q, k) ∧ q.z = 100 ∧ q.active = 0 := by
  apply c08_sed_rests_history RealInst.sqrtLaws
  · simp
  · intro st hst
    simp only [List.mem_cons, List.not_mem_nil, or_false] at hst
    rcases hst with rfl | rfl | rfl
    · exact Or.inr ⟨0.12, rfl, by norm_num⟩
    · exact Or.inr ⟨0.12, rfl, by norm_num⟩
    · exact Or.inl rfl
  · intro st hst
    simp only [List.mem_cons, List.not_mem_nil, or_false] at hst
    rcases hst with rfl | rfl | rfl <;> decide
  · rfl

example : ∃ q k, c08SedRun (α := ℝ) ⟨600, 600, 1000000, .const 0.01, .numeric⟩
    [(0, ⟨100, 0.3, 0, some 0.12, 0.02⟩, 0.5, 0), (1, ⟨100, 0.1, 0.1, some 0.12, 0.02⟩, -0.5, 1)]
    (⟨100, 0, true, 0, 0.01⟩, ⟨-1, 0⟩) = some (q, k) ∧ q.active ≤ 2 ∧ q.active ≠ 1 := by
  obtain ⟨q, k, h, hn, _⟩ := c08_sed_flag_history (α := ℝ) ⟨600, 600, 1000000, .const 0.01, .numeric⟩
    [(0, ⟨100, 0.3, 0, some 0.12, 0.02⟩, 0.5, 0), (1, ⟨100, 0.1, 0.1, some 0.12, 0.02⟩, -0.5, 1)] (by simp)
    ⟨-1, 0⟩ ⟨100, 0, true, 0, 0.01⟩
    (by
      intro st hst
      simp only [List.mem_cons, List.not_mem_nil, or_false] at hst
      rcases hst with rfl | rfl <;> decide) (fun _ => Nat.zero_le _)
  exact ⟨q, k, h, (hn rfl).1 (by decide), (hn rfl).2 (by decide)⟩

/-- `c08_sed_shear_velocity_history` -/
example : c08SedUstarRun (α := ℝ) [(0, 100, 0.1, 0), (1, 100, 0.2, 0.1), (5, 50, 0, 0)] ⟨-1, 3⟩
    = some [Gen.sed_ustar 0.1 0, Gen.sed_ustar 0.2 0.1, Gen.sed_ustar 0 0] := by
  apply c08_sed_shear_velocity_history
  · simp
  · intro st hst
    simp only [List.mem_cons, List.not_mem_nil, or_false] at hst
    rcases hst with rfl | rfl | rfl <;> decide

/-- `c08_sed_taucrit_fn_grain_size_partial`: a 2 × 3 raster (one row of grain size 100, one row of NaN), a particle
inside it -/
example : ∃ fb fp,
    sedTaucritFnSeq (α := ℝ)
      (fun _ => some ⟨fun _ => some ⟨2, 3, fun j _ => if j = 0 then some 100 else none⟩, [60, 60.5], [5, 5.25, 5.5]⟩)
      (.dict ⟨some "grain_size_bin", none, none, some "grain.nc", some "grain_size"⟩) = some (some (some fb)) ∧
    sedTaucritFnSeq (α := ℝ)
      (fun _ => some ⟨fun _ => some ⟨2, 3, fun j _ => if j = 0 then some 100 else none⟩, [60, 60.5], [5, 5.25, 5.5]⟩)
      (.dict ⟨some "grain_size_poly", none, none, some "grain.nc", some "grain_size"⟩) = some (some (some fp)) ∧
    ∃ j i : Int, c08NearestIdx (60 : ℝ) (60.5 - 60) 60.1 2 j ∧ c08NearestIdx (5 : ℝ) (5.25 - 5) 5.3 3 i ∧
      fp 5.3 60.1 = some (some (Gen.sed_taucrit_poly
        (((fun (j : Nat) (_ : Nat) => if j = 0 then some (100 : ℝ) else none) j.toNat i.toNat).getD 0))) ∧
      ∃ tcb, fb 5.3 60.1 = some (some tcb) ∧
        c08BinTable (((fun (j : Nat) (_ : Nat) => if j = 0 then some (100 : ℝ) else none) j.toNat i.toNat).getD 0) tcb :=
  c08_sed_taucrit_fn_grain_size_partial c08aux_real_trunc_law _
    ⟨fun _ => some ⟨2, 3, fun j _ => if j = 0 then some 100 else none⟩, [60, 60.5], [5, 5.25, 5.5]⟩
    ⟨2, 3, fun j _ => if j = 0 then some 100 else none⟩ "grain.nc" "grain_size" 60 60.5 5 5.25 [] [5.5] none none
    rfl rfl rfl rfl (by decide) (by decide) 5.3 60.1

/-- the constructor hypothesis of `c08_sed_ctor_tau_constant` / `c08_sed_ctor_tau_absent`: `taucrit: 0.12` -/
example : ∃ self, sedCtorSeq (α := ℝ) (fun _ => none) ⟨some ⟨some 1000, none, some (.num 0.12)⟩, some 600⟩
    = some (some self) ∧ ∀ lon lat, c08TauAt self.taucritFn lon lat = some 0.12 := by
  have h : sedCtorSeq (α := ℝ) (fun _ => none) ⟨some ⟨some 1000, none, some (.num 0.12)⟩, some 600⟩
      = some (some ⟨1000, none, some (Bridge.sfTauConst 0.12), 600, ["grid", "forcing", "state", "_ustar"], -1⟩) := by
    rw [Bridge.sed_ctor_seq]; rfl
  exact ⟨_, h, fun lon lat => c08_sed_ctor_tau_constant _ _ _ _ 0.12 none none none h rfl (Or.inl rfl) lon lat⟩

example : ∃ self, sedCtorSeq (α := ℝ) (fun _ => none) ⟨some ⟨some 1000, some (.num 0.01), none⟩, some 600⟩
    = some (some self) ∧ ∀ lon lat, c08TauAt self.taucritFn lon lat = none := by
  have h : sedCtorSeq (α := ℝ) (fun _ => none) ⟨some ⟨some 1000, some (.num 0.01), none⟩, some 600⟩
      = some (some ⟨1000, Bridge.sfMixFnOf (.const 0.01), none, 600, ["grid", "forcing", "state", "_ustar"], -1⟩) := by
    rw [Bridge.sed_ctor_seq]; rfl
  exact ⟨_, h, fun lon lat => c08_sed_ctor_tau_absent _ _ _ _ h rfl (Or.inl rfl) lon lat⟩

/-- `c08_mine_settled_leaves`: no resuspension, no mixing, a particle 1 m above the bed sinking 6 m in the step -/
example : ∃ q k, c08MineUpdate (α := ℝ) ⟨600, 600, 1000000, 0, none, false, true, .numeric⟩ 0 ⟨100, 0.1, 0, 0⟩ 0.3
    ⟨-1, 0⟩ ⟨99, 1, true, 0, 0.01⟩ = some (q, k) ∧ q.z = 100 ∧ q.alive = false := by
  apply c08_mine_settled_leaves (α := ℝ) ⟨600, 600, 1000000, 0, none, false, true, .numeric⟩ 0 ⟨100, 0.1, 0, 0⟩ 0.3
    ⟨-1, 0⟩ ⟨99, 1, true, 0, 0.01⟩ (by decide) rfl (fun _ _ => le_refl _) (fun _ => by decide)
  simp only [c08MineSunk, Gen.mine_sink, Gen.mine_mix, HasSqrt.sqrt]
  norm_num

/-- `c08_mine_resuspends_iff` / `c08_mine_settled_rests` / `c08_mine_flag_values`: critical stress 0.12 Pa -/
example : ∃ q k, c08MineUpdate (α := ℝ) ⟨600, 600, 1000000, 0.001, some 0.12, true, true, .numeric⟩ 2 ⟨100, 0.1, 0, 0.001⟩
    0.3 ⟨1, 0⟩ ⟨100, 0, true, 0, 0.01⟩ = some (q, k) ∧ q.z = 100 ∧ q.active = 0 :=
  c08_mine_settled_rests RealInst.sqrtLaws _ 2 ⟨100, 0.1, 0, 0.001⟩ 0.3 ⟨1, 0⟩ ⟨100, 0, true, 0, 0.01⟩ (by decide) rfl rfl
    (Or.inr ⟨0.12, rfl, by norm_num⟩)

example : ∃ q k, c08MineUpdate (α := ℝ) ⟨600, 600, 1000000, 0.001, some 0.12, true, true, .bool⟩ 2 ⟨100, 0.3, 0, 0.001⟩
    0.3 ⟨1, 0⟩ ⟨100, 0, true, 0, 0.01⟩ = some (q, k) ∧
    (q.active ≠ 0 ↔ ((0.12 : ℝ) ≤ 1000 * (0.003 * (0.3 * 0.3 + 0 * 0)) ∧
      c08MineSunk (α := ℝ) ⟨600, 600, 1000000, 0.001, some 0.12, true, true, .bool⟩ ⟨100, 0.3, 0, 0.001⟩ 0.3
        ⟨100, 0, true, 0, 0.01⟩ ≤ 100)) := by
  obtain ⟨q, k, h, h1, _⟩ := c08_mine_resuspends_iff RealInst.sqrtLaws (α := ℝ)
    ⟨600, 600, 1000000, 0.001, some 0.12, true, true, .bool⟩ 2 ⟨100, 0.3, 0, 0.001⟩
    0.3 ⟨1, 0⟩ ⟨100, 0, true, 0, 0.01⟩ 0.12 (by decide) rfl rfl rfl
  exact ⟨q, k, h, h1⟩

/-- `c08_mine_ctor_no_resuspension`: the default configuration (no key `taucrit`) -/
example : ∃ self, mineCtorSeq (α := ℝ) ⟨some ⟨some 1000, none, none, none, none, none⟩, some 600, some [], some []⟩
    = some (some self) ∧ self.taucritFn = none := by
  have h : ∃ self, mineCtorSeq (α := ℝ) ⟨some ⟨some 1000, none, none, none, none, none⟩, some 600, some [], some []⟩
      = some (some self) := by
    rw [Bridge.mine_ctor_seq]
    exact ⟨_, rfl⟩
  obtain ⟨self, h⟩ := h
  exact ⟨self, h, (c08_mine_ctor_no_resuspension _ self 600 true .numeric _ h rfl (Or.inl rfl)).1⟩

/-- `c08_sed_resuspend_method`: 0.27 Pa ≥ 0.12 Pa, the settled particle is flagged `True` -/
example : ∃ a' k, runSedResuspend (α := ℝ) Gen.sed_resuspend_seq ⟨-1, 0⟩ 0 ⟨100, 0.3, 0, some 0.12, 0.02⟩ 0
    = some (some (a', k)) ∧ a' = 1 ∧ k.tstep = 0 := by
  obtain ⟨a', k, h, _, h2⟩ := c08_sed_resuspend_method RealInst.sqrtLaws (α := ℝ) ⟨-1, 0⟩ 0
    ⟨100, 0.3, 0, some 0.12, 0.02⟩ 0 (by decide)
  exact ⟨a', k, h, (h2 0.12 rfl).1 (by norm_num), (h2 0.12 rfl).2.2.1⟩

/-- `c08_mine_flag_history`: two updates of a particle that has rested before, boolean flag array -/
example : ∃ q k, c08MineRun (α := ℝ) ⟨600, 600, 1000000, 0.001, some 0.12, true, true, .bool⟩
    [(3, ⟨100, 0.3, 0, 0.001⟩, 0.3), (7, ⟨100, 0, 0, 0⟩, -1.2)] (⟨100, 0, true, 0, 0.01⟩, ⟨1, 0⟩) = some (q, k) ∧
    q.active ≤ 1 := by
  obtain ⟨q, k, h, _, hb⟩ := c08_mine_flag_history (α := ℝ) ⟨600, 600, 1000000, 0.001, some 0.12, true, true, .bool⟩ rfl
    [(3, ⟨100, 0.3, 0, 0.001⟩, 0.3), (7, ⟨100, 0, 0, 0⟩, -1.2)] (by simp) ⟨1, 0⟩ ⟨100, 0, true, 0, 0.01⟩
    (by
      intro st hst
      simp only [List.mem_cons, List.not_mem_nil, or_false] at hst
      rcases hst with rfl | rfl <;> decide) (fun _ => Nat.zero_le _)
  exact ⟨q, k, h, hb rfl⟩

/-- `c08_mine_taucrit_fn` has no hypothesis; `c08_mine_resuspension_needs_active_variable`: -/
example : c08MineUpdate (α := ℝ) ⟨600, 600, 1000000, 0.001, some 0.12, true, false, .bool⟩ 0 ⟨100, 0.3, 0, 0.001⟩ 0.3
    ⟨-1, 0⟩ ⟨100, 1, true, 0, 0.01⟩ = none :=
  c08_mine_resuspension_needs_active_variable _ _ _ _ _ _ 0.12 rfl rfl

/-- the constructor hypothesis of `c08_sed_ctor_tau_grain_size_partial`: `taucrit: {method: grain_size_poly, …}` -/
example : ∃ self, sedCtorSeq (α := ℝ)
    (fun _ => some ⟨fun _ => some ⟨2, 3, fun j _ => if j = 0 then some 100 else none⟩, [60, 60.5], [5, 5.25, 5.5]⟩)
    ⟨some ⟨some 1000, none,
      some (.dict ⟨some "grain_size_poly", none, none, some "grain.nc", some "grain_size"⟩)⟩, some 600⟩
    = some (some self) := by
  rw [Bridge.sed_ctor_seq]
  exact ⟨_, rfl⟩

end examples

end OnCode
