import LadimProofs.C01
import LadimProofs.C02
import LadimProofs.C02Iso
import LadimProofs.C04
import LadimProofs.Bridge.DatesSeq
import LadimProofs.Bridge.AttrSeq
import LadimProofs.Bridge.ReleaseSeq
/-!
# C02 / C04 — end to end: the property's clauses about the INTERPRETATION OF THE CURRENT SOURCE

Property C02 — Release dates are ordered, inside their span and evenly spaced
STATEMENT: The rows of the release table are in non-decreasing date order, as LADiM requires. For each group the release times begin at the first given date, end at the second and are evenly spaced in between (to the whole second), and a single date or a single particle yields that date itself; every emitted date is a valid timestamp that LADiM can parse.
QUANTIFIER: all groups with num >= 1 (including exactly 1), dates given as one value or a [start, stop] pair in any accepted type (ISO strings with ' ' or 'T', date/datetime objects, numpy datetime64 of any unit), spans that are zero, not divisible by num-1, or reversed; any number of interleaved groups

Property C04 — Release attribute values honour their specification
STATEMENT: Constant attributes are repeated, explicit lists are reproduced verbatim in particle order, callables or dotted function names receive the particle count, two-element ranges yield values inside the range, and the statistical forms yield values that respect the documented bounds: gaussian values stay within min and max, exponential values are non-negative and do not exceed max, piecewise values stay within the knot range and follow the given cumulative probabilities. Every documented form, including each distribution with only its required keys, is accepted for every particle count.
QUANTIFIER: all attribute specifications allowed by release.yaml and the makrel help text (scalar; list of length num; [low, high]; gaussian with/without min/max; exponential with/without max; piecewise; callable; dotted name), all parameter values, all particle counts >= 1, all seeds

Every theorem below is a statement about `Seq.dateRangeSeq` (= `runDateRange … Gen.date_range_seq`), `Seq.getAttrSeq`
(= `runRet … Gen.get_attr_seq`, which runs `Gen.get_distribution_seq` at `v = get_distribution(v, num)`) or
`Seq.runMakeRelease … Gen.make_release_seq`: what the statement sequences generated from the current source do.
The bridges (`LadimProofs/Bridge/{DatesSeq,AttrSeq,ReleaseSeq}.lean`) and the model theorems (`LadimProofs/C01`, `C02`,
`C02Iso`, `C04`) are the lemmas.

## Vocabulary of the C02 statements (inputs only)
* a date is a numpy `datetime64` scalar `(unit, ticks)` (`Seq.Stamp`), already parsed by `np.datetime64(d)`;
* `Bridge.fine toSec d` is the date as numpy holds it after the cast of the units `Y M W D h m` to seconds (`toSec` is the
  parameter of the interpretation that stands for that cast; `Dates.coarseToSec` is numpy's); `Bridge.perSecOf u` = ticks
  per second of the unit `u`;
* `c02_tps`, `c02_startFine`, `c02_stopFine`: ticks per second of the finer of the two units and the two dates counted in that
  unit (numpy promotes `stop - start` to it); for dates of one unit these are `perSecOf u` and the ticks themselves
  (`c02_same_unit`);
* the renderer is a parameter of the interpretation; with `Prod.mk` the interpretation returns the stamps themselves,
  `c02_render_natural` says that every other renderer is applied element by element to those stamps.

## Hypotheses that the bridges force
None.  `Bridge.run_pair` / `Bridge.date_range_single` ask for `divSeen Gen.date_range_seq = some .maxOne` (the `drange`
statement divides by `max(num - 1, 1)`), `Bridge.get_attr_seq_of` for the `np.clip` argument order that
`Gen.get_distribution_seq` shows: both are read off the generated text here (`c02_divisor_text`, `Bridge.clip_seen`) and
are not hypotheses of the theorems.  `int64` overflow and float rounding are outside the interpretation (integers are
`Int`, attribute values live in an arbitrary linear ordered field).

## Not covered
* C02: the parser `np.datetime64(d)` (ISO strings with ' ' or 'T', `date` / `datetime` objects) is not part of the
  interpretation — the dates arrive parsed, in any unit; LADiM's own parser is not modelled
  (`c02_valid_timestamp_partial`); that the `date` cells of the table are the strings `date_range` returned is the
  composition `make_single_release` → `make_release` (`Bridge.make_single_release_seq`), not restated here.
* C04: the gaussian LOWER bound on the current text (known finding F-C04a; it fails, `c04_gaussian_lower_fails_when_swapped`);
  the distribution of the draws themselves (numpy's generator) — "follow the given cumulative probabilities" is stated as
  the event inclusion that gives `P(value ≤ knot_j) = cdf_j` for a uniform draw; `get_attrs` (the loop over the keys,
  `Bridge.get_attrs`) is not restated.
-/
open Ladim Ladim.Seq Ladim.Dates Ladim.Attr Ladim.Table

set_option linter.unusedSectionVars false
set_option linter.unusedVariables false
set_option linter.unusedSimpArgs false
namespace OnCode

/-! # C02 — `date_range` -/
section C02
variable (toSec : TUnit → Int → Int)

/-- the `drange` statement of the current source divides by `max(num - 1, 1)` -/
theorem c02_divisor_text : divSeen Gen.date_range_seq = some .maxOne := by
  simp [divSeen, Gen.date_range_seq, divOfText]

/-- ticks per second of the finer of the units of the two dates (after the cast of the coarse units) -/
def c02_tps (a b : Stamp) : Int :=
  max (Bridge.perSecOf (Bridge.fine toSec a).1) (Bridge.perSecOf (Bridge.fine toSec b).1)
/-- a number of ticks in the unit of `start` (= `a`), counted in the finer unit -/
def c02_toFine (a b : Stamp) (t : Int) : Int := t * (c02_tps toSec a b / Bridge.perSecOf (Bridge.fine toSec a).1)
/-- the first date in ticks of the finer unit -/
def c02_startFine (a b : Stamp) : Int := c02_toFine toSec a b (Bridge.fine toSec a).2
/-- the second date in ticks of the finer unit -/
def c02_stopFine (a b : Stamp) : Int :=
  (Bridge.fine toSec b).2 * (c02_tps toSec a b / Bridge.perSecOf (Bridge.fine toSec b).1)

/-- both dates in one unit `u` (the usual case): the finer unit is `u`, the ticks are the ticks -/
theorem c02_same_unit (a b : Stamp) (u : TUnit) (ha : (Bridge.fine toSec a).1 = u) (hb : (Bridge.fine toSec b).1 = u) :
    c02_tps toSec a b = Bridge.perSecOf u ∧ (∀ t, c02_toFine toSec a b t = t) ∧
      c02_startFine toSec a b = (Bridge.fine toSec a).2 ∧ c02_stopFine toSec a b = (Bridge.fine toSec b).2 := by
  have hp := Bridge.perSecOf_pos u
  have h1 : Bridge.perSecOf u / Bridge.perSecOf u = 1 := Int.ediv_self (by omega)
  simp [c02_tps, c02_toFine, c02_startFine, c02_stopFine, ha, hb, h1]

/-- the whole seconds from the first to the second date: the value of `dt = (stop - start).astype('timedelta64[s]')` -/
def c02_spanSec (a b : Stamp) : Int :=
  diffSeconds (Bridge.perSecOf (Bridge.fine toSec a).1) (Bridge.fine toSec a).2
    (Bridge.perSecOf (Bridge.fine toSec b).1) (Bridge.fine toSec b).2

theorem c02_tps_pos (a b : Stamp) : 0 < c02_tps toSec a b := by
  have := Bridge.perSecOf_pos (Bridge.fine toSec a).1
  unfold c02_tps; omega

/-- `c02_spanSec` is the floor of the span in seconds -/
theorem c02_spanSec_spec (a b : Stamp) :
    c02_spanSec toSec a b * c02_tps toSec a b ≤ c02_stopFine toSec a b - c02_startFine toSec a b ∧
    c02_stopFine toSec a b - c02_startFine toSec a b < (c02_spanSec toSec a b + 1) * c02_tps toSec a b := by
  have hp := c02_tps_pos toSec a b
  have e : c02_spanSec toSec a b = (c02_stopFine toSec a b - c02_startFine toSec a b) / c02_tps toSec a b := by
    unfold c02_spanSec diffSeconds
    rw [Int.fdiv_eq_ediv_of_nonneg _ (by unfold c02_tps at hp; exact hp.le)]
    rfl
  rw [e]
  exact ⟨Int.ediv_mul_le _ (by omega), Int.lt_ediv_add_one_mul_self _ hp⟩

/-- a tick of `start`'s unit times the conversion factor is a tick of the finer unit: `p₁ · k₁ = c02_tps` -/
theorem c02_toFine_mul (a b : Stamp) (q : Int) :
    c02_toFine toSec a b (q * Bridge.perSecOf (Bridge.fine toSec a).1) = q * c02_tps toSec a b := by
  obtain ⟨hd, _⟩ := Bridge.perSec_dvd (Bridge.fine toSec a).1 (Bridge.fine toSec b).1
  unfold c02_toFine c02_tps
  rw [Int.mul_assoc, hd]

theorem c02_toFine_add (a b : Stamp) (x y : Int) : c02_toFine toSec a b (x + y) = c02_toFine toSec a b x + c02_toFine toSec a b y := by
  unfold c02_toFine; rw [Int.add_mul]

theorem c02_toFine_factor_pos (a b : Stamp) : 0 < c02_tps toSec a b / Bridge.perSecOf (Bridge.fine toSec a).1 :=
  (Bridge.perSec_dvd (Bridge.fine toSec a).1 (Bridge.fine toSec b).1).2

/-- **closed form.**  `date_range([a, b], num)`, as the generated statement sequence says, never raises and returns, for
particle `i < num`, the date `start + trunc(i · dt / max(num - 1, 1))` seconds, in the unit of `start` (never `NaT`),
rendered — for every pair of dates, every `num`, every cast of the coarse units and every renderer -/
theorem c02_closed_form {ρ : Type} (render : TUnit → Option Int → ρ) (a b : Stamp) (num : Nat) :
    dateRangeSeq toSec render (.seq [a, b]) num =
      some (some ((List.range num).map (fun i : Nat => render (Bridge.fine toSec a).1
        (some ((Bridge.fine toSec a).2 +
          ((i : Int) * c02_spanSec toSec a b).tdiv (max ((num : Int) - 1) 1) * Bridge.perSecOf (Bridge.fine toSec a).1))))) := by
  have hne : max ((num : Int) - 1) 1 ≠ 0 := by omega
  rw [Bridge.run_pair .maxOne c02_divisor_text]
  simp [drangeTicks, tdivNaT, DivVariant.div, divisor, hne, c02_spanSec, List.map_map, Function.comp_def]
/-- non-vacuity: four particles over ten seconds, a span that `num - 1` does not divide (truncation: 0, 3, 6, 10 s) -/
example : dateRangeSeq coarseToSec renderStamp (.seq [(.s, 100), (.s, 110)]) 4 =
    some (some ["1970-01-01T00:01:40", "1970-01-01T00:01:43", "1970-01-01T00:01:46", "1970-01-01T00:01:50"]) := by decide

/-- the ticks of the closed form (proof-internal witness of the `∃ ts` below) -/
private def ticks (a b : Stamp) (num : Nat) : List Int :=
  (List.range num).map (fun i : Nat => (Bridge.fine toSec a).2 +
    ((i : Int) * c02_spanSec toSec a b).tdiv (max ((num : Int) - 1) 1) * Bridge.perSecOf (Bridge.fine toSec a).1)

private theorem run_ticks {ρ : Type} (render : TUnit → Option Int → ρ) (a b : Stamp) (num : Nat) :
    dateRangeSeq toSec render (.seq [a, b]) num =
      some (some ((ticks toSec a b num).map (fun t => render (Bridge.fine toSec a).1 (some t)))) := by
  rw [c02_closed_form, ticks, List.map_map]; rfl

/-- **naturality in the renderer**: for every form of `date_span` the strings that `date_range` returns are the
renderings, element by element, of the stamps that the interpretation returns with the renderer `Prod.mk`; the clauses
below are stated for those stamps -/
theorem c02_render_natural {ρ : Type} (render : TUnit → Option Int → ρ) (span : DateArg) (num : Nat) :
    dateRangeSeq toSec render span num =
      (dateRangeSeq toSec Prod.mk span num).map (Option.map (List.map (fun p => render p.1 p.2))) := by
  have pair : ∀ a b : Stamp, dateRangeSeq toSec render (.seq [a, b]) num =
      (dateRangeSeq toSec Prod.mk (.seq [a, b]) num).map (Option.map (List.map (fun p => render p.1 p.2))) := by
    intro a b
    rw [run_ticks toSec render, run_ticks toSec Prod.mk]
    simp [List.map_map, Function.comp_def]
  cases span with
  | str d => rw [Bridge.run_str, Bridge.run_str, pair]
  | scalar d => rw [Bridge.run_scalar, Bridge.run_scalar, pair]
  | seq ds =>
    by_cases h2 : ds.length = 2
    · match ds, h2 with
      | [a, b], _ => exact pair a b
    · rw [Bridge.run_not_two toSec render ds num h2, Bridge.run_not_two toSec Prod.mk ds num h2]; rfl

/-- **num dates, every one a valid time stamp**: for every pair of dates and every `num` the interpretation returns
(it does not raise) exactly `num` dates, none of them `NaT`, in the unit of `start` -/
theorem c02_num_dates_valid (a b : Stamp) (num : Nat) :
    ∃ ts : List Int, ts.length = num ∧
      dateRangeSeq toSec Prod.mk (.seq [a, b]) num = some (some (ts.map (fun t => ((Bridge.fine toSec a).1, some t)))) :=
  ⟨ticks toSec a b num, by simp [ticks], run_ticks toSec Prod.mk a b num⟩

/-- **the release times begin at the first given date** (every `num ≥ 1`, every span) -/
theorem c02_first_is_start (a b : Stamp) (num : Nat) (hn : 1 ≤ num) :
    ∃ ts : List Int,
      dateRangeSeq toSec Prod.mk (.seq [a, b]) num = some (some (ts.map (fun t => ((Bridge.fine toSec a).1, some t)))) ∧
      ts.head? = some (Bridge.fine toSec a).2 := by
  refine ⟨ticks toSec a b num, run_ticks toSec Prod.mk a b num, ?_⟩
  have h0 : num ≠ 0 := by omega
  simp [ticks, List.head?_map, List.head?_range, h0]
/-- the hypothesis holds: a `date` and a millisecond `datetime64`, four particles -/
example := c02_first_is_start coarseToSec (.D, 10957) (.ms, 1500) 4 (by decide)

private theorem last_tick (a b : Stamp) (num : Nat) (hn : 2 ≤ num) :
    (ticks toSec a b num).getLast? = some ((Bridge.fine toSec a).2 +
      c02_spanSec toSec a b * Bridge.perSecOf (Bridge.fine toSec a).1) := by
  obtain ⟨m, rfl⟩ : ∃ m, num = m + 2 := ⟨num - 2, by omega⟩
  have hd : max (((m + 2 : Nat) : Int) - 1) 1 = (m : Int) + 1 := by omega
  have hc : ((m + 2 - 1 : Nat) : Int) = (m : Int) + 1 := by omega
  simp only [ticks, List.getLast?_map, List.getLast?_range]
  simp only [Nat.add_eq_zero_iff, OfNat.ofNat_ne_zero, and_false, if_false, Option.map_some]
  rw [hd, hc, Int.mul_tdiv_cancel_left _ (by omega)]

/-- **the release times end at the second date, to the whole second** (every `num ≥ 2`): the last date is
`start + ⌊stop - start⌋ seconds`; counted in the finer of the two units it is at most `stop` and less than one second
before it — also for reversed spans and spans that `num - 1` does not divide -/
theorem c02_last_is_stop (a b : Stamp) (num : Nat) (hn : 2 ≤ num) :
    ∃ ts : List Int,
      dateRangeSeq toSec Prod.mk (.seq [a, b]) num = some (some (ts.map (fun t => ((Bridge.fine toSec a).1, some t)))) ∧
      ∃ t, ts.getLast? = some t ∧ c02_toFine toSec a b t ≤ c02_stopFine toSec a b ∧
        c02_stopFine toSec a b - c02_toFine toSec a b t < c02_tps toSec a b := by
  refine ⟨ticks toSec a b num, run_ticks toSec Prod.mk a b num, _, last_tick toSec a b num hn, ?_⟩
  obtain ⟨h1, h2⟩ := c02_spanSec_spec toSec a b
  rw [c02_toFine_add, c02_toFine_mul]
  change c02_startFine toSec a b + _ ≤ _ ∧ _ - (c02_startFine toSec a b + _) < _
  constructor <;> linarith
/-- the hypothesis holds: a reversed span of 1.5 s in milliseconds, three particles -/
example := c02_last_is_stop coarseToSec (.ms, 1500) (.ms, 0) 3 (by decide)

/-- **… and exactly at the second date** when the span is a whole number of seconds -/
theorem c02_last_is_stop_exact (a b : Stamp) (num : Nat) (hn : 2 ≤ num)
    (hdiv : c02_tps toSec a b ∣ c02_stopFine toSec a b - c02_startFine toSec a b) :
    ∃ ts : List Int,
      dateRangeSeq toSec Prod.mk (.seq [a, b]) num = some (some (ts.map (fun t => ((Bridge.fine toSec a).1, some t)))) ∧
      ∃ t, ts.getLast? = some t ∧ c02_toFine toSec a b t = c02_stopFine toSec a b := by
  refine ⟨ticks toSec a b num, run_ticks toSec Prod.mk a b num, _, last_tick toSec a b num hn, ?_⟩
  obtain ⟨h1, h2⟩ := c02_spanSec_spec toSec a b
  obtain ⟨c, hc⟩ := hdiv
  rw [c02_toFine_add, c02_toFine_mul]
  change c02_startFine toSec a b + _ = _
  have hp := c02_tps_pos toSec a b
  rw [hc] at h1 h2
  have e : c02_spanSec toSec a b = c := by
    have l1 : c02_spanSec toSec a b ≤ c := by
      by_contra hcon
      have : c + 1 ≤ c02_spanSec toSec a b := by omega
      nlinarith
    have l2 : c < c02_spanSec toSec a b + 1 := by
      by_contra hcon
      have : c02_spanSec toSec a b + 1 ≤ c := by omega
      nlinarith
    omega
  rw [e]; linarith
/-- the hypotheses hold: 2000-01-01 (a `date`) to 2000-01-02T00:00:00 (seconds), three particles -/
example := c02_last_is_stop_exact coarseToSec (.D, 10957) (.s, 946771200) 3 (by decide) (by decide)

/-- **dates given in seconds or coarser** (ISO strings without fraction, `date` objects, `datetime64[Y … s]`): the
result is in seconds and the last date *is* the second date -/
theorem c02_last_is_stop_seconds (a b : Stamp) (num : Nat) (hn : 2 ≤ num)
    (ha : Bridge.isCoarse a.1 = true ∨ a.1 = .s) (hb : Bridge.isCoarse b.1 = true ∨ b.1 = .s) :
    ∃ ts : List Int,
      dateRangeSeq toSec Prod.mk (.seq [a, b]) num = some (some (ts.map (fun t => (TUnit.s, some t)))) ∧
      ts.getLast? = some (Bridge.fine toSec b).2 := by
  have fs : ∀ d : Stamp, (Bridge.isCoarse d.1 = true ∨ d.1 = .s) → (Bridge.fine toSec d).1 = .s := by
    intro d hd
    obtain ⟨u, t⟩ := d
    cases u <;> simp [Bridge.fine, Bridge.isCoarse] at hd ⊢
  obtain ⟨hp, hf, hs, he⟩ := c02_same_unit toSec a b .s (fs a ha) (fs b hb)
  obtain ⟨ts, hrun, t, hl, hx⟩ := c02_last_is_stop_exact toSec a b num hn (by
    rw [hp]; exact ⟨_, (Int.one_mul _).symm⟩)
  rw [fs a ha] at hrun
  refine ⟨ts, hrun, ?_⟩
  rw [hl, ← he, ← hx, hf]
/-- the hypotheses hold for the same pair -/
example := c02_last_is_stop_seconds coarseToSec (.D, 10957) (.s, 946771200) 3 (by decide) (Or.inl rfl) (Or.inr rfl)

private theorem tick_mono (a b : Stamp) (num : Nat) (hs : 0 ≤ c02_spanSec toSec a b) :
    (ticks toSec a b num).Pairwise (· ≤ ·) := by
  have hp := Bridge.perSecOf_pos (Bridge.fine toSec a).1
  rw [ticks, List.pairwise_map]
  refine List.Pairwise.imp ?_ (List.pairwise_lt_range (n := num))
  intro i j hij
  have hd : (0 : Int) < max ((num : Int) - 1) 1 := by omega
  have : (i : Int) * c02_spanSec toSec a b ≤ (j : Int) * c02_spanSec toSec a b :=
    Int.mul_le_mul_of_nonneg_right (by exact_mod_cast hij.le) hs
  have := C02.tdiv_mono _ _ _ hd this
  nlinarith

private theorem tick_anti (a b : Stamp) (num : Nat) (hs : c02_spanSec toSec a b ≤ 0) :
    (ticks toSec a b num).Pairwise (· ≥ ·) := by
  have hp := Bridge.perSecOf_pos (Bridge.fine toSec a).1
  rw [ticks, List.pairwise_map]
  refine List.Pairwise.imp ?_ (List.pairwise_lt_range (n := num))
  intro i j hij
  have hd : (0 : Int) < max ((num : Int) - 1) 1 := by omega
  have : (j : Int) * c02_spanSec toSec a b ≤ (i : Int) * c02_spanSec toSec a b :=
    Int.mul_le_mul_of_nonpos_right (by exact_mod_cast hij.le) hs
  have := C02.tdiv_mono _ _ _ hd this
  show _ ≤ _
  nlinarith

/-- **non-decreasing**: when the first date is not after the second, the dates of a group are in non-decreasing order
of the particle index -/
theorem c02_nondecreasing (a b : Stamp) (num : Nat) (hab : c02_startFine toSec a b ≤ c02_stopFine toSec a b) :
    ∃ ts : List Int,
      dateRangeSeq toSec Prod.mk (.seq [a, b]) num = some (some (ts.map (fun t => ((Bridge.fine toSec a).1, some t)))) ∧
      ts.Pairwise (· ≤ ·) := by
  refine ⟨ticks toSec a b num, run_ticks toSec Prod.mk a b num, tick_mono toSec a b num ?_⟩
  obtain ⟨h1, h2⟩ := c02_spanSec_spec toSec a b
  have hp := c02_tps_pos toSec a b
  by_contra hcon
  have : c02_spanSec toSec a b + 1 ≤ 0 := by omega
  nlinarith
/-- the hypothesis holds: a `date` and a later millisecond stamp, seven particles -/
example := c02_nondecreasing coarseToSec (.D, 10957) (.ms, 946771200500) 7 (by decide)

/-- **reversed span**: when the first date is after the second, the dates are in non-increasing order (the sort of
`make_release` puts the rows in order, `c02_rows_sorted`) -/
theorem c02_reversed_nonincreasing (a b : Stamp) (num : Nat) (hab : c02_stopFine toSec a b ≤ c02_startFine toSec a b) :
    ∃ ts : List Int,
      dateRangeSeq toSec Prod.mk (.seq [a, b]) num = some (some (ts.map (fun t => ((Bridge.fine toSec a).1, some t)))) ∧
      ts.Pairwise (· ≥ ·) := by
  refine ⟨ticks toSec a b num, run_ticks toSec Prod.mk a b num, tick_anti toSec a b num ?_⟩
  obtain ⟨h1, h2⟩ := c02_spanSec_spec toSec a b
  have hp := c02_tps_pos toSec a b
  by_contra hcon
  have : 1 ≤ c02_spanSec toSec a b := by omega
  nlinarith
/-- the hypothesis holds: a reversed span -/
example := c02_reversed_nonincreasing coarseToSec (.ms, 1500) (.ms, 0) 3 (by decide)

/-- **evenly spaced, to the whole second**: with `dt` the whole seconds of the span (`dt ≤ stop - start < dt + 1` s),
particle `i` is released `q` whole seconds after `start`, where `q` differs from the exact `i · dt / max(num - 1, 1)` by
less than one second (truncation toward zero) — for spans that `num - 1` does not divide, zero and reversed spans -/
theorem c02_evenly_spaced (a b : Stamp) (num : Nat) :
    ∃ dt : Int, dt * c02_tps toSec a b ≤ c02_stopFine toSec a b - c02_startFine toSec a b ∧
        c02_stopFine toSec a b - c02_startFine toSec a b < (dt + 1) * c02_tps toSec a b ∧
      ∃ ts : List Int,
        dateRangeSeq toSec Prod.mk (.seq [a, b]) num = some (some (ts.map (fun t => ((Bridge.fine toSec a).1, some t)))) ∧
        ∀ i : Nat, i < num → ∃ q : Int,
          ts[i]? = some ((Bridge.fine toSec a).2 + q * Bridge.perSecOf (Bridge.fine toSec a).1) ∧
          (q : ℚ) - ((i : ℚ) * dt) / (max ((num : Int) - 1) 1 : Int) < 1 ∧
          ((i : ℚ) * dt) / (max ((num : Int) - 1) 1 : Int) - q < 1 := by
  obtain ⟨h1, h2⟩ := c02_spanSec_spec toSec a b
  refine ⟨c02_spanSec toSec a b, h1, h2, ticks toSec a b num, run_ticks toSec Prod.mk a b num, ?_⟩
  intro i hi
  refine ⟨((i : Int) * c02_spanSec toSec a b).tdiv (max ((num : Int) - 1) 1), ?_, ?_⟩
  · simp [ticks, hi]
  · have hd : (0 : Int) < max ((num : Int) - 1) 1 := by omega
    have := C02.even_spacing ((i : Int) * c02_spanSec toSec a b) _ hd
    push_cast at this ⊢
    exact this

/-- **exactly evenly spaced** when `num - 1` divides the whole seconds of the span: the step is `dt / (num - 1)` -/
theorem c02_evenly_spaced_exact (a b : Stamp) (num : Nat) (hn : 2 ≤ num) (step : Int)
    (hstep : c02_spanSec toSec a b = ((num : Int) - 1) * step) :
    dateRangeSeq toSec Prod.mk (.seq [a, b]) num = some (some ((List.range num).map (fun i : Nat =>
      ((Bridge.fine toSec a).1, some ((Bridge.fine toSec a).2 + (i : Int) * step * Bridge.perSecOf (Bridge.fine toSec a).1))))) := by
  rw [c02_closed_form, hstep]
  have hd : max ((num : Int) - 1) 1 = (num : Int) - 1 := by omega
  congr 2
  apply List.map_congr_left
  intro i _
  rw [hd, show (i : Int) * (((num : Int) - 1) * step) = ((num : Int) - 1) * ((i : Int) * step) by ring,
    Int.mul_tdiv_cancel_left _ (by omega)]
/-- the hypotheses hold: ten seconds, three particles, step 5 s -/
example := c02_evenly_spaced_exact coarseToSec (.s, 100) (.s, 110) 3 (by decide) 5 (by decide)

/-- **zero span**: two equal dates yield that date for every particle -/
theorem c02_zero_span {ρ : Type} (render : TUnit → Option Int → ρ) (a b : Stamp) (num : Nat)
    (hab : Bridge.fine toSec a = Bridge.fine toSec b) :
    dateRangeSeq toSec render (.seq [a, b]) num =
      some (some (List.replicate num (render (Bridge.fine toSec a).1 (some (Bridge.fine toSec a).2)))) := by
  have hz : c02_spanSec toSec a b = 0 := by
    unfold c02_spanSec diffSeconds
    rw [← hab]; simp
  rw [c02_closed_form, hz]
  simp [List.map_const']
/-- the hypothesis holds: 1970-01-02 as a `date` and as a second stamp -/
example := c02_zero_span coarseToSec renderStamp (.D, 1) (.s, 86400) 5 (by decide)

/-- **a single date yields that date itself**, for every particle: given as a string … -/
theorem c02_single_date_str {ρ : Type} (render : TUnit → Option Int → ρ) (d : Stamp) (num : Nat) :
    dateRangeSeq toSec render (.str d) num =
      some (some (List.replicate num (render (Bridge.fine toSec d).1 (some (Bridge.fine toSec d).2)))) := by
  rw [Bridge.run_str, c02_zero_span toSec render d d num rfl]

/-- … or as a `date` / `datetime` / `datetime64` object -/
theorem c02_single_date_scalar {ρ : Type} (render : TUnit → Option Int → ρ) (d : Stamp) (num : Nat) :
    dateRangeSeq toSec render (.scalar d) num =
      some (some (List.replicate num (render (Bridge.fine toSec d).1 (some (Bridge.fine toSec d).2)))) :=
  Bridge.date_range_single c02_divisor_text toSec render d num

/-- **a single particle yields the (first) date itself**, whatever the second date -/
theorem c02_single_particle {ρ : Type} (render : TUnit → Option Int → ρ) (a b : Stamp) :
    dateRangeSeq toSec render (.seq [a, b]) 1 = some (some [render (Bridge.fine toSec a).1 (some (Bridge.fine toSec a).2)]) := by
  rw [c02_closed_form]; simp

/-- **every emitted date is a valid time stamp** (PARTIAL: what is shown is that no date is `NaT` — `c02_num_dates_valid` —
and that, for dates given in seconds or coarser and numpy's renderer `Dates.renderStamp`, every emitted string is the
19-character `YYYY-MM-DDTHH:MM:SS` rendering `Dates.renderISO t` of a whole second `t`.  Missing: LADiM's parser is not
modelled, and that numpy's `astype(str)` is `renderStamp` is checked by the harness, not proved; units finer than seconds
add a fraction, `renderStamp`.) -/
theorem c02_valid_timestamp_partial (a b : Stamp) (num : Nat)
    (ha : Bridge.isCoarse a.1 = true ∨ a.1 = .s) (hb : Bridge.isCoarse b.1 = true ∨ b.1 = .s) :
    ∃ ts : List Int, ts.length = num ∧
      dateRangeSeq toSec renderStamp (.seq [a, b]) num = some (some (ts.map renderISO)) ∧
      ∀ s ∈ ts.map renderISO, s.length = 19 := by
  have fs : (Bridge.fine toSec a).1 = .s := by
    obtain ⟨u, t⟩ := a
    cases u <;> simp [Bridge.fine, Bridge.isCoarse] at ha ⊢
  refine ⟨ticks toSec a b num, by simp [ticks], ?_, ?_⟩
  · rw [run_ticks toSec renderStamp, fs]; rfl
  · intro s hs
    obtain ⟨t, _, rfl⟩ := List.mem_map.mp hs
    exact C02.renderISO_length t
/-- the hypotheses hold: a `date` and a second stamp -/
example := c02_valid_timestamp_partial coarseToSec (.D, 10957) (.s, 946771200) 3 (Or.inl rfl) (Or.inr rfl)

end C02

/-! # C02 — the rows of the table: `make_release` -/
section C02Rows
variable {α : Type}

/-- `frame[columns]` keeps the sort key of a row when `date` is among the wanted columns -/
private theorem selectCols_dateKey (cols want : List String) (row row' : List (Cell α))
    (h : selectCols cols want row = some row') (hd : "date" ∈ want) :
    dateKey want row' = dateKey cols row := by
  -- the cell under the first `date` of `want` is the cell under `date` of `cols`
  have key : ∀ (w : List String) (o : List (Cell α)),
      w.mapM (fun c => (cols.idxOf? c).bind (fun j => row[j]?)) = some o → "date" ∈ w →
      ∃ j c, w.idxOf? "date" = some j ∧ o[j]? = some c ∧ (cols.idxOf? "date").bind (fun j => row[j]?) = some c := by
    intro w
    induction w with
    | nil => intro o _ hm; simp at hm
    | cons x xs ih =>
      intro o ho hm
      simp only [List.mapM_cons] at ho
      cases h1 : (cols.idxOf? x).bind (fun j => row[j]?) with
      | none => simp [h1] at ho
      | some v =>
        cases h2 : xs.mapM (fun c => (cols.idxOf? c).bind (fun j => row[j]?)) with
        | none => simp [h1, h2] at ho
        | some vs =>
          simp [h1, h2] at ho
          subst ho
          by_cases hx : x = "date"
          · subst hx
            exact ⟨0, v, by simp [List.idxOf?_cons], by simp, h1⟩
          · have hm' : "date" ∈ xs := by
              rcases List.mem_cons.mp hm with h | h
              · exact absurd h.symm hx
              · exact h
            obtain ⟨j, c, hj, hc, hcol⟩ := ih vs h2 hm'
            refine ⟨j + 1, c, ?_, by simpa using hc, hcol⟩
            simp [List.idxOf?_cons, hx, hj]
  obtain ⟨j, c, hj, hc, hcol⟩ := key want row' h hd
  unfold dateKey
  simp only [hj, hc]
  cases hi : cols.idxOf? "date" with
  | none => simp [hi] at hcol
  | some j' =>
    simp only [hi, Option.bind_some] at hcol
    simp only [hcol]

/-- without `date` among the wanted columns every key is empty -/
private theorem dateKey_no_date (want : List String) (row : List (Cell α)) (hd : "date" ∉ want) :
    dateKey want row = "" := by
  unfold dateKey
  cases hi : want.idxOf? "date" with
  | none => rfl
  | some j =>
    exfalso
    rw [List.idxOf?_eq_some_iff] at hi
    obtain ⟨hlt, he, _⟩ := hi
    exact hd (he ▸ List.getElem_mem hlt)

private theorem mapM_pairwise {β γ : Type} (f : β → Option γ) (R : β → β → Prop) (S : γ → γ → Prop)
    (hRS : ∀ x y x' y', f x = some x' → f y = some y' → R x y → S x' y') :
    ∀ (l : List β) (o : List γ), l.mapM f = some o → l.Pairwise R → o.Pairwise S := by
  intro l
  induction l with
  | nil => intro o h _; simp at h; subst h; exact List.Pairwise.nil
  | cons x xs ih =>
    intro o h hp
    simp only [List.mapM_cons] at h
    cases h1 : f x with
    | none => simp [h1] at h
    | some x' =>
      cases h2 : xs.mapM f with
      | none => simp [h1, h2] at h
      | some o' =>
        simp [h1, h2] at h
        subst h
        rw [List.pairwise_cons] at hp ⊢
        refine ⟨?_, ih o' h2 hp.2⟩
        intro y' hy'
        -- y' comes from some y ∈ xs
        have : ∀ (l : List β) (o : List γ), l.mapM f = some o → ∀ y' ∈ o, ∃ y ∈ l, f y = some y' := by
          intro l
          induction l with
          | nil => intro o h y' hy'; simp at h; subst h; simp at hy'
          | cons a as iha =>
            intro o h y' hy'
            simp only [List.mapM_cons] at h
            cases g1 : f a with
            | none => simp [g1] at h
            | some a' =>
              cases g2 : as.mapM f with
              | none => simp [g1, g2] at h
              | some o'' =>
                simp [g1, g2] at h
                subst h
                rcases List.mem_cons.mp hy' with rfl | hm
                · exact ⟨a, by simp, g1⟩
                · obtain ⟨y, hy, hfy⟩ := iha o'' g2 y' hm
                  exact ⟨y, List.mem_cons_of_mem _ hy, hfy⟩
        obtain ⟨y, hy, hfy⟩ := this xs o' h2 y' hy'
        exact hRS x y x' y' h1 hfy (hp.1 y hy)

/-- **the rows of the release table are in non-decreasing date order**: whenever `make_release`, as its generated
statement sequence says, returns a table — any number of groups, any frames, with or without `columns`, `seed`, file
name — the rows are in non-decreasing order of the string in the `date` column (`sort_values('date')`).
(`Table.dateKey cols row` = that string.) -/
theorem c02_rows_sorted (zero : α) (groups : List (Frame α × Nat)) (columns : Option (List String))
    (hasSeed fname : Bool) (cols : List String) (rows : List (List (Cell α)))
    (h : runMakeRelease zero groups columns hasSeed fname Gen.make_release_seq = some (some (cols, rows))) :
    rows.Pairwise (fun r s => dateKey cols r ≤ dateKey cols s) := by
  rw [Bridge.make_release_seq_full] at h
  simp only [Option.some.injEq] at h
  split_ifs at h with hemp
  unfold makeTable at h
  split_ifs at h with hok
  have hsorted := C01.sortRows_sorted (concatFill zero groups).1 (concatFill zero groups).2
  cases columns with
  | none =>
    simp only [Option.some.injEq, Prod.mk.injEq] at h
    obtain ⟨rfl, rfl⟩ := h
    exact hsorted
  | some want =>
    simp only [Option.map_eq_some_iff, Prod.mk.injEq] at h
    obtain ⟨rs, hrs, rfl, rfl⟩ := h
    by_cases hd : "date" ∈ want
    · refine mapM_pairwise _ _ _ ?_ _ _ hrs hsorted
      intro x y x' y' hx hy hxy
      rw [selectCols_dateKey _ _ _ _ hx hd, selectCols_dateKey _ _ _ _ hy hd]
      exact hxy
    · refine List.Pairwise.imp_of_mem ?_ (List.pairwise_of_forall (R := fun _ _ => True) (fun _ _ => trivial))
      intro r s _ _ _
      rw [dateKey_no_date _ r hd, dateKey_no_date _ s hd]

/-- `make_release` does return a table for a non-empty list of groups whose frames are rectangular (every column of a
group has `num` cells), when no `columns` are selected -/
theorem c02_rows_sorted_returns (zero : α) (groups : List (Frame α × Nat)) (hasSeed fname : Bool)
    (hne : groups ≠ []) (hok : groups.all (fun g => frameOk g.1 g.2) = true) :
    ∃ cols rows, runMakeRelease zero groups none hasSeed fname Gen.make_release_seq = some (some (cols, rows)) ∧
      rows.Pairwise (fun r s => dateKey cols r ≤ dateKey cols s) := by
  have hrun : runMakeRelease zero groups none hasSeed fname Gen.make_release_seq =
      some (some ((concatFill zero groups).1, sortRows (concatFill zero groups).1 (concatFill zero groups).2)) := by
    rw [Bridge.make_release_seq zero groups none hasSeed fname hne]
    simp [makeTable, hok]
  exact ⟨_, _, hrun, c02_rows_sorted zero groups none hasSeed fname _ _ hrun⟩
/-- two interleaved groups (three rows; the second group has no column `x`) -/
private def exG1 : Frame Int × Nat :=
  ([("date", [.str "2000-01-03T00:00:00", .str "2000-01-01T00:00:00"]), ("x", [.num 1, .num 2])], 2)
private def exG2 : Frame Int × Nat := ([("date", [.str "2000-01-02T00:00:00"])], 1)
/-- the hypotheses hold -/
example := c02_rows_sorted_returns (0 : Int) [exG1, exG2] true false (by decide) (by decide)
/-- the hypothesis of `c02_rows_sorted` holds, also with `columns` (the interpretation evaluated) -/
example : runMakeRelease (0 : Int) [exG1, exG2] (some ["x", "date"]) false true Gen.make_release_seq =
    some (some (["x", "date"], [[.num 2, .str "2000-01-01T00:00:00"], [.num 0, .str "2000-01-02T00:00:00"],
      [.num 1, .str "2000-01-03T00:00:00"]])) := by decide

/-- **… in non-decreasing *time* order**: when the `date` cells are the ISO renderings of whole seconds in the years
0000 … 9999 (what `date_range` emits for dates in seconds or coarser, `c02_valid_timestamp_partial`), the rows are in
non-decreasing order of those times — the order of the strings is the order of the times (`C02Iso`) -/
theorem c02_rows_sorted_by_time (zero : α) (groups : List (Frame α × Nat)) (columns : Option (List String))
    (hasSeed fname : Bool) (cols : List String) (rows : List (List (Cell α)))
    (h : runMakeRelease zero groups columns hasSeed fname Gen.make_release_seq = some (some (cols, rows)))
    (time : List (Cell α) → Int)
    (hiso : ∀ r ∈ rows, dateKey cols r = renderISO (time r) ∧ isoLo ≤ time r ∧ time r ≤ isoHi) :
    rows.Pairwise (fun r s => time r ≤ time s) := by
  have hs := c02_rows_sorted zero groups columns hasSeed fname cols rows h
  apply C02.sorted_by_iso_string_is_sorted_by_time time rows (fun r hr => (hiso r hr).2)
  refine List.Pairwise.imp_of_mem ?_ hs
  intro r s hr hs' hle
  rw [← (hiso r hr).1, ← (hiso s hs').1]
  exact hle
private def exG3 : Frame Int × Nat := ([("date", [.str "1970-01-02T00:00:00", .str "1970-01-01T00:00:00"])], 2)
/-- the hypotheses hold: two rows given in reversed order, times 0 s and 86400 s -/
example : True := by
  have h : runMakeRelease (0 : Int) [exG3] none false false Gen.make_release_seq =
      some (some (["date"], [[.str "1970-01-01T00:00:00"], [.str "1970-01-02T00:00:00"]])) := by decide
  have := c02_rows_sorted_by_time (0 : Int) [exG3] none false false _ _ h
    (fun r => if dateKey ["date"] r = "1970-01-01T00:00:00" then 0 else 86400)
    (by intro r hr
        simp only [List.mem_cons, List.not_mem_nil, or_false] at hr
        rcases hr with rfl | rfl <;> decide)
  trivial

end C02Rows

/-! # C04 — `get_attr` / `get_distribution`

`Seq.getAttrSeq byName spec num draws` runs `Gen.get_attr_seq` on the value `Val.ofSpec byName spec` (`byName`: a
callable is given by its dotted name and resolved by the four `importlib` statements) and, at
`v = get_distribution(v, num)`, `Gen.get_distribution_seq`.  `draws` are the standard draws of the random generator, one
per particle (`u ∈ [0, 1)` for `uniform` / `rand`, a standard normal `z`, a standard exponential `e ≥ 0`): "all seeds" is
"all lists of draws".  Values live in an arbitrary linear ordered field. -/
section C04
variable {α : Type} [Field α] [LinearOrder α] [IsStrictOrderedRing α]

/-- **constant attributes are repeated** for every particle -/
theorem c04_constant_repeated (byName : Bool) (v : α) (num : Nat) (draws : List α) :
    getAttrSeq byName (.const v) num draws = some (some (List.replicate num v)) := by
  obtain ⟨cv, _, h⟩ := Bridge.get_attr_seq (α := α)
  rw [h]; rfl

/-- **explicit lists are reproduced verbatim in particle order**: a list of length `num` is returned as given (also a
list of two values for two particles, which the code tells from a range by `num != 2`) -/
theorem c04_list_verbatim (byName : Bool) (vs : List α) (num : Nat) (draws : List α) (hlen : vs.length = num) :
    getAttrSeq byName (.list vs) num draws = some (some vs) := by
  obtain ⟨cv, _, h⟩ := Bridge.get_attr_seq (α := α)
  rw [h, C04.list_verbatim cv vs num draws (by omega)]
/-- the hypothesis holds: two values for two particles -/
example := c04_list_verbatim (α := ℚ) false [3, 4] 2 [] rfl

/-- **callables or dotted function names receive the particle count**: `out` is what the function returns for `num`;
it is the result, whether the function is given as a callable (`byName = false`) or by its dotted name -/
theorem c04_callable_result (byName : Bool) (out : List α) (num : Nat) (draws : List α) :
    getAttrSeq byName (.callable out) num draws = some (some out) := by
  obtain ⟨cv, _, h⟩ := Bridge.get_attr_seq (α := α)
  rw [h]; rfl

/-- **two-element ranges yield values inside the range**: `num` values, each in `[lo, hi]` (in `[lo, hi)` when
`lo < hi`), for all uniform draws in `[0, 1)`.  Side condition of the CODE (not of a bridge): `num ≠ 2` — for two
particles the code takes `[lo, hi]` for the explicit list of the two values (`c04_list_verbatim`). -/
theorem c04_range_inside (byName : Bool) (lo hi : α) (num : Nat) (draws : List α) (hn : num ≠ 2) (h : lo ≤ hi)
    (hd : num ≤ draws.length) (hu : ∀ u ∈ draws, 0 ≤ u ∧ u < 1) :
    ∃ vs, getAttrSeq byName (.list [lo, hi]) num draws = some (some vs) ∧ vs.length = num ∧
      ∀ v ∈ vs, lo ≤ v ∧ v ≤ hi ∧ (lo < hi → v < hi) := by
  obtain ⟨cv, _, hb⟩ := Bridge.get_attr_seq (α := α)
  obtain ⟨vs, hvs, hl, rfl⟩ := C04.range_values cv lo hi num draws hn hd
  refine ⟨_, by rw [hb, hvs], hl, ?_⟩
  intro v hv
  obtain ⟨u, hu', rfl⟩ := List.mem_map.mp hv
  obtain ⟨h0, h1⟩ := hu u (List.mem_of_mem_take hu')
  exact C04.range_in_range lo hi u h h0 h1
/-- the hypotheses hold: `[0, 10]`, three particles -/
example := c04_range_inside (α := ℚ) false 0 10 3 [0, 1/2, 9/10] (by decide) (by norm_num) (by decide)
  (by intro u hu; simp only [List.mem_cons, List.not_mem_nil, or_false] at hu; rcases hu with rfl | rfl | rfl <;> norm_num)
/-- … and the values are 0, 5, 9 -/
example : getAttrSeq (α := ℚ) false (.list [0, 10]) 3 [0, 1/2, 9/10] = some (some [0, 5, 9]) := by
  obtain ⟨cv, _, h⟩ := Bridge.get_attr_seq (α := ℚ)
  rw [h]; simp [getAttr, rangeValue]; norm_num

/-- **exponential values are non-negative and do not exceed `max`** (with or without `max`), `num` of them, for all
standard exponential draws `e ≥ 0`.  Side conditions of a valid configuration: `mean ≥ 0` (numpy rejects a negative
scale), `max ≥ 0` when given. -/
theorem c04_exponential_bounds (byName : Bool) (mean : α) (mx : Option α) (num : Nat) (draws : List α)
    (hm : 0 ≤ mean) (hmx : ∀ b, mx = some b → 0 ≤ b) (hd : num ≤ draws.length) (he : ∀ e ∈ draws, 0 ≤ e) :
    ∃ vs, getAttrSeq byName (.exponential mean mx) num draws = some (some vs) ∧ vs.length = num ∧
      ∀ v ∈ vs, 0 ≤ v ∧ ∀ b, mx = some b → v ≤ b := by
  obtain ⟨cv, _, hb⟩ := Bridge.get_attr_seq (α := α)
  refine ⟨(draws.take num).map (exponentialValue mean mx), by rw [hb]; rfl, by simp [hd], ?_⟩
  intro v hv
  obtain ⟨e, he', rfl⟩ := List.mem_map.mp hv
  exact C04.exponential_bounds mean e mx hm (he e (List.mem_of_mem_take he')) hmx
/-- the hypotheses hold: mean 10, max 25, draws 0, 1, 3 -/
example := c04_exponential_bounds (α := ℚ) true 10 (some 25) 3 [0, 1, 3] (by norm_num)
  (by intro b hb; cases hb; norm_num) (by decide)
  (by intro u hu; simp only [List.mem_cons, List.not_mem_nil, or_false] at hu; rcases hu with rfl | rfl | rfl <;> norm_num)

/-- **gaussian values do not exceed `max`** — on the CURRENT text (known finding F-C04a: the source has
`np.clip(minimum, maximum, r)`, which does not enforce `min`) and on the repaired text alike: `num` values, each `≤ max`,
for all normal draws.  Side condition: `min ≤ max` when both are given. -/
theorem c04_gaussian_upper (byName : Bool) (mean std : α) (mn : Option α) (b : α) (num : Nat) (draws : List α)
    (hmm : ∀ a, mn = some a → a ≤ b) (hd : num ≤ draws.length) :
    ∃ vs, getAttrSeq byName (.gaussian mean std mn (some b)) num draws = some (some vs) ∧ vs.length = num ∧
      ∀ v ∈ vs, v ≤ b := by
  obtain ⟨cv, _, hb⟩ := Bridge.get_attr_seq (α := α)
  refine ⟨(draws.take num).map (gaussianValue cv mean std mn (some b)), by rw [hb]; rfl, by simp [hd], ?_⟩
  intro v hv
  obtain ⟨z, _, rfl⟩ := List.mem_map.mp hv
  cases cv with
  | correct => exact (C04.gaussian_bounds mean std z mn (some b) (by intro a b' ha hb'; cases hb'; exact hmm a ha)).2 b rfl
  | swapped =>
    cases mn with
    | none => simp only [gaussianValue, fmin]; split_ifs <;> linarith
    | some a => exact (C04.gaussian_bounds_partial mean std z a b (hmm a rfl)).1
/-- the hypotheses hold: mean 5, std 1, min 4, max 6 -/
example := c04_gaussian_upper (α := ℚ) false 5 1 (some 4) 6 2 [-227/100, 3] (by intro a ha; cases ha; norm_num) (by decide)

/-- **gaussian values stay within `min` and `max`** — the full clause, for the REPAIRED text
`np.clip(r, minimum, maximum)`: the hypothesis `hclip` says that this is what `Gen.get_distribution_seq` shows.  On the
current text `hclip` is false (`Seq.clipSeen Gen.get_distribution_seq = some .swapped`, F-C04a) and the lower bound does
fail (`c04_gaussian_lower_fails_when_swapped`); no instance of `hclip` can be given until the source is repaired. -/
theorem c04_gaussian_bounds_repaired (hclip : Seq.clipSeen Gen.get_distribution_seq = some .correct)
    (byName : Bool) (mean std : α) (mn mx : Option α) (num : Nat) (draws : List α)
    (hmm : ∀ a b, mn = some a → mx = some b → a ≤ b) (hd : num ≤ draws.length) :
    ∃ vs, getAttrSeq byName (.gaussian mean std mn mx) num draws = some (some vs) ∧ vs.length = num ∧
      ∀ v ∈ vs, (∀ a, mn = some a → a ≤ v) ∧ (∀ b, mx = some b → v ≤ b) := by
  have hb := Bridge.get_attr_seq_of (α := α) .correct hclip
  refine ⟨(draws.take num).map (gaussianValue .correct mean std mn mx), by rw [hb]; rfl, by simp [hd], ?_⟩
  intro v hv
  obtain ⟨z, _, rfl⟩ := List.mem_map.mp hv
  exact C04.gaussian_bounds mean std z mn mx hmm

/-- the lower bound is NOT enforced by the text `np.clip(minimum, maximum, r)`: mean 5, std 1, min 4, max 6 and the
normal draw −2.27 give 2.73 < 4 -/
theorem c04_gaussian_lower_fails_when_swapped (hclip : Seq.clipSeen Gen.get_distribution_seq = some .swapped)
    (byName : Bool) :
    getAttrSeq byName (.gaussian (5 : ℚ) 1 (some 4) (some 6)) 1 [-227 / 100] = some (some [273 / 100]) := by
  rw [Bridge.get_attr_seq_of (α := ℚ) .swapped hclip]
  simp only [getAttr]
  unfold gaussianValue fmin fmax
  norm_num
/-- the generated text shows one of the two argument orders: one of `c04_gaussian_bounds_repaired` and
`c04_gaussian_lower_fails_when_swapped` applies (on the current text the second) -/
example : Seq.clipSeen Gen.get_distribution_seq = some .swapped ∨ Seq.clipSeen Gen.get_distribution_seq = some .correct := by
  obtain ⟨cv, h⟩ := Bridge.clip_seen
  cases cv
  · exact Or.inl h
  · exact Or.inr h

/-- **a gaussian with only its required keys** (`mean`, `std`) is accepted: the values are `mean + std · z`, whatever
the argument order of the clip -/
theorem c04_gaussian_required_keys (byName : Bool) (mean std : α) (num : Nat) (draws : List α) :
    getAttrSeq byName (.gaussian mean std none none) num draws =
      some (some ((draws.take num).map (fun z => mean + std * z))) := by
  obtain ⟨cv, _, hb⟩ := Bridge.get_attr_seq (α := α)
  rw [hb]
  simp only [getAttr]
  congr 2
  apply List.map_congr_left
  intro z _
  exact C04.gaussian_unbounded cv mean std z

/-- **piecewise values stay within the knot range**: `num` values, each between the first knot and every upper bound
`M` of the knots (so: at most the largest knot), for all draws.  Side conditions of a valid specification: the
cumulative probabilities increase strictly, the knots do not decrease (both non-empty). -/
theorem c04_piecewise_range (byName : Bool) (k0 c0 : α) (ks cs : List α) (num : Nat) (draws : List α)
    (hc : List.Pairwise (· < ·) (c0 :: cs)) (hk : List.Pairwise (· ≤ ·) (k0 :: ks)) (hd : num ≤ draws.length) :
    ∃ vs, getAttrSeq byName (.piecewise (k0 :: ks) (c0 :: cs)) num draws = some (some vs) ∧ vs.length = num ∧
      ∀ v ∈ vs, k0 ≤ v ∧ ∀ M, (∀ y ∈ k0 :: ks, y ≤ M) → v ≤ M := by
  obtain ⟨cv, _, hb⟩ := Bridge.get_attr_seq (α := α)
  let f : α → α := fun u => if u < c0 then k0 else interpGo u c0 k0 cs ks
  have hf : ∀ u, piecewiseValue (k0 :: ks) (c0 :: cs) u = some (f u) := fun u => rfl
  have hrun : getAttr cv (.piecewise (k0 :: ks) (c0 :: cs)) num draws = some ((draws.take num).map f) := by
    simp only [getAttr]
    rw [show piecewiseValue (k0 :: ks) (c0 :: cs) = fun u => some (f u) from funext hf, Bridge.mapM_some_map]
  refine ⟨(draws.take num).map f, by rw [hb, hrun], by simp [hd], ?_⟩
  intro v hv
  obtain ⟨u, _, rfl⟩ := List.mem_map.mp hv
  refine ⟨?_, fun M hM => (C04.piecewise_range k0 c0 ks cs u (f u) M hc hk hM (hf u)).2⟩
  show k0 ≤ (if u < c0 then k0 else interpGo u c0 k0 cs ks)
  split_ifs with hlt
  · exact le_refl _
  · exact InterpLemmas.interpGo_ge cs ks c0 k0 u hc hk (not_lt.mp hlt)
/-- the hypotheses hold: knots 0, 10, 20 at the probabilities 0, 1/2, 1 -/
example := c04_piecewise_range (α := ℚ) false 0 0 [10, 20] [1/2, 1] 2 [1/4, 3/4] (by norm_num) (by norm_num) (by decide)

/-- the interpolant passes through every knot: at the `j`-th abscissa its value is the `j`-th ordinate -/
private theorem interpGo_at_knot (xs : List α) : ∀ (ys : List α) (x0 y0 : α) (j : Nat) (x y : α),
    xs.length = ys.length → List.Pairwise (· < ·) (x0 :: xs) →
    (x0 :: xs)[j]? = some x → (y0 :: ys)[j]? = some y → interpGo x x0 y0 xs ys = y := by
  induction xs with
  | nil =>
    intro ys x0 y0 j x y hl _ hx hy
    cases ys with
    | nil =>
      cases j with
      | zero => simp at hx hy; subst hx hy; simp [interpGo]
      | succ j => simp at hx
    | cons _ _ => simp at hl
  | cons x1 xs ih =>
    intro ys x0 y0 j x y hl hp hx hy
    cases ys with
    | nil => simp at hl
    | cons y1 ys =>
      rw [List.pairwise_cons] at hp
      have h01 : x0 < x1 := hp.1 x1 (by simp)
      cases j with
      | zero =>
        simp at hx hy; subst hx hy
        simp [interpGo, h01]
      | succ j =>
        simp only [List.getElem?_cons_succ] at hx hy
        have hge : ¬ x < x1 := by
          have hmem : x ∈ x1 :: xs := List.mem_of_getElem? hx
          rcases List.mem_cons.mp hmem with rfl | hm
          · exact lt_irrefl _
          · exact not_lt.mpr ((List.pairwise_cons.mp hp.2).1 x hm).le
        simp only [interpGo, hge, if_false]
        exact ih ys x1 y1 j x y (by simpa using hl) hp.2 hx hy

/-- **piecewise values follow the given cumulative probabilities**: for every particle, the value is at most the `j`-th
knot whenever the uniform draw is at most the `j`-th cumulative probability, and at least that knot whenever the draw is
at least that probability (the interpolant is non-decreasing and passes through every (cdf, knot) pair) — so
`P(value ≤ knot_j) ≥ cdf_j`, with equality when the knots increase strictly.  Side conditions as in
`c04_piecewise_range`, and as many knots as probabilities. -/
theorem c04_piecewise_follows_cdf (byName : Bool) (k0 c0 : α) (ks cs : List α) (num : Nat) (draws : List α)
    (hlen : ks.length = cs.length)
    (hc : List.Pairwise (· < ·) (c0 :: cs)) (hk : List.Pairwise (· ≤ ·) (k0 :: ks)) :
    ∃ vs, getAttrSeq byName (.piecewise (k0 :: ks) (c0 :: cs)) num draws = some (some vs) ∧
      ∀ (i : Nat) (u v : α), i < num → draws[i]? = some u → vs[i]? = some v →
        ∀ (j : Nat) (c k : α), (c0 :: cs)[j]? = some c → (k0 :: ks)[j]? = some k → (u ≤ c → v ≤ k) ∧ (c ≤ u → k ≤ v) := by
  obtain ⟨cv, _, hb⟩ := Bridge.get_attr_seq (α := α)
  let f : α → α := fun u => if u < c0 then k0 else interpGo u c0 k0 cs ks
  have hf : ∀ u, piecewiseValue (k0 :: ks) (c0 :: cs) u = some (f u) := fun u => rfl
  have hrun : getAttr cv (.piecewise (k0 :: ks) (c0 :: cs)) num draws = some ((draws.take num).map f) := by
    simp only [getAttr]
    rw [show piecewiseValue (k0 :: ks) (c0 :: cs) = fun u => some (f u) from funext hf, Bridge.mapM_some_map]
  refine ⟨(draws.take num).map f, by rw [hb, hrun], ?_⟩
  intro i u v hi hu hv j c k hcj hkj
  have hv' : v = f u := by
    simp [List.getElem?_map, List.getElem?_take, hi, hu] at hv
    exact hv.symm
  subst hv'
  -- the value at the knot
  have hknot : piecewiseValue (k0 :: ks) (c0 :: cs) c = some k := by
    rw [hf]
    show some (if c < c0 then k0 else interpGo c c0 k0 cs ks) = some k
    have hge : ¬ c < c0 := by
      have hmem : c ∈ c0 :: cs := List.mem_of_getElem? hcj
      rcases List.mem_cons.mp hmem with rfl | hm
      · exact lt_irrefl _
      · exact not_lt.mpr ((List.pairwise_cons.mp hc).1 c hm).le
    rw [if_neg hge, interpGo_at_knot cs ks c0 k0 j c k hlen.symm hc hcj hkj]
  exact ⟨fun h => C04.piecewise_monotone (k0 :: ks) (c0 :: cs) u c (f u) k hc hk h (hf u) hknot,
    fun h => C04.piecewise_monotone (k0 :: ks) (c0 :: cs) c u k (f u) hc hk h hknot (hf u)⟩
/-- the hypotheses hold for the same specification -/
example := c04_piecewise_follows_cdf (α := ℚ) false 0 0 [10, 20] [1/2, 1] 2 [1/4, 3/4] rfl (by norm_num) (by norm_num)

/-- **every documented form is accepted for every particle count**: for a scalar, a list of length `num`, a range
`[low, high]`, a gaussian with or without `min` / `max`, an exponential with or without `max`, a piecewise form with at
least one knot and one probability, a callable and a dotted name (returning `num` values), `get_attr` returns — it
does not raise — exactly `num` values, for every `num` and all draws.  (On the repaired and on the current text.) -/
theorem c04_every_form_accepted (byName : Bool) (sp : Spec α) (num : Nat) (draws : List α)
    (hd : draws.length = num)
    (hl : ∀ l, sp = .list l → l.length = num) (hcall : ∀ o, sp = .callable o → o.length = num)
    (hpw : ∀ k c, sp = .piecewise k c → k ≠ [] ∧ c ≠ []) :
    ∃ vs, getAttrSeq byName sp num draws = some (some vs) ∧ vs.length = num := by
  obtain ⟨cv, _, hb⟩ := Bridge.get_attr_seq (α := α)
  have hsome : ∃ vs, getAttr cv sp num draws = some vs := by
    cases sp with
    | const v => exact ⟨_, rfl⟩
    | list l =>
      match l with
      | [] | [_] | _ :: _ :: _ :: _ => exact ⟨_, rfl⟩
      | [a, b] => by_cases h2 : num = 2 <;> simp [getAttr, h2]
    | gaussian m sd mn mx => exact ⟨_, rfl⟩
    | exponential m mx => exact ⟨_, rfl⟩
    | callable o => exact ⟨_, rfl⟩
    | piecewise k c =>
      obtain ⟨hk, hc⟩ := hpw k c rfl
      match k, c, hk, hc with
      | k0 :: ks, c0 :: cs, _, _ =>
        refine ⟨(draws.take num).map (fun u => if u < c0 then k0 else interpGo u c0 k0 cs ks), ?_⟩
        simp only [getAttr]
        rw [show piecewiseValue (k0 :: ks) (c0 :: cs) =
          fun u => some (if u < c0 then k0 else interpGo u c0 k0 cs ks) from rfl, Bridge.mapM_some_map]
  obtain ⟨vs, hvs⟩ := hsome
  exact ⟨vs, by rw [hb, hvs], C04.generators_length cv sp num draws vs hd hl hcall hvs⟩
/-- the hypotheses hold: a gaussian with only `mean` and `std`, two particles -/
example := c04_every_form_accepted (α := ℚ) true (.gaussian 5 1 none none) 2 [0, 1] rfl
  (fun _ h => by cases h) (fun _ h => by cases h) (fun _ _ h => by cases h)

end C04
end OnCode
