import LadimProofs.C19Weighted
import LadimProofs.Bridge.RasterSeq
import LadimProofs.Bridge.SettledSeq
/-!
# C19 end to end — the clauses of the property, stated about the interpretation of the current source

Property C19 — Post-processing conserves particles
STATEMENT: Rasterising a particle file conserves particles: for every time slot the cell counts sum to the number of particles located within the grid's outer bin edges and each weighted sum equals the total weight of those particles, with bin edges midway between bin centres. Converting an output file to SQLite stores every particle and every particle instance exactly once with its time stamp, and selecting settled particles returns, for each particle, its last recorded instance.
QUANTIFIER: all sparse LADiM datasets (any number of time slots including empty ones, any particle counts), all monotone bin-centre grids, all weights; all pid sequences with repeats

Every main theorem (`OnCode.c19_…`) is about what the interpreters of `LadimModel/Post/{RasterSeq,SettledSeq}.lean`
return when they run the statement sequences generated from the current source:

* `fromParticlesSeq A P none` — by definition `Loops.retVal PtSt.ret (Loops.run (ptInterp A P none)
  Gen.raster_from_particles_seq PtSt.init)`, whose last statement calls `fromParticleSeq`, the run of
  `Gen.raster_from_particle_seq` (`utils/rasterize.py :: from_particles`, `_from_particle`);
* `ladimFileToSqliteSeq files` — the run of `Gen.sqlite_file_seq`, calling the runs of `Gen.sqlite_particles_seq` and
  `Gen.sqlite_instances_seq` (`utils/converter.py :: ladim_file_to_sqlite`, `add_particle_values`,
  `add_instance_values`);
* `runSettledIndex / runSettled / runSettledSt … Gen.settled_particles_seq` (`sedimentation/ibm.py ::
  get_settled_particles`);
* `edgesSeq a` — the run of `Gen.raster_edges_seq` (`utils/rasterize.py :: _edges`) under an interpretation that is
  local to this file (there is none in `LadimModel`).
(The `example`s directly below the imports state these unfoldings.)  The bridges of `LadimProofs/Bridge/{RasterSeq,
SettledSeq}.lean` and the model theorems of `LadimProofs/C19.lean`, `C19Weighted.lean` are used as lemmas; what they
leave open (conservation in any number of dimensions, decreasing axes, the cell that contains a particle, the rows of
one time slot of the SQLite table) is proved here.  The definitions of this file (`allCells`, `countTotal`,
`insideGrid`, `inBin`, `slotRows`, …) are vocabulary of the statements, written in terms of list positions and edges,
not in terms of the hand-written model.

Main theorems and the clause each covers
* `c19_raster_returns` — a sparse dataset gives one raster per time slot (empty slots included) and variable;
* `c19_raster_count_conserved` — "the cell counts sum to the number of particles located within the grid's outer bin edges";
* `c19_raster_weight_conserved` — "each weighted sum equals the total weight of those particles";
* `c19_raster_cells` — each particle is counted in exactly one cell, the one whose edges contain it; no particle of
  another slot is counted; the same cells for counts and weights;
* `c19_raster_decreasing_flipped` — decreasing axes give the same raster, flipped;
* `c19_raster_no_slot` — a dataset without any time slot: the code raises (the quantifier's "any number of time slots"
  fails at zero);
* `c19_raster_centres_midway`, `c19_edges_midway` — "with bin edges midway between bin centres";
* `c19_sqlite_returns`, `c19_sqlite_particle_table`, `c19_sqlite_instance_table`, `c19_instance_row` — "stores every
  particle and every particle instance exactly once with its time stamp", split runs concatenate;
* `c19_settled_last_instance`, `c19_settled_dataset` — "returns, for each particle, its last recorded instance".
-/
open Ladim Ladim.Post Ladim.Seq

set_option linter.unusedSectionVars false
set_option linter.unusedVariables false
set_option linter.unusedSimpArgs false

namespace OnCode.E2E_C19

/-! the entry points are, by definition, runs of the generated sequences -/
section entry
variable {α β τ H : Type} [Add α] [Mul α] [LT α] [DecidableLT α] [OfScientific α]
example (A : HistArgs α β H) (P : Particles β τ) (t : Option Nat) :
    fromParticlesSeq A P t =
      Loops.retVal PtSt.ret (Loops.run (ptInterp A P t) Gen.raster_from_particles_seq PtSt.init) := rfl
example (A : HistArgs α β H) (sl : Nat → Option (List β)) (tv : Option (List τ)) :
    fromParticleSeq A sl tv =
      Loops.retVal FpSt.ret (Loops.run (fpInterp A sl tv) Gen.raster_from_particle_seq FpSt.init) := rfl
example (files : List (LadimFile α)) :
    ladimFileToSqliteSeq files =
      match Loops.run (sqInterp files) Gen.sqlite_file_seq ⟨Db.empty, [], 0, none⟩ with
      | none => none
      | some none => some none
      | some (some s) => some (some s.db) := rfl
end entry

/-! ## vocabulary of the statements -/

/-- all multi-indices of an array of the given shape (`np.ndindex(*shape)`) -/
def allCells : List Nat → List (List Nat)
  | [] => [[]]
  | n :: ns => (List.range n).flatMap (fun k => (allCells ns).map (k :: ·))

/-- `c` is a multi-index of an array of shape `shape` -/
def ValidCell (shape c : List Nat) : Prop :=
  c.length = shape.length ∧ ∀ i (h1 : i < c.length) (h2 : i < shape.length), c[i] < shape[i]

theorem mem_allCells : ∀ (shape c : List Nat), c ∈ allCells shape ↔ ValidCell shape c
  | [], c => by
    simp only [allCells, List.mem_singleton, ValidCell, List.length_nil]
    constructor
    · rintro rfl; exact ⟨rfl, fun i h1 => absurd h1 (by simp)⟩
    · rintro ⟨h, _⟩; exact List.length_eq_zero_iff.1 h
  | n :: ns, c => by
    simp only [allCells, List.mem_flatMap, List.mem_range, List.mem_map]
    constructor
    · rintro ⟨k, hk, c', hc', rfl⟩
      obtain ⟨hl, hall⟩ := (mem_allCells ns c').1 hc'
      refine ⟨by simp [hl], ?_⟩
      intro i h1 h2
      cases i with
      | zero => simpa using hk
      | succ i => simpa using hall i (by simpa using h1) (by simpa using h2)
    · rintro ⟨hl, hall⟩
      cases c with
      | nil => simp at hl
      | cons k c' =>
        have h0 := hall 0 (by simp) (by simp)
        simp only [List.getElem_cons_zero] at h0
        refine ⟨k, h0, c', ?_, rfl⟩
        rw [mem_allCells ns c']
        refine ⟨by simpa using hl, ?_⟩
        intro i h1 h2
        have hi := hall (i + 1) (by simpa using h1) (by simpa using h2)
        simp only [List.getElem_cons_succ] at hi
        exact hi

theorem allCells_nodup : ∀ shape : List Nat, (allCells shape).Nodup
  | [] => by simp [allCells]
  | n :: ns => by
    simp only [allCells]
    rw [List.nodup_flatMap]
    refine ⟨?_, ?_⟩
    · intro k _
      exact (allCells_nodup ns).map (fun a b h => by simpa using h)
    · apply List.Pairwise.imp_of_mem (R := fun a b => a ≠ b)
      · intro a b _ _ hab
        simp only [Function.onFun, List.Disjoint, List.mem_map]
        rintro c ⟨c1, _, rfl⟩ ⟨c2, _, h⟩
        exact hab (by simpa using (List.cons.inj h).1.symm)
      · exact List.nodup_range

/-! ## counting over cells -/
section counting
variable {β ι : Type} [BEq ι] [LawfulBEq ι]

theorem sum_ite_eq_count (L : List ι) (g : ι → ι) (c0 : ι) :
    (L.map (fun c => if c0 == g c then 1 else 0)).sum = (L.map g).count c0 := by
  induction L with
  | nil => rfl
  | cons x xs ih =>
    simp only [List.map_cons, List.sum_cons, ih, List.count_cons]
    rw [show (g x == c0) = (c0 == g x) from BEq.comm]
    omega

/-- every point that has a cell is counted in exactly one cell of the list: the counts add up to the number of points
that have a cell -/
theorem sum_count_cells (L : List ι) (f : β → Option ι) (g : ι → ι)
    (hg : ∀ p c, f p = some c → (L.map g).count c = 1) (pts : List β) :
    (L.map (fun c => (pts.filter (fun p => f p == some (g c))).length)).sum =
      (pts.filter (fun p => (f p).isSome)).length := by
  induction pts with
  | nil => simp
  | cons p ps ih =>
    have step : ∀ c, ((p :: ps).filter (fun p => f p == some (g c))).length =
        (if f p == some (g c) then 1 else 0) + (ps.filter (fun p => f p == some (g c))).length := by
      intro c
      cases h : (f p == some (g c))
      · simp [List.filter_cons, h]
      · simp [List.filter_cons, h]; omega
    simp only [step, List.sum_map_add, ih]
    cases hp : f p with
    | none =>
      have : ∀ c, ((none : Option ι) == some (g c)) = false := fun c => rfl
      simp [List.filter_cons, hp, this]
    | some c0 =>
      have h1 : ∀ c, (some c0 == some (g c)) = (c0 == g c) := fun c => rfl
      simp only [h1, sum_ite_eq_count L g c0, hg p c0 hp, List.filter_cons, hp, Option.isSome_some, if_true,
        List.length_cons]
      omega

theorem sum_ite_eq_count_smul {α : Type} [Field α] (L : List ι) (g : ι → ι) (c0 : ι) (w : α) :
    (L.map (fun c => if c0 == g c then w else 0)).sum = ((L.map g).count c0 : α) * w := by
  induction L with
  | nil => simp
  | cons x xs ih =>
    simp only [List.map_cons, List.sum_cons, ih, List.count_cons]
    rw [show (g x == c0) = (c0 == g x) from BEq.comm]
    cases (c0 == g x)
    · simp
    · simp; ring

/-- … and the weighted sums add up to the total weight of the points that have a cell -/
theorem sum_weight_cells {α : Type} [Field α] (L : List ι) (f : β → Option ι) (g : ι → ι)
    (hg : ∀ p c, f p = some c → (L.map g).count c = 1) (w : β → α) (pts : List β) :
    (L.map (fun c => ((pts.filter (fun p => f p == some (g c))).map w).sum)).sum =
      ((pts.filter (fun p => (f p).isSome)).map w).sum := by
  induction pts with
  | nil => simp
  | cons p ps ih =>
    have step : ∀ c, (((p :: ps).filter (fun p => f p == some (g c))).map w).sum =
        (if f p == some (g c) then w p else 0) + ((ps.filter (fun p => f p == some (g c))).map w).sum := by
      intro c
      cases h : (f p == some (g c))
      · simp [List.filter_cons, h]
      · simp [List.filter_cons, h]
    simp only [step, List.sum_map_add, ih]
    cases hp : f p with
    | none =>
      have : ∀ c, ((none : Option ι) == some (g c)) = false := fun c => rfl
      simp [List.filter_cons, hp, this]
    | some c0 =>
      have h1 : ∀ c, (some c0 == some (g c)) = (c0 == g c) := fun c => rfl
      simp only [h1, sum_ite_eq_count_smul L g c0 (w p), hg p c0 hp, List.filter_cons, hp, Option.isSome_some,
        if_true, List.map_cons, List.sum_cons]
      simp

end counting

/-! ## `np.flip`: reflection of the multi-index -/
section reflect
open Bridge

theorem reflect_length (shape axes idx : List Nat) : (reflectIdx shape axes idx).length = idx.length := by
  simp [reflectIdx]

theorem reflect_getElem (shape axes idx : List Nat) (i : Nat) (h : i < idx.length) :
    (reflectIdx shape axes idx)[i]'(by rw [reflect_length]; exact h) =
      if axes.contains i then shape.getD i 0 - 1 - idx[i] else idx[i] := by
  simp [reflectIdx]

theorem reflect_valid (shape axes c : List Nat) (h : ValidCell shape c) : ValidCell shape (reflectIdx shape axes c) := by
  obtain ⟨hl, hall⟩ := h
  refine ⟨by rw [reflect_length, hl], ?_⟩
  intro i h1 h2
  have h1' : i < c.length := by rwa [reflect_length] at h1
  rw [reflect_getElem _ _ _ _ h1']
  have := hall i h1' h2
  split_ifs
  · simp only [List.getD_eq_getElem?_getD, List.getElem?_eq_getElem h2, Option.getD_some]; omega
  · exact this

theorem reflect_reflect (shape axes c : List Nat) (h : ValidCell shape c) :
    reflectIdx shape axes (reflectIdx shape axes c) = c := by
  obtain ⟨hl, hall⟩ := h
  apply List.ext_getElem
  · rw [reflect_length, reflect_length]
  · intro i h1 h2
    have h1' : i < (reflectIdx shape axes c).length := by rw [reflect_length]; exact h2
    rw [reflect_getElem _ _ _ _ h1', reflect_getElem _ _ _ _ h2]
    have h3 : i < shape.length := by omega
    have := hall i h2 h3
    split_ifs
    · simp only [List.getD_eq_getElem?_getD, List.getElem?_eq_getElem h3, Option.getD_some]; omega
    · rfl

/-- flipping permutes the cells: every cell is the mirror image of exactly one cell -/
theorem reflect_count (shape axes c : List Nat) (h : ValidCell shape c) :
    ((allCells shape).map (reflectIdx shape axes)).count c = 1 := by
  apply List.count_eq_one_of_mem
  · apply (allCells_nodup shape).map_on
    intro x hx y hy hxy
    rw [← reflect_reflect shape axes x ((mem_allCells _ _).1 hx), hxy,
      reflect_reflect shape axes y ((mem_allCells _ _).1 hy)]
  · rw [List.mem_map]
    exact ⟨reflectIdx shape axes c, (mem_allCells _ _).2 (reflect_valid _ _ _ h), reflect_reflect _ _ _ h⟩

theorem reflect_nil (shape idx : List Nat) : reflectIdx shape [] idx = idx := by
  apply List.ext_getElem
  · rw [reflect_length]
  · intro i h1 h2
    rw [reflect_getElem _ _ _ _ h2]
    simp

end reflect

/-! ## bin axes: monotone in either direction -/
section axes
open Bridge
variable {α : Type} [Field α] [LinearOrder α] [IsStrictOrderedRing α]

/-- a bin axis as the property quantifies it: at least two edges, strictly monotone (in either direction) -/
def MonoAxis (e : List α) : Prop := 2 ≤ e.length ∧ (e.Pairwise (· < ·) ∨ e.Pairwise (· > ·))

/-- `x` lies within the outer edges of the axis (its first and last edge, in either order) -/
def insideOuter (e : List α) (x : α) : Bool :=
  match e.head?, e.getLast? with
  | some a, some b => (decide (a ≤ x) && decide (x ≤ b)) || (decide (b ≤ x) && decide (x ≤ a))
  | _, _ => false

/-- the point `p` lies within the outer edges of every axis of the grid -/
def insideGrid (ess : List (List α)) (p : List α) : Bool := (ess.zip p).all (fun ep => insideOuter ep.1 ep.2)

/-- the edges handed to `np.histogramdd` for one axis -/
def incAxis (e : List α) : List α := if decreasingAxis e then e.reverse else e

theorem histEdgesOf_eq (ess : List (List α)) : histEdgesOf ess = ess.map incAxis := rfl

theorem head_rel_last (R : α → α → Prop) (e : List α) (a b : α) (hlen : 2 ≤ e.length) (hp : e.Pairwise R)
    (ha : e.head? = some a) (hb : e.getLast? = some b) : R a b := by
  match e, hlen with
  | x :: y :: rest, _ =>
    simp only [List.head?_cons, Option.some.injEq] at ha
    subst ha
    rw [List.getLast?_cons_cons] at hb
    rw [List.pairwise_cons] at hp
    exact hp.1 b (List.mem_of_getLast? hb)

theorem head_last_exist (e : List α) (hlen : 2 ≤ e.length) : ∃ a b, e.head? = some a ∧ e.getLast? = some b := by
  match e, hlen with
  | x :: y :: rest, _ =>
    refine ⟨x, (y :: rest).getLast (by simp), rfl, ?_⟩
    rw [List.getLast?_cons_cons, List.getLast?_eq_getLast_of_ne_nil]

theorem decreasingAxis_inc (e : List α) (hlen : 2 ≤ e.length) (hp : e.Pairwise (· < ·)) : decreasingAxis e = false := by
  obtain ⟨a, b, ha, hb⟩ := head_last_exist e hlen
  have := head_rel_last (· < ·) e a b hlen hp ha hb
  simp only [decreasingAxis, ha, hb]
  simp [not_lt.2 this.le]

theorem decreasingAxis_dec (e : List α) (hlen : 2 ≤ e.length) (hp : e.Pairwise (· > ·)) : decreasingAxis e = true := by
  obtain ⟨a, b, ha, hb⟩ := head_last_exist e hlen
  have := head_rel_last (· > ·) e a b hlen hp ha hb
  simp only [decreasingAxis, ha, hb]
  have h1 : 1 < e.length := by omega
  simp [h1]
  exact this

theorem incAxis_length (e : List α) : (incAxis e).length = e.length := by
  unfold incAxis; split_ifs <;> simp

theorem incAxis_sorted (e : List α) (h : MonoAxis e) : (incAxis e).Pairwise (· < ·) := by
  obtain ⟨hlen, hp | hp⟩ := h
  · rw [incAxis, decreasingAxis_inc e hlen hp]; exact hp
  · rw [incAxis, decreasingAxis_dec e hlen hp, if_pos rfl, List.pairwise_reverse]; exact hp

/-- a coordinate is binned on the (increasing) `hist_edges` axis iff it lies within the outer edges of the caller's axis -/
theorem incAxis_isSome_iff (e : List α) (h : MonoAxis e) (x : α) :
    (binIndex (incAxis e) x).isSome ↔ insideOuter e x = true := by
  obtain ⟨a, b, ha, hb⟩ := head_last_exist e h.1
  have hs := incAxis_sorted e h
  obtain ⟨hlen, hp | hp⟩ := h
  · have hab := head_rel_last (· < ·) e a b hlen hp ha hb
    have he : incAxis e = e := by rw [incAxis, decreasingAxis_inc e hlen hp]; rfl
    rw [he, C19.in_grid_iff e x a b hlen ha hb hp]
    simp only [insideOuter, ha, hb, Bool.or_eq_true, Bool.and_eq_true, decide_eq_true_eq]
    constructor
    · exact Or.inl
    · rintro (h | ⟨h1, h2⟩)
      · exact h
      · exact absurd (le_trans h1 h2) (not_le.2 hab)
  · have hab : b < a := head_rel_last (· > ·) e a b hlen hp ha hb
    have he : incAxis e = e.reverse := by rw [incAxis, decreasingAxis_dec e hlen hp]; rfl
    rw [he] at hs ⊢
    rw [C19.in_grid_iff e.reverse x b a (by simpa using hlen) (by rw [List.head?_reverse]; exact hb)
      (by rw [List.getLast?_reverse]; exact ha) hs]
    simp only [insideOuter, ha, hb, Bool.or_eq_true, Bool.and_eq_true, decide_eq_true_eq]
    constructor
    · exact Or.inr
    · rintro (⟨h1, h2⟩ | h)
      · exact absurd (le_trans h1 h2) (not_le.2 hab)
      · exact h

/-- a point has a cell of `hist_edges` iff it lies within the outer edges of every axis of the caller's grid -/
theorem cell_isSome_iff (ess : List (List α)) (hm : ∀ e ∈ ess, MonoAxis e) (p : List α) :
    (cellOf (histEdgesOf ess) p).isSome ↔ insideGrid ess p = true := by
  rw [C19.cellOf_isSome_iff, histEdgesOf_eq, List.zip_map_left, insideGrid, List.all_eq_true]
  simp only [List.mem_map, forall_exists_index, and_imp]
  constructor
  · intro h ep hep
    rw [← incAxis_isSome_iff ep.1 (hm ep.1 (List.of_mem_zip hep).1)]
    exact h _ ep hep rfl
  · rintro h _ ep hep rfl
    simp only [Prod.map_fst, Prod.map_snd, id]
    rw [incAxis_isSome_iff ep.1 (hm ep.1 (List.of_mem_zip hep).1)]
    exact h ep hep

end axes

/-! ## the cell whose edges contain the particle -/
section contain
open Bridge
variable {α : Type} [Field α] [LinearOrder α] [IsStrictOrderedRing α]

/-- bin `k` of the caller's axis `e` (edges `e[k]`, `e[k+1]`) contains `x`.  numpy convention on the increasing order of
the edges: closed at the lower edge, open at the upper edge, except that the last bin is closed at both; on an axis
given in decreasing order that last bin is bin `0` -/
def inBin (e : List α) (k : Nat) (x : α) : Prop :=
  ∃ h : k + 1 < e.length,
    if decreasingAxis e then e[k + 1] ≤ x ∧ (x < e[k] ∨ (k = 0 ∧ x ≤ e[k]))
    else e[k] ≤ x ∧ (x < e[k + 1] ∨ (k + 2 = e.length ∧ x ≤ e[k + 1]))

/-- one axis: a coordinate binned at position `k` of the caller's axis (position `n_bins - 1 - k` of the reversed edges
when the axis is decreasing) lies between the edges `k` and `k + 1` of the caller's axis -/
theorem axis_contains (e : List α) (x : α) (k : Nat) (hk : k + 1 < e.length)
    (h : binIndex (incAxis e) x = some (if decreasingAxis e then e.length - 1 - 1 - k else k)) : inBin e k x := by
  refine ⟨hk, ?_⟩
  cases hd : decreasingAxis e with
  | false =>
    simp only [incAxis, hd, Bool.false_eq_true, if_false] at h ⊢
    obtain ⟨j, hj, hlt, h1, h2⟩ := C19.binGo_sound x e 0 k h
    have : j = k := by omega
    subst this
    exact ⟨h1, h2⟩
  | true =>
    simp only [incAxis, hd, if_true] at h ⊢
    obtain ⟨j, hj, hlt, h1, h2⟩ := C19.binGo_sound x e.reverse 0 _ h
    have hjk : j = e.length - 1 - 1 - k := by omega
    subst hjk
    simp only [List.getElem_reverse, List.length_reverse] at h1 h2
    have e1 : e.length - 1 - (e.length - 1 - 1 - k) = k + 1 := by omega
    have e2 : e.length - 1 - (e.length - 1 - 1 - k + 1) = k := by omega
    simp only [e1, e2] at h1 h2
    refine ⟨h1, ?_⟩
    rcases h2 with h2 | ⟨h2, h3⟩
    · exact Or.inl h2
    · exact Or.inr ⟨by omega, h3⟩

theorem flipAxes_contains (ess : List (List α)) (i : Nat) (hi : i < ess.length) :
    (flipAxes ess).contains i = decreasingAxis ess[i] :=
  mem_flipAxes ess ess[i] i (List.mem_zipIdx_iff_getElem?.2 (by simp [hi]))

/-- a particle counted in cell `idx` of the caller's grid (after the flip) lies, on every axis, between the edges
`idx[i]` and `idx[i] + 1` of that axis -/
theorem cell_contains (ess : List (List α)) (p : List α) (idx : List Nat) (hp : p.length = ess.length)
    (hv : ValidCell ((histEdgesOf ess).map (fun e => e.length - 1)) idx)
    (h : cellOf (histEdgesOf ess) p =
      some (reflectIdx ((histEdgesOf ess).map (fun e => e.length - 1)) (flipAxes ess) idx)) :
    ∀ i (h1 : i < ess.length) (h2 : i < idx.length) (h3 : i < p.length), inBin ess[i] idx[i] p[i] := by
  obtain ⟨hlen, hall⟩ := C19.cellOf_components _ _ _ h
  intro i h1 h2 h3
  have hz : i < ((histEdgesOf ess).zip p).length := by
    simp only [histEdgesOf_eq, List.length_zip, List.length_map]; omega
  have hc : i < (reflectIdx ((histEdgesOf ess).map (fun e => e.length - 1)) (flipAxes ess) idx).length := by
    rw [reflect_length]; exact h2
  have hb := hall i hc hz
  rw [List.getElem_zip] at hb
  simp only [] at hb
  rw [reflect_getElem _ _ _ _ h2, flipAxes_contains ess i h1] at hb
  have hsh : i < ((histEdgesOf ess).map (fun e => e.length - 1)).length := by
    simp only [histEdgesOf_eq, List.length_map]; exact h1
  have hlt := hv.2 i h2 hsh
  have hshape : ((histEdgesOf ess).map (fun e => e.length - 1)).getD i 0 = ess[i].length - 1 := by
    simp only [List.getD_eq_getElem?_getD, List.getElem?_eq_getElem hsh, Option.getD_some]
    simp only [histEdgesOf_eq, List.getElem_map, incAxis_length]
  have hedge : (histEdgesOf ess)[i]'(by simp only [histEdgesOf_eq, List.length_map]; exact h1) = incAxis ess[i] := by
    simp only [histEdgesOf_eq, List.getElem_map]
  simp only [histEdgesOf_eq, List.getElem_map, incAxis_length] at hlt
  rw [hshape, hedge] at hb
  exact axis_contains ess[i] p[i] idx[i] (by omega) hb

end contain

/-! ## one histogram of `_from_particle`: totals over all cells -/
section totals
open Bridge
variable {α β : Type} [Field α] [LinearOrder α] [IsStrictOrderedRing α]

/-- the particle count held by a histogram cell (a cell of a weighted histogram holds no count) -/
def hcount : HVal α → Nat
  | .count n => n
  | .weight _ => 0

/-- the weighted sum held by a histogram cell -/
def hweight : HVal α → α
  | .weight x => x
  | .count _ => 0

/-- the sum of the particle counts over all cells of the raster -/
def countTotal (h : ModelHist α) : Nat := ((allCells h.shape).map (fun idx => hcount (h.val idx))).sum

/-- the sum of the weighted sums over all cells of the raster -/
def weightTotal (h : ModelHist α) : α := ((allCells h.shape).map (fun idx => hweight (h.val idx))).sum

theorem cellOf_valid (ess : List (List α)) (p : List α) (c : List Nat) (hp : p.length = ess.length)
    (h : cellOf ess p = some c) : ValidCell (ess.map (fun e => e.length - 1)) c := by
  obtain ⟨hlen, hall⟩ := C19.cellOf_index_lt ess p c h
  have hz : (ess.zip p).length = ess.length := by simp [hp]
  refine ⟨by rw [hlen, hz, List.length_map], ?_⟩
  intro i h1 h2
  have := hall i h1
  rw [List.getElem_zip] at this
  simp only [List.getElem_map]
  simp only [] at this
  omega

theorem zip_filter_snd (d : List β) (f : β → List α) (w : β → α) (P : List α → Bool) :
    (((d.map f).zip (d.map w)).filter (fun pw => P pw.1)).map (·.2) = (d.filter (fun r => P (f r))).map w := by
  induction d with
  | nil => rfl
  | cons r d ih =>
    simp only [List.map_cons, List.zip_cons_cons, List.filter_cons]
    cases P (f r) <;> simp [ih]

/-- which rows of the slice `d` the cell `idx` of the raster counts -/
def cellRows (A : HistArgs α β (ModelHist α)) (d : List β) (idx : List Nat) : List β :=
  d.filter (fun r => cellOf (histEdgesOf A.binEdges) (A.coord r) ==
    some (reflectIdx ((histEdgesOf A.binEdges).map (fun e => e.length - 1)) (flipAxes A.binEdges) idx))

theorem hist1_count_val (A : HistArgs α β (ModelHist α)) (hh : A.histdd = modelHistdd) (hf : A.npFlip = modelFlip)
    (d : List β) (idx : List Nat) :
    (hist1 A (flipAxes A.binEdges) (histEdgesOf A.binEdges) d none).val idx = .count (cellRows A d idx).length := by
  rw [hist1_model_val A hh hf]
  simp only [modelHistdd, Option.map_none, cellRows, List.filter_map, List.length_map]
  rfl

theorem hist1_weight_val (A : HistArgs α β (ModelHist α)) (hh : A.histdd = modelHistdd) (hf : A.npFlip = modelFlip)
    (d : List β) (name : String) (idx : List Nat) :
    (hist1 A (flipAxes A.binEdges) (histEdgesOf A.binEdges) d (some name)).val idx =
      .weight (((cellRows A d idx).map (A.wval name)).sum) := by
  rw [hist1_model_val A hh hf]
  simp only [modelHistdd, Option.map_some, cellRows]
  rw [C19.foldl_add_lit_eq_sum]
  rw [zip_filter_snd d A.coord (A.wval name)
    (fun q => cellOf (histEdgesOf A.binEdges) q ==
      some (reflectIdx ((histEdgesOf A.binEdges).map (fun e => e.length - 1)) (flipAxes A.binEdges) idx))]

theorem cell_count_one (A : HistArgs α β (ModelHist α)) (hdim : ∀ r, (A.coord r).length = A.binEdges.length) :
    ∀ (r : β) (c : List Nat), cellOf (histEdgesOf A.binEdges) (A.coord r) = some c →
      ((allCells ((histEdgesOf A.binEdges).map (fun e => e.length - 1))).map
        (reflectIdx ((histEdgesOf A.binEdges).map (fun e => e.length - 1)) (flipAxes A.binEdges))).count c = 1 := by
  intro r c hc
  apply reflect_count
  exact cellOf_valid _ _ _ (by rw [hdim, histEdgesOf_eq, List.length_map]) hc

/-- the cell counts of one slice add up to the number of its rows that have a cell -/
theorem hist1_count_total (A : HistArgs α β (ModelHist α)) (hh : A.histdd = modelHistdd) (hf : A.npFlip = modelFlip)
    (hdim : ∀ r, (A.coord r).length = A.binEdges.length) (d : List β) :
    countTotal (hist1 A (flipAxes A.binEdges) (histEdgesOf A.binEdges) d none) =
      (d.filter (fun r => (cellOf (histEdgesOf A.binEdges) (A.coord r)).isSome)).length := by
  unfold countTotal
  rw [hist1_model_shape A hh hf]
  simp only [hist1_count_val A hh hf, hcount, cellRows]
  exact sum_count_cells _ (fun r => cellOf (histEdgesOf A.binEdges) (A.coord r)) _ (cell_count_one A hdim) d

/-- the weighted sums of one slice add up to the total weight of its rows that have a cell -/
theorem hist1_weight_total (A : HistArgs α β (ModelHist α)) (hh : A.histdd = modelHistdd) (hf : A.npFlip = modelFlip)
    (hdim : ∀ r, (A.coord r).length = A.binEdges.length) (d : List β) (name : String) :
    weightTotal (hist1 A (flipAxes A.binEdges) (histEdgesOf A.binEdges) d (some name)) =
      ((d.filter (fun r => (cellOf (histEdgesOf A.binEdges) (A.coord r)).isSome)).map (A.wval name)).sum := by
  unfold weightTotal
  rw [hist1_model_shape A hh hf]
  simp only [hist1_weight_val A hh hf, hweight, cellRows]
  exact sum_weight_cells _ (fun r => cellOf (histEdgesOf A.binEdges) (A.coord r)) _ (cell_count_one A hdim)
    (A.wval name) d

end totals

/-! ## Python dicts, time slots -/
section dicts
variable {κ ν : Type} [BEq κ] [LawfulBEq κ]

theorem mem_dictSet (d : List (κ × ν)) (k : κ) (v : ν) (e : κ × ν) (h : e ∈ dictSet d k v) : e ∈ d ∨ e = (k, v) := by
  unfold dictSet at h
  split_ifs at h
  · rw [List.mem_map] at h
    obtain ⟨e', he', rfl⟩ := h
    split_ifs
    · exact Or.inr rfl
    · exact Or.inl he'
  · rw [List.mem_append, List.mem_singleton] at h
    exact h

theorem key_dictSet (d : List (κ × ν)) (k : κ) (v : ν) (k' : κ) (h : (∃ e ∈ d, e.1 = k') ∨ k' = k) :
    ∃ e ∈ dictSet d k v, e.1 = k' := by
  unfold dictSet
  split_ifs with hany
  · rcases h with ⟨e, he, rfl⟩ | rfl
    · refine ⟨if e.1 == k then (k, v) else e, List.mem_map.2 ⟨e, he, rfl⟩, ?_⟩
      split_ifs with hk
      · exact (eq_of_beq hk).symm
      · rfl
    · rw [List.any_eq_true] at hany
      obtain ⟨e, he, hk⟩ := hany
      exact ⟨(k', v), List.mem_map.2 ⟨e, he, by simp [hk]⟩, rfl⟩
  · rcases h with ⟨e, he, rfl⟩ | rfl
    · exact ⟨e, List.mem_append_left _ he, rfl⟩
    · exact ⟨(k', v), by simp, rfl⟩

theorem mem_foldl_dictSet (l : List (κ × ν)) : ∀ (d : List (κ × ν)) (e : κ × ν),
    e ∈ l.foldl (fun d e => dictSet d e.1 e.2) d → e ∈ d ∨ e ∈ l := by
  induction l with
  | nil => intro d e h; exact Or.inl h
  | cons x xs ih =>
    intro d e h
    rcases ih _ e h with h | h
    · rcases mem_dictSet d x.1 x.2 e h with h | h
      · exact Or.inl h
      · exact Or.inr (by rw [h]; simp)
    · exact Or.inr (List.mem_cons_of_mem _ h)

theorem key_foldl_dictSet (l : List (κ × ν)) : ∀ (d : List (κ × ν)) (k' : κ),
    ((∃ e ∈ d, e.1 = k') ∨ ∃ e ∈ l, e.1 = k') → ∃ e ∈ l.foldl (fun d e => dictSet d e.1 e.2) d, e.1 = k' := by
  induction l with
  | nil =>
    intro d k' h
    rcases h with h | ⟨e, he, _⟩
    · exact h
    · simp at he
  | cons x xs ih =>
    intro d k' h
    apply ih
    rcases h with h | ⟨e, he, hk⟩
    · exact Or.inl (key_dictSet d x.1 x.2 k' (Or.inl h))
    · rw [List.mem_cons] at he
      rcases he with rfl | he
      · exact Or.inl (key_dictSet d e.1 e.2 k' (Or.inr hk.symm))
      · exact Or.inr ⟨e, he, hk⟩

/-- every entry of `{k: v for k, v in l}` is an entry of `l` -/
theorem mem_dictOf (l : List (κ × ν)) (e : κ × ν) (h : e ∈ dictOf l) : e ∈ l := by
  rcases mem_foldl_dictSet l [] e h with h | h
  · simp at h
  · exact h

/-- … and every key of `l` is a key of the dict -/
theorem key_dictOf (l : List (κ × ν)) (e : κ × ν) (h : e ∈ l) : ∃ e' ∈ dictOf l, e'.1 = e.1 :=
  key_foldl_dictSet l [] e.1 (Or.inr ⟨e, h, rfl⟩)

theorem dictSet_map {ν' : Type} (φ : ν → ν') (d : List (κ × ν)) (k : κ) (v : ν) :
    dictSet (d.map (fun e => (e.1, φ e.2))) k (φ v) = (dictSet d k v).map (fun e => (e.1, φ e.2)) := by
  unfold dictSet
  simp only [List.any_map, Function.comp_def]
  split_ifs
  · simp only [List.map_map]
    apply List.map_congr_left
    intro e _
    simp only [Function.comp]
    split_ifs <;> rfl
  · simp

theorem foldl_dictSet_map {ν' : Type} (φ : ν → ν') (l : List (κ × ν)) : ∀ d : List (κ × ν),
    (l.map (fun e => (e.1, φ e.2))).foldl (fun d e => dictSet d e.1 e.2) (d.map (fun e => (e.1, φ e.2))) =
      (l.foldl (fun d e => dictSet d e.1 e.2) d).map (fun e => (e.1, φ e.2)) := by
  induction l with
  | nil => intro d; rfl
  | cons x xs ih =>
    intro d
    simp only [List.map_cons, List.foldl_cons]
    rw [dictSet_map, ih]

/-- mapping the values commutes with building the dict -/
theorem dictOf_map {ν' : Type} (φ : ν → ν') (l : List (κ × ν)) :
    dictOf (l.map (fun e => (e.1, φ e.2))) = (dictOf l).map (fun e => (e.1, φ e.2)) :=
  foldl_dictSet_map φ l []

end dicts

theorem slotSlices_get {β : Type} : ∀ (counts : List Nat) (data : List β) (t : Nat) (ht : t < counts.length),
    (slotSlices counts data)[t]? = some ((data.drop (counts.take t).sum).take counts[t])
  | [], _, _, ht => by simp at ht
  | c :: cs, data, 0, _ => by simp [slotSlices]
  | c :: cs, data, t + 1, ht => by
    simp only [slotSlices, List.getElem?_cons_succ, List.take_succ_cons, List.sum_cons, List.getElem_cons_succ]
    rw [slotSlices_get cs (data.drop c) t (by simpa using ht), List.drop_drop]

/-! ## C19, rasterising: `from_particles` / `_from_particle` as interpreted from the generated sequences -/
section raster
open Bridge
variable {α β τ : Type} [Field α] [LinearOrder α] [IsStrictOrderedRing α]

/-- The side conditions of the rasterising clauses.
* `histdd`, `npFlip` — forced by the bridge: `np.histogramdd` and `np.flip` are library calls, parameters of the
  interpretation; they are instantiated with the binning of numpy (`Bridge.modelHistdd`: half-open bins on increasing
  edges, the last bin closed; `Bridge.modelFlip`: index reflection).
* `sparse` — the dataset is a sparse LADiM dataset (it has the variable `particle_count`).
* `times` — `time` and `particle_count` are variables on the same dimension (well-formed file; the bridge
  `from_particles_sparse_all` needs it to know that every slot exists).
* `slots` — at least one time slot (with none the code raises, `c19_raster_no_slot`).
* `dim` — one coordinate per bin key for every row (`coords = [dset[k].values for k in bin_keys]`, as many keys as axes).
* `mono` — every axis has at least two edges and is strictly monotone, increasing or decreasing. -/
structure RasterSetting (A : HistArgs α β (ModelHist α)) (P : Particles β τ) : Prop where
  histdd : A.histdd = modelHistdd
  npFlip : A.npFlip = modelFlip
  sparse : P.hasCount = true
  times : P.times.length = P.count.length
  slots : P.times ≠ []
  dim : ∀ r, (A.coord r).length = A.binEdges.length
  mono : ∀ e ∈ A.binEdges, MonoAxis e

/-- the rows of time slot `t` of a sparse dataset: the `particle_count[t]` rows that follow the first
`sum(particle_count[:t])` rows -/
def slotRows (P : Particles β τ) (t : Nat) : List β := (P.rows.drop (P.count.take t).sum).take (P.count.getD t 0)

/-- the shape of the raster: one less than the number of edges along every axis -/
def gridShape (ess : List (List α)) : List Nat := ess.map (fun e => e.length - 1)

theorem gridShape_hist (ess : List (List α)) : (histEdgesOf ess).map (fun e => e.length - 1) = gridShape ess := by
  simp only [histEdgesOf_eq, gridShape, List.map_map]
  apply List.map_congr_left
  intro e _
  simp [incAxis_length]

theorem raster_var_form (A : HistArgs α β (ModelHist α)) (P : Particles β τ) (hlen : P.times.length = P.count.length)
    (v : String × List String × List (ModelHist α))
    (hv : v ∈ fpVars A (flipAxes A.binEdges) (histEdgesOf A.binEdges) (slotSlices P.count P.rows)) :
    ∃ w ∈ A.vdims, v.1 = w.getD "bincount" ∧ v.2.1 = "time" :: A.binKeys ∧ v.2.2.length = P.times.length ∧
      ∀ t (ht : t < v.2.2.length),
        v.2.2[t] = hist1 A (flipAxes A.binEdges) (histEdgesOf A.binEdges) (slotRows P t) w := by
  have hv' := mem_dictOf _ _ hv
  rw [List.mem_map] at hv'
  obtain ⟨w, hw, rfl⟩ := hv'
  refine ⟨w, hw, rfl, rfl, by simp [slotSlices_length, hlen], ?_⟩
  intro t ht
  simp only [List.length_map, slotSlices_length] at ht
  simp only [List.getElem_map]
  congr 1
  have h1 := slotSlices_get P.count P.rows t ht
  rw [List.getElem?_eq_getElem (by rw [slotSlices_length]; exact ht)] at h1
  rw [Option.some.inj h1, slotRows]
  simp [ht]

theorem raster_run (A : HistArgs α β (ModelHist α)) (P : Particles β τ) (S : RasterSetting A P) :
    fromParticlesSeq A P none = some (some (.series
      (fpVars A (flipAxes A.binEdges) (histEdgesOf A.binEdges) (slotSlices P.count P.rows)) (fpCoords A) P.times)) :=
  from_particles_sparse_all A P S.sparse S.times S.slots

/-- **The rasteriser returns a time series** (interpreted `from_particles`, `Gen.raster_from_particles_seq`, calling the
interpreted `_from_particle`, `Gen.raster_from_particle_seq`).  For a sparse dataset the code returns a dataset whose
time coordinate is the `time` variable of the file; for every entry `w` of `vdims` there is a data variable named `w`
(`bincount` for `None`), and every data variable has the dimensions `('time',) + bin_keys` and holds exactly one
raster per time slot — empty slots included. -/
theorem _root_.OnCode.c19_raster_returns (A : HistArgs α β (ModelHist α)) (P : Particles β τ) (S : RasterSetting A P) :
    ∃ vars coords, fromParticlesSeq A P none = some (some (.series vars coords P.times)) ∧
      (∀ w ∈ A.vdims, ∃ v ∈ vars, v.1 = w.getD "bincount") ∧
      ∀ v ∈ vars, (∃ w ∈ A.vdims, v.1 = w.getD "bincount") ∧ v.2.1 = "time" :: A.binKeys ∧
        v.2.2.length = P.times.length ∧ ∀ h ∈ v.2.2, h.shape = gridShape A.binEdges := by
  refine ⟨_, _, raster_run A P S, ?_, ?_⟩
  · intro w hw
    obtain ⟨e', he', hk⟩ := key_dictOf (A.vdims.map (fun w => (w.getD "bincount", "time" :: A.binKeys,
      (slotSlices P.count P.rows).map (fun d => hist1 A (flipAxes A.binEdges) (histEdgesOf A.binEdges) d w))))
      _ (List.mem_map.2 ⟨w, hw, rfl⟩)
    exact ⟨e', he', hk⟩
  · intro v hv
    obtain ⟨w, hw, h1, h2, h3, h4⟩ := raster_var_form A P S.times v hv
    refine ⟨⟨w, hw, h1⟩, h2, h3, ?_⟩
    intro h hh
    obtain ⟨t, ht, rfl⟩ := List.getElem_of_mem hh
    rw [h4 t ht, hist1_model_shape A S.histdd S.npFlip, gridShape_hist]

/-- **Counts are conserved** (clause "for every time slot the cell counts sum to the number of particles located within
the grid's outer bin edges").  In whatever the interpreted `from_particles` returns, every data variable belongs to an
entry `w` of `vdims`; if `w` is `None` (the variable `bincount`), then for every time slot `t` the sum of the raster over
all its cells is the number of rows of slot `t` whose coordinates lie within the outer edges of every axis. -/
theorem _root_.OnCode.c19_raster_count_conserved (A : HistArgs α β (ModelHist α)) (P : Particles β τ) (S : RasterSetting A P)
    (vars : List (String × List String × List (ModelHist α))) (coords : List (String × List α)) (times : List τ)
    (hrun : fromParticlesSeq A P none = some (some (.series vars coords times))) :
    ∀ v ∈ vars, ∃ w ∈ A.vdims, v.1 = w.getD "bincount" ∧
      (w = none → ∀ t (ht : t < v.2.2.length),
        countTotal v.2.2[t] = ((slotRows P t).filter (fun r => insideGrid A.binEdges (A.coord r))).length) := by
  rw [raster_run A P S] at hrun
  injection hrun with hrun; injection hrun with hrun; injection hrun with h1 h2 h3
  subst h1
  intro v hv
  obtain ⟨w, hw, h1, h2, h3, h4⟩ := raster_var_form A P S.times v hv
  refine ⟨w, hw, h1, ?_⟩
  rintro rfl t ht
  rw [h4 t ht, hist1_count_total A S.histdd S.npFlip S.dim]
  congr 1
  apply List.filter_congr
  intro r _
  exact Bool.eq_iff_iff.2 (cell_isSome_iff A.binEdges S.mono (A.coord r))

/-- **Weights are conserved** (clause "each weighted sum equals the total weight of those particles").  If the entry of
`vdims` is the variable `name`, then for every time slot `t` the sum of the weighted raster over all its cells is the
sum of `name` over the rows of slot `t` that lie within the outer edges of every axis (weights of either sign). -/
theorem _root_.OnCode.c19_raster_weight_conserved (A : HistArgs α β (ModelHist α)) (P : Particles β τ) (S : RasterSetting A P)
    (vars : List (String × List String × List (ModelHist α))) (coords : List (String × List α)) (times : List τ)
    (hrun : fromParticlesSeq A P none = some (some (.series vars coords times))) :
    ∀ v ∈ vars, ∃ w ∈ A.vdims, v.1 = w.getD "bincount" ∧
      ∀ name, w = some name → ∀ t (ht : t < v.2.2.length),
        weightTotal v.2.2[t] =
          (((slotRows P t).filter (fun r => insideGrid A.binEdges (A.coord r))).map (A.wval name)).sum := by
  rw [raster_run A P S] at hrun
  injection hrun with hrun; injection hrun with hrun; injection hrun with h1 h2 h3
  subst h1
  intro v hv
  obtain ⟨w, hw, h1, h2, h3, h4⟩ := raster_var_form A P S.times v hv
  refine ⟨w, hw, h1, ?_⟩
  rintro name rfl t ht
  rw [h4 t ht, hist1_weight_total A S.histdd S.npFlip S.dim]
  congr 2
  apply List.filter_congr
  intro r _
  exact Bool.eq_iff_iff.2 (cell_isSome_iff A.binEdges S.mono (A.coord r))

/-- **Each particle is counted in exactly one cell, the one whose edges contain it; no particle of another slot is
counted.**  There is an assignment `counted idx r` of rows to cells — the same for the counts and for every weighted
sum — such that in whatever the interpreted `from_particles` returns, cell `idx` of the raster of time slot `t` holds
the number (the total weight) of the rows *of slot `t`* assigned to `idx`; a row within the outer edges is assigned to
exactly one cell of the grid; the cell a row is assigned to contains it on every axis (`inBin`: between the edges
`idx[i]` and `idx[i] + 1` of the caller's axis `i`, whether the axis is increasing or decreasing); a row outside the
outer edges is assigned to no cell. -/
theorem _root_.OnCode.c19_raster_cells (A : HistArgs α β (ModelHist α)) (P : Particles β τ) (S : RasterSetting A P)
    (vars : List (String × List String × List (ModelHist α))) (coords : List (String × List α)) (times : List τ)
    (hrun : fromParticlesSeq A P none = some (some (.series vars coords times))) :
    ∃ counted : List Nat → β → Bool,
      (∀ v ∈ vars, ∃ w ∈ A.vdims, v.1 = w.getD "bincount" ∧ ∀ t (ht : t < v.2.2.length), ∀ idx,
        v.2.2[t].val idx =
          match w with
          | none => .count ((slotRows P t).filter (counted idx)).length
          | some name => .weight (((slotRows P t).filter (counted idx)).map (A.wval name)).sum) ∧
      (∀ r, insideGrid A.binEdges (A.coord r) = true →
        ∃! idx, ValidCell (gridShape A.binEdges) idx ∧ counted idx r = true) ∧
      (∀ r idx, ValidCell (gridShape A.binEdges) idx → counted idx r = true →
        ∀ i (h1 : i < A.binEdges.length) (h2 : i < idx.length) (h3 : i < (A.coord r).length),
          inBin A.binEdges[i] idx[i] (A.coord r)[i]) ∧
      (∀ r, insideGrid A.binEdges (A.coord r) = false → ∀ idx, counted idx r = false) := by
  rw [raster_run A P S] at hrun
  injection hrun with hrun; injection hrun with hrun; injection hrun with h1 h2 h3
  subst h1
  refine ⟨fun idx r => cellOf (histEdgesOf A.binEdges) (A.coord r) ==
    some (reflectIdx ((histEdgesOf A.binEdges).map (fun e => e.length - 1)) (flipAxes A.binEdges) idx), ?_, ?_, ?_, ?_⟩
  · intro v hv
    obtain ⟨w, hw, h1, h2, h3, h4⟩ := raster_var_form A P S.times v hv
    refine ⟨w, hw, h1, ?_⟩
    intro t ht idx
    rw [h4 t ht]
    cases w with
    | none => exact hist1_count_val A S.histdd S.npFlip _ idx
    | some name => exact hist1_weight_val A S.histdd S.npFlip _ name idx
  · intro r hr
    have hs := (cell_isSome_iff A.binEdges S.mono (A.coord r)).2 hr
    obtain ⟨c, hc⟩ := Option.isSome_iff_exists.1 hs
    have hvalid := cellOf_valid _ _ _ (by rw [S.dim, histEdgesOf_eq, List.length_map]) hc
    rw [← gridShape_hist]
    refine ⟨reflectIdx _ (flipAxes A.binEdges) c, ⟨reflect_valid _ _ _ hvalid, ?_⟩, ?_⟩
    · simp only [hc, reflect_reflect _ _ _ hvalid, beq_self_eq_true]
    · rintro idx ⟨hv, hcnt⟩
      simp only [hc, beq_iff_eq, Option.some.injEq] at hcnt
      rw [hcnt, reflect_reflect _ _ _ hv]
  · intro r idx hv hcnt i h1 h2 h3
    rw [← gridShape_hist] at hv
    exact cell_contains A.binEdges (A.coord r) idx (S.dim r) hv (by simpa using hcnt) i h1 h2 h3
  · intro r hr idx
    have hs : ¬ (cellOf (histEdgesOf A.binEdges) (A.coord r)).isSome := by
      rw [cell_isSome_iff A.binEdges S.mono]; simp [hr]
    cases hc : cellOf (histEdgesOf A.binEdges) (A.coord r) with
    | none => simp only [hc]; rfl
    | some c => rw [hc] at hs; simp at hs

/-! ### decreasing axes, no time slot, bin centres -/

theorem decreasingAxis_incAxis (e : List α) : decreasingAxis (incAxis e) = false := by
  unfold incAxis
  cases hd : decreasingAxis e with
  | false => simpa using hd
  | true =>
    simp only [if_true]
    unfold decreasingAxis at hd ⊢
    rw [List.head?_reverse, List.getLast?_reverse]
    cases ha : e.head? with
    | none => simp [ha] at hd
    | some a =>
      cases hb : e.getLast? with
      | none => simp [ha, hb] at hd
      | some b =>
        simp only [ha, hb, Bool.and_eq_true, decide_eq_true_eq] at hd
        simp only [Bool.and_eq_false_iff, decide_eq_false_iff_not]
        exact Or.inr (not_lt.2 hd.2.le)

theorem incAxis_incAxis (e : List α) : incAxis (incAxis e) = incAxis e := by
  show (if decreasingAxis (incAxis e) then (incAxis e).reverse else incAxis e) = incAxis e
  rw [decreasingAxis_incAxis]; rfl

theorem histEdgesOf_idem (ess : List (List α)) : histEdgesOf (histEdgesOf ess) = histEdgesOf ess := by
  simp only [histEdgesOf_eq, List.map_map]
  apply List.map_congr_left
  intro e _
  exact incAxis_incAxis e

theorem flipAxes_histEdgesOf (ess : List (List α)) : flipAxes (histEdgesOf ess) = [] := by
  unfold flipAxes
  rw [List.filterMap_eq_nil_iff]
  intro ei hei
  have := (List.mem_zipIdx' (x := ei.1) (i := ei.2) hei)
  obtain ⟨hi, he⟩ := this
  have : ei.1 = incAxis (ess[ei.2]'(by simpa [histEdgesOf_eq] using hi)) := by
    rw [he]; simp only [histEdgesOf_eq, List.getElem_map]
  rw [this, decreasingAxis_incAxis]
  rfl

theorem modelFlip_nil (h : ModelHist α) : modelFlip [] h = h := by
  cases h with
  | mk shape val =>
    simp only [modelFlip, reflect_nil]

/-- **Decreasing axes give the same raster, flipped.**  Let `A'` be the same call with every decreasing axis of
`bin_edges` listed in increasing order.  Then the interpreted `from_particles` returns for `A` what it returns for `A'`
with every raster flipped (`np.flip`, i.e. `Bridge.modelFlip`: cell `idx` reads the cell reflected along the listed
axes) along exactly the decreasing axes of `A`.  (Hypotheses: the library calls as in `RasterSetting`, a sparse
well-formed dataset with at least one slot; monotonicity of the axes is not needed.) -/
theorem _root_.OnCode.c19_raster_decreasing_flipped (A : HistArgs α β (ModelHist α)) (P : Particles β τ)
    (hh : A.histdd = modelHistdd) (hf : A.npFlip = modelFlip) (hc : P.hasCount = true)
    (hlen : P.times.length = P.count.length) (hne : P.times ≠ []) :
    ∃ vars' coords' coords,
      fromParticlesSeq { A with binEdges := histEdgesOf A.binEdges } P none =
        some (some (.series vars' coords' P.times)) ∧
      fromParticlesSeq A P none = some (some (.series
        (vars'.map (fun v => (v.1, v.2.1, v.2.2.map (A.npFlip (flipAxes A.binEdges))))) coords P.times)) := by
  refine ⟨_, _, fpCoords A, from_particles_sparse_all _ P hc hlen hne, ?_⟩
  rw [from_particles_sparse_all A P hc hlen hne]
  congr 3
  simp only [fpVars, histEdgesOf_idem, flipAxes_histEdgesOf]
  rw [← dictOf_map (fun dh : List String × List (ModelHist α) => (dh.1, dh.2.map (A.npFlip (flipAxes A.binEdges))))]
  congr 1
  rw [List.map_map]
  apply List.map_congr_left
  intro w _
  simp only [Function.comp, List.map_map, hist1, hf, modelFlip_nil]
  rfl

/-- **No time slot: the code raises.**  The quantifier of the property includes datasets without any time slot; for
those (and at least one entry in `vdims`) the interpreted `from_particles` raises (`field[:, i]` on a one-dimensional
`np.array([])`), it does not return an empty raster. -/
theorem _root_.OnCode.c19_raster_no_slot (A : HistArgs α β (ModelHist α)) (P : Particles β τ) (hc : P.hasCount = true)
    (ht : P.times = []) (hv : A.vdims ≠ []) : fromParticlesSeq A P none = some none := by
  rw [from_particles]
  have : tvalsOf P none = some ([] : List τ) := by simp [tvalsOf, hc, ht]
  rw [this]
  exact from_particle_no_slot A _ hv

/-- **Bin centres are midway between bin edges** (the returned coordinates; for the converse direction — edges
computed from centres by `_edges` — see `c19_edges_midway`).  Every coordinate variable of the dataset returned by the
interpreted `from_particles` belongs to a bin key and its axis, has one entry per bin, and entry `i` is the mean of the
edges `i` and `i + 1` of that axis as the caller gave it. -/
theorem _root_.OnCode.c19_raster_centres_midway (A : HistArgs α β (ModelHist α)) (P : Particles β τ) (S : RasterSetting A P)
    (vars : List (String × List String × List (ModelHist α))) (coords : List (String × List α)) (times : List τ)
    (hrun : fromParticlesSeq A P none = some (some (.series vars coords times))) :
    times = P.times ∧ ∀ c ∈ coords, ∃ ke ∈ A.binKeys.zip A.binEdges, c.1 = ke.1 ∧
      ∃ hl : c.2.length = ke.2.length - 1, ∀ i (hi : i + 1 < ke.2.length),
        c.2[i]'(by omega) = (ke.2[i] + ke.2[i + 1]) / 2 := by
  rw [raster_run A P S] at hrun
  injection hrun with hrun; injection hrun with hrun; injection hrun with h1 h2 h3
  subst h2
  refine ⟨h3.symm, ?_⟩
  intro c hc
  have hc' := mem_dictOf _ _ hc
  rw [List.mem_map] at hc'
  obtain ⟨ke, hke, rfl⟩ := hc'
  refine ⟨ke, hke, rfl, C19.mids_length ke.2, ?_⟩
  intro i hi
  exact C19.mids_get ke.2 i hi

end raster

/-! ## C19, SQLite conversion: `ladim_file_to_sqlite`, `add_particle_values`, `add_instance_values` as interpreted -/
section sqlite
open Bridge
variable {α : Type}

theorem instanceRows_length {τ β : Type} : ∀ (counts : List Nat) (times : List τ) (data : List β),
    counts.length ≤ times.length → counts.sum ≤ data.length → (instanceRows times counts data).length = counts.sum
  | [], times, data, _, _ => by rw [instanceRows_nil]; rfl
  | c :: cs, [], data, h, _ => by simp at h
  | c :: cs, t :: ts, data, h, hs => by
    simp only [List.sum_cons] at hs
    rw [instanceRows_cons, List.length_append, List.length_map, List.length_take,
      instanceRows_length cs ts (data.drop c) (by simpa using h) (by simp; omega), List.sum_cons]
    omega

/-- the rows of time slot `t`: the slot's instances, in file order, each with the time stamp of slot `t` -/
theorem instanceRows_slot {τ β : Type} : ∀ (counts : List Nat) (times : List τ) (data : List β) (t : Nat)
    (ht : t < counts.length) (ht' : t < times.length), counts.sum ≤ data.length →
    ((instanceRows times counts data).drop (counts.take t).sum).take counts[t] =
      ((data.drop (counts.take t).sum).take counts[t]).map (fun d => (times[t], d))
  | [], _, _, _, ht, _, _ => by simp at ht
  | c :: cs, [], _, _, _, ht', _ => by simp at ht'
  | c :: cs, tm :: ts, data, 0, _, _, hs => by
    simp only [List.sum_cons] at hs
    rw [instanceRows_cons]
    simp only [List.take_zero, List.sum_nil, List.drop_zero, List.getElem_cons_zero]
    rw [List.take_append_of_le_length (by simp; omega), List.take_of_length_le (by simp)]
  | c :: cs, tm :: ts, data, t + 1, ht, ht', hs => by
    simp only [List.sum_cons] at hs
    rw [instanceRows_cons]
    simp only [List.take_succ_cons, List.sum_cons, List.getElem_cons_succ]
    have hl : ((data.take c).map (fun x => (tm, x))).length = c := by simp; omega
    have hd := List.drop_left (l₁ := (data.take c).map (fun x => (tm, x))) (l₂ := instanceRows ts cs (data.drop c))
    rw [hl] at hd
    rw [← List.drop_drop, hd,
      instanceRows_slot cs ts (data.drop c) t (by simpa using ht) (by simpa using ht') (by simp; omega),
      List.drop_drop]

theorem row_entries (cols : List (List α)) (j : Nat) (h : ∀ c ∈ cols, j < c.length) :
    (rowAt cols j).map some = cols.map (·[j]?) := by
  induction cols with
  | nil => rfl
  | cons c cs ih =>
    have hj : j < c.length := h c (by simp)
    rw [rowAt_cons_some c cs j c[j] (by simp [hj])]
    simp only [List.map_cons, ih (fun c' hc' => h c' (by simp [hc']))]
    simp [hj]

/-- A well-formed LADiM output file whose `particle_instance` dimension has length `n`: every variable on that
dimension has `n` entries, the per-slot counts add up to `n`, and `time` has one entry per slot.
(The bridge `Bridge.add_instance_values` needs `cols`, `sum(particle_count) ≤ n` and a time stamp for every slot:
otherwise `np.array` / the time lookup raise.) -/
structure WellFormedFile (f : LadimFile α) (n : Nat) : Prop where
  cols : ∀ c ∈ f.icols, c.2.length = n
  sum : f.count.sum = n
  time : f.time.length = f.count.length

theorem WellFormedFile.ok {f : LadimFile α} {n : Nat} (h : WellFormedFile f n) : FileOk f n :=
  ⟨h.cols, Nat.le_of_eq h.sum, Nat.le_of_eq h.time.symm⟩

theorem instData_length (f : LadimFile α) (n : Nat) : (instData f n).length = n := by simp [instData]

theorem instRowsModel_length (f : LadimFile α) (n : Nat) (h : WellFormedFile f n) :
    (instRowsModel f n).length = f.count.sum := by
  unfold instRowsModel
  rw [List.length_map, instanceRows_length _ _ _ (Nat.le_of_eq h.time.symm)
    (by rw [instData_length]; exact Nat.le_of_eq h.sum)]

/-- The side conditions of the SQLite clauses: the files that the pattern matches, in sorted order, are `f0 :: rest`;
the first file has at least one variable on the `particle` dimension (otherwise `np.array([])` has no rows — the bridge
`Bridge.add_particle_values` needs it), all of the length `np` of that dimension; every file is well formed. -/
structure SqliteSetting (f0 : LadimFile α) (rest : List (LadimFile α)) (np : Nat) (nInst : LadimFile α → Nat) : Prop where
  pvars : f0.pcols ≠ []
  plen : ∀ c ∈ f0.pcols, c.2.length = np
  files : ∀ f ∈ f0 :: rest, WellFormedFile f (nInst f)

theorem sqlite_run (f0 : LadimFile α) (rest : List (LadimFile α)) (np : Nat) (nInst : LadimFile α → Nat)
    (S : SqliteSetting f0 rest np nInst) :
    ladimFileToSqliteSeq (f0 :: rest) = some (some
      ⟨[("particle", f0.pcols.map (·.1)), ("particle_instance", "time" :: f0.icols.map (·.1))],
        particleData f0 np, (f0 :: rest).flatMap (fun f => instRowsModel f (nInst f))⟩) :=
  ladim_file_to_sqlite f0 rest np nInst S.pvars S.plen (fun f hf => (S.files f hf).ok)

/-- **The conversion finishes and creates the two tables** (interpreted `ladim_file_to_sqlite`,
`Gen.sqlite_file_seq`, with the interpreted `add_particle_values` / `add_instance_values`,
`Gen.sqlite_particles_seq` / `Gen.sqlite_instances_seq`): on a fresh database the code returns, and the tables are
`particle` (one column per `particle` variable of the first file) and `particle_instance` (`time`, then one column
per `particle_instance` variable of the first file). -/
theorem _root_.OnCode.c19_sqlite_returns (f0 : LadimFile α) (rest : List (LadimFile α)) (np : Nat) (nInst : LadimFile α → Nat)
    (S : SqliteSetting f0 rest np nInst) :
    ∃ db, ladimFileToSqliteSeq (f0 :: rest) = some (some db) ∧
      db.tables = [("particle", f0.pcols.map (·.1)), ("particle_instance", "time" :: f0.icols.map (·.1))] :=
  ⟨_, sqlite_run f0 rest np nInst S, rfl⟩

/-- **Every particle is stored exactly once** (clause "stores every particle … exactly once"): in the database the
interpreted `ladim_file_to_sqlite` returns, the `particle` table has exactly one row per index `j` of the `particle`
dimension of the first file, in order, and row `j` holds entry `j` of every `particle` variable. -/
theorem _root_.OnCode.c19_sqlite_particle_table (f0 : LadimFile α) (rest : List (LadimFile α)) (np : Nat) (nInst : LadimFile α → Nat)
    (S : SqliteSetting f0 rest np nInst) (db : Db α) (hrun : ladimFileToSqliteSeq (f0 :: rest) = some (some db)) :
    db.particle.length = np ∧
      ∀ j (hj : j < db.particle.length), (db.particle[j]).map some = f0.pcols.map (fun c => c.2[j]?) := by
  rw [sqlite_run f0 rest np nInst S] at hrun
  injection hrun with hrun; injection hrun with hrun
  subst hrun
  refine ⟨particleData_length f0 np, ?_⟩
  intro j hj
  simp only [particleData_length] at hj
  simp only [particleData, List.getElem_map, List.getElem_range]
  rw [row_entries _ j (by
    intro c hc
    rw [List.mem_map] at hc
    obtain ⟨c', hc', rfl⟩ := hc
    rw [S.plen c' hc']; exact hj), List.map_map]
  rfl

/-- **Every particle instance is stored exactly once, with its time stamp; split runs concatenate** (clauses "stores
… every particle instance exactly once with its time stamp").  In the database the interpreted `ladim_file_to_sqlite`
returns, the `particle_instance` table is the concatenation, in file order, of one segment `seg f` per file, the
segment of file `k` starting at the row number = the number of rows of the files before it; for every file
* the segment has exactly `sum(particle_count)` rows;
* without the `time` column it is the list of the rows of the `particle_instance` variables, every instance once, in
  file order (`Bridge.instData f n`: row `j` holds entry `j` of every variable, `c19_instance_row`);
* the rows of time slot `t` (row numbers `sum(particle_count[:t])` … `+ particle_count[t]`) are the instances of that
  slot, each with `time[t]` in the first column. -/
theorem _root_.OnCode.c19_sqlite_instance_table (f0 : LadimFile α) (rest : List (LadimFile α)) (np : Nat) (nInst : LadimFile α → Nat)
    (S : SqliteSetting f0 rest np nInst) (db : Db α) (hrun : ladimFileToSqliteSeq (f0 :: rest) = some (some db)) :
    ∃ seg : LadimFile α → List (List α),
      db.inst = (f0 :: rest).flatMap seg ∧
      db.inst.length = ((f0 :: rest).map (fun f => f.count.sum)).sum ∧
      (∀ k (hk : k < (f0 :: rest).length),
        (db.inst.drop (((f0 :: rest).take k).map (fun f => f.count.sum)).sum).take ((f0 :: rest)[k]).count.sum =
          seg (f0 :: rest)[k]) ∧
      ∀ f ∈ f0 :: rest,
        (seg f).length = f.count.sum ∧
        (seg f).map List.tail = instData f (nInst f) ∧
        ∀ t (ht : t < f.count.length) (ht' : t < f.time.length),
          ((seg f).drop (f.count.take t).sum).take f.count[t] =
            (((instData f (nInst f)).drop (f.count.take t).sum).take f.count[t]).map (fun r => f.time[t] :: r) := by
  rw [sqlite_run f0 rest np nInst S] at hrun
  injection hrun with hrun; injection hrun with hrun
  subst hrun
  have hlenf : ∀ f ∈ f0 :: rest, (instRowsModel f (nInst f)).length = f.count.sum :=
    fun f hf => instRowsModel_length f (nInst f) (S.files f hf)
  refine ⟨fun f => instRowsModel f (nInst f), rfl, ?_, ?_, ?_⟩ <;> dsimp only
  · simp only [List.length_flatMap]
    congr 1
    exact List.map_congr_left hlenf
  · intro k hk
    have h := instance_rows_of_file (f0 :: rest) nInst k hk
    rw [hlenf _ (List.getElem_mem hk)] at h
    rw [← h]
    congr 3
    apply List.map_congr_left
    intro f hf
    exact (hlenf f (List.mem_of_mem_take hf)).symm
  · intro f hf
    have hw := S.files f hf
    refine ⟨hlenf f hf, ?_, ?_⟩
    · unfold instRowsModel
      rw [List.map_map]
      have := C19.sqlite_rows_once f.time f.count (instData f (nInst f)) hw.time
      rw [hw.sum, List.take_of_length_le (Nat.le_of_eq (instData_length f (nInst f)))] at this
      exact this
    · intro t ht ht'
      unfold instRowsModel
      rw [← List.map_drop, ← List.map_take,
        instanceRows_slot f.count f.time (instData f (nInst f)) t ht ht'
          (by rw [instData_length]; exact Nat.le_of_eq hw.sum), List.map_map]
      rfl

/-- what a row of `Bridge.instData` is: row `j` holds entry `j` of every `particle_instance` variable, in the order of
the variables -/
theorem _root_.OnCode.c19_instance_row (f : LadimFile α) (n : Nat) (h : WellFormedFile f n) (j : Nat) (hj : j < (instData f n).length) :
    ((instData f n)[j]).map some = f.icols.map (fun c => c.2[j]?) := by
  simp only [instData_length] at hj
  simp only [instData, List.getElem_map, List.getElem_range]
  rw [row_entries _ j (by
    intro c hc
    rw [List.mem_map] at hc
    obtain ⟨c', hc', rfl⟩ := hc
    rw [h.cols c' hc']; exact hj), List.map_map]
  rfl

end sqlite

/-! ## C19, settled particles: `get_settled_particles` as interpreted -/
section settled
open Bridge Ladim.Table

/-- **Exactly one row per particle id, its last recorded instance** (clause "selecting settled particles returns, for
each particle, its last recorded instance"; all pid sequences, repeats included).  The interpreted
`get_settled_particles` (`Gen.settled_particles_seq`) selects the pairs `(pid, pinst)` = `sel` with: the pids strictly
ascending — so no pid twice —, a pid is selected iff it occurs in the file (each occurring pid exactly once, no other),
and `(p, i)` is selected iff `i` is the largest index with `pid[i] = p`.  No hypotheses. -/
theorem _root_.OnCode.c19_settled_last_instance (pids : List Nat) :
    ∃ sel, runSettledIndex pids Gen.settled_particles_seq = some (some sel) ∧
      (sel.map (·.1)).Pairwise (· < ·) ∧
      (∀ p, p ∈ pids → (sel.map (·.1)).count p = 1) ∧
      (∀ p, p ∉ pids → (sel.map (·.1)).count p = 0) ∧
      ∀ p i, (p, i) ∈ sel ↔
        ∃ hi : i < pids.length, pids[i] = p ∧ ∀ j (hj : j < pids.length), i < j → pids[j] ≠ p :=
  ⟨settled pids, settled_particles_index pids, settled_ascending pids, settled_once pids, settled_no_other pids,
    fun p i => mem_settled_iff pids p i⟩

theorem mapM_some_mem {γ δ : Type} (f : γ → Option δ) : ∀ (l : List γ) (g : List δ), l.mapM f = some g →
    ∀ x ∈ l, ∃ y ∈ g, f x = some y
  | [], _, _, x, hx => by simp at hx
  | a :: l, g, h, x, hx => by
    rw [List.mapM_cons] at h
    cases ha : f a with
    | none => simp [ha] at h
    | some b =>
      cases hl : l.mapM f with
      | none => simp [ha, hl] at h
      | some g' =>
        simp only [ha, hl, Option.bind_eq_bind, Option.bind_some, Option.pure_def, Option.some.injEq] at h
        subst h
        rw [List.mem_cons] at hx
        rcases hx with rfl | hx
        · exact ⟨b, by simp, ha⟩
        · obtain ⟨y, hy, hf⟩ := mapM_some_mem f l g' hl x hx
          exact ⟨y, List.mem_cons_of_mem _ hy, hf⟩

theorem gatherVars_mem {β : Type} (vars : List (String × VDim × List β)) (d : VDim) (idx : List Nat)
    (g : List (String × List β)) (h : gatherVars vars d idx = some g) :
    ∀ kv ∈ vars, kv.2.1 = d → ∃ w, (kv.1, w) ∈ g ∧ w.map some = idx.map (fun i => kv.2.2[i]?) := by
  intro kv hkv hd
  obtain ⟨y, hy, hf⟩ := mapM_some_mem _ _ g h kv (List.mem_filter.2 ⟨hkv, by simpa using hd⟩)
  cases hg : gather kv.2.2 idx with
  | none => simp [hg] at hf
  | some w =>
    simp only [hg, Option.map_some, Option.some.injEq] at hf
    subst hf
    exact ⟨w, hy, ((gather_eq_some_iff _ _ _).1 hg).symm⟩

/-- **The returned data set holds, for each particle, the values of its last instance.**  For a file whose
`particle` variables cover every pid and whose `particle_instance` variables are as long as `pid` (well-formed file:
otherwise a gather raises `IndexError`, `Bridge.settled_particles_returns_iff`), the interpreted
`get_settled_particles` returns a data set `d`; its coordinate `pid` and the local variable `pinst` are the selection of
`c19_settled_last_instance`; for every `particle_instance` variable the local dict `pinst_vars` holds its values at the
selected (last) instances, for every `particle` variable `pid_vars` holds its values at the pids; and the variables of
`d` are `{**dict(pid=pid), **pid_vars, **pinst_vars}` with `pid` set to the coordinate. -/
theorem _root_.OnCode.c19_settled_dataset {β : Type} (ofPid : Nat → β) (pids : List Nat) (vars : List (String × VDim × List β))
    (hp : ∀ kv ∈ vars, kv.2.1 = .particle → ∀ p ∈ pids, p < kv.2.2.length)
    (hi : ∀ kv ∈ vars, kv.2.1 = .particleInstance → kv.2.2.length = pids.length) :
    ∃ s d, runSettledSt ofPid pids vars Gen.settled_particles_seq = some (some s) ∧
      runSettled ofPid pids vars Gen.settled_particles_seq = some (some d) ∧
      runSettledIndex pids Gen.settled_particles_seq = some (some (s.pid.zip s.pinst)) ∧
      s.pid.length = s.pinst.length ∧ d.pid = s.pid ∧
      d.vars = dictMerge (dictMerge (dictMerge [("pid", s.pid.map ofPid)] s.pidVars) s.pinstVars)
        [("pid", s.pid.map ofPid)] ∧
      (∀ kv ∈ vars, kv.2.1 = .particleInstance →
        ∃ w, (kv.1, w) ∈ s.pinstVars ∧ w.map some = s.pinst.map (fun i => kv.2.2[i]?)) ∧
      (∀ kv ∈ vars, kv.2.1 = .particle →
        ∃ w, (kv.1, w) ∈ s.pidVars ∧ w.map some = s.pid.map (fun p => kv.2.2[p]?)) := by
  have hz : ∀ (l : List (Nat × Nat)), (l.map (·.1)).zip (l.map (·.2)) = l := fun l => by
    induction l with
    | nil => rfl
    | cons x xs ih => rw [List.map_cons, List.map_cons, List.zip_cons_cons, ih]
  have h1 : (gatherVars vars .particle ((settled pids).map (·.1))).isSome := by
    rw [gatherVars_isSome_iff]
    intro kv hkv hd p hpm
    exact hp kv hkv hd p ((settled_mem_pid pids p).1 hpm)
  have h2 : (gatherVars vars .particleInstance ((settled pids).map (·.2))).isSome := by
    rw [gatherVars_isSome_iff]
    intro kv hkv hd i him
    rw [List.mem_map] at him
    obtain ⟨pi, hpi, rfl⟩ := him
    rw [hi kv hkv hd]
    exact settled_instance_in_range pids pi hpi
  obtain ⟨f, hf⟩ := Option.isSome_iff_exists.1 h1
  obtain ⟨g, hg⟩ := Option.isSome_iff_exists.1 h2
  refine ⟨⟨(settled pids).map (·.1), ((settled pids).map (·.1)).map (fun p => pids.reverse.findIdx (· == p)),
      (settled pids).map (·.2), f, g, dictMerge (dictMerge [("pid", ((settled pids).map (·.1)).map ofPid)] f) g,
      some ⟨(settled pids).map (·.1),
        dictMerge (dictMerge (dictMerge [("pid", ((settled pids).map (·.1)).map ofPid)] f) g)
          [("pid", ((settled pids).map (·.1)).map ofPid)]⟩⟩,
    ⟨(settled pids).map (·.1),
      dictMerge (dictMerge (dictMerge [("pid", ((settled pids).map (·.1)).map ofPid)] f) g)
        [("pid", ((settled pids).map (·.1)).map ofPid)]⟩, ?_, ?_, ?_, ?_, rfl, rfl, ?_, ?_⟩
  · rw [settled_particles_run, settledOutcome, outcomeOf, hf, hg]
  · rw [settled_particles, hf, hg]
  · rw [settled_particles_index]
    simp only [hz]
  · simp
  · exact gatherVars_mem vars .particleInstance _ g hg
  · exact gatherVars_mem vars .particle _ f hf

end settled

/-! ## C19, bin edges from bin centres: `_edges`

`LadimModel` has no interpreter for `Gen.raster_edges_seq` (the two statements of `utils/rasterize.py :: _edges`) and
`LadimProofs/Bridge` no bridge.  The interpretation below is LOCAL to this file (numpy on one-dimensional arrays:
slices, element-wise arithmetic, `np.concatenate`; an index out of range raises); like the interpreters of
`LadimModel` it knows the statements by their exact text, so the theorem breaks when the source of `_edges` changes. -/
section edges
variable {α : Type} [Field α] [LinearOrder α] [IsStrictOrderedRing α]

structure EdgeSt (α : Type) where
  mid : List α
  ret : Option (List α)

def edgesStep (a : List α) (s : EdgeSt α) : String → String → Option (Option (EdgeSt α))
  | "assign", "mid = 0.5 * (a[:-1] + a[1:])" =>
    some (some { s with mid := List.zipWith (fun x y => 0.5 * (x + y)) a.dropLast (a.drop 1) })
  | "return", "np.concatenate([mid[:1] - (a[1] - a[0]), mid, mid[-1:] + a[-1] - a[-2]])" =>
    some (match a[0]?, a[1]?, a[a.length - 1]?, a[a.length - 2]? with
      | some a0, some a1, some an, some an1 =>
        some { s with ret := some ((s.mid.take 1).map (fun m => m - (a1 - a0)) ++ s.mid ++
          (s.mid.drop (s.mid.length - 1)).map (fun m => m + an - an1)) }
      | _, _, _, _ => none)                                                      -- `IndexError`
  | _, _ => none

/-- `_edges(a)` as the generated sequence says (local interpretation) -/
def edgesSeq (a : List α) : Option (Option (List α)) :=
  returned EdgeSt.ret (runStrictRet (fun _ _ => none) (edgesStep a) Gen.raster_edges_seq ⟨[], none⟩)

set_option maxRecDepth 100000 in
theorem edgesSeq_eq (a : List α) (h : 2 ≤ a.length) :
    edgesSeq a = some (some (
      ((List.zipWith (fun x y => 0.5 * (x + y)) a.dropLast (a.drop 1)).take 1).map (fun m => m - (a[1] - a[0])) ++
      List.zipWith (fun x y => 0.5 * (x + y)) a.dropLast (a.drop 1) ++
      ((List.zipWith (fun x y => 0.5 * (x + y)) a.dropLast (a.drop 1)).drop
        ((List.zipWith (fun x y => 0.5 * (x + y)) a.dropLast (a.drop 1)).length - 1)).map
          (fun m => m + a[a.length - 1] - a[a.length - 2]))) := by
  have e1 : ∀ s, edgesStep a s "assign" "mid = 0.5 * (a[:-1] + a[1:])" =
      some (some { s with mid := List.zipWith (fun x y => 0.5 * (x + y)) a.dropLast (a.drop 1) }) := fun _ => rfl
  have e2 : ∀ s, edgesStep a s "return" "np.concatenate([mid[:1] - (a[1] - a[0]), mid, mid[-1:] + a[-1] - a[-2]])" =
      some (match a[0]?, a[1]?, a[a.length - 1]?, a[a.length - 2]? with
      | some a0, some a1, some an, some an1 =>
        some { s with ret := some ((s.mid.take 1).map (fun m => m - (a1 - a0)) ++ s.mid ++
          (s.mid.drop (s.mid.length - 1)).map (fun m => m + an - an1)) }
      | _, _, _, _ => none) := fun _ => rfl
  simp only [edgesSeq, Gen.raster_edges_seq, runStrictRet, guardVal, e1, e2,
    List.getElem?_eq_getElem (show 0 < a.length by omega), List.getElem?_eq_getElem (show 1 < a.length by omega),
    List.getElem?_eq_getElem (show a.length - 1 < a.length by omega),
    List.getElem?_eq_getElem (show a.length - 2 < a.length by omega)]
  simp [returned]

/-- **Bin edges are midway between bin centres** (clause "with bin edges midway between bin centres"; the function
`add_edge_info` applies `_edges` to every coordinate without a `bounds` attribute).  For at least two bin centres `a`
the interpreted `_edges` returns one edge more than there are centres; every interior edge `i + 1` is the mean of the
centres `i` and `i + 1`; the first edge lies half the first spacing before the first centre and the last edge half the
last spacing behind the last centre.  (Centres in either order; no monotonicity is used.) -/
theorem _root_.OnCode.c19_edges_midway (a : List α) (h : 2 ≤ a.length) :
    ∃ es, edgesSeq a = some (some es) ∧ ∃ hl : es.length = a.length + 1,
      (∀ i (hi : i + 1 < a.length), es[i + 1] = (a[i] + a[i + 1]) / 2) ∧
      es[0] = a[0] - (a[1] - a[0]) / 2 ∧
      es[a.length] = a[a.length - 1] + (a[a.length - 1] - a[a.length - 2]) / 2 := by
  have hm : (List.zipWith (fun x y => 0.5 * (x + y)) a.dropLast (a.drop 1)).length = a.length - 1 := by
    simp
  have hg : ∀ i (hi : i < (List.zipWith (fun x y => 0.5 * (x + y)) a.dropLast (a.drop 1)).length),
      (List.zipWith (fun x y => 0.5 * (x + y)) a.dropLast (a.drop 1))[i] =
        (a[i]'(by rw [hm] at hi; omega) + a[i + 1]'(by rw [hm] at hi; omega)) / 2 := by
    intro i hi
    have h5 : (0.5 : α) = 1 / 2 := by norm_num
    simp only [List.getElem_zipWith, List.getElem_dropLast, List.getElem_drop, h5, Nat.add_comm 1 i]
    ring
  refine ⟨_, edgesSeq_eq a h, ?_, ?_, ?_, ?_⟩
  · simp only [List.length_append, List.length_map, List.length_take, List.length_drop, hm]; omega
  · intro i hi
    rw [List.getElem_append_left (by simp only [List.length_append, List.length_map, List.length_take, hm]; omega),
      List.getElem_append_right (by simp only [List.length_map, List.length_take, hm]; omega)]
    simp only [List.length_map, List.length_take, hm]
    rw [hg]
    congr 2 <;> (congr 1; omega)
  · rw [List.getElem_append_left (by simp only [List.length_append, List.length_map, List.length_take, hm]; omega),
      List.getElem_append_left (by simp only [List.length_map, List.length_take, hm]; omega)]
    simp only [List.getElem_map, List.getElem_take, hg]
    ring
  · rw [List.getElem_append_right (by simp only [List.length_append, List.length_map, List.length_take, hm]; omega)]
    simp only [List.getElem_map, List.getElem_drop, hg, List.length_append, List.length_map, List.length_take, hm]
    have e1 : a.length - 1 - 1 + (a.length - (min 1 (a.length - 1) + (a.length - 1))) = a.length - 2 := by omega
    have e2 : a.length - 1 - 1 + (a.length - (min 1 (a.length - 1) + (a.length - 1))) + 1 = a.length - 1 := by omega
    have e3 : a.length - 2 + 1 = a.length - 1 := by omega
    simp only [e1, e2, e3]
    ring

end edges

/-! ## the hypotheses are satisfiable: concrete instances over `ℚ` -/
section examples
open Bridge

/-- two axes, `X` increasing and `Z` given in decreasing order; counts and one weight variable -/
def exA : HistArgs ℚ (ℚ × ℚ × ℚ) (ModelHist ℚ) :=
  ⟨["X", "Z"], [[0, 1, 2], [20, 10, 0]], [none, some "w"], fun r => [r.1, r.2.1], fun _ r => r.2.2,
    modelHistdd, modelFlip⟩

/-- three time slots, the second empty; the last row lies outside the grid; a negative weight; `instance_offset = 7` -/
def exP : Particles (ℚ × ℚ × ℚ) ℚ :=
  ⟨true, true, [2, 0, 2], [(1/2, 15, 10), (3/2, 5, 20), (3/2, 15, -4), (3, 5, 40)], [100, 200, 300], fun _ => none, 7⟩

/-- the side conditions of the rasterising theorems hold for `exA`, `exP` -/
example : RasterSetting exA exP := by
  refine ⟨rfl, rfl, rfl, rfl, by decide, fun _ => rfl, ?_⟩
  intro e he
  simp only [exA, List.mem_cons, List.not_mem_nil, or_false] at he
  rcases he with rfl | rfl
  · exact ⟨by decide, Or.inl (by norm_num [List.pairwise_cons])⟩
  · exact ⟨by decide, Or.inr (by norm_num [List.pairwise_cons])⟩

/-- … and on this instance the interpreted code returns: per variable and slot, the total count and the total weight
(slot 3 holds two rows, one of them outside the grid) -/
example : (match fromParticlesSeq exA exP none with
    | some (some (.series vars _ t)) => (vars.map (fun v => (v.1, v.2.2.map countTotal, v.2.2.map weightTotal)), t)
    | _ => ([], [])) =
    ([("bincount", [2, 0, 1], [0, 0, 0]), ("w", [0, 0, 0], [30, 0, -4])], [100, 200, 300]) := by
  decide +kernel

/-- the cell of the row `(X, Z) = (1/2, 15)`: `X`-bin 0, and `Z`-bin 0 of the decreasing axis `[20, 10, 0]` -/
example : (match fromParticlesSeq exA exP none with
    | some (some (.series vars _ _)) =>
      vars.map (fun v => v.2.2.map (fun h => [[0, 0], [1, 1], [1, 0]].map (fun idx => hcount (h.val idx))))
    | _ => []) = [[[1, 1, 0], [0, 0, 0], [0, 0, 1]], [[0, 0, 0], [0, 0, 0], [0, 0, 0]]] := by
  decide +kernel

/-- the side conditions of the SQLite theorems hold for the two files of a split run of `Bridge/RasterSeq.lean` -/
example : SqliteSetting exFile0 [exFile1] 3 (fun f => f.count.sum) := by
  refine ⟨by decide, by decide, ?_⟩
  intro f hf
  simp only [List.mem_cons, List.not_mem_nil, or_false] at hf
  rcases hf with rfl | rfl
  · exact ⟨by decide, by decide, by decide⟩
  · exact ⟨by decide, by decide, by decide⟩

/-- … the conversion itself on these files is evaluated in `Bridge/RasterSeq.lean` (`exDb`): 3 particle rows,
`4 + 2` instance rows -/
example : (match ladimFileToSqliteSeq [exFile0, exFile1] with
    | some (some d) => (d.particle.length, d.inst.length)
    | _ => (0, 0)) = (3, 6) := by
  decide +kernel

/-- settled particles: a pid sequence with repeats, two instance variables, one particle variable -/
def exVars : List (String × VDim × List Nat) :=
  [("pid", .particleInstance, [3, 1, 3, 2, 1]), ("X", .particleInstance, [10, 20, 30, 40, 50]),
    ("release_time", .particle, [0, 100, 200, 300])]

example : (∀ kv ∈ exVars, kv.2.1 = .particle → ∀ p ∈ [3, 1, 3, 2, 1], p < kv.2.2.length) ∧
    (∀ kv ∈ exVars, kv.2.1 = .particleInstance → kv.2.2.length = [3, 1, 3, 2, 1].length) := by
  decide

example : (match runSettled id [3, 1, 3, 2, 1] exVars Gen.settled_particles_seq with
    | some (some d) => some (d.pid, d.vars)
    | _ => none) =
    some ([1, 2, 3], [("pid", [1, 2, 3]), ("release_time", [100, 200, 300]), ("X", [50, 40, 30])]) := by
  decide +kernel

/-- bin edges of the centres `0, 1, 3` -/
example : edgesSeq [(0 : ℚ), 1, 3] = some (some [-1/2, 1/2, 2, 4]) := by
  decide +kernel

end examples

end OnCode.E2E_C19
