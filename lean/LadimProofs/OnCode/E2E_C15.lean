import LadimProofs.C15
import LadimProofs.Bridge.Grid
import LadimProofs.OnCode.C15
import LadimProofs.Bridge.SampleSeq
import LadimProofs.Bridge.GridCtorSeq
import Mathlib.Data.Rat.Floor
/-!
# C15 — end to end: the clauses of the property, stated about the interpretation of the current source

Property C15 — Grid sampling: exact at nodes, bounded by neighbours, total at the domain edge

STATEMENT: Bilinear bathymetry sampling returns the grid depth at grid nodes and a value between the four surrounding depths elsewhere; the vertical level search returns a layer that brackets the particle depth with a weight in [0,1] that reproduces the depth, and sampled 3-D fields are convex combinations of the surrounding grid values. Vertical diffusivity is read at the nearest interior w-level of the particle's cell and is never negative, horizontal diffusivity is non-negative and zero on land, and grid to lon/lat conversions are mutual inverses inside the grid and clamp outside it. Every grid or forcing query that the tracker or an IBM can issue for a position inside the grid, or up to one time step of motion outside it on any side, returns the value of the nearest edge cell instead of failing or wrapping around to the opposite side, so that a particle leaving through an open boundary is retired by LADiM instead of aborting the run.

QUANTIFIER: all positions inside the (sub)grid and within one cell outside each of its four edges, all depths from above the surface to below the bed, all bathymetries and stretchings, all field values; all end-to-end runs in which particles drift out through the north, south, east or west boundary

Every main theorem below has the interpretation of a generated statement sequence in its statement
(`z2sSeq` = `runRet … Gen.chem_z2s_seq`, `sample3DSeq` = `… Gen.chem_sample3D_seq`, `clampIndexSeq`, `velocitySeq`,
`wvelSeq`, `fieldSeq`, `vertdiffSeq`, `horzdiffSeq`, `sampleDepthSeq`, `atseaSeq`, `sampleMetricSeq`, `ingridSeq`,
`xy2llSeq`, `gcLl2xySeq`, `gcLonlatSeq`, `gcOnlandSeq`, `gcVertMixSeq`, `sedSampleDepthSeq`, `sedXy2llSeq`, `gridCtor` =
`Loops.run … Gen.chem_grid_ctor_seq`; `Gen.vertdiff_value`, `Gen.horzdiff_smag` are generated formulas) — what the current
text of `chemicals/gridforce.py`, `sedimentation/gridforce.py`, `salmon_lice/gridforce.py` does —, with the bridges
(`LadimProofs/Bridge/SampleSeq.lean`, `GridCtorSeq.lean`, `Grid.lean`) and the model theorems (`LadimProofs/C15.lean`)
as lemmas.  Scalars: an arbitrary linear ordered field `α` with the three conversions `round`, `trunc`, `ofInt`
(no law assumed unless `C15Laws` is a hypothesis).

How the clauses are stated.

* "Reads inside the stored arrays (no `IndexError`, no wrap-around of a negative index)": an array is its shape and a
  *total* read function (`Arr3`, `Arr2`); what numpy does with an index outside the shape is whatever that function
  returns there.  `c15Same3 F G` says that `F` and `G` have one shape and agree inside it; the `…_reads_inside` theorems
  say that the interpreted function returns the same on `F` and on `G` — e.g. on `c15Poison F bad`, where every read
  outside the shape gives `bad`.  The `…_between` theorems bound the result by the entries *inside* the shape only, the
  `…_cell_value` theorems exhibit the one index that is read and show it is inside the shape.
* "Up to one cell outside each edge": all theorems hold for *every* position (any distance outside), which is
  stronger.  "The value of the nearest edge cell": `c15_clamp_index_total`, `c15_cellIndex_position`, `c15_sample3D_edge`,
  `c15_sample3D_nearest_cell`, `c15_ctor_queries_nearest_edge`, `c15_sed_sample_depth_edge`, `c15_xy2ll_clamps`.
* Library calls are parameters of the interpretation: `scipy.ndimage.map_coordinates(…, order=1, mode='nearest')`
  (the theorems use its reference meaning `SampleSeq.mapNearestRef`), `np.nextafter(·, 0)`, `ladim.sample.sample2D`,
  `ladim.sample.bilin_inv`, the parent's `xy2ll`, `s_stretch` / `sdepth` (`GcEnv`).

Hypotheses forced by bridges (repeated at the theorems): `2 ≤ kmax` (`Bridge.chem_z2s_level_range`, `chem_z2s_model`: for
one level the code reads `z_rho[-1]`); `3 ≤ kmax_w` (`Bridge.chem_forcing_velocity_level_range`); two rows and columns
(`Bridge.chem_sample3D_corner_range`, `chem_forcing_horzdiff_stencil_range`); `Bridge.GcValid` and equal shapes of the file
variables (`Bridge.chem_grid_ctor_arrays`); `Bridge.GcRoundLaw` (`Bridge.chem_grid_ctor_sample_depth`; obtained from `C15Laws`).

Not covered here: the end-to-end *runs* of the quantifier (LADiM retiring a particle that `ingrid` rejects is LADiM's
code, outside this package; `c15_ingrid_total` gives the part inside it), and the inverse property of LADiM's
`bilin_inv` / `sample2D` themselves (`…_inverse_partial`).
-/
open Ladim Ladim.Seq Ladim.SampleSeq Ladim.GridSample Ladim.GridCtorSeq

set_option linter.unusedSectionVars false
set_option linter.unusedVariables false
namespace OnCode

section defs
variable {α : Type}

/-- the index triple `(k, j, i)` is inside the stored array `F` (what numpy accepts without wrap-around) -/
def c15In3 (F : Arr3 α) (k j i : Int) : Prop :=
  (0 ≤ k ∧ k < (F.kmax : Int)) ∧ (0 ≤ j ∧ j < (F.jmax : Int)) ∧ (0 ≤ i ∧ i < (F.imax : Int))

/-- the index pair `(j, i)` is inside the stored array -/
def c15In2 (H : Arr2 α) (j i : Int) : Prop := (0 ≤ j ∧ j < (H.jmax : Int)) ∧ (0 ≤ i ∧ i < (H.imax : Int))

/-- two arrays of the same shape with the same entries *inside* the shape (outside it the reads may differ at will) -/
def c15Same3 (F G : Arr3 α) : Prop :=
  F.kmax = G.kmax ∧ F.jmax = G.jmax ∧ F.imax = G.imax ∧ ∀ k j i, c15In3 F k j i → F.get k j i = G.get k j i

/-- the array with every read *outside* its shape replaced by `bad` (what a negative index that wraps around, or an
`IndexError`, would be replaced by) -/
def c15Poison (F : Arr3 α) (bad : α) : Arr3 α :=
  { F with get := fun k j i =>
      if (0 ≤ k ∧ k < (F.kmax : Int)) ∧ (0 ≤ j ∧ j < (F.jmax : Int)) ∧ (0 ≤ i ∧ i < (F.imax : Int)) then F.get k j i
      else bad }

theorem c15_same3_poison (F : Arr3 α) (bad : α) : c15Same3 F (c15Poison F bad) := by
  refine ⟨rfl, rfl, rfl, ?_⟩
  intro k j i h
  have h' : (0 ≤ k ∧ k < (F.kmax : Int)) ∧ (0 ≤ j ∧ j < (F.jmax : Int)) ∧ (0 ≤ i ∧ i < (F.imax : Int)) := h
  show F.get k j i = if _ then F.get k j i else bad
  rw [if_pos h']

end defs

/-- what the theorems about *positions* (not about rounded cell indices) need of `float(n)`, `np.round`,
`.astype(int)`: `float` of an integer is the integer; `round` gives an integer within one half; `.astype(int)` of an
integer value is the integer, of a non-negative value its floor, of a non-positive value not positive (truncation
toward zero).  Satisfiable: `c15_laws_rat` (ℚ with round-half-up, truncation toward zero, the cast). -/
structure C15Laws (α : Type) [Field α] [LinearOrder α] [HasRound α] [HasTrunc α] [HasOfInt α] : Prop where
  ofInt_cast : ∀ n : Int, (ofInt n : α) = (n : α)
  round_near : ∀ x : α, ∃ k : Int, round x = (k : α) ∧ (k : α) - 1 / 2 ≤ x ∧ x ≤ (k : α) + 1 / 2
  trunc_cast : ∀ k : Int, trunc ((k : Int) : α) = k
  trunc_floor : ∀ x : α, 0 ≤ x → ((trunc x : Int) : α) ≤ x ∧ x < ((trunc x : Int) : α) + 1
  trunc_neg : ∀ x : α, x ≤ 0 → trunc x ≤ 0

/-! ## the concrete instance over `ℚ` used by the `example`s (non-vacuity of the hypotheses) -/

/-- round half up, truncation toward zero, the cast -/
local instance e2eC15_HasRoundRat : HasRound ℚ := ⟨fun x => ((⌊x + 1 / 2⌋ : ℤ) : ℚ)⟩
local instance e2eC15_HasTruncRat : HasTrunc ℚ := ⟨fun x => if 0 ≤ x then ⌊x⌋ else ⌈x⌉⟩
local instance e2eC15_HasOfIntRat : HasOfInt ℚ := ⟨fun n => (n : ℚ)⟩

/-- the laws of the conversions are satisfiable -/
theorem c15_laws_rat : C15Laws ℚ where
  ofInt_cast := fun _ => rfl
  round_near := fun x => ⟨⌊x + 1 / 2⌋, rfl, by have := Int.floor_le (x + 1 / 2); linarith,
    by have := Int.lt_floor_add_one (x + 1 / 2); linarith⟩
  trunc_cast := fun k => by
    show (if 0 ≤ ((k : ℤ) : ℚ) then ⌊((k : ℤ) : ℚ)⌋ else ⌈((k : ℤ) : ℚ)⌉) = k
    split <;> simp
  trunc_floor := fun x hx => by
    show (((if 0 ≤ x then ⌊x⌋ else ⌈x⌉ : ℤ) : ℚ) ≤ x ∧ x < ((if 0 ≤ x then ⌊x⌋ else ⌈x⌉ : ℤ) : ℚ) + 1)
    rw [if_pos hx]
    exact ⟨Int.floor_le x, Int.lt_floor_add_one x⟩
  trunc_neg := fun x hx => by
    show (if 0 ≤ x then ⌊x⌋ else ⌈x⌉) ≤ 0
    split
    · have : x = 0 := le_antisymm hx ‹_›
      subst this; simp
    · exact Int.ceil_le.mpr (by simpa using hx)

/-- rho-levels at −25, −15, −5 m in every column of a 2 × 2 grid -/
def c15x_Zr : Arr3 ℚ := ⟨3, 2, 2, fun k _ _ => 10 * (k : ℚ) - 25⟩

/-- w-levels at −30, −20, −10, 0 m -/
def c15x_Zw : Arr3 ℚ := ⟨4, 2, 2, fun k _ _ => 10 * (k : ℚ) - 30⟩

/-- a field with three levels on the 2 × 2 grid: values 0 … 4 inside -/
def c15x_F : Arr3 ℚ := ⟨3, 2, 2, fun k j i => (k : ℚ) + (j : ℚ) + (i : ℚ)⟩

def c15x_H : Arr2 ℚ := ⟨2, 2, fun j i => 30 + (j : ℚ) + (i : ℚ)⟩

def c15x_One : Arr2 ℚ := ⟨2, 2, fun _ _ => 1⟩

def c15x_Dx : Arr2 ℚ := ⟨2, 2, fun _ _ => 800⟩

def c15x_G : GridEnv ℚ :=
  { i0 := 1, j0 := 1, z_w := c15x_Zw, z_r := c15x_Zr, H := c15x_H, M := c15x_One, dx := c15x_Dx, lon := c15x_H, lat := c15x_H, nCsw := 4,
    xmin := 1, xmax := 2, ymin := 1, ymax := 2 }

def c15x_Attr : String → Arr3 ℚ := fun _ => c15x_F

theorem c15x_Zr_mono (j i : Int) : ∀ a b : Nat, a < b → b < c15x_Zr.kmax → c15x_Zr.get (a : Int) j i < c15x_Zr.get (b : Int) j i := by
  intro a b hab _
  show 10 * (((a : Int) : ℚ)) - 25 < 10 * (((b : Int) : ℚ)) - 25
  have : (a : ℚ) < (b : ℚ) := by exact_mod_cast hab
  push_cast; linarith

theorem c15x_F_bounds : ∀ k j i, c15In3 c15x_F k j i → (0 : ℚ) ≤ c15x_F.get k j i ∧ c15x_F.get k j i ≤ 4 := by
  intro k j i h
  obtain ⟨⟨k0, k1⟩, ⟨j0, j1⟩, ⟨i0, i1⟩⟩ := h
  have k1' : k < 3 := k1
  have j1' : j < 2 := j1
  have i1' : i < 2 := i1
  show (0 : ℚ) ≤ (k : ℚ) + (j : ℚ) + (i : ℚ) ∧ (k : ℚ) + (j : ℚ) + (i : ℚ) ≤ 4
  constructor
  · have : (0 : ℤ) ≤ k + j + i := by omega
    exact_mod_cast this
  · have : k + j + i ≤ (4 : ℤ) := by omega
    exact_mod_cast this

/-- `np.nextafter(v, 0)` as "a little less" -/
def c15x_Next : ℚ → ℚ := fun v => v - 1 / 1000

/-- a (bi)linear `sample2D` on the first cell and its inverse, for `lon[j, i] = i`, `lat[j, i] = j` -/
def c15x_Sample : Arr2 ℚ → ℚ → ℚ → ℚ := fun A x y => A.get 0 0 + (A.get 0 1 - A.get 0 0) * x + (A.get 1 0 - A.get 0 0) * y

def c15x_Inv : ℚ → ℚ → Arr2 ℚ → Arr2 ℚ → ℚ × ℚ := fun lon lat _ _ => (lat, lon)

def c15x_LL : GridEnv ℚ := { c15x_G with lon := ⟨2, 2, fun _ i => (i : ℚ)⟩, lat := ⟨2, 2, fun j _ => (j : ℚ)⟩ }

/-- a grid file with 5 × 6 cells, no `subgrid`, no `Vinfo` -/
def c15x_File : GcFile ℚ :=
  { h := ⟨5, 6, fun j i => 30 + (j : ℚ) + (i : ℚ)⟩, mask_rho := ⟨5, 6, fun _ _ => 1⟩, pm := ⟨5, 6, fun _ _ => 1 / 800⟩,
    pn := ⟨5, 6, fun _ _ => 1 / 800⟩, lon_rho := ⟨5, 6, fun _ i => (i : ℚ)⟩, lat_rho := ⟨5, 6, fun j _ => (j : ℚ)⟩,
    angle := ⟨5, 6, fun _ _ => 0⟩, hc := some 10, Cs_r := some [-8 / 10, -5 / 10, -2 / 10],
    Cs_w := some [-1, -6 / 10, -3 / 10, 0], Vtransform := some 2 }

def c15x_E : GcEnv ℚ :=
  { sStretch := fun _ _ _ _ _ => [],
    sdepth := fun H _ C _ _ => ⟨C.length, H.jmax, H.imax, fun k j i => (C.getD k.toNat 0) * H.get j i⟩ }

def c15x_Cfg : GcConfig ℚ :=
  { gridFile := some ⟨"grid.nc", false, some c15x_File⟩, inputFile := none, subgrid := none, vinfo := none }

def c15x_Lim : Int × Int × Int × Int := (1, (c15x_File.h.imax : Int) - 1, 1, (c15x_File.h.jmax : Int) - 1)

theorem c15x_Valid : Bridge.GcValid c15x_File c15x_Lim := by
  unfold Bridge.GcValid c15x_Lim c15x_File
  simp

/-- the constructor returns a grid for this configuration: the hypothesis of the two theorems about `Grid(config)` -/
theorem c15x_Ctor : ∃ g : GcGrid ℚ, gridCtor c15x_E c15x_Cfg = some (some g) := by
  obtain ⟨masks, hm⟩ := Option.isSome_iff_exists.mp
    (Bridge.chem_grid_ctor_masks_valid c15x_File c15x_Lim c15x_Valid (by unfold c15x_Lim c15x_File; simp) ⟨rfl, rfl⟩)
  exact ⟨_, (Bridge.chem_grid_ctor_some c15x_E c15x_Cfg _).mpr ⟨_, c15x_File, c15x_Lim, _, masks, rfl, rfl, rfl, rfl, hm, rfl⟩⟩

/-- a field with four levels (the w-levels) -/
def c15x_F4 : Arr3 ℚ := ⟨4, 2, 2, fun k j i => (k : ℚ) + (j : ℚ) + (i : ℚ)⟩
def c15x_AttrW : String → Arr3 ℚ := fun _ => c15x_F4

theorem c15x_F4_bounds : ∀ k j i, c15In3 c15x_F4 k j i → (0 : ℚ) ≤ c15x_F4.get k j i ∧ c15x_F4.get k j i ≤ 5 := by
  intro k j i h
  obtain ⟨⟨k0, k1⟩, ⟨j0, j1⟩, ⟨i0, i1⟩⟩ := h
  have k1' : k < 4 := k1
  have j1' : j < 2 := j1
  have i1' : i < 2 := i1
  show (0 : ℚ) ≤ (k : ℚ) + (j : ℚ) + (i : ℚ) ∧ (k : ℚ) + (j : ℚ) + (i : ℚ) ≤ 5
  constructor
  · have : (0 : ℤ) ≤ k + j + i := by omega
    exact_mod_cast this
  · have : k + j + i ≤ (5 : ℤ) := by omega
    exact_mod_cast this

section field
variable {α : Type} [Field α] [LinearOrder α] [IsStrictOrderedRing α] [HasRound α] [HasTrunc α] [HasOfInt α]

/-! ## helpers: clipping, clamping, the column of `z2s` -/

theorem c15_clip01 (a : α) : 0 ≤ fmin (fmax a 0.0) 1.0 ∧ fmin (fmax a 0.0) 1.0 ≤ 1 := by
  unfold fmin fmax
  lits
  split_ifs <;> constructor <;> linarith

theorem c15_clip01_id (a : α) (h0 : 0 ≤ a) (h1 : a ≤ 1) : fmin (fmax a 0.0) 1.0 = a := by
  unfold fmin fmax
  lits
  split_ifs <;> linarith

theorem c15_clip01_hi (a : α) (h1 : 1 ≤ a) : fmin (fmax a 0.0) 1.0 = 1 := by
  unfold fmin fmax
  lits
  split_ifs <;> linarith

theorem c15_clip01_lo (a : α) (h0 : a ≤ 0) : fmin (fmax a 0.0) 1.0 = 0 := by
  unfold fmin fmax
  lits
  split_ifs <;> linarith

theorem c15_clip (x lo hi : α) (h : lo ≤ hi) :
    (lo ≤ fmin (fmax x lo) hi ∧ fmin (fmax x lo) hi ≤ hi) ∧ (lo ≤ x → x ≤ hi → fmin (fmax x lo) hi = x) ∧
    (x ≤ lo → fmin (fmax x lo) hi = lo) ∧ (hi ≤ x → fmin (fmax x lo) hi = hi) := by
  unfold fmin fmax
  refine ⟨?_, ?_, ?_, ?_⟩
  · split_ifs <;> constructor <;> linarith
  · intro a b; split_ifs <;> linarith
  · intro a; split_ifs <;> linarith
  · intro a; split_ifs <;> linarith

theorem c15_clamp_range (n : Nat) (r : Int) (hn : 1 ≤ n) : 0 ≤ clampIdx n r ∧ clampIdx n r < (n : Int) := by
  unfold clampIdx; omega

theorem c15_col_getElem (zr : Arr3 α) (j i : Int) (k : Nat) (h : k < (zr.col j i).length) :
    (zr.col j i)[k] = zr.get (k : Int) j i := by
  simp [Arr3.col]

theorem c15_col_pairwise (zr : Arr3 α) (j i : Int)
    (h : ∀ a b : Nat, a < b → b < zr.kmax → zr.get (a : Int) j i < zr.get (b : Int) j i) :
    List.Pairwise (· < ·) (zr.col j i) := by
  unfold Arr3.col
  rw [List.pairwise_map]
  refine List.Pairwise.imp_of_mem ?_ (List.pairwise_lt_range (n := zr.kmax))
  intro a b ha hb hab
  exact h a b hab (List.mem_range.mp hb)

theorem c15_count_le (zr : Arr3 α) (j i : Int) (Z : α) : countBelow (zr.col j i) Z ≤ zr.kmax := by
  unfold countBelow
  have := List.length_filter_le (fun c => decide (c < -Z)) (zr.col j i)
  rw [Bridge.ss_col_length] at this
  exact this

/-- for a strictly increasing column the count of levels below `-Z` separates the levels -/
theorem c15_count_sep (zr : Arr3 α) (j i : Int) (Z : α)
    (h : ∀ a b : Nat, a < b → b < zr.kmax → zr.get (a : Int) j i < zr.get (b : Int) j i) :
    (∀ k : Nat, k < zr.kmax → k < countBelow (zr.col j i) Z → zr.get (k : Int) j i < -Z) ∧
    (∀ k : Nat, k < zr.kmax → countBelow (zr.col j i) Z ≤ k → ¬ zr.get (k : Int) j i < -Z) := by
  obtain ⟨h1, h2⟩ := C15.countBelow_brackets (zr.col j i) Z (c15_col_pairwise zr j i h)
  constructor
  · intro k hk hc
    have hk' : k < (zr.col j i).length := by rw [Bridge.ss_col_length]; exact hk
    have := h1 k hk' hc
    rwa [c15_col_getElem] at this
  · intro k hk hc
    have hk' : k < (zr.col j i).length := by rw [Bridge.ss_col_length]; exact hk
    have := h2 k hk' hc
    rwa [c15_col_getElem] at this

/-! ## `z2s` -/

/-- the row / column of the cell whose column `z2s` searches: rounded, then clamped to the array -/
abbrev c15Z2sJ (zr : Arr3 α) (Y : Coord α) : Int := clampIdx zr.jmax Y.around

abbrev c15Z2sI (zr : Arr3 α) (X : Coord α) : Int := clampIdx zr.imax X.around

/-- **`z2s`, range** (clause "the vertical level search returns a layer … with a weight in [0,1]").  The interpretation
of `Gen.chem_z2s_seq` returns a pair `(K, A)` with `1 ≤ K ≤ kmax − 1` (both `K` and `K − 1` are levels of the array)
and `0 ≤ A ≤ 1` — for every array read, every position (float or integer coordinates), every depth.
Hypothesis `2 ≤ kmax`: forced by `Bridge.chem_z2s_level_range` (for `kmax = 1` the code reads `z_rho[-1]`, for
`kmax = 0` it raises). -/
theorem c15_z2s_level_weight (zr : Arr3 α) (X Y : Coord α) (Z : α) (hk : 2 ≤ zr.kmax) :
    ∃ K A, z2sSeq zr X Y Z = some (some (K, A)) ∧ 1 ≤ K ∧ K ≤ (zr.kmax : Int) - 1 ∧ 0 ≤ A ∧ A ≤ 1 := by
  have r := Bridge.chem_z2s_level_range zr X Y Z hk
  refine ⟨(z2sSpec zr X Y Z).1, (z2sSpec zr X Y Z).2, Bridge.chem_z2s_spec zr X Y Z, r.1, r.2, ?_, ?_⟩
  · exact (c15_clip01 _).1
  · exact (c15_clip01 _).2

example := c15_z2s_level_weight c15x_Zr (.real (3 / 10)) (.real (7 / 10)) 12 (by decide)

theorem c15_z2sSpec_of_count (zr : Arr3 α) (X Y : Coord α) (Z : α) (K : Int)
    (hK : min (max ((countBelow (zr.col (c15Z2sJ zr Y) (c15Z2sI zr X)) Z : Nat) : Int) 1) ((zr.kmax : Int) - 1) = K) :
    z2sSpec zr X Y Z = (K, fmin (fmax ((zr.get K (c15Z2sJ zr Y) (c15Z2sI zr X) + Z) /
      (zr.get K (c15Z2sJ zr Y) (c15Z2sI zr X) - zr.get (K - 1) (c15Z2sJ zr Y) (c15Z2sI zr X))) 0.0) 1.0) := by
  unfold z2sSpec
  simp only
  rw [hK]

/-- **`z2s` inside the column** (clause "… returns a layer that brackets the particle depth with a weight in [0,1] that
reproduces the depth").  For a column `z_rho[:, J, I]` (`J, I` = the rounded, then clamped cell `c15Z2sJ`, `c15Z2sI`) that
increases strictly with the level index and a depth inside it (`z_rho[0] < −Z ≤ z_rho[kmax − 1]`), the interpretation
of `Gen.chem_z2s_seq` returns `(K, A)` with `z_rho[K − 1] < −Z ≤ z_rho[K]`, `0 ≤ A ≤ 1` and
`A · z_rho[K − 1] + (1 − A) · z_rho[K] = −Z`.
Hypotheses: `2 ≤ kmax` (bridge, as above); `hmono` = well-formed s-levels (a valid stretching on a positive depth);
`hbed`, `hsurf` = "inside the column" of the property text. -/
theorem c15_z2s_brackets (zr : Arr3 α) (X Y : Coord α) (Z : α) (hk : 2 ≤ zr.kmax)
    (hmono : ∀ a b : Nat, a < b → b < zr.kmax →
      zr.get (a : Int) (c15Z2sJ zr Y) (c15Z2sI zr X) < zr.get (b : Int) (c15Z2sJ zr Y) (c15Z2sI zr X))
    (hbed : zr.get 0 (c15Z2sJ zr Y) (c15Z2sI zr X) < -Z)
    (hsurf : -Z ≤ zr.get ((zr.kmax : Int) - 1) (c15Z2sJ zr Y) (c15Z2sI zr X)) :
    ∃ K A, z2sSeq zr X Y Z = some (some (K, A)) ∧ 1 ≤ K ∧ K ≤ (zr.kmax : Int) - 1 ∧
      zr.get (K - 1) (c15Z2sJ zr Y) (c15Z2sI zr X) < -Z ∧ -Z ≤ zr.get K (c15Z2sJ zr Y) (c15Z2sI zr X) ∧
      0 ≤ A ∧ A ≤ 1 ∧
      A * zr.get (K - 1) (c15Z2sJ zr Y) (c15Z2sI zr X) + (1 - A) * zr.get K (c15Z2sJ zr Y) (c15Z2sI zr X) = -Z := by
  obtain ⟨s1, s2⟩ := c15_count_sep zr (c15Z2sJ zr Y) (c15Z2sI zr X) Z hmono
  have hle := c15_count_le zr (c15Z2sJ zr Y) (c15Z2sI zr X) Z
  generalize hc : countBelow (zr.col (c15Z2sJ zr Y) (c15Z2sI zr X)) Z = c at s1 s2 hle
  have c1 : 1 ≤ c := by
    by_contra hn
    have := s2 0 (by omega) (by omega)
    exact this (by simpa using hbed)
  have c2 : c ≤ zr.kmax - 1 := by
    by_contra hn
    have := s1 (zr.kmax - 1) (by omega) (by omega)
    have e : ((zr.kmax - 1 : Nat) : Int) = (zr.kmax : Int) - 1 := by omega
    rw [e] at this
    exact absurd this (not_lt.mpr hsurf)
  have hK : min (max ((countBelow (zr.col (c15Z2sJ zr Y) (c15Z2sI zr X)) Z : Nat) : Int) 1) ((zr.kmax : Int) - 1)
      = (c : Int) := by
    rw [hc]; omega
  have hlo : zr.get ((c : Int) - 1) (c15Z2sJ zr Y) (c15Z2sI zr X) < -Z := by
    have := s1 (c - 1) (by omega) (by omega)
    have e : ((c - 1 : Nat) : Int) = (c : Int) - 1 := by omega
    rwa [e] at this
  have hhi : -Z ≤ zr.get (c : Int) (c15Z2sJ zr Y) (c15Z2sI zr X) := not_lt.mp (s2 c (by omega) (le_refl _))
  obtain ⟨a0, a1, ar⟩ := C15.z2s_reproduces_depth _ _ Z hlo hhi
  refine ⟨(c : Int), _, ?_, by omega, by omega, hlo, hhi, a0, a1, ar⟩
  rw [Bridge.chem_z2s_spec, c15_z2sSpec_of_count zr X Y Z _ hK, c15_clip01_id _ a0 a1]

example := c15_z2s_brackets c15x_Zr (.real (3 / 10)) (.real (7 / 10)) 12 (by decide) (c15x_Zr_mono _ _)
  (by norm_num [c15x_Zr]) (by norm_num [c15x_Zr])

/-- **`z2s` outside the column** (quantifier "all depths from above the surface to below the bed").  At or below the
deepest level the result is `(1, 1)` (all the weight on level 0), above the highest level it is `(kmax − 1, 0)` (all the
weight on level `kmax − 1`): clamped, nothing is extrapolated.  Hypotheses as in `c15_z2s_brackets`. -/
theorem c15_z2s_clamped (zr : Arr3 α) (X Y : Coord α) (Z : α) (hk : 2 ≤ zr.kmax)
    (hmono : ∀ a b : Nat, a < b → b < zr.kmax →
      zr.get (a : Int) (c15Z2sJ zr Y) (c15Z2sI zr X) < zr.get (b : Int) (c15Z2sJ zr Y) (c15Z2sI zr X)) :
    (-Z ≤ zr.get 0 (c15Z2sJ zr Y) (c15Z2sI zr X) → z2sSeq zr X Y Z = some (some (1, 1))) ∧
    (zr.get ((zr.kmax : Int) - 1) (c15Z2sJ zr Y) (c15Z2sI zr X) < -Z →
      z2sSeq zr X Y Z = some (some ((zr.kmax : Int) - 1, 0))) := by
  obtain ⟨s1, s2⟩ := c15_count_sep zr (c15Z2sJ zr Y) (c15Z2sI zr X) Z hmono
  have hle := c15_count_le zr (c15Z2sJ zr Y) (c15Z2sI zr X) Z
  constructor
  · intro hbed
    have c0 : countBelow (zr.col (c15Z2sJ zr Y) (c15Z2sI zr X)) Z = 0 := by
      by_contra hn
      have := s1 0 (by omega) (by omega)
      exact absurd (by simpa using this) (not_lt.mpr hbed)
    have hK : min (max ((countBelow (zr.col (c15Z2sJ zr Y) (c15Z2sI zr X)) Z : Nat) : Int) 1) ((zr.kmax : Int) - 1)
        = 1 := by
      rw [c0]; omega
    rw [Bridge.chem_z2s_spec, c15_z2sSpec_of_count zr X Y Z _ hK]
    have m := hmono 0 1 (by omega) (by omega)
    simp only [Nat.cast_zero, Nat.cast_one] at m
    have e : (1 : Int) - 1 = 0 := by omega
    rw [e]
    have hd : 0 < zr.get 1 (c15Z2sJ zr Y) (c15Z2sI zr X) - zr.get 0 (c15Z2sJ zr Y) (c15Z2sI zr X) := by linarith
    rw [c15_clip01_hi]
    rw [le_div_iff₀ hd]
    linarith
  · intro hsurf
    have c0 : countBelow (zr.col (c15Z2sJ zr Y) (c15Z2sI zr X)) Z = zr.kmax := by
      by_contra hn
      have := s2 (zr.kmax - 1) (by omega) (by omega)
      have e : ((zr.kmax - 1 : Nat) : Int) = (zr.kmax : Int) - 1 := by omega
      rw [e] at this
      exact this hsurf
    have hK : min (max ((countBelow (zr.col (c15Z2sJ zr Y) (c15Z2sI zr X)) Z : Nat) : Int) 1) ((zr.kmax : Int) - 1)
        = (zr.kmax : Int) - 1 := by
      rw [c0]; omega
    rw [Bridge.chem_z2s_spec, c15_z2sSpec_of_count zr X Y Z _ hK]
    have m := hmono (zr.kmax - 2) (zr.kmax - 1) (by omega) (by omega)
    have e1 : ((zr.kmax - 2 : Nat) : Int) = (zr.kmax : Int) - 1 - 1 := by omega
    have e2 : ((zr.kmax - 1 : Nat) : Int) = (zr.kmax : Int) - 1 := by omega
    rw [e1, e2] at m
    have hd : 0 < zr.get ((zr.kmax : Int) - 1) (c15Z2sJ zr Y) (c15Z2sI zr X)
        - zr.get ((zr.kmax : Int) - 1 - 1) (c15Z2sJ zr Y) (c15Z2sI zr X) := by linarith
    rw [c15_clip01_lo]
    exact div_nonpos_of_nonpos_of_nonneg (by linarith) hd.le

example : z2sSeq c15x_Zr (.real (3 / 10)) (.real (7 / 10)) 40 = some (some (1, 1)) :=
  (c15_z2s_clamped c15x_Zr _ _ 40 (by decide) (c15x_Zr_mono _ _)).1 (by norm_num [c15x_Zr])
example : z2sSeq c15x_Zr (.real (3 / 10)) (.real (7 / 10)) (-1) = some (some (2, 0)) :=
  (c15_z2s_clamped c15x_Zr _ _ (-1) (by decide) (c15x_Zr_mono _ _)).2 (by norm_num [c15x_Zr])

/-- **`z2s` reads inside the stored array only** (clause "… instead of failing or wrapping around"): the interpretation of
`Gen.chem_z2s_seq` is the same on every array that agrees with `z_rho` inside the shape — whatever a read at a negative
index or beyond the end would give, it is not used.  For every position and depth.
Hypotheses: `2 ≤ kmax` (bridge), non-empty horizontal shape (an empty array has no nearest cell). -/
theorem c15_z2s_reads_inside (zr zr' : Arr3 α) (h : c15Same3 zr zr') (X Y : Coord α) (Z : α)
    (hk : 2 ≤ zr.kmax) (hj : 1 ≤ zr.jmax) (hi : 1 ≤ zr.imax) :
    z2sSeq zr X Y Z = z2sSeq zr' X Y Z := by
  obtain ⟨ek, ej, ei, e⟩ := h
  have cj := c15_clamp_range zr.jmax Y.around hj
  have ci := c15_clamp_range zr.imax X.around hi
  have hcol : zr.col (c15Z2sJ zr Y) (c15Z2sI zr X) = zr'.col (c15Z2sJ zr Y) (c15Z2sI zr X) := by
    unfold Arr3.col
    rw [← ek]
    apply List.map_congr_left
    intro k hk'
    have := List.mem_range.mp hk'
    exact e _ _ _ ⟨⟨by omega, by omega⟩, cj, ci⟩
  rw [Bridge.chem_z2s_spec, Bridge.chem_z2s_spec]
  unfold z2sSpec
  simp only
  rw [← ek, ← ej, ← ei, ← hcol]
  generalize hK : min (max ((countBelow (zr.col (clampIdx zr.jmax Y.around) (clampIdx zr.imax X.around)) Z : Nat) : Int) 1)
    ((zr.kmax : Int) - 1) = K
  have k1 : 1 ≤ K ∧ K ≤ (zr.kmax : Int) - 1 := by omega
  rw [e K _ _ ⟨⟨by omega, by omega⟩, cj, ci⟩, e (K - 1) _ _ ⟨⟨by omega, by omega⟩, cj, ci⟩]

example := c15_z2s_reads_inside c15x_Zr (c15Poison c15x_Zr 999) (c15_same3_poison _ _) (.real (-1)) (.real 5) 12
  (by decide) (by decide) (by decide)

theorem c15_z2sSpec_inside (zr zr' : Arr3 α) (h : c15Same3 zr zr') (X Y : Coord α) (Z : α)
    (hk : 2 ≤ zr.kmax) (hj : 1 ≤ zr.jmax) (hi : 1 ≤ zr.imax) : z2sSpec zr X Y Z = z2sSpec zr' X Y Z := by
  have := c15_z2s_reads_inside zr zr' h X Y Z hk hj hi
  rw [Bridge.chem_z2s_spec, Bridge.chem_z2s_spec] at this
  simpa using this

/-! ## `sample3D` -/

/-- **`sample3D` reads inside the stored array only**, for both methods and every position: the interpretation of
`Gen.chem_sample3D_seq` is the same on every array that agrees with `F` inside the shape.
Hypotheses: `1 ≤ K ≤ kmax − 1` (what `z2s` returns, `c15_z2s_level_weight`); at least two rows and columns (the bilinear
stencil `J, J + 1`, `I, I + 1` — `Bridge.chem_sample3D_corner_range`). -/
theorem c15_sample3D_reads_inside (F G : Arr3 α) (h : c15Same3 F G) (X Y : α) (K : Int) (A : α) (bilinear : Bool)
    (hK : 1 ≤ K ∧ K ≤ (F.kmax : Int) - 1) (hj : 2 ≤ F.jmax) (hi : 2 ≤ F.imax) :
    sample3DSeq F X Y K A bilinear = sample3DSeq G X Y K A bilinear := by
  obtain ⟨ek, ej, ei, e⟩ := h
  rw [Bridge.chem_sample3D, Bridge.chem_sample3D]
  unfold sample3DSpec
  rw [← ej, ← ei]
  cases bilinear
  · have cj := c15_clamp_range F.jmax (trunc (round Y)) (by omega)
    have ci := c15_clamp_range F.imax (trunc (round X)) (by omega)
    simp only [Bool.false_eq_true, if_false]
    rw [e K _ _ ⟨⟨by omega, by omega⟩, cj, ci⟩]
  · have cj := Bridge.chem_sample3D_corner_range F.jmax Y hj
    have ci := Bridge.chem_sample3D_corner_range F.imax X hi
    simp only [if_true]
    rw [e K (corner F.jmax Y) (corner F.imax X) ⟨⟨by omega, by omega⟩, ⟨by omega, by omega⟩, ⟨by omega, by omega⟩⟩,
      e K (corner F.jmax Y + 1) (corner F.imax X) ⟨⟨by omega, by omega⟩, ⟨by omega, by omega⟩, ⟨by omega, by omega⟩⟩,
      e K (corner F.jmax Y) (corner F.imax X + 1) ⟨⟨by omega, by omega⟩, ⟨by omega, by omega⟩, ⟨by omega, by omega⟩⟩,
      e K (corner F.jmax Y + 1) (corner F.imax X + 1) ⟨⟨by omega, by omega⟩, ⟨by omega, by omega⟩, ⟨by omega, by omega⟩⟩,
      e (K - 1) (corner F.jmax Y) (corner F.imax X) ⟨⟨by omega, by omega⟩, ⟨by omega, by omega⟩, ⟨by omega, by omega⟩⟩,
      e (K - 1) (corner F.jmax Y + 1) (corner F.imax X) ⟨⟨by omega, by omega⟩, ⟨by omega, by omega⟩, ⟨by omega, by omega⟩⟩,
      e (K - 1) (corner F.jmax Y) (corner F.imax X + 1) ⟨⟨by omega, by omega⟩, ⟨by omega, by omega⟩, ⟨by omega, by omega⟩⟩,
      e (K - 1) (corner F.jmax Y + 1) (corner F.imax X + 1) ⟨⟨by omega, by omega⟩, ⟨by omega, by omega⟩, ⟨by omega, by omega⟩⟩]

example := c15_sample3D_reads_inside c15x_F (c15Poison c15x_F 999) (c15_same3_poison _ _) (-1) 2 1 (1 / 2) true
  (by decide) (by decide) (by decide)

theorem c15_offset_unit (x : α) (c : Int) : 0 ≤ offset x c ∧ offset x c ≤ 1 := c15_clip01 _

/-- **`sample3D(method='bilinear')` is a convex combination of the eight surrounding grid values** (clause "sampled 3-D
fields are convex combinations of the surrounding grid values"): the interpretation of `Gen.chem_sample3D_seq` returns
`Σ w · F[…]` over the reads `F[K or K − 1, J or J + 1, I or I + 1]` at the clamped corner `J, I`, with eight weights that
are non-negative and sum to one.  For every position (also outside the array) and every `A ∈ [0, 1]` (what `z2s` returns). -/
theorem c15_sample3D_convex (F : Arr3 α) (X Y : α) (K : Int) (A : α) (hA0 : 0 ≤ A) (hA1 : A ≤ 1) :
    ∃ w000 w010 w100 w110 w001 w011 w101 w111 : α,
      (0 ≤ w000 ∧ 0 ≤ w010 ∧ 0 ≤ w100 ∧ 0 ≤ w110 ∧ 0 ≤ w001 ∧ 0 ≤ w011 ∧ 0 ≤ w101 ∧ 0 ≤ w111) ∧
      w000 + w010 + w100 + w110 + w001 + w011 + w101 + w111 = 1 ∧
      sample3DSeq F X Y K A true = some (some (
        w000 * F.get K (corner F.jmax Y) (corner F.imax X) + w010 * F.get K (corner F.jmax Y + 1) (corner F.imax X)
        + w100 * F.get K (corner F.jmax Y) (corner F.imax X + 1)
        + w110 * F.get K (corner F.jmax Y + 1) (corner F.imax X + 1)
        + w001 * F.get (K - 1) (corner F.jmax Y) (corner F.imax X)
        + w011 * F.get (K - 1) (corner F.jmax Y + 1) (corner F.imax X)
        + w101 * F.get (K - 1) (corner F.jmax Y) (corner F.imax X + 1)
        + w111 * F.get (K - 1) (corner F.jmax Y + 1) (corner F.imax X + 1))) := by
  obtain ⟨p0, p1⟩ := c15_offset_unit X (corner F.imax X)
  obtain ⟨q0, q1⟩ := c15_offset_unit Y (corner F.jmax Y)
  obtain ⟨hs, w0, w1, w2, w3, w4, w5, w6, w7⟩ :=
    C15.trilinear_weights (offset X (corner F.imax X)) (offset Y (corner F.jmax Y)) A p0 p1 q0 q1 hA0 hA1
  refine ⟨_, _, _, _, _, _, _, _, ⟨w0, w1, w2, w3, w4, w5, w6, w7⟩, hs, ?_⟩
  rw [Bridge.chem_sample3D_bilinear]
  unfold sample3DSpec trilinear
  simp only [if_true]
  lits

example := c15_sample3D_convex c15x_F (3 / 10) (7 / 10) 1 (1 / 2) (by norm_num) (by norm_num)

/-- a convex combination of eight values lies between any bounds of them -/
theorem c15_convex8 (w0 w1 w2 w3 w4 w5 w6 w7 f0 f1 f2 f3 f4 f5 f6 f7 lo hi : α)
    (hw : 0 ≤ w0 ∧ 0 ≤ w1 ∧ 0 ≤ w2 ∧ 0 ≤ w3 ∧ 0 ≤ w4 ∧ 0 ≤ w5 ∧ 0 ≤ w6 ∧ 0 ≤ w7)
    (hs : w0 + w1 + w2 + w3 + w4 + w5 + w6 + w7 = 1)
    (h0 : lo ≤ f0 ∧ f0 ≤ hi) (h1 : lo ≤ f1 ∧ f1 ≤ hi) (h2 : lo ≤ f2 ∧ f2 ≤ hi) (h3 : lo ≤ f3 ∧ f3 ≤ hi)
    (h4 : lo ≤ f4 ∧ f4 ≤ hi) (h5 : lo ≤ f5 ∧ f5 ≤ hi) (h6 : lo ≤ f6 ∧ f6 ≤ hi) (h7 : lo ≤ f7 ∧ f7 ≤ hi) :
    lo ≤ w0 * f0 + w1 * f1 + w2 * f2 + w3 * f3 + w4 * f4 + w5 * f5 + w6 * f6 + w7 * f7 ∧
    w0 * f0 + w1 * f1 + w2 * f2 + w3 * f3 + w4 * f4 + w5 * f5 + w6 * f6 + w7 * f7 ≤ hi := by
  obtain ⟨a0, a1, a2, a3, a4, a5, a6, a7⟩ := hw
  have e : ∀ c : α, w0 * c + w1 * c + w2 * c + w3 * c + w4 * c + w5 * c + w6 * c + w7 * c = c := by
    intro c
    have : w0 * c + w1 * c + w2 * c + w3 * c + w4 * c + w5 * c + w6 * c + w7 * c
        = (w0 + w1 + w2 + w3 + w4 + w5 + w6 + w7) * c := by ring
    rw [this, hs, one_mul]
  constructor
  · linarith [mul_le_mul_of_nonneg_left h0.1 a0, mul_le_mul_of_nonneg_left h1.1 a1, mul_le_mul_of_nonneg_left h2.1 a2,
      mul_le_mul_of_nonneg_left h3.1 a3, mul_le_mul_of_nonneg_left h4.1 a4, mul_le_mul_of_nonneg_left h5.1 a5,
      mul_le_mul_of_nonneg_left h6.1 a6, mul_le_mul_of_nonneg_left h7.1 a7, e lo]
  · linarith [mul_le_mul_of_nonneg_left h0.2 a0, mul_le_mul_of_nonneg_left h1.2 a1, mul_le_mul_of_nonneg_left h2.2 a2,
      mul_le_mul_of_nonneg_left h3.2 a3, mul_le_mul_of_nonneg_left h4.2 a4, mul_le_mul_of_nonneg_left h5.2 a5,
      mul_le_mul_of_nonneg_left h6.2 a6, mul_le_mul_of_nonneg_left h7.2 a7, e hi]

/-- **`sample3D` (either method) never leaves the range of the values stored inside the array**, whatever the
position: if every entry *inside* the shape lies in `[lo, hi]`, so does the sample.  (Only entries inside the shape are
constrained: the statement would be false if the code read outside.)
Hypotheses: `A ∈ [0, 1]`, `1 ≤ K ≤ kmax − 1` (what `z2s` returns), at least two rows and columns (bridge, as above). -/
theorem c15_sample3D_between (F : Arr3 α) (X Y : α) (K : Int) (A : α) (bilinear : Bool) (lo hi : α)
    (hA0 : 0 ≤ A) (hA1 : A ≤ 1) (hK : 1 ≤ K ∧ K ≤ (F.kmax : Int) - 1) (hj : 2 ≤ F.jmax) (hi' : 2 ≤ F.imax)
    (hF : ∀ k j i, c15In3 F k j i → lo ≤ F.get k j i ∧ F.get k j i ≤ hi) :
    ∃ v, sample3DSeq F X Y K A bilinear = some (some v) ∧ lo ≤ v ∧ v ≤ hi := by
  cases bilinear
  · have cj := c15_clamp_range F.jmax (trunc (round Y)) (by omega)
    have ci := c15_clamp_range F.imax (trunc (round X)) (by omega)
    refine ⟨_, Bridge.chem_sample3D_nearest F X Y K A, ?_⟩
    exact hF K _ _ ⟨⟨by omega, by omega⟩, cj, ci⟩
  · obtain ⟨w0, w1, w2, w3, w4, w5, w6, w7, hw, hs, he⟩ := c15_sample3D_convex F X Y K A hA0 hA1
    have cj := Bridge.chem_sample3D_corner_range F.jmax Y hj
    have ci := Bridge.chem_sample3D_corner_range F.imax X hi'
    refine ⟨_, he, ?_⟩
    apply c15_convex8 _ _ _ _ _ _ _ _ _ _ _ _ _ _ _ _ lo hi hw hs <;>
      exact hF _ _ _ ⟨⟨by omega, by omega⟩, ⟨by omega, by omega⟩, ⟨by omega, by omega⟩⟩

example := c15_sample3D_between c15x_F (-1) 2 1 (1 / 2) true 0 4 (by norm_num) (by norm_num) (by decide) (by decide)
  (by decide) c15x_F_bounds

theorem c15_sample3DSpec_between (F : Arr3 α) (X Y : α) (K : Int) (A : α) (bilinear : Bool) (lo hi : α)
    (hA0 : 0 ≤ A) (hA1 : A ≤ 1) (hK : 1 ≤ K ∧ K ≤ (F.kmax : Int) - 1) (hj : 2 ≤ F.jmax) (hi' : 2 ≤ F.imax)
    (hF : ∀ k j i, c15In3 F k j i → lo ≤ F.get k j i ∧ F.get k j i ≤ hi) :
    lo ≤ sample3DSpec F X Y K A bilinear ∧ sample3DSpec F X Y K A bilinear ≤ hi := by
  obtain ⟨v, hv, hb⟩ := c15_sample3D_between F X Y K A bilinear lo hi hA0 hA1 hK hj hi' hF
  rw [Bridge.chem_sample3D] at hv
  simp only [Option.some.injEq] at hv
  rw [hv]; exact hb

theorem c15_sample3DSpec_inside (F G : Arr3 α) (h : c15Same3 F G) (X Y : α) (K : Int) (A : α) (bilinear : Bool)
    (hK : 1 ≤ K ∧ K ≤ (F.kmax : Int) - 1) (hj : 2 ≤ F.jmax) (hi : 2 ≤ F.imax) :
    sample3DSpec F X Y K A bilinear = sample3DSpec G X Y K A bilinear := by
  have := c15_sample3D_reads_inside F G h X Y K A bilinear hK hj hi
  rw [Bridge.chem_sample3D, Bridge.chem_sample3D] at this
  simpa using this

/-! ## positions: the nearest edge cell -/

theorem c15_round_index (L : C15Laws α) (x : α) :
    ((trunc (round x) : Int) : α) - 1 / 2 ≤ x ∧ x ≤ ((trunc (round x) : Int) : α) + 1 / 2 := by
  obtain ⟨k, hk, h1, h2⟩ := L.round_near x
  rw [hk, L.trunc_cast]
  exact ⟨h1, h2⟩

theorem c15_roundLaw (L : C15Laws α) : Bridge.GcRoundLaw α :=
  Bridge.gc_roundLaw_of_field L.ofInt_cast L.round_near L.trunc_cast

theorem c15_round_int (L : C15Laws α) (i : Int) : trunc (round ((i : Int) : α)) = i := by
  obtain ⟨r1, r2⟩ := c15_round_index L ((i : Int) : α)
  generalize trunc (round ((i : Int) : α)) = r at r1 r2
  have a : ((r - 1 : Int) : α) < ((i : Int) : α) := by push_cast; linarith
  have b : ((i : Int) : α) < ((r + 1 : Int) : α) := by push_cast; linarith
  have := Int.cast_lt.mp a
  have := Int.cast_lt.mp b
  omega

/-- the cell of a *position* (`round`, minus the offset, clamped — `cellIndex`, what `sample_depth`, `atsea`,
`sample_metric`, `onland`, `lonlat`, `vertdiff` use): west / south of the first node it is cell 0, east / north of the
last node it is the last cell — the nearest edge cell, at any distance —, and within half a cell of node `i0 + k` it
is `k` (not clamped). -/
theorem c15_cellIndex_position (L : C15Laws α) (n : Nat) (hn : 1 ≤ n) (i0 : Int) (x : α) :
    (x ≤ (i0 : α) → cellIndex n i0 x = 0) ∧
    ((i0 : α) + (n : α) - 1 ≤ x → cellIndex n i0 x = (n : Int) - 1) ∧
    (∀ k : Int, 0 ≤ k → k < n → (i0 : α) + (k : α) - 1 / 2 < x → x < (i0 : α) + (k : α) + 1 / 2 →
      cellIndex n i0 x = k) := by
  obtain ⟨r1, r2⟩ := c15_round_index L x
  unfold cellIndex clampIdx
  generalize trunc (round x) = r at r1 r2
  refine ⟨?_, ?_, ?_⟩
  · intro h
    have : (r : α) < ((i0 + 1 : Int) : α) := by push_cast; linarith
    have := Int.cast_lt.mp this
    omega
  · intro h
    have : ((i0 + n - 2 : Int) : α) < (r : α) := by push_cast; linarith
    have := Int.cast_lt.mp this
    omega
  · intro k k0 k1 h1 h2
    have a : ((i0 + k - 1 : Int) : α) < (r : α) := by push_cast; linarith
    have b : (r : α) < ((i0 + k + 1 : Int) : α) := by push_cast; linarith
    have := Int.cast_lt.mp a
    have := Int.cast_lt.mp b
    omega

example := c15_cellIndex_position c15_laws_rat 6 (by decide) 1 (13 / 10 : ℚ)

theorem c15_corner_offset_edge (L : C15Laws α) (n : Nat) (hn : 2 ≤ n) (x : α) :
    (x ≤ 0 → corner n x = 0 ∧ offset x (corner n x) = 0) ∧
    ((n : α) - 1 ≤ x → corner n x = (n : Int) - 2 ∧ offset x (corner n x) = 1) := by
  constructor
  · intro h
    have t := L.trunc_neg x h
    have c : corner n x = 0 := by unfold corner; omega
    refine ⟨c, ?_⟩
    rw [c]
    unfold offset
    rw [L.ofInt_cast]
    apply c15_clip01_lo
    push_cast; linarith
  · intro h
    have hn' : (2 : α) ≤ (n : α) := by exact_mod_cast hn
    obtain ⟨t1, t2⟩ := L.trunc_floor x (by linarith)
    have : (((n : Int) - 2 : Int) : α) < ((trunc x + 1 : Int) : α) := by push_cast; linarith
    have := Int.cast_lt.mp this
    have c : corner n x = (n : Int) - 2 := by unfold corner; omega
    refine ⟨c, ?_⟩
    rw [c]
    unfold offset
    rw [L.ofInt_cast]
    apply c15_clip01_hi
    push_cast; linarith

/-- **bilinear `sample3D` west / east / south / north of the array = the sample at the nearest point of the edge**
(clause "returns the value of the nearest edge cell"): for `X ≤ 0` the interpretation of `Gen.chem_sample3D_seq` at `X` is
the one at `X = 0`, for `X ≥ imax − 1` the one at `X = imax − 1`; the same for `Y`.  Any distance outside.
Hypotheses: `C15Laws` (truncation), at least two rows and columns (bridge). -/
theorem c15_sample3D_edge (L : C15Laws α) (F : Arr3 α) (X Y : α) (K : Int) (A : α) (hj : 2 ≤ F.jmax) (hi : 2 ≤ F.imax) :
    (X ≤ 0 → sample3DSeq F X Y K A true = sample3DSeq F 0 Y K A true) ∧
    ((F.imax : α) - 1 ≤ X → sample3DSeq F X Y K A true = sample3DSeq F ((F.imax : α) - 1) Y K A true) ∧
    (Y ≤ 0 → sample3DSeq F X Y K A true = sample3DSeq F X 0 K A true) ∧
    ((F.jmax : α) - 1 ≤ Y → sample3DSeq F X Y K A true = sample3DSeq F X ((F.jmax : α) - 1) K A true) := by
  obtain ⟨xw, xe⟩ := c15_corner_offset_edge L F.imax hi X
  obtain ⟨ys, yn⟩ := c15_corner_offset_edge L F.jmax hj Y
  obtain ⟨xw0, _⟩ := c15_corner_offset_edge L F.imax hi 0
  obtain ⟨_, xe0⟩ := c15_corner_offset_edge L F.imax hi ((F.imax : α) - 1)
  obtain ⟨ys0, _⟩ := c15_corner_offset_edge L F.jmax hj 0
  obtain ⟨_, yn0⟩ := c15_corner_offset_edge L F.jmax hj ((F.jmax : α) - 1)
  simp only [Bridge.chem_sample3D_bilinear, sample3DSpec, if_true]
  refine ⟨?_, ?_, ?_, ?_⟩
  · intro h
    rw [(xw h).2, (xw h).1, (xw0 (le_refl _)).2, (xw0 (le_refl _)).1]
  · intro h
    rw [(xe h).2, (xe h).1, (xe0 (le_refl _)).2, (xe0 (le_refl _)).1]
  · intro h
    rw [(ys h).2, (ys h).1, (ys0 (le_refl _)).2, (ys0 (le_refl _)).1]
  · intro h
    rw [(yn h).2, (yn h).1, (yn0 (le_refl _)).2, (yn0 (le_refl _)).1]

example := c15_sample3D_edge c15_laws_rat c15x_F (-1 / 2) 3 1 (1 / 2) (by decide) (by decide)

/-- **nearest `sample3D`**: one stored value — of the own cell inside the array, of the nearest edge cell outside (at any
distance), the index always inside the shape. -/
theorem c15_sample3D_nearest_cell (L : C15Laws α) (F : Arr3 α) (X Y : α) (K : Int) (A : α)
    (hj : 1 ≤ F.jmax) (hi : 1 ≤ F.imax) :
    ∃ J I : Int, sample3DSeq F X Y K A false = some (some (F.get K J I)) ∧
      (0 ≤ J ∧ J < (F.jmax : Int)) ∧ (0 ≤ I ∧ I < (F.imax : Int)) ∧
      (X ≤ 0 → I = 0) ∧ ((F.imax : α) - 1 ≤ X → I = (F.imax : Int) - 1) ∧
      (Y ≤ 0 → J = 0) ∧ ((F.jmax : α) - 1 ≤ Y → J = (F.jmax : Int) - 1) ∧
      (∀ k : Int, 0 ≤ k → k < F.imax → (k : α) - 1 / 2 < X → X < (k : α) + 1 / 2 → I = k) ∧
      (∀ k : Int, 0 ≤ k → k < F.jmax → (k : α) - 1 / 2 < Y → Y < (k : α) + 1 / 2 → J = k) := by
  obtain ⟨x1, x2, x3⟩ := c15_cellIndex_position L F.imax hi 0 X
  obtain ⟨y1, y2, y3⟩ := c15_cellIndex_position L F.jmax hj 0 Y
  simp only [cellIndex, Int.sub_zero, Int.cast_zero, zero_add] at x1 x2 x3 y1 y2 y3
  exact ⟨_, _, Bridge.chem_sample3D_nearest F X Y K A, c15_clamp_range _ _ hj, c15_clamp_range _ _ hi,
    x1, x2, y1, y2, x3, y3⟩

example := c15_sample3D_nearest_cell c15_laws_rat c15x_F (-1 / 2) 3 1 (1 / 2) (by decide) (by decide)

/-! ## `Forcing.velocity`, `Forcing.wvel` -/

/-- the field `velocity` samples: the stored one for `tstep < 0.001`, else advanced by `tstep * d·` -/
def c15VelField (attr : String → Arr3 α) (tstep : α) (n dn : String) : Arr3 α :=
  if tstep < 0.001 then attr n else (attr n).axpy tstep (attr dn)

/-- the level `velocity` samples at -/
def c15VelK (g : GridEnv α) (X Y Z : α) : Int :=
  if decide ((g.z_w.kmax : Int) - 1 ≤ (z2sSpec g.z_w (.real (X - ofInt g.i0)) (.real (Y - ofInt g.j0)) Z).1)
  then (g.z_w.kmax : Int) - 2 else (z2sSpec g.z_w (.real (X - ofInt g.i0)) (.real (Y - ofInt g.j0)) Z).1

/-- … and the vertical weight -/
def c15VelA (g : GridEnv α) (X Y Z : α) : α :=
  if decide ((g.z_w.kmax : Int) - 1 ≤ (z2sSpec g.z_w (.real (X - ofInt g.i0)) (.real (Y - ofInt g.j0)) Z).1)
  then 0.0 else 1.0

theorem c15_velocitySpec_eq (g : GridEnv α) (attr : String → Arr3 α) (X Y Z tstep : α) (bilinear : Bool) :
    velocitySpec g attr X Y Z tstep bilinear =
      (sample3DSpec (c15VelField attr tstep "U" "dU") (X - ofInt g.i0 + 0.5) (round (Y - ofInt g.j0))
          (c15VelK g X Y Z) (c15VelA g X Y Z) bilinear,
       sample3DSpec (c15VelField attr tstep "V" "dV") (round (X - ofInt g.i0)) (Y - ofInt g.j0 + 0.5)
          (c15VelK g X Y Z) (c15VelA g X Y Z) bilinear) := by
  rfl

theorem c15_velK_range (g : GridEnv α) (X Y Z : α) (hk : 3 ≤ g.z_w.kmax) :
    1 ≤ c15VelK g X Y Z ∧ c15VelK g X Y Z ≤ (g.z_w.kmax : Int) - 2 :=
  Bridge.chem_forcing_velocity_level_range g X Y Z hk

theorem c15_velA_unit (g : GridEnv α) (X Y Z : α) : 0 ≤ c15VelA g X Y Z ∧ c15VelA g X Y Z ≤ 1 := by
  unfold c15VelA
  split <;> lits <;> constructor <;> norm_num

theorem c15_velField_shape (attr : String → Arr3 α) (tstep : α) (n dn : String) :
    (c15VelField attr tstep n dn).kmax = (attr n).kmax ∧ (c15VelField attr tstep n dn).jmax = (attr n).jmax ∧
    (c15VelField attr tstep n dn).imax = (attr n).imax := by
  unfold c15VelField
  split <;> exact ⟨rfl, rfl, rfl⟩

/-- **`Forcing.velocity`** (clauses "sampled 3-D fields are convex combinations …", "every … forcing query … for a position
inside the grid, or … outside it on any side, returns the value of the nearest edge cell instead of failing").
For *every* position, depth and time step the interpretation of `Gen.chem_forcing_velocity_seq` returns a pair
`(u, v)`; `u` is the interpreted `sample3D` of the field `U` (`c15VelField`: advanced by `tstep * dU` for `tstep ≥ 0.001`)
at the staggered local position, `v` alike; the level is `1 ≤ K ≤ kmax_w − 2`, the weight 0 or 1; and `u`, `v` lie in
any interval that contains the entries of `U`, `V` *inside their shapes* (with `c15_sample3D_convex`: convex
combinations; nothing outside the arrays is read).
Hypotheses (valid configuration): `3 ≤ kmax_w` (forced by `Bridge.chem_forcing_velocity_level_range`), `U`, `V` have one
level less than `z_w` (ROMS: `N` rho-levels, `N + 1` w-levels) and at least two rows and columns (bridge
`chem_sample3D_corner_range`). -/
theorem c15_velocity_between (g : GridEnv α) (attr : String → Arr3 α) (X Y Z tstep : α) (bilinear : Bool)
    (ulo uhi vlo vhi : α) (hk : 3 ≤ g.z_w.kmax)
    (hU : (attr "U").kmax + 1 = g.z_w.kmax ∧ 2 ≤ (attr "U").jmax ∧ 2 ≤ (attr "U").imax)
    (hV : (attr "V").kmax + 1 = g.z_w.kmax ∧ 2 ≤ (attr "V").jmax ∧ 2 ≤ (attr "V").imax)
    (hUb : ∀ k j i, c15In3 (c15VelField attr tstep "U" "dU") k j i →
      ulo ≤ (c15VelField attr tstep "U" "dU").get k j i ∧ (c15VelField attr tstep "U" "dU").get k j i ≤ uhi)
    (hVb : ∀ k j i, c15In3 (c15VelField attr tstep "V" "dV") k j i →
      vlo ≤ (c15VelField attr tstep "V" "dV").get k j i ∧ (c15VelField attr tstep "V" "dV").get k j i ≤ vhi) :
    ∃ u v K A, velocitySeq g attr X Y Z tstep bilinear = some (some (u, v)) ∧
      (1 ≤ K ∧ K ≤ (g.z_w.kmax : Int) - 2) ∧ (A = 0 ∨ A = 1) ∧
      sample3DSeq (c15VelField attr tstep "U" "dU") (X - ofInt g.i0 + 0.5) (round (Y - ofInt g.j0)) K A bilinear
        = some (some u) ∧
      sample3DSeq (c15VelField attr tstep "V" "dV") (round (X - ofInt g.i0)) (Y - ofInt g.j0 + 0.5) K A bilinear
        = some (some v) ∧
      (ulo ≤ u ∧ u ≤ uhi) ∧ (vlo ≤ v ∧ v ≤ vhi) := by
  obtain ⟨k1, k2⟩ := c15_velK_range g X Y Z hk
  obtain ⟨a0, a1⟩ := c15_velA_unit g X Y Z
  obtain ⟨su1, su2, su3⟩ := c15_velField_shape attr tstep "U" "dU"
  obtain ⟨sv1, sv2, sv3⟩ := c15_velField_shape attr tstep "V" "dV"
  refine ⟨_, _, c15VelK g X Y Z, c15VelA g X Y Z, ?_, ⟨k1, k2⟩, ?_, Bridge.chem_sample3D _ _ _ _ _ _,
    Bridge.chem_sample3D _ _ _ _ _ _, ?_, ?_⟩
  · rw [Bridge.chem_forcing_velocity, c15_velocitySpec_eq]
  · unfold c15VelA
    split
    · left; norm_num
    · right; norm_num
  · exact c15_sample3DSpec_between _ _ _ _ _ bilinear ulo uhi a0 a1 ⟨k1, by omega⟩ (by omega) (by omega) hUb
  · exact c15_sample3DSpec_between _ _ _ _ _ bilinear vlo vhi a0 a1 ⟨k1, by omega⟩ (by omega) (by omega) hVb

theorem c15x_Vel (n dn : String) : c15VelField c15x_Attr (0 : ℚ) n dn = c15x_F := by
  unfold c15VelField
  rw [if_pos (by norm_num)]
  rfl

example := c15_velocity_between c15x_G c15x_Attr (13 / 10) (3) 12 0 true 0 4 0 4 (by decide) (by decide) (by decide)
  (by rw [c15x_Vel]; exact c15x_F_bounds) (by rw [c15x_Vel]; exact c15x_F_bounds)

theorem c15_same3_axpy (F G dF dG : Arr3 α) (t : α) (h : c15Same3 F G) (hd : c15Same3 dF dG)
    (hs : dF.kmax = F.kmax ∧ dF.jmax = F.jmax ∧ dF.imax = F.imax) : c15Same3 (F.axpy t dF) (G.axpy t dG) := by
  obtain ⟨e1, e2, e3, e⟩ := h
  obtain ⟨d1, d2, d3, d⟩ := hd
  refine ⟨e1, e2, e3, ?_⟩
  intro k j i hin
  have hin' : c15In3 F k j i := hin
  have hdin : c15In3 dF k j i := by
    unfold c15In3 at hin' ⊢
    rw [hs.1, hs.2.1, hs.2.2]; exact hin'
  show F.get k j i + t * dF.get k j i = G.get k j i + t * dG.get k j i
  rw [e k j i hin', d k j i hdin]

/-- **`Forcing.velocity` reads the stored arrays inside their shapes only**: the interpretation of
`Gen.chem_forcing_velocity_seq` (with its calls of `z2s`, `sample3DUV`, `sample3D`, `_clamp_index`) is the same for every
`z_w`, `U`, `V`, `dU`, `dV` that agree with the stored ones inside the shapes — for every position, also outside the
grid on any side.  Hypotheses: the shapes of a valid configuration, as in `c15_velocity_between`; `dU`, `dV` have the
shapes of `U`, `V`. -/
theorem c15_velocity_reads_inside (g g' : GridEnv α) (attr attr' : String → Arr3 α) (X Y Z tstep : α)
    (bilinear : Bool) (hk : 3 ≤ g.z_w.kmax) (hzj : 1 ≤ g.z_w.jmax) (hzi : 1 ≤ g.z_w.imax)
    (hU : (attr "U").kmax + 1 = g.z_w.kmax ∧ 2 ≤ (attr "U").jmax ∧ 2 ≤ (attr "U").imax)
    (hV : (attr "V").kmax + 1 = g.z_w.kmax ∧ 2 ≤ (attr "V").jmax ∧ 2 ≤ (attr "V").imax)
    (hdU : (attr "dU").kmax = (attr "U").kmax ∧ (attr "dU").jmax = (attr "U").jmax ∧ (attr "dU").imax = (attr "U").imax)
    (hdV : (attr "dV").kmax = (attr "V").kmax ∧ (attr "dV").jmax = (attr "V").jmax ∧ (attr "dV").imax = (attr "V").imax)
    (hi0 : g.i0 = g'.i0) (hj0 : g.j0 = g'.j0) (hzw : c15Same3 g.z_w g'.z_w)
    (hattr : ∀ n, n ∈ ["U", "V", "dU", "dV"] → c15Same3 (attr n) (attr' n)) :
    velocitySeq g attr X Y Z tstep bilinear = velocitySeq g' attr' X Y Z tstep bilinear := by
  obtain ⟨k1, k2⟩ := c15_velK_range g X Y Z hk
  obtain ⟨su1, su2, su3⟩ := c15_velField_shape attr tstep "U" "dU"
  obtain ⟨sv1, sv2, sv3⟩ := c15_velField_shape attr tstep "V" "dV"
  have hz := c15_z2sSpec_inside g.z_w g'.z_w hzw (.real (X - ofInt g.i0)) (.real (Y - ofInt g.j0)) Z (by omega) hzj hzi
  have hK : c15VelK g X Y Z = c15VelK g' X Y Z := by
    unfold c15VelK
    rw [← hi0, ← hj0, ← hz, ← hzw.1]
  have hA : c15VelA g X Y Z = c15VelA g' X Y Z := by
    unfold c15VelA
    rw [← hi0, ← hj0, ← hz, ← hzw.1]
  have hUs : c15Same3 (c15VelField attr tstep "U" "dU") (c15VelField attr' tstep "U" "dU") := by
    unfold c15VelField
    split
    · exact hattr "U" (by simp)
    · exact c15_same3_axpy _ _ _ _ _ (hattr "U" (by simp)) (hattr "dU" (by simp)) hdU
  have hVs : c15Same3 (c15VelField attr tstep "V" "dV") (c15VelField attr' tstep "V" "dV") := by
    unfold c15VelField
    split
    · exact hattr "V" (by simp)
    · exact c15_same3_axpy _ _ _ _ _ (hattr "V" (by simp)) (hattr "dV" (by simp)) hdV
  rw [Bridge.chem_forcing_velocity, Bridge.chem_forcing_velocity, c15_velocitySpec_eq, c15_velocitySpec_eq,
    ← hK, ← hA, ← hi0, ← hj0,
    c15_sample3DSpec_inside _ _ hUs _ _ _ _ bilinear ⟨k1, by omega⟩ (by omega) (by omega),
    c15_sample3DSpec_inside _ _ hVs _ _ _ _ bilinear ⟨k1, by omega⟩ (by omega) (by omega)]

example := c15_velocity_reads_inside c15x_G { c15x_G with z_w := c15Poison c15x_Zw 999 } c15x_Attr (fun n => c15Poison (c15x_Attr n) 999)
  (13 / 10) 3 12 0 true (by decide) (by decide) (by decide) (by decide) (by decide) (by decide) (by decide) rfl rfl
  (c15_same3_poison _ _) (fun _ _ => c15_same3_poison _ _)

/-- the field `wvel` samples -/
def c15WField (attr : String → Arr3 α) (tstep : α) : Arr3 α :=
  if 0.001 ≤ tstep then (attr "W").axpy tstep (attr "dW") else attr "W"

/-- **`Forcing.wvel`**: the interpreted `sample3D` of `W` (advanced by `tstep * dW` for `tstep ≥ 0.001`) at the rounded local
position with the `(K, A)` of the interpreted `z2s`; inside any interval that contains the entries of `W` inside its
shape, for every position.  Hypotheses: `2 ≤ kmax_w` (bridge), `W` has the levels of `z_w` and two rows / columns. -/
theorem c15_wvel_between (g : GridEnv α) (attr : String → Arr3 α) (X Y Z tstep : α) (bilinear : Bool) (lo hi : α)
    (hk : 2 ≤ g.z_w.kmax) (hW : (attr "W").kmax = g.z_w.kmax ∧ 2 ≤ (attr "W").jmax ∧ 2 ≤ (attr "W").imax)
    (hb : ∀ k j i, c15In3 (c15WField attr tstep) k j i →
      lo ≤ (c15WField attr tstep).get k j i ∧ (c15WField attr tstep).get k j i ≤ hi) :
    ∃ w K A, z2sSeq g.z_w (.real (X - ofInt g.i0)) (.real (Y - ofInt g.j0)) Z = some (some (K, A)) ∧
      wvelSeq g attr X Y Z tstep bilinear = some (some (w, c15WField attr tstep)) ∧
      sample3DSeq (c15WField attr tstep) (round (X - ofInt g.i0)) (round (Y - ofInt g.j0)) K A bilinear = some (some w) ∧
      lo ≤ w ∧ w ≤ hi := by
  have r := Bridge.chem_z2s_level_range g.z_w (.real (X - ofInt g.i0)) (.real (Y - ofInt g.j0)) Z hk
  have sh : (c15WField attr tstep).kmax = (attr "W").kmax ∧ (c15WField attr tstep).jmax = (attr "W").jmax ∧
      (c15WField attr tstep).imax = (attr "W").imax := by
    unfold c15WField; split <;> exact ⟨rfl, rfl, rfl⟩
  refine ⟨_, _, _, Bridge.chem_z2s_spec _ _ _ _, ?_, Bridge.chem_sample3D _ _ _ _ _ _, ?_⟩
  · rw [Bridge.chem_forcing_wvel]
    rfl
  · exact c15_sample3DSpec_between _ _ _ _ _ bilinear lo hi (c15_clip01 _).1 (c15_clip01 _).2
      ⟨r.1, by omega⟩ (by omega) (by omega) hb

theorem c15x_W : c15WField c15x_AttrW (0 : ℚ) = c15x_F4 := by
  unfold c15WField
  rw [if_neg (by norm_num)]
  rfl

example := c15_wvel_between c15x_G c15x_AttrW (13 / 10) 3 12 0 true 0 5 (by decide) (by decide)
  (by rw [c15x_W]; exact c15x_F4_bounds)

/-! ## `Forcing.field`, salmon lice `Forcing.vert_mix` -/

/-- **`Forcing.field`** (nearest sampling of a 3-D field): for every position the interpretation of
`Gen.chem_forcing_field_seq` returns the stored value `F[K, J, I]` with `K` from the interpreted `z2s` on `z_r`,
`J, I` = the rounded local position clamped to the array, and `(K, J, I)` inside the shape of `F`.
Hypotheses: `2 ≤ kmax_r` (bridge `chem_z2s_level_range`), `F` has the levels of `z_r` and is not empty. -/
theorem c15_field_cell_value (g : GridEnv α) (attr : String → Arr3 α) (name : String) (X Y Z : α)
    (hk : 2 ≤ g.z_r.kmax) (hs : (attr name).kmax = g.z_r.kmax) (hj : 1 ≤ (attr name).jmax)
    (hi : 1 ≤ (attr name).imax) :
    ∃ K A J I, z2sSeq g.z_r (.real (X - ofInt g.i0)) (.real (Y - ofInt g.j0)) Z = some (some (K, A)) ∧
      J = clampIdx (attr name).jmax (trunc (round (Y - ofInt g.j0))) ∧
      I = clampIdx (attr name).imax (trunc (round (X - ofInt g.i0))) ∧
      c15In3 (attr name) K J I ∧
      fieldSeq g attr name X Y Z = some (some ((attr name).get K J I)) := by
  have r := Bridge.chem_z2s_level_range g.z_r (.real (X - ofInt g.i0)) (.real (Y - ofInt g.j0)) Z hk
  have cj := c15_clamp_range (attr name).jmax (trunc (round (Y - ofInt g.j0))) hj
  have ci := c15_clamp_range (attr name).imax (trunc (round (X - ofInt g.i0))) hi
  refine ⟨_, _, _, _, Bridge.chem_z2s_spec _ _ _ _, rfl, rfl, ⟨⟨by omega, by omega⟩, cj, ci⟩, ?_⟩
  rw [Bridge.chem_forcing_field]
  rfl

example := c15_field_cell_value c15x_G c15x_Attr "temp" (13 / 10) 3 12 (by decide) (by decide) (by decide) (by decide)

/-- **salmon lice `Forcing.vert_mix`**: as `field`, with `z2s` on `z_w` and the field `AKs` (`Gen.lice_vert_mix_seq`). -/
theorem c15_lice_vert_mix_cell_value (g : GridEnv α) (attr : String → Arr3 α) (X Y Z : α)
    (hk : 2 ≤ g.z_w.kmax) (hs : (attr "AKs").kmax = g.z_w.kmax) (hj : 1 ≤ (attr "AKs").jmax)
    (hi : 1 ≤ (attr "AKs").imax) :
    ∃ K A J I, z2sSeq g.z_w (.real (X - ofInt g.i0)) (.real (Y - ofInt g.j0)) Z = some (some (K, A)) ∧
      J = clampIdx (attr "AKs").jmax (trunc (round (Y - ofInt g.j0))) ∧
      I = clampIdx (attr "AKs").imax (trunc (round (X - ofInt g.i0))) ∧
      c15In3 (attr "AKs") K J I ∧
      gcVertMixSeq g attr X Y Z = some (some ((attr "AKs").get K J I)) := by
  have r := Bridge.chem_z2s_level_range g.z_w (.real (X - ofInt g.i0)) (.real (Y - ofInt g.j0)) Z hk
  have cj := c15_clamp_range (attr "AKs").jmax (trunc (round (Y - ofInt g.j0))) hj
  have ci := c15_clamp_range (attr "AKs").imax (trunc (round (X - ofInt g.i0))) hi
  refine ⟨_, _, _, _, Bridge.chem_z2s_spec _ _ _ _, rfl, rfl, ⟨⟨by omega, by omega⟩, cj, ci⟩, ?_⟩
  rw [Bridge.lice_vert_mix]
  rfl

example := c15_lice_vert_mix_cell_value c15x_G c15x_AttrW (13 / 10) 3 12 (by decide) (by decide) (by decide) (by decide)

/-! ## `Forcing.vertdiff` -/

/-- **`Forcing.vertdiff`** (clause "vertical diffusivity is read at the nearest interior w-level of the particle's cell and is
never negative").  For every position the interpretation of `Gen.chem_forcing_vertdiff_seq` returns
`Gen.vertdiff_value F[Kn, J, I] ≥ 0` where `J, I` is the particle's own cell (`cellIndex`: inside the shape of `H`, the
nearest edge cell outside the grid), `(K, A)` is the interpreted `z2s` of that column of `z_w`, and
`Kn = clip(int(round(K − A)), 1, len(Cs_w) − 2)` is an interior w-level.
Hypotheses: `3 ≤ len(Cs_w)` (there is an interior w-level), `H` not empty. -/
theorem c15_vertdiff_interior_nonneg (g : GridEnv α) (attr : String → Arr3 α) (name : String) (X Y Z : α)
    (hn : 3 ≤ g.nCsw) (hHj : 1 ≤ g.H.jmax) (hHi : 1 ≤ g.H.imax) :
    ∃ K A Kn J I v, J = cellIndex g.H.jmax g.j0 Y ∧ I = cellIndex g.H.imax g.i0 X ∧
      ((0 ≤ J ∧ J < (g.H.jmax : Int)) ∧ (0 ≤ I ∧ I < (g.H.imax : Int))) ∧
      z2sSeq g.z_w (.int I) (.int J) Z = some (some (K, A)) ∧
      Kn = max 1 (min ((g.nCsw : Int) - 2) (trunc (round (ofInt K - A)))) ∧
      (1 ≤ Kn ∧ Kn ≤ (g.nCsw : Int) - 2) ∧
      v = Gen.vertdiff_value ((attr name).get Kn J I) ∧
      vertdiffSeq g attr name X Y Z = some (some v) ∧ 0 ≤ v := by
  have cj := c15_clamp_range g.H.jmax (trunc (round Y) - g.j0) hHj
  have ci := c15_clamp_range g.H.imax (trunc (round X) - g.i0) hHi
  refine ⟨_, _, _, _, _, _, rfl, rfl, ⟨cj, ci⟩, Bridge.chem_z2s_spec _ _ _ _, rfl, by omega, rfl, ?_, ?_⟩
  · rw [Bridge.chem_forcing_vertdiff]
    rfl
  · exact (vertdiff_and_weight _ 0 0 0).1

example := c15_vertdiff_interior_nonneg c15x_G c15x_Attr "AKs" (13 / 10) 3 12 (by decide) (by decide) (by decide)

/-- **`vertdiff` reads the w-level nearest to the particle**: `Kn` is the integer nearest to the fractional level `K − A`
(the depth is `A · z_w[K − 1] + (1 − A) · z_w[K]`, `c15_z2s_brackets`), kept inside `[1, len(Cs_w) − 2]`.
Hypothesis: `C15Laws` (`round` gives an integer within one half). -/
theorem c15_vertdiff_nearest_level (L : C15Laws α) (g : GridEnv α) (attr : String → Arr3 α) (name : String)
    (X Y Z : α) :
    ∃ (K : Int) (A : α) (kn : Int), z2sSeq g.z_w (.int (cellIndex g.H.imax g.i0 X)) (.int (cellIndex g.H.jmax g.j0 Y)) Z = some (some (K, A)) ∧
      ((kn : α) - 1 / 2 ≤ (K : α) - A ∧ (K : α) - A ≤ (kn : α) + 1 / 2) ∧
      vertdiffSeq g attr name X Y Z = some (some (Gen.vertdiff_value
        ((attr name).get (max 1 (min ((g.nCsw : Int) - 2) kn)) (cellIndex g.H.jmax g.j0 Y) (cellIndex g.H.imax g.i0 X)))) := by
  refine ⟨(z2sSpec g.z_w (.int (cellIndex g.H.imax g.i0 X)) (.int (cellIndex g.H.jmax g.j0 Y)) Z).1,
    (z2sSpec g.z_w (.int (cellIndex g.H.imax g.i0 X)) (.int (cellIndex g.H.jmax g.j0 Y)) Z).2,
    trunc (round (((z2sSpec g.z_w (.int (cellIndex g.H.imax g.i0 X)) (.int (cellIndex g.H.jmax g.j0 Y)) Z).1 : α)
      - (z2sSpec g.z_w (.int (cellIndex g.H.imax g.i0 X)) (.int (cellIndex g.H.jmax g.j0 Y)) Z).2)),
    Bridge.chem_z2s_spec _ _ _ _, c15_round_index L _, ?_⟩
  rw [Bridge.chem_forcing_vertdiff]
  unfold vertdiffSpec vertdiffSpecWith
  simp only
  rw [L.ofInt_cast]
  rfl

example := c15_vertdiff_nearest_level c15_laws_rat c15x_G c15x_Attr "AKs" (13 / 10) 3 12

/-! ## `Forcing.horzdiff` -/

/-- **`Forcing.horzdiff`** (clause "horizontal diffusivity is non-negative and zero on land").  For every position the
interpretation of `Gen.chem_forcing_horzdiff_seq` returns a value `≥ 0`, and `0` whenever the interpreted `Grid.atsea`
says the particle's cell is land.
Hypotheses (valid configuration): `dx ≥ 0` inside its shape (`dx = 1 / pm`), `dx` has the shape of `H`, at least two
rows and columns (forced by `Bridge.chem_forcing_horzdiff_stencil_range`: the stencil `J, J + 1`, `I, I + 1`). -/
theorem c15_horzdiff_sign (g : GridEnv α) (attr : String → Arr3 α) (X Y Z : α)
    (hj : 2 ≤ g.H.jmax) (hi : 2 ≤ g.H.imax) (hsh : g.dx.jmax = g.H.jmax ∧ g.dx.imax = g.H.imax)
    (hdx : ∀ j i, c15In2 g.dx j i → 0 ≤ g.dx.get j i) :
    ∃ v, horzdiffSeq g attr X Y Z = some (some v) ∧ 0 ≤ v ∧ (atseaSeq g X Y = some (some false) → v = 0) := by
  refine ⟨_, Bridge.chem_forcing_horzdiff g attr X Y Z, ?_, ?_⟩
  · unfold horzdiffSpec horzdiffSpecWith
    simp only
    apply C15.horzdiff_nonneg
    apply hdx
    have a := Bridge.chem_forcing_horzdiff_stencil_range g.H.jmax (trunc (round Y) - g.j0) hj
    have b := Bridge.chem_forcing_horzdiff_stencil_range g.H.imax (trunc (round X) - g.i0) hi
    unfold c15In2
    rw [hsh.1, hsh.2]
    omega
  · intro h
    rw [Bridge.chem_grid_atsea] at h
    simp only [Option.some.injEq] at h
    unfold horzdiffSpec horzdiffSpecWith
    simp only
    rw [h]
    exact C15.horzdiff_zero_on_land _ _ _

example := c15_horzdiff_sign c15x_G c15x_Attr (13 / 10) 3 12 (by decide) (by decide) ⟨rfl, rfl⟩
  (fun _ _ _ => by show (0 : ℚ) ≤ 800; norm_num)

/-- the stencil of `horzdiff`: the generated Smagorinsky window `Gen.horzdiff_smag` on the reads at `K, K − 1`,
`J, J + 1`, `I, I + 1` — all inside the arrays for every position (`J, I` clipped to `[0, n − 2]`). -/
theorem c15_horzdiff_stencil (g : GridEnv α) (attr : String → Arr3 α) (X Y Z : α)
    (hj : 2 ≤ g.H.jmax) (hi : 2 ≤ g.H.imax) (hk : 2 ≤ g.z_r.kmax) :
    ∃ K A J I sea, z2sSeq g.z_r (.int I) (.int J) Z = some (some (K, A)) ∧ atseaSeq g X Y = some (some sea) ∧
      (1 ≤ K ∧ K ≤ (g.z_r.kmax : Int) - 1) ∧ (0 ≤ J ∧ J + 1 ≤ (g.H.jmax : Int) - 1) ∧
      (0 ≤ I ∧ I + 1 ≤ (g.H.imax : Int) - 1) ∧
      horzdiffSeq g attr X Y Z = some (some (Gen.horzdiff_smag A
        ((attr "U").get K J I) ((attr "U").get (K - 1) J I) ((attr "U").get K (J + 1) I) ((attr "U").get (K - 1) (J + 1) I)
        ((attr "V").get K J I) ((attr "V").get (K - 1) J I) ((attr "V").get K J (I + 1)) ((attr "V").get (K - 1) J (I + 1))
        (g.dx.get J I) sea)) := by
  have a := Bridge.chem_forcing_horzdiff_stencil_range g.H.jmax (trunc (round Y) - g.j0) hj
  have b := Bridge.chem_forcing_horzdiff_stencil_range g.H.imax (trunc (round X) - g.i0) hi
  refine ⟨_, _, _, _, _, Bridge.chem_z2s_spec _ _ _ _, Bridge.chem_grid_atsea g X Y,
    Bridge.chem_z2s_level_range _ _ _ _ hk, a, b, ?_⟩
  rw [Bridge.chem_forcing_horzdiff, ← Bridge.horzdiff_smag]
  rfl

example := c15_horzdiff_stencil c15x_G c15x_Attr (13 / 10) 3 12 (by decide) (by decide) (by decide)

/-! ## `_clamp_index` and the cell queries of `Grid` -/

/-- **`_clamp_index`** (no scalar type involved): the interpretation of `Gen.chem_clamp_index_seq` returns indices inside
the shape for every input; an index inside is unchanged, a negative one becomes 0 (no wrap-around), one beyond the end
becomes the last (no `IndexError`). -/
theorem c15_clamp_index_total (I J : Int) (shape : Nat × Nat) (hj : 1 ≤ shape.1) (hi : 1 ≤ shape.2) :
    ∃ I' J', clampIndexSeq I J shape = some (some (I', J')) ∧
      (0 ≤ I' ∧ I' < (shape.2 : Int)) ∧ (0 ≤ J' ∧ J' < (shape.1 : Int)) ∧
      (0 ≤ I → I < (shape.2 : Int) → I' = I) ∧ (I < 0 → I' = 0) ∧ ((shape.2 : Int) ≤ I → I' = (shape.2 : Int) - 1) ∧
      (0 ≤ J → J < (shape.1 : Int) → J' = J) ∧ (J < 0 → J' = 0) ∧ ((shape.1 : Int) ≤ J → J' = (shape.1 : Int) - 1) := by
  refine ⟨_, _, Bridge.chem_clamp_index I J shape, ?_⟩
  unfold clampIdx
  omega

example := c15_clamp_index_total (-1) 7 (5, 6) (by decide) (by decide)

/-- **`Grid.sample_depth`, `Grid.atsea`, `Grid.sample_metric` (chemicals)**: for every position one stored value, of
the particle's own cell clamped to the array (`cellIndex`; `c15_cellIndex_inside`: inside the shape,
`c15_cellIndex_position`: the nearest edge cell outside). -/
theorem c15_grid_cell_queries (g : GridEnv α) (X Y : α) :
    sampleDepthSeq g X Y = some (some (g.H.get (cellIndex g.H.jmax g.j0 Y) (cellIndex g.H.imax g.i0 X))) ∧
    atseaSeq g X Y = some (some (decide (0 < g.M.get (cellIndex g.M.jmax g.j0 Y) (cellIndex g.M.imax g.i0 X)))) ∧
    sampleMetricSeq g X Y = some (some (g.dx.get (cellIndex g.dx.jmax g.j0 Y) (cellIndex g.dx.imax g.i0 X),
      g.dx.get (cellIndex g.dx.jmax g.j0 Y) (cellIndex g.dx.imax g.i0 X))) := by
  refine ⟨Bridge.chem_grid_sample_depth g X Y, ?_, Bridge.chem_grid_sample_metric g X Y⟩
  rw [Bridge.chem_grid_atsea]
  unfold Arr2.atCell
  lits

example := c15_grid_cell_queries c15x_G (13 / 10) 3

/-- the cell index of these queries is inside the array whatever the position -/
theorem c15_cellIndex_inside (n : Nat) (hn : 1 ≤ n) (i0 : Int) (x : α) :
    0 ≤ cellIndex n i0 x ∧ cellIndex n i0 x < (n : Int) :=
  c15_clamp_range n _ hn

/-- **`Grid.onland`, `Grid.lonlat`**: `onland` and `lonlat(method='nearest')` read the clamped own cell, the bilinear
`lonlat` is `xy2ll` (`c15_xy2ll_clamps`). -/
theorem c15_grid_onland_lonlat (nextafter0 : α → α) (sample2D : Arr2 α → α → α → α) (g : GridEnv α) (X Y : α) :
    gcOnlandSeq g X Y = some (some (decide (g.M.get (cellIndex g.M.jmax g.j0 Y) (cellIndex g.M.imax g.i0 X) < 1))) ∧
    gcLonlatSeq nextafter0 sample2D g X Y false = some (some
      (g.lon.get (cellIndex g.lon.jmax g.j0 Y) (cellIndex g.lon.imax g.i0 X),
       g.lat.get (cellIndex g.lon.jmax g.j0 Y) (cellIndex g.lon.imax g.i0 X))) ∧
    gcLonlatSeq nextafter0 sample2D g X Y true = xy2llSeq nextafter0 sample2D g X Y := by
  refine ⟨?_, Bridge.chem_grid_lonlat nextafter0 sample2D g X Y false, ?_⟩
  · rw [Bridge.chem_grid_onland]
    unfold Arr2.atCell
    lits
  · rw [Bridge.chem_grid_lonlat, Bridge.chem_grid_xy2ll]
    rfl

example := c15_grid_onland_lonlat c15x_Next c15x_Sample c15x_G (13 / 10) 3

/-- **`Grid.ingrid`** (clause "… so that a particle leaving through an open boundary is retired by LADiM"): total — it
returns a Boolean for every position — and true exactly within half a cell of the node range.  (What LADiM does with
`False` — it retires the particle — is LADiM's, not in this package.) -/
theorem c15_ingrid_total (g : GridEnv α) (X Y : α) :
    ∃ b, ingridSeq g X Y = some (some b) ∧
      (b = true ↔ (g.xmin - 0.5 < X ∧ X < g.xmax + 0.5 ∧ g.ymin - 0.5 < Y ∧ Y < g.ymax + 0.5)) := by
  refine ⟨_, Bridge.chem_grid_ingrid g X Y, ?_⟩
  simp only [GridSample.ingrid, Bool.and_eq_true, decide_eq_true_eq]
  tauto

example := c15_ingrid_total c15x_G (13 / 10) 3

/-! ## from the configuration to the queries: the grid that `Grid.__init__` builds -/

theorem c15_cellIndex_global (n : Nat) (a b : Int) (hn : (n : Int) = b - a) (x : α) :
    cellIndex n a x = min (max (trunc (round x)) a) (b - 1) - a := by
  unfold cellIndex clampIdx
  omega

/-- **`Grid(config)` then `sample_depth` / `atsea` / `sample_metric`, for every position** (clause "every grid … query …
returns the value of the nearest edge cell instead of failing or wrapping around to the opposite side").  If the
interpretation of `Gen.chem_grid_ctor_seq` returns a grid `g` (from the file `f` with the limits `lim = (i0, i1, j0, j1)`),
then for *every* position the three interpreted queries return the *file's* `h`, `mask_rho`, `1 / pm` at
`(jc, ic)` = the rounded position clamped to `[j0, j1 − 1] × [i0, i1 − 1]`: the own cell inside the subgrid, the nearest
edge cell of the subgrid outside it (one cell or any distance, all four sides), never a cell of the opposite side.
Hypotheses forced by `Bridge.chem_grid_ctor_arrays`: `GcValid` (`0 ≤ i0 ≤ i1 ≤ imax`, `0 ≤ j0 ≤ j1 ≤ jmax` of the file — the
constructor itself does not check this; with a negative bound the slices count from the end) and the file's 2-D
variables have the shape of `h`. -/
theorem c15_ctor_queries_nearest_edge (E : GcEnv α) (cfg : GcConfig α) (g : GcGrid α)
    (hg : gridCtor E cfg = some (some g)) :
    ∃ ref f lim, gcGridFileOf cfg = some ref ∧ ref.content = some f ∧
      gcLimits (f.h.imax : Int) (f.h.jmax : Int) cfg.subgrid = some lim ∧
      (Bridge.GcValid f lim →
       (∀ A : Arr2 α, A ∈ [f.mask_rho, f.pm, f.lon_rho, f.lat_rho] → A.jmax = f.h.jmax ∧ A.imax = f.h.imax) →
       ∀ X Y : α, ∃ jc ic : Int,
         jc = min (max (trunc (round Y)) lim.2.2.1) (lim.2.2.2 - 1) ∧
         ic = min (max (trunc (round X)) lim.1) (lim.2.1 - 1) ∧
         (lim.2.2.1 ≤ jc ∧ jc < lim.2.2.2) ∧ (lim.1 ≤ ic ∧ ic < lim.2.1) ∧
         sampleDepthSeq g.env X Y = some (some (f.h.get jc ic)) ∧
         atseaSeq g.env X Y = some (some (decide (0 < (ofInt (trunc (f.mask_rho.get jc ic)) : α)))) ∧
         sampleMetricSeq g.env X Y = some (some (1.0 / f.pm.get jc ic, 1.0 / f.pm.get jc ic))) := by
  obtain ⟨ref, f, lim, sl, masks, h1, h2, h3, h4, h5, h6⟩ := (Bridge.chem_grid_ctor_some E cfg g).mp hg
  subst h6
  refine ⟨ref, f, lim, h1, h2, h3, ?_⟩
  intro hv hshape X Y
  have hm := (Bridge.chem_grid_ctor_masks f lim).mp (by rw [h5]; rfl)
  obtain ⟨shapes, gets⟩ := Bridge.chem_grid_ctor_arrays E ref f lim sl masks hv hshape
  have sH := shapes _ (List.mem_cons_self)
  have sM := shapes (gcBuild E ref f lim sl masks).env.M (by simp)
  have sD := shapes (gcBuild E ref f lim sl masks).env.dx (by simp)
  obtain ⟨q1, q2, q3⟩ := c15_grid_cell_queries (gcBuild E ref f lim sl masks).env X Y
  have ej : (gcBuild E ref f lim sl masks).env.j0 = lim.2.2.1 := rfl
  have ei : (gcBuild E ref f lim sl masks).env.i0 = lim.1 := rfl
  refine ⟨_, _, rfl, rfl, by omega, by omega, ?_, ?_, ?_⟩
  · rw [q1, ej, ei, c15_cellIndex_global _ _ _ sH.1, c15_cellIndex_global _ _ _ sH.2]
    have := (gets (min (max (trunc (round Y)) lim.2.2.1) (lim.2.2.2 - 1))
      (min (max (trunc (round X)) lim.1) (lim.2.1 - 1))).1
    rw [ej, ei] at this
    rw [this]
  · rw [q2, ej, ei, c15_cellIndex_global _ _ _ sM.1, c15_cellIndex_global _ _ _ sM.2]
    have := (gets (min (max (trunc (round Y)) lim.2.2.1) (lim.2.2.2 - 1))
      (min (max (trunc (round X)) lim.1) (lim.2.1 - 1))).2.1
    rw [ej, ei] at this
    rw [this]
  · rw [q3, ej, ei, c15_cellIndex_global _ _ _ sD.1, c15_cellIndex_global _ _ _ sD.2]
    have := (gets (min (max (trunc (round Y)) lim.2.2.1) (lim.2.2.2 - 1))
      (min (max (trunc (round X)) lim.1) (lim.2.1 - 1))).2.2.1
    rw [ej, ei] at this
    rw [this]

/-- the hypotheses of `c15_ctor_queries_nearest_edge` and `c15_ctor_sample_depth_inside` (with `c15_laws_rat`) hold for
the configuration `c15x_Cfg`: the constructor returns a grid, the subgrid is valid, the file variables have one shape -/
example : ∃ g : GcGrid ℚ, ∃ ref f lim, gcGridFileOf c15x_Cfg = some ref ∧ ref.content = some f ∧
    gcLimits (f.h.imax : Int) (f.h.jmax : Int) c15x_Cfg.subgrid = some lim ∧ Bridge.GcValid f lim ∧
    (∀ A : Arr2 ℚ, A ∈ [f.mask_rho, f.pm, f.lon_rho, f.lat_rho] → A.jmax = f.h.jmax ∧ A.imax = f.h.imax) ∧
    gridCtor c15x_E c15x_Cfg = some (some g) := by
  obtain ⟨g, hg⟩ := c15x_Ctor
  refine ⟨g, _, c15x_File, c15x_Lim, rfl, rfl, rfl, c15x_Valid, ?_, hg⟩
  intro A hA
  simp only [List.mem_cons, List.not_mem_nil, or_false] at hA
  rcases hA with h | h | h | h <;> subst h <;> exact ⟨rfl, rfl⟩

/-- **inside the grid (`Grid.ingrid` of the code is true) nothing is clamped; at a grid node the depth is the grid
depth** (clause "bathymetry sampling returns the grid depth at grid nodes", for the chemicals grid whose `sample_depth`
is nearest-cell).  Hypotheses: `GcValid` (bridge `chem_grid_ctor_sample_depth`), `C15Laws` (gives the bridge's
`GcRoundLaw`). -/
theorem c15_ctor_sample_depth_inside (L : C15Laws α) (E : GcEnv α) (cfg : GcConfig α) (g : GcGrid α)
    (hg : gridCtor E cfg = some (some g)) :
    ∃ ref f lim, gcGridFileOf cfg = some ref ∧ ref.content = some f ∧
      gcLimits (f.h.imax : Int) (f.h.jmax : Int) cfg.subgrid = some lim ∧
      (Bridge.GcValid f lim →
        (∀ X Y : α, ingridSeq g.env X Y = some (some true) →
          sampleDepthSeq g.env X Y = some (some (f.h.get (trunc (round Y)) (trunc (round X))))) ∧
        (∀ i j : Int, lim.1 ≤ i → i < lim.2.1 → lim.2.2.1 ≤ j → j < lim.2.2.2 →
          ingridSeq g.env ((i : Int) : α) ((j : Int) : α) = some (some true) ∧
          sampleDepthSeq g.env ((i : Int) : α) ((j : Int) : α) = some (some (f.h.get j i)))) := by
  obtain ⟨ref, f, lim, h1, h2, h3, h⟩ := Bridge.chem_grid_ctor_sample_depth (c15_roundLaw L) E cfg g hg
  obtain ⟨ref', f', lim', sl, masks, h1', h2', h3', h4, h5, h6⟩ := (Bridge.chem_grid_ctor_some E cfg g).mp hg
  have e1 : ref' = ref := by rw [h1] at h1'; exact (Option.some.inj h1').symm
  subst e1
  have e2 : f' = f := by rw [h2] at h2'; exact (Option.some.inj h2').symm
  subst e2
  have e3 : lim' = lim := by rw [h3] at h3'; exact (Option.some.inj h3').symm
  subst e3
  refine ⟨ref', f', lim', h1, h2, h3, ?_⟩
  intro hv
  have first : ∀ X Y : α, ingridSeq g.env X Y = some (some true) →
      sampleDepthSeq g.env X Y = some (some (f'.h.get (trunc (round Y)) (trunc (round X)))) := by
    intro X Y hin
    rw [Bridge.chem_grid_ingrid] at hin
    simp only [Option.some.injEq] at hin
    exact h X Y hv hin
  refine ⟨first, ?_⟩
  intro i j i0 i1 j0 j1
  have hin : ingridSeq g.env ((i : Int) : α) ((j : Int) : α) = some (some true) := by
    rw [Bridge.chem_grid_ingrid]
    subst h6
    show some (some (GridSample.ingrid (ofInt lim'.1) (ofInt (lim'.2.1 - 1)) (ofInt lim'.2.2.1) (ofInt (lim'.2.2.2 - 1))
      ((i : Int) : α) ((j : Int) : α))) = _
    simp only [GridSample.ingrid, L.ofInt_cast, Option.some.injEq, Bool.and_eq_true, decide_eq_true_eq]
    have e : (0.5 : α) = 1 / 2 := by norm_num
    rw [e]
    have a1 : ((lim'.1 : Int) : α) ≤ (i : α) := Int.cast_le.mpr i0
    have a2 : ((i : Int) : α) ≤ ((lim'.2.1 - 1 : Int) : α) := Int.cast_le.mpr (by omega)
    have a3 : ((lim'.2.2.1 : Int) : α) ≤ (j : α) := Int.cast_le.mpr j0
    have a4 : ((j : Int) : α) ≤ ((lim'.2.2.2 - 1 : Int) : α) := Int.cast_le.mpr (by omega)
    refine ⟨⟨⟨?_, ?_⟩, ?_⟩, ?_⟩ <;> linarith
  refine ⟨hin, ?_⟩
  have := first _ _ hin
  rwa [c15_round_int L, c15_round_int L] at this

example : ∃ g : GcGrid ℚ, gridCtor c15x_E c15x_Cfg = some (some g) := c15x_Ctor

/-! ## sedimentation `Grid.sample_depth` (bilinear) -/

/-- one axis of `map_coordinates(…, order=1, mode='nearest')` (reference meaning): the clamped coordinate, the lower
node of its cell, the fraction -/
theorem c15_axis (L : C15Laws α) (n : Nat) (hn : 2 ≤ n) (x : α) :
    ∃ (xc : α) (c : Int), xc = fmin (fmax x 0.0) (ofInt (n : Int) - 1.0) ∧
      c = max (min (trunc xc) ((n : Int) - 2)) 0 ∧
      (0 ≤ c ∧ c + 1 ≤ (n : Int) - 1) ∧ (0 ≤ xc - ofInt c ∧ xc - ofInt c ≤ 1) ∧
      (∀ k : Int, 0 ≤ k → k ≤ (n : Int) - 1 → x = (k : α) →
        (c = k ∧ xc - ofInt c = 0) ∨ (c + 1 = k ∧ xc - ofInt c = 1)) := by
  have hn' : (2 : α) ≤ (n : α) := by exact_mod_cast hn
  have etop : (ofInt (n : Int) - 1.0 : α) = (n : α) - 1 := by
    rw [L.ofInt_cast]; lits; push_cast; rfl
  have e0 : (0.0 : α) = 0 := by norm_num
  obtain ⟨⟨b0, b1⟩, bid, _, _⟩ := c15_clip x 0 ((n : α) - 1) (by linarith)
  refine ⟨_, _, rfl, rfl, by omega, ?_⟩
  rw [etop, e0, L.ofInt_cast]
  generalize fmin (fmax x 0) ((n : α) - 1) = xc at b0 b1 bid
  obtain ⟨t1, t2⟩ := L.trunc_floor xc b0
  have ht0 : 0 ≤ trunc xc := by
    have : ((-1 : Int) : α) < ((trunc xc : Int) : α) := by push_cast; linarith
    have := Int.cast_lt.mp this
    omega
  have ht1 : trunc xc ≤ (n : Int) - 1 := by
    have : ((trunc xc : Int) : α) < (((n : Int) - 1 + 1 : Int) : α) := by push_cast; linarith
    have := Int.cast_lt.mp this
    omega
  by_cases hc : trunc xc ≤ (n : Int) - 2
  · have e : max (min (trunc xc) ((n : Int) - 2)) 0 = trunc xc := by omega
    rw [e]
    refine ⟨⟨by linarith, by linarith⟩, ?_⟩
    intro k k0 k1 hx
    have hxc : xc = (k : α) := by
      rw [← hx]; apply bid
      · rw [hx]; exact_mod_cast k0
      · rw [hx]
        have : ((k : Int) : α) ≤ (((n : Int) - 1 : Int) : α) := Int.cast_le.mpr k1
        push_cast at this; exact this
    left
    have : trunc xc = k := by rw [hxc]; exact L.trunc_cast k
    rw [this, hxc]
    exact ⟨rfl, sub_self _⟩
  · have e : max (min (trunc xc) ((n : Int) - 2)) 0 = (n : Int) - 2 := by omega
    have et : trunc xc = (n : Int) - 1 := by omega
    rw [et] at t1
    push_cast at t1
    have hxc : xc = (n : α) - 1 := le_antisymm b1 t1
    rw [e, hxc]
    push_cast
    refine ⟨⟨by linarith, by linarith⟩, ?_⟩
    intro k k0 k1 hx
    right
    constructor
    · have hk : xc = (k : α) := by
        rw [← hx]; apply bid
        · rw [hx]; exact_mod_cast k0
        · rw [hx]
          have : ((k : Int) : α) ≤ (((n : Int) - 1 : Int) : α) := Int.cast_le.mpr k1
          push_cast at this; exact this
      have : ((k : Int) : α) = (((n : Int) - 1 : Int) : α) := by push_cast; rw [← hk, hxc]
      have := Int.cast_inj.mp this
      omega
    · ring

/-- **sedimentation `Grid.sample_depth`** (clauses "bilinear bathymetry sampling returns … a value between the four
surrounding depths elsewhere", "… instead of failing or wrapping around").  With the reference meaning `mapNearestRef` of
`scipy.ndimage.map_coordinates(…, order=1, mode='nearest')` (a parameter of the interpretation) the interpretation of
`Gen.sed_grid_sample_depth_seq` returns, for every position, `bilinear p q` of the four depths of a cell `j0, j0 + 1`,
`i0, i0 + 1` inside the array with `p, q ∈ [0, 1]`, hence a value between those four depths.
Hypotheses: `C15Laws` (truncation is the floor of a non-negative number), at least two rows and columns. -/
theorem c15_sed_sample_depth_between (L : C15Laws α) (g : GridEnv α) (X Y : α) (hj : 2 ≤ g.H.jmax) (hi : 2 ≤ g.H.imax) :
    ∃ (v : α) (j0 i0 : Int) (p q : α),
      sedSampleDepthSeq mapNearestRef g X Y = some (some v) ∧
      (0 ≤ j0 ∧ j0 + 1 ≤ (g.H.jmax : Int) - 1) ∧ (0 ≤ i0 ∧ i0 + 1 ≤ (g.H.imax : Int) - 1) ∧
      (0 ≤ p ∧ p ≤ 1) ∧ (0 ≤ q ∧ q ≤ 1) ∧
      v = bilinear p q (g.H.get j0 i0) (g.H.get j0 (i0 + 1)) (g.H.get (j0 + 1) i0) (g.H.get (j0 + 1) (i0 + 1)) ∧
      (∀ lo hi : α, (lo ≤ g.H.get j0 i0 ∧ g.H.get j0 i0 ≤ hi) → (lo ≤ g.H.get j0 (i0 + 1) ∧ g.H.get j0 (i0 + 1) ≤ hi) →
        (lo ≤ g.H.get (j0 + 1) i0 ∧ g.H.get (j0 + 1) i0 ≤ hi) →
        (lo ≤ g.H.get (j0 + 1) (i0 + 1) ∧ g.H.get (j0 + 1) (i0 + 1) ≤ hi) → lo ≤ v ∧ v ≤ hi) := by
  obtain ⟨xc, ci, rfl, rfl, ri, pi, _⟩ := c15_axis L g.H.imax hi (X - ofInt g.i0)
  obtain ⟨yc, cj, rfl, rfl, rj, pj, _⟩ := c15_axis L g.H.jmax hj (Y - ofInt g.j0)
  refine ⟨_, _, _, _, _, Bridge.sed_grid_sample_depth_ref g X Y, rj, ri, pi, pj, rfl, ?_⟩
  intro lo hi h1 h2 h3 h4
  exact C15.bilinear_between _ _ _ _ _ _ lo hi pi.1 pi.2 pj.1 pj.2 h1 h2 h3 h4

example := c15_sed_sample_depth_between c15_laws_rat c15x_G (13 / 10) 3 (by decide) (by decide)

/-- **… is exact at the grid nodes** (clause "returns the grid depth at grid nodes"): at the node `(i0 + i, j0 + j)` of the
subgrid the value is `H[j, i]`, the last row and column included. -/
theorem c15_sed_sample_depth_at_nodes (L : C15Laws α) (g : GridEnv α) (hj : 2 ≤ g.H.jmax) (hi : 2 ≤ g.H.imax)
    (i j : Int) (hi0 : 0 ≤ i) (hi1 : i ≤ (g.H.imax : Int) - 1) (hj0 : 0 ≤ j) (hj1 : j ≤ (g.H.jmax : Int) - 1) :
    sedSampleDepthSeq mapNearestRef g ((g.i0 + i : Int) : α) ((g.j0 + j : Int) : α) = some (some (g.H.get j i)) := by
  have ex : (((g.i0 + i : Int) : α) - ofInt g.i0) = (i : α) := by rw [L.ofInt_cast]; push_cast; ring
  have ey : (((g.j0 + j : Int) : α) - ofInt g.j0) = (j : α) := by rw [L.ofInt_cast]; push_cast; ring
  obtain ⟨xc, ci, hxc, hci, ri, pi, ni⟩ := c15_axis L g.H.imax hi (((g.i0 + i : Int) : α) - ofInt g.i0)
  obtain ⟨yc, cj, hyc, hcj, rj, pj, nj⟩ := c15_axis L g.H.jmax hj (((g.j0 + j : Int) : α) - ofInt g.j0)
  rw [Bridge.sed_grid_sample_depth_ref]
  unfold mapNearestRef
  simp only
  rw [← hxc, ← hyc, ← hci, ← hcj]
  obtain ⟨n1, n2, n3, n4⟩ := C15.bilinear_at_node (g.H.get cj ci) (g.H.get cj (ci + 1)) (g.H.get (cj + 1) ci)
    (g.H.get (cj + 1) (ci + 1))
  rcases ni i hi0 hi1 ex with ⟨a1, a2⟩ | ⟨a1, a2⟩ <;> rcases nj j hj0 hj1 ey with ⟨b1, b2⟩ | ⟨b1, b2⟩
  · rw [a2, b2, n1, a1, b1]
  · rw [a2, b2, n3, a1, b1]
  · rw [a2, b2, n2, a1, b1]
  · rw [a2, b2, n4, a1, b1]

example : sedSampleDepthSeq mapNearestRef c15x_G ((((1 : Int) + 1 : Int) : ℚ)) ((((1 : Int) + 0 : Int) : ℚ))
    = some (some (c15x_H.get 0 1)) :=
  c15_sed_sample_depth_at_nodes c15_laws_rat c15x_G (by decide) (by decide) 1 0 (by decide) (by decide) (by decide)
    (by decide)

/-- **… and outside the array it is the value at the nearest point of the edge**: the position `(X, Y)` and the position
`(X', Y')` whose local coordinates are those of `(X, Y)` clamped to `[0, n − 1]` give the same depth. -/
theorem c15_sed_sample_depth_edge (L : C15Laws α) (g : GridEnv α) (X Y X' Y' : α) (hj : 1 ≤ g.H.jmax) (hi : 1 ≤ g.H.imax)
    (hx : X' - ofInt g.i0 = fmin (fmax (X - ofInt g.i0) 0.0) (ofInt (g.H.imax : Int) - 1.0))
    (hy : Y' - ofInt g.j0 = fmin (fmax (Y - ofInt g.j0) 0.0) (ofInt (g.H.jmax : Int) - 1.0)) :
    sedSampleDepthSeq mapNearestRef g X Y = sedSampleDepthSeq mapNearestRef g X' Y' := by
  have htop : ∀ n : Nat, 1 ≤ n → (0.0 : α) ≤ ofInt (n : Int) - 1.0 := by
    intro n hn
    have : (1 : α) ≤ (n : α) := by exact_mod_cast hn
    rw [L.ofInt_cast]; lits; push_cast; linarith
  obtain ⟨⟨a1, a2⟩, a3, _, _⟩ := c15_clip (X - ofInt g.i0) 0.0 (ofInt (g.H.imax : Int) - 1.0) (htop _ hi)
  obtain ⟨⟨b1, b2⟩, b3, _, _⟩ := c15_clip (Y - ofInt g.j0) 0.0 (ofInt (g.H.jmax : Int) - 1.0) (htop _ hj)
  rw [Bridge.sed_grid_sample_depth_ref, Bridge.sed_grid_sample_depth_ref]
  unfold mapNearestRef
  simp only
  rw [hx, hy]
  rw [(c15_clip _ 0.0 (ofInt (g.H.imax : Int) - 1.0) (htop _ hi)).2.1 a1 a2,
    (c15_clip _ 0.0 (ofInt (g.H.jmax : Int) - 1.0) (htop _ hj)).2.1 b1 b2]

example := c15_sed_sample_depth_edge c15_laws_rat c15x_G (-3) 9 1 2 (by decide) (by decide)
  (by norm_num [c15x_G, c15x_H, fmin, fmax, HasOfInt.ofInt]) (by norm_num [c15x_G, c15x_H, fmin, fmax, HasOfInt.ofInt])

/-! ## grid ↔ lon/lat -/

/-- **`Grid.xy2ll` (chemicals) clamps outside the grid** (clause "grid to lon/lat conversions … clamp outside it"): the
interpretation of `Gen.chem_grid_xy2ll_seq` is `sample2D` of `lon`, `lat` at a local coordinate inside
`[0, nextafter(n − 1, 0)]` — the position's own inside, the nearest bound outside.
Hypotheses on the parameter `nextafter0` (= `np.nextafter(·, 0)`): `0 ≤ nextafter(n − 1, 0)` (true for `n ≥ 2`). -/
theorem c15_xy2ll_clamps {β : Type} (nextafter0 : α → α) (sample2D : Arr2 α → α → α → β) (g : GridEnv α) (X Y : α)
    (hx : 0 ≤ nextafter0 (ofInt (g.lon.imax : Int) - 1.0)) (hy : 0 ≤ nextafter0 (ofInt (g.lon.jmax : Int) - 1.0)) :
    ∃ x y : α, xy2llSeq nextafter0 sample2D g X Y = some (some (sample2D g.lon x y, sample2D g.lat x y)) ∧
      (0 ≤ x ∧ x ≤ nextafter0 (ofInt (g.lon.imax : Int) - 1.0)) ∧
      (0 ≤ y ∧ y ≤ nextafter0 (ofInt (g.lon.jmax : Int) - 1.0)) ∧
      (0 ≤ X - ofInt g.i0 → X - ofInt g.i0 ≤ nextafter0 (ofInt (g.lon.imax : Int) - 1.0) → x = X - ofInt g.i0) ∧
      (X - ofInt g.i0 ≤ 0 → x = 0) ∧
      (nextafter0 (ofInt (g.lon.imax : Int) - 1.0) ≤ X - ofInt g.i0 → x = nextafter0 (ofInt (g.lon.imax : Int) - 1.0)) ∧
      (0 ≤ Y - ofInt g.j0 → Y - ofInt g.j0 ≤ nextafter0 (ofInt (g.lon.jmax : Int) - 1.0) → y = Y - ofInt g.j0) ∧
      (Y - ofInt g.j0 ≤ 0 → y = 0) ∧
      (nextafter0 (ofInt (g.lon.jmax : Int) - 1.0) ≤ Y - ofInt g.j0 → y = nextafter0 (ofInt (g.lon.jmax : Int) - 1.0)) := by
  have e0 : (0.0 : α) = 0 := by norm_num
  obtain ⟨a, a1, a2, a3⟩ := c15_clip (X - ofInt g.i0) 0 _ hx
  obtain ⟨b, b1, b2, b3⟩ := c15_clip (Y - ofInt g.j0) 0 _ hy
  refine ⟨_, _, ?_, a, b, a1, a2, a3, b1, b2, b3⟩
  rw [Bridge.chem_grid_xy2ll]
  unfold xy2llSpec
  simp only
  rw [e0]

example := c15_xy2ll_clamps c15x_Next c15x_Sample c15x_LL (-3) 9 (by norm_num [c15x_Next, c15x_LL, HasOfInt.ofInt])
  (by norm_num [c15x_Next, c15x_LL, HasOfInt.ofInt])

/-- **`xy2ll ∘ ll2xy` is the identity inside the grid** — as far as the parameters allow (`_partial`): `bilin_inv` and
`sample2D` are LADiM's own functions, parameters of the interpretation; *given* that `bilin_inv` returns a point of the
grid (`hx`, `hy`) at which `sample2D` reproduces `lon`, `lat` (`hinv`), the two interpreted methods compose to the identity:
the shifts by `i0`, `j0` cancel and `xy2ll` does not clamp.  What is missing: that LADiM's `bilin_inv` (20 Newton steps)
has this property is not in this package. -/
theorem c15_xy2ll_ll2xy_inverse_partial (nextafter0 : α → α) (sample2D : Arr2 α → α → α → α)
    (bilinInv : α → α → Arr2 α → Arr2 α → α × α) (g : GridEnv α) (lon lat : α)
    (hinv : sample2D g.lon (bilinInv lon lat g.lon g.lat).2 (bilinInv lon lat g.lon g.lat).1 = lon ∧
      sample2D g.lat (bilinInv lon lat g.lon g.lat).2 (bilinInv lon lat g.lon g.lat).1 = lat)
    (hx : 0 ≤ (bilinInv lon lat g.lon g.lat).2 ∧
      (bilinInv lon lat g.lon g.lat).2 ≤ nextafter0 (ofInt (g.lon.imax : Int) - 1.0))
    (hy : 0 ≤ (bilinInv lon lat g.lon g.lat).1 ∧
      (bilinInv lon lat g.lon g.lat).1 ≤ nextafter0 (ofInt (g.lon.jmax : Int) - 1.0)) :
    ∃ p : α × α, gcLl2xySeq bilinInv g lon lat = some (some p) ∧
      xy2llSeq nextafter0 sample2D g p.1 p.2 = some (some (lon, lat)) := by
  refine ⟨_, Bridge.chem_grid_ll2xy bilinInv g lon lat, ?_⟩
  have e0 : (0.0 : α) = 0 := by norm_num
  rw [Bridge.chem_grid_xy2ll]
  unfold xy2llSpec gcLl2xySpec
  simp only [add_sub_cancel_right]
  rw [e0, (c15_clip _ 0 _ (le_trans hx.1 hx.2)).2.1 hx.1 hx.2, (c15_clip _ 0 _ (le_trans hy.1 hy.2)).2.1 hy.1 hy.2,
    hinv.1, hinv.2]

example := c15_xy2ll_ll2xy_inverse_partial c15x_Next c15x_Sample c15x_Inv c15x_LL (1 / 2) (1 / 4)
  (by norm_num [c15x_Sample, c15x_Inv, c15x_LL]) (by norm_num [c15x_Next, c15x_Inv, c15x_LL, HasOfInt.ofInt])
  (by norm_num [c15x_Next, c15x_Inv, c15x_LL, HasOfInt.ofInt])

/-- **`ll2xy ∘ xy2ll` is the identity inside the grid** — as far as the parameters allow (`_partial`, see above): for a
position with local coordinates inside `[0, nextafter(n − 1, 0)]`, given that `bilin_inv` inverts `sample2D` there. -/
theorem c15_ll2xy_xy2ll_inverse_partial (nextafter0 : α → α) (sample2D : Arr2 α → α → α → α)
    (bilinInv : α → α → Arr2 α → Arr2 α → α × α) (g : GridEnv α) (X Y : α)
    (hx : 0 ≤ X - ofInt g.i0 ∧ X - ofInt g.i0 ≤ nextafter0 (ofInt (g.lon.imax : Int) - 1.0))
    (hy : 0 ≤ Y - ofInt g.j0 ∧ Y - ofInt g.j0 ≤ nextafter0 (ofInt (g.lon.jmax : Int) - 1.0))
    (hinv : bilinInv (sample2D g.lon (X - ofInt g.i0) (Y - ofInt g.j0)) (sample2D g.lat (X - ofInt g.i0) (Y - ofInt g.j0))
      g.lon g.lat = (Y - ofInt g.j0, X - ofInt g.i0)) :
    ∃ ll : α × α, xy2llSeq nextafter0 sample2D g X Y = some (some ll) ∧
      gcLl2xySeq bilinInv g ll.1 ll.2 = some (some (X, Y)) := by
  refine ⟨_, Bridge.chem_grid_xy2ll nextafter0 sample2D g X Y, ?_⟩
  have e0 : (0.0 : α) = 0 := by norm_num
  rw [Bridge.chem_grid_ll2xy]
  unfold xy2llSpec gcLl2xySpec
  simp only
  rw [e0, (c15_clip _ 0 _ (le_trans hx.1 hx.2)).2.1 hx.1 hx.2, (c15_clip _ 0 _ (le_trans hy.1 hy.2)).2.1 hy.1 hy.2,
    hinv]
  simp only [sub_add_cancel]

example := c15_ll2xy_xy2ll_inverse_partial c15x_Next c15x_Sample c15x_Inv c15x_LL (3 / 2) (5 / 4)
  (by norm_num [c15x_Next, c15x_LL, c15x_G, HasOfInt.ofInt]) (by norm_num [c15x_Next, c15x_LL, c15x_G, HasOfInt.ofInt])
  (by norm_num [c15x_Sample, c15x_Inv, c15x_LL, c15x_G, HasOfInt.ofInt])

/-- **sedimentation `Grid.xy2ll` clamps the global coordinate to the subgrid** before it calls the parent's `xy2ll`
(parameter `superXy2ll`): inside `[i0, nextafter(i0 + n − 1, 0)]` the position itself. -/
theorem c15_sed_xy2ll_clamps {β : Type} (nextafter0 : α → α) (superXy2ll : α → α → β) (g : GridEnv α) (X Y : α)
    (hx : ofInt g.i0 ≤ nextafter0 (ofInt (g.i0 + (g.lon.imax : Int)) - 1.0))
    (hy : ofInt g.j0 ≤ nextafter0 (ofInt (g.j0 + (g.lon.jmax : Int)) - 1.0)) :
    ∃ x y : α, sedXy2llSeq nextafter0 superXy2ll g X Y = some (some (superXy2ll x y)) ∧
      (ofInt g.i0 ≤ x ∧ x ≤ nextafter0 (ofInt (g.i0 + (g.lon.imax : Int)) - 1.0)) ∧
      (ofInt g.j0 ≤ y ∧ y ≤ nextafter0 (ofInt (g.j0 + (g.lon.jmax : Int)) - 1.0)) ∧
      (ofInt g.i0 ≤ X → X ≤ nextafter0 (ofInt (g.i0 + (g.lon.imax : Int)) - 1.0) → x = X) ∧
      (ofInt g.j0 ≤ Y → Y ≤ nextafter0 (ofInt (g.j0 + (g.lon.jmax : Int)) - 1.0) → y = Y) := by
  obtain ⟨a, a1, _, _⟩ := c15_clip X _ _ hx
  obtain ⟨b, b1, _, _⟩ := c15_clip Y _ _ hy
  exact ⟨_, _, Bridge.sed_grid_xy2ll nextafter0 superXy2ll g X Y, a, b, a1, b1⟩

example := c15_sed_xy2ll_clamps c15x_Next (fun x y : ℚ => (x, y)) c15x_LL (-3) 9
  (by norm_num [c15x_Next, c15x_LL, c15x_G, HasOfInt.ofInt]) (by norm_num [c15x_Next, c15x_LL, c15x_G, HasOfInt.ofInt])

end field
end OnCode

