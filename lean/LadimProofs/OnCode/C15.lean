import LadimProofs.C15
import LadimProofs.Bridge.Grid
/-!
# C15 — property theorems stated for the generated code

`Gen.sample3D_offsets`, `Gen.sample3D_weights`, `Gen.z2s_A`, `Gen.horzdiff_smag`, `Gen.vertdiff_value` are statement
windows of `chemicals/gridforce.py`, translated from /repo's current source on every run.
-/
open Ladim

set_option linter.unusedSectionVars false
set_option linter.unusedVariables false
namespace OnCode
variable {α : Type} [Field α] [LinearOrder α] [IsStrictOrderedRing α]

/-- `sample3D` never extrapolates: whatever the position (inside the grid or not), the sampled value lies between
the smallest and the largest of the eight corner values it reads, for every vertical weight in `[0, 1]` -/
theorem sample3D_between (X Y I J A lo hi : α) (f : Fin 8 → α) (hA0 : 0 ≤ A) (hA1 : A ≤ 1)
    (hf : ∀ i, lo ≤ f i ∧ f i ≤ hi) :
    lo ≤ Gen.sample3D_weights (Gen.sample3D_offsets X Y I J).1 (Gen.sample3D_offsets X Y I J).2 A
          (f 0) (f 1) (f 2) (f 3) (f 4) (f 5) (f 6) (f 7) ∧
    Gen.sample3D_weights (Gen.sample3D_offsets X Y I J).1 (Gen.sample3D_offsets X Y I J).2 A
          (f 0) (f 1) (f 2) (f 3) (f 4) (f 5) (f 6) (f 7) ≤ hi := by
  obtain ⟨p0, p1, q0, q1⟩ := Bridge.sample3D_offsets_unit X Y I J
  rw [← Bridge.sample3D_weights]
  exact C15.sample3D_convex _ _ A lo hi f p0 p1 q0 q1 hA0 hA1 hf

/-- the horizontal diffusivity is zero on land and never negative -/
theorem horzdiff_sign (A u00 u01 u10 u11 v00 v01 v10 v11 dx : α) (hdx : 0 ≤ dx) (atsea : Bool) :
    Gen.horzdiff_smag A u00 u01 u10 u11 v00 v01 v10 v11 dx false = 0 ∧
    0 ≤ Gen.horzdiff_smag A u00 u01 u10 u11 v00 v01 v10 v11 dx atsea := by
  rw [← Bridge.horzdiff_smag, ← Bridge.horzdiff_smag]
  exact ⟨C15.horzdiff_zero_on_land _ _ _, C15.horzdiff_nonneg _ _ _ _ hdx⟩

/-- the vertical diffusivity served is never negative; the `z2s` weight is in `[0, 1]` -/
theorem vertdiff_and_weight (f zk zkm1 Z : α) : 0 ≤ Gen.vertdiff_value f ∧ 0 ≤ Gen.z2s_A zk zkm1 Z ∧ Gen.z2s_A zk zkm1 Z ≤ 1 := by
  refine ⟨?_, ?_, ?_⟩
  · rw [← Bridge.vertdiff_value]; exact C15.vertdiff_nonneg f
  all_goals
    simp only [Gen.z2s_A, fmin, fmax]
    lits
    split_ifs <;> linarith

end OnCode
