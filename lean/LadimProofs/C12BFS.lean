import LadimProofs.C12
open Ladim.Fjord
namespace C12BFS
open C12

/-! ## 1. `minNonneg` -/

theorem minNonneg_none (l : List Int) : minNonneg l = none ↔ ∀ x ∈ l, x < 0 := by
  induction l with
  | nil => simp [minNonneg]
  | cons x xs ih =>
    rw [minNonneg]
    cases hx : minNonneg xs with
    | none =>
      have hn := ih.1 hx
      simp only
      constructor
      · intro h y hy
        rcases List.mem_cons.1 hy with rfl | hy
        · by_cases h0 : 0 ≤ y
          · simp [h0] at h
          · omega
        · exact hn y hy
      · intro h
        have := h x List.mem_cons_self
        have h0 : ¬ 0 ≤ x := by omega
        simp [h0]
    | some y =>
      simp only
      constructor
      · intro h
        split_ifs at h
      · intro h
        exfalso
        have hne : ¬ (minNonneg xs = none) := by rw [hx]; simp
        apply hne
        apply ih.2
        intro z hz
        exact h z (List.mem_cons_of_mem _ hz)

theorem minNonneg_some (l : List Int) (v : Int) (h : minNonneg l = some v) :
    v ∈ l ∧ 0 ≤ v ∧ ∀ x ∈ l, 0 ≤ x → v ≤ x := by
  induction l generalizing v with
  | nil => simp [minNonneg] at h
  | cons x xs ih =>
    rw [minNonneg] at h
    cases hx : minNonneg xs with
    | none =>
      rw [hx] at h
      simp only at h
      have hn := (minNonneg_none xs).1 hx
      split_ifs at h with h0
      · cases h
        refine ⟨List.mem_cons_self, h0, ?_⟩
        intro y hy hy0
        rcases List.mem_cons.1 hy with rfl | hy
        · omega
        · have := hn y hy
          omega
    | some y =>
      rw [hx] at h
      simp only at h
      obtain ⟨hy1, hy2, hy3⟩ := ih y hx
      split_ifs at h with h0
      · cases h
        refine ⟨List.mem_cons_self, h0.1, ?_⟩
        intro z hz hz0
        rcases List.mem_cons.1 hz with rfl | hz
        · omega
        · have := hy3 z hz hz0
          omega
      · cases h
        refine ⟨List.mem_cons_of_mem _ hy1, hy2, ?_⟩
        intro z hz hz0
        rcases List.mem_cons.1 hz with rfl | hz
        · omega
        · exact hy3 z hz hz0

theorem minNonneg_spec (l : List Int) :
    (minNonneg l = none ↔ ∀ x ∈ l, x < 0) ∧
    (∀ v, minNonneg l = some v → v ∈ l ∧ 0 ≤ v ∧ ∀ x ∈ l, 0 ≤ x → v ≤ x) :=
  ⟨minNonneg_none l, minNonneg_some l⟩

/-! ## 2. one dilation step -/

/-- the four neighbour values (footprint order up, left, right, down), read with `c` outside the box -/
def nbrs (w : Mat) (c : Int) (i j : Int) : List Int :=
  [w.get c (i - 1) j, w.get c i (j - 1), w.get c i (j + 1), w.get c (i + 1) j]

theorem get_of_inBox (m : Mat) (c i j : Int) (h : m.inBox i j = true) : m.get c i j = m.val i j := by
  unfold Mat.inBox at h
  unfold Mat.get
  rw [if_pos (of_decide_eq_true h)]

theorem get_of_not_inBox (m : Mat) (c i j : Int) (h : ¬ m.inBox i j = true) : m.get c i j = c := by
  unfold Mat.inBox at h
  unfold Mat.get
  rw [if_neg]
  intro h'
  exact h (decide_eq_true h')

theorem dilate_val (m : Mat) (i j : Int) : (dilate m).val i j = dilateAt m i j := rfl

theorem dilateAt_eq (m : Mat) (i j : Int) (hb : m.inBox i j = true) :
    dilateAt m i j =
      if m.val i j ≠ -1 then m.val i j
      else match minNonneg (nbrs m (-2) i j) with
        | none => -1
        | some v => v + 1 := by
  unfold dilateAt nbrs
  simp only [get_of_inBox m (-2) i j hb]
  split_ifs with h
  · rfl
  · have h1 : m.val i j = -1 := by omega
    cases minNonneg [m.get (-2) (i - 1) j, m.get (-2) i (j - 1), m.get (-2) i (j + 1), m.get (-2) (i + 1) j] with
    | none => simp only [h1]
    | some v => rfl

theorem dilate_step_sound (m : Mat) (i j : Int) (hb : m.inBox i j = true) :
    (m.val i j ≠ -1 → (dilate m).val i j = m.val i j) ∧
    (m.val i j = -1 → (∀ x ∈ nbrs m (-2) i j, x < 0) → (dilate m).val i j = -1) ∧
    (m.val i j = -1 → (∃ x ∈ nbrs m (-2) i j, 0 ≤ x) →
      ∃ v, v ∈ nbrs m (-2) i j ∧ 0 ≤ v ∧ (∀ x ∈ nbrs m (-2) i j, 0 ≤ x → v ≤ x) ∧
        (dilate m).val i j = v + 1) := by
  rw [dilate_val, dilateAt_eq m i j hb]
  refine ⟨?_, ?_, ?_⟩
  · intro h
    rw [if_pos h]
  · intro h hall
    have hn := (minNonneg_none _).2 hall
    rw [if_neg (by omega), hn]
  · intro h hex
    cases hm : minNonneg (nbrs m (-2) i j) with
    | none =>
      exfalso
      obtain ⟨x, hx, hx0⟩ := hex
      have := (minNonneg_none _).1 hm x hx
      omega
    | some v =>
      obtain ⟨h1, h2, h3⟩ := minNonneg_some _ v hm
      refine ⟨v, h1, h2, h3, ?_⟩
      rw [if_neg (by omega)]

/-! ## 3. iterated dilation computes breadth-first distances -/

theorem dilate_rows (m : Mat) : (dilate m).rows = m.rows := rfl
theorem dilate_cols (m : Mat) : (dilate m).cols = m.cols := rfl

theorem dilateIter_rows (m : Mat) (k : Nat) : (dilateIter m k).rows = m.rows := by
  induction k with
  | zero => rfl
  | succ k ih => rw [dilateIter, dilate_rows, ih]

theorem dilateIter_cols (m : Mat) (k : Nat) : (dilateIter m k).cols = m.cols := by
  induction k with
  | zero => rfl
  | succ k ih => rw [dilateIter, dilate_cols, ih]

theorem inBox_congr (w m : Mat) (hr : w.rows = m.rows) (hc : w.cols = m.cols) (i j : Int) :
    w.inBox i j = m.inBox i j := by
  unfold Mat.inBox
  rw [hr, hc]

theorem adj_symm {i j a b : Int} (h : Adj i j a b) : Adj a b i j := by
  unfold Adj at *
  omega

/-- the four-connected neighbours of `(i, j)` are exactly the four footprint cells -/
theorem adj_cases {i j a b : Int} (h : Adj i j a b) :
    (a = i - 1 ∧ b = j) ∨ (a = i ∧ b = j - 1) ∨ (a = i ∧ b = j + 1) ∨ (a = i + 1 ∧ b = j) := by
  unfold Adj at h
  omega

theorem reach_zero_iff (m : Mat) (i j : Int) :
    Reach m 0 i j ↔ (m.inBox i j = true ∧ m.val i j = 0) := by
  constructor
  · intro h
    cases h with
    | src _ _ h1 h2 => exact ⟨h1, h2⟩
  · intro h
    exact Reach.src i j h.1 h.2

theorem reach_succ_iff (m : Mat) (n : Nat) (i j : Int) :
    Reach m (n + 1) i j ↔
      (m.inBox i j = true ∧ m.val i j ≠ -2 ∧ ∃ a b, Adj i j a b ∧ Reach m n a b) := by
  constructor
  · intro h
    cases h with
    | step _ a b _ _ hr ha hb hv => exact ⟨hb, hv, a, b, adj_symm ha, hr⟩
  · intro h
    obtain ⟨hb, hv, a, b, ha, hr⟩ := h
    exact Reach.step n a b i j hr (adj_symm ha) hb hv

theorem reach_inBox (m : Mat) (n : Nat) (i j : Int) (h : Reach m n i j) :
    m.inBox i j = true ∧ m.val i j ≠ -2 := by
  cases n with
  | zero =>
    obtain ⟨h1, h2⟩ := (reach_zero_iff m i j).1 h
    exact ⟨h1, by omega⟩
  | succ n =>
    obtain ⟨h1, h2, _⟩ := (reach_succ_iff m n i j).1 h
    exact ⟨h1, h2⟩

/-- a reachable cell has a shortest-path length -/
theorem reach_exists_dist (m : Mat) (i j : Int) (n : Nat) (h : Reach m n i j) :
    ∃ n', n' ≤ n ∧ IsDist m n' i j := by
  induction n using Nat.strong_induction_on with
  | _ n ih =>
    by_cases hex : ∃ n', n' < n ∧ Reach m n' i j
    · obtain ⟨n', hlt, hr⟩ := hex
      obtain ⟨n'', hle, hd⟩ := ih n' hlt hr
      exact ⟨n'', by omega, hd⟩
    · refine ⟨n, Nat.le_refl n, h, ?_⟩
      intro n' hlt hr
      exact hex ⟨n', hlt, hr⟩

theorem isDist_unique (m : Mat) (i j : Int) (n n' : Nat) (h : IsDist m n i j) (h' : IsDist m n' i j) :
    n = n' := by
  rcases Nat.lt_trichotomy n n' with hlt | heq | hgt
  · exact absurd h.1 (h'.2 n hlt)
  · exact heq
  · exact absurd h'.1 (h.2 n' hgt)

/-- the invariant of `dilate_iter_spec` (with the shape of the matrix) -/
def Inv (m w : Mat) (k : Nat) : Prop :=
  w.rows = m.rows ∧ w.cols = m.cols ∧
  ∀ i j, m.inBox i j = true →
    (m.val i j = -2 → w.val i j = -2) ∧
    (m.val i j ≠ -2 →
      (∀ n : Nat, w.val i j = (n : Int) ↔ (n ≤ k ∧ IsDist m n i j)) ∧
      (w.val i j = -1 ↔ ∀ n ≤ k, ¬ Reach m n i j) ∧
      (-1 ≤ w.val i j))

theorem inv_zero (m : Mat) (hm : Init m) : Inv m m 0 := by
  refine ⟨rfl, rfl, ?_⟩
  intro i j hb
  refine ⟨fun h => h, ?_⟩
  intro hv
  have h0 := (reach_zero_iff m i j)
  rcases hm i j hb with h | h | h
  · exact absurd h hv
  · refine ⟨?_, ?_, by omega⟩
    · intro n
      constructor
      · intro hn; omega
      · rintro ⟨hn, hd⟩
        have : n = 0 := by omega
        subst this
        have := (h0.1 hd.1).2
        omega
    · constructor
      · intro _ n hn hr
        have : n = 0 := by omega
        subst this
        have := (h0.1 hr).2
        omega
      · intro _; exact h
  · have hr : Reach m 0 i j := h0.2 ⟨hb, h⟩
    refine ⟨?_, ?_, by omega⟩
    · intro n
      constructor
      · intro hn
        have : n = 0 := by omega
        subst this
        exact ⟨Nat.le_refl 0, hr, fun n' hlt => absurd hlt (Nat.not_lt_zero n')⟩
      · rintro ⟨hn, hd⟩
        have : n = 0 := by omega
        subst this
        simpa using h
    · constructor
      · intro h1; omega
      · intro hall
        exact absurd hr (hall 0 (Nat.le_refl 0))

/-- reading a neighbour of the `k`-th iterate with `-2` outside: non-negative values are exactly the
shortest-path lengths `≤ k` of in-box non-obstacle cells -/
theorem inv_get (m w : Mat) (k : Nat) (hinv : Inv m w k) (a b : Int) :
    (0 ≤ w.get (-2) a b → ∃ n : Nat, w.get (-2) a b = (n : Int) ∧ n ≤ k ∧ IsDist m n a b) ∧
    (∀ n : Nat, n ≤ k → Reach m n a b → 0 ≤ w.get (-2) a b) := by
  obtain ⟨hr, hc, hall⟩ := hinv
  have hbox := inBox_congr w m hr hc a b
  by_cases hb : m.inBox a b = true
  · have hwb : w.inBox a b = true := by rw [hbox]; exact hb
    rw [get_of_inBox w (-2) a b hwb]
    obtain ⟨h1, h2⟩ := hall a b hb
    by_cases hv : m.val a b = -2
    · have := h1 hv
      constructor
      · intro h; omega
      · intro n _ hreach
        exact absurd hv (reach_inBox m n a b hreach).2
    · obtain ⟨h3, h4, h5⟩ := h2 hv
      constructor
      · intro h0
        obtain ⟨n, hn⟩ := Int.eq_ofNat_of_zero_le h0
        exact ⟨n, hn, (h3 n).1 hn⟩
      · intro n hn hreach
        obtain ⟨n', hle, hd⟩ := reach_exists_dist m a b n hreach
        have := (h3 n').2 ⟨by omega, hd⟩
        omega
  · have hwb : ¬ w.inBox a b = true := by rw [hbox]; exact hb
    rw [get_of_not_inBox w (-2) a b hwb]
    constructor
    · intro h; omega
    · intro n _ hreach
      exact absurd (reach_inBox m n a b hreach).1 hb

theorem mem_nbrs_iff (w : Mat) (c : Int) (i j x : Int) :
    x ∈ nbrs w c i j ↔
      (x = w.get c (i - 1) j ∨ x = w.get c i (j - 1) ∨ x = w.get c i (j + 1) ∨ x = w.get c (i + 1) j) := by
  unfold nbrs
  simp only [List.mem_cons, List.not_mem_nil, or_false]

/-- a neighbour value is the value (read with `c`) of an adjacent cell -/
theorem mem_nbrs_adj (w : Mat) (c : Int) (i j x : Int) (h : x ∈ nbrs w c i j) :
    ∃ a b, Adj i j a b ∧ x = w.get c a b := by
  rcases (mem_nbrs_iff w c i j x).1 h with h | h | h | h
  · exact ⟨i - 1, j, by unfold Adj; omega, h⟩
  · exact ⟨i, j - 1, by unfold Adj; omega, h⟩
  · exact ⟨i, j + 1, by unfold Adj; omega, h⟩
  · exact ⟨i + 1, j, by unfold Adj; omega, h⟩

theorem adj_mem_nbrs (w : Mat) (c : Int) (i j a b : Int) (h : Adj i j a b) :
    w.get c a b ∈ nbrs w c i j := by
  rw [mem_nbrs_iff]
  rcases adj_cases h with ⟨rfl, rfl⟩ | ⟨rfl, rfl⟩ | ⟨rfl, rfl⟩ | ⟨rfl, rfl⟩
  · exact Or.inl rfl
  · exact Or.inr (Or.inl rfl)
  · exact Or.inr (Or.inr (Or.inl rfl))
  · exact Or.inr (Or.inr (Or.inr rfl))

theorem inv_step (m w : Mat) (k : Nat) (hinv : Inv m w k) : Inv m (dilate w) (k + 1) := by
  have hinv0 := hinv
  obtain ⟨hr, hc, hall⟩ := hinv
  refine ⟨by rw [dilate_rows, hr], by rw [dilate_cols, hc], ?_⟩
  intro i j hb
  have hwb : w.inBox i j = true := by rw [inBox_congr w m hr hc]; exact hb
  obtain ⟨hs1, hs2, hs3⟩ := dilate_step_sound w i j hwb
  obtain ⟨h1, h2⟩ := hall i j hb
  constructor
  · intro hv
    have := h1 hv
    rw [hs1 (by omega)]
    exact this
  · intro hv
    obtain ⟨h3, h4, h5⟩ := h2 hv
    by_cases hc1 : w.val i j = -1
    · -- unknown so far
      have hnr := h4.1 hc1
      by_cases hex : ∃ x ∈ nbrs w (-2) i j, 0 ≤ x
      · obtain ⟨v, hv1, hv2, _, hval⟩ := hs3 hc1 hex
        obtain ⟨a, b, hadj, hva⟩ := mem_nbrs_adj w (-2) i j v hv1
        rw [hva] at hv2
        obtain ⟨n', hn', hle, hd⟩ := (inv_get m w k hinv0 a b).1 hv2
        have hreach : Reach m (n' + 1) i j := (reach_succ_iff m n' i j).2 ⟨hb, hv, a, b, hadj, hd.1⟩
        have hnk : n' = k := by
          by_cases hlt : n' + 1 ≤ k
          · exact absurd hreach (hnr (n' + 1) hlt)
          · omega
        subst hnk
        have hdist : IsDist m (n' + 1) i j := by
          refine ⟨hreach, ?_⟩
          intro n hlt
          exact hnr n (by omega)
        have hval2 : (dilate w).val i j = ((n' + 1 : Nat) : Int) := by
          rw [hval, hva, hn']; push_cast; rfl
        refine ⟨?_, ?_, by omega⟩
        · intro n
          constructor
          · intro hn
            have : n = n' + 1 := by omega
            subst this
            exact ⟨Nat.le_refl _, hdist⟩
          · rintro ⟨_, hd2⟩
            have := isDist_unique m i j n (n' + 1) hd2 hdist
            subst this
            exact hval2
        · constructor
          · intro h; omega
          · intro hno
            exact absurd hreach (hno (n' + 1) (Nat.le_refl _))
      · have hneg : ∀ x ∈ nbrs w (-2) i j, x < 0 := by
          intro x hx
          by_cases h0 : 0 ≤ x
          · exact absurd ⟨x, hx, h0⟩ hex
          · omega
        have hval := hs2 hc1 hneg
        have hno : ∀ n ≤ k + 1, ¬ Reach m n i j := by
          intro n hn hreach
          by_cases hle : n ≤ k
          · exact hnr n hle hreach
          · have : n = k + 1 := by omega
            subst this
            obtain ⟨_, _, a, b, hadj, hra⟩ := (reach_succ_iff m k i j).1 hreach
            have h0 := (inv_get m w k hinv0 a b).2 k (Nat.le_refl k) hra
            have := hneg _ (adj_mem_nbrs w (-2) i j a b hadj)
            omega
        refine ⟨?_, ?_, by omega⟩
        · intro n
          constructor
          · intro hn; omega
          · rintro ⟨hn, hd⟩
            exact absurd hd.1 (hno n hn)
        · constructor
          · intro _; exact hno
          · intro _; exact hval
    · -- already known
      rw [hs1 hc1]
      have h0 : 0 ≤ w.val i j := by omega
      obtain ⟨n0, hn0⟩ := Int.eq_ofNat_of_zero_le h0
      obtain ⟨hle0, hd0⟩ := (h3 n0).1 hn0
      refine ⟨?_, ?_, h5⟩
      · intro n
        constructor
        · intro hn
          obtain ⟨hle, hd⟩ := (h3 n).1 hn
          exact ⟨by omega, hd⟩
        · rintro ⟨_, hd⟩
          have := isDist_unique m i j n n0 hd hd0
          subst this
          exact hn0
      · constructor
        · intro h; exact absurd h hc1
        · intro hno
          exact absurd hd0.1 (hno n0 (by omega))

theorem inv_iter (m : Mat) (hm : Init m) (k : Nat) : Inv m (dilateIter m k) k := by
  induction k with
  | zero => exact inv_zero m hm
  | succ k ih => exact inv_step m (dilateIter m k) k ih

theorem dilate_iter_spec (m : Mat) (hm : Init m) (k : Nat) (i j : Int) (hb : m.inBox i j = true) :
    (m.val i j = -2 → (dilateIter m k).val i j = -2) ∧
    (m.val i j ≠ -2 →
      (∀ n : Nat, (dilateIter m k).val i j = (n : Int) ↔ (n ≤ k ∧ IsDist m n i j)) ∧
      ((dilateIter m k).val i j = -1 ↔ ∀ n ≤ k, ¬ Reach m n i j) ∧
      (-1 ≤ (dilateIter m k).val i j)) :=
  (inv_iter m hm k).2.2 i j hb

/-! ## 4. the descent direction points to a cell whose index is one lower -/

theorem get_nonneg (w : Mat) (a b : Int) (h : 0 ≤ w.get (-1) a b) :
    w.inBox a b = true ∧ w.val a b = w.get (-1) a b := by
  by_cases hb : w.inBox a b = true
  · exact ⟨hb, (get_of_inBox w (-1) a b hb).symm⟩
  · rw [get_of_not_inBox w (-1) a b hb] at h
    omega

/-- the five-cell footprint of `_descent_filter_type`, in its order -/
theorem descent_min (w : Mat) (i j : Int) (n : Nat) (hb : w.inBox i j = true)
    (hv : w.val i j = (n : Int) + 1)
    (hlow : ∀ x ∈ nbrs w (-1) i j, x < 0 ∨ (n : Int) ≤ x)
    (hex : ∃ x ∈ nbrs w (-1) i j, x = (n : Int)) :
    minNonneg [w.get (-1) (i - 1) j, w.get (-1) i (j - 1), w.get (-1) i j, w.get (-1) i (j + 1),
      w.get (-1) (i + 1) j] = some (n : Int) := by
  have hc : w.get (-1) i j = (n : Int) + 1 := by rw [get_of_inBox w (-1) i j hb, hv]
  have hmem : ∀ x, x ∈ [w.get (-1) (i - 1) j, w.get (-1) i (j - 1), w.get (-1) i j, w.get (-1) i (j + 1),
      w.get (-1) (i + 1) j] ↔ (x = w.get (-1) i j ∨ x ∈ nbrs w (-1) i j) := by
    intro x
    rw [mem_nbrs_iff]
    simp only [List.mem_cons, List.not_mem_nil, or_false]
    constructor
    · rintro (h | h | h | h | h)
      · exact Or.inr (Or.inl h)
      · exact Or.inr (Or.inr (Or.inl h))
      · exact Or.inl h
      · exact Or.inr (Or.inr (Or.inr (Or.inl h)))
      · exact Or.inr (Or.inr (Or.inr (Or.inr h)))
    · rintro (h | h | h | h | h)
      · exact Or.inr (Or.inr (Or.inl h))
      · exact Or.inl h
      · exact Or.inr (Or.inl h)
      · exact Or.inr (Or.inr (Or.inr (Or.inl h)))
      · exact Or.inr (Or.inr (Or.inr (Or.inr h)))
  obtain ⟨x0, hx0, hx0n⟩ := hex
  cases hmin : minNonneg [w.get (-1) (i - 1) j, w.get (-1) i (j - 1), w.get (-1) i j,
      w.get (-1) i (j + 1), w.get (-1) (i + 1) j] with
  | none =>
    have := (minNonneg_none _).1 hmin x0 ((hmem x0).2 (Or.inr hx0))
    omega
  | some s =>
    obtain ⟨h1, h2, h3⟩ := minNonneg_some _ s hmin
    have hle := h3 x0 ((hmem x0).2 (Or.inr hx0)) (by omega)
    rcases (hmem s).1 h1 with h | h
    · omega
    · rcases hlow s h with h' | h'
      · omega
      · have : s = (n : Int) := by omega
        rw [this]

theorem descent_lowers (w : Mat) (i j : Int) (n : Nat) (hb : w.inBox i j = true)
    (hv : w.val i j = (n : Int) + 1)
    (hlow : ∀ x ∈ nbrs w (-1) i j, x < 0 ∨ (n : Int) ≤ x)
    (hex : ∃ x ∈ nbrs w (-1) i j, x = (n : Int)) :
    descentDir w i j ≠ 0 ∧
    nextCell .grid w i j = (i - vOf (descentDir w i j), j + uOf (descentDir w i j)) ∧
    w.inBox (i - vOf (descentDir w i j)) (j + uOf (descentDir w i j)) = true ∧
    w.val (i - vOf (descentDir w i j)) (j + uOf (descentDir w i j)) = (n : Int) := by
  have hmin := descent_min w i j n hb hv hlow hex
  have hc : w.get (-1) i j = (n : Int) + 1 := by rw [get_of_inBox w (-1) i j hb, hv]
  have hd : descentDir w i j =
      if w.get (-1) i (j - 1) = (n : Int) then 1
      else if w.get (-1) i (j + 1) = (n : Int) then 2
      else if w.get (-1) (i + 1) j = (n : Int) then 3
      else 4 := by
    simp only [descentDir, hmin]
    rw [if_neg (by omega), if_neg (by omega)]
    by_cases h1 : w.get (-1) i (j - 1) = (n : Int)
    · rw [if_pos h1, if_pos h1]
    · rw [if_neg h1, if_neg h1]
      by_cases h2 : w.get (-1) i (j + 1) = (n : Int)
      · rw [if_pos h2, if_pos h2]
      · rw [if_neg h2, if_neg h2]
        by_cases h3 : w.get (-1) (i + 1) j = (n : Int)
        · rw [if_pos h3, if_pos h3]
        · rw [if_neg h3, if_neg h3]
          obtain ⟨x, hx, hxn⟩ := hex
          rw [mem_nbrs_iff] at hx
          have h4 : w.get (-1) (i - 1) j = (n : Int) := by
            rcases hx with h | h | h | h
            · omega
            · omega
            · omega
            · omega
          rw [if_pos h4]
  refine ⟨?_, rfl, ?_⟩
  · rw [hd]; split_ifs <;> omega
  · rw [hd]
    have hn0 : (0 : Int) ≤ (n : Int) := Int.natCast_nonneg n
    by_cases h1 : w.get (-1) i (j - 1) = (n : Int)
    · rw [if_pos h1]
      have e1 : i - vOf 1 = i := by simp [vOf]
      have e2 : j + uOf 1 = j - 1 := by simp [uOf]; omega
      rw [e1, e2]
      obtain ⟨g1, g2⟩ := get_nonneg w i (j - 1) (by omega)
      exact ⟨g1, by omega⟩
    · rw [if_neg h1]
      by_cases h2 : w.get (-1) i (j + 1) = (n : Int)
      · rw [if_pos h2]
        have e1 : i - vOf 2 = i := by simp [vOf]
        have e2 : j + uOf 2 = j + 1 := by simp [uOf]
        rw [e1, e2]
        obtain ⟨g1, g2⟩ := get_nonneg w i (j + 1) (by omega)
        exact ⟨g1, by omega⟩
      · rw [if_neg h2]
        by_cases h3 : w.get (-1) (i + 1) j = (n : Int)
        · rw [if_pos h3]
          have e1 : i - vOf 3 = i + 1 := by simp [vOf]
          have e2 : j + uOf 3 = j := by simp [uOf]
          rw [e1, e2]
          obtain ⟨g1, g2⟩ := get_nonneg w (i + 1) j (by omega)
          exact ⟨g1, by omega⟩
        · rw [if_neg h3]
          obtain ⟨x, hx, hxn⟩ := hex
          rw [mem_nbrs_iff] at hx
          have h4 : w.get (-1) (i - 1) j = (n : Int) := by
            rcases hx with h | h | h | h
            · omega
            · omega
            · omega
            · omega
          have e1 : i - vOf 4 = i - 1 := by simp [vOf]
          have e2 : j + uOf 4 = j := by simp [uOf]
          rw [e1, e2]
          obtain ⟨g1, g2⟩ := get_nonneg w (i - 1) j (by omega)
          exact ⟨g1, by omega⟩

/-! ## 5. following the field reaches the ocean -/

/-- every positive in-box cell satisfies the hypothesis of `descent_lowers` -/
def Descending (w : Mat) : Prop :=
  ∀ (i j : Int) (n : Nat), w.inBox i j = true → w.val i j = (n : Int) + 1 →
    (∀ x ∈ nbrs w (-1) i j, x < 0 ∨ (n : Int) ≤ x) ∧ (∃ x ∈ nbrs w (-1) i j, x = (n : Int))

theorem follow_succ (s : VSign) (w : Mat) (k : Nat) (i j : Int) :
    follow s w (k + 1) (i, j) = (i, j) :: follow s w k (nextCell s w i j) := rfl

theorem follow_reaches_ocean (w : Mat) (hw : Descending w) (n : Nat) (i j : Int)
    (hb : w.inBox i j = true) (hv : w.val i j = (n : Int)) :
    (follow .grid w n (i, j)).length = n + 1 ∧
    (∀ c ∈ follow .grid w n (i, j), w.inBox c.1 c.2 = true ∧ w.val c.1 c.2 ≠ -2) ∧
    (∀ t : Nat, t ≤ n → ∃ c, (follow .grid w n (i, j))[t]? = some c ∧
      w.inBox c.1 c.2 = true ∧ w.val c.1 c.2 = (n : Int) - (t : Int)) := by
  induction n generalizing i j with
  | zero =>
    refine ⟨rfl, ?_, ?_⟩
    · intro c hc
      have : c = (i, j) := by simpa [follow] using hc
      subst this
      exact ⟨hb, by simp only; omega⟩
    · intro t ht
      have : t = 0 := by omega
      subst this
      exact ⟨(i, j), rfl, hb, by simp only; omega⟩
  | succ n ih =>
    obtain ⟨hlow, hex⟩ := hw i j n hb (by rw [hv]; push_cast; rfl)
    obtain ⟨_, hnext, hb2, hv2⟩ := descent_lowers w i j n hb (by rw [hv]; push_cast; rfl) hlow hex
    rw [follow_succ, hnext]
    obtain ⟨ih1, ih2, ih3⟩ := ih _ _ hb2 hv2
    refine ⟨?_, ?_, ?_⟩
    · rw [List.length_cons, ih1]
    · intro c hc
      rcases List.mem_cons.1 hc with rfl | hc
      · exact ⟨hb, by simp only; omega⟩
      · exact ih2 c hc
    · intro t ht
      cases t with
      | zero =>
        exact ⟨(i, j), rfl, hb, by simp only; omega⟩
      | succ t =>
        obtain ⟨c, hc1, hc2, hc3⟩ := ih3 t (by omega)
        refine ⟨c, ?_, hc2, ?_⟩
        · rw [List.getElem?_cons_succ]; exact hc1
        · rw [hc3]; push_cast; omega

/-! ## 6. bridge: every iterate of the dilation is `Descending` -/

/-- reading the `k`-th iterate with `-1` outside the box -/
theorem inv_get_neg1 (m w : Mat) (k : Nat) (hinv : Inv m w k) (a b : Int) :
    (0 ≤ w.get (-1) a b → ∃ n : Nat, w.get (-1) a b = (n : Int) ∧ n ≤ k ∧ IsDist m n a b) ∧
    (∀ n : Nat, n ≤ k → IsDist m n a b → w.get (-1) a b = (n : Int)) := by
  obtain ⟨hr, hc, hall⟩ := hinv
  have hbox := inBox_congr w m hr hc a b
  constructor
  · intro h0
    obtain ⟨g1, g2⟩ := get_nonneg w a b h0
    have hb : m.inBox a b = true := by rw [← hbox]; exact g1
    obtain ⟨h1, h2⟩ := hall a b hb
    have hv : m.val a b ≠ -2 := by
      intro h
      have := h1 h
      omega
    obtain ⟨h3, _, _⟩ := h2 hv
    obtain ⟨n, hn⟩ := Int.eq_ofNat_of_zero_le h0
    exact ⟨n, hn, (h3 n).1 (by omega)⟩
  · intro n hn hd
    obtain ⟨hb, hv⟩ := reach_inBox m n a b hd.1
    have hwb : w.inBox a b = true := by rw [hbox]; exact hb
    rw [get_of_inBox w (-1) a b hwb]
    exact (((hall a b hb).2 hv).1 n).2 ⟨hn, hd⟩

theorem inv_descending (m w : Mat) (k : Nat) (hinv : Inv m w k) : Descending w := by
  intro i j n hb hv
  have hinv0 := hinv
  obtain ⟨hr, hc, hall⟩ := hinv
  have hbm : m.inBox i j = true := by rw [← inBox_congr w m hr hc]; exact hb
  obtain ⟨h1, h2⟩ := hall i j hbm
  have hvm : m.val i j ≠ -2 := by
    intro h
    have := h1 h
    omega
  obtain ⟨h3, _, _⟩ := h2 hvm
  obtain ⟨hle, hd⟩ := (h3 (n + 1)).1 (by rw [hv]; push_cast; rfl)
  have part1 : ∀ x ∈ nbrs w (-1) i j, x < 0 ∨ (n : Int) ≤ x := by
    intro x hx
    by_cases h0 : 0 ≤ x
    · right
      obtain ⟨a, b, hadj, hxa⟩ := mem_nbrs_adj w (-1) i j x hx
      rw [hxa] at h0
      obtain ⟨n', hn', _, hd'⟩ := (inv_get_neg1 m w k hinv0 a b).1 h0
      have hreach : Reach m (n' + 1) i j := (reach_succ_iff m n' i j).2 ⟨hbm, hvm, a, b, hadj, hd'.1⟩
      have : ¬ n' + 1 < n + 1 := fun hlt => hd.2 (n' + 1) hlt hreach
      rw [hxa, hn']
      omega
    · left; omega
  refine ⟨part1, ?_⟩
  obtain ⟨_, _, a, b, hadj, hra⟩ := (reach_succ_iff m n i j).1 hd.1
  obtain ⟨n', hle', hd'⟩ := reach_exists_dist m a b n hra
  have hget := (inv_get_neg1 m w k hinv0 a b).2 n' (by omega) hd'
  have hmem := adj_mem_nbrs w (-1) i j a b hadj
  refine ⟨w.get (-1) a b, hmem, ?_⟩
  rcases part1 _ hmem with h | h
  · omega
  · omega

theorem dilateIter_descending (m : Mat) (hm : Init m) (k : Nat) : Descending (dilateIter m k) :=
  inv_descending m (dilateIter m k) k (inv_iter m hm k)

end C12BFS
