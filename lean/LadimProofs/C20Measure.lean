import LadimModel.IBM.Chemicals
import LadimProofs.C20
import Mathlib.MeasureTheory.Measure.Lebesgue.Basic
import Mathlib.MeasureTheory.Group.Measure
import Mathlib.MeasureTheory.Measure.Prod
import Mathlib.MeasureTheory.Integral.Lebesgue.Map
import Mathlib.Tactic.Linarith
import Mathlib.Tactic.NormNum
import Mathlib.Tactic.Ring

/-!
# C20M — the reflected random walk keeps a well-mixed column well-mixed (measure-theoretic part)

Model: `Ladim.Chemicals.reflect` (`LadimModel/IBM/Chemicals.lean`) at `ℝ`; column `I = [0,H]`;
one step with displacement `d`: `T H d z = reflect H (z + d)`; Lebesgue measure `volume`.

**Which statement is true.**

* FALSE: "for every fixed `d` with `|d| ≤ H`, `volume (T d ⁻¹' A ∩ I) = volume A`".
  For `0 < d < H` the map `T d` sends `[0,H-d]` onto `[d,H]` (translation) and `(H-d,H]` onto
  `[H-d,H)` (reflection at the bed); nothing is sent to `[0, min d (H-d))` and `[max d (H-d), H)`
  is hit twice (`volume_T_plus`).  Counterexample: `single_displacement_not_preserving`
  (`A = [0, min d (H-d))`: preimage of measure `0`, `volume A > 0`); concretely `H = 10`, `d = 3`,
  `A = [0,1]`: `volume (T 3 ⁻¹' A ∩ I) = 0 ≠ 1` (first `example` of section 9).
  This agrees with `C20.preimages_count`, which counts two preimages per interior target for the
  *pair* `T₊, T₋`, not for one of them.

* TRUE (`volume_T_preimage_pair`, `volume_T_preimage_pair_outer`): for `|d| ≤ H` and `A ⊆ I`
  `volume (T d ⁻¹' A ∩ I) + volume (T (-d) ⁻¹' A ∩ I) = 2 * volume A`
  — the symmetric pair `±d` preserves the uniform law.  (Measurability of `A` is not needed.)
  Consequences: `map_T_pair` (push-forward form), `volume_T_preimage_family` /
  `volume_T_preimage_average` (finite symmetric families of displacements) and
  `wellmixed_invariant`: for **every** symmetric probability law `ν` of the displacement with
  `|d| ≤ H` a.s., independent of the depth, the image of `ν ⊗ Lebesgue|[0,H]` under
  `(d,z) ↦ T d z` is `Lebesgue|[0,H]` again.

* The clamp `C H d z = min (z + d) H` does not preserve the well-mixed state: `clamp_has_atom`.

No `sorry`, no extra axioms (see the `#print axioms` lines at the end).
-/

open MeasureTheory Set
open Ladim.Chemicals

namespace C20M

/-- one step of the reflected random walk with displacement `d` in a column of depth `H` -/
noncomputable def T (H d z : ℝ) : ℝ := reflect H (z + d)

/-- the clamp variant -/
noncomputable def C (H d z : ℝ) : ℝ := min (z + d) H

/-! ## 1. the map -/

theorem reflect_eq_piecewise (H w : ℝ) (hH : 0 ≤ H) :
    reflect H w = if w < 0 then -w else if w ≤ H then w else 2 * H - w := by
  unfold reflect
  norm_num
  by_cases h0 : w < 0
  · have : ¬ H < w := by linarith
    simp [h0, this]
  · by_cases h1 : w ≤ H
    · have : ¬ H < w := by linarith
      simp [h0, h1, this]
    · have : H < w := by linarith
      simp [h0, h1, this]

theorem reflect_mem_Icc (H w : ℝ) (hH : 0 ≤ H) (h0 : -H ≤ w) (h1 : w ≤ 2 * H) :
    reflect H w ∈ Icc 0 H := by
  rw [reflect_eq_piecewise H w hH, mem_Icc]
  split_ifs with a b <;> constructor <;> linarith

theorem T_maps_into (H d z : ℝ) (hH : 0 ≤ H) (hd : |d| ≤ H) (hz : z ∈ Icc 0 H) :
    T H d z ∈ Icc 0 H := by
  obtain ⟨h1, h2⟩ := abs_le.mp hd
  obtain ⟨z0, z1⟩ := hz
  exact reflect_mem_Icc H (z + d) hH (by linarith) (by linarith)

/-! ## 2. measure-theoretic helpers -/

/-- on a branch `J` where `T = g` and `g` maps `J` exactly onto `K` -/
theorem preimage_branch {T g : ℝ → ℝ} {J K : Set ℝ} (A : Set ℝ)
    (h1 : ∀ z ∈ J, T z = g z) (h2 : ∀ z, z ∈ J ↔ g z ∈ K) :
    T ⁻¹' A ∩ J = g ⁻¹' (A ∩ K) := by
  ext z
  simp only [mem_inter_iff, mem_preimage]
  constructor
  · rintro ⟨a, j⟩
    exact ⟨h1 z j ▸ a, (h2 z).1 j⟩
  · rintro ⟨a, k⟩
    have j := (h2 z).2 k
    exact ⟨by rw [h1 z j]; exact a, j⟩

/-- splitting along a measurable piece (no measurability of `S` needed) -/
theorem volume_inter_split (S J K : Set ℝ) (hJ : MeasurableSet J) (hd : Disjoint J K) :
    volume (S ∩ (J ∪ K)) = volume (S ∩ J) + volume (S ∩ K) := by
  rw [← measure_inter_add_sdiff (S ∩ (J ∪ K)) hJ]
  congr 2
  · ext x; simp only [mem_inter_iff, mem_union]; tauto
  · ext x
    have : x ∈ J → x ∉ K := fun h => disjoint_left.mp hd h
    simp only [mem_inter_iff, mem_union, mem_sdiff]; tauto

theorem volume_eq_of_subset_union_null {s t N : Set ℝ} (hN : volume N = 0)
    (h1 : s ⊆ t ∪ N) (h2 : t ⊆ s ∪ N) : volume s = volume t := by
  apply le_antisymm
  · calc volume s ≤ volume (t ∪ N) := measure_mono h1
      _ ≤ volume t + volume N := measure_union_le _ _
      _ = volume t := by rw [hN, add_zero]
  · calc volume t ≤ volume (s ∪ N) := measure_mono h2
      _ ≤ volume s + volume N := measure_union_le _ _
      _ = volume s := by rw [hN, add_zero]

/-- `volume (c - · ⁻¹' S) = volume S` (reflection composed with translation), any `S` -/
theorem volume_preimage_sub_left (c : ℝ) (S : Set ℝ) :
    volume ((fun z : ℝ => c - z) ⁻¹' S) = volume S := by
  have h : (fun z : ℝ => c - z) ⁻¹' S
      = (fun z : ℝ => z + (-c)) ⁻¹' ((fun z : ℝ => (-1) * z) ⁻¹' S) := by
    ext z; simp only [mem_preimage]; rw [show -1 * (z + -c) = c - z by ring]
  rw [h, measure_preimage_add_right, Real.volume_preimage_mul_left (by norm_num)]
  norm_num

/-- cutting `A ⊆ [0,H]` at `c` with pieces that are right only up to the three points `0, c, H` -/
theorem volume_cut (H c : ℝ) (A X Y : Set ℝ)
    (hX1 : A ∩ X ⊆ (A ∩ Iic c) ∪ {0, c, H}) (hX2 : A ∩ Iic c ⊆ (A ∩ X) ∪ {0, c, H})
    (hY1 : A ∩ Y ⊆ (A \ Iic c) ∪ {0, c, H}) (hY2 : A \ Iic c ⊆ (A ∩ Y) ∪ {0, c, H}) :
    volume (A ∩ X) + volume (A ∩ Y) = volume A := by
  have hN : volume ({0, c, H} : Set ℝ) = 0 := (Set.toFinite _).measure_zero volume
  rw [volume_eq_of_subset_union_null hN hX1 hX2, volume_eq_of_subset_union_null hN hY1 hY2]
  exact measure_inter_add_sdiff A measurableSet_Iic

/-! ## 3. the two branches of `T d` and of `T (-d)`, `0 ≤ d ≤ H` -/

/-- downward step `d ≥ 0`: the straight branch `[0,H-d] → [d,H]` and the branch reflected at the bed
`(H-d,H] → [H-d,H)`.  Nothing is mapped to `[0, min d (H-d))`, and `[max d (H-d), H)` is hit twice:
a single displacement does **not** preserve the measure. -/
theorem volume_T_plus (H d : ℝ) (hd0 : 0 ≤ d) (hd1 : d ≤ H) (A : Set ℝ) :
    volume (T H d ⁻¹' A ∩ Icc 0 H) = volume (A ∩ Icc d H) + volume (A ∩ Ico (H - d) H) := by
  have hH : 0 ≤ H := le_trans hd0 hd1
  have hI : Icc 0 H = Icc 0 (H - d) ∪ Ioc (H - d) H :=
    (Icc_union_Ioc_eq_Icc (by linarith) (by linarith)).symm
  have hdis : Disjoint (Icc 0 (H - d)) (Ioc (H - d) H) := by
    rw [disjoint_left]; rintro x ⟨_, h⟩ ⟨h', _⟩; linarith
  rw [hI, volume_inter_split _ _ _ measurableSet_Icc hdis]
  have b1 : T H d ⁻¹' A ∩ Icc 0 (H - d) = (fun z : ℝ => z + d) ⁻¹' (A ∩ Icc d H) := by
    apply preimage_branch
    · rintro z ⟨h0, h1⟩
      unfold T
      rw [reflect_eq_piecewise H _ hH, if_neg (by linarith), if_pos (by linarith)]
    · intro z
      simp only [mem_Icc]
      constructor <;> rintro ⟨h0, h1⟩ <;> constructor <;> linarith
  have b2 : T H d ⁻¹' A ∩ Ioc (H - d) H
      = (fun z : ℝ => (2 * H - d) - z) ⁻¹' (A ∩ Ico (H - d) H) := by
    apply preimage_branch
    · rintro z ⟨h0, h1⟩
      unfold T
      rw [reflect_eq_piecewise H _ hH, if_neg (by linarith), if_neg (by linarith)]
      ring
    · intro z
      simp only [mem_Ioc, mem_Ico]
      constructor <;> rintro ⟨h0, h1⟩ <;> constructor <;> linarith
  rw [b1, b2, measure_preimage_add_right, volume_preimage_sub_left]

/-- upward step `-d ≤ 0`: the branch reflected at the surface `[0,d) → (0,d]` and the straight branch
`[d,H] → [0,H-d]`. -/
theorem volume_T_minus (H d : ℝ) (hd0 : 0 ≤ d) (hd1 : d ≤ H) (A : Set ℝ) :
    volume (T H (-d) ⁻¹' A ∩ Icc 0 H) = volume (A ∩ Ioc 0 d) + volume (A ∩ Icc 0 (H - d)) := by
  have hH : 0 ≤ H := le_trans hd0 hd1
  have hI : Icc 0 H = Ico 0 d ∪ Icc d H := (Ico_union_Icc_eq_Icc hd0 hd1).symm
  have hdis : Disjoint (Ico 0 d) (Icc d H) := by
    rw [disjoint_left]; rintro x ⟨_, h⟩ ⟨h', _⟩; linarith
  rw [hI, volume_inter_split _ _ _ measurableSet_Ico hdis]
  have b1 : T H (-d) ⁻¹' A ∩ Ico 0 d = (fun z : ℝ => d - z) ⁻¹' (A ∩ Ioc 0 d) := by
    apply preimage_branch
    · rintro z ⟨h0, h1⟩
      unfold T
      rw [reflect_eq_piecewise H _ hH, if_pos (by linarith)]
      ring
    · intro z
      simp only [mem_Ioc, mem_Ico]
      constructor <;> rintro ⟨h0, h1⟩ <;> constructor <;> linarith
  have b2 : T H (-d) ⁻¹' A ∩ Icc d H = (fun z : ℝ => z + (-d)) ⁻¹' (A ∩ Icc 0 (H - d)) := by
    apply preimage_branch
    · rintro z ⟨h0, h1⟩
      unfold T
      rw [reflect_eq_piecewise H _ hH, if_neg (by linarith), if_pos (by linarith)]
    · intro z
      simp only [mem_Icc]
      constructor <;> rintro ⟨h0, h1⟩ <;> constructor <;> linarith
  rw [b1, b2, measure_preimage_add_right, volume_preimage_sub_left]

/-! ## 4. the symmetric pair preserves Lebesgue measure on the column -/

theorem volume_T_pair_nonneg (H d : ℝ) (hd0 : 0 ≤ d) (hd1 : d ≤ H) (A : Set ℝ)
    (hsub : A ⊆ Icc 0 H) :
    volume (T H d ⁻¹' A ∩ Icc 0 H) + volume (T H (-d) ⁻¹' A ∩ Icc 0 H) = 2 * volume A := by
  rw [volume_T_plus H d hd0 hd1, volume_T_minus H d hd0 hd1]
  have c1 : volume (A ∩ Ioc 0 d) + volume (A ∩ Icc d H) = volume A := by
    apply volume_cut H d
    · rintro x ⟨hA, h0, h1⟩; exact Or.inl ⟨hA, h1⟩
    · rintro x ⟨hA, h1⟩
      obtain ⟨a0, a1⟩ := hsub hA
      rcases eq_or_lt_of_le a0 with e | l
      · right; simp [← e]
      · exact Or.inl ⟨hA, l, h1⟩
    · rintro x ⟨hA, h0, h1⟩
      rcases eq_or_lt_of_le h0 with e | l
      · right; simp [← e]
      · exact Or.inl ⟨hA, not_le.mpr l⟩
    · rintro x ⟨hA, h1⟩
      obtain ⟨a0, a1⟩ := hsub hA
      exact Or.inl ⟨hA, (not_le.mp h1).le, a1⟩
  have c2 : volume (A ∩ Icc 0 (H - d)) + volume (A ∩ Ico (H - d) H) = volume A := by
    apply volume_cut H (H - d)
    · rintro x ⟨hA, h0, h1⟩; exact Or.inl ⟨hA, h1⟩
    · rintro x ⟨hA, h1⟩
      obtain ⟨a0, a1⟩ := hsub hA
      exact Or.inl ⟨hA, a0, h1⟩
    · rintro x ⟨hA, h0, h1⟩
      rcases eq_or_lt_of_le h0 with e | l
      · right; simp [← e]
      · exact Or.inl ⟨hA, not_le.mpr l⟩
    · rintro x ⟨hA, h1⟩
      obtain ⟨a0, a1⟩ := hsub hA
      rcases eq_or_lt_of_le a1 with e | l
      · right; simp [e]
      · exact Or.inl ⟨hA, (not_le.mp h1).le, l⟩
  calc volume (A ∩ Icc d H) + volume (A ∩ Ico (H - d) H)
        + (volume (A ∩ Ioc 0 d) + volume (A ∩ Icc 0 (H - d)))
      = (volume (A ∩ Ioc 0 d) + volume (A ∩ Icc d H))
        + (volume (A ∩ Icc 0 (H - d)) + volume (A ∩ Ico (H - d) H)) := by ring
    _ = 2 * volume A := by rw [c1, c2, two_mul]

/-- **Well-mixed condition, exact form.**  For every displacement `d` with `|d| ≤ H` and every
`A ⊆ [0,H]` (measurability of `A` is not even needed: the identity holds for outer measure) the
pair of displacements `±d` together preserves Lebesgue measure on the column. -/
theorem volume_T_preimage_pair_outer (H d : ℝ) (hd : |d| ≤ H) (A : Set ℝ) (hsub : A ⊆ Icc 0 H) :
    volume (T H d ⁻¹' A ∩ Icc 0 H) + volume (T H (-d) ⁻¹' A ∩ Icc 0 H) = 2 * volume A := by
  obtain ⟨h1, h2⟩ := abs_le.mp hd
  rcases le_total 0 d with h | h
  · exact volume_T_pair_nonneg H d h h2 A hsub
  · have := volume_T_pair_nonneg H (-d) (by linarith) (by linarith) A hsub
    rw [neg_neg] at this
    rw [add_comm]; exact this

set_option linter.unusedVariables false in
/-- the requested signature (measurable `A`; the hypothesis `hA` is not used) -/
theorem volume_T_preimage_pair (H d : ℝ) (hd : |d| ≤ H) (A : Set ℝ) (hA : MeasurableSet A)
    (hsub : A ⊆ Icc 0 H) :
    volume (T H d ⁻¹' A ∩ Icc 0 H) + volume (T H (-d) ⁻¹' A ∩ Icc 0 H) = 2 * volume A :=
  volume_T_preimage_pair_outer H d hd A hsub

/-! ## 5. a single displacement does not preserve the measure -/

/-- For `0 < d < H` the single map `T d` is **not** measure preserving on the column: the layer
`A = [0, m)`, `m = min d (H-d) > 0`, next to the surface has positive measure and empty preimage
(up to measure zero). -/
theorem single_displacement_not_preserving (H d : ℝ) (hd0 : 0 < d) (hd1 : d < H) :
    ∃ A : Set ℝ, MeasurableSet A ∧ A ⊆ Icc 0 H ∧
      volume (T H d ⁻¹' A ∩ Icc 0 H) = 0 ∧ 0 < volume A := by
  have hm : 0 < min d (H - d) := lt_min hd0 (by linarith)
  refine ⟨Ico 0 (min d (H - d)), measurableSet_Ico, ?_, ?_, ?_⟩
  · rintro x ⟨h0, h1⟩
    have := min_le_left d (H - d)
    exact ⟨h0, by linarith⟩
  · rw [volume_T_plus H d hd0.le hd1.le]
    have e1 : Ico 0 (min d (H - d)) ∩ Icc d H = ∅ := by
      ext x; simp only [mem_inter_iff, mem_Ico, mem_Icc, mem_empty_iff_false, iff_false]
      rintro ⟨⟨_, h1⟩, h2, _⟩
      have := min_le_left d (H - d); linarith
    have e2 : Ico 0 (min d (H - d)) ∩ Ico (H - d) H = ∅ := by
      ext x; simp only [mem_inter_iff, mem_Ico, mem_empty_iff_false, iff_false]
      rintro ⟨⟨_, h1⟩, h2, _⟩
      have := min_le_right d (H - d); linarith
    rw [e1, e2]; simp
  · rw [Real.volume_Ico]; simpa using hm

/-! ## 6. the clamp creates an atom at the bed -/

theorem clamp_has_atom (H d : ℝ) (hd0 : 0 < d) (hd1 : d ≤ H) :
    volume (C H d ⁻¹' {H} ∩ Icc 0 H) = ENNReal.ofReal d ∧ 0 < ENNReal.ofReal d ∧
      volume ({H} : Set ℝ) = 0 := by
  refine ⟨?_, ENNReal.ofReal_pos.mpr hd0, Real.volume_singleton⟩
  have : C H d ⁻¹' {H} ∩ Icc 0 H = Icc (H - d) H := by
    ext z
    simp only [mem_inter_iff, mem_preimage, mem_singleton_iff, mem_Icc, C]
    constructor
    · rintro ⟨h, h0, h1⟩
      have : H ≤ z + d := by rw [← h]; exact min_le_left _ _
      exact ⟨by linarith, h1⟩
    · rintro ⟨h0, h1⟩
      exact ⟨min_eq_right (by linarith), by linarith, h1⟩
  rw [this, Real.volume_Icc]
  congr 1; ring

/-! ## 7. finite symmetric families of displacements -/

/-- For a finite family of displacements that is symmetric as a multiset (`ds.map (-·)` is a
permutation of `ds`), all of size `≤ H`, the total over the family of `volume (T d ⁻¹' A ∩ I)` is
`ds.length * volume A`: on average each displacement preserves the measure. -/
theorem volume_T_preimage_family (H : ℝ) (ds : List ℝ) (hsymm : (ds.map (fun d => -d)).Perm ds)
    (hb : ∀ d ∈ ds, |d| ≤ H) (A : Set ℝ) (hsub : A ⊆ Icc 0 H) :
    (ds.map (fun d => volume (T H d ⁻¹' A ∩ Icc 0 H))).sum = ds.length * volume A := by
  set f : ℝ → ENNReal := fun d => volume (T H d ⁻¹' A ∩ Icc 0 H) with hf
  have h1 : (ds.map f).sum = (ds.map (fun d => f (-d))).sum := by
    have := (hsymm.map f).sum_eq
    rw [List.map_map] at this
    exact this.symm
  have h2 : (ds.map f).sum + (ds.map f).sum = ds.length * (2 * volume A) := by
    nth_rewrite 2 [h1]
    rw [← List.sum_map_add]
    have : ds.map (fun d => f d + f (-d)) = ds.map (fun _ => 2 * volume A) :=
      List.map_congr_left fun d hd => volume_T_preimage_pair_outer H d (hb d hd) A hsub
    rw [this, List.map_const', List.sum_replicate, nsmul_eq_mul]
  have h3 : 2 * (ds.map f).sum = 2 * (ds.length * volume A) := by
    rw [two_mul, h2]; ring
  exact (ENNReal.mul_right_inj (by norm_num) (by norm_num)).mp h3

/-- the same as an average -/
theorem volume_T_preimage_average (H : ℝ) (ds : List ℝ) (hne : ds ≠ [])
    (hsymm : (ds.map (fun d => -d)).Perm ds) (hb : ∀ d ∈ ds, |d| ≤ H) (A : Set ℝ)
    (hsub : A ⊆ Icc 0 H) :
    (ds.map (fun d => volume (T H d ⁻¹' A ∩ Icc 0 H))).sum / ds.length = volume A := by
  rw [volume_T_preimage_family H ds hsymm hb A hsub]
  have h0 : (ds.length : ENNReal) ≠ 0 := by
    simpa using hne
  rw [mul_comm]
  exact ENNReal.mul_div_cancel_right h0 (ENNReal.natCast_ne_top _)

/-! ## 8. formulation with push-forward measures -/

theorem measurable_T (H d : ℝ) (hH : 0 ≤ H) : Measurable (T H d) := by
  have : T H d = fun z => if z + d < 0 then -(z + d) else
      if z + d ≤ H then z + d else 2 * H - (z + d) :=
    funext fun z => reflect_eq_piecewise H (z + d) hH
  rw [this]
  refine Measurable.ite (measurableSet_lt (by fun_prop) measurable_const) (by fun_prop) ?_
  exact Measurable.ite (measurableSet_le (by fun_prop) measurable_const) (by fun_prop)
    (by fun_prop)

/-- Lebesgue measure on the column `[0,H]` (the un-normalised uniform law): its images under `T d`
and `T (-d)` add up to twice itself. -/
theorem map_T_pair (H d : ℝ) (hH : 0 ≤ H) (hd : |d| ≤ H) :
    Measure.map (T H d) (volume.restrict (Icc 0 H)) + Measure.map (T H (-d)) (volume.restrict (Icc 0 H))
      = (2 : ENNReal) • volume.restrict (Icc 0 H) := by
  ext A hA
  have key : ∀ e : ℝ, |e| ≤ H → T H e ⁻¹' A ∩ Icc 0 H = T H e ⁻¹' (A ∩ Icc 0 H) ∩ Icc 0 H := by
    intro e he
    ext z
    simp only [mem_inter_iff, mem_preimage]
    constructor
    · rintro ⟨a, i⟩; exact ⟨⟨a, T_maps_into H e z hH he i⟩, i⟩
    · rintro ⟨⟨a, _⟩, i⟩; exact ⟨a, i⟩
  rw [Measure.add_apply, Measure.map_apply (measurable_T H d hH) hA,
    Measure.map_apply (measurable_T H (-d) hH) hA,
    Measure.restrict_apply (measurable_T H d hH hA),
    Measure.restrict_apply (measurable_T H (-d) hH hA), Measure.smul_apply,
    Measure.restrict_apply hA, smul_eq_mul, key d hd, key (-d) (by rwa [abs_neg])]
  exact volume_T_preimage_pair_outer H d hd (A ∩ Icc 0 H) inter_subset_right

/-! ## 8b. any symmetric law of the displacement: the uniform law is invariant -/

theorem measurable_T_uncurry (H : ℝ) (hH : 0 ≤ H) :
    Measurable (fun p : ℝ × ℝ => T H p.1 p.2) := by
  have : (fun p : ℝ × ℝ => T H p.1 p.2) = fun p => if p.2 + p.1 < 0 then -(p.2 + p.1) else
      if p.2 + p.1 ≤ H then p.2 + p.1 else 2 * H - (p.2 + p.1) :=
    funext fun p => reflect_eq_piecewise H (p.2 + p.1) hH
  rw [this]
  refine Measurable.ite (measurableSet_lt (by fun_prop) measurable_const) (by fun_prop) ?_
  exact Measurable.ite (measurableSet_le (by fun_prop) measurable_const) (by fun_prop)
    (by fun_prop)

/-- **The well-mixed state is invariant under the reflected random walk.**  Let the displacement
`d` have any law `ν` (a probability measure on `ℝ`) that is symmetric (`ν.map (-·) = ν`) and
bounded by the depth (`|d| ≤ H` a.s.), and let the depth `z` be independent of `d` and uniform on
`[0,H]` (Lebesgue measure restricted to the column, un-normalised).  Then the new depth
`T d z = reflect H (z + d)` is again uniform on `[0,H]`. -/
theorem wellmixed_invariant (H : ℝ) (hH : 0 ≤ H) (ν : Measure ℝ) [IsProbabilityMeasure ν]
    (hsymm : ν.map (fun d => -d) = ν) (hsupp : ∀ᵐ d ∂ν, |d| ≤ H) :
    (ν.prod (volume.restrict (Icc 0 H))).map (fun p => T H p.1 p.2)
      = volume.restrict (Icc 0 H) := by
  set U : Measure ℝ := volume.restrict (Icc 0 H) with hU
  ext A hA
  have hF := measurable_T_uncurry H hH
  have hS : MeasurableSet ((fun p : ℝ × ℝ => T H p.1 p.2) ⁻¹' A) := hF hA
  rw [Measure.map_apply hF hA, Measure.prod_apply hS]
  set f : ℝ → ENNReal := fun d => U (Prod.mk d ⁻¹' ((fun p : ℝ × ℝ => T H p.1 p.2) ⁻¹' A)) with hf
  have hfm : Measurable f := measurable_measure_prodMk_left hS
  have hfe : ∀ d, f d = Measure.map (T H d) U A := by
    intro d
    rw [Measure.map_apply (measurable_T H d hH) hA]
    rfl
  have h1 : ∫⁻ d, f d ∂ν = ∫⁻ d, f (-d) ∂ν := by
    have : ∫⁻ d, f d ∂ν = ∫⁻ d, f d ∂(ν.map (fun d => -d)) := by rw [hsymm]
    rw [this, lintegral_map hfm measurable_neg]
  have h2 : ∫⁻ d, f d ∂ν + ∫⁻ d, f (-d) ∂ν = 2 * U A := by
    rw [← lintegral_add_left hfm]
    have : (fun d => f d + f (-d)) =ᵐ[ν] fun _ => 2 * U A := by
      filter_upwards [hsupp] with d hd
      have := congrArg (fun μ : Measure ℝ => μ A) (map_T_pair H d hH hd)
      simp only [Measure.add_apply, Measure.smul_apply, smul_eq_mul] at this
      rw [hfe, hfe]; exact this
    rw [lintegral_congr_ae this, lintegral_const, measure_univ, mul_one]
  rw [← h1, ← two_mul] at h2
  exact (ENNReal.mul_right_inj (by norm_num) (by norm_num)).mp h2

/-! ## 9. non-vacuity: `H = 10`, `d = 3`, `A = [0,1]` -/

/-- the downward step `+3` sends nothing into the surface layer `[0,1]`, the upward step `-3` sends
`[2,4]` there (`[2,3)` by reflection, `[3,4]` directly): `0 + 2 = 2 · 1`. -/
example :
    volume (T 10 3 ⁻¹' Icc 0 1 ∩ Icc 0 10) = 0 ∧
    volume (T 10 (-3) ⁻¹' Icc 0 1 ∩ Icc 0 10) = 2 ∧
    volume (Icc (0 : ℝ) 1) = 1 ∧
    volume (T 10 3 ⁻¹' Icc 0 1 ∩ Icc 0 10) + volume (T 10 (-3) ⁻¹' Icc 0 1 ∩ Icc 0 10)
      = 2 * volume (Icc (0 : ℝ) 1) := by
  have hA : volume (Icc (0 : ℝ) 1) = 1 := by rw [Real.volume_Icc]; norm_num
  have hp : volume (T 10 3 ⁻¹' Icc 0 1 ∩ Icc 0 10) = 0 := by
    rw [volume_T_plus 10 3 (by norm_num) (by norm_num)]
    have e1 : Icc (0 : ℝ) 1 ∩ Icc 3 10 = ∅ := by
      ext x; simp only [mem_inter_iff, mem_Icc, mem_empty_iff_false, iff_false]
      rintro ⟨⟨_, h1⟩, h2, _⟩; linarith
    have e2 : Icc (0 : ℝ) 1 ∩ Ico (10 - 3) 10 = ∅ := by
      ext x; simp only [mem_inter_iff, mem_Icc, mem_Ico, mem_empty_iff_false, iff_false]
      rintro ⟨⟨_, h1⟩, h2, _⟩; linarith
    rw [e1, e2]; simp
  have hsum := volume_T_preimage_pair 10 3 (by norm_num) (Icc 0 1) measurableSet_Icc
    (Icc_subset_Icc le_rfl (by norm_num))
  rw [hp, hA, zero_add] at hsum
  refine ⟨hp, ?_, hA, ?_⟩
  · rw [hsum]; norm_num
  · rw [hp, hA, hsum, zero_add]

/-- non-vacuity of `wellmixed_invariant`: the two-point law `½ δ₃ + ½ δ₋₃` in a column of depth
`10` satisfies all hypotheses -/
example : ∃ ν : Measure ℝ, IsProbabilityMeasure ν ∧ ν.map (fun d => -d) = ν ∧
    (∀ᵐ d ∂ν, |d| ≤ (10 : ℝ)) ∧ ν {3} = 2⁻¹ := by
  refine ⟨(2⁻¹ : ENNReal) • (Measure.dirac (3 : ℝ) + Measure.dirac (-3)), ⟨?_⟩, ?_, ?_, ?_⟩
  · simp only [Measure.smul_apply, Measure.add_apply, measure_univ, smul_eq_mul]
    rw [one_add_one_eq_two]
    exact ENNReal.inv_mul_cancel (by norm_num) (by norm_num)
  · rw [Measure.map_smul, Measure.map_add _ _ measurable_neg, Measure.map_dirac' measurable_neg,
      Measure.map_dirac' measurable_neg, neg_neg, add_comm]
  · refine Measure.ae_smul_measure ?_ _
    rw [ae_add_measure_iff]
    have hm : MeasurableSet {d : ℝ | |d| ≤ 10} :=
      measurableSet_le (by fun_prop) measurable_const
    rw [ae_dirac_iff hm, ae_dirac_iff hm]
    constructor <;> norm_num
  · simp only [Measure.smul_apply, Measure.add_apply, smul_eq_mul]
    rw [Measure.dirac_apply_of_mem (by simp), Measure.dirac_apply' _ (measurableSet_singleton _)]
    norm_num

/-- pointwise: `T 10 (-3) 2.5 = 0.5` (reflected at the surface), `T 10 3 9 = 8` (reflected at the
bed), `C 10 3 9 = 10` (clamped) -/
example : T 10 (-3) 2.5 = 0.5 ∧ T 10 3 9 = 8 ∧ C 10 3 9 = 10 := by
  refine ⟨?_, ?_, ?_⟩
  · unfold T; rw [reflect_eq_piecewise _ _ (by norm_num)]; norm_num
  · unfold T; rw [reflect_eq_piecewise _ _ (by norm_num)]; norm_num
  · unfold C; norm_num

/-- clamp with `H = 10`, `d = 3`: the layer `[7,10]` (measure 3) is sent to the single point `10` -/
example : volume (C 10 3 ⁻¹' {10} ∩ Icc 0 10) = 3 := by
  rw [(clamp_has_atom 10 3 (by norm_num) (by norm_num)).1]; norm_num

end C20M

