import LadimProofs.Basic
import Mathlib.Data.List.Perm.Basic
import Mathlib.Data.List.Sort
import Mathlib.Data.String.Basic
import LadimModel.Release.Table
/-!
# C01 — the release table is complete: one intact row per requested particle
-/
open Ladim.Table
set_option linter.unusedVariables false

namespace C01
variable {α : Type}

theorem rowsOf_length (zero : α) (cols : List String) (f : Frame α) (num : Nat) :
    (rowsOf zero cols f num).length = num := by simp [rowsOf]

/-- the table has exactly as many rows as the sum of the requested particle counts -/
theorem rowCount_eq_sum (zero : α) (groups : List (Frame α × Nat)) :
    (concatFill zero groups).2.length = (groups.map (·.2)).sum := by
  unfold concatFill
  simp only []
  induction groups with
  | nil => simp
  | cons g gs ih =>
    simp only [List.flatMap_cons, List.length_append, rowsOf_length, List.map_cons, List.sum_cons]
    -- the column list of the induction hypothesis differs; lengths do not depend on it
    have : ∀ (cols : List String) (l : List (Frame α × Nat)),
        (l.flatMap (fun g => rowsOf zero cols g.1 g.2)).length = (l.map (·.2)).sum := by
      intro cols l
      induction l with
      | nil => simp
      | cons h t iht => simp [List.flatMap_cons, rowsOf_length, iht]
    rw [this]

/-- every row has one cell per column: every column has the same length -/
theorem columns_rectangular (zero : α) (groups : List (Frame α × Nat)) :
    ∀ r ∈ (concatFill zero groups).2, r.length = (concatFill zero groups).1.length := by
  unfold concatFill
  simp only [List.mem_flatMap]
  rintro r ⟨g, _, hr⟩
  simp only [rowsOf, List.mem_map] at hr
  obtain ⟨i, _, rfl⟩ := hr
  simp [rowOf]

/-- each group contributes exactly its own count -/
theorem group_contributes_num (zero : α) (cols : List String) (g : Frame α × Nat) :
    (rowsOf zero cols g.1 g.2).length = g.2 := rowsOf_length zero cols g.1 g.2

/-- the values of one particle stay together: the cell of particle `i` of group frame `f` under column
`c` is `f[c][i]` (0 if the group does not define `c`, or the value is missing) -/
theorem row_integrity (zero : α) (cols : List String) (f : Frame α) (i j : Nat) (hj : j < cols.length) :
    (rowOf zero cols f i)[j]'(by simpa [rowOf] using hj) =
      fill zero ((lookup f cols[j]).bind (fun col => col[i]?)) := by
  simp [rowOf]

/-- an attribute that a group does not define is 0 for that group's particles -/
theorem missing_attr_zero (zero : α) (cols : List String) (f : Frame α) (i j : Nat) (hj : j < cols.length)
    (hmiss : lookup f cols[j] = none) :
    (rowOf zero cols f i)[j]'(by simpa [rowOf] using hj) = Cell.num zero := by
  rw [row_integrity zero cols f i j hj, hmiss]; rfl

/-! ## sorting is a permutation that orders the date keys -/

theorem insertRow_perm (cols : List String) (r : List (Cell α)) (l : List (List (Cell α))) :
    (insertRow cols r l).Perm (r :: l) := by
  induction l with
  | nil => simp [insertRow]
  | cons x xs ih =>
    simp only [insertRow]
    split_ifs
    · exact (List.Perm.cons x ih).trans (List.Perm.swap r x xs)
    · exact List.Perm.refl _

theorem sortRows_perm (cols : List String) (rows : List (List (Cell α))) :
    (sortRows cols rows).Perm rows := by
  unfold sortRows
  induction rows with
  | nil => simp
  | cons r rs ih =>
    simp only [List.foldr_cons]
    exact (insertRow_perm cols r _).trans (List.Perm.cons r ih)

theorem insertRow_sorted (cols : List String) (r : List (Cell α)) (l : List (List (Cell α)))
    (hl : List.Pairwise (fun a b => dateKey cols a ≤ dateKey cols b) l) :
    List.Pairwise (fun a b => dateKey cols a ≤ dateKey cols b) (insertRow cols r l) := by
  induction l with
  | nil => simp [insertRow]
  | cons x xs ih =>
    simp only [insertRow]
    rw [List.pairwise_cons] at hl
    split_ifs with h
    · rw [List.pairwise_cons]
      refine ⟨?_, ih hl.2⟩
      intro y hy
      have := (insertRow_perm cols r xs).mem_iff.mp hy
      simp only [List.mem_cons] at this
      rcases this with rfl | hy'
      · exact le_of_lt h
      · exact hl.1 y hy'
    · rw [List.pairwise_cons]
      refine ⟨?_, List.pairwise_cons.mpr hl⟩
      intro y hy
      simp only [List.mem_cons] at hy
      rcases hy with rfl | hy
      · exact not_lt.mp h
      · exact le_trans (not_lt.mp h) (hl.1 y hy)

/-- the rows of the table are in non-decreasing order of the date string -/
theorem sortRows_sorted (cols : List String) (rows : List (List (Cell α))) :
    List.Pairwise (fun a b => dateKey cols a ≤ dateKey cols b) (sortRows cols rows) := by
  unfold sortRows
  induction rows with
  | nil => simp
  | cons r rs ih => exact insertRow_sorted cols r _ ih

/-- inserting `r` puts it in FRONT of the rows with the same date key and leaves the other keys' rows alone -/
theorem insertRow_filter (cols : List String) (r : List (Cell α)) (l : List (List (Cell α))) (k : String) :
    (insertRow cols r l).filter (fun x => dateKey cols x == k) =
      if dateKey cols r == k then r :: l.filter (fun x => dateKey cols x == k) else l.filter (fun x => dateKey cols x == k) := by
  induction l with
  | nil => simp [insertRow, List.filter_cons]
  | cons x xs ih =>
    simp only [insertRow]
    split_ifs with h hk hk
    · -- x < r: x is skipped; if key r = k then key x ≠ k
      have hx : (dateKey cols x == k) = false := by
        have : dateKey cols x ≠ k := by
          intro e; rw [beq_iff_eq] at hk; rw [e, hk] at h; exact lt_irrefl _ h
        simpa using this
      rw [List.filter_cons, hx, ih, if_pos hk, List.filter_cons, hx]; simp
    · rw [List.filter_cons, ih, if_neg hk, List.filter_cons]
    · rw [List.filter_cons, if_pos hk]
    · rw [List.filter_cons, if_neg hk]

/-- **the sort is stable**: the rows with a given date key come out in the order they went in — over ties the table keeps
the order of the concatenated groups, i.e. group order and, inside a group, particle order -/
theorem sortRows_stable (cols : List String) (rows : List (List (Cell α))) (k : String) :
    (sortRows cols rows).filter (fun x => dateKey cols x == k) = rows.filter (fun x => dateKey cols x == k) := by
  unfold sortRows
  induction rows with
  | nil => simp
  | cons r rs ih =>
    simp only [List.foldr_cons]
    rw [insertRow_filter, ih, List.filter_cons]

/-- a table whose rows already come in non-decreasing date order is left exactly as it is: no row moves, so the
concatenation order of the groups (and the particle order inside each) IS the row order of the table -/
theorem sortRows_of_sorted (cols : List String) (rows : List (List (Cell α)))
    (h : List.Pairwise (fun a b => dateKey cols a ≤ dateKey cols b) rows) : sortRows cols rows = rows := by
  induction rows with
  | nil => rfl
  | cons r rs ih =>
    rw [List.pairwise_cons] at h
    have e : sortRows cols (r :: rs) = insertRow cols r (sortRows cols rs) := rfl
    rw [e, ih h.2]
    cases rs with
    | nil => rfl
    | cons x xs =>
      simp only [insertRow]
      rw [if_neg (not_lt.mpr (h.1 x (List.mem_cons_self)))]

/-- sorting twice is sorting once (`sort_values('date')` applied to its own output changes nothing) -/
theorem sortRows_idem (cols : List String) (rows : List (List (Cell α))) :
    sortRows cols (sortRows cols rows) = sortRows cols rows :=
  sortRows_of_sorted cols _ (sortRows_sorted cols rows)


/-- the output rows are a permutation of the concatenation of every group's rows: each group
contributes exactly its `num` rows and each row is carried whole.  (Stated for the model's sort; it
holds for *every* permutation, so it does not depend on pandas' unstable quicksort.) -/
theorem rows_perm_of_groups (zero : α) (groups : List (Frame α × Nat)) (cols : List String)
    (rows : List (List (Cell α))) (h : makeTable zero groups none = some (cols, rows)) :
    cols = allCols (groups.map (·.1)) ∧
    rows.Perm (groups.flatMap (fun g => rowsOf zero (allCols (groups.map (·.1))) g.1 g.2)) ∧
    rows.length = (groups.map (·.2)).sum := by
  unfold makeTable at h
  split_ifs at h with hok
  simp only [Option.some.injEq, Prod.mk.injEq] at h
  obtain ⟨rfl, rfl⟩ := h
  refine ⟨rfl, sortRows_perm _ _, ?_⟩
  rw [(sortRows_perm _ _).length_eq]
  exact rowCount_eq_sum zero groups

/-- the columns are the requested list in that order … -/
theorem columns_requested (zero : α) (groups : List (Frame α × Nat)) (want cols : List String)
    (rows : List (List (Cell α))) (h : makeTable zero groups (some want) = some (cols, rows)) :
    cols = want ∧ ∀ r ∈ rows, r.length = want.length := by
  unfold makeTable at h
  split_ifs at h with hok
  simp only [Option.map_eq_some_iff, Prod.mk.injEq] at h
  obtain ⟨rs, hrs, rfl, rfl⟩ := h
  refine ⟨rfl, ?_⟩
  intro r hr
  -- each selected row comes from `selectCols … want`
  have aux : ∀ (l : List (List (Cell α))) (out : List (List (Cell α))),
      l.mapM (selectCols (concatFill zero groups).1 want) = some out → ∀ r ∈ out, r.length = want.length := by
    intro l
    induction l with
    | nil => intro out ho r hr; simp at ho; subst ho; simp at hr
    | cons x xs ih =>
      intro out ho r hr
      simp only [List.mapM_cons] at ho
      cases hx : selectCols (concatFill zero groups).1 want x with
      | none => simp [hx] at ho
      | some y =>
        cases hxs : xs.mapM (selectCols (concatFill zero groups).1 want) with
        | none => simp [hx, hxs] at ho
        | some ys =>
          simp [hx, hxs] at ho
          subst ho
          simp only [List.mem_cons] at hr
          rcases hr with rfl | hr
          · unfold selectCols at hx
            have : ∀ (w : List String) (o : List (Cell α)),
                w.mapM (fun c => ((concatFill zero groups).1.idxOf? c).bind (fun j => x[j]?)) = some o → o.length = w.length := by
              intro w
              induction w with
              | nil => intro o h; simp at h; subst h; rfl
              | cons c cs ihw =>
                intro o h
                simp only [List.mapM_cons] at h
                cases h1 : ((concatFill zero groups).1.idxOf? c).bind (fun j => x[j]?) with
                | none => simp [h1] at h
                | some v =>
                  cases h2 : cs.mapM (fun c => ((concatFill zero groups).1.idxOf? c).bind (fun j => x[j]?)) with
                  | none => simp [h1, h2] at h
                  | some vs => simp [h1, h2] at h; subst h; simp [ihw vs h2]
            exact this want _ hx
          · exact ih ys hxs r hr
  exact aux _ rs hrs r hr

/-- … or, by default, the union of the group columns in order of first appearance -/
theorem columns_default (zero : α) (groups : List (Frame α × Nat)) (cols : List String)
    (rows : List (List (Cell α))) (h : makeTable zero groups none = some (cols, rows)) :
    cols = allCols (groups.map (·.1)) := (rows_perm_of_groups zero groups cols rows h).1

/-! ## column order of a single group -/

/-- merging keys that are new and pairwise distinct appends them in order -/
theorem dictMerge_new {β : Type} (base upd : List (String × β))
    (hnew : ∀ p ∈ upd, ∀ q ∈ base, q.1 ≠ p.1) (hnd : (upd.map (·.1)).Nodup) :
    dictMerge base upd = base ++ upd := by
  unfold dictMerge
  induction upd generalizing base with
  | nil => simp
  | cons kv rest ih =>
    simp only [List.foldl_cons]
    have hany : base.any (fun p => p.1 == kv.1) = false := by
      rw [List.any_eq_false]
      intro q hq
      simpa using hnew kv (by simp) q hq
    simp only [hany, Bool.false_eq_true, if_false]
    simp only [List.map_cons, List.nodup_cons] at hnd
    rw [ih (base ++ [kv])]
    · simp
    · intro p hp q hq
      simp only [List.mem_append, List.mem_singleton] at hq
      rcases hq with hq | rfl
      · exact hnew p (by simp [hp]) q hq
      · intro he
        exact hnd.1 (by rw [he]; exact List.mem_map_of_mem hp)
    · exact hnd.2

/-- default column order of a group without location properties (either variant of the code; here the old
one): date, longitude, latitude, depth, then the attributes -/
theorem single_release_default_order (date lon lat depth : List (Cell α)) (attrs : Frame α)
    (hnd : (attrs.map (·.1)).Nodup)
    (hres : ∀ p ∈ attrs, p.1 ≠ "date" ∧ p.1 ≠ "longitude" ∧ p.1 ≠ "latitude" ∧ p.1 ≠ "depth") :
    (singleRelease .locFirst date [("longitude", lon), ("latitude", lat)] [("depth", depth)] attrs []).map (·.1)
      = ["date", "longitude", "latitude", "depth"] ++ attrs.map (·.1) := by
  simp only [singleRelease]
  have e1 : dictMerge [("date", date)] [("longitude", lon), ("latitude", lat)]
      = [("date", date), ("longitude", lon), ("latitude", lat)] := by
    rw [dictMerge_new] <;> simp
  have e2 : dictMerge [("depth", depth)] attrs = ("depth", depth) :: attrs := by
    rw [dictMerge_new _ _ _ hnd]
    · rfl
    · intro p hp q hq
      simp only [List.mem_singleton] at hq
      subst hq
      exact fun h => (hres p hp).2.2.2 h.symm
  have e3 : dictMerge (("depth", depth) :: attrs) ([] : Frame α) = ("depth", depth) :: attrs := by
    simp [dictMerge]
  rw [e1, e2, e3, dictMerge_new]
  · simp
  · intro p hp q hq
    simp only [List.mem_cons, List.not_mem_nil, or_false] at hp hq
    rcases hp with rfl | hp
    · rcases hq with rfl | rfl | rfl <;> simp
    · have := hres p hp
      rcases hq with rfl | rfl | rfl
      · exact fun h => this.1 h.symm
      · exact fun h => this.2.1 h.symm
      · exact fun h => this.2.2.1 h.symm
  · simp only [List.map_cons, List.nodup_cons]
    refine ⟨?_, hnd⟩
    intro hm
    obtain ⟨p, hp, he⟩ := List.mem_map.mp hm
    exact (hres p hp).2.2.2 he

/-- `{**base, **upd}` keeps the keys of `base` in place: the result's keys are those of `base` followed by
the new ones -/
theorem dictMerge_keys_prefix {β : Type} (base upd : List (String × β)) :
    ∃ rest, (dictMerge base upd).map (·.1) = base.map (·.1) ++ rest := by
  unfold dictMerge
  induction upd generalizing base with
  | nil => exact ⟨[], by simp⟩
  | cons kv rest ih =>
    simp only [List.foldl_cons]
    by_cases h : base.any (fun p => p.1 == kv.1)
    · simp only [h, if_true]
      obtain ⟨r, hr⟩ := ih (base.map (fun p => if p.1 == kv.1 then (p.1, kv.2) else p))
      refine ⟨r, ?_⟩
      rw [hr]
      congr 1
      rw [List.map_map]
      apply List.map_congr_left
      intro p _
      show ((fun x => x.1) ∘ fun p => if (p.1 == kv.1) = true then (p.1, kv.2) else p) p = p.1
      simp only [Function.comp]
      split <;> rfl
    · simp only [h, Bool.false_eq_true, if_false]
      obtain ⟨r, hr⟩ := ih (base ++ [kv])
      exact ⟨kv.1 :: r, by rw [hr]; simp⟩

/-- a frame whose first key is `k` has `k` -/
theorem lookup_head {β : Type} (f : List (String × β)) (k : String) (rest : List String)
    (h : f.map (·.1) = k :: rest) : ∃ v, lookup f k = some v := by
  cases f with
  | nil => simp at h
  | cons p ps =>
    simp only [List.map_cons, List.cons.injEq] at h
    exact ⟨p.2, by simp [lookup, List.find?, h.1]⟩

/-- **default column order, current code, every location form** (also GeoJSON files whose features carry
properties, and whatever the order in which the group lists `depth` among its attributes): the first four
columns are date, longitude, latitude, depth -/
theorem default_order_prefix (date lon lat depth : List (Cell α)) (loc implicit explicit : Frame α)
    (hlon : lookup loc "longitude" = some lon) (hlat : lookup loc "latitude" = some lat) :
    ∃ rest, (singleRelease .depthFourth date loc [("depth", depth)] implicit explicit).map (·.1)
      = ["date", "longitude", "latitude", "depth"] ++ rest := by
  unfold singleRelease
  obtain ⟨r1, h1⟩ := dictMerge_keys_prefix [("depth", depth)] implicit
  obtain ⟨r2, h2⟩ := dictMerge_keys_prefix (dictMerge [("depth", depth)] implicit) explicit
  rw [h1] at h2
  obtain ⟨d, hd⟩ := lookup_head _ "depth" (r1 ++ r2) (by simpa using h2)
  simp only [hd, List.filterMap_cons, hlon, hlat, Option.map_some, List.filterMap_nil]
  obtain ⟨r3, h3⟩ := dictMerge_keys_prefix
    (("date", date) :: [("longitude", lon), ("latitude", lat)] ++ [("depth", d)])
    (loc.filter (fun p => !(p.1 == "longitude" || p.1 == "latitude")))
  obtain ⟨r4, h4⟩ := dictMerge_keys_prefix
    (dictMerge (("date", date) :: [("longitude", lon), ("latitude", lat)] ++ [("depth", d)])
      (loc.filter (fun p => !(p.1 == "longitude" || p.1 == "latitude"))))
    (dictMerge (dictMerge [("depth", depth)] implicit) explicit)
  rw [h3] at h4
  exact ⟨r3 ++ r4, by rw [h4]; simp⟩

/-- counter-witness for the code before the `fix:` commit: a GeoJSON feature property (`region`) takes the
fourth column, and `depth` — which LADiM reads from the header-less file by position — comes fifth -/
theorem props_before_depth_fails :
    (singleRelease .locFirst [Cell.str "d"] [("longitude", [Cell.num (5 : Int)]), ("latitude", [Cell.num 60]),
        ("region", [Cell.num 2])] [("depth", [Cell.num 0])] [("w", [Cell.num 1])] []).map (·.1)
      = ["date", "longitude", "latitude", "region", "depth", "w"] := by decide

/-- … and the current code on the same input -/
theorem props_after_depth :
    (singleRelease .depthFourth [Cell.str "d"] [("longitude", [Cell.num (5 : Int)]), ("latitude", [Cell.num 60]),
        ("region", [Cell.num 2])] [("depth", [Cell.num 0])] [("w", [Cell.num 1]), ("depth", [Cell.num 3])] []).map (·.1)
      = ["date", "longitude", "latitude", "depth", "region", "w"] := by decide

/-- non-vacuity: two groups, the second lacks the attribute `w` of the first -/
example :
    makeTable (0 : Int)
      [([("date", [Cell.str "b"]), ("w", [Cell.num 7])], 1), ([("date", [Cell.str "a", Cell.str "c"])], 2)] none
    = some (["date", "w"], [[Cell.str "a", Cell.num 0], [Cell.str "b", Cell.num 7], [Cell.str "c", Cell.num 0]]) := by
  decide

end C01
