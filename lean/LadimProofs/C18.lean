import LadimProofs.Basic
import LadimProofs.C01
import LadimModel.Release.Table
/-!
# C18 — release generation is reproducible, whatever way the config is supplied

Modelled: `load_config` normalisation (flat / list / grouped containers, global keys) and validation
(missing necessary keys → error naming them), and table assembly as a *function* of the normalised
groups and the draw stream.  Not in the model (correspondence only, see DESIGN 3/C18): YAML parsing,
`to_csv` float formatting, the command line.
-/
open Ladim.Table
set_option linter.unusedVariables false

namespace C18

/-- the flat container is the grouped container with the global keys split off -/
theorem flat_eq_grouped (keys : List String) :
    normalise (.flat keys) =
      normalise (.grouped (keys.filter (fun k => globalKeys.contains k))
        [⟨keys.filter (fun k => !globalKeys.contains k)⟩]) := rfl

/-- a list of groups is the grouped container without global keys -/
theorem list_eq_grouped (gs : List RawGroup) : normalise (.list gs) = normalise (.grouped [] gs) := rfl

/-- containers with the same normal form are validated alike … -/
theorem validate_congr (c₁ c₂ : Container) (h : (normalise c₁).2 = (normalise c₂).2) :
    validate c₁ = validate c₂ := by
  unfold validate; rw [h]

/-- … and, the table being a function of (groups, draws, columns), yield the same table -/
theorem containers_agree {α : Type} (zero : α) (g₁ g₂ : List (Frame α × Nat)) (cols : Option (List String))
    (h : g₁ = g₂) : makeTable zero g₁ cols = makeTable zero g₂ cols := by rw [h]

theorem missing_spec (g : RawGroup) (k : String) :
    k ∈ missing g ↔ (k ∈ necessary ∧ k ∉ g.keys) := by
  unfold missing
  simp [List.mem_filter]

/-- a configuration is accepted iff every group has all of `date`, `location`, `num` -/
theorem validate_none_iff (c : Container) :
    validate c = none ↔ ∀ g ∈ (normalise c).2, ∀ k ∈ necessary, k ∈ g.keys := by
  unfold validate
  simp only []
  set gs := (normalise c).2
  constructor
  · intro h g hg k hk
    by_contra hn
    have hm : k ∈ missing g := (missing_spec g k).mpr ⟨hk, hn⟩
    split_ifs at h with he
    rw [List.isEmpty_iff] at he
    obtain ⟨i, hi, hgi⟩ := List.getElem_of_mem hg
    have hmem : (i, missing g) ∈ (List.range gs.length).zip (gs.map missing) := by
      rw [List.mem_iff_getElem]
      refine ⟨i, by simp [hi], ?_⟩
      simp [hgi]
    have : (i, missing g) ∈ ((List.range gs.length).zip (gs.map missing)).filter (fun m => !m.2.isEmpty) := by
      rw [List.mem_filter]
      refine ⟨hmem, ?_⟩
      cases hmm : missing g with
      | nil => rw [hmm] at hm; simp at hm
      | cons a as => simp
    rw [he] at this
    simp at this
  · intro h
    have : ((List.range gs.length).zip (gs.map missing)).filter (fun m => !m.2.isEmpty) = [] := by
      rw [List.filter_eq_nil_iff]
      rintro ⟨i, ms⟩ hmem
      have h2 := (List.of_mem_zip hmem).2
      simp only [List.mem_map] at h2
      obtain ⟨g, hg, rfl⟩ := h2
      have : missing g = [] := by
        rw [List.eq_nil_iff_forall_not_mem]
        intro k hk
        have := (missing_spec g k).mp hk
        exact this.2 (h g hg k this.1)
      simp [this]
    simp [this]

/-- an invalid configuration is rejected with an error that lists, per offending group, exactly the
missing keys — and no table is produced -/
theorem invalid_rejected (c : Container) (bad : List (Nat × List String)) (h : validate c = some bad) :
    bad ≠ [] ∧ ∀ m ∈ bad, m.2 ≠ [] ∧
      ∃ g, (normalise c).2[m.1]? = some g ∧ m.2 = missing g := by
  unfold validate at h
  simp only [] at h
  set gs := (normalise c).2
  split_ifs at h with he
  simp only [Option.some.injEq] at h
  subst h
  refine ⟨by rwa [List.isEmpty_iff] at he, ?_⟩
  rintro ⟨i, ms⟩ hm
  rw [List.mem_filter] at hm
  obtain ⟨hz, hne⟩ := hm
  refine ⟨by simpa [List.isEmpty_iff] using hne, ?_⟩
  rw [List.mem_iff_getElem] at hz
  obtain ⟨j, hj, hzj⟩ := hz
  simp only [List.getElem_zip, List.getElem_range, List.getElem_map, Prod.mk.injEq] at hzj
  obtain ⟨rfl, rfl⟩ := hzj
  simp only [List.length_zip, List.length_range, List.length_map, min_self] at hj
  exact ⟨gs[j], by simp [hj], rfl⟩

/-- non-vacuity -/
example : validate (.flat ["num", "date", "seed"]) = some [(0, ["location"])] := by decide
example : validate (.list [⟨["date", "location", "num"]⟩, ⟨["num"]⟩]) = some [(1, ["date", "location"])] := by decide
example : validate (.flat ["num", "date", "location", "depth", "columns"]) = none := by decide

end C18
