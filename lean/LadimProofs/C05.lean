import LadimProofs.Basic
import LadimModel.IBM.Chemicals
import LadimModel.IBM.Sedimentation
import LadimModel.IBM.Bio
/-!
# C05 — particles stay inside the water column / the module's depth band

All statements are over an arbitrary linear ordered field `α` (exact arithmetic), for every value of
the draws, every depth `H ≥ 0`, every configuration.  The preconditions are exactly the ones the
property names ("a single random vertical step is smaller than the local water depth where only one
reflection is applied"); where the proof forces an additional one it is stated, and the excluded
region is witnessed by a `…_fails` theorem.
-/
open Ladim

set_option linter.unusedSectionVars false
set_option linter.unusedVariables false
namespace C05
variable {α : Type} [Field α] [LinearOrder α] [IsStrictOrderedRing α]

/-- band predicate -/
def InBand (H z : α) : Prop := 0 ≤ z ∧ z ≤ H

/-! ## chemicals -/
section chemicals
open Ladim.Chemicals
variable [HasSqrt α] [HasFloor α] [HasRound α]

/-- one reflection is enough when the pre-reflection depth is within one water depth of the band -/
theorem reflect_band (H z : α) (h1 : -H ≤ z) (h2 : z ≤ 2 * H) : InBand H (reflect H z) := by
  unfold InBand reflect
  norm_num
  split_ifs <;> constructor <;> linarith

theorem reflectPred_band (H z : α) (h1 : -H ≤ z) (h2 : z ≤ 2 * H) : InBand H (reflectPred H z) := by
  unfold InBand reflectPred
  norm_num
  split_ifs <;> constructor <;> linarith

/-- a particle in the band displaced by less than the water depth is reflected back into the band -/
theorem reflect_disp_band (H z d : α) (hz : InBand H z) (hd : |d| ≤ H) :
    InBand H (reflect H (z + d)) := by
  obtain ⟨h0, h1⟩ := hz
  have := abs_le.mp hd
  exact reflect_band H (z + d) (by linarith) (by linarith)

theorem reflectPred_disp_band (H z d : α) (hz : InBand H z) (hd : |d| ≤ H) :
    InBand H (reflectPred H (z + d)) := by
  obtain ⟨h0, h1⟩ := hz
  have := abs_le.mp hd
  exact reflectPred_band H (z + d) (by linarith) (by linarith)

/-- `advect`: vertical advection step smaller than the depth keeps the particle in the band -/
theorem advect_band (dt H w z : α) (hz : InBand H z) (hd : |dt * w| ≤ H) :
    InBand H (advect dt H w z) := reflect_disp_band H z _ hz hd

/-- `diffuse_const`: every draw `u` whose step is smaller than the depth -/
theorem diffuseConst_band (dt D H u z : α) (hz : InBand H z)
    (hd : |sqrt (2.0 * D) * uniformDW u dt| ≤ H) :
    InBand H (diffuseConst dt D H u z) := reflect_disp_band H z _ hz hd

/-- one LaBolle sub-step: only the *corrector* displacement has to be smaller than the depth
(the predictor's own reflection never leaves an out-of-band value in the state) -/
theorem labolleSub_band (K : α → α) (vmax dz H ddt u z : α) (hz : InBand H z)
    (hd : ∀ zz, |sqrt (2.0 * fmin (K (zCoarse dz zz)) vmax) * uniformDW u ddt| ≤ H) :
    InBand H (labolleSub K vmax dz H ddt u z) := by
  unfold labolleSub
  exact reflect_disp_band H z _ hz (hd _)

/-- `diffuse_labolle`: any number of sub-steps, any draws -/
theorem diffuseLabolle_band (K : α → α) (vmax dz H : α) (ds us : List α) (z : α) (hz : InBand H z)
    (hd : ∀ ddt ∈ ds, ∀ u ∈ us, ∀ zz,
      |sqrt (2.0 * fmin (K (zCoarse dz zz)) vmax) * uniformDW u ddt| ≤ H) :
    InBand H (diffuseLabolle K vmax dz H ds us z) := by
  induction ds generalizing us z with
  | nil => simpa [diffuseLabolle] using hz
  | cons ddt ds ih =>
    cases us with
    | nil => simpa [diffuseLabolle] using hz
    | cons u us =>
      simp only [diffuseLabolle]
      apply ih
      · exact labolleSub_band K vmax dz H ddt u z hz
          (fun zz => hd ddt (by simp) u (by simp) zz)
      · intro d hdm v hv zz
        exact hd d (by simp [hdm]) v (by simp [hv]) zz

/-- amplitude form of the step bound: for `u ∈ [0,1)`, `|a * ((2u-1) * b)| ≤ a * b` -/
theorem uniform_step_le (a b u : α) (ha : 0 ≤ a) (hb : 0 ≤ b) (hu0 : 0 ≤ u) (hu1 : u < 1) :
    |a * ((u * 2 - 1) * b)| ≤ a * b := by
  rw [abs_le]
  have hab := mul_nonneg ha hb
  constructor <;> nlinarith [mul_nonneg hab hu0, mul_nonneg hab (sub_nonneg.mpr hu1.le)]

/-- vertical part of `update_ibm` at a fixed horizontal position (advection, then the configured
mixing): stays in the band of that position. -/
theorem vertical_band (c : Config α) (e : Env α) (d : Draws α) (x y z : α)
    (hz : InBand (e.depth x y) z)
    (hadv : c.vertadv = true → |c.dt * e.wvel x y z| ≤ e.depth x y)
    (hconst : ∀ D, c.mix = .const D → ∀ u, |sqrt (2.0 * D) * uniformDW u c.dt| ≤ e.depth x y)
    (hlab : ∀ vdt dz vmax, c.mix = .labolle vdt dz vmax → ∀ ddt u zz,
      |sqrt (2.0 * fmin (e.vdiff x y (zCoarse dz zz)) vmax) * uniformDW u ddt| ≤ e.depth x y) :
    InBand (e.depth x y) (vertical c e d x y z) := by
  unfold vertical
  have hz1 : InBand (e.depth x y) (if c.vertadv then advect c.dt (e.depth x y) (e.wvel x y z) z else z) := by
    split_ifs with h
    · exact advect_band _ _ _ _ hz (hadv h)
    · exact hz
  cases hm : c.mix with
  | none => simpa using hz1
  | const D => exact diffuseConst_band _ _ _ _ _ hz1 (hconst D hm _)
  | labolle vdt dz vmax =>
    exact diffuseLabolle_band _ _ _ _ _ _ _ hz1 (fun ddt _ u _ zz => hlab vdt dz vmax hm ddt u zz)

/-- horizontal part (`horzdiff` + `clamp_to_seabed`): whatever the horizontal move, the depth ends
in the band of the *new* position. -/
theorem horizontal_band (c : Config α) (e : Env α) (d : Draws α) (x y z : α) (al : Bool)
    (hdep : ∀ x y, 0 ≤ e.depth x y) (hz : InBand (e.depth x y) z) :
    InBand (e.depth (horizontal c e d x y z al).1 (horizontal c e d x y z al).2.1)
      (horizontal c e d x y z al).2.2.1 := by
  unfold horizontal
  cases hh : c.horz with
  | none => simpa using hz
  | some hm =>
    obtain ⟨hmin, hmax⟩ := hm
    simp only []
    split_ifs <;> simp only [] <;> unfold InBand fmin <;> split_ifs <;>
      constructor <;> first | exact hdep _ _ | exact hz.1 | exact le_refl _ | (apply le_of_not_gt; assumption)

/-- the clamp that follows the collision handler puts the (possibly re-seeded) particle into the band of
its new position, whatever that position is -/
theorem collision_clamp_band (H z : α) (hH : 0 ≤ H) (hz : 0 ≤ z) : InBand H (fmin z H) := by
  unfold InBand fmin
  split_ifs with h
  · exact ⟨hH, le_refl H⟩
  · exact ⟨hz, not_lt.mp h⟩

/-- FULL STATEMENT for chemicals `update_ibm`: the new depth is in the band of the new position — with or
without a collision handler that re-seeds the particle horizontally, with or without horizontal diffusion —
for every draw whose single vertical step is smaller than the local depth.  The particle only has to start in
the band *of its own position* (`hz`); the handler may move it anywhere (`d.stuck`, `d.repX`, `d.repY`
arbitrary) provided the clamp follows it (`hcl`: the code since the `fix:` commit 28c3e2b; without a handler
`d.stuck = false`). -/
theorem update_band (c : Config α) (e : Env α) (d : Draws α) (p : Particle α)
    (hdep : ∀ x y, 0 ≤ e.depth x y)
    (hz : InBand (e.depth p.x p.y) p.z)
    (hcl : c.collisionClamp = true ∨ d.stuck = false)
    (hadv : ∀ x y z, |c.dt * e.wvel x y z| ≤ e.depth x y)
    (hconst : ∀ D u x y, |sqrt (2.0 * D) * uniformDW u c.dt| ≤ e.depth x y)
    (hlab : ∀ x y dz vmax ddt u zz,
      |sqrt (2.0 * fmin (e.vdiff x y (zCoarse dz zz)) vmax) * uniformDW u ddt| ≤ e.depth x y) :
    InBand (e.depth (update c e d p).x (update c e d p).y) (update c e d p).z := by
  have key : ∀ x y z, InBand (e.depth x y) z → InBand (e.depth x y) (vertical c e d x y z) := fun x y z hzz =>
    vertical_band c e d x y z hzz (fun _ => hadv x y _) (fun D _ u => hconst D u x y)
      (fun _ dz vmax _ ddt u zz => hlab x y dz vmax ddt u zz)
  -- the depth handed to the vertical part is in the band of the position after the handler
  have h0 : InBand
      (e.depth (if d.stuck then reseed p.x d.repX else p.x) (if d.stuck then reseed p.y d.repY else p.y))
      (if c.collisionClamp then fmin p.z
        (e.depth (if d.stuck then reseed p.x d.repX else p.x) (if d.stuck then reseed p.y d.repY else p.y))
       else p.z) := by
    by_cases hc : c.collisionClamp = true
    · simp only [hc, if_true]
      exact collision_clamp_band _ _ (hdep _ _) hz.1
    · have hs : d.stuck = false := by
        rcases hcl with h | h
        · exact absurd h hc
        · exact h
      simp only [hc, hs, Bool.false_eq_true, if_false]
      exact hz
  unfold update
  simp only []
  cases c.lifespan <;> exact horizontal_band c e d _ _ _ _ hdep (key _ _ _ h0)

/-- why the clamp after the collision handler is needed (the behaviour before the `fix:` commit 28c3e2b):
without the clamp, vertical advection, mixing and horizontal diffusion the update keeps the depth while the
handler moves the particle horizontally — to shallower water if the bed rises there
(`horzdiff_without_clamp_fails` below gives such a bed and depth). -/
theorem reposition_without_clamp_keeps_depth (c : Config α) (e : Env α) (d : Draws α) (p : Particle α)
    (hc : c.collisionClamp = false) (hv : c.vertadv = false) (hm : c.mix = .none) (hh : c.horz = none) :
    (update c e d p).z = p.z ∧ (update c e d p).x = (if d.stuck then reseed p.x d.repX else p.x) := by
  unfold update vertical horizontal
  simp only [hc, hv, hm, hh, Bool.false_eq_true, if_false]
  cases c.lifespan <;> exact ⟨rfl, rfl⟩

/-- why the clamp is needed (the behaviour before the `fix:` commit): a horizontal move to shallower
water *after* the last reflection leaves the particle below the new bed.  Witness over ℚ: depth
50 m at x ≤ 10, 5 m beyond; Z = 30. -/
theorem horzdiff_without_clamp_fails :
    ∃ (depth : ℚ → ℚ) (x x' z : ℚ), InBand (depth x) z ∧ ¬ InBand (depth x') z :=
  ⟨fun x => if x ≤ 10 then 50 else 5, 10, 11, 30, by unfold InBand; norm_num, by unfold InBand; norm_num⟩

end chemicals

/-! ## sedimentation / mine -/
section sediment
open Ladim.Sed
variable [HasSqrt α]

/-- `bury` never leaves an active particle below the bed -/
theorem bury_le_H (H z : α) (a : Nat) (ha : a ≠ 0) : (bury H a z).1 ≤ H := by
  unfold bury
  simp only [ha, if_false]
  split_ifs with h
  · exact le_refl H
  · exact not_lt.mp h

theorem bury_nonneg (H z : α) (a : Nat) (hH : 0 ≤ H) (hz : 0 ≤ z) : 0 ≤ (bury H a z).1 := by
  unfold bury
  split_ifs <;> simp_all

/-- constant mixing with both mirrors: in band whenever the displaced depth is within one water
depth of the band -/
theorem mixConst_band (v h dt xi z : α) (h1 : -h ≤ z + sqrt (2.0 * v) * (xi * sqrt dt))
    (h2 : z + sqrt (2.0 * v) * (xi * sqrt dt) ≤ 2 * h) :
    C05.InBand h (mixConst v h dt xi z) := by
  unfold C05.InBand mixConst
  norm_num
  norm_num at h1 h2
  split_ifs <;> constructor <;> linarith

/-- constant mixing: never above the surface when the displaced depth is at most `2h`
(the surface mirror handles every upward excursion; only the bottom mirror can overshoot) -/
theorem mixConst_nonneg (v h dt xi z : α)
    (h2 : |z + sqrt (2.0 * v) * (xi * sqrt dt)| ≤ 2 * h) :
    0 ≤ mixConst v h dt xi z := by
  unfold mixConst
  have := abs_le.mp h2
  norm_num
  norm_num at this
  split_ifs <;> linarith

/-- bounded-linear mixing: *unconditional* in the draw — never above the surface (absorbed at the
bed, mirrored at the surface; needs only `0 ≤ h`).  NOTE (found by the proof attempt): the upper
bound `≤ h` does *not* hold for this function alone — a large upward step mirrored at the surface
can end below the bed; it is `bury`, applied later in the same update, that restores `Z ≤ H`. -/
theorem mixBoundedLinear_nonneg (m h dt us xi z : α) (hh : 0 ≤ h) :
    0 ≤ mixBoundedLinear m h dt us xi z := by
  unfold mixBoundedLinear
  simp only []
  norm_num
  split_ifs <;> linarith

/-- the witness for the note above: z = 1, h = 2, draw −10 ⇒ mirrored to 9 > h (over ℚ with any
`sqrt`; here `us = 0` so the square root argument is irrelevant: `sqrt` is applied to `2*m/dt`). -/
theorem mixBoundedLinear_can_exceed_h :
    ∃ (sq : ℚ → ℚ), letI : HasSqrt ℚ := ⟨sq⟩
      ¬ (mixBoundedLinear (1 : ℚ) 2 1 0 (-10) 1 ≤ 2) := by
  refine ⟨fun _ => 1, ?_⟩
  unfold mixBoundedLinear fmax
  norm_num [HasSqrt.sqrt]

theorem mixMine_nonneg (v dt xi z : α) : 0 ≤ mixMine v dt xi z := by
  unfold mixMine
  norm_num
  split_ifs <;> linarith

/-- whole sedimentation update: a particle in the band stays in the band provided the sinking
velocity is non-negative and, for constant mixing, the mixing step is smaller than the depth. -/
theorem sed_update_band (c : Config α) (e : Env α) (xi : α) (p : Particle α)
    (hH : 0 ≤ e.H) (hz : C05.InBand e.H p.z) (hdt : 0 ≤ c.dt)
    (hsv : 0 ≤ p.sinkVel) (hns : 0 ≤ e.newSink)
    (hmix : ∀ v, c.mixing = .const v → |p.z + sqrt (2.0 * v) * (xi * sqrt c.dt)| ≤ 2 * e.H) :
    C05.InBand e.H (update c e xi p).z := by
  obtain ⟨hz0, hz1⟩ := hz
  unfold update
  simp only []
  set a1 := c.carrier.store (resuspend e p.active) with ha1
  set sv := (if isZero p.sinkVel then e.newSink else p.sinkVel) with hsvdef
  have hsv' : 0 ≤ sv := by rw [hsvdef]; split_ifs <;> assumption
  by_cases h0 : a1 = 0
  · -- settled particle: untouched
    simp only [diffuse, sink, bury, h0, if_true]
    exact ⟨hz0, hz1⟩
  · have hd : 0 ≤ diffuse c e xi a1 p.z := by
      unfold diffuse
      simp only [h0, if_false]
      cases hm : c.mixing with
      | none => exact hz0
      | const v => exact mixConst_nonneg v e.H c.dt xi p.z (hmix v hm)
      | boundedLinear m => exact mixBoundedLinear_nonneg m e.H c.dt _ xi p.z hH
    have hs : 0 ≤ sink c.dt sv a1 (diffuse c e xi a1 p.z) := by
      unfold sink
      simp only [h0, if_false]
      have := mul_nonneg hdt hsv'
      linarith [hd]
    exact ⟨bury_nonneg _ _ _ hH hs, bury_le_H _ _ _ h0⟩

/-- mine update: in band if the total vertical velocity is non-negative -/
theorem mine_update_band (c : Mine.Config α) (e : Mine.Env α) (xi : α) (p : Particle α)
    (hH : 0 ≤ e.H) (hz : C05.InBand e.H p.z) (hdt : 0 ≤ c.dt)
    (hw : 0 ≤ (if c.vadv then p.sinkVel + e.w else p.sinkVel)) :
    C05.InBand e.H (Mine.update c e xi p).z := by
  obtain ⟨hz0, hz1⟩ := hz
  unfold Mine.update
  simp only []
  set act0 := (if c.hasActive then p.active else 1)
  set a1 := Mine.resusp c e act0 with ha1
  by_cases h0 : a1 = 0
  · simp only [sink, bury, h0, if_true]
    exact ⟨hz0, hz1⟩
  · simp only [h0, if_false]
    have hm := mixMine_nonneg c.vdiff c.dt xi p.z
    have hs : 0 ≤ sink c.dt (if c.vadv then p.sinkVel + e.w else p.sinkVel) a1 (mixMine c.vdiff c.dt xi p.z) := by
      unfold sink
      simp only [h0, if_false]
      have := mul_nonneg hdt hw
      linarith
    exact ⟨bury_nonneg _ _ _ hH hs, bury_le_H _ _ _ h0⟩

end sediment

/-! ## egg, salmon lice, larvae, saithe, sand eel, eel, shrimp, vps -/
section bio
open Ladim.Bio

/-- egg `[0, 200)` and lice `[0, 20)`: unconditional in the velocity, hence in every draw -/
theorem mirrorCap_band (cap capm1 z : α) (h0 : 0 ≤ capm1) (h1 : capm1 < cap) :
    0 ≤ mirrorCap cap capm1 z ∧ mirrorCap cap capm1 z < cap := by
  unfold mirrorCap
  norm_num
  split_ifs <;> constructor <;> linarith

variable [HasSqrt α] [HasExp α] [HasLog α] [HasSin α] [HasCos α] [HasAsin α] [HasRpow α] [HasPi α]

theorem eggZ_band (D dt diam temp salt buoy : α) (xi : Option α) (z : α) :
    0 ≤ eggZ D dt diam temp salt buoy xi z ∧ eggZ D dt diam temp salt buoy xi z < 200 := by
  unfold eggZ
  have := mirrorCap_band (200.0 : α) 199.0
    (z + (match xi with
      | none => Gen.egg_velocity temp salt buoy diam
      | some r => Gen.egg_velocity temp salt buoy diam + diffVel D dt r) * dt) (by norm_num) (by norm_num)
  norm_num at this ⊢
  exact this

theorem lice_band (D dt sdt mf k sv temp salt l0 r : α) (xi : Option α) (p : Lice α) :
    0 ≤ (liceUpdate D dt sdt mf k sv temp salt l0 r xi p).z ∧
      (liceUpdate D dt sdt mf k sv temp salt l0 r xi p).z < 20 := by
  unfold liceUpdate
  simp only []
  have h := fun w : α => mirrorCap_band (20.0 : α) 19.0 (p.z + w * dt) (by norm_num) (by norm_num)
  norm_num at h ⊢
  exact h _

/-- larvae: `max(min(Z, max_depth), min_depth)` — unconditional -/
theorem clipDepth_band (lo hi z : α) (h : lo ≤ hi) :
    lo ≤ clipDepth lo hi z ∧ clipDepth lo hi z ≤ hi := by
  unfold clipDepth fmax fmin
  split_ifs <;> constructor <;> linarith

/-- the end of the larvae / saithe vertical movement keeps **every** particle at or below the surface and
larvae in their band: larvae-module particles and saithe larvae end in `[min_depth, max_depth]`, saithe
eggs (which the band does not bind) at a depth `≥ 0` (since the `fix:` commit 8460773; before it a buoyant
egg near the surface ended at a negative depth) — whatever the raw displacement, i.e. for every draw and
forcing value -/
theorem larva_final_band (c : Bio.LarvaCfg α) (isEgg : Bool) (z : α) (h : c.minDepth ≤ c.maxDepth)
    (h0 : 0 ≤ c.minDepth) :
    0 ≤ Bio.larvaFinalZ c isEgg z ∧
    ((c.clipEggs = true ∨ isEgg = false) →
      c.minDepth ≤ Bio.larvaFinalZ c isEgg z ∧ Bio.larvaFinalZ c isEgg z ≤ c.maxDepth) := by
  unfold Bio.larvaFinalZ
  split_ifs with hc
  · refine ⟨?_, fun hh => ?_⟩
    · unfold fmax; lits
      split_ifs with hlt
      · exact le_refl _
      · exact not_lt.mp hlt
    · exfalso
      simp only [Bool.and_eq_true, Bool.not_eq_true'] at hc
      rcases hh with hh | hh
      · rw [hc.2] at hh; exact Bool.noConfusion hh
      · rw [hc.1] at hh; exact Bool.noConfusion hh
  · have hb := clipDepth_band c.minDepth c.maxDepth z h
    exact ⟨le_trans h0 hb.1, fun _ => hb⟩

/-- … and the depth after `update_ibm` is such an end value -/
theorem larva_update_z_final [HasNarrow α] [HasSqrt α] [HasExp α] [HasRpow α] [HasLog α] (c : Bio.LarvaCfg α)
    (temp salt buoy l0 : α) (xi : Option α) (p : Bio.Larva α) :
    ∃ zraw, (Bio.larvaUpdate c temp salt buoy l0 xi p).z = Bio.larvaFinalZ c (decide (p.age ≤ c.hatchDay)) zraw :=
  ⟨_, rfl⟩

/-- saithe larvae: `np.clip(Z, min_depth, max_depth)` -/
theorem npClip_band (lo hi z : α) (h : lo ≤ hi) : lo ≤ npClip lo hi z ∧ npClip lo hi z ≤ hi := by
  unfold npClip fmax fmin
  split_ifs <;> constructor <;> linarith

/-- sand eel / eel `reflexive`: unconditional in the displacement -/
theorem reflexive_band (rmin rmax r : α) (h : rmin ≤ rmax) :
    rmin ≤ reflexive rmin rmax r ∧ reflexive rmin rmax r ≤ rmax := by
  unfold reflexive
  exact npClip_band _ _ _ h

theorem sandeelZ_band (D dt maxdepth H xi z : α) (hm : 0 ≤ maxdepth) (hH : 0 ≤ H) :
    0 ≤ sandeelZ D dt maxdepth H xi z ∧ sandeelZ D dt maxdepth H xi z ≤ H ∧
      sandeelZ D dt maxdepth H xi z ≤ maxdepth := by
  unfold sandeelZ
  have hmin : (0 : α) ≤ fmin maxdepth H := by unfold fmin; split_ifs <;> assumption
  have h := reflexive_band (0.0 : α) (fmin maxdepth H) (z + xi * sqrt (2.0 * D * dt)) (by norm_num; exact hmin)
  have h1 : fmin maxdepth H ≤ H := by unfold fmin; split_ifs <;> linarith
  have h2 : fmin maxdepth H ≤ maxdepth := by unfold fmin; split_ifs <;> linarith
  norm_num at h ⊢
  exact ⟨h.1, le_trans h.2 h1, le_trans h.2 h2⟩

theorem eelZ_band (D dt lo hi xi z : α) (h : lo ≤ hi) :
    lo ≤ eelZ D dt lo hi xi z ∧ eelZ D dt lo hi xi z ≤ hi := reflexive_band _ _ _ h

/-- shrimp `mixing`: never above the surface, for every draw -/
theorem shrimpMix_nonneg (vm dt xi z : α) : 0 ≤ shrimpMix vm dt xi z := by
  unfold shrimpMix
  norm_num
  split_ifs <;> linarith

/-- shrimp `diel_migration` as it was before the `fix:` commit (`z += dt*speed*sign(pref - z)`):
the band statement holds only when the swimming step does not exceed the distance to the preferred
depth.  The excluded region is inhabited: `migration_overshoot_fails`. -/
theorem migration_band_partial (dt speed pref z : α) (hz : 0 ≤ z) (hp : 0 ≤ pref)
    (hs : 0 ≤ dt * speed) (hstep : dt * speed ≤ |pref - z|) :
    0 ≤ shrimpMigrateUnclamped dt speed pref z ∧
      (min z pref ≤ shrimpMigrateUnclamped dt speed pref z ∧
        shrimpMigrateUnclamped dt speed pref z ≤ max z pref) := by
  unfold shrimpMigrateUnclamped fsign
  norm_num
  rcases lt_trichotomy pref z with h | h | h
  · have habs : |pref - z| = z - pref := by rw [abs_of_neg (by linarith)]; ring
    rw [habs] at hstep
    simp only [h, if_true]
    exact ⟨by linarith, Or.inr (by linarith), Or.inl (by linarith)⟩
  · subst h; simp [hz]
  · have hn : ¬ pref < z := not_lt.mpr h.le
    have habs : |pref - z| = pref - z := abs_of_pos (by linarith)
    rw [habs] at hstep
    simp only [hn, if_false, h, if_true]
    exact ⟨by linarith, Or.inl hs, Or.inr (by linarith)⟩

/-- shrimp `diel_migration` — FULL STATEMENT, for the code as it is now (step clamped to the
distance to the preferred depth): the new depth is non-negative and lies between the old depth and
the preferred depth, unconditionally in `dt * speed ≥ 0`. -/
theorem migration_band_clamped (dt speed pref z : α) (hz : 0 ≤ z) (hp : 0 ≤ pref)
    (hs : 0 ≤ dt * speed) :
    0 ≤ shrimpMigrate dt speed pref z ∧
      (min z pref ≤ shrimpMigrate dt speed pref z ∧
        shrimpMigrate dt speed pref z ≤ max z pref) := by
  unfold shrimpMigrate fsign fmin fabs
  norm_num
  rcases lt_trichotomy pref z with h | h | h
  · simp only [h, if_true]
    split_ifs <;> refine ⟨by nlinarith, ?_, ?_⟩ <;> first | (left; nlinarith) | (right; nlinarith)
  · subst h; simp [hz]
  · have hn : ¬ pref < z := not_lt.mpr h.le
    simp only [hn, if_false, h, if_true]
    split_ifs <;> refine ⟨by nlinarith, ?_, ?_⟩ <;> first | (left; nlinarith) | (right; nlinarith)

/-- counter-witness for the unclamped code: Z = 5.45 m, preferred depth 0.2 m, dt·speed = 6 m
⇒ Z' = −0.55 m, above the sea surface. -/
theorem migration_overshoot_fails :
    ¬ (0 ≤ shrimpMigrateUnclamped (600 : ℚ) (1/100) (1/5) (109/20)) := by
  unfold shrimpMigrateUnclamped fsign
  norm_num

/-- vps: `Z = uniform(0, max_depth)` -/
theorem vpsZ_band (m u : α) (hm : 0 ≤ m) (hu0 : 0 ≤ u) (hu1 : u < 1) :
    0 ≤ vpsZ m u ∧ vpsZ m u ≤ m := by
  unfold vpsZ
  norm_num
  constructor
  · exact mul_nonneg hm hu0
  · nlinarith

end bio

/-! ## histories: any number of consecutive updates -/

/-- an invariant preserved by each step is preserved by every history (fold) -/
theorem history_invariant {σ ι : Type} (Inv : σ → Prop) (step : σ → ι → σ)
    (hstep : ∀ s i, Inv s → Inv (step s i)) (s₀ : σ) (h₀ : Inv s₀) (is : List ι) :
    Inv (is.foldl step s₀) := by
  induction is generalizing s₀ with
  | nil => simpa
  | cons i is ih => exact ih _ (hstep _ _ h₀)

/-- egg: every history of updates, whatever the draws and the forcing, stays in `[0, 200)` -/
theorem egg_history [HasSqrt α] [HasExp α] [HasLog α] [HasSin α] [HasCos α] [HasAsin α] [HasRpow α]
    [HasPi α] (D dt diam : α) (z₀ : α) (h₀ : 0 ≤ z₀ ∧ z₀ < 200)
    (steps : List (α × α × α × Option α)) :
    let step := fun (z : α) (s : α × α × α × Option α) => Bio.eggZ D dt diam s.1 s.2.1 s.2.2.1 s.2.2.2 z
    0 ≤ steps.foldl step z₀ ∧ steps.foldl step z₀ < 200 :=
  history_invariant (fun z => 0 ≤ z ∧ z < 200) _ (fun z s _ => eggZ_band D dt diam _ _ _ _ z) z₀ h₀ steps

/-- sand eel over a varying bathymetry: after each update the particle is inside the band of the
position it has at that update, for every history of (depth, draw) pairs -/
theorem sandeel_history [HasSqrt α] [HasExp α] [HasLog α] [HasSin α] [HasCos α] [HasAsin α]
    [HasRpow α] [HasPi α] (D dt maxdepth : α) (hm : 0 ≤ maxdepth)
    (steps : List (α × α)) (hH : ∀ s ∈ steps, 0 ≤ s.1) (z₀ : α) (h₀ : 0 ≤ z₀ ∧ z₀ ≤ maxdepth) :
    let step := fun (z : α) (s : α × α) => Bio.sandeelZ D dt maxdepth s.1 s.2 z
    0 ≤ steps.foldl step z₀ ∧ steps.foldl step z₀ ≤ maxdepth := by
  induction steps generalizing z₀ with
  | nil => simpa using h₀
  | cons s ss ih =>
    simp only [List.foldl]
    apply ih
    · intro t ht; exact hH t (by simp [ht])
    · have := sandeelZ_band D dt maxdepth s.1 s.2 z₀ hm (hH s (by simp))
      exact ⟨this.1, this.2.2⟩

/-- non-vacuity: the hypotheses of the chemicals theorems are met by a concrete state -/
example : InBand (10 : ℚ) 3 ∧ |(4 : ℚ)| ≤ 10 := by
  unfold InBand; norm_num

end C05
