import LadimProofs.Laws
import LadimModel.Generated.Formulas
import LadimModel.IBM.Bio
/-!
# C16 — buoyancy, swimming and light/density formulas are right-signed and consistent

The formulas are the *generated* definitions (`Ladim.Gen`, regenerated from /repo on every run), so
every theorem below is re-checked against what the code says now.
-/
open Ladim
set_option linter.unusedSectionVars false
set_option linter.unusedVariables false
set_option maxHeartbeats 400000

namespace C16
variable {α : Type} [Field α] [LinearOrder α] [IsStrictOrderedRing α]
variable [HasSqrt α] [HasExp α] [HasLog α] [HasSin α] [HasCos α] [HasAsin α] [HasRpow α] [HasPi α]

/-! ## seawater density (EOS-80, one atmosphere) -/

/-- density as a polynomial in `r = √S`: `ρ = ρ_T + B·r² + C·r³ + d₀·r⁴` -/
def rhoT (t : α) : α :=
  999.842594 + (6.793952e-2 + (-9.095290e-3 + (1.001685e-4 + (-1.120083e-6 + 6.536332e-9 * t) * t) * t) * t) * t
def coefB (t : α) : α := 8.24493e-1 + (-4.0899e-3 + (7.6438e-5 + (-8.2467e-7 + 5.3875e-9 * t) * t) * t) * t
def coefC (t : α) : α := -5.72466e-3 + (1.0227e-4 + -1.6546e-6 * t) * t

theorem density_poly_form (temp salt : α) :
    Gen.eos_density temp salt =
      rhoT (temp * 1.00024) + coefB (temp * 1.00024) * salt + coefC (temp * 1.00024) * salt * sqrt salt
        + 4.8314e-4 * (salt * salt) := by
  unfold Gen.eos_density rhoT coefB coefC
  simp only []
  norm_num

/-- `B(t) ≥ 0.6` on the oceanic temperature range -/
theorem coefB_lower (t : α) (h0 : -2.01 ≤ t) (h1 : t ≤ 40.01) : 0.6 ≤ coefB t := by
  unfold coefB
  norm_num at h0 h1 ⊢
  have h2 := mul_self_nonneg t
  have h3 : t * t ≤ 1601 := by nlinarith
  have h4 : t * t * t ≤ 64100 := by nlinarith
  have h6 : 0 ≤ t * t * t * t := by nlinarith [mul_self_nonneg (t * t)]
  nlinarith

/-- `-0.0058 ≤ C(t) ≤ 0` on the oceanic temperature range -/
theorem coefC_bounds (t : α) (h0 : -2.01 ≤ t) (h1 : t ≤ 40.01) : -0.006 ≤ coefC t ∧ coefC t ≤ 0 := by
  unfold coefC
  norm_num at h0 h1 ⊢
  have h2 := mul_self_nonneg t
  have h3 : t * t ≤ 1601 := by nlinarith
  constructor <;> nlinarith [mul_self_nonneg (t - 30.9)]

/-- seawater density increases with salinity: for every `T ∈ [-2, 40]` and `0 ≤ S₁ < S₂ ≤ 42` -/
theorem density_increases_with_salinity (hS : SqrtLaws α) (temp s₁ s₂ : α)
    (ht0 : -2 ≤ temp) (ht1 : temp ≤ 40) (h0 : 0 ≤ s₁) (h12 : s₁ < s₂) (h2 : s₂ ≤ 42) :
    Gen.eos_density temp s₁ < Gen.eos_density temp s₂ := by
  rw [density_poly_form, density_poly_form]
  set t := temp * 1.00024 with htdef
  have ht0' : -2.01 ≤ t := by rw [htdef]; norm_num; norm_num at ht0; nlinarith
  have ht1' : t ≤ 40.01 := by rw [htdef]; norm_num; norm_num at ht1; nlinarith
  have hB := coefB_lower t ht0' ht1'
  obtain ⟨hC0, hC1⟩ := coefC_bounds t ht0' ht1'
  set B := coefB t
  set C := coefC t
  have hr1 := hS.sqrt_nonneg s₁
  have hr2 := hS.sqrt_nonneg s₂
  have e1 := hS.sqrt_sq s₁ h0
  have e2 := hS.sqrt_sq s₂ (by linarith)
  set r₁ := sqrt s₁
  set r₂ := sqrt s₂
  have hlt : r₁ < r₂ := by
    by_contra hcon
    have : r₂ * r₂ ≤ r₁ * r₁ := mul_self_le_mul_self hr2 (not_lt.mp hcon)
    linarith
  have hr2u : r₂ ≤ 6.5 := by
    by_contra hcon
    have h65 : (6.5 : α) < r₂ := not_le.mp hcon
    have : (6.5 : α) * 6.5 < r₂ * r₂ := mul_self_lt_mul_self (by norm_num) h65
    norm_num at this; linarith
  rw [← e1, ← e2]
  norm_num at hB hC0 hr2u ⊢
  have hd : 0 < r₂ - r₁ := by linarith
  have hsum : 0 < r₁ + r₂ := by linarith
  -- difference = (r₂ - r₁) * [ B (r₁+r₂) + C (r₁² + r₁ r₂ + r₂²) + d₀ (r₁+r₂)(r₁²+r₂²) ]
  have key : 0 < B * (r₁ + r₂) + C * (r₁ * r₁ + r₁ * r₂ + r₂ * r₂) + 48314 / 100000000 * ((r₁ + r₂) * (r₁ * r₁ + r₂ * r₂)) := by
    have hq : r₁ * r₁ + r₁ * r₂ + r₂ * r₂ ≤ 10 * (r₁ + r₂) := by nlinarith
    have hq0 : 0 ≤ r₁ * r₁ + r₁ * r₂ + r₂ * r₂ := by positivity
    have h1 : C * (r₁ * r₁ + r₁ * r₂ + r₂ * r₂) ≥ -(3 / 500) * (r₁ * r₁ + r₁ * r₂ + r₂ * r₂) := by nlinarith
    have h2 : 0 ≤ (r₁ + r₂) * (r₁ * r₁ + r₂ * r₂) := by positivity
    nlinarith
  have := mul_pos hd key
  nlinarith

/-- the independent copies of the density formula are the same function -/
theorem density_copies_equal (temp salt : α) : Gen.eos_density temp salt = Gen.egg_density temp salt := by
  unfold Gen.eos_density Gen.egg_density; rfl

/-- the viscosity expression inlined in the egg IBM equals `utils.eos.viscosity` -/
theorem viscosity_copies_equal (temp salt : α) :
    Gen.eos_viscosity temp salt = 0.001 * (1.7915 - 0.0538 * temp + 0.0007 * (temp * temp) + 0.0023 * salt) := by
  unfold Gen.eos_viscosity; ring

/-- generated from both sources: the viscosity inlined in `egg/ibm.py::update` equals `utils/eos.py::viscosity` -/
theorem viscosity_generated_copies_equal (temp salt : α) :
    Gen.egg_my_w temp salt = Gen.eos_viscosity temp salt := by
  unfold Gen.egg_my_w Gen.eos_viscosity; ring

/-- the sun-height expression of the shrimp IBM equals the one inside `surface_light` -/
theorem sunheight_copy_equal (yday hours lon lat : α) :
    Gen.shrimp_sunheight yday hours lon lat = Gen.surface_light_height yday hours lon lat := by
  unfold Gen.shrimp_sunheight Gen.surface_light_height; rfl

/-- EOS-80 check values (UNESCO 1983).  The published values are for IPTS-68 temperatures; the code
converts its input with `T68 = 1.00024·T`, so they are attained at `T = T68 / 1.00024`:
`ρ(S=0, T68=5) = 999.96675`, `ρ(35, 5) = 1027.67547`, `ρ(35, 25) = 1023.34306` (to 10⁻⁵). -/
theorem density_check_values (hS : SqrtLaws α) :
    |Gen.eos_density (5 / 1.00024 : α) 0 - 999.96675| < 1e-5 ∧
    |Gen.eos_density (5 / 1.00024 : α) 35 - 1027.67547| < 1e-5 ∧
    |Gen.eos_density (25 / 1.00024 : α) 35 - 1023.34306| < 1e-5 := by
  have hr := hS.sqrt_nonneg (35 : α)
  have e := hS.sqrt_sq (35 : α) (by norm_num)
  have hz0 : sqrt (0 : α) = 0 := by
    have h1 := hS.sqrt_nonneg (0 : α)
    have h2 := hS.sqrt_sq (0 : α) (le_refl _)
    nlinarith [mul_self_nonneg (sqrt (0 : α))]
  have hlo : (5.9160797 : α) < sqrt 35 := by
    by_contra h
    have := mul_self_le_mul_self hr (not_lt.mp h)
    norm_num at this; linarith
  have hhi : sqrt (35 : α) < 5.9160798 := by
    by_contra h
    have := mul_self_le_mul_self (by norm_num : (0 : α) ≤ 5.9160798) (not_lt.mp h)
    norm_num at this; linarith
  have e5 : (5 / 1.00024 : α) * 1.00024 = 5 := by norm_num
  have e25 : (25 / 1.00024 : α) * 1.00024 = 25 := by norm_num
  refine ⟨?_, ?_, ?_⟩
  · rw [density_poly_form, e5]; unfold rhoT coefB coefC; rw [hz0, abs_lt]; norm_num
  · rw [density_poly_form, e5]; unfold rhoT coefB coefC; rw [abs_lt]; norm_num at hlo hhi ⊢
    constructor <;> nlinarith
  · rw [density_poly_form, e25]; unfold rhoT coefB coefC; rw [abs_lt]; norm_num at hlo hhi ⊢
    constructor <;> nlinarith

/-! ## egg sinking speed -/

theorem fabs_neg (x : α) : fabs (-x) = fabs x := by
  unfold fabs; lits
  rcases lt_trichotomy x 0 with h | h | h
  · have : ¬ (-x < 0) := by linarith
    simp [h, this]
  · simp [h]
  · have : ¬ (x < 0) := by linarith
    have h' : -x < 0 := by linarith
    simp [h', this]

theorem fsign_neg (x : α) : fsign (-x) = -fsign x := by
  unfold fsign; lits
  rcases lt_trichotomy x 0 with h | h | h
  · have h1 : ¬ (-x < 0) := by linarith
    have h2 : 0 < -x := by linarith
    simp [h, h1, h2]
  · simp [h]
  · have h1 : -x < 0 := by linarith
    have h2 : ¬ (x < 0) := by linarith
    simp [h, h1, h2]

theorem fsign_pos_iff (x : α) : 0 < fsign x ↔ 0 < x := by
  unfold fsign; lits
  rcases lt_trichotomy x 0 with h | h | h
  · have : ¬ (0 < x) := by linarith
    simp [h, this]
  · simp [h]
  · have : ¬ (x < 0) := by linarith
    simp [h, this]

theorem fsign_neg_iff (x : α) : fsign x < 0 ↔ x < 0 := by
  unfold fsign; lits
  rcases lt_trichotomy x 0 with h | h | h
  · simp [h]
  · simp [h]
  · have : ¬ (x < 0) := by linarith
    simp [h, this]

/-- the sinking speed is an odd function of the density difference (larvae module's copy):
exchanging the two densities flips the sign and nothing else -/
theorem sink_speed_odd (mu a b d : α) :
    Gen.larvae_sinkvel_egg mu a b d = -Gen.larvae_sinkvel_egg mu b a d := by
  unfold Gen.larvae_sinkvel_egg
  simp only []
  have e : a - b = -(b - a) := by ring
  rw [e, fabs_neg, fsign_neg]
  lits
  split_ifs <;> ring

/-- … and zero at neutral buoyancy -/
theorem sink_speed_zero_at_neutral (mu a d : α) : Gen.larvae_sinkvel_egg mu a a d = 0 := by
  unfold Gen.larvae_sinkvel_egg fsign
  simp only [sub_self]
  lits
  simp

/-- Stokes branch (small eggs): `W = −(g d²/18μ)·Δρ`, hence lighter eggs rise (negative velocity =
decreasing depth), denser eggs sink, and the speed is monotone in the density difference -/
theorem sink_speed_stokes (mu dw de d : α)
    (hbr : d ≤ rpow ((9.0 * mu * mu) / (1025.0 * 9.81 * (fabs (dw - de) + 1.0e-16))) (1.0 / 3.0)) :
    Gen.larvae_sinkvel_egg mu dw de d = -(9.81 * (d * d) / (18 * mu)) * (dw - de) := by
  unfold Gen.larvae_sinkvel_egg
  simp only [hbr, decide_true, if_true]
  lits
  ring

theorem sink_speed_sign_stokes (mu dw de d : α) (hmu : 0 < mu) (hd : 0 < d)
    (hbr : d ≤ rpow ((9.0 * mu * mu) / (1025.0 * 9.81 * (fabs (dw - de) + 1.0e-16))) (1.0 / 3.0)) :
    (de < dw → Gen.larvae_sinkvel_egg mu dw de d < 0) ∧ (dw < de → 0 < Gen.larvae_sinkvel_egg mu dw de d) := by
  rw [sink_speed_stokes mu dw de d hbr]
  have hk : 0 < 9.81 * (d * d) / (18 * mu) := by
    have : (0 : α) < 9.81 := by norm_num
    positivity
  constructor
  · intro h; have : 0 < dw - de := by linarith
    nlinarith [mul_pos hk this]
  · intro h; have : 0 < de - dw := by linarith
    nlinarith [mul_pos hk this]

/-- Dallavalle branch (large eggs): right sign, given positive powers (`RpowLaws`); on this branch
`d > dmax ≥ 0`, so `d − 0.4·dmax > 0` -/
theorem sink_speed_sign_dallavalle (hR : RpowLaws α) (mu dw de d : α) (hmu : 0 < mu)
    (hbr : ¬ d ≤ rpow ((9.0 * mu * mu) / (1025.0 * 9.81 * (fabs (dw - de) + 1.0e-16))) (1.0 / 3.0))
    (hpos : 0 ≤ rpow ((9.0 * mu * mu) / (1025.0 * 9.81 * (fabs (dw - de) + 1.0e-16))) (1.0 / 3.0)) :
    (de < dw → Gen.larvae_sinkvel_egg mu dw de d < 0) ∧ (dw < de → 0 < Gen.larvae_sinkvel_egg mu dw de d) := by
  unfold Gen.larvae_sinkvel_egg
  simp only [hbr, decide_false, if_false, Bool.false_eq_true]
  set dmax := rpow ((9.0 * mu * mu) / (1025.0 * 9.81 * (fabs (dw - de) + 1.0e-16))) (1.0 / 3.0)
  have hd4 : 0 < d - 0.4 * dmax := by
    have := not_le.mp hbr
    norm_num; nlinarith
  have hm := hR.rpow_pos mu (-1.0 / 3.0) hmu
  have h88 : (0 : α) < 0.08825 := by norm_num
  constructor
  · intro h
    have hdiff : 0 < dw - de := by linarith
    have habs : fabs (dw - de) = dw - de := by
      unfold fabs; lits; rw [if_neg (by linarith)]
    have hsg : fsign (dw - de) = 1 := by
      unfold fsign; lits; rw [if_neg (by linarith), if_pos hdiff]
    rw [habs, hsg]
    have hp := hR.rpow_pos (dw - de) (2.0 / 3.0) hdiff
    have := mul_pos (mul_pos (mul_pos h88 hd4) hp) hm
    nlinarith
  · intro h
    have hdiff : dw - de < 0 := by linarith
    have habs : fabs (dw - de) = -(dw - de) := by
      unfold fabs; lits; rw [if_pos hdiff]
    have hsg : fsign (dw - de) = -1 := by
      unfold fsign; lits; rw [if_pos hdiff]
    rw [habs, hsg]
    have hp := hR.rpow_pos (-(dw - de)) (2.0 / 3.0) (by linarith)
    have := mul_pos (mul_pos (mul_pos h88 hd4) hp) hm
    nlinarith

/-! ## swimming directions -/
open Ladim.Bio

/-- larvae swim down (positive velocity) when the light at their depth exceeds their preference and
up when it is lower -/
theorem larva_swims_down_iff (hE : ExpLaws α) (speed desired Eb weight : α) (hs : 0 < speed) :
    (0 < larvaSwim speed desired Eb weight ↔ desired < Eb) ∧ (larvaSwim speed desired Eb weight < 0 ↔ Eb < desired) := by
  unfold larvaSwim Gen.larvae_weight_to_length
  simp only []
  have hl := hE.exp_pos (2.296 + log weight * (0.277 - log weight * 0.005128))
  have h001 : (0 : α) < 0.001 := by norm_num
  have hk : 0 < speed * (0.001 * exp (2.296 + log weight * (0.277 - log weight * 0.005128))) := by positivity
  set k := speed * (0.001 * exp (2.296 + log weight * (0.277 - log weight * 0.005128)))
  constructor
  · rw [mul_pos_iff_of_pos_left hk, fsign_pos_iff]; constructor <;> intro h <;> linarith
  · rw [show k * fsign (Eb - desired) < 0 ↔ fsign (Eb - desired) < 0 from
        ⟨fun h => by by_contra hc; have := mul_nonneg hk.le (not_lt.mp hc); linarith,
         fun h => mul_neg_of_pos_of_neg hk h⟩, fsign_neg_iff]
    constructor <;> intro h <;> linarith

/-- the light a larva reacts to is the surface light attenuated to *its own depth* with the configured
extinction coefficient (the saithe module used the surface light before the `fix:` commit) -/
theorem larva_uses_light_at_depth [HasNarrow α] (c : LarvaCfg α) (temp salt buoy l0 : α) (p : Larva α)
    (h : c.hatchDay < p.age) :
    (larvaUpdate c temp salt buoy l0 none p).z =
      clipDepth c.minDepth c.maxDepth (p.z + narrow (narrow
        (larvaSwim c.swimSpeed c.desired (l0 * exp (-c.k * p.z)) (larvaWeight c.initWeight temp c.dt p.weight))
          * narrow c.dt)) := by
  unfold larvaUpdate larvaFinalZ Gen.light_at_depth
  simp [not_le.mpr h]

/-- salmon lice: up (negative velocity) in light when the water is salty enough … -/
theorem lice_up_in_light (sv Eb salt r : α) (n : Bool) (hsv : 0 < sv) (hE : 0.01 ≤ Eb)
    (hs : 32 ≤ salt) (hr0 : 0 ≤ r) : liceW sv Eb salt r n < 0 := by
  unfold liceW
  lits
  have h1 : ¬ (salt < 28 - r * 8) := by nlinarith
  have h2 : ¬ (salt < 32 - r * 2) := by nlinarith
  simp only [hE, if_true, h1, h2, decide_false, Bool.and_false, Bool.false_eq_true, if_false]
  linarith

/-- … and down (positive) in water fresher than their tolerance, whatever the light -/
theorem lice_down_in_fresh (sv Eb salt r : α) (n : Bool) (hsv : 0 < sv) (hr0 : 0 ≤ r) (hr1 : r < 1)
    (hs : salt < 20) : 0 < liceW sv Eb salt r n := by
  unfold liceW
  lits
  have h1 : salt < 28 - r * 8 := by nlinarith
  have h2 : salt < 32 - r * 2 := by nlinarith
  cases n <;> simp [h1, h2, hsv]

theorem lice_velocity_values (sv Eb salt r : α) (n : Bool) :
    liceW sv Eb salt r n = -sv ∨ liceW sv Eb salt r n = 0 ∨ liceW sv Eb salt r n = sv := by
  unfold liceW
  lits
  split_ifs <;> simp

/-- shrimp move toward their preferred depth and never past it -/
theorem shrimp_toward_pref (dt speed pref z : α) (hs : 0 ≤ dt * speed) :
    |shrimpMigrate dt speed pref z - pref| ≤ |z - pref| := by
  unfold shrimpMigrate fsign fmin fabs
  lits
  rcases lt_trichotomy pref z with h | h | h
  · have h1 : pref - z < 0 := by linarith
    simp only [h1, if_true]
    rw [abs_of_pos (by linarith : 0 < z - pref)]
    split_ifs <;> rw [abs_le] <;> constructor <;> nlinarith
  · subst h; simp
  · have h1 : ¬ pref - z < 0 := by linarith
    have h2 : 0 < pref - z := by linarith
    simp only [h1, if_false, h2, if_true]
    rw [abs_of_neg (by linarith : z - pref < 0)]
    split_ifs <;> rw [abs_le] <;> constructor <;> nlinarith

/-! ## light -/

/-- the five-band light function of sun height `h` (degrees) and the day-band ratio
`q = sin h / sin h₁₂` -/
def bandLight (h q : α) : α :=
  if 0 ≤ h then 1500 * q + 5.76
  else if -6 ≤ h then ((5.76 - 0.048) / 6) * (6 + h) + 0.048
  else if -12 ≤ h then ((0.048 - 1.15e-4) / 6) * (12 + h) + 1.15e-4
  else if -18 ≤ h then ((1.15e-4 - 1.15e-5) / 6) * (18 + h) + 1.15e-5
  else 1.15e-5

/-- surface light stays within `[1.15e-5, 1505.76]` whenever the day-band ratio is in `[0,1]` -/
theorem band_light_bounds (h q : α) (hq0 : 0 ≤ q) (hq1 : q ≤ 1) :
    1.15e-5 ≤ bandLight h q ∧ bandLight h q ≤ 1505.76 := by
  unfold bandLight
  norm_num
  split_ifs <;> constructor <;> nlinarith

/-- continuity across the band edges: adjacent formulas agree at 0°, −6°, −12°, −18° -/
theorem band_light_continuity :
    (1500 * (0 : α) + 5.76 = ((5.76 - 0.048) / 6) * (6 + 0) + 0.048) ∧
    (((5.76 - 0.048) / 6) * (6 + (-6 : α)) + 0.048 = ((0.048 - 1.15e-4) / 6) * (12 + (-6)) + 1.15e-4) ∧
    (((0.048 - 1.15e-4) / 6) * (12 + (-12 : α)) + 1.15e-4 = ((1.15e-4 - 1.15e-5) / 6) * (18 + (-12)) + 1.15e-5) ∧
    (((1.15e-4 - 1.15e-5) / 6) * (18 + (-18 : α)) + 1.15e-5 = 1.15e-5) := by
  norm_num

/-- the masked-assignment cascade of `surface_light` as a function of height and ratio -/
def cascade (h q : α) : α :=
  let slight : α := (0.0 : α)
  let I0 : Bool := (decide (0.0 ≤ h))
  let I1 : Bool := ((decide ((-6.0) ≤ h)) && (decide (h < 0.0)))
  let I2 : Bool := ((decide ((-12.0) ≤ h)) && (decide (h < (-6.0))))
  let I3 : Bool := ((decide ((-18.0) ≤ h)) && (decide (h < (-12.0))))
  let I4 : Bool := (decide (h < (-18.0)))
  let slight : α := if I0 then ((1500.0 * q) + 5.76) else slight
  let slight : α := if I1 then ((((5.76 - 0.048) / 6.0) * (6.0 + h)) + 0.048) else slight
  let slight : α := if I2 then ((((0.048 - 0.000115) / 6.0) * (12.0 + h)) + 0.000115) else slight
  let slight : α := if I3 then ((((0.000115 - 1.15e-5) / 6.0) * (18.0 + h)) + 1.15e-5) else slight
  let slight : α := if I4 then 1.15e-5 else slight
  slight

theorem cascade_eq_band (h q : α) : cascade h q = bandLight h q := by
  unfold cascade bandLight
  simp only []
  lits
  by_cases h0 : 0 ≤ h
  · have a1 : ¬ h < 0 := not_lt.mpr h0
    have a2 : ¬ h < -6 := by linarith
    have a3 : ¬ h < -12 := by linarith
    have a4 : ¬ h < -18 := by linarith
    simp [h0, a1, a2, a3, a4]
  · have a1 : h < 0 := not_le.mp h0
    by_cases h6 : -6 ≤ h
    · have a2 : ¬ h < -6 := not_lt.mpr h6
      have a3 : ¬ h < -12 := by linarith
      have a4 : ¬ h < -18 := by linarith
      simp [h0, a1, h6, a2, a3, a4]
    · have a2 : h < -6 := not_le.mp h6
      by_cases h12 : -12 ≤ h
      · have a3 : ¬ h < -12 := not_lt.mpr h12
        have a4 : ¬ h < -18 := by linarith
        simp [h0, a1, h6, a2, h12, a3, a4]
      · have a3 : h < -12 := not_le.mp h12
        by_cases h18 : -18 ≤ h
        · have a4 : ¬ h < -18 := not_lt.mpr h18
          simp [h0, a1, h6, a2, h12, a3, h18, a4]
        · have a4 : h < -18 := not_le.mp h18
          simp [h0, a1, h6, a2, h12, a3, h18, a4]

/-- the generated `surface_light` *is* the band function of the generated sun height and day ratio -/
theorem surface_light_is_band (yday hours lon lat : α) :
    Gen.surface_light yday hours lon lat =
      bandLight (Gen.surface_light_height yday hours lon lat) (Gen.surface_light_ratio yday hours lon lat) := by
  rw [← cascade_eq_band]
  unfold Gen.surface_light Gen.surface_light_height Gen.surface_light_ratio cascade
  rfl

/-- hence: surface light is within `[1.15e-5, 1505.76]` whenever the day ratio is in `[0,1]`
(`day_ratio_unit`: that is the case when `sin h₁₂ > 0`; the `0/0` corner `sin h₁₂ = 0` at the pole in
polar night is a stated precondition) -/
theorem surface_light_bounds (yday hours lon lat : α)
    (hq0 : 0 ≤ Gen.surface_light_ratio yday hours lon lat) (hq1 : Gen.surface_light_ratio yday hours lon lat ≤ 1) :
    1.15e-5 ≤ Gen.surface_light yday hours lon lat ∧ Gen.surface_light yday hours lon lat ≤ 1505.76 := by
  rw [surface_light_is_band]
  exact band_light_bounds _ _ hq0 hq1

/-- the day-band ratio is in `[0,1]`: `sin h = a − b·cos τ ≤ a + b = sin h₁₂` for `b ≥ 0`, `|cos τ| ≤ 1` -/
theorem day_ratio_unit (a b c : α) (hb : 0 ≤ b) (hc0 : -1 ≤ c) (hc1 : c ≤ 1) (hnum : 0 ≤ a - b * c)
    (hden : 0 < a + b) : 0 ≤ (a - b * c) / (a + b) ∧ (a - b * c) / (a + b) ≤ 1 := by
  constructor
  · exact div_nonneg hnum hden.le
  · rw [div_le_one hden]; nlinarith

/-- light decays with depth as `exp(−k·depth)` -/
theorem light_decay (l0 depth k : α) : Gen.light_at_depth l0 depth k = l0 * exp (-k * depth) := by
  unfold Gen.light_at_depth; rfl

theorem light_decay_monotone (hE : ExpLaws α) (l0 k d₁ d₂ : α) (hl : 0 ≤ l0) (hk : 0 ≤ k) (hd : d₁ ≤ d₂) :
    Gen.light_at_depth l0 d₂ k ≤ Gen.light_at_depth l0 d₁ k := by
  rw [light_decay, light_decay]
  apply mul_le_mul_of_nonneg_left _ hl
  apply hE.exp_mono
  nlinarith

theorem light_decay_additive (hE : ExpLaws α) (l0 k d₁ d₂ : α) :
    Gen.light_at_depth l0 (d₁ + d₂) k = Gen.light_at_depth (Gen.light_at_depth l0 d₁ k) d₂ k := by
  simp only [light_decay]
  rw [mul_assoc, ← hE.exp_add]
  congr 2; ring

example : SqrtLaws ℝ ∧ ExpLaws ℝ ∧ RpowLaws ℝ := ⟨RealInst.sqrtLaws, RealInst.expLaws, RealInst.rpowLaws⟩

end C16
