import LadimProofs.Basic
import LadimModel.Grid.Fjord
/-!
# C12 — the fish velocity field leads every reachable sea cell to the open ocean

`Reach m n i j`: there is a walk of exactly `n` four-connected steps from a source cell (value 0 in
the initial matrix `m`) to `(i, j)` through cells inside the grid that are not obstacles (`≠ -2`).
-/
open Ladim.Fjord
set_option linter.unusedVariables false

namespace C12

/-- four-connected neighbours -/
def Adj (i j i' j' : Int) : Prop :=
  (i' = i ∧ (j' = j + 1 ∨ j' = j - 1)) ∨ (j' = j ∧ (i' = i + 1 ∨ i' = i - 1))

inductive Reach (m : Mat) : Nat → Int → Int → Prop
  | src (i j : Int) : m.inBox i j = true → m.val i j = 0 → Reach m 0 i j
  | step (n : Nat) (i j i' j' : Int) : Reach m n i j → Adj i j i' j' → m.inBox i' j' = true →
      m.val i' j' ≠ -2 → Reach m (n + 1) i' j'

/-- a well-formed initial distance matrix: only obstacles (-2), unknown (-1) and sources (0) -/
def Init (m : Mat) : Prop := ∀ i j, m.inBox i j = true → (m.val i j = -2 ∨ m.val i j = -1 ∨ m.val i j = 0)

/-- `n` is the length of a shortest sea path from the sources to `(i, j)` -/
def IsDist (m : Mat) (n : Nat) (i j : Int) : Prop := Reach m n i j ∧ ∀ n' < n, ¬ Reach m n' i j

end C12
