import LadimProofs.C19
open Ladim Ladim.Post
set_option linter.unusedSectionVars false
namespace C19
variable {α : Type} [Field α] [LinearOrder α] [IsStrictOrderedRing α]

/-! ## weighted histogram -/

theorem foldl_add_eq_sum (l : List α) (a : α) : List.foldl (· + ·) a l = a + l.sum := by
  induction l generalizing a with
  | nil => simp
  | cons x xs ih => simp only [List.foldl_cons, List.sum_cons, ih]; ring

theorem foldl_add_lit_eq_sum (l : List α) : List.foldl (· + ·) (0.0 : α) l = l.sum := by
  rw [foldl_add_eq_sum, lit_0, zero_add]

/-- `weightBin` as a plain sum -/
theorem weightBin_eq_sum (es : List α) (xw : List (α × α)) (k : Nat) :
    weightBin es xw k = ((xw.filter (fun p => binIndex es p.1 == some k)).map (·.2)).sum := by
  unfold weightBin
  exact foldl_add_lit_eq_sum _

theorem weightBin_nil (es : List α) (k : Nat) : weightBin es ([] : List (α × α)) k = 0 := by
  rw [weightBin_eq_sum]; simp

theorem weightBin_cons (es : List α) (p : α × α) (xw : List (α × α)) (k : Nat) :
    weightBin es (p :: xw) k = (if binIndex es p.1 = some k then p.2 else 0) + weightBin es xw k := by
  rw [weightBin_eq_sum, weightBin_eq_sum]
  by_cases h : binIndex es p.1 = some k
  · simp [h]
  · have : (binIndex es p.1 == some k) = false := by simpa using h
    simp [this, h]

theorem sum_indicator_weight (n k0 : Nat) (w : α) (h : k0 < n) :
    ((List.range n).map (fun k => if k0 = k then w else 0)).sum = w := by
  induction n with
  | zero => omega
  | succ m ih =>
    rw [List.range_succ, List.map_append, List.sum_append]
    by_cases hk : k0 = m
    · subst hk
      have : ((List.range k0).map (fun k => if k0 = k then w else 0)).sum = 0 := by
        apply List.sum_eq_zero
        intro v hv
        simp only [List.mem_map, List.mem_range] at hv
        obtain ⟨k, hk, rfl⟩ := hv
        have : k0 ≠ k := by omega
        simp [this]
      rw [this]; simp
    · rw [ih (by omega)]
      simp [hk]

theorem sum_indicator_weight_none (n : Nat) (w : α) :
    ((List.range n).map (fun k => if (none : Option Nat) = some k then w else 0)).sum = 0 := by
  apply List.sum_eq_zero; intro v hv; simp at hv; exact hv.2.symm ▸ rfl

/-- the weighted histogram conserves the total weight of the particles located within the grid's
outer edges (weights of either sign) -/
theorem hist_conserves_weight (es : List α) (xw : List (α × α)) :
    ((List.range (es.length - 1)).map (weightBin es xw)).sum
      = ((xw.filter (fun p => (binIndex es p.1).isSome)).map (·.2)).sum := by
  induction xw with
  | nil =>
    simp only [List.filter_nil, List.map_nil, List.sum_nil]
    apply List.sum_eq_zero
    intro v hv
    simp only [List.mem_map] at hv
    obtain ⟨k, _, rfl⟩ := hv
    exact weightBin_nil es k
  | cons p xw ih =>
    have e : (List.range (es.length - 1)).map (weightBin es (p :: xw)) =
        (List.range (es.length - 1)).map
          (fun k => (if binIndex es p.1 = some k then p.2 else 0) + weightBin es xw k) := by
      apply List.map_congr_left; intro k _; exact weightBin_cons es p xw k
    rw [e, List.sum_map_add, ih]
    cases hb : binIndex es p.1 with
    | none =>
      rw [sum_indicator_weight_none]
      simp [hb]
    | some k0 =>
      have hk := binIndex_lt es p.1 k0 hb
      have := sum_indicator_weight (es.length - 1) k0 p.2 (by omega)
      simp only [Option.some.injEq, this, List.filter_cons, hb, Option.isSome_some, if_true,
        List.map_cons, List.sum_cons]

/-- with unit weights the weighted histogram is the count histogram -/
theorem weightBin_ones (es : List α) (xs : List α) (k : Nat) :
    weightBin es (xs.map (fun x => (x, (1 : α)))) k = (countBin es xs k : α) := by
  induction xs with
  | nil => rw [List.map_nil, weightBin_nil]; simp [countBin]
  | cons x xs ih =>
    rw [List.map_cons, weightBin_cons, ih]
    have step : countBin es (x :: xs) k = (if binIndex es x = some k then 1 else 0) + countBin es xs k := by
      unfold countBin
      by_cases h : binIndex es x = some k
      · simp [h]; omega
      · have : (binIndex es x == some k) = false := by simpa using h
        simp [this, h]
    rw [step]
    by_cases h : binIndex es x = some k
    · simp [h]
    · simp [h]

theorem weightBin_nonneg (es : List α) (xw : List (α × α)) (k : Nat) (h : ∀ p ∈ xw, 0 ≤ p.2) :
    0 ≤ weightBin es xw k := by
  rw [weightBin_eq_sum]
  apply List.sum_nonneg
  intro v hv
  simp only [List.mem_map, List.mem_filter] at hv
  obtain ⟨p, ⟨hp, _⟩, rfl⟩ := hv
  exact h p hp

/-! ## multi-dimensional cells -/

theorem mapM_option_isSome_iff {β γ : Type} (f : β → Option γ) (l : List β) :
    (l.mapM f).isSome ↔ ∀ x ∈ l, (f x).isSome := by
  induction l with
  | nil => simp
  | cons x xs ih =>
    rw [List.mapM_cons]
    cases hx : f x with
    | none => simp [hx]
    | some y =>
      cases hxs : xs.mapM f with
      | none =>
        rw [hxs] at ih
        simp only [Option.isSome_none, Bool.false_eq_true, false_iff] at ih
        simp only [Option.bind_eq_bind, Option.bind_some, Option.bind_none, Option.isSome_none,
          Bool.false_eq_true, List.mem_cons, forall_eq_or_imp, hx, Option.isSome_some, true_and,
          false_iff]
        exact ih
      | some ys =>
        rw [hxs] at ih
        simp only [Option.isSome_some, true_iff] at ih
        simp only [Option.bind_eq_bind, Option.bind_some, Option.pure_def, Option.isSome_some,
          List.mem_cons, forall_eq_or_imp, hx, true_and, true_iff]
        exact ih

theorem mapM_option_some_spec {β γ : Type} (f : β → Option γ) (l : List β) (c : List γ)
    (h : l.mapM f = some c) :
    c.length = l.length ∧ ∀ i (hi : i < c.length) (hl : i < l.length), f l[i] = some c[i] := by
  induction l generalizing c with
  | nil =>
    simp only [List.mapM_nil, Option.pure_def, Option.some.injEq] at h
    subst h
    simp
  | cons x xs ih =>
    rw [List.mapM_cons] at h
    cases hx : f x with
    | none => simp [hx] at h
    | some y =>
      cases hxs : xs.mapM f with
      | none => simp [hx, hxs] at h
      | some ys =>
        simp only [hx, hxs, Option.bind_eq_bind, Option.bind_some, Option.pure_def,
          Option.some.injEq] at h
        subst h
        obtain ⟨hlen, hall⟩ := ih ys hxs
        refine ⟨by simp [hlen], ?_⟩
        intro i hi hl
        cases i with
        | zero => simpa using hx
        | succ i =>
          simp only [List.getElem_cons_succ]
          exact hall i (by simpa using hi) (by simpa using hl)

/-- a particle has a cell iff it is binned in every dimension -/
theorem cellOf_isSome_iff (ess : List (List α)) (p : List α) :
    (cellOf ess p).isSome ↔ ∀ ep ∈ ess.zip p, (binIndex ep.1 ep.2).isSome := by
  unfold cellOf
  exact mapM_option_isSome_iff _ _

/-- the cell has one index per dimension, each the bin of that coordinate -/
theorem cellOf_components (ess : List (List α)) (p : List α) (c : List Nat) (h : cellOf ess p = some c) :
    c.length = (ess.zip p).length ∧
      ∀ i (hi : i < c.length) (hl : i < (ess.zip p).length),
        binIndex ((ess.zip p)[i]).1 ((ess.zip p)[i]).2 = some c[i] := by
  unfold cellOf at h
  exact mapM_option_some_spec _ _ c h

/-- every component index of a cell is a valid bin of its dimension -/
theorem cellOf_index_lt (ess : List (List α)) (p : List α) (c : List Nat) (h : cellOf ess p = some c) :
    ∃ (hlen : c.length = (ess.zip p).length),
      ∀ i (hi : i < c.length), c[i] + 1 < ((ess.zip p)[i]'(hlen ▸ hi)).1.length := by
  obtain ⟨hlen, hall⟩ := cellOf_components ess p c h
  refine ⟨hlen, ?_⟩
  intro i hi
  exact binIndex_lt _ _ _ (hall i hi (hlen ▸ hi))

/-! ## non-vacuity -/

example : (List.range ([(0 : ℚ), 1, 2].length - 1)).map
      (weightBin [(0 : ℚ), 1, 2] [(1/2, 2), (3/2, -1), (7, 5)]) = [2, -1] := by
  decide +kernel

example : ((List.range ([(0 : ℚ), 1, 2].length - 1)).map
      (weightBin [(0 : ℚ), 1, 2] [(1/2, 2), (3/2, -1), (7, 5)])).sum = 1 := by
  decide +kernel

/-- … which is the total weight of the in-grid particles (the particle at 7 is outside) -/
example : (([((1/2 : ℚ), (2 : ℚ)), (3/2, -1), (7, 5)].filter
      (fun p => (binIndex [(0 : ℚ), 1, 2] p.1).isSome)).map (·.2)).sum = 1 := by
  decide +kernel

example : cellOf [[(0 : ℚ), 1, 2], [0, 10, 20, 30]] [3/2, 25] = some [1, 2] := by decide +kernel
example : cellOf [[(0 : ℚ), 1, 2], [0, 10, 20, 30]] [3/2, 31] = none := by decide +kernel

end C19
