import LadimProofs.Basic
import Mathlib.Data.List.Basic
import LadimModel.Post.Raster
/-!
# C19 — post-processing conserves particles
-/
open Ladim.Post
set_option linter.unusedVariables false
set_option linter.unusedSectionVars false

namespace C19

/-! ## time-slot slicing (raster and SQLite conversion) -/

/-- the slices are consecutive, in order, and concatenate to the instance list -/
theorem slots_partition {β : Type} (counts : List Nat) (data : List β) :
    (slotSlices counts data).flatten = data.take counts.sum := by
  induction counts generalizing data with
  | nil => simp [slotSlices]
  | cons c cs ih =>
    simp only [slotSlices, List.flatten_cons, List.sum_cons, ih]
    rw [List.take_add]

theorem slots_count {β : Type} (counts : List Nat) (data : List β) :
    (slotSlices counts data).length = counts.length := by
  induction counts generalizing data with
  | nil => rfl
  | cons c cs ih => simp [slotSlices, ih]

/-- each slice has exactly the recorded count when the file holds enough instances (empty slots give
empty slices) -/
theorem slots_lengths {β : Type} (counts : List Nat) (data : List β) (h : counts.sum ≤ data.length) :
    (slotSlices counts data).map List.length = counts := by
  induction counts generalizing data with
  | nil => rfl
  | cons c cs ih =>
    simp only [List.sum_cons] at h
    simp only [slotSlices, List.map_cons, List.length_take]
    rw [ih (data.drop c) (by simp; omega)]
    congr 1
    omega

theorem zip_flatMap_snd {τ β : Type} : ∀ (ts : List τ) (ss : List (List β)), ts.length = ss.length →
    ((ts.zip ss).flatMap (fun p => p.2.map (fun d => (p.1, d)))).map (·.2) = ss.flatten
  | [], [], _ => by simp
  | [], _ :: _, h => by simp at h
  | _ :: _, [], h => by simp at h
  | t :: ts, s :: ss, h => by
    simp only [List.zip_cons_cons, List.flatMap_cons, List.map_append, List.map_map, List.flatten_cons]
    rw [zip_flatMap_snd ts ss (by simpa using h)]
    congr 1
    simp [Function.comp_def]

/-- SQLite: every particle instance is stored exactly once, in order … -/
theorem sqlite_rows_once {τ β : Type} (times : List τ) (counts : List Nat) (data : List β)
    (hl : times.length = counts.length) :
    (instanceRows times counts data).map (·.2) = data.take counts.sum := by
  unfold instanceRows
  rw [← slots_partition]
  exact zip_flatMap_snd times _ (by rw [slots_count]; exact hl)

/-- … with the time stamp of its own slot -/
theorem sqlite_row_times {τ β : Type} (times : List τ) (counts : List Nat) (data : List β) (r : τ × β)
    (hr : r ∈ instanceRows times counts data) :
    ∃ ts ∈ times.zip (slotSlices counts data), r.1 = ts.1 ∧ r.2 ∈ ts.2 := by
  unfold instanceRows at hr
  simp only [List.mem_flatMap, List.mem_map] at hr
  obtain ⟨ts, hts, d, hd, rfl⟩ := hr
  exact ⟨ts, hts, rfl, hd⟩

/-! ## histogram binning -/
section hist
variable {α : Type} [Field α] [LinearOrder α] [IsStrictOrderedRing α]

/-- soundness of the bin search: a particle assigned to bin `k` lies in `[e_k, e_{k+1})`
(closed on the right for the last bin) -/
theorem binGo_sound (x : α) : ∀ (es : List α) (k0 k : Nat), binGo x k0 es = some k →
    ∃ j, k = k0 + j ∧ ∃ (h : j + 1 < es.length), es[j] ≤ x ∧
      (x < es[j + 1] ∨ (j + 2 = es.length ∧ x ≤ es[j + 1])) := by
  intro es
  induction es with
  | nil => intro k0 k h; simp [binGo] at h
  | cons e0 rest ih =>
    intro k0 k h
    cases rest with
    | nil => simp [binGo] at h
    | cons e1 rest =>
      simp only [binGo] at h
      by_cases h0 : x < e0
      · simp [h0] at h
      · simp only [h0, if_false] at h
        by_cases h1 : x < e1
        · simp only [h1, if_true, Option.some.injEq] at h
          exact ⟨0, by omega, by simp, by simpa using not_lt.mp h0, Or.inl (by simpa using h1)⟩
        · simp only [h1, if_false] at h
          by_cases hr : rest.isEmpty
          · simp only [hr, if_true] at h
            by_cases h2 : x ≤ e1
            · simp only [h2, if_true, Option.some.injEq] at h
              have : rest = [] := List.isEmpty_iff.mp hr
              subst this
              exact ⟨0, by omega, by simp, by simpa using not_lt.mp h0, Or.inr ⟨rfl, by simpa using h2⟩⟩
            · simp [h2] at h
          · simp only [hr, Bool.false_eq_true, if_false] at h
            obtain ⟨j, hj, hlt, hle, hor⟩ := ih (k0 + 1) k h
            refine ⟨j + 1, by omega, by simp at hlt ⊢; omega, by simpa using hle, ?_⟩
            rcases hor with h' | ⟨h', h''⟩
            · exact Or.inl (by simpa using h')
            · exact Or.inr ⟨by simp at h' ⊢; omega, by simpa using h''⟩

theorem last_ge (b : α) (rest : List α) (eN : α) (hl : (b :: rest).getLast? = some eN)
    (hp : List.Pairwise (· < ·) (b :: rest)) : b ≤ eN := by
  have hmem : eN ∈ (b :: rest) := List.mem_of_getLast? hl
  simp only [List.mem_cons] at hmem
  rcases hmem with rfl | hmem
  · exact le_refl _
  · rw [List.pairwise_cons] at hp
    exact (hp.1 eN hmem).le

/-- completeness: exactly the particles within the outer edges are binned -/
theorem binGo_isSome_iff (x : α) : ∀ (es : List α) (k0 : Nat) (e0 eN : α), 2 ≤ es.length →
    es.head? = some e0 → es.getLast? = some eN → List.Pairwise (· < ·) es →
    ((binGo x k0 es).isSome ↔ (e0 ≤ x ∧ x ≤ eN)) := by
  intro es
  induction es with
  | nil => intro k0 e0 eN h; simp at h
  | cons a rest ih =>
    intro k0 e0 eN hlen hh hl hp
    simp only [List.head?_cons, Option.some.injEq] at hh
    subst hh
    cases rest with
    | nil => simp at hlen
    | cons b rest =>
      have hp' := hp
      rw [List.pairwise_cons] at hp
      have hab : a < b := hp.1 b (by simp)
      have hbN : b ≤ eN := last_ge b rest eN (by simpa using hl) hp.2
      simp only [binGo]
      by_cases h0 : x < a
      · simp only [h0, if_true, Option.isSome_none, Bool.false_eq_true, false_iff]
        intro hc; linarith [hc.1]
      · simp only [h0, if_false]
        by_cases h1 : x < b
        · simp only [h1, if_true, Option.isSome_some, true_iff]
          exact ⟨not_lt.mp h0, by linarith⟩
        · simp only [h1, if_false]
          by_cases hr : rest.isEmpty
          · have : rest = [] := List.isEmpty_iff.mp hr
            subst this
            simp only [List.getLast?_cons_cons, List.getLast?_singleton, Option.some.injEq] at hl
            subst hl
            simp only [List.isEmpty_nil, if_true]
            by_cases h2 : x ≤ b
            · simp [h2, not_lt.mp h0]
            · simp [h2]
          · simp only [hr, Bool.false_eq_true, if_false]
            have hlen2 : 2 ≤ (b :: rest).length := by
              cases rest with
              | nil => simp at hr
              | cons c r => simp
            rw [ih (k0 + 1) b eN hlen2 (by simp) (by simpa using hl) hp.2]
            constructor
            · rintro ⟨h2, h3⟩; exact ⟨not_lt.mp h0, h3⟩
            · rintro ⟨h2, h3⟩; exact ⟨not_lt.mp h1, h3⟩

theorem sum_indicator (n k0 : Nat) (h : k0 < n) :
    ((List.range n).map (fun k => if k0 = k then 1 else 0)).sum = 1 := by
  induction n with
  | zero => omega
  | succ m ih =>
    rw [List.range_succ, List.map_append, List.sum_append]
    by_cases hk : k0 = m
    · subst hk
      have : ((List.range k0).map (fun k => if k0 = k then 1 else 0)).sum = 0 := by
        apply List.sum_eq_zero
        intro v hv
        simp only [List.mem_map, List.mem_range] at hv
        obtain ⟨k, hk, rfl⟩ := hv
        have : k0 ≠ k := by omega
        simp [this]
      rw [this]; simp
    · rw [ih (by omega)]
      simp [hk]

theorem sum_indicator_none (n : Nat) :
    ((List.range n).map (fun k => if (none : Option Nat) = some k then 1 else 0)).sum = 0 := by
  apply List.sum_eq_zero; intro v hv; simp at hv; exact hv.2.symm ▸ rfl

theorem binIndex_lt (es : List α) (x : α) (k : Nat) (h : binIndex es x = some k) : k + 1 < es.length := by
  obtain ⟨j, hj, hlt, _⟩ := binGo_sound x es 0 k h
  omega

/-- the cell counts sum to the number of particles located within the grid's outer bin edges -/
theorem hist_conserves_count (es : List α) (xs : List α) :
    ((List.range (es.length - 1)).map (countBin es xs)).sum =
      (xs.filter (fun x => (binIndex es x).isSome)).length := by
  induction xs with
  | nil =>
    have : ∀ k, countBin es [] k = 0 := fun k => by simp [countBin]
    apply List.sum_eq_zero
    intro v hv
    simp only [List.mem_map] at hv
    obtain ⟨k, _, rfl⟩ := hv
    simpa using this k
  | cons x xs ih =>
    have step : ∀ k, countBin es (x :: xs) k = (if binIndex es x = some k then 1 else 0) + countBin es xs k := by
      intro k
      unfold countBin
      by_cases h : binIndex es x = some k
      · simp [List.filter_cons, h]; omega
      · have : (binIndex es x == some k) = false := by simpa using h
        simp [List.filter_cons, this, h]
    have e : (List.range (es.length - 1)).map (countBin es (x :: xs)) =
        (List.range (es.length - 1)).map (fun k => (if binIndex es x = some k then 1 else 0) + countBin es xs k) := by
      apply List.map_congr_left; intro k _; exact step k
    rw [e, List.sum_map_add, ih]
    cases hb : binIndex es x with
    | none =>
      rw [sum_indicator_none]
      simp [List.filter_cons, hb]
    | some k0 =>
      have hk := binIndex_lt es x k0 hb
      have := sum_indicator (es.length - 1) k0 (by omega)
      simp only [Option.some.injEq, this, List.filter_cons, hb, Option.isSome_some, if_true, List.length_cons]
      omega

/-- … and these are exactly the particles with `e₀ ≤ x ≤ e_N` -/
theorem in_grid_iff (es : List α) (x e0 eN : α) (hlen : 2 ≤ es.length) (hh : es.head? = some e0)
    (hl : es.getLast? = some eN) (hp : List.Pairwise (· < ·) es) :
    (binIndex es x).isSome ↔ (e0 ≤ x ∧ x ≤ eN) :=
  binGo_isSome_iff x es 0 e0 eN hlen hh hl hp

/-- bin edges are midway between bin centres, the outer edges mirror the first / last spacing:
three centres `a, b, c` give edges `a − (b−a)/2, (a+b)/2, (b+c)/2, c + (c−b)/2` -/
theorem edges_three (a b c : α) :
    edges [a, b, c] = [a - (b - a) / 2, (a + b) / 2, (b + c) / 2, c + (c - b) / 2] := by
  have e : edges [a, b, c] = [0.5 * (a + b) - (b - a), 0.5 * (a + b), 0.5 * (b + c), 0.5 * (b + c) + c - b] := by
    rfl
  rw [e]
  have h5 : (0.5 : α) = 1 / 2 := by norm_num
  rw [h5]
  simp only [List.cons.injEq, and_true]
  refine ⟨by ring, by ring, by ring, by ring⟩

theorem mids_length (a : List α) : (mids a).length = a.length - 1 := by
  induction a with
  | nil => rfl
  | cons x xs ih =>
    cases xs with
    | nil => rfl
    | cons y ys =>
      simp only [mids, List.length_cons] at ih ⊢
      omega

/-- every interior edge is the midpoint of two neighbouring centres -/
theorem mids_get (a : List α) (i : Nat) (h : i + 1 < a.length) :
    (mids a)[i]'(by rw [mids_length]; omega) = (a[i] + a[i + 1]) / 2 := by
  induction a generalizing i with
  | nil => simp at h
  | cons x xs ih =>
    cases xs with
    | nil => simp at h
    | cons y ys =>
      cases i with
      | zero =>
        simp only [mids, List.getElem_cons_zero, List.getElem_cons_succ]
        have h5 : (0.5 : α) = 1 / 2 := by norm_num
        rw [h5]; ring
      | succ i =>
        simp only [mids, List.getElem_cons_succ]
        exact ih i (by simpa using h)


end hist

/-! ## settled particles: last recorded instance -/

theorem findIdx_spec (l : List Nat) (p i : Nat) (h : l.findIdx? (· == p) = some i) :
    ∃ (hi : i < l.length), l[i] = p ∧ ∀ j (hj : j < i), l[j]'(by omega) ≠ p := by
  induction l generalizing i with
  | nil => simp at h
  | cons x xs ih =>
    simp only [List.findIdx?_cons] at h
    by_cases hx : x == p
    · simp only [hx, if_true, Option.some.injEq] at h
      subst h
      exact ⟨by simp, by simpa using hx, by intro j hj; omega⟩
    · simp only [hx, Bool.false_eq_true, if_false, Option.map_eq_some_iff] at h
      obtain ⟨i', hi', rfl⟩ := h
      obtain ⟨hlt, he, hall⟩ := ih i' hi'
      refine ⟨by simp; omega, by simpa using he, ?_⟩
      intro j hj
      cases j with
      | zero => simpa using hx
      | succ j => simpa using hall j (by omega)

/-- the selected index of pid `p` is its *last* recorded instance -/
theorem settled_is_last_instance (pids : List Nat) (p i : Nat) (h : lastIndex pids p = some i) :
    ∃ (hi : i < pids.length), pids[i] = p ∧ ∀ j (hj : j < pids.length), i < j → pids[j] ≠ p := by
  unfold lastIndex at h
  simp only [Option.map_eq_some_iff] at h
  obtain ⟨r, hr, rfl⟩ := h
  obtain ⟨hlt, he, hall⟩ := findIdx_spec pids.reverse p r hr
  simp only [List.length_reverse] at hlt
  refine ⟨by omega, ?_, ?_⟩
  · rw [List.getElem_reverse] at he
    have : pids.length - r - 1 = pids.length - 1 - r := by omega
    simp only [this]; exact he
  · intro j hj hij
    have := hall (pids.length - j - 1) (by omega)
    rw [List.getElem_reverse] at this
    have e : pids.length - 1 - (pids.length - j - 1) = j := by omega
    simp only [e] at this
    exact this

theorem mem_insertSorted (p q : Nat) (l : List Nat) : q ∈ insertSorted p l ↔ (q = p ∨ q ∈ l) := by
  induction l with
  | nil => simp [insertSorted]
  | cons x xs ih =>
    simp only [insertSorted]
    split_ifs with h1 h2
    · simp
    · subst h2; simp
    · simp [ih]; tauto

theorem insertSorted_sorted (p : Nat) (l : List Nat) (hl : List.Pairwise (· < ·) l) :
    List.Pairwise (· < ·) (insertSorted p l) := by
  induction l with
  | nil => simp [insertSorted]
  | cons x xs ih =>
    simp only [insertSorted]
    rw [List.pairwise_cons] at hl
    split_ifs with h1 h2
    · rw [List.pairwise_cons]
      refine ⟨?_, List.pairwise_cons.mpr hl⟩
      intro y hy
      simp only [List.mem_cons] at hy
      rcases hy with rfl | hy
      · exact h1
      · exact lt_trans h1 (hl.1 y hy)
    · exact List.pairwise_cons.mpr hl
    · rw [List.pairwise_cons]
      refine ⟨?_, ih hl.2⟩
      intro y hy
      rw [mem_insertSorted] at hy
      rcases hy with rfl | hy
      · omega
      · exact hl.1 y hy

/-- every pid of the file occurs exactly once (strictly increasing list) in the selection -/
theorem uniquePids_spec (pids : List Nat) :
    List.Pairwise (· < ·) (uniquePids pids) ∧ ∀ q, q ∈ uniquePids pids ↔ q ∈ pids := by
  unfold uniquePids
  induction pids with
  | nil => simp
  | cons x xs ih =>
    simp only [List.foldr_cons]
    refine ⟨insertSorted_sorted x _ ih.1, ?_⟩
    intro q
    rw [mem_insertSorted, ih.2]
    simp

/-- non-vacuity: pid sequence with repeats -/
example : settled [3, 1, 3, 2, 1] = [(1, 4), (2, 3), (3, 2)] := by decide
example : slotSlices [2, 0, 1] ['a', 'b', 'c'] = [['a', 'b'], [], ['c']] := by decide

end C19
