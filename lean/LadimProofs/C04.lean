import LadimProofs.Basic
import LadimProofs.InterpLemmas
import LadimModel.Release.Attr
/-!
# C04 — release attribute values honour their specification
-/
open Ladim Ladim.Attr
set_option linter.unusedVariables false
set_option linter.unusedSectionVars false

namespace C04
variable {α : Type} [Field α] [LinearOrder α] [IsStrictOrderedRing α]

/-- constants are repeated for every particle -/
theorem const_repeated (cv : ClipArgs) (v : α) (num : Nat) (draws : List α) :
    getAttr cv (.const v) num draws = some (List.replicate num v) := rfl

/-- explicit lists are reproduced verbatim in particle order (any length other than 2, and a
2-element list when there are exactly 2 particles) -/
theorem list_verbatim (cv : ClipArgs) (vs : List α) (num : Nat) (draws : List α)
    (h : vs.length ≠ 2 ∨ num = 2) : getAttr cv (.list vs) num draws = some vs := by
  unfold getAttr
  match vs, h with
  | [], _ => rfl
  | [_], _ => rfl
  | [a, b], h =>
    have : num = 2 := by
      rcases h with h | h
      · exact absurd rfl h
      · exact h
    simp [this]
  | _ :: _ :: _ :: _, _ => rfl

/-- callables (or dotted names) receive the particle count and their result is used as is -/
theorem callable_result (cv : ClipArgs) (out : List α) (num : Nat) (draws : List α) :
    getAttr cv (.callable out) num draws = some out := rfl

/-- two-element ranges: every value lies in `[lo, hi)` and is affine in the draw -/
theorem range_in_range (lo hi u : α) (h : lo ≤ hi) (hu0 : 0 ≤ u) (hu1 : u < 1) :
    lo ≤ rangeValue lo hi u ∧ rangeValue lo hi u ≤ hi ∧ (lo < hi → rangeValue lo hi u < hi) := by
  unfold rangeValue
  refine ⟨by nlinarith, by nlinarith, fun hlt => by nlinarith⟩

theorem range_values (cv : ClipArgs) (lo hi : α) (num : Nat) (draws : List α) (hn : num ≠ 2)
    (hd : num ≤ draws.length) :
    ∃ vs, getAttr cv (.list [lo, hi]) num draws = some vs ∧ vs.length = num ∧
      vs = (draws.take num).map (fun u => lo + (hi - lo) * u) := by
  refine ⟨(draws.take num).map (fun u => lo + (hi - lo) * u), ?_, by simp [hd], rfl⟩
  unfold getAttr
  simp only [hn, ne_eq, not_false_eq_true, if_true]
  rfl

/-- FULL STATEMENT (holds for `ClipArgs.correct`): gaussian values stay within `min` and `max`
for every normal draw, including the tails -/
theorem gaussian_bounds (mean std z : α) (mn mx : Option α)
    (hmm : ∀ a b, mn = some a → mx = some b → a ≤ b) :
    (∀ a, mn = some a → a ≤ gaussianValue .correct mean std mn mx z) ∧
    (∀ b, mx = some b → gaussianValue .correct mean std mn mx z ≤ b) := by
  unfold gaussianValue capMax capMin fmin fmax
  constructor
  · intro a ha
    cases mx with
    | none => simp [ha]; split_ifs <;> linarith
    | some b => have := hmm a b ha rfl; simp [ha]; split_ifs <;> linarith
  · intro b hb
    cases mn with
    | none => simp [hb]; split_ifs <;> linarith
    | some a => have := hmm a b rfl hb; simp [hb]; split_ifs <;> linarith

/-- without `min` / `max` the draw is returned unchanged (both argument orders) -/
theorem gaussian_unbounded (cv : ClipArgs) (mean std z : α) :
    gaussianValue cv mean std none none z = mean + std * z := by
  cases cv <;> simp [gaussianValue, capMax, capMin]

/-- PROVED PART for the code as it is (`ClipArgs.swapped`): only the upper bound holds … -/
theorem gaussian_bounds_partial (mean std z a b : α) (hab : a ≤ b) :
    gaussianValue .swapped mean std (some a) (some b) z ≤ b ∧
    gaussianValue .swapped mean std (some a) (some b) z ≤ mean + std * z := by
  unfold gaussianValue fmin fmax
  simp only []
  split_ifs <;> constructor <;> linarith

/-- … and the lower bound fails: mean 5, std 1, min 4, max 6, draw −2.27 ⇒ 2.73 < 4
(the very value in the shipped `release/out.rls`) -/
theorem gaussian_lower_fails :
    ¬ ((4 : ℚ) ≤ gaussianValue .swapped 5 1 (some 4) (some 6) (-227 / 100)) := by
  unfold gaussianValue fmin fmax; norm_num

/-- exponential values are non-negative and do not exceed `max` -/
theorem exponential_bounds (mean e : α) (mx : Option α) (hm : 0 ≤ mean) (he : 0 ≤ e)
    (hmx : ∀ b, mx = some b → 0 ≤ b) :
    0 ≤ exponentialValue mean mx e ∧ (∀ b, mx = some b → exponentialValue mean mx e ≤ b) := by
  unfold exponentialValue capMax fmin
  have := mul_nonneg hm he
  cases mx with
  | none => simp [this]
  | some b =>
    have hb := hmx b rfl
    simp only [Option.some.injEq, forall_eq']
    split_ifs <;> constructor <;> linarith

/-- piecewise values stay within the knot range, for increasing `cdf` and non-decreasing knots -/
theorem piecewise_range (k0 c0 : α) (ks cs : List α) (u v M : α)
    (hc : List.Pairwise (· < ·) (c0 :: cs)) (hk : List.Pairwise (· ≤ ·) (k0 :: ks))
    (hM : ∀ y ∈ k0 :: ks, y ≤ M) (h : piecewiseValue (k0 :: ks) (c0 :: cs) u = some v) :
    k0 ≤ v ∧ v ≤ M := by
  unfold piecewiseValue interp at h
  simp only [Option.some.injEq] at h
  subst h
  split_ifs with hlt
  · exact ⟨le_refl _, hM k0 (by simp)⟩
  · exact ⟨InterpLemmas.interpGo_ge cs ks c0 k0 u hc hk (not_lt.mp hlt),
      InterpLemmas.interpGo_le cs ks c0 k0 u M hc hk (not_lt.mp hlt) hM⟩

/-- … and are non-decreasing in the draw, so that `P(v ≤ knot_k) = cdf_k` -/
theorem piecewise_monotone (ks cs : List α) (u₁ u₂ v₁ v₂ : α)
    (hc : List.Pairwise (· < ·) cs) (hk : List.Pairwise (· ≤ ·) ks) (hu : u₁ ≤ u₂)
    (h₁ : piecewiseValue ks cs u₁ = some v₁) (h₂ : piecewiseValue ks cs u₂ = some v₂) : v₁ ≤ v₂ :=
  InterpLemmas.interp_mono cs ks u₁ u₂ v₁ v₂ hc hk hu h₁ h₂

/-- the first knot is hit at the first cumulative probability, the second at the second -/
theorem piecewise_hits_knots (k0 k1 c0 c1 : α) (ks cs : List α) (h : c0 < c1) :
    piecewiseValue (k0 :: k1 :: ks) (c0 :: c1 :: cs) c0 = some k0 := by
  unfold piecewiseValue interp
  simp [interpGo, h]

theorem mapM_length {β γ : Type} (f : β → Option γ) :
    ∀ (l : List β) (vs : List γ), l.mapM f = some vs → vs.length = l.length
  | [], vs, h => by simp at h; subst h; rfl
  | a :: l, vs, h => by
    simp only [List.mapM_cons] at h
    cases hfa : f a with
    | none => simp [hfa] at h
    | some b =>
      cases hl : l.mapM f with
      | none => simp [hfa, hl] at h
      | some bs =>
        simp [hfa, hl] at h
        subst h
        simp [mapM_length f l bs hl]

/-- every documented form yields exactly `num` values (given `num` draws) -/
theorem generators_length (cv : ClipArgs) (s : Spec α) (num : Nat) (draws : List α) (vs : List α)
    (hd : draws.length = num)
    (hl : ∀ l, s = .list l → l.length = num) (hcall : ∀ o, s = .callable o → o.length = num)
    (h : getAttr cv s num draws = some vs) : vs.length = num := by
  have hle : num ≤ draws.length := by omega
  have htake : (draws.take num).length = num := by simp [hle]
  cases s with
  | const v => simp [getAttr] at h; subst h; simp
  | list l =>
    have hlen := hl l rfl
    unfold getAttr at h
    match l, hlen with
    | [], hlen => simp at h; subst h; exact hlen
    | [_], hlen => simp at h; subst h; exact hlen
    | [a, b], hlen =>
      simp only at h
      split_ifs at h with hn
      · simp at h; subst h; simp [hle]
      · simp at h; subst h; exact hlen
    | _ :: _ :: _ :: _, hlen => simp at h; subst h; exact hlen
  | gaussian m sd mn mx => simp [getAttr] at h; subst h; simp [hle]
  | exponential m mx => simp [getAttr] at h; subst h; simp [hle]
  | piecewise k c =>
    simp only [getAttr] at h
    have := mapM_length _ _ _ h
    omega
  | callable o => simp [getAttr] at h; subst h; exact hcall o rfl

/-- non-vacuity: a bounded gaussian with a tail draw is clipped into `[4, 6]` by the correct order -/
example : gaussianValue .correct (5 : ℚ) 1 (some 4) (some 6) (-227 / 100) = 4 := by
  unfold gaussianValue capMax capMin fmin fmax; norm_num

end C04
