import LadimProofs.C06
open Ladim Ladim.Roms
namespace C06
variable {α : Type} [Field α] [LinearOrder α] [IsStrictOrderedRing α]

omit [LinearOrder α] [IsStrictOrderedRing α] in
@[simp] theorem ofInt_eq (i : Int) : (ofInt i : α) = (i : α) := rfl

/-- the forcing steps are strictly increasing -/
abbrev Sorted (steps : List Int) : Prop := List.Pairwise (· < ·) steps

/-! ## 1. `nextStep` -/

theorem nextStep_spec : ∀ (steps : List Int), Sorted steps → ∀ n n', nextStep steps n = some n' →
    n ∈ steps ∧ n' ∈ steps ∧ n < n' ∧ ∀ x ∈ steps, ¬ (n < x ∧ x < n')
  | [], _, n, n', h => by simp [nextStep] at h
  | [a], _, n, n', h => by simp [nextStep] at h
  | a :: b :: rest, hs, n, n', h => by
    have hs' : Sorted (b :: rest) := (List.pairwise_cons.mp hs).2
    have hab : ∀ x ∈ b :: rest, a < x := (List.pairwise_cons.mp hs).1
    have hb : ∀ x ∈ rest, b < x := (List.pairwise_cons.mp hs').1
    unfold nextStep at h
    split_ifs at h with han
    · subst han
      cases h
      refine ⟨by simp, by simp, hab _ (by simp), ?_⟩
      intro x hx ⟨h1, h2⟩
      rcases List.mem_cons.mp hx with rfl | hx
      · omega
      · rcases List.mem_cons.mp hx with rfl | hx
        · omega
        · have := hb x hx; omega
    · obtain ⟨h1, h2, h3, h4⟩ := nextStep_spec (b :: rest) hs' n n' h
      refine ⟨List.mem_cons_of_mem _ h1, List.mem_cons_of_mem _ h2, h3, ?_⟩
      intro x hx ⟨h5, h6⟩
      rcases List.mem_cons.mp hx with rfl | hx
      · have := hab n h1; omega
      · exact h4 x hx ⟨h5, h6⟩

/-- a forcing step that is not the last one has a successor -/
theorem nextStep_of_mem : ∀ (steps : List Int), Sorted steps → ∀ n, n ∈ steps → (∃ m ∈ steps, n < m) →
    ∃ n', nextStep steps n = some n'
  | [], _, n, h, _ => by simp at h
  | [a], _, n, h, ⟨m, hm, hnm⟩ => by
    simp at h hm; omega
  | a :: b :: rest, hs, n, h, ⟨m, hm, hnm⟩ => by
    have hs' : Sorted (b :: rest) := (List.pairwise_cons.mp hs).2
    have hab : ∀ x ∈ b :: rest, a < x := (List.pairwise_cons.mp hs).1
    unfold nextStep
    split_ifs with han
    · exact ⟨b, rfl⟩
    · have hn : n ∈ b :: rest := by
        rcases List.mem_cons.mp h with rfl | h
        · exact absurd rfl han
        · exact h
      have hm' : m ∈ b :: rest := by
        rcases List.mem_cons.mp hm with rfl | hm
        · have := hab n hn; omega
        · exact hm
      exact nextStep_of_mem (b :: rest) hs' n hn ⟨m, hm', hnm⟩

/-- the same with "not the last element" spelled with `getLast?` -/
theorem nextStep_of_mem_not_last (steps : List Int) (hs : Sorted steps) (n : Int) (h : n ∈ steps)
    (hl : steps.getLast? ≠ some n) : ∃ n', nextStep steps n = some n' := by
  apply nextStep_of_mem steps hs n h
  induction steps with
  | nil => simp at h
  | cons a rest ih =>
    cases rest with
    | nil => simp at h hl; omega
    | cons b rest =>
      have hs' : Sorted (b :: rest) := (List.pairwise_cons.mp hs).2
      have hab : ∀ x ∈ b :: rest, a < x := (List.pairwise_cons.mp hs).1
      rcases List.mem_cons.mp h with rfl | h
      · exact ⟨b, by simp, hab b (by simp)⟩
      · rw [List.getLast?_cons_cons] at hl
        obtain ⟨m, hm, hnm⟩ := ih hs' h hl
        exact ⟨m, List.mem_cons_of_mem _ hm, hnm⟩

/-- every forcing step that is not the first one is the successor of a forcing step -/
theorem prev_exists : ∀ (steps : List Int), Sorted steps → ∀ m, m ∈ steps → (∃ x ∈ steps, x < m) →
    ∃ k, nextStep steps k = some m
  | [], _, m, h, _ => by simp at h
  | [a], _, m, h, ⟨x, hx, hxm⟩ => by
    simp at h hx; omega
  | a :: b :: rest, hs, m, h, ⟨x, hx, hxm⟩ => by
    have hs' : Sorted (b :: rest) := (List.pairwise_cons.mp hs).2
    have hab : ∀ x ∈ b :: rest, a < x := (List.pairwise_cons.mp hs).1
    have hb : ∀ x ∈ rest, b < x := (List.pairwise_cons.mp hs').1
    have hm : m ∈ b :: rest := by
      rcases List.mem_cons.mp h with rfl | h
      · rcases List.mem_cons.mp hx with rfl | hx
        · omega
        · have := hab x hx; omega
      · exact h
    rcases List.mem_cons.mp hm with rfl | hm2
    · exact ⟨a, by simp [nextStep]⟩
    · obtain ⟨k, hk⟩ := prev_exists (b :: rest) hs' m hm ⟨b, by simp, hb m hm2⟩
      refine ⟨k, ?_⟩
      have hk1 := (nextStep_spec _ hs' k m hk).1
      have := hab k hk1
      unfold nextStep
      rw [if_neg (by omega)]
      exact hk

theorem bracket_unique {steps : List Int} (hs : Sorted steps) {t n n' m m' : Int}
    (h1 : Bracket steps t n n') (h2 : Bracket steps t m m') : n = m ∧ n' = m' := by
  obtain ⟨a1, a2, a3⟩ := h1
  obtain ⟨b1, b2, b3⟩ := h2
  obtain ⟨p1, p2, p3, p4⟩ := nextStep_spec steps hs n n' a1
  obtain ⟨q1, q2, q3, q4⟩ := nextStep_spec steps hs m m' b1
  have h : n = m := by
    have := p4 m q1
    have := q4 n p1
    omega
  subst h
  rw [a1] at b1
  exact ⟨rfl, by injection b1⟩

/-! ## 2. the velocity (and scalar) invariant -/

section inv
omit [LinearOrder α] [IsStrictOrderedRing α]

theorem contains_iff (steps : List Int) (t : Int) : (steps.contains t = true) ↔ t ∈ steps := by simp

theorem updateOne_mem (fr : Frames α) (st : St α) (t : Int) (h : t ∈ fr.steps) (h1 : t - 1 ∉ fr.steps) :
    updateOne fr st t = { st with U := st.Unew, S := st.Snew, last := t } := by
  unfold updateOne
  simp only [if_pos ((contains_iff _ _).mpr h), if_neg (mt (contains_iff fr.steps (t - 1)).mp h1)]

theorem updateOne_new_mem (fr : Frames α) (st : St α) (t nx : Int) (h : t ∈ fr.steps)
    (h1 : t - 1 ∈ fr.steps) (hn : nextStep fr.steps (t - 1) = some nx) :
    updateOne fr st t =
      { U := fr.vel nx, Unew := fr.vel nx,
        dU := (fr.vel nx - st.U) / ((nx - (t - 1) : Int) : α), S := fr.sc nx, Snew := fr.sc nx, last := t } := by
  unfold updateOne
  simp only [if_pos ((contains_iff _ _).mpr h), if_pos ((contains_iff _ _).mpr h1), hn]
  rfl

theorem updateOne_new (fr : Frames α) (st : St α) (t nx : Int) (h : t ∉ fr.steps) (h1 : t - 1 ∈ fr.steps)
    (hn : nextStep fr.steps (t - 1) = some nx) :
    updateOne fr st t =
      { U := st.U + (fr.vel nx - st.U) / ((nx - (t - 1) : Int) : α), Unew := fr.vel nx,
        dU := (fr.vel nx - st.U) / ((nx - (t - 1) : Int) : α), S := st.S, Snew := fr.sc nx, last := t } := by
  unfold updateOne
  simp only [if_neg (mt (contains_iff fr.steps t).mp h), if_pos ((contains_iff _ _).mpr h1), hn]
  rfl

theorem updateOne_plain (fr : Frames α) (st : St α) (t : Int) (h : t ∉ fr.steps) (h1 : t - 1 ∉ fr.steps) :
    updateOne fr st t = { st with U := st.U + st.dU, last := t } := by
  unfold updateOne
  simp only [if_neg (mt (contains_iff fr.steps t).mp h), if_neg (mt (contains_iff fr.steps (t - 1)).mp h1)]

theorem updateRange_zero (fr : Frames α) (st : St α) (a : Int) : updateRange fr st a 0 = st := rfl

theorem updateRange_succ (fr : Frames α) (st : St α) (a : Int) (k : Nat) :
    updateRange fr st a (k + 1) = updateRange fr (updateOne fr st a) (a + 1) k := rfl

/-- `updateRange` composes -/
theorem updateRange_add (fr : Frames α) : ∀ (m : Nat) (st : St α) (a : Int) (k : Nat),
    updateRange fr (updateRange fr st a m) (a + m) k = updateRange fr st a (m + k)
  | 0, st, a, k => by simp [updateRange_zero]
  | m + 1, st, a, k => by
    rw [updateRange_succ, show m + 1 + k = (m + k) + 1 by omega, updateRange_succ,
      ← updateRange_add fr m (updateOne fr st a) (a + 1) k]
    congr 1
    push_cast; ring

theorem updateRange_snoc (fr : Frames α) (st : St α) (a : Int) (k : Nat) :
    updateRange fr st a (k + 1) = updateOne fr (updateRange fr st a k) (a + k) := by
  rw [← updateRange_add fr k st a 1]
  rfl

theorem updateOne_last (fr : Frames α) (st : St α) (t : Int) : (updateOne fr st t).last = t := by
  unfold updateOne
  split_ifs <;> rfl

theorem updateRange_last (fr : Frames α) (st : St α) (a : Int) (k : Nat) :
    (updateRange fr st a (k + 1)).last = a + k := by
  rw [updateRange_snoc, updateOne_last]

end inv

/-- state after processing step `t` (or after `init` for `t = -1`), `n ≤ t < n'` the enclosing frames -/
structure Inv (fr : Frames α) (g0 : Prop) (Si : α) (t n n' : Int) (st : St α) : Prop where
  last : st.last = t
  U : st.U = lerp fr t n n'
  new : n < t → st.Unew = fr.vel n' ∧
    st.dU = (fr.vel n' - fr.vel n) / ((n' - n : Int) : α) ∧ st.Snew = fr.sc n'
  S_pos : 0 ≤ n → (0 < n ∨ g0) → st.S = fr.sc n
  S_neg : n < 0 → st.S = Si

section inv2
omit [LinearOrder α] [IsStrictOrderedRing α]

theorem lerp_self (fr : Frames α) (n n' : Int) : lerp fr n n n' = fr.vel n := by simp [lerp]

theorem lerp_succ (fr : Frames α) (t n n' : Int) :
    lerp fr t n n' + (fr.vel n' - fr.vel n) / ((n' - n : Int) : α) = lerp fr (t + 1) n n' := by
  unfold lerp; push_cast; ring

theorem inv_step {fr : Frames α} {g0 : Prop} {Si : α} (hs : Sorted fr.steps)
    {t n n' m m' : Int} {st : St α} (ht : -1 ≤ t) (hb : Bracket fr.steps t n n')
    (hb' : Bracket fr.steps (t + 1) m m') (h : Inv fr g0 Si t n n' st) :
    Inv fr g0 Si (t + 1) m m' (updateOne fr st (t + 1)) := by
  obtain ⟨a1, a2, a3⟩ := hb
  obtain ⟨p1, p2, p3, p4⟩ := nextStep_spec _ hs n n' a1
  by_cases hlt : t + 1 < n'
  · -- same bracket
    obtain ⟨rfl, rfl⟩ := bracket_unique hs (⟨a1, by omega, hlt⟩ : Bracket fr.steps (t + 1) n n') hb'
    have hnot : t + 1 ∉ fr.steps := fun hx => p4 _ hx ⟨by omega, hlt⟩
    by_cases htn : t = n
    · subst htn
      have h1 : t + 1 - 1 ∈ fr.steps := by rw [show t + 1 - 1 = t by omega]; exact p1
      have hn : nextStep fr.steps (t + 1 - 1) = some n' := by
        rw [show t + 1 - 1 = t by omega]; exact a1
      rw [updateOne_new fr st (t + 1) n' hnot h1 hn]
      refine ⟨rfl, ?_, ?_, ?_, ?_⟩
      · show st.U + (fr.vel n' - st.U) / ((n' - (t + 1 - 1) : Int) : α) = _
        rw [h.U, lerp_self, show n' - (t + 1 - 1) = n' - t by omega, ← lerp_succ, lerp_self]
      · intro _
        refine ⟨rfl, ?_, rfl⟩
        show (fr.vel n' - st.U) / ((n' - (t + 1 - 1) : Int) : α) = _
        rw [h.U, lerp_self, show n' - (t + 1 - 1) = n' - t by omega]
      · exact h.S_pos
      · exact h.S_neg
    · have hnt : n < t := by omega
      have h1 : t + 1 - 1 ∉ fr.steps := by
        rw [show t + 1 - 1 = t by omega]; exact fun hx => p4 _ hx ⟨hnt, a3⟩
      rw [updateOne_plain fr st (t + 1) hnot h1]
      obtain ⟨q1, q2, q3⟩ := h.new hnt
      refine ⟨rfl, ?_, fun _ => ⟨q1, q2, q3⟩, h.S_pos, h.S_neg⟩
      show st.U + st.dU = _
      rw [h.U, q2, lerp_succ]
  · have hn' : t + 1 = n' := by omega
    obtain ⟨b1, b2, b3⟩ := hb'
    obtain ⟨r1, r2, r3, r4⟩ := nextStep_spec _ hs m m' b1
    have hm : m = t + 1 := by
      have := r4 n' p2
      omega
    subst hn'
    subst hm
    by_cases htn : t = n
    · subst htn
      have h1 : t + 1 - 1 ∈ fr.steps := by rw [show t + 1 - 1 = t by omega]; exact p1
      have hn : nextStep fr.steps (t + 1 - 1) = some (t + 1) := by
        rw [show t + 1 - 1 = t by omega]; exact a1
      rw [updateOne_new_mem fr st (t + 1) (t + 1) p2 h1 hn]
      refine ⟨rfl, ?_, ?_, ?_, ?_⟩
      · show fr.vel (t + 1) = _
        rw [lerp_self]
      · intro hc; omega
      · intro _ _; rfl
      · intro hc; omega
    · have hnt : n < t := by omega
      have h1 : t + 1 - 1 ∉ fr.steps := by
        rw [show t + 1 - 1 = t by omega]; exact fun hx => p4 _ hx ⟨hnt, a3⟩
      obtain ⟨q1, q2, q3⟩ := h.new hnt
      rw [updateOne_mem fr st (t + 1) p2 h1]
      refine ⟨rfl, ?_, ?_, ?_, ?_⟩
      · show st.Unew = _
        rw [lerp_self]; exact q1
      · intro hc; omega
      · intro _ _; exact q3
      · intro hc; omega

theorem inv_range {fr : Frames α} {g0 : Prop} {Si : α} (hs : Sorted fr.steps)
    {t n n' : Int} {st : St α} (ht : -1 ≤ t) (hb : Bracket fr.steps t n n')
    (h : Inv fr g0 Si t n n' st) :
    ∀ (k : Nat) (T : Int), T = t + k → ∀ m m', Bracket fr.steps T m m' →
      Inv fr g0 Si T m m' (updateRange fr st (t + 1) k)
  | 0, T, hT, m, m', hb' => by
    have : T = t := by omega
    subst this
    obtain ⟨rfl, rfl⟩ := bracket_unique hs hb hb'
    exact h
  | k + 1, T, hT, m, m', hb' => by
    obtain ⟨b1, b2, b3⟩ := hb'
    have hprev : ∃ q q', Bracket fr.steps (T - 1) q q' := by
      by_cases hm : m ≤ T - 1
      · exact ⟨m, m', b1, hm, by omega⟩
      · have hmT : m = T := by omega
        obtain ⟨r1, r2, r3, r4⟩ := nextStep_spec _ hs m m' b1
        obtain ⟨p1, _, _, _⟩ := nextStep_spec _ hs n n' hb.1
        obtain ⟨q, hq⟩ := prev_exists _ hs m r1 ⟨n, p1, by have := hb.2.1; omega⟩
        obtain ⟨s1, s2, s3, s4⟩ := nextStep_spec _ hs q m hq
        exact ⟨q, m, hq, by omega, by omega⟩
    obtain ⟨q, q', hq⟩ := hprev
    have ih := inv_range hs ht hb h k (T - 1) (by omega) q q' hq
    rw [updateRange_snoc]
    have := inv_step hs (by omega) hq
      (show Bracket fr.steps (T - 1 + 1) m m' from ⟨b1, by omega, by omega⟩) ih
    rw [show T - 1 + 1 = T by omega] at this
    rw [show t + 1 + (k : Int) = T by omega]
    exact this

end inv2

/-! ### initialisation -/

theorem prestep_foldl (f : Option Int → Int → Option Int)
    (f1 : ∀ s, s < 0 → f none s = some s) (f2 : ∀ a s, s < 0 → f (some a) s = some (max a s))
    (f3 : ∀ acc s, ¬ s < 0 → f acc s = acc) :
    ∀ (l : List Int) (acc : Option Int) (p : Int), l.foldl f acc = some p →
      ((p ∈ l ∧ p < 0) ∨ acc = some p) ∧ (∀ x ∈ l, x < 0 → x ≤ p) ∧ (∀ a, acc = some a → a ≤ p)
  | [], acc, p, h => by
    simp only [List.foldl_nil] at h
    subst h
    refine ⟨Or.inr rfl, by simp, ?_⟩
    intro a ha; injection ha with ha; omega
  | s :: l, acc, p, h => by
    rw [List.foldl_cons] at h
    obtain ⟨i1, i2, i3⟩ := prestep_foldl f f1 f2 f3 l (f acc s) p h
    by_cases hs : s < 0
    · cases acc with
      | none =>
        rw [f1 s hs] at i1 i3
        have hsp := i3 s rfl
        refine ⟨Or.inl ?_, ?_, by simp⟩
        · rcases i1 with ⟨h1, h2⟩ | h1
          · exact ⟨List.mem_cons_of_mem _ h1, h2⟩
          · injection h1 with h1; subst h1; exact ⟨by simp, hs⟩
        · intro x hx hx0
          rcases List.mem_cons.mp hx with rfl | hx
          · exact hsp
          · exact i2 x hx hx0
      | some a =>
        rw [f2 a s hs] at i1 i3
        have hsp := i3 _ rfl
        refine ⟨?_, ?_, ?_⟩
        · rcases i1 with ⟨h1, h2⟩ | h1
          · exact Or.inl ⟨List.mem_cons_of_mem _ h1, h2⟩
          · injection h1 with h1
            rcases le_total a s with has | has
            · rw [max_eq_right has] at h1; subst h1; exact Or.inl ⟨by simp, hs⟩
            · rw [max_eq_left has] at h1; subst h1; exact Or.inr rfl
        · intro x hx hx0
          rcases List.mem_cons.mp hx with rfl | hx
          · exact le_trans (le_max_right _ _) hsp
          · exact i2 x hx hx0
        · intro b hb; injection hb with hb; subst hb
          exact le_trans (le_max_left _ _) hsp
    · rw [f3 acc s hs] at i1 i3
      refine ⟨?_, ?_, i3⟩
      · rcases i1 with ⟨h1, h2⟩ | h1
        · exact Or.inl ⟨List.mem_cons_of_mem _ h1, h2⟩
        · exact Or.inr h1
      · intro x hx hx0
        rcases List.mem_cons.mp hx with rfl | hx
        · exact absurd hx0 hs
        · exact i2 x hx hx0

/-- `prestepOf` is the largest negative forcing step -/
theorem prestepOf_spec (steps : List Int) (p : Int) (h : prestepOf steps = some p) :
    p ∈ steps ∧ p < 0 ∧ ∀ x ∈ steps, x < 0 → x ≤ p := by
  unfold prestepOf at h
  obtain ⟨i1, i2, _⟩ := prestep_foldl _ (by intro s hs; simp [hs]) (by intro a s hs; simp [hs])
    (by intro acc s hs; simp [hs]) steps none p h
  rcases i1 with ⟨h1, h2⟩ | h1
  · exact ⟨h1, h2, i2⟩
  · cases h1

/-- the divisor of the initial scalar increment -/
def prestepDivisor (pd : PrestepDiv) (p nx : Int) : Int :=
  match pd with | .prestep => p | .stepdiff => nx - p

/-- the initial `Snew` when the simulation starts on a frame -/
def scalarNew0 (si : ScalarInit) (fr : Frames α) (s1 : Int) : α :=
  match si with | .next => fr.sc s1 | .current => fr.sc 0

section initlemmas
omit [LinearOrder α] [IsStrictOrderedRing α]

/-- the state built by `init` when forcing exists before the start -/
theorem init_prestep (pd : PrestepDiv) (si : ScalarInit) (fr : Frames α) (st0 : St α) (p : Int)
    (hp : prestepOf fr.steps = some p) (h : init pd si fr = some st0) :
    ∃ nx, nextStep fr.steps p = some nx ∧
      st0 = ⟨fr.vel p - ((p + 1 : Int) : α) * ((fr.vel nx - fr.vel p) / ((nx - p : Int) : α)), fr.vel nx,
        (fr.vel nx - fr.vel p) / ((nx - p : Int) : α),
        fr.sc p - ((p + 1 : Int) : α) * ((fr.sc nx - fr.sc p) /
          ((prestepDivisor pd p nx : Int) : α)), fr.sc nx, -1⟩ := by
  unfold init at h
  rw [hp] at h
  simp only at h
  cases hn : nextStep fr.steps p with
  | none => rw [hn] at h; simp at h
  | some nx =>
    rw [hn] at h
    refine ⟨nx, rfl, ?_⟩
    simp only [Option.some.injEq] at h
    rw [← h]
    rfl

/-- the state built by `init` when the simulation starts on a frame -/
theorem init_on_frame (pd : PrestepDiv) (si : ScalarInit) (fr : Frames α) (st0 : St α)
    (hp : prestepOf fr.steps = none) (h : init pd si fr = some st0) :
    ∃ s1 rest, fr.steps = 0 :: s1 :: rest ∧
      st0 = ⟨fr.vel 0 - (fr.vel s1 - fr.vel 0) / ((s1 : Int) : α), fr.vel 0,
        (fr.vel s1 - fr.vel 0) / ((s1 : Int) : α), fr.sc 0 - (fr.sc s1 - fr.sc 0) / ((s1 : Int) : α),
        scalarNew0 si fr s1, -1⟩ := by
  unfold init at h
  rw [hp] at h
  simp only at h
  split at h
  · rename_i s1 rest heq
    refine ⟨s1, rest, heq, ?_⟩
    simp only [Option.some.injEq] at h
    rw [← h]
    rfl
  · simp at h

end initlemmas

/-! ### the invariant holds after every processed step -/

/-- the scalar field at step 0 is the frame of step 0: either the initialisation is synchronised or
forcing exists before the start -/
def Good0 (si : ScalarInit) (steps : List Int) : Prop := si = .current ∨ prestepOf steps ≠ none

section main
omit [LinearOrder α] [IsStrictOrderedRing α]

theorem inv_init_prestep (pd : PrestepDiv) (si : ScalarInit) (fr : Frames α) (st0 : St α) (p : Int)
    (g0 : Prop) (hs : Sorted fr.steps) (hp : prestepOf fr.steps = some p) (h : init pd si fr = some st0) :
    ∃ nx, Bracket fr.steps (-1) p nx ∧ Inv fr g0 st0.S (-1) p nx st0 := by
  obtain ⟨nx, hn, rfl⟩ := init_prestep pd si fr st0 p hp h
  obtain ⟨p1, p2, p3⟩ := prestepOf_spec _ _ hp
  obtain ⟨q1, q2, q3, q4⟩ := nextStep_spec _ hs p nx hn
  have hnx : 0 ≤ nx := by
    by_contra hc
    have := p3 nx q2 (by omega); omega
  refine ⟨nx, ⟨hn, by omega, by omega⟩, rfl, ?_, ?_, ?_, ?_⟩
  · show fr.vel p - _ = _
    unfold lerp
    push_cast; ring
  · intro _; exact ⟨rfl, rfl, rfl⟩
  · intro h0; omega
  · intro _; rfl

theorem inv_init_on_frame (pd : PrestepDiv) (si : ScalarInit) (fr : Frames α) (st0 : St α)
    (g0 : Prop) (hg : g0 → si = .current) (hs : Sorted fr.steps) (hp : prestepOf fr.steps = none)
    (h : init pd si fr = some st0) :
    ∃ s1, Bracket fr.steps 0 0 s1 ∧ Inv fr g0 st0.S 0 0 s1 (updateOne fr st0 0) := by
  obtain ⟨s1, rest, heq, rfl⟩ := init_on_frame pd si fr st0 hp h
  rw [heq] at hs
  have h01 : ∀ x ∈ s1 :: rest, 0 < x := (List.pairwise_cons.mp hs).1
  have hmem : (0 : Int) ∈ fr.steps := by rw [heq]; simp
  have hnm : (0 : Int) - 1 ∉ fr.steps := by
    rw [heq]; intro hx
    rcases List.mem_cons.mp hx with hx | hx
    · omega
    · have := h01 _ hx; omega
  have hn : nextStep fr.steps 0 = some s1 := by rw [heq]; simp [nextStep]
  refine ⟨s1, ⟨hn, le_refl _, h01 s1 (by simp)⟩, ?_⟩
  rw [updateOne_mem fr _ 0 hmem hnm]
  refine ⟨rfl, ?_, ?_, ?_, ?_⟩
  · show fr.vel 0 = _
    rw [lerp_self]
  · intro hc; omega
  · intro _ hc
    rcases hc with hc | hc
    · omega
    · have := hg hc; subst this; rfl
  · intro hc; omega

/-- the state after processing the steps `0 … T` -/
theorem inv_main (pd : PrestepDiv) (si : ScalarInit) (fr : Frames α) (st0 : St α) (hs : Sorted fr.steps)
    (h : init pd si fr = some st0) (T : Nat) (n n' : Int) (hb : Bracket fr.steps (T : Int) n n') :
    Inv fr (Good0 si fr.steps) st0.S T n n' (updateRange fr st0 0 (T + 1)) := by
  cases hp : prestepOf fr.steps with
  | none =>
    obtain ⟨s1, hb0, hinv⟩ := inv_init_on_frame pd si fr st0 (Good0 si fr.steps)
      (by intro hg; rcases hg with hg | hg
          · exact hg
          · exact absurd hp hg) hs hp h
    have := inv_range hs (by omega) hb0 hinv T (T : Int) (by omega) n n' hb
    rw [updateRange_succ]
    exact this
  | some p =>
    obtain ⟨nx, hb0, hinv⟩ := inv_init_prestep pd si fr st0 p (Good0 si fr.steps) hs hp h
    have := inv_range hs (le_refl _) hb0 hinv (T + 1) (T : Int) (by push_cast; omega) n n' hb
    rw [show (-1 : Int) + 1 = 0 by norm_num] at this
    exact this

/-- **C06, velocity.** After `init`, processing the steps `0, 1, …, T` one by one leaves the velocity
equal to the linear interpolation in time between the two frames enclosing `T`. -/
theorem velocity_consecutive (pd : PrestepDiv) (si : ScalarInit) (fr : Frames α) (st0 : St α)
    (hs : Sorted fr.steps) (h : init pd si fr = some st0) (T : Nat) (n n' : Int)
    (hb : Bracket fr.steps (T : Int) n n') :
    (updateRange fr st0 0 (T + 1)).U = lerp fr T n n' ∧ (updateRange fr st0 0 (T + 1)).last = T := by
  have := inv_main pd si fr st0 hs h T n n' hb
  exact ⟨this.U, this.last⟩

/-! ## 3. every schedule -/

theorem run_loop_eq_range (fr : Frames α) : ∀ (sched : List Int) (st : St α) (l T : Int), st.last = l →
    List.Pairwise (· < ·) sched → (∀ x ∈ sched, l < x) → sched.getLast? = some T →
    run .loop fr st sched = updateRange fr st (l + 1) (T - l).toNat
  | [], st, l, T, _, _, _, hT => by simp at hT
  | [t], st, l, T, hl, _, hx, hT => by
    simp at hT; subst hT
    have := hx t (by simp)
    simp only [run, List.foldl, update]
    rw [if_pos (by omega), hl]
  | t :: t2 :: rest, st, l, T, hl, hp, hx, hT => by
    have hlt := hx t (by simp)
    have hp' := (List.pairwise_cons.mp hp).2
    have ht : ∀ x ∈ t2 :: rest, t < x := (List.pairwise_cons.mp hp).1
    rw [List.getLast?_cons_cons] at hT
    have hstep : update .loop fr st t = updateRange fr st (l + 1) (t - l).toNat := by
      simp only [update]; rw [if_pos (by omega), hl]
    have hlast : (update .loop fr st t).last = t := by
      rw [hstep]
      obtain ⟨k, hk⟩ : ∃ k, (t - l).toNat = k + 1 := ⟨(t - l).toNat - 1, by omega⟩
      rw [hk, updateRange_last]; omega
    have ih := run_loop_eq_range fr (t2 :: rest) (update .loop fr st t) t T hlast hp' ht hT
    show run .loop fr (update .loop fr st t) (t2 :: rest) = _
    rw [ih, hstep]
    have hTt : t < T := ht T (List.mem_of_getLast? hT)
    have := updateRange_add fr (t - l).toNat st (l + 1) (T - t).toNat
    rw [show l + 1 + ((t - l).toNat : Int) = t + 1 by omega,
      show (t - l).toNat + (T - t).toNat = (T - l).toNat by omega] at this
    exact this

/-- with the catch-up loop, any increasing schedule of calls ending at step `T` leaves the same state
as processing the steps `0 … T` one by one -/
theorem update_loop_eq_range (fr : Frames α) (st : St α) (hl : st.last = -1) (sched : List Int)
    (hp : List.Pairwise (· < ·) sched) (h0 : ∀ x ∈ sched, 0 ≤ x) (T : Int)
    (hT : sched.getLast? = some T) :
    run .loop fr st sched = updateRange fr st 0 (T.toNat + 1) := by
  have hT0 := h0 T (List.mem_of_getLast? hT)
  have := run_loop_eq_range fr sched st (-1) T hl hp (fun x hx => by have := h0 x hx; omega) hT
  rw [show (-1 : Int) + 1 = 0 by norm_num, show (T - -1).toNat = T.toNat + 1 by omega] at this
  exact this

theorem init_last (pd : PrestepDiv) (si : ScalarInit) (fr : Frames α) (st0 : St α)
    (h : init pd si fr = some st0) : st0.last = -1 := by
  cases hp : prestepOf fr.steps with
  | none => obtain ⟨s1, rest, _, rfl⟩ := init_on_frame pd si fr st0 hp h; rfl
  | some p => obtain ⟨nx, _, rfl⟩ := init_prestep pd si fr st0 p hp h; rfl

/-- **C06, velocity, every run schedule.** -/
theorem velocity_any_schedule (pd : PrestepDiv) (si : ScalarInit) (fr : Frames α) (st0 : St α)
    (hs : Sorted fr.steps) (h : init pd si fr = some st0) (sched : List Int)
    (hp : List.Pairwise (· < ·) sched) (h0 : ∀ x ∈ sched, 0 ≤ x) (T : Int)
    (hT : sched.getLast? = some T) (n n' : Int) (hb : Bracket fr.steps T n n') :
    (run .loop fr st0 sched).U = lerp fr T n n' := by
  have hT0 := h0 T (List.mem_of_getLast? hT)
  rw [update_loop_eq_range fr st0 (init_last pd si fr st0 h) sched hp h0 T hT]
  have e : ((T.toNat : Nat) : Int) = T := Int.toNat_of_nonneg hT0
  have := (velocity_consecutive pd si fr st0 hs h T.toNat n n' (by rw [e]; exact hb)).1
  rw [e] at this
  exact this

end main

/-! ## 4. the scalar field -/

section scalars
omit [LinearOrder α] [IsStrictOrderedRing α]

/-- a successful `init` means there is a forcing frame at or before the start -/
theorem exists_le_start (pd : PrestepDiv) (si : ScalarInit) (fr : Frames α) (st0 : St α)
    (h : init pd si fr = some st0) : ∃ x ∈ fr.steps, x ≤ 0 := by
  cases hp : prestepOf fr.steps with
  | none =>
    obtain ⟨s1, rest, heq, _⟩ := init_on_frame pd si fr st0 hp h
    exact ⟨0, by rw [heq]; simp, le_refl _⟩
  | some p =>
    obtain ⟨p1, p2, _⟩ := prestepOf_spec _ _ hp
    exact ⟨p, p1, by omega⟩

/-- on a forcing step after the start both fields are exactly the frame (also on the last frame) -/
theorem on_frame (pd : PrestepDiv) (si : ScalarInit) (fr : Frames α) (st0 : St α)
    (hs : Sorted fr.steps) (h : init pd si fr = some st0) (T : Nat) (hT : (T : Int) ∈ fr.steps)
    (hpos : 0 < T) :
    (updateRange fr st0 0 (T + 1)).U = fr.vel T ∧ (updateRange fr st0 0 (T + 1)).S = fr.sc T := by
  obtain ⟨T', rfl⟩ : ∃ T', T = T' + 1 := ⟨T - 1, by omega⟩
  obtain ⟨x, hx, hx0⟩ := exists_le_start pd si fr st0 h
  obtain ⟨q, hq⟩ := prev_exists _ hs _ hT ⟨x, hx, by push_cast; omega⟩
  obtain ⟨q1, q2, q3, q4⟩ := nextStep_spec _ hs _ _ hq
  have hb : Bracket fr.steps (T' : Int) q ((T' + 1 : Nat) : Int) := ⟨hq, by push_cast at q3; omega, by push_cast; omega⟩
  have hinv := inv_main pd si fr st0 hs h T' q _ hb
  rw [updateRange_snoc]
  have e : (0 : Int) + ((T' + 1 : Nat) : Int) = ((T' + 1 : Nat) : Int) := by omega
  rw [e]
  by_cases hq' : (T' : Int) ∈ fr.steps
  · have hqT : q = T' := by
      have := q4 _ hq'
      push_cast at this q3 ⊢; omega
    subst hqT
    have h1 : ((T' + 1 : Nat) : Int) - 1 ∈ fr.steps := by
      rw [show ((T' + 1 : Nat) : Int) - 1 = T' by push_cast; omega]; exact hq'
    have hn : nextStep fr.steps (((T' + 1 : Nat) : Int) - 1) = some ((T' + 1 : Nat) : Int) := by
      rw [show ((T' + 1 : Nat) : Int) - 1 = T' by push_cast; omega]; exact hq
    rw [updateOne_new_mem fr _ _ _ hT h1 hn]
    exact ⟨rfl, rfl⟩
  · have h1 : ((T' + 1 : Nat) : Int) - 1 ∉ fr.steps := by
      rw [show ((T' + 1 : Nat) : Int) - 1 = T' by push_cast; omega]; exact hq'
    have hlt : q < T' := by
      rcases lt_or_eq_of_le hb.2.1 with hlt | heq
      · exact hlt
      · rw [heq] at q1; exact absurd q1 hq'
    obtain ⟨n1, n2, n3⟩ := hinv.new hlt
    rw [updateOne_mem fr _ _ hT h1]
    exact ⟨n1, n3⟩

/-- **C06, scalar, on a frame.** -/
theorem scalar_on_frame (pd : PrestepDiv) (si : ScalarInit) (fr : Frames α) (st0 : St α)
    (hs : Sorted fr.steps) (h : init pd si fr = some st0) (T : Nat) (hT : (T : Int) ∈ fr.steps)
    (hpos : 0 < T) : (updateRange fr st0 0 (T + 1)).S = fr.sc T :=
  (on_frame pd si fr st0 hs h T hT hpos).2

/-- the velocity on a frame is the frame, also on the last one (which has no enclosing bracket) -/
theorem velocity_on_frame (pd : PrestepDiv) (si : ScalarInit) (fr : Frames α) (st0 : St α)
    (hs : Sorted fr.steps) (h : init pd si fr = some st0) (T : Nat) (hT : (T : Int) ∈ fr.steps)
    (hpos : 0 < T) : (updateRange fr st0 0 (T + 1)).U = fr.vel T :=
  (on_frame pd si fr st0 hs h T hT hpos).1

/-- **C06, scalar, between frames**: the field is held at the value of the last frame -/
theorem scalar_held (pd : PrestepDiv) (si : ScalarInit) (fr : Frames α) (st0 : St α)
    (hs : Sorted fr.steps) (h : init pd si fr = some st0) (T : Nat) (n n' : Int)
    (hb : Bracket fr.steps (T : Int) n n') (h0 : 0 ≤ n) (hn : 0 < n ∨ (n = 0 ∧ si = .current)) :
    (updateRange fr st0 0 (T + 1)).S = fr.sc n := by
  refine (inv_main pd si fr st0 hs h T n n' hb).S_pos h0 ?_
  rcases hn with hn | ⟨_, hn⟩
  · exact Or.inl hn
  · exact Or.inr (Or.inl hn)

/-- … also from step 0 on when forcing exists before the start and step 0 is a frame -/
theorem scalar_held_after_prestep (pd : PrestepDiv) (si : ScalarInit) (fr : Frames α) (st0 : St α)
    (hs : Sorted fr.steps) (h : init pd si fr = some st0) (hp : prestepOf fr.steps ≠ none) (T : Nat)
    (n n' : Int) (hb : Bracket fr.steps (T : Int) n n') (h0 : 0 ≤ n) :
    (updateRange fr st0 0 (T + 1)).S = fr.sc n :=
  (inv_main pd si fr st0 hs h T n n' hb).S_pos h0 (Or.inr (Or.inr hp))

/-- starting on a frame with the synchronised initialisation, the field at t = 0 is the frame of t = 0
(with `ScalarInit.next`, the code as it is, it is the *next* frame: `C06.scalar_t0_fails`) -/
theorem scalar_on_frame_t0 (pd : PrestepDiv) (fr : Frames α) (st0 : St α) (s1 : Int) (rest : List Int)
    (hs : Sorted fr.steps) (heq : fr.steps = 0 :: s1 :: rest)
    (h : init pd .current fr = some st0) : (updateRange fr st0 0 1).S = fr.sc 0 := by
  have hs' := hs
  rw [heq] at hs'
  have h01 : ∀ x ∈ s1 :: rest, 0 < x := (List.pairwise_cons.mp hs').1
  have hb : Bracket fr.steps ((0 : Nat) : Int) 0 s1 :=
    ⟨by rw [heq]; simp [nextStep], le_refl _, by simpa using h01 s1 (by simp)⟩
  exact (inv_main pd .current fr st0 hs h 0 0 s1 hb).S_pos (le_refl _) (Or.inr (Or.inl rfl))

/-- **C06, scalar, before the first frame of the run**: with the increment divided by the frame
distance, the field is the interpolated value one step before the start -/
theorem scalar_before_first_frame (si : ScalarInit) (fr : Frames α) (st0 : St α) (p : Int)
    (hs : Sorted fr.steps) (hp : prestepOf fr.steps = some p) (h : init .stepdiff si fr = some st0)
    (T : Nat) (n' : Int) (hb : Bracket fr.steps (T : Int) p n') :
    (updateRange fr st0 0 (T + 1)).S = lerpS fr (-1) p n' := by
  obtain ⟨p1, p2, _⟩ := prestepOf_spec _ _ hp
  rw [(inv_main .stepdiff si fr st0 hs h T p n' hb).S_neg p2]
  obtain ⟨nx, hn, rfl⟩ := init_prestep .stepdiff si fr st0 p hp h
  have : nx = n' := by
    have := hb.1; rw [hn] at this; injection this
  subst this
  show fr.sc p - _ = _
  unfold lerpS prestepDivisor
  push_cast; ring

end scalars

/-- a value interpolated between two frames lies between them -/
theorem lerpS_between (fr : Frames α) (t n n' : Int) (h1 : n ≤ t) (h2 : t ≤ n') (h3 : n < n') :
    min (fr.sc n) (fr.sc n') ≤ lerpS fr t n n' ∧ lerpS fr t n n' ≤ max (fr.sc n) (fr.sc n') := by
  unfold lerpS
  have hd : (0 : α) < ((n' - n : Int) : α) := by exact_mod_cast (by omega : (0 : Int) < n' - n)
  have hw0 : (0 : α) ≤ ((t - n : Int) : α) / ((n' - n : Int) : α) := by
    apply div_nonneg _ hd.le
    exact_mod_cast (by omega : (0 : Int) ≤ t - n)
  have hw1 : ((t - n : Int) : α) / ((n' - n : Int) : α) ≤ 1 := by
    rw [div_le_one hd]
    exact_mod_cast (by omega : t - n ≤ n' - n)
  generalize ((t - n : Int) : α) / ((n' - n : Int) : α) = w at hw0 hw1
  rcases le_total (fr.sc n) (fr.sc n') with hab | hab
  · rw [min_eq_left hab, max_eq_right hab]
    constructor <;>
      nlinarith [mul_nonneg hw0 (sub_nonneg.mpr hab), mul_nonneg (sub_nonneg.mpr hw1) (sub_nonneg.mpr hab)]
  · rw [min_eq_right hab, max_eq_left hab]
    constructor <;>
      nlinarith [mul_nonneg hw0 (sub_nonneg.mpr hab), mul_nonneg (sub_nonneg.mpr hw1) (sub_nonneg.mpr hab)]

/-- … so before the first frame of the run the field lies between the two enclosing frames
(dividing by `prestep` instead it does not: `C06.scalar_prestep_fails`) -/
theorem scalar_between (si : ScalarInit) (fr : Frames α) (st0 : St α) (p : Int)
    (hs : Sorted fr.steps) (hp : prestepOf fr.steps = some p) (h : init .stepdiff si fr = some st0)
    (T : Nat) (n' : Int) (hb : Bracket fr.steps (T : Int) p n') :
    min (fr.sc p) (fr.sc n') ≤ (updateRange fr st0 0 (T + 1)).S ∧
      (updateRange fr st0 0 (T + 1)).S ≤ max (fr.sc p) (fr.sc n') := by
  rw [scalar_before_first_frame si fr st0 p hs hp h T n' hb]
  obtain ⟨_, p2, _⟩ := prestepOf_spec _ _ hp
  have := hb.2.2
  exact lerpS_between fr (-1) p n' (by omega) (by omega) (by omega)

end C06
