import LadimProofs.Laws
import LadimProofs.InterpLemmas
import LadimModel.IBM.Develop
import LadimModel.IBM.Bio
/-!
# C09 — development never runs backwards and switches behaviour at its thresholds
-/
open Ladim Ladim.Dev
set_option linter.unusedSectionVars false
set_option linter.unusedVariables false

namespace C09
variable {α : Type} [Field α] [LinearOrder α] [IsStrictOrderedRing α]
variable [HasSqrt α] [HasExp α] [HasLog α] [HasSin α] [HasCos α] [HasAsin α] [HasRpow α] [HasPi α]

/-! ## sand eel: hatch time -/

theorem quad3_knots (d0 d1 d2 : α) :
    quad3 d0 d1 d2 0 = d0 ∧ quad3 d0 d1 d2 (1 / 2) = d1 ∧ quad3 d0 d1 d2 1 = d2 := by
  unfold quad3; refine ⟨?_, ?_, ?_⟩ <;> norm_num <;> ring

theorem lerp_pos (a b w : α) (ha : 0 < a) (hb : 0 < b) (h0 : 0 ≤ w) (h1 : w ≤ 1) :
    0 < a + (b - a) * w := by
  have : a + (b - a) * w = a * (1 - w) + b * w := by ring
  rw [this]
  rcases eq_or_lt_of_le h0 with h | h
  · rw [← h]; simpa using ha
  · have := mul_pos hb h
    have := mul_nonneg ha.le (sub_nonneg.mpr h1)
    linarith

/-- the published table is reproduced at its knots (rates 0, ½, 1 × temperatures 2, 4, 7, 10) -/
theorem hatch_time_table :
    hatchTime (0 : α) 2 = 61 ∧ hatchTime (0 : α) 4 = 51 ∧ hatchTime (0 : α) 7 = 39 ∧ hatchTime (0 : α) 10 = 25 ∧
    hatchTime (1 / 2 : α) 2 = 82 ∧ hatchTime (1 / 2 : α) 4 = 67 ∧ hatchTime (1 / 2 : α) 7 = 48 ∧
    hatchTime (1 / 2 : α) 10 = 30 ∧
    hatchTime (1 : α) 2 = 135 ∧ hatchTime (1 : α) 4 = 116 ∧ hatchTime (1 : α) 7 = 82 ∧ hatchTime (1 : α) 10 = 55 := by
  unfold hatchTime quad3 fmin fmax
  norm_num

/-- temperatures outside the tabulated range are clamped to it -/
theorem hatch_time_clamps (rate temp : α) :
    (temp ≤ 2 → hatchTime rate temp = hatchTime rate 2) ∧ (10 ≤ temp → hatchTime rate temp = hatchTime rate 10) := by
  constructor
  · intro h
    have : fmin (10.0 : α) (fmax 2.0 temp) = fmin 10.0 (fmax 2.0 2) := by
      unfold fmin fmax; norm_num; split_ifs <;> first | rfl | (exfalso; linarith) | (intro hh; exfalso; linarith) | (apply le_antisymm <;> linarith)
    unfold hatchTime
    simp only [this]
  · intro h
    have : fmin (10.0 : α) (fmax 2.0 temp) = fmin 10.0 (fmax 2.0 10) := by
      unfold fmin fmax; norm_num; split_ifs <;> first | rfl | (exfalso; linarith) | (intro hh; exfalso; linarith) | (apply le_antisymm <;> linarith)
    unfold hatchTime
    simp only [this]

/-- total hatch time is positive for every hatch rate in `[0,1]` and every temperature -/
theorem hatch_time_pos (rate temp : α) (h0 : 0 ≤ rate) (h1 : rate ≤ 1) : 0 < hatchTime rate temp := by
  have hr2 : 0 ≤ rate * rate := mul_self_nonneg rate
  have q2 : 0 < quad3 (61.0 : α) 82.0 135.0 rate := by unfold quad3; norm_num; nlinarith
  have q4 : 0 < quad3 (51.0 : α) 67.0 116.0 rate := by unfold quad3; norm_num; nlinarith
  have q7 : 0 < quad3 (39.0 : α) 48.0 82.0 rate := by unfold quad3; norm_num; nlinarith
  have q10 : 0 < quad3 (25.0 : α) 30.0 55.0 rate := by unfold quad3; norm_num; nlinarith
  unfold hatchTime
  simp only []
  set t := fmin (10.0 : α) (fmax 2.0 temp) with ht
  have ht2 : 2 ≤ t := by
    rw [ht]; unfold fmin fmax; norm_num; split_ifs <;> linarith
  have ht10 : t ≤ 10 := by
    rw [ht]; unfold fmin fmax; norm_num; split_ifs <;> linarith
  split_ifs with ha hb
  · norm_num at ha
    exact lerp_pos _ _ _ q2 q4 (by norm_num; linarith) (by norm_num; rw [div_le_one (by norm_num)]; linarith)
  · norm_num at ha hb
    exact lerp_pos _ _ _ q4 q7 (by norm_num; linarith) (by norm_num; rw [div_le_one (by norm_num)]; linarith)
  · norm_num at ha hb
    exact lerp_pos _ _ _ q7 q10 (by norm_num; linarith) (by norm_num; rw [div_le_one (by norm_num)]; linarith)

/-! ## sand eel: eggs -/

theorem egg_rate (days dt : α) (p : Eel α) (h : p.stage < 1) :
    (eggDevelop days dt p).stage = p.stage + dt / (days * 86400) := by
  unfold eggDevelop Gen.sandeel_egg_increase
  have : p.stage < (1.0 : α) := by norm_num; exact h
  simp only [this, if_true]
  norm_num; ring_nf

theorem egg_stage_increases (days dt : α) (p : Eel α) (h : p.stage < 1) (hd : 0 < days) (hdt : 0 < dt) :
    p.stage < (eggDevelop days dt p).stage := by
  rw [egg_rate days dt p h]
  have : 0 < dt / (days * 86400) := div_pos hdt (by positivity)
  linarith

/-- eggs start drifting exactly when their stage reaches 1 -/
theorem egg_activates_iff (days dt : α) (p : Eel α) (h : p.stage < 1) :
    (eggDevelop days dt p).active = true ↔ 1 ≤ (eggDevelop days dt p).stage := by
  unfold eggDevelop
  have : p.stage < (1.0 : α) := by norm_num; exact h
  simp only [this, if_true, decide_eq_true_eq]
  norm_num

theorem egg_noop_on_others (days dt : α) (p : Eel α) (h : 1 ≤ p.stage) : eggDevelop days dt p = p := by
  unfold eggDevelop
  have : ¬ p.stage < (1.0 : α) := by norm_num; exact h
  simp [this]

/-! ## sand eel: larvae -/

/-- closed form of the generated larval step: `stage' = stage + dLdt·dt/86400/(Lm − L0)` -/
theorem larval_stage_eq (temp stage dt : α) :
    Gen.sandeel_larval_stage temp stage dt = stage +
      (exp (-1.725 + 0.136 * temp) * rpow ((7.73 + (stage - 1) * (40 - 7.73)) / 7.73) 0.316 *
        (1 - (7.73 + (stage - 1) * (40 - 7.73)) / 218)) * dt / 86400 / (40 - 7.73) := by
  unfold Gen.sandeel_larval_stage
  simp only [if_true]
  norm_num
  field_simp
  ring

theorem larva_stage_increases (hE : ExpLaws α) (hR : RpowLaws α) (temp stage dt : α)
    (h1 : 1 ≤ stage) (h2 : stage < 2) (hdt : 0 < dt) :
    stage < Gen.sandeel_larval_stage temp stage dt := by
  rw [larval_stage_eq]
  have hL : (0 : α) < (7.73 + (stage - 1) * (40 - 7.73)) / 7.73 := by
    apply div_pos _ (by norm_num); nlinarith
  have hx := hE.exp_pos (-1.725 + 0.136 * temp)
  have hp := hR.rpow_pos _ (0.316 : α) hL
  have hq : (0 : α) < 1 - (7.73 + (stage - 1) * (40 - 7.73)) / 218 := by
    rw [sub_pos, div_lt_one (by norm_num)]; nlinarith
  have : 0 < (exp (-1.725 + 0.136 * temp) * rpow ((7.73 + (stage - 1) * (40 - 7.73)) / 7.73) 0.316 *
        (1 - (7.73 + (stage - 1) * (40 - 7.73)) / 218)) * dt / 86400 / (40 - 7.73) := by
    apply div_pos (div_pos (mul_pos (mul_pos (mul_pos hx hp) hq) hdt) (by norm_num)) (by norm_num)
  linarith

/-- larvae stop drifting exactly when their stage reaches 2 -/
theorem larva_deactivates_iff (temp dt : α) (p : Eel α) (h1 : 1 ≤ p.stage) (h2 : p.stage < 2) :
    (larvaDevelop temp dt p).active = true ↔ (larvaDevelop temp dt p).stage < 2 := by
  unfold larvaDevelop
  have : (1.0 : α) ≤ p.stage ∧ p.stage < 2.0 := by norm_num; exact ⟨h1, h2⟩
  simp only [this, and_self, if_true, decide_eq_true_eq]
  norm_num

theorem larva_noop_on_others (temp dt : α) (p : Eel α) (h : p.stage < 1 ∨ 2 ≤ p.stage) :
    larvaDevelop temp dt p = p := by
  unfold larvaDevelop
  have : ¬ ((1.0 : α) ≤ p.stage ∧ p.stage < 2.0) := by
    norm_num; intro h1; rcases h with h | h
    · linarith
    · exact h
  simp [this]

/-- the whole development step never lowers the stage -/
theorem sandeel_stage_monotone (hE : ExpLaws α) (hR : RpowLaws α) (bt temp hr dt : α) (p : Eel α)
    (hr0 : 0 ≤ hr) (hr1 : hr ≤ 1) (hdt : 0 < dt) :
    p.stage ≤ (sandeelDevelop bt temp hr dt p).stage := by
  unfold sandeelDevelop
  have hd := hatch_time_pos hr bt hr0 hr1
  have e1 : p.stage ≤ (eggDevelop (hatchTime hr bt) dt p).stage := by
    by_cases h : p.stage < 1
    · exact (egg_stage_increases _ dt p h hd hdt).le
    · rw [egg_noop_on_others _ _ p (not_lt.mp h)]
  refine le_trans e1 ?_
  set q := eggDevelop (hatchTime hr bt) dt p
  by_cases h : 1 ≤ q.stage ∧ q.stage < 2
  · have : (larvaDevelop temp dt q).stage = Gen.sandeel_larval_stage temp q.stage dt := by
      unfold larvaDevelop
      have : (1.0 : α) ≤ q.stage ∧ q.stage < 2.0 := by norm_num; exact h
      simp only [this, and_self, if_true]
    rw [this]
    exact (larva_stage_increases hE hR temp q.stage dt h.1 h.2 hdt).le
  · rw [larva_noop_on_others temp dt q (by
      rcases not_and_or.mp h with h' | h'
      · exact Or.inl (not_le.mp h')
      · exact Or.inr (not_lt.mp h'))]

/-- … over every history of updates -/
theorem sandeel_history_monotone (hE : ExpLaws α) (hR : RpowLaws α) (hr dt : α)
    (hr0 : 0 ≤ hr) (hr1 : hr ≤ 1) (hdt : 0 < dt) (steps : List (α × α)) (p : Eel α) :
    p.stage ≤ (steps.foldl (fun q s => sandeelDevelop s.1 s.2 hr dt q) p).stage := by
  induction steps generalizing p with
  | nil => simp
  | cons s ss ih =>
    simp only [List.foldl]
    exact le_trans (sandeel_stage_monotone hE hR s.1 s.2 hr dt p hr0 hr1 hdt) (ih _)

/-! ## shrimp -/
open Ladim.Bio

theorem shrimp_delta_stage_nonneg (temp dt : α) (hdt : 0 ≤ dt) : 0 ≤ Gen.shrimp_delta_stage temp dt := by
  unfold Gen.shrimp_delta_stage
  simp only []
  have ht : (3 : α) ≤ fmin (fmax temp 3.0) 8.0 ∧ fmin (fmax temp 3.0) 8.0 ≤ 8 := by
    unfold fmin fmax; norm_num; split_ifs <;> constructor <;> linarith
  set t := fmin (fmax temp 3.0) 8.0
  apply div_nonneg
  · apply mul_nonneg (div_nonneg hdt (by norm_num)); linarith [ht.1]
  · norm_num; nlinarith [ht.1]

theorem shrimp_delta_stage_pos (temp dt : α) (hdt : 0 < dt) : 0 < Gen.shrimp_delta_stage temp dt := by
  unfold Gen.shrimp_delta_stage
  simp only []
  have ht : (3 : α) ≤ fmin (fmax temp 3.0) 8.0 ∧ fmin (fmax temp 3.0) 8.0 ≤ 8 := by
    unfold fmin fmax; norm_num; split_ifs <;> constructor <;> linarith
  set t := fmin (fmax temp 3.0) 8.0
  apply div_pos
  · apply mul_pos (div_pos hdt (by norm_num)); linarith [ht.1]
  · norm_num; nlinarith [ht.1]

/-- shrimp stay within stages 1–6 -/
theorem shrimp_stage_range (temp dt stage : α) :
    1 ≤ shrimpStage temp dt stage ∧ shrimpStage temp dt stage ≤ 6 := by
  unfold shrimpStage npClip fmin fmax
  norm_num
  split_ifs <;> constructor <;> linarith

/-- … and never develop backwards (any temperature, in or outside the fitted range) -/
theorem shrimp_stage_monotone (temp dt stage : α) (hdt : 0 ≤ dt) (h6 : stage ≤ 6) :
    stage ≤ shrimpStage temp dt stage := by
  have hd := shrimp_delta_stage_nonneg temp dt hdt
  unfold shrimpStage npClip fmin fmax
  norm_num
  split_ifs <;> linarith

/-- the rate: below stage 6 the increment is exactly the published rate times the time step
`dt/86400 · T / (α + β·T)` with `T` clipped to `[3, 8]` -/
theorem shrimp_stage_rate (temp dt stage : α) (h1 : 1 ≤ stage)
    (h6 : stage + Gen.shrimp_delta_stage temp dt ≤ 6) (hdt : 0 ≤ dt) :
    shrimpStage temp dt stage = stage + Gen.shrimp_delta_stage temp dt := by
  have hd := shrimp_delta_stage_nonneg temp dt hdt
  unfold shrimpStage npClip fmin fmax
  norm_num
  split_ifs <;> linarith

theorem shrimp_length_table :
    shrimpLength (1 : α) = some 6.371 ∧ shrimpLength (2 : α) = some 7.480 ∧ shrimpLength (3 : α) = some 9.144 ∧
    shrimpLength (4 : α) = some 11.433 ∧ shrimpLength (5 : α) = some 12.088 ∧ shrimpLength (6 : α) = some 13.175 := by
  unfold shrimpLength interp
  simp only [interpGo]
  norm_num

/-- length grows with the stage -/
theorem shrimp_length_monotone (s₁ s₂ l₁ l₂ : α) (h : s₁ ≤ s₂)
    (e₁ : shrimpLength s₁ = some l₁) (e₂ : shrimpLength s₂ = some l₂) : l₁ ≤ l₂ := by
  unfold shrimpLength at e₁ e₂
  refine InterpLemmas.interp_mono _ _ s₁ s₂ l₁ l₂ ?_ ?_ h e₁ e₂
  · simp only [List.pairwise_cons, List.mem_cons, List.not_mem_nil, or_false, forall_eq_or_imp, forall_eq,
      List.Pairwise.nil, and_true]
    norm_num
  · simp only [List.pairwise_cons, List.mem_cons, List.not_mem_nil, or_false, forall_eq_or_imp, forall_eq,
      List.Pairwise.nil, and_true]
    norm_num

/-- … over every temperature history: the stage after any number of updates is not below the stage before, and
stays in `[1, 6]` (initial stage at most 6, time step non-negative) -/
theorem shrimp_history_monotone (dt : α) (hdt : 0 ≤ dt) (temps : List α) (stage : α) (h6 : stage ≤ 6) :
    stage ≤ temps.foldl (fun s t => shrimpStage t dt s) stage ∧
    temps.foldl (fun s t => shrimpStage t dt s) stage ≤ 6 := by
  induction temps generalizing stage with
  | nil => simp [h6]
  | cons t ts ih =>
    simp only [List.foldl]
    have h := ih (shrimpStage t dt stage) (shrimp_stage_range t dt stage).2
    exact ⟨le_trans (shrimp_stage_monotone t dt stage hdt h6) h.1, h.2⟩

/-- every prefix of a history is below every longer prefix: development never runs backwards between ANY two steps -/
theorem shrimp_history_prefix_monotone (dt : α) (hdt : 0 ≤ dt) (pre post : List α) (stage : α) (h6 : stage ≤ 6) :
    pre.foldl (fun s t => shrimpStage t dt s) stage ≤ (pre ++ post).foldl (fun s t => shrimpStage t dt s) stage := by
  rw [List.foldl_append]
  exact (shrimp_history_monotone dt hdt post _ (shrimp_history_monotone dt hdt pre stage h6).2).1

/-! ## cod / saithe larvae -/

/-- behaviour and growth switch on the degree-day age *before* this step's ageing -/
theorem egg_keeps_weight [HasNarrow α] (c : LarvaCfg α) (temp salt buoy l0 : α) (xi : Option α)
    (p : Larva α) (h : p.age ≤ c.hatchDay) : (larvaUpdate c temp salt buoy l0 xi p).weight = p.weight := by
  unfold larvaUpdate; simp [h]

theorem larva_weight_eq [HasNarrow α] (c : LarvaCfg α) (temp salt buoy l0 : α) (xi : Option α)
    (p : Larva α) (h : c.hatchDay < p.age) :
    (larvaUpdate c temp salt buoy l0 xi p).weight = larvaWeight c.initWeight temp c.dt p.weight := by
  unfold larvaUpdate; simp [not_le.mpr h]

/-- growth starts from the initial larval weight: a freshly hatched larva of any recorded weight
continues from at least `init_larvae_weight` -/
theorem larva_weight_floor (hE : ExpLaws α) (hL : LogLaws α) (init temp dt w : α)
    (hg : 0 ≤ Gen.larvae_growth temp (fmax w init) dt) : init ≤ larvaWeight init temp dt w := by
  unfold larvaWeight
  have : init ≤ fmax w init := by unfold fmax; split_ifs with h <;> [exact le_refl _; exact not_lt.mp h]
  linarith

/-- Folkvord's growth increment is positive for non-negative temperature whenever the specific
growth rate polynomial is positive, which holds on the whole size range of the model
(`log weight ∈ [-2.4, 8.5]`, i.e. 0.09 mg … 4900 mg): `growth_rate_pos`. -/
theorem growth_rate_pos (temp w : α) (ht : 0 ≤ temp) (hw0 : -2.4 ≤ w) (hw1 : w ≤ 8.5) :
    1.08 ≤ 1.08 + temp * (1.79 + w * (-0.074 + w * (-0.0965 + w * 0.0112))) := by
  have key : 0 ≤ 1.79 + w * (-0.074 + w * (-0.0965 + w * 0.0112)) := by
    norm_num at hw0 hw1 ⊢
    nlinarith [mul_self_nonneg (w - 6.1), mul_self_nonneg w, mul_nonneg (by linarith : (0:α) ≤ w + 2.4) (mul_self_nonneg (w - 6.1)),
      mul_nonneg (by linarith : (0:α) ≤ 8.5 - w) (mul_self_nonneg (w - 6.1)), mul_nonneg (by linarith : (0:α) ≤ w + 2.4) (by linarith : (0:α) ≤ 8.5 - w)]
  have := mul_nonneg ht key
  linarith

theorem growth_pos (hE : ExpLaws α) (hL : LogLaws α) (temp weight dt : α) (ht : 0 ≤ temp) (hw : 0 < weight)
    (hdt : 0 < dt) (hw0 : -2.4 ≤ log weight) (hw1 : log weight ≤ 8.5) :
    0 < Gen.larvae_growth temp weight dt := by
  unfold Gen.larvae_growth
  simp only []
  have hr := growth_rate_pos temp (log weight) ht hw0 hw1
  set G := 1.08 + temp * (1.79 + log weight * (-0.074 + log weight * (-0.0965 + log weight * 0.0112))) with hG
  have h1 : (1 : α) < 1.0 + 0.01 * G := by norm_num; norm_num at hr; linarith
  have h2 := hL.log_pos _ h1
  have h3 : 0 < log (1.0 + 0.01 * G) * (1.0 / 86400.0) * dt := by
    apply mul_pos (mul_pos h2 (by norm_num)) hdt
  have h4 := hE.exp_lt _ _ h3
  rw [hE.exp_zero] at h4
  have : 0 < exp (log (1.0 + 0.01 * G) * (1.0 / 86400.0) * dt) - 1.0 := by norm_num; linarith
  exact mul_pos this hw

/-- non-vacuity: the bundles are inhabited by the reals -/
example : ExpLaws ℝ ∧ RpowLaws ℝ ∧ LogLaws ℝ := ⟨RealInst.expLaws, RealInst.rpowLaws, RealInst.logLaws⟩

end C09
