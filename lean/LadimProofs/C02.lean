import LadimProofs.Basic
import Mathlib.Data.List.Sort
import Mathlib.Data.Int.Order.Basic
import Mathlib.Algebra.Order.Ring.Int
import LadimModel.Release.Dates
/-!
# C02 — release dates are ordered, inside their span and evenly spaced
-/
open Ladim.Dates
set_option linter.unusedVariables false

namespace C02

/-- every emitted date is a valid timestamp (never `NaT`) for every particle count ≥ 1 — including
exactly one particle -/
theorem valid_timestamp (perSec start stop : Int) (num i : Nat) :
    (releaseTime divisor perSec start stop num i).isSome = true := by
  unfold releaseTime tdivNaT divisor
  have : max ((num : Int) - 1) 1 ≠ 0 := by omega
  simp [this]

/-- the behaviour before the `fix:` commit: a single particle gets `NaT` -/
theorem single_particle_old_fails (perSec start stop : Int) :
    releaseTime divisorOld perSec start stop 1 0 = none := by
  unfold releaseTime tdivNaT divisorOld; simp

/-- explicit value -/
theorem releaseTime_eq (perSec start stop : Int) (num i : Nat) :
    releaseTime divisor perSec start stop num i =
      some (start + ((i : Int) * spanSeconds perSec start stop).tdiv (divisor num) * perSec) := by
  unfold releaseTime tdivNaT
  have : divisor num ≠ 0 := by unfold divisor; omega
  simp [this]

/-- the first release time is the first given date -/
theorem first_is_start (perSec start stop : Int) (num : Nat) :
    releaseTime divisor perSec start stop num 0 = some start := by
  rw [releaseTime_eq]; simp

/-- a single particle yields the (first) date itself -/
theorem single_particle (perSec start stop : Int) :
    dateRange divisor perSec start stop 1 = [some start] := by
  unfold dateRange
  simp [first_is_start]

/-- the last release time is the second date, to the whole second:
`start + ⌊(stop − start)/perSec⌋·perSec`, within one second below `stop` -/
theorem last_is_stop (perSec start stop : Int) (num : Nat) (hn : 2 ≤ num) (hp : 0 < perSec) :
    ∃ t, releaseTime divisor perSec start stop num (num - 1) = some t ∧ t ≤ stop ∧ stop - t < perSec := by
  obtain ⟨m, rfl⟩ : ∃ m, num = m + 2 := ⟨num - 2, by omega⟩
  refine ⟨start + spanSeconds perSec start stop * perSec, ?_, ?_, ?_⟩
  · rw [releaseTime_eq]
    have hd : divisor (m + 2) = (m : Int) + 1 := by unfold divisor; omega
    have hc : ((m + 2 - 1 : Nat) : Int) = (m : Int) + 1 := by omega
    rw [hd, hc, Int.mul_tdiv_cancel_left _ (by omega)]
  · unfold spanSeconds
    rw [Int.fdiv_eq_ediv_of_nonneg _ hp.le]
    have := Int.ediv_mul_le (stop - start) (ne_of_gt hp)
    omega
  · unfold spanSeconds
    rw [Int.fdiv_eq_ediv_of_nonneg _ hp.le]
    have := Int.lt_ediv_add_one_mul_self (stop - start) hp
    nlinarith

/-- exact whole-second spans: the last time *is* the second date -/
theorem last_is_stop_exact (perSec start stop : Int) (num : Nat) (hn : 2 ≤ num) (hp : 0 < perSec)
    (hdiv : perSec ∣ stop - start) :
    releaseTime divisor perSec start stop num (num - 1) = some stop := by
  obtain ⟨m, rfl⟩ : ∃ m, num = m + 2 := ⟨num - 2, by omega⟩
  rw [releaseTime_eq]
  have hd : divisor (m + 2) = (m : Int) + 1 := by unfold divisor; omega
  have hc : ((m + 2 - 1 : Nat) : Int) = (m : Int) + 1 := by omega
  rw [hd, hc, Int.mul_tdiv_cancel_left _ (by omega)]
  unfold spanSeconds
  rw [Int.fdiv_eq_ediv_of_nonneg _ hp.le, Int.ediv_mul_cancel hdiv]
  congr 1; omega

/-- truncated division is monotone in the numerator -/
theorem tdiv_mono (a b c : Int) (hc : 0 < c) (h : a ≤ b) : a.tdiv c ≤ b.tdiv c := by
  rcases le_or_gt 0 a with ha | ha
  · rw [Int.tdiv_eq_ediv_of_nonneg ha, Int.tdiv_eq_ediv_of_nonneg (le_trans ha h)]
    exact Int.ediv_le_ediv hc h
  · rcases le_or_gt 0 b with hb | hb
    · have h1 : a.tdiv c ≤ 0 := by
        have h0 : 0 ≤ (-a).tdiv c := Int.tdiv_nonneg (by omega) hc.le
        rw [Int.neg_tdiv] at h0; omega
      have h2 : 0 ≤ b.tdiv c := Int.tdiv_nonneg hb hc.le
      omega
    · -- both negative: tdiv a c = -((-a) / c)
      have ea : a.tdiv c = -((-a) / c) := by
        rw [show a = -(-a) by omega, Int.neg_tdiv, Int.tdiv_eq_ediv_of_nonneg (by omega)]; simp
      have eb : b.tdiv c = -((-b) / c) := by
        rw [show b = -(-b) by omega, Int.neg_tdiv, Int.tdiv_eq_ediv_of_nonneg (by omega)]; simp
      rw [ea, eb]
      have := Int.ediv_le_ediv hc (show -b ≤ -a by omega)
      omega

/-- non-negative span ⇒ release times are non-decreasing in the particle index, start at `start`
and never pass the last one -/
theorem monotone_of_nonneg_span (perSec start stop : Int) (num i j : Nat) (hp : 0 < perSec)
    (hs : 0 ≤ spanSeconds perSec start stop) (hij : i ≤ j) :
    ∀ a b, releaseTime divisor perSec start stop num i = some a →
      releaseTime divisor perSec start stop num j = some b → a ≤ b := by
  intro a b ha hb
  rw [releaseTime_eq] at ha hb
  simp only [Option.some.injEq] at ha hb
  subst ha hb
  have hd : 0 < divisor num := by unfold divisor; omega
  have : (i : Int) * spanSeconds perSec start stop ≤ (j : Int) * spanSeconds perSec start stop :=
    Int.mul_le_mul_of_nonneg_right (by exact_mod_cast hij) hs
  have := tdiv_mono _ _ _ hd this
  nlinarith

/-- reversed span ⇒ non-increasing -/
theorem antitone_of_neg_span (perSec start stop : Int) (num i j : Nat) (hp : 0 < perSec)
    (hs : spanSeconds perSec start stop ≤ 0) (hij : i ≤ j) :
    ∀ a b, releaseTime divisor perSec start stop num i = some a →
      releaseTime divisor perSec start stop num j = some b → b ≤ a := by
  intro a b ha hb
  rw [releaseTime_eq] at ha hb
  simp only [Option.some.injEq] at ha hb
  subst ha hb
  have hd : 0 < divisor num := by unfold divisor; omega
  have : (j : Int) * spanSeconds perSec start stop ≤ (i : Int) * spanSeconds perSec start stop :=
    Int.mul_le_mul_of_nonpos_right (by exact_mod_cast hij) hs
  have := tdiv_mono _ _ _ hd this
  nlinarith

/-- even spacing to the whole second: the emitted offset (in seconds) differs from the exact
`i·dt/(num−1)` by less than one second -/
theorem even_spacing (a c : Int) (hc : 0 < c) :
    ((a.tdiv c : Int) : ℚ) - (a : ℚ) / c < 1 ∧ (a : ℚ) / c - (a.tdiv c : Int) < 1 := by
  have hcq : (0 : ℚ) < c := by exact_mod_cast hc
  have key : (a : ℚ) = (a.tdiv c : Int) * c + (a.tmod c : Int) := by
    have : (c * a.tdiv c + a.tmod c : Int) = a := Int.mul_tdiv_add_tmod a c
    have h2 : ((c * a.tdiv c + a.tmod c : Int) : ℚ) = (a : ℚ) := by rw [this]
    push_cast at h2; linarith
  have hm1 : ((a.tmod c : Int) : ℚ) < c := by
    have := Int.tmod_lt_of_pos a hc; exact_mod_cast this
  have hm2 : -(c : ℚ) < ((a.tmod c : Int) : ℚ) := by
    have : -c < a.tmod c := by
      have := Int.tmod_lt_of_pos (-a) hc
      rw [Int.neg_tmod] at this; omega
    exact_mod_cast this
  have e : (a : ℚ) / c = (a.tdiv c : Int) + ((a.tmod c : Int) : ℚ) / c := by
    rw [key]; field_simp
  rw [e]
  constructor
  · have : -1 < ((a.tmod c : Int) : ℚ) / c := by rw [lt_div_iff₀ hcq]; linarith
    linarith
  · have : ((a.tmod c : Int) : ℚ) / c < 1 := by rw [div_lt_one hcq]; exact hm1
    linarith

/-- a single date or equal endpoints yield that date for every particle -/
theorem zero_span_constant (perSec start : Int) (num i : Nat) :
    releaseTime divisor perSec start start num i = some start := by
  rw [releaseTime_eq]
  unfold spanSeconds
  simp

/-- the table is sorted by the rendered date string; whenever rendering is strictly monotone
(ISO-8601 with fixed-width fields: validated against numpy on every run) the rows are in
non-decreasing time order -/
theorem sorted_after_sort {ρ κ : Type} [LinearOrder κ] (time : ρ → Int) (render : Int → κ)
    (hr : StrictMono render) (rows : List ρ)
    (hs : List.Pairwise (fun a b => render (time a) ≤ render (time b)) rows) :
    List.Pairwise (fun a b => time a ≤ time b) rows :=
  hs.imp (fun h => hr.le_iff_le.mp h)

/-- non-vacuity: 4 particles over 10 s: 0, 3, 6, 10 (truncation toward zero) -/
example : dateRange divisor 1 100 110 4 = [some 100, some 103, some 106, some 110] := by decide
example : dateRange divisor 1 110 100 4 = [some 110, some 107, some 104, some 100] := by decide
example : dateRange divisorOld 1 100 110 1 = [none] := by decide

/-! ## inside the span (explicit statement; follows from monotonicity and the end points) -/

theorem spanSeconds_nonneg (perSec start stop : Int) (hp : 0 < perSec) (h : start ≤ stop) :
    0 ≤ spanSeconds perSec start stop := by
  unfold spanSeconds
  rw [Int.fdiv_eq_ediv_of_nonneg _ hp.le]
  exact Int.ediv_nonneg (by omega) hp.le

/-- **inside the span**: with `start ≤ stop`, every one of the `num` release times lies in `[start, stop]` -/
theorem inside_span (perSec start stop : Int) (num i : Nat) (hp : 0 < perSec) (h : start ≤ stop) (hi : i < num) :
    ∃ t, releaseTime divisor perSec start stop num i = some t ∧ start ≤ t ∧ t ≤ stop := by
  have hs := spanSeconds_nonneg perSec start stop hp h
  refine ⟨_, releaseTime_eq perSec start stop num i, ?_, ?_⟩
  · exact monotone_of_nonneg_span perSec start stop num 0 i hp hs (Nat.zero_le _) _ _
      (first_is_start perSec start stop num) (releaseTime_eq perSec start stop num i)
  · by_cases hn : 2 ≤ num
    · obtain ⟨t, ht, hle, _⟩ := last_is_stop perSec start stop num hn hp
      exact le_trans (monotone_of_nonneg_span perSec start stop num i (num - 1) hp hs (by omega) _ _
        (releaseTime_eq perSec start stop num i) ht) hle
    · have : i = 0 := by omega
      subst this
      have := first_is_start perSec start stop num
      rw [releaseTime_eq] at this
      simp only [Option.some.injEq] at this
      omega

/-- the whole list: `num` valid times, each in `[start, stop]` -/
theorem dateRange_inside_span (perSec start stop : Int) (num : Nat) (hp : 0 < perSec) (h : start ≤ stop) :
    (dateRange divisor perSec start stop num).length = num ∧
    ∀ x ∈ dateRange divisor perSec start stop num, ∃ t, x = some t ∧ start ≤ t ∧ t ≤ stop := by
  unfold dateRange
  refine ⟨by simp, ?_⟩
  intro x hx
  simp only [List.mem_map, List.mem_range] at hx
  obtain ⟨i, hi, rfl⟩ := hx
  exact inside_span perSec start stop num i hp h hi

example : ∃ t, releaseTime divisor 1 0 10 3 1 = some t ∧ (0:Int) ≤ t ∧ t ≤ 10 :=
  inside_span 1 0 10 3 1 (by decide) (by decide) (by decide)
/-- **ordered**, as a statement about the emitted list: with `start ≤ stop` the `num` dates are pairwise
non-decreasing in list (= particle) order -/
theorem dateRange_sorted (perSec start stop : Int) (num : Nat) (hp : 0 < perSec) (h : start ≤ stop) :
    List.Pairwise (fun a b => ∀ x y, a = some x → b = some y → x ≤ y) (dateRange divisor perSec start stop num) := by
  unfold dateRange
  rw [List.pairwise_map]
  refine List.Pairwise.imp ?_ (List.pairwise_lt_range (n := num))
  intro i j hij x y hx hy
  exact monotone_of_nonneg_span perSec start stop num i j hp (spanSeconds_nonneg perSec start stop hp h)
    (le_of_lt hij) x y hx hy

end C02
