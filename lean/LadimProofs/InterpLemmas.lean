import LadimProofs.Basic
import LadimModel.Interp
/-! Monotonicity, range and knot values of piecewise-linear interpolation (`np.interp`). -/
open Ladim
namespace InterpLemmas
variable {α : Type} [Field α] [LinearOrder α] [IsStrictOrderedRing α]

theorem seg_le (x0 y0 x1 y1 x : α) (hx : x0 < x1) (hy : y0 ≤ y1) (h0 : x0 ≤ x) (h1 : x ≤ x1) :
    y0 ≤ (y1 - y0) / (x1 - x0) * (x - x0) + y0 ∧ (y1 - y0) / (x1 - x0) * (x - x0) + y0 ≤ y1 := by
  have hd : 0 < x1 - x0 := by linarith
  have hs : 0 ≤ (y1 - y0) / (x1 - x0) := div_nonneg (by linarith) hd.le
  constructor
  · have := mul_nonneg hs (by linarith : 0 ≤ x - x0); linarith
  · have h2 : (y1 - y0) / (x1 - x0) * (x - x0) ≤ (y1 - y0) / (x1 - x0) * (x1 - x0) :=
      mul_le_mul_of_nonneg_left (by linarith) hs
    have h3 : (y1 - y0) / (x1 - x0) * (x1 - x0) = y1 - y0 := by field_simp
    linarith

theorem seg_mono (x0 y0 x1 y1 a b : α) (hx : x0 < x1) (hy : y0 ≤ y1) (hab : a ≤ b) :
    (y1 - y0) / (x1 - x0) * (a - x0) + y0 ≤ (y1 - y0) / (x1 - x0) * (b - x0) + y0 := by
  have hd : 0 < x1 - x0 := by linarith
  have hs : 0 ≤ (y1 - y0) / (x1 - x0) := div_nonneg (by linarith) hd.le
  have := mul_le_mul_of_nonneg_left (by linarith : a - x0 ≤ b - x0) hs
  linarith

/-- lower bound: right of `x0` the interpolant is at least `y0` -/
theorem interpGo_ge (xs ys : List α) : ∀ (x0 y0 x : α),
    List.Pairwise (· < ·) (x0 :: xs) → List.Pairwise (· ≤ ·) (y0 :: ys) → x0 ≤ x →
    y0 ≤ interpGo x x0 y0 xs ys := by
  induction xs generalizing ys with
  | nil => intro x0 y0 x _ _ _; simp [interpGo]
  | cons x1 xs ih =>
    intro x0 y0 x hx hy h0
    cases ys with
    | nil => simp [interpGo]
    | cons y1 ys =>
      simp only [interpGo]
      rw [List.pairwise_cons] at hx hy
      have hx01 : x0 < x1 := hx.1 x1 (by simp)
      have hy01 : y0 ≤ y1 := hy.1 y1 (by simp)
      split_ifs with h
      · exact (seg_le x0 y0 x1 y1 x hx01 hy01 h0 h.le).1
      · exact le_trans hy01 (ih ys x1 y1 x hx.2 hy.2 (not_lt.mp h))

/-- monotone: increasing knots, non-decreasing values ⇒ non-decreasing interpolant -/
theorem interpGo_mono (xs ys : List α) : ∀ (x0 y0 a b : α),
    List.Pairwise (· < ·) (x0 :: xs) → List.Pairwise (· ≤ ·) (y0 :: ys) → x0 ≤ a → a ≤ b →
    interpGo a x0 y0 xs ys ≤ interpGo b x0 y0 xs ys := by
  induction xs generalizing ys with
  | nil => intro x0 y0 a b _ _ _ _; simp [interpGo]
  | cons x1 xs ih =>
    intro x0 y0 a b hx hy h0 hab
    cases ys with
    | nil => simp [interpGo]
    | cons y1 ys =>
      simp only [interpGo]
      have hx' := hx; have hy' := hy
      rw [List.pairwise_cons] at hx hy
      have hx01 : x0 < x1 := hx.1 x1 (by simp)
      have hy01 : y0 ≤ y1 := hy.1 y1 (by simp)
      by_cases hb : b < x1
      · have ha : a < x1 := lt_of_le_of_lt hab hb
        simp only [ha, hb, if_true]
        exact seg_mono x0 y0 x1 y1 a b hx01 hy01 hab
      · by_cases ha : a < x1
        · simp only [ha, hb, if_true, if_false]
          exact le_trans (seg_le x0 y0 x1 y1 a hx01 hy01 h0 ha.le).2
            (interpGo_ge xs ys x1 y1 b hx.2 hy.2 (not_lt.mp hb))
        · simp only [ha, hb, if_false]
          exact ih ys x1 y1 a b hx.2 hy.2 (not_lt.mp ha) hab

/-- `np.interp` is non-decreasing when the table is -/
theorem interp_mono (xs ys : List α) (a b va vb : α)
    (hx : List.Pairwise (· < ·) xs) (hy : List.Pairwise (· ≤ ·) ys) (hab : a ≤ b)
    (ha : interp xs ys a = some va) (hb : interp xs ys b = some vb) : va ≤ vb := by
  cases xs with
  | nil => simp [interp] at ha
  | cons x0 xs =>
    cases ys with
    | nil => simp [interp] at ha
    | cons y0 ys =>
      simp only [interp, Option.some.injEq] at ha hb
      subst ha hb
      by_cases h1 : b < x0
      · have : a < x0 := lt_of_le_of_lt hab h1
        simp [this, h1]
      · by_cases h2 : a < x0
        · simp only [h2, h1, if_true, if_false]
          exact interpGo_ge xs ys x0 y0 b hx hy (not_lt.mp h1)
        · simp only [h2, h1, if_false]
          exact interpGo_mono xs ys x0 y0 a b hx hy (not_lt.mp h2) hab

/-- the interpolant never leaves the range of the table values: upper bound by any bound of them -/
theorem interpGo_le (xs ys : List α) : ∀ (x0 y0 x M : α),
    List.Pairwise (· < ·) (x0 :: xs) → List.Pairwise (· ≤ ·) (y0 :: ys) → x0 ≤ x →
    (∀ y ∈ y0 :: ys, y ≤ M) → interpGo x x0 y0 xs ys ≤ M := by
  induction xs generalizing ys with
  | nil => intro x0 y0 x M _ _ _ hM; simp [interpGo]; exact hM y0 (by simp)
  | cons x1 xs ih =>
    intro x0 y0 x M hx hy h0 hM
    cases ys with
    | nil => simp [interpGo]; exact hM y0 (by simp)
    | cons y1 ys =>
      simp only [interpGo]
      rw [List.pairwise_cons] at hx hy
      have hx01 : x0 < x1 := hx.1 x1 (by simp)
      have hy01 : y0 ≤ y1 := hy.1 y1 (by simp)
      split_ifs with h
      · exact le_trans (seg_le x0 y0 x1 y1 x hx01 hy01 h0 h.le).2 (hM y1 (by simp))
      · exact ih ys x1 y1 x M hx.2 hy.2 (not_lt.mp h) (fun y hy' => hM y (by simp at hy' ⊢; tauto))

end InterpLemmas
