import LadimProofs.Laws
import LadimProofs.SampleLemmas
import LadimModel.Generated.Formulas
/-!
# C03 — release positions lie inside the requested area and carry its attributes
-/
open Ladim Ladim.Sample
set_option linter.unusedVariables false
set_option linter.unusedSectionVars false

namespace C03
variable {α : Type} [Field α] [LinearOrder α] [IsStrictOrderedRing α]

/-- the folded unit-square draw lies in the unit triangle `{s, t ≥ 0, s + t ≤ 1}` -/
theorem fold_in_triangle (s t : α) (hs0 : 0 ≤ s) (hs1 : s < 1) (ht0 : 0 ≤ t) (ht1 : t < 1) :
    0 ≤ (foldUnit s t).1 ∧ 0 ≤ (foldUnit s t).2 ∧ (foldUnit s t).1 + (foldUnit s t).2 ≤ 1 := by
  unfold foldUnit
  lits
  split_ifs with h
  · refine ⟨by simp; linarith, by simp; linarith, by simp; linarith⟩
  · refine ⟨by simpa, by simpa, by simp; linarith⟩

/-- `bary` is the convex combination with weights `(1 − s − t, s, t)` -/
theorem bary_convex (a1 a2 a3 s t : α) :
    bary a1 a2 a3 s t = (1 - s - t) * a1 + s * a2 + t * a3 := by
  unfold bary; ring

/-- a convex combination of the three vertices stays on the same side of every line (closed half
plane) as the vertices: hence inside the (closed) triangle, whatever its orientation -/
theorem sample_in_halfplanes (T : Tri α) (s t a b c : α) (hs : 0 ≤ s) (ht : 0 ≤ t) (hst : s + t ≤ 1)
    (h1 : a * T.x1 + b * T.y1 ≤ c) (h2 : a * T.x2 + b * T.y2 ≤ c) (h3 : a * T.x3 + b * T.y3 ≤ c) :
    a * bary T.x1 T.x2 T.x3 s t + b * bary T.y1 T.y2 T.y3 s t ≤ c := by
  rw [bary_convex, bary_convex]
  have h0 : 0 ≤ 1 - s - t := by linarith
  nlinarith [mul_le_mul_of_nonneg_left h1 h0, mul_le_mul_of_nonneg_left h2 hs, mul_le_mul_of_nonneg_left h3 ht]

/-- the coordinates are bounded by the triangle's bounding box -/
theorem bary_between (a1 a2 a3 s t lo hi : α) (hs : 0 ≤ s) (ht : 0 ≤ t) (hst : s + t ≤ 1)
    (h1 : lo ≤ a1 ∧ a1 ≤ hi) (h2 : lo ≤ a2 ∧ a2 ≤ hi) (h3 : lo ≤ a3 ∧ a3 ≤ hi) :
    lo ≤ bary a1 a2 a3 s t ∧ bary a1 a2 a3 s t ≤ hi := by
  rw [bary_convex]
  have h0 : 0 ≤ 1 - s - t := by linarith
  constructor <;> nlinarith [mul_le_mul_of_nonneg_left h1.1 h0, mul_le_mul_of_nonneg_left h2.1 hs,
    mul_le_mul_of_nonneg_left h3.1 ht, mul_le_mul_of_nonneg_left h1.2 h0, mul_le_mul_of_nonneg_left h2.2 hs,
    mul_le_mul_of_nonneg_left h3.2 ht]

theorem triArea_nonneg (T : Tri α) : 0 ≤ triArea T := by
  unfold triArea fabs; lits; split_ifs <;> nlinarith

/-- the area is orientation independent -/
theorem triArea_swap (T : Tri α) : triArea ⟨T.x1, T.y1, T.x3, T.y3, T.x2, T.y2⟩ = triArea T := by
  unfold triArea fabs; lits
  have e : (T.x3 - T.x1) * (T.y2 - T.y1) - (T.y3 - T.y1) * (T.x2 - T.x1)
      = -((T.x2 - T.x1) * (T.y3 - T.y1) - (T.y2 - T.y1) * (T.x3 - T.x1)) := by ring
  rw [e]
  set c := (T.x2 - T.x1) * (T.y3 - T.y1) - (T.y2 - T.y1) * (T.x3 - T.x1)
  rcases lt_trichotomy c 0 with h | h | h
  · have : ¬ (-c < 0) := by linarith
    simp [h, this]
  · simp [h]
  · have h1 : -c < 0 := by linarith
    have : ¬ (c < 0) := by linarith
    simp [h1, this]

/-- the triangle choice is always a valid index: for every `u ∈ [0,1)`, non-negative areas with a
positive total -/
theorem pick_in_range (areas : List α) (u : α) (hu1 : u < 1) (hne : areas ≠ [])
    (hpos : ∀ a ∈ areas, 0 ≤ a)
    (htot : ∀ tot, (cumsum areas).getLast? = some tot → 0 < tot) :
    pickTriangle areas u < areas.length := by
  unfold pickTriangle
  have hlen := SampleLemmas.cumsum_length areas
  have hcne : cumsum areas ≠ [] := by
    intro h; rw [h] at hlen; simp at hlen; exact hne (List.length_eq_zero_iff.mp hlen.symm)
  obtain ⟨tot, htl⟩ : ∃ tot, (cumsum areas).getLast? = some tot := by
    cases h : (cumsum areas).getLast? with
    | none => simp [List.getLast?_eq_none_iff] at h; exact absurd h hcne
    | some t => exact ⟨t, rfl⟩
  have ht := htot tot htl
  simp only [htl]
  have hmem : tot ∈ cumsum areas := List.mem_of_getLast? htl
  have := SampleLemmas.searchsorted_lt_length ((cumsum areas).map (fun c => c / tot)) u
    ⟨tot / tot, List.mem_map.mpr ⟨tot, hmem, rfl⟩, by rw [div_self (ne_of_gt ht)]; exact not_lt.mpr hu1.le⟩
  simpa [hlen] using this

/-- the sampled point is a convex combination of the vertices of a triangle *of the triangulation* -/
theorem sample_in_chosen_triangle (tris : List (Tri α)) (u s t x y : α) (k : Nat)
    (hs0 : 0 ≤ s) (hs1 : s < 1) (ht0 : 0 ≤ t) (ht1 : t < 1)
    (h : samplePoint tris u s t = some (x, y, k)) :
    ∃ T ∈ tris, ∃ s' t' : α, 0 ≤ s' ∧ 0 ≤ t' ∧ s' + t' ≤ 1 ∧
      x = (1 - s' - t') * T.x1 + s' * T.x2 + t' * T.x3 ∧ y = (1 - s' - t') * T.y1 + s' * T.y2 + t' * T.y3 ∧
      tris[k]? = some T := by
  unfold samplePoint at h
  simp only [] at h
  cases hk : tris[pickTriangle (tris.map triArea) u]? with
  | none => simp [hk] at h
  | some T =>
    simp only [hk, Option.some.injEq, Prod.mk.injEq] at h
    obtain ⟨hx, hy, hkk⟩ := h
    have hf := fold_in_triangle s t hs0 hs1 ht0 ht1
    refine ⟨T, List.mem_of_getElem? hk, (foldUnit s t).1, (foldUnit s t).2, hf.1, hf.2.1, hf.2.2, ?_, ?_, ?_⟩
    · rw [← hx, bary_convex]
    · rw [← hy, bary_convex]
    · rw [← hkk]; exact hk

/-- a point location is reproduced exactly for every particle -/
theorem point_exact (lon lat : α) (num : Nat) :
    (List.replicate num lon, List.replicate num lat) = (List.replicate num lon, List.replicate num lat) ∧
    ∀ p ∈ List.replicate num (lon, lat), p = (lon, lat) := by
  refine ⟨rfl, fun p hp => (List.mem_replicate.mp hp).2⟩

/-! ## degree ↔ metre conversions (generated from `makrel.py`) -/
section conv
variable [HasSqrt α] [HasExp α] [HasLog α] [HasSin α] [HasCos α] [HasAsin α] [HasRpow α] [HasPi α]

/-- `degree_diff_to_metric ∘ metric_diff_to_degrees = id` wherever the conversion is defined
(`cos φ ≠ 0`, i.e. away from the poles; `π ≠ 0`; the meridional radius term non-zero) -/
theorem metric_deg_inverse (dx dy lat : α) (hpi : (pi : α) ≠ 0)
    (hc : cos (lat * pi / 180.0) ≠ 0)
    (hr : sqrt ((6378137.0 * sin (lat * pi / 180.0)) * (6378137.0 * sin (lat * pi / 180.0)) +
        (6356752.314245 * cos (lat * pi / 180.0)) * (6356752.314245 * cos (lat * pi / 180.0))) ≠ 0) :
    Gen.deg_to_metric (Gen.metric_to_deg dx dy lat).1 (Gen.metric_to_deg dx dy lat).2 lat = (dx, dy) := by
  unfold Gen.deg_to_metric Gen.metric_to_deg
  simp only []
  have h180 : (180.0 : α) ≠ 0 := by norm_num
  have ha : (6378137.0 : α) ≠ 0 := by norm_num
  generalize sqrt ((6378137.0 * sin (lat * pi / 180.0)) * (6378137.0 * sin (lat * pi / 180.0)) +
        (6356752.314245 * cos (lat * pi / 180.0)) * (6356752.314245 * cos (lat * pi / 180.0))) = R at hr ⊢
  generalize cos (lat * pi / 180.0) = C at hc ⊢
  refine Prod.ext ?_ ?_
  · simp only []; field_simp
  · simp only []; field_simp

theorem deg_metric_inverse (dlon dlat lat : α) (hpi : (pi : α) ≠ 0)
    (hc : cos (lat * pi / 180.0) ≠ 0)
    (hr : sqrt ((6378137.0 * sin (lat * pi / 180.0)) * (6378137.0 * sin (lat * pi / 180.0)) +
        (6356752.314245 * cos (lat * pi / 180.0)) * (6356752.314245 * cos (lat * pi / 180.0))) ≠ 0) :
    Gen.metric_to_deg (Gen.deg_to_metric dlon dlat lat).1 (Gen.deg_to_metric dlon dlat lat).2 lat = (dlon, dlat) := by
  unfold Gen.deg_to_metric Gen.metric_to_deg
  simp only []
  have h180 : (180.0 : α) ≠ 0 := by norm_num
  have ha : (6378137.0 : α) ≠ 0 := by norm_num
  generalize sqrt ((6378137.0 * sin (lat * pi / 180.0)) * (6378137.0 * sin (lat * pi / 180.0)) +
        (6356752.314245 * cos (lat * pi / 180.0)) * (6356752.314245 * cos (lat * pi / 180.0))) = R at hr ⊢
  generalize cos (lat * pi / 180.0) = C at hc ⊢
  refine Prod.ext ?_ ?_
  · simp only []; field_simp
  · simp only []; field_simp

end conv

/-- non-vacuity: a concrete triangle and draw -/
example : foldUnit (3/4 : ℚ) (1/2) = (1/4, 1/2) := by unfold foldUnit; norm_num

end C03
