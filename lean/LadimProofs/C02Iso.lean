import LadimModel.Release.Iso
import LadimProofs.C02
import Mathlib.Tactic.IntervalCases
import Mathlib.Order.Monotone.Basic
import Mathlib.Data.String.Basic
/-!
C02 (ISO time stamps): the lexicographic order of the strings `YYYY-MM-DDTHH:MM:SS` rendered by
`Ladim.Dates.renderISO` (model of `np.datetime64(secs, 's').astype(str)`) coincides with the time order
for `isoLo ≤ secs ≤ isoHi` (years 0000..9999).

Route:
1. `civilFromDays` (Howard Hinnant's `civil_from_days`): a day of era is decomposed as
   `36524*C + 1461*k + 365*r + j` (`Decomp`); for every valid decomposition the algorithm returns
   year of era `100*C + 4*k + r` and day of year `j` (`decomp_yoe`, `decomp_doy`); the successor of a
   day is the odometer increment of the decomposition (`yoe_doy_succ`), month and day of month step
   accordingly (`mp_dom_succ`), hence the successor property `civI_succ` / `civilFromDays_succ`, and by
   induction (`strictMono_int_of_lt_succ` on a numeric key) strict monotonicity in the lexicographic order.
2. `padChars_lt`: fixed-width zero-padded decimals are strictly monotone (digit argument).
3. `append_lt_append_of_lt`, `seg_lt`: an equal-length differing prefix decides a lexicographic comparison.
4. `renderISO_strictMono` and corollaries.
-/
open Ladim.Dates
namespace C02

/-- a valid (century, 4-year cycle, year in cycle, day of year) decomposition of a day of era -/
structure Decomp (a C k r j : Int) : Prop where
  eq : a = 36524 * C + 1461 * k + 365 * r + j
  hC : 0 ≤ C ∧ C ≤ 3
  hk : 0 ≤ k ∧ k ≤ 24
  hr : 0 ≤ r ∧ r ≤ 3
  hj : 0 ≤ j ∧ j ≤ 365
  leap : j = 365 → r = 3
  cent : j = 365 → k = 24 → C = 3

theorem decomp_exists (a : Int) (h0 : 0 ≤ a) (h1 : a ≤ 146096) : ∃ C k r j, Decomp a C k r j := by
  refine ⟨min (a / 36524) 3, (a - 36524 * min (a / 36524) 3) / 1461,
    min ((a - 36524 * min (a / 36524) 3) % 1461 / 365) 3,
    (a - 36524 * min (a / 36524) 3) % 1461 - 365 * min ((a - 36524 * min (a / 36524) 3) % 1461 / 365) 3, ?_⟩
  constructor <;> omega

theorem decomp_yoe {a C k r j : Int} (h : Decomp a C k r j) : yoeOf a = 100 * C + 4 * k + r := by
  obtain ⟨eq, hC, hk, hr, hj, leap, cent⟩ := h
  have he : a / 1460 = 25 * C + k + (24 * C + k + 365 * r + j) / 1460 := by omega
  have hfg : a / 36524 - a / 146096 = C := by
    obtain ⟨a1, ha1⟩ : ∃ a1, a1 = 1461 * k + 365 * r + j := ⟨_, rfl⟩
    have h1 : 0 ≤ a1 ∧ a1 ≤ 36524 := by omega
    have h2 : a1 = 36524 → C = 3 := by
      intro h; apply cent <;> omega
    have h3 : a / 36524 = C + a1 / 36524 := by omega
    omega
  unfold yoeOf
  omega

theorem decomp_doy {a C k r j : Int} (h : Decomp a C k r j) : doyOf a (yoeOf a) = j := by
  rw [decomp_yoe h]
  obtain ⟨eq, hC, hk, hr, hj, leap, cent⟩ := h
  unfold doyOf
  omega


theorem yoe_doy_range (a : Int) (h0 : 0 ≤ a) (h1 : a ≤ 146096) :
    0 ≤ yoeOf a ∧ yoeOf a ≤ 399 ∧ 0 ≤ doyOf a (yoeOf a) ∧ doyOf a (yoeOf a) ≤ 365 := by
  obtain ⟨C, k, r, j, h⟩ := decomp_exists a h0 h1
  rw [decomp_doy h, decomp_yoe h]
  obtain ⟨eq, hC, hk, hr, hj, leap, cent⟩ := h
  omega

/-- successor step on (year of era, day of year) inside an era -/
theorem yoe_doy_succ (a : Int) (h0 : 0 ≤ a) (h1 : a < 146096) :
    (yoeOf (a + 1) = yoeOf a ∧ doyOf (a + 1) (yoeOf (a + 1)) = doyOf a (yoeOf a) + 1 ∧
        doyOf a (yoeOf a) ≤ 364) ∨
    (yoeOf (a + 1) = yoeOf a + 1 ∧ doyOf (a + 1) (yoeOf (a + 1)) = 0 ∧ 364 ≤ doyOf a (yoeOf a)) := by
  obtain ⟨C, k, r, j, h⟩ := decomp_exists a h0 (by omega)
  rw [decomp_doy h, decomp_yoe h]
  have h' := h
  obtain ⟨eq, hC, hk, hr, hj, leap, cent⟩ := h'
  by_cases c1 : j ≤ 363 ∨ (j = 364 ∧ r = 3 ∧ (k ≤ 23 ∨ C = 3))
  · have hs : Decomp (a + 1) C k r (j + 1) := by constructor <;> omega
    rw [decomp_doy hs, decomp_yoe hs]; omega
  · by_cases c2 : r ≤ 2
    · have hs : Decomp (a + 1) C k (r + 1) 0 := by constructor <;> omega
      rw [decomp_doy hs, decomp_yoe hs]; omega
    · by_cases c3 : k ≤ 23
      · have hs : Decomp (a + 1) C (k + 1) 0 0 := by constructor <;> omega
        rw [decomp_doy hs, decomp_yoe hs]; omega
      · have hs : Decomp (a + 1) (C + 1) 0 0 0 := by constructor <;> omega
        rw [decomp_doy hs, decomp_yoe hs]; omega

theorem yoe_doy_last : yoeOf 146096 = 399 ∧ doyOf 146096 399 = 365 := by decide
theorem yoe_doy_first : yoeOf 0 = 0 ∧ doyOf 0 0 = 0 := by decide

theorem mp_dom_range (j : Int) (h0 : 0 ≤ j) (h1 : j ≤ 365) :
    0 ≤ mpOf j ∧ mpOf j ≤ 11 ∧ 1 ≤ domOf j (mpOf j) ∧ domOf j (mpOf j) ≤ 31 := by
  unfold domOf mpOf
  omega

theorem mp_dom_succ (j : Int) (h0 : 0 ≤ j) (h1 : j ≤ 364) :
    (mpOf (j + 1) = mpOf j ∧ domOf (j + 1) (mpOf (j + 1)) = domOf j (mpOf j) + 1) ∨
    (mpOf (j + 1) = mpOf j + 1 ∧ domOf (j + 1) (mpOf (j + 1)) = 1) := by
  unfold domOf mpOf
  obtain ⟨e, he, he0, he1⟩ : ∃ e, (5 * j + 2) / 153 = e ∧ 0 ≤ e ∧ e ≤ 11 := ⟨_, rfl, by omega, by omega⟩
  obtain ⟨e', he', he2, he3⟩ : ∃ e', (5 * (j + 1) + 2) / 153 = e' ∧ e ≤ e' ∧ e' ≤ e + 1 :=
    ⟨_, rfl, by omega, by omega⟩
  rw [he, he']
  interval_cases e <;> interval_cases e' <;> omega

theorem mp_last (j : Int) (h0 : 364 ≤ j) (h1 : j ≤ 365) : mpOf j = 11 := by
  unfold mpOf; omega


/-! ### the civil date as a function of (era, day of era), `Int`-valued -/

def civED (era doe : Int) : Int × Int × Int :=
  (yoeOf doe + era * 400 + (if monthOf (mpOf (doyOf doe (yoeOf doe))) ≤ 2 then 1 else 0),
   monthOf (mpOf (doyOf doe (yoeOf doe))),
   domOf (doyOf doe (yoeOf doe)) (mpOf (doyOf doe (yoeOf doe))))

def civI (z : Int) : Int × Int × Int := civED ((z + 719468) / 146097) ((z + 719468) % 146097)

theorem civilFromDays_eq (z : Int) :
    civilFromDays z = ((civI z).1, (civI z).2.1.toNat, (civI z).2.2.toNat) := rfl

/-- the next calendar day: next day of the month, or first of the next month, or 1 January of the next year -/
def Step (c c' : Int × Int × Int) : Prop :=
  (c'.1 = c.1 ∧ c'.2.1 = c.2.1 ∧ c'.2.2 = c.2.2 + 1) ∨
  (c'.1 = c.1 ∧ c'.2.1 = c.2.1 + 1 ∧ c'.2.2 = 1) ∨
  (c'.1 = c.1 + 1 ∧ c'.2.1 = 1 ∧ c'.2.2 = 1)

theorem civED_range (era a : Int) (h0 : 0 ≤ a) (h1 : a ≤ 146096) :
    1 ≤ (civED era a).2.1 ∧ (civED era a).2.1 ≤ 12 ∧ 1 ≤ (civED era a).2.2 ∧ (civED era a).2.2 ≤ 31 := by
  obtain ⟨_, _, hj0, hj1⟩ := yoe_doy_range a h0 h1
  obtain ⟨hm0, hm1, hd0, hd1⟩ := mp_dom_range _ hj0 hj1
  simp only [civED, monthOf]
  split_ifs <;> omega

theorem civED_succ_in (era a : Int) (h0 : 0 ≤ a) (h1 : a < 146096) :
    Step (civED era a) (civED era (a + 1)) := by
  obtain ⟨_, _, hj0, hj1⟩ := yoe_doy_range a h0 (by omega)
  obtain ⟨hm0, hm1, hd0, hd1⟩ := mp_dom_range _ hj0 hj1
  rcases yoe_doy_succ a h0 h1 with ⟨hy, hj, hle⟩ | ⟨hy, hj, hge⟩
  · obtain ⟨hm0', hm1', -, -⟩ := mp_dom_range (doyOf a (yoeOf a) + 1) (by omega) (by omega)
    rcases mp_dom_succ _ hj0 hle with ⟨hm, hd⟩ | ⟨hm, hd⟩
    · simp only [civED, Step]
      rw [hj, hy, hd, hm]
      unfold monthOf
      split_ifs <;> omega
    · simp only [civED, Step]
      rw [hj, hy, hd, hm]
      unfold monthOf
      split_ifs <;> omega
  · have hl := mp_last _ hge hj1
    have h00 : mpOf 0 = 0 ∧ domOf 0 0 = 1 := by decide
    simp only [civED, Step]
    rw [hj, hy, hl, h00.1, h00.2]
    unfold monthOf
    split_ifs <;> omega

theorem civED_succ_era (era : Int) : Step (civED era 146096) (civED (era + 1) 0) := by
  have h1 : yoeOf 146096 = 399 := by decide
  have h2 : doyOf 146096 399 = 365 := by decide
  have h3 : mpOf 365 = 11 := by decide
  have h4 : domOf 365 11 = 29 := by decide
  have h5 : yoeOf 0 = 0 := by decide
  have h6 : doyOf 0 0 = 0 := by decide
  have h7 : mpOf 0 = 0 := by decide
  have h8 : domOf 0 0 = 1 := by decide
  simp only [civED, Step]
  rw [h1, h2, h3, h4, h5, h6, h7, h8]
  unfold monthOf
  split_ifs <;> omega

theorem civI_range (z : Int) :
    1 ≤ (civI z).2.1 ∧ (civI z).2.1 ≤ 12 ∧ 1 ≤ (civI z).2.2 ∧ (civI z).2.2 ≤ 31 :=
  civED_range _ _ (by omega) (by omega)

/-- successor property of `civil_from_days` -/
theorem civI_succ (z : Int) : Step (civI z) (civI (z + 1)) := by
  unfold civI
  by_cases h : (z + 719468) % 146097 < 146096
  · have e1 : (z + 1 + 719468) / 146097 = (z + 719468) / 146097 := by omega
    have e2 : (z + 1 + 719468) % 146097 = (z + 719468) % 146097 + 1 := by omega
    rw [e1, e2]
    exact civED_succ_in _ _ (by omega) h
  · have e1 : (z + 1 + 719468) / 146097 = (z + 719468) / 146097 + 1 := by omega
    have e2 : (z + 1 + 719468) % 146097 = 0 := by omega
    have e3 : (z + 719468) % 146097 = 146096 := by omega
    rw [e1, e2, e3]
    exact civED_succ_era _

/-- an order-preserving numeric key of a civil date -/
def key (c : Int × Int × Int) : Int := c.1 * 10000 + c.2.1 * 100 + c.2.2

theorem key_strictMono : StrictMono (fun z => key (civI z)) := by
  apply strictMono_int_of_lt_succ
  intro z
  have hs := civI_succ z
  have hr := civI_range z
  unfold Step at hs
  unfold key
  omega

/-- `civil_from_days` is strictly increasing in the lexicographic order of (year, month, day) -/
theorem civI_lex_of_lt {z1 z2 : Int} (h : z1 < z2) :
    (civI z1).1 < (civI z2).1 ∨ (civI z1).1 = (civI z2).1 ∧
      ((civI z1).2.1 < (civI z2).2.1 ∨ (civI z1).2.1 = (civI z2).2.1 ∧ (civI z1).2.2 < (civI z2).2.2) := by
  have hk := key_strictMono h
  have h1 := civI_range z1
  have h2 := civI_range z2
  simp only [key] at hk
  omega

theorem civilFromDays_succ (z : Int) :
    ((civilFromDays (z + 1)).1 = (civilFromDays z).1 ∧ (civilFromDays (z + 1)).2.1 = (civilFromDays z).2.1 ∧
      (civilFromDays (z + 1)).2.2 = (civilFromDays z).2.2 + 1) ∨
    ((civilFromDays (z + 1)).1 = (civilFromDays z).1 ∧ (civilFromDays (z + 1)).2.1 = (civilFromDays z).2.1 + 1 ∧
      (civilFromDays (z + 1)).2.2 = 1) ∨
    ((civilFromDays (z + 1)).1 = (civilFromDays z).1 + 1 ∧ (civilFromDays (z + 1)).2.1 = 1 ∧
      (civilFromDays (z + 1)).2.2 = 1) := by
  have hs := civI_succ z
  have h1 := civI_range z
  have h2 := civI_range (z + 1)
  unfold Step at hs
  simp only [civilFromDays_eq]
  omega

/-- month in 1..12, day in 1..31 -/
theorem civilFromDays_range (z : Int) :
    1 ≤ (civilFromDays z).2.1 ∧ (civilFromDays z).2.1 ≤ 12 ∧
    1 ≤ (civilFromDays z).2.2 ∧ (civilFromDays z).2.2 ≤ 31 := by
  have h := civI_range z
  simp only [civilFromDays_eq]
  omega

/-- `civilFromDays` is strictly increasing in the lexicographic order of (year, month, day) -/
theorem civilFromDays_lex_of_lt {z1 z2 : Int} (h : z1 < z2) :
    (civilFromDays z1).1 < (civilFromDays z2).1 ∨ (civilFromDays z1).1 = (civilFromDays z2).1 ∧
      ((civilFromDays z1).2.1 < (civilFromDays z2).2.1 ∨ (civilFromDays z1).2.1 = (civilFromDays z2).2.1 ∧
        (civilFromDays z1).2.2 < (civilFromDays z2).2.2) := by
  have hl := civI_lex_of_lt h
  have h1 := civI_range z1
  have h2 := civI_range z2
  simp only [civilFromDays_eq]
  omega

theorem civI_year_range (z : Int) (h0 : -719528 ≤ z) (h1 : z ≤ 2932896) :
    0 ≤ (civI z).1 ∧ (civI z).1 ≤ 9999 := by
  have hk0 := key_strictMono.monotone h0
  have hk1 := key_strictMono.monotone h1
  have e0 : civI (-719528) = (0, 1, 1) := by decide
  have e1 : civI 2932896 = (9999, 12, 31) := by decide
  have hr := civI_range z
  simp only [key, e0, e1] at hk0 hk1
  omega

/-! ### zero-padded decimals -/

theorem digitChar_lt {a b : Nat} (hab : a < b) (hb : b < 10) : digitChar a < digitChar b := by
  have key : ∀ b < 10, ∀ a < b, digitChar a < digitChar b := by decide
  exact key b hb a hab

theorem padChars_length (w n : Nat) : (padChars w n).length = w := by
  induction w generalizing n with
  | zero => rfl
  | succ w ih => simp [padChars, ih]

/-- fixed-width zero-padded decimal rendering is strictly monotone -/
theorem padChars_lt {w m n : Nat} (hmn : m < n) (hn : n < 10 ^ w) : padChars w m < padChars w n := by
  induction w generalizing m n with
  | zero => simp at hn; omega
  | succ w ih =>
    simp only [padChars]
    rw [List.cons_lt_cons_iff]
    have hp : 0 < 10 ^ w := Nat.pow_pos (by decide)
    have hle : m / 10 ^ w ≤ n / 10 ^ w := Nat.div_le_div_right (Nat.le_of_lt hmn)
    rcases Nat.lt_or_eq_of_le hle with hlt | heq
    · left
      apply digitChar_lt hlt
      rw [Nat.div_lt_iff_lt_mul hp, Nat.mul_comm]
      rw [Nat.pow_succ] at hn
      exact hn
    · right
      refine ⟨by rw [heq], ih ?_ (Nat.mod_lt _ hp)⟩
      have h1 := Nat.div_add_mod m (10 ^ w)
      have h2 := Nat.div_add_mod n (10 ^ w)
      rw [heq] at h1
      omega

theorem pad_length (w n : Nat) : (pad w n).length = w := by
  rw [← String.length_toList, pad, String.toList_ofList, padChars_length]

theorem pad_lt {w m n : Nat} (hmn : m < n) (hn : n < 10 ^ w) : pad w m < pad w n := by
  rw [String.lt_iff_toList_lt, pad, pad, String.toList_ofList, String.toList_ofList]
  exact padChars_lt hmn hn

/-! ### lexicographic comparison of concatenations -/

theorem append_lt_append_of_lt {l1 l2 : List Char} (hl : l1.length = l2.length) (h : l1 < l2)
    (r1 r2 : List Char) : l1 ++ r1 < l2 ++ r2 := by
  induction l1 generalizing l2 with
  | nil =>
    cases l2 with
    | nil => exact absurd h (List.lt_irrefl _)
    | cons b l2 => simp at hl
  | cons a l1 ih =>
    cases l2 with
    | nil => simp at hl
    | cons b l2 =>
      simp only [List.cons_append]
      rw [List.cons_lt_cons_iff] at h ⊢
      rcases h with h | ⟨rfl, h⟩
      · exact Or.inl h
      · exact Or.inr ⟨rfl, ih (by simpa using hl) h⟩

theorem append_lt_append_left (l : List Char) {r1 r2 : List Char} (h : r1 < r2) : l ++ r1 < l ++ r2 := by
  induction l with
  | nil => exact h
  | cons a l ih => simp only [List.cons_append]; rw [List.cons_lt_cons_iff]; exact Or.inr ⟨rfl, ih⟩

/-- one field followed by a separator: the field decides, or it is equal and the rest decides -/
theorem seg_lt {w m n : Nat} (hn : n < 10 ^ w) (sep : Char) {r1 r2 : List Char}
    (h : m < n ∨ m = n ∧ r1 < r2) :
    padChars w m ++ sep :: r1 < padChars w n ++ sep :: r2 := by
  rcases h with h | ⟨rfl, h⟩
  · exact append_lt_append_of_lt (by simp [padChars_length]) (padChars_lt h hn) _ _
  · apply append_lt_append_left
    rw [List.cons_lt_cons_iff]; exact Or.inr ⟨rfl, h⟩


/-! ### the rendered string -/

/-- the characters of `YYYY-MM-DDTHH:MM:SS` -/
def isoChars (y m d hh mm ss : Nat) : List Char :=
  padChars 4 y ++ '-' :: (padChars 2 m ++ '-' :: (padChars 2 d ++ 'T' :: (padChars 2 hh ++ ':' ::
    (padChars 2 mm ++ ':' :: padChars 2 ss))))

theorem renderISO_toList (s : Int) :
    (renderISO s).toList =
      isoChars (civI (s / 86400)).1.toNat (civI (s / 86400)).2.1.toNat (civI (s / 86400)).2.2.toNat
        ((s % 86400).toNat / 3600) ((s % 86400).toNat % 3600 / 60) ((s % 86400).toNat % 60) := by
  have h1 : "-".toList = ['-'] := by decide
  have h2 : "T".toList = ['T'] := by decide
  have h3 : ":".toList = [':'] := by decide
  simp only [renderISO, pad, civilFromDays_eq, String.toList_append, String.toList_ofList, isoChars,
    h1, h2, h3, List.append_assoc, List.cons_append, List.nil_append]

theorem isoChars_length (y m d hh mm ss : Nat) : (isoChars y m d hh mm ss).length = 19 := by
  simp [isoChars, padChars_length]

/-- lexicographic order of the six fields gives the order of the rendered characters -/
theorem isoChars_lt {y1 m1 d1 hh1 mm1 ss1 y2 m2 d2 hh2 mm2 ss2 : Nat}
    (hy : y2 < 10 ^ 4) (hm : m2 < 10 ^ 2) (hd : d2 < 10 ^ 2) (hhh : hh2 < 10 ^ 2) (hmm : mm2 < 10 ^ 2)
    (hss : ss2 < 10 ^ 2)
    (h : y1 < y2 ∨ y1 = y2 ∧ (m1 < m2 ∨ m1 = m2 ∧ (d1 < d2 ∨ d1 = d2 ∧ (hh1 < hh2 ∨ hh1 = hh2 ∧
      (mm1 < mm2 ∨ mm1 = mm2 ∧ ss1 < ss2))))) :
    isoChars y1 m1 d1 hh1 mm1 ss1 < isoChars y2 m2 d2 hh2 mm2 ss2 := by
  unfold isoChars
  refine seg_lt hy _ (h.imp_right (And.imp_right fun h => ?_))
  refine seg_lt hm _ (h.imp_right (And.imp_right fun h => ?_))
  refine seg_lt hd _ (h.imp_right (And.imp_right fun h => ?_))
  refine seg_lt hhh _ (h.imp_right (And.imp_right fun h => ?_))
  refine seg_lt hmm _ (h.imp_right (And.imp_right fun h => ?_))
  exact padChars_lt h hss

/-- the six fields are in range, and the year has four digits between `isoLo` and `isoHi` -/
theorem fields_range (s : Int) (h0 : isoLo ≤ s) (h1 : s ≤ isoHi) :
    (civI (s / 86400)).1.toNat < 10 ^ 4 ∧ (civI (s / 86400)).2.1.toNat < 10 ^ 2 ∧
    (civI (s / 86400)).2.2.toNat < 10 ^ 2 ∧ (s % 86400).toNat / 3600 < 10 ^ 2 ∧
    (s % 86400).toNat % 3600 / 60 < 10 ^ 2 ∧ (s % 86400).toNat % 60 < 10 ^ 2 := by
  unfold isoLo at h0; unfold isoHi at h1
  have hy := civI_year_range (s / 86400) (by omega) (by omega)
  have hr := civI_range (s / 86400)
  omega

/-- between `isoLo` and `isoHi` the year is in 0..9999 -/
theorem civilFromDays_year_range (s : Int) (h0 : isoLo ≤ s) (h1 : s ≤ isoHi) :
    0 ≤ (civilFromDays (s / 86400)).1 ∧ (civilFromDays (s / 86400)).1 ≤ 9999 := by
  unfold isoLo at h0; unfold isoHi at h1
  exact civI_year_range (s / 86400) (by omega) (by omega)

/-- the sort by the rendered time stamp is the sort by time -/
theorem renderISO_strictMono (a b : Int) (ha : isoLo ≤ a) (hab : a < b) (hb : b ≤ isoHi) :
    renderISO a < renderISO b := by
  rw [String.lt_iff_toList_lt, renderISO_toList, renderISO_toList]
  obtain ⟨hy, hm, hd, hhh, hmm, hss⟩ := fields_range b (by omega) hb
  apply isoChars_lt hy hm hd hhh hmm hss
  unfold isoLo at ha; unfold isoHi at hb
  have hya := civI_year_range (a / 86400) (by omega) (by omega)
  have hyb := civI_year_range (b / 86400) (by omega) (by omega)
  have hra := civI_range (a / 86400)
  have hrb := civI_range (b / 86400)
  by_cases hday : a / 86400 < b / 86400
  · have hl := civI_lex_of_lt hday
    omega
  · have hday : a / 86400 = b / 86400 := by omega
    rw [hday]
    omega

theorem renderISO_length (a : Int) : (renderISO a).length = 19 := by
  rw [← String.length_toList, renderISO_toList, isoChars_length]

theorem renderISO_lt_iff (a b : Int) (ha0 : isoLo ≤ a) (ha1 : a ≤ isoHi) (hb0 : isoLo ≤ b) (hb1 : b ≤ isoHi) :
    renderISO a < renderISO b ↔ a < b := by
  constructor
  · intro h
    by_contra hn
    rcases Int.lt_or_eq_of_le (Int.not_lt.mp hn) with hlt | heq
    · exact lt_asymm h (renderISO_strictMono b a hb0 hlt ha1)
    · rw [heq] at h; exact lt_irrefl _ h
  · intro h; exact renderISO_strictMono a b ha0 h hb1

theorem renderISO_injective (a b : Int) (ha0 : isoLo ≤ a) (ha1 : a ≤ isoHi) (hb0 : isoLo ≤ b) (hb1 : b ≤ isoHi)
    (h : renderISO a = renderISO b) : a = b := by
  rcases lt_trichotomy a b with hlt | heq | hgt
  · exact absurd h (ne_of_lt (renderISO_strictMono a b ha0 hlt hb1))
  · exact heq
  · exact absurd h.symm (ne_of_lt (renderISO_strictMono b a hb0 hgt ha1))

/-- **the hypothesis of `sorted_after_sort` discharged for whole-second time stamps**: a table sorted by the
ISO date *string* (what `sort_values('date')` does) is in non-decreasing *time* order, for all times in the
years 0000..9999 — no assumption on the renderer is left -/
theorem sorted_by_iso_string_is_sorted_by_time {ρ : Type} (time : ρ → Int) (rows : List ρ)
    (hrange : ∀ r ∈ rows, isoLo ≤ time r ∧ time r ≤ isoHi)
    (hs : List.Pairwise (fun a b => renderISO (time a) ≤ renderISO (time b)) rows) :
    List.Pairwise (fun a b => time a ≤ time b) rows := by
  induction rows with
  | nil => exact List.Pairwise.nil
  | cons r rs ih =>
    rw [List.pairwise_cons] at hs ⊢
    refine ⟨fun b hb => ?_, ih (fun x hx => hrange x (List.mem_cons_of_mem _ hx)) hs.2⟩
    have h := hs.1 b hb
    by_contra hn
    have hlt : time b < time r := Int.not_le.mp hn
    have := renderISO_strictMono (time b) (time r) (hrange b (List.mem_cons_of_mem _ hb)).1 hlt
      (hrange r (List.mem_cons_self)).2
    exact absurd h (not_le.mpr this)

end C02

