import LadimProofs.Basic
import LadimModel.Forcing.Roms
/-!
# C06 — forcing fields follow the forcing files in time for every run schedule

Specification: with `n ≤ t < n'` two consecutive forcing steps, the served velocity at model step `t` is
`lerp t n n' = vel n + (t − n)/(n' − n) · (vel n' − vel n)`.
-/
open Ladim Ladim.Roms
set_option linter.unusedVariables false

namespace C06
variable {α : Type} [Field α] [LinearOrder α] [IsStrictOrderedRing α]

/-- integers as scalars (`HasOfInt` of an arbitrary field) -/
instance (priority := low) fieldOfInt : HasOfInt α := ⟨fun i => (i : α)⟩

/-- `n` and `n'` are consecutive forcing steps enclosing `t` -/
def Bracket (steps : List Int) (t n n' : Int) : Prop := nextStep steps n = some n' ∧ n ≤ t ∧ t < n'

/-- linear-in-time interpolation of the two enclosing velocity frames -/
def lerp (fr : Frames α) (t n n' : Int) : α :=
  fr.vel n + ((t - n : Int) : α) / ((n' - n : Int) : α) * (fr.vel n' - fr.vel n)

/-- the same for the scalar field -/
def lerpS (fr : Frames α) (t n n' : Int) : α :=
  fr.sc n + ((t - n : Int) : α) / ((n' - n : Int) : α) * (fr.sc n' - fr.sc n)

/-! ## frame steps -/

/-- when `dt` divides the offset of a frame from the start, its model step is exact -/
theorem steps_aligned (dtime dt : Int) (h : dt ∣ dtime) : forcingStep dtime dt * dt = dtime := by
  unfold forcingStep
  obtain ⟨k, rfl⟩ := h
  by_cases hdt : dt = 0
  · subst hdt; simp
  · rw [Int.mul_tdiv_cancel_left _ hdt, Int.mul_comm]

/-- otherwise it is truncated toward the start: a frame 600 s *before* the start with dt = 900 s is
treated as if it were *at* the start (known limitation of the design) -/
theorem unaligned_dt_fails : forcingStep (-600) 900 = 0 ∧ forcingStep (-600) 900 * 900 ≠ -600 := by decide

/-! ## counter-witnesses for the behaviour before the `fix:` commits and for the known finding
(frames at steps 0 and 6 with values 0 and 6: the exact interpolant is `U(t) = t`) -/

def ramp : Frames ℚ := { steps := [0, 6], vel := fun n => n, sc := fun n => n }
instance : HasOfInt ℚ := ⟨fun i => (i : ℚ)⟩

/-- first update at t = 3 (LADiM skipped to the first release) without catching up: U is U(0) -/
theorem late_start_fails :
    ((init .stepdiff .next ramp).map (fun st => (run .none ramp st [3]).U)) = some 0 := by
  decide +kernel

/-- … with the catch-up loop it is U(3) = 3 -/
theorem late_start_fixed :
    ((init .stepdiff .next ramp).map (fun st => (run .loop ramp st [3]).U)) = some 3 := by
  decide +kernel

/-- a gap in the schedule (0, 1, then 4) without catching up leaves U two steps behind -/
theorem gap_fails :
    ((init .stepdiff .next ramp).map (fun st => (run .none ramp st [0, 1, 4]).U)) = some 2 := by
  decide +kernel

/-- KNOWN FINDING: starting on a frame, the scalar field at t = 0 holds the *next* frame (6), not the
frame of t = 0 (0) … -/
theorem scalar_t0_fails :
    ((init .stepdiff .next ramp).map (fun st => (run .loop ramp st [0]).S)) = some 6 := by
  decide +kernel

/-- … the synchronised initialisation gives the frame itself -/
theorem scalar_t0_current :
    ((init .stepdiff .current ramp).map (fun st => (run .loop ramp st [0]).S)) = some 0 := by
  decide +kernel

/-- frames at steps −3 and 3 with scalar values 0 and 6 -/
def straddle : Frames ℚ := { steps := [-3, 3], vel := fun n => n + 3, sc := fun n => n + 3 }

/-- dividing the scalar increment by `prestep` (= −3) extrapolates outside the two frames:
the field one step before the start is −4 ∉ [0, 6] -/
theorem scalar_prestep_fails :
    ((init .prestep .next straddle).map (fun st => st.S)) = some (-4) := by
  simp [init, prestepOf, straddle, nextStep, HasOfInt.ofInt]
  norm_num

/-- … dividing by the frame distance gives the interpolated value 2 ∈ [0, 6] -/
theorem scalar_stepdiff_ok :
    ((init .stepdiff .next straddle).map (fun st => st.S)) = some 2 := by
  simp [init, prestepOf, straddle, nextStep, HasOfInt.ofInt]
  norm_num

end C06
