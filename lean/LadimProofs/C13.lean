import LadimProofs.Basic
import LadimProofs.InterpLemmas
import LadimModel.Forcing.Nk800
/-!
# C13 — NorKyst-800 forcing: right time weights, transparent cache, valid grid metrics
(the cache theorems are in `C13Buffer.lean`)
-/
open Ladim Ladim.Nk800
set_option linter.unusedVariables false

namespace C13
variable {α : Type} [Field α] [LinearOrder α] [IsStrictOrderedRing α]

/-- FULL STATEMENT (holds for `Weights.forward`): the current at a time a fraction `q` into the hour is
the linear interpolation of the two bracketing hourly fields … -/
theorem interp_is_lerp (v1 v2 q : α) : interpW .forward v1 v2 q = v1 + q * (v2 - v1) := by
  unfold interpW; lits; ring

/-- … equals the stored field at whole hours … -/
theorem interp_whole_hour (v1 v2 : α) : interpW .forward v1 v2 0 = v1 := by
  unfold interpW; lits; ring

/-- … and lies between the two fields -/
theorem interp_between (v1 v2 q : α) (h0 : 0 ≤ q) (h1 : q ≤ 1) :
    min v1 v2 ≤ interpW .forward v1 v2 q ∧ interpW .forward v1 v2 q ≤ max v1 v2 := by
  rw [interp_is_lerp]
  rcases le_total v1 v2 with h | h
  · rw [min_eq_left h, max_eq_right h]; constructor <;> nlinarith
  · rw [min_eq_right h, max_eq_left h]; constructor <;> nlinarith

/-- KNOWN FINDING — the code as it is (`v1*q + v2*(1-q)`) has the weights backward: at a whole hour
(`q = 0`) it returns the field of the *next* hour … -/
theorem backward_whole_hour_fails (v1 v2 : α) : interpW .backward v1 v2 0 = v2 := by
  unfold interpW; lits; ring

/-- … it is the mirror image in time of the correct interpolant (right only at the half hour) -/
theorem backward_is_mirrored (v1 v2 q : α) : interpW .backward v1 v2 q = interpW .forward v1 v2 (1 - q) := by
  unfold interpW; lits; ring

theorem backward_differs (v1 v2 q : α) (hv : v1 ≠ v2) (hq : q ≠ 1 / 2) :
    interpW .backward v1 v2 q ≠ interpW .forward v1 v2 q := by
  unfold interpW; lits
  intro h
  have : (2 * q - 1) * (v1 - v2) = 0 := by linarith
  rcases mul_eq_zero.mp this with h1 | h1
  · exact hq (by linarith)
  · exact hv (by linarith)

/-- the time weight is in `[0, 1)` and is zero exactly at whole hours -/
theorem hour_fraction_range (t : Int) :
    0 ≤ (hourFraction t).1 ∧ (hourFraction t).1 < (hourFraction t).2 ∧
    ((hourFraction t).1 = 0 ↔ 3600 ∣ t) := by
  unfold hourFraction
  refine ⟨Int.emod_nonneg _ (by norm_num), Int.emod_lt_of_pos _ (by norm_num), ?_⟩
  constructor
  · intro h; exact Int.dvd_of_emod_eq_zero h
  · intro h; exact Int.emod_eq_zero_of_dvd h

/-- the hour tag and the fraction reconstruct the time -/
theorem hour_decomposition (t : Int) : hourOf t * 3600 + (hourFraction t).1 = t := by
  unfold hourOf hourFraction
  rw [Int.fdiv_eq_ediv_of_nonneg _ (by norm_num)]
  show t / 3600 * 3600 + t % 3600 = t
  omega

/-- the time of model step `t` -/
theorem time_of_step (start step t : Int) : timeOfStep start step t = start + step * t := rfl

/-- rounding an exact quotient changes nothing -/
theorem roundDivHalfEven_exact (a b : Int) (hb : 0 < b) (h : b ∣ a) : roundDivHalfEven a b = a / b := by
  unfold roundDivHalfEven
  obtain ⟨k, rfl⟩ := h
  have hr : (b * k).fmod b = 0 := by
    rw [Int.fmod_eq_emod_of_nonneg _ (le_of_lt hb)]; exact Int.mul_emod_right b k
  have hq : (b * k).fdiv b = b * k / b := Int.fdiv_eq_ediv_of_nonneg _ (le_of_lt hb)
  simp only [hr, hq]
  rw [if_pos (by omega)]

/-- **the time of an integrator sub-step is exact** (since the `fix:` commit 686084e): for every start, step
count and time step and for the sub-step fractions 0, 1/2 and 1 the time used by `velocity` is
`start + step·t + step·tstep` to the microsecond … -/
theorem substep_time_exact (start step t num : Int) (hn : num = 0 ∨ num = 1 ∨ num = 2) :
    subTimeUs start step t num 2 = (start + step * t) * 1000000 + step * num * 500000 := by
  unfold subTimeUs timeOfStep
  rw [roundDivHalfEven_exact _ 2 (by norm_num) (by rcases hn with h | h | h <;> subst h <;> omega)]
  omega

/-- … whereas the code before the fix dropped the half second of an odd time step (dt = 45 s, tstep = 1/2:
22 s instead of 22.5 s) -/
theorem substep_time_old_truncates :
    subTimeOldUs 0 45 10 1 2 = 472000000 ∧ subTimeUs 0 45 10 1 2 = 472500000 := by decide

/-- the time weight is in `[0, 1)` and zero exactly at whole hours, also at microsecond resolution -/
theorem hour_fraction_us_range (t : Int) :
    0 ≤ (hourFractionUs t).1 ∧ (hourFractionUs t).1 < (hourFractionUs t).2 ∧
    ((hourFractionUs t).1 = 0 ↔ 3600000000 ∣ t) := by
  unfold hourFractionUs
  refine ⟨Int.emod_nonneg _ (by norm_num), Int.emod_lt_of_pos _ (by norm_num), ?_⟩
  constructor
  · intro h; exact Int.dvd_of_emod_eq_zero h
  · intro h; exact Int.emod_eq_zero_of_dvd h

theorem hour_decomposition_us (t : Int) : hourOfUs t * 3600000000 + (hourFractionUs t).1 = t := by
  unfold hourOfUs hourFractionUs
  rw [Int.fdiv_eq_ediv_of_nonneg _ (by norm_num)]
  show t / 3600000000 * 3600000000 + t % 3600000000 = t
  omega

/-- every position the grid reports as inside (`0.5 < x < xmax - 0.5`, so `1 ≤ round x ≤ xmax - 1`) gets a
valid index into `dx` (`0 … xmax - 2`) with the clamped upper limit `xmax - 2` … -/
theorem metric_index_in_range (xmax r : Int) (h1 : 1 ≤ r) (h2 : r ≤ xmax - 1) (hx : 2 ≤ xmax) :
    0 ≤ metricIndex (xmax - 2) r ∧ metricIndex (xmax - 2) r ≤ xmax - 2 ∧
    (r ≤ xmax - 2 → metricIndex (xmax - 2) r = r) := by
  unfold metricIndex; omega

/-- … whereas with the limit `xmax` (before the `fix:` commit) the outermost in-grid column indexes one
past the end of `dx` (length `xmax - 1`) -/
theorem raw_outermost_fails : metricIndex 5 (5 - 1) = 5 - 1 ∧ ¬ (metricIndex 5 (5 - 1) ≤ 5 - 2) := by decide

/-! ## depth → level index (`np.interp(z, depth, arange(n))`) -/

/-- monotone in depth for strictly increasing tabulated depths -/
theorem z2k_monotone (depth idx : List α) (z₁ z₂ k₁ k₂ : α)
    (hd : List.Pairwise (· < ·) depth) (hi : List.Pairwise (· ≤ ·) idx) (hz : z₁ ≤ z₂)
    (e₁ : interp depth idx z₁ = some k₁) (e₂ : interp depth idx z₂ = some k₂) : k₁ ≤ k₂ :=
  InterpLemmas.interp_mono depth idx z₁ z₂ k₁ k₂ hd hi hz e₁ e₂

/-- exact at the first two tabulated depths (and, by the recursive structure, at every knot: see
`z2k_exact_at_knot`) -/
theorem z2k_exact_first (d0 d1 i0 i1 : α) (ds is : List α) (h : d0 < d1) :
    interp (d0 :: d1 :: ds) (i0 :: i1 :: is) d0 = some i0 := by
  unfold interp; simp [interpGo, h]

/-- exactness at a knot propagates down the table: if `z` is not left of `d1`, interpolating in the
whole table equals interpolating in its tail -/
theorem z2k_tail (d0 d1 i0 i1 : α) (ds is : List α) (z : α) (h01 : d0 < d1) (hz : d1 ≤ z) :
    interp (d0 :: d1 :: ds) (i0 :: i1 :: is) z = interp (d1 :: ds) (i1 :: is) z := by
  unfold interp
  have h0 : ¬ z < d0 := by intro h; linarith
  have h1 : ¬ z < d1 := not_lt.mpr hz
  simp [interpGo, h0, h1]

/-- constant extension below the first and above the last depth -/
theorem z2k_clamps_left (d0 i0 : α) (ds is : List α) (z : α) (h : z < d0) :
    interp (d0 :: ds) (i0 :: is) z = some i0 := by
  unfold interp; simp [h]

end C13
