import LadimProofs.Basic
import LadimProofs.C10
import LadimModel.IBM.Memory
import LadimModel.IBM.Chemicals
import LadimModel.Grid.Neighbours
import LadimModel.IBM.Swim
/-!
# C11 — land-collision handling moves only stuck or coastal particles, within their cell
-/
open Ladim Ladim.Memory Ladim.Nb
set_option linter.unusedVariables false
set_option linter.unusedSectionVars false

namespace C11

/-! ## what the collision handler remembers

The LADiM `State` hands out its arrays by reference and the tracker writes into them *in place*
(`state['X'][act] = X`); `append` / `remove` allocate new arrays.  `Memory.snapshot`: the handler keeps
copies (mine: `np.copy`; any state stub with fresh arrays).  `Memory.alias`: it keeps the reference
(chemicals: `self.x = self.state.X`), so unless the arrays were reallocated since, the remembered
position *is* the current position. -/

theorem feq_iff {β : Type} [i : LinearOrder β] (a b : β) : @feq β _ _ a b = true ↔ a = b := by
  unfold feq
  simp only [Bool.and_eq_true, Bool.not_eq_true', decide_eq_false_iff_not, not_lt]
  constructor
  · rintro ⟨h1, h2⟩; exact le_antisymm h2 h1
  · rintro rfl; exact ⟨le_refl _, le_refl _⟩

section
variable {α : Type} [LinearOrder α]

/-- FULL STATEMENT (snapshot memory): a particle is moved only if it existed in the previous step and
has exactly the same horizontal position as then -/
theorem reposition_moves_only_stuck (mem : List (Rec α)) (realloc : Bool) (r : Rec α)
    (h : decides .snapshot mem realloc r = true) :
    ∃ o ∈ mem, o.pid = r.pid ∧ o.x = r.x ∧ o.y = r.y := by
  unfold decides stuck lookup at h
  cases hf : mem.find? (fun o => o.pid == r.pid) with
  | none => simp [hf] at h
  | some o =>
    simp only [hf, Bool.and_eq_true] at h
    have hm := List.mem_of_find?_eq_some hf
    have hp := List.find?_some hf
    exact ⟨o, hm, by simpa using hp, (feq_iff _ _).mp h.1, (feq_iff _ _).mp h.2⟩

/-- … conversely every particle that has not moved is repositioned (distinct pids) -/
theorem stuck_is_repositioned (mem : List (Rec α)) (realloc : Bool) (r o : Rec α)
    (hn : (mem.map (·.pid)).Nodup) (ho : o ∈ mem) (hp : o.pid = r.pid) (hx : o.x = r.x) (hy : o.y = r.y) :
    decides .snapshot mem realloc r = true := by
  unfold decides stuck lookup
  have : mem.find? (fun q => q.pid == r.pid) = some o := by
    induction mem with
    | nil => simp at ho
    | cons a rest ih =>
      simp only [List.map_cons, List.nodup_cons] at hn
      simp only [List.mem_cons] at ho
      rcases ho with rfl | ho
      · simp [hp]
      · have hne : a.pid ≠ r.pid := by
          intro he; apply hn.1; rw [he, ← hp]; exact List.mem_map_of_mem ho
        simp only [List.find?_cons]
        have : (a.pid == r.pid) = false := by simpa using hne
        rw [this]
        exact ih hn.2 ho
  simp [this, hx, hy, (feq_iff _ _).mpr rfl]

/-- alias memory behaves like snapshot memory exactly on the steps that follow a reallocation … -/
theorem alias_partial (mem : List (Rec α)) (r : Rec α) :
    decides .alias mem true r = decides .snapshot mem true r := rfl

end

/-- KNOWN FINDING — … and otherwise re-seeds a particle that the tracker *has* moved: pid 7 was stored at
(1, 2), the tracker moved it to (4, 2), no reallocation: the handler still treats it as stuck -/
theorem alias_reseeds_free_particle_fails :
    decides .alias [⟨7, (1 : Int), 2⟩] false ⟨7, 4, 2⟩ = true ∧
    decides .snapshot [⟨7, (1 : Int), 2⟩] false ⟨7, 4, 2⟩ = false := by decide

/-! ## moved particles stay inside their cell -/
section real
variable {α : Type} [Field α] [LinearOrder α] [IsStrictOrderedRing α] [HasSqrt α] [HasFloor α] [HasRound α]

/-- `round(x) - 0.5 + u` with `u ∈ [0,1)` lies in the cell `[round x − ½, round x + ½)` -/
theorem reseed_in_cell (x u : α) (h0 : 0 ≤ u) (h1 : u < 1) :
    round x - 1 / 2 ≤ Chemicals.reseed x u ∧ Chemicals.reseed x u < round x + 1 / 2 := by
  unfold Chemicals.reseed
  have h5 : (0.5 : α) = 1 / 2 := by norm_num
  rw [h5]
  constructor <;> linarith

end real

/-! ## helper queries agree with an exhaustive neighbourhood search -/

theorem clampI_range (n : Nat) (i : Int) (hn : 0 < n) : 0 ≤ clampI n i ∧ clampI n i < n := by
  unfold clampI; omega

/-- the stencil is exactly the eight-neighbourhood -/
theorem stencil8_spec (di dj : Int) :
    (di, dj) ∈ stencil8 ↔ (-1 ≤ di ∧ di ≤ 1 ∧ -1 ≤ dj ∧ dj ≤ 1 ∧ ¬ (di = 0 ∧ dj = 0)) := by
  unfold stencil8
  simp only [List.mem_cons, Prod.mk.injEq, List.not_mem_nil, or_false]
  constructor
  · rintro (h | h | h | h | h | h | h | h) <;> omega
  · intro h
    have : di = -1 ∨ di = 0 ∨ di = 1 := by omega
    have : dj = -1 ∨ dj = 0 ∨ dj = 1 := by omega
    omega

/-- `is_close_to_land` ↔ some cell of the (clamped) eight-neighbourhood is land -/
theorem is_close_to_land_spec (land : Mask) (ic jc : Int) :
    isCloseToLand land ic jc = true ↔
      ∃ di dj : Int, -1 ≤ di ∧ di ≤ 1 ∧ -1 ≤ dj ∧ dj ≤ 1 ∧ ¬ (di = 0 ∧ dj = 0) ∧
        land.val (clampI land.rows (jc + dj)) (clampI land.cols (ic + di)) = true := by
  unfold isCloseToLand
  rw [List.any_eq_true]
  constructor
  · rintro ⟨⟨di, dj⟩, hm, hv⟩
    have := (stencil8_spec di dj).mp hm
    exact ⟨di, dj, this.1, this.2.1, this.2.2.1, this.2.2.2.1, this.2.2.2.2, hv⟩
  · rintro ⟨di, dj, h1, h2, h3, h4, h5, hv⟩
    exact ⟨(di, dj), (stencil8_spec di dj).mpr ⟨h1, h2, h3, h4, h5⟩, hv⟩

section nearest
variable {α : Type} [Field α] [LinearOrder α] [IsStrictOrderedRing α]

theorem argminFirst_spec (cands : List ((Int × Int) × α)) (best : (Int × Int) × α)
    (h : argminFirst cands = some best) : best ∈ cands ∧ ∀ c ∈ cands, best.2 ≤ c.2 := by
  unfold argminFirst at h
  -- generalise over the accumulator
  have aux : ∀ (l : List ((Int × Int) × α)) (acc : Option ((Int × Int) × α)) (b : (Int × Int) × α),
      l.foldl (fun best c => match best with
        | none => some c
        | some b => if c.2 < b.2 then some c else some b) acc = some b →
      (b ∈ l ∨ acc = some b) ∧ (∀ c ∈ l, b.2 ≤ c.2) ∧ (∀ a, acc = some a → b.2 ≤ a.2) := by
    intro l
    induction l with
    | nil => intro acc b hb; simp at hb; subst hb; simp
    | cons c cs ih =>
      intro acc b hb
      simp only [List.foldl_cons] at hb
      cases acc with
      | none =>
        obtain ⟨h1, h2, h3⟩ := ih (some c) b hb
        refine ⟨?_, ?_, by simp⟩
        · rcases h1 with h1 | h1
          · exact Or.inl (List.mem_cons_of_mem _ h1)
          · simp only [Option.some.injEq] at h1; subst h1; exact Or.inl (by simp)
        · intro d hd
          simp only [List.mem_cons] at hd
          rcases hd with rfl | hd
          · exact h3 _ rfl
          · exact h2 d hd
      | some a =>
        by_cases hlt : c.2 < a.2
        · simp only [hlt, if_true] at hb
          obtain ⟨h1, h2, h3⟩ := ih (some c) b hb
          refine ⟨?_, ?_, ?_⟩
          · rcases h1 with h1 | h1
            · exact Or.inl (List.mem_cons_of_mem _ h1)
            · simp only [Option.some.injEq] at h1; subst h1; exact Or.inl (by simp)
          · intro d hd
            simp only [List.mem_cons] at hd
            rcases hd with rfl | hd
            · exact h3 _ rfl
            · exact h2 d hd
          · intro a' ha'
            simp only [Option.some.injEq] at ha'; subst ha'
            exact le_trans (h3 c rfl) hlt.le
        · simp only [hlt, if_false] at hb
          obtain ⟨h1, h2, h3⟩ := ih (some a) b hb
          refine ⟨?_, ?_, ?_⟩
          · rcases h1 with h1 | h1
            · exact Or.inl (List.mem_cons_of_mem _ h1)
            · exact Or.inr h1
          · intro d hd
            simp only [List.mem_cons] at hd
            rcases hd with rfl | hd
            · exact le_trans (h3 a rfl) (not_lt.mp hlt)
            · exact h2 d hd
          · intro a' ha'
            simp only [Option.some.injEq] at ha'; subst ha'
            exact h3 a rfl
  obtain ⟨h1, h2, _⟩ := aux cands none best h
  rcases h1 with h1 | h1
  · exact ⟨h1, h2⟩
  · simp at h1

instance (priority := low) fieldOfInt : HasOfInt α := ⟨fun i => (i : α)⟩

/-- `nearest_unmasked`: the returned cell is one of the nine clamped neighbours, is unmasked, and no
unmasked neighbour is closer to the particle -/
theorem nearest_unmasked_spec (masked : Mask) (x y : α) (ic jc : Int) (ci cj : Int)
    (h : nearestUnmasked masked x y ic jc = some (ci, cj)) :
    masked.val cj ci = false ∧
    (∃ d ∈ stencil9, ci = clampI masked.cols (ic + d.1) ∧ cj = clampI masked.rows (jc + d.2)) ∧
    ∀ d ∈ stencil9, masked.val (clampI masked.rows (jc + d.2)) (clampI masked.cols (ic + d.1)) = false →
      dist2 x y ci cj ≤ dist2 x y (clampI masked.cols (ic + d.1)) (clampI masked.rows (jc + d.2)) := by
  unfold nearestUnmasked at h
  simp only [Option.map_eq_some_iff] at h
  obtain ⟨best, hb, hbe⟩ := h
  obtain ⟨hmem, hmin⟩ := argminFirst_spec _ best hb
  simp only [List.mem_map, List.mem_filter] at hmem
  obtain ⟨c, ⟨⟨d, hd, hcd⟩, hopen⟩, hbc⟩ := hmem
  have hc : c = (ci, cj) := by rw [← hbe, ← hbc]
  subst hbc
  simp only [] at hbe hmin
  refine ⟨?_, ⟨d, hd, ?_, ?_⟩, ?_⟩
  · rw [hc] at hopen; simpa using hopen
  · rw [← hcd] at hc; simpa using (congrArg Prod.fst hc).symm
  · rw [← hcd] at hc; simpa using (congrArg Prod.snd hc).symm
  · intro d' hd' hopen'
    have := hmin ((clampI masked.cols (ic + d'.1), clampI masked.rows (jc + d'.2)),
        dist2 x y (clampI masked.cols (ic + d'.1)) (clampI masked.rows (jc + d'.2))) (by
      simp only [List.mem_map, List.mem_filter]
      exact ⟨_, ⟨⟨d', hd', rfl⟩, by simpa using hopen'⟩, rfl⟩)
    simp only [] at this
    rw [hc] at this
    exact this

end nearest

/-! ## directed swimming never takes a particle onto land or outside the grid -/

theorem directed_swim_safe {π : Type} (ingrid atsea : π → Bool) (old new : π) :
    guardedMove ingrid atsea old new = old ∨
      (guardedMove ingrid atsea old new = new ∧ ingrid new = true ∧ atsea new = true) := by
  unfold guardedMove
  by_cases h : (ingrid new && atsea new) = true
  · right; simp only [h, if_true]; simpa using h
  · left; simp [h]

/-- coastal diffusion moves only coastal particles; freeze moves none (the strategies are exclusive
branches of `update_ibm`: the per-particle model re-seeds iff its `stuck` flag is set) -/
theorem strategy_moves_only_flagged [Field α] [LinearOrder α] [IsStrictOrderedRing α] [HasSqrt α] [HasFloor α]
    [HasRound α] (c : Chemicals.Config α) (e : Chemicals.Env α) (d : Chemicals.Draws α) (p : Chemicals.Particle α)
    (hh : c.horz = none) (hs : d.stuck = false) :
    (Chemicals.update c e d p).x = p.x ∧ (Chemicals.update c e d p).y = p.y := by
  unfold Chemicals.update Chemicals.horizontal
  simp only [hs, hh]
  cases c.lifespan <;> simp

/-! ## directed swimming (saithe `spread`, lunar eel `horizontal_advect`) -/

section swim
open Ladim.Swim
variable {β : Type}

/-- a directed saithe larva ends where it was, or at a position that is inside the grid and at sea -/
theorem saithe_stays_or_valid (ingrid atsea : β → β → Bool) (x0 y0 x y : β) :
    let p := saitheStep ingrid atsea x0 y0 x y
    (p.1 = x0 ∧ p.2.1 = y0) ∨ (p.1 = x ∧ p.2.1 = y ∧ ingrid x y = true ∧ atsea x y = true) := by
  unfold saitheStep
  by_cases hi : ingrid x y = true
  · by_cases hs : atsea x y = true
    · right; simp [hi, hs]
    · left; simp [hi, hs]
  · left
    by_cases hs : atsea x0 y0 = true <;> simp [hi, hs]

/-- it is retired exactly when the candidate position is outside the grid (and then it does not move) -/
theorem saithe_dies_iff_outside (ingrid atsea : β → β → Bool) (x0 y0 x y : β) :
    (saitheStep ingrid atsea x0 y0 x y).2.2 = ingrid x y := rfl

theorem saithe_outside_stays (ingrid atsea : β → β → Bool) (x0 y0 x y : β) (h : ingrid x y = false) :
    (saitheStep ingrid atsea x0 y0 x y).1 = x0 ∧ (saitheStep ingrid atsea x0 y0 x y).2.1 = y0 := by
  unfold saitheStep
  by_cases hs : atsea x0 y0 = true <;> simp [h, hs]

/-- never onto land, never outside: if the larva was at sea and inside the grid it still is -/
theorem saithe_never_onto_land_or_out (ingrid atsea : β → β → Bool) (x0 y0 x y : β)
    (h0 : ingrid x0 y0 = true ∧ atsea x0 y0 = true) :
    let p := saitheStep ingrid atsea x0 y0 x y
    ingrid p.1 p.2.1 = true ∧ atsea p.1 p.2.1 = true := by
  have h := saithe_stays_or_valid ingrid atsea x0 y0 x y
  rcases h with ⟨h1, h2⟩ | ⟨h1, h2, h3, h4⟩
  · simp only [h1, h2]; exact h0
  · simp only [h1, h2]; exact ⟨h3, h4⟩

/-- the eel moves exactly when the candidate is inside the grid and at sea -/
theorem eel_moves_iff (ingrid atsea : β → β → Bool) (x0 y0 x y : β) :
    eelStep ingrid atsea x0 y0 x y = if (ingrid x y && atsea x y) = true then (x, y) else (x0, y0) := rfl

theorem eel_never_onto_land_or_out (ingrid atsea : β → β → Bool) (x0 y0 x y : β)
    (h0 : ingrid x0 y0 = true ∧ atsea x0 y0 = true) :
    let p := eelStep ingrid atsea x0 y0 x y
    ingrid p.1 p.2 = true ∧ atsea p.1 p.2 = true := by
  unfold eelStep
  by_cases h : (ingrid x y && atsea x y) = true
  · simp only [h, if_true]
    simpa using h
  · simp only [h]
    exact h0

/-- non-vacuity: a 1-D coast (sea for x < 3, grid 0..5): swimming to 2 succeeds, to 4 (land) and to 7 (outside)
does not, and only the last retires the larva -/
example : saitheStep (fun x _ => decide (x < (6:Int))) (fun x _ => decide (x < 3)) 1 0 2 0 = (2, 0, true)
    ∧ saitheStep (fun x _ => decide (x < (6:Int))) (fun x _ => decide (x < 3)) 1 0 4 0 = (1, 0, true)
    ∧ saitheStep (fun x _ => decide (x < (6:Int))) (fun x _ => decide (x < 3)) 1 0 7 0 = (1, 0, false) := by decide

end swim

/-! ## binary64: the half-open cell is not respected for the largest draw (known finding F-C11b)

`reseed_in_cell` above is a statement over an ordered field.  In IEEE binary64 the sum
`round(X) − 0.5 + u` with the largest value the generator can return, `u = 1 − 2⁻⁵³`, rounds up to exactly
`round(X) + 0.5` (checked by the kernel's evaluation of `Float` arithmetic): -/
theorem reseed_binary64_touches_upper_border :
    ((9.0 : Float) - 0.5 + 0.9999999999999999 == 9.5) = true ∧
    ((9.0 : Float) - 0.5 + 0.9999999999999999 < 9.5) = false := by
  constructor <;> decide +kernel

/-- the same happens for every draw within half a unit in the last place of the border (here also `1 − 2⁻⁵²`):
the probability per re-seeded coordinate is about `ulp(round X) / 2 ≈ round(X) · 1.1e-16` … -/
theorem reseed_binary64_second_largest_draw_too :
    ((9.0 : Float) - 0.5 + 0.9999999999999998 == 9.5) = true := by decide +kernel

/-- … and draws farther from 1 stay strictly inside -/
theorem reseed_binary64_smaller_draw_inside :
    ((9.0 : Float) - 0.5 + 0.999999999999999 < 9.5) = true := by decide +kernel

end C11
