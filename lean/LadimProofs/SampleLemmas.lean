import LadimProofs.Basic
import LadimModel.Release.Sample
/-! List lemmas behind the triangle choice: `searchsorted`, `cumsum`. -/
open Ladim Ladim.Sample
set_option linter.unusedVariables false
set_option linter.unusedSectionVars false
namespace SampleLemmas
variable {α : Type} [Field α] [LinearOrder α] [IsStrictOrderedRing α]

/-- `searchsorted` (left): everything before the returned index is `< v`; the element at the index
(if any) is `≥ v` -/
theorem searchsorted_spec (a : List α) (v : α) :
    (∀ j (hj : j < searchsortedLeft a v) (hja : j < a.length), a[j] < v) ∧
    (∀ (hk : searchsortedLeft a v < a.length), ¬ a[searchsortedLeft a v] < v) := by
  unfold searchsortedLeft
  induction a with
  | nil => simp
  | cons x xs ih =>
    by_cases hx : x < v
    · simp only [List.takeWhile_cons, hx, decide_true, if_true, List.length_cons]
      constructor
      · intro j hj hja
        cases j with
        | zero => simpa using hx
        | succ j => simpa using ih.1 j (by omega) (by simpa using hja)
      · intro hk
        simpa using ih.2 (by omega)
    · have e : List.takeWhile (fun x => decide (x < v)) (x :: xs) = [] := by
        simp [List.takeWhile_cons, hx]
      rw [e]
      constructor
      · intro j hj; simp at hj
      · intro _; simpa using hx

theorem searchsorted_le_length (a : List α) (v : α) : searchsortedLeft a v ≤ a.length := by
  unfold searchsortedLeft
  induction a with
  | nil => simp
  | cons x xs ih =>
    by_cases hx : x < v
    · simp only [List.takeWhile_cons, hx, decide_true, if_true, List.length_cons]; omega
    · simp [List.takeWhile_cons, hx]

/-- if some element is not `< v` the index is inside the array -/
theorem searchsorted_lt_length (a : List α) (v : α) (h : ∃ x ∈ a, ¬ x < v) :
    searchsortedLeft a v < a.length := by
  unfold searchsortedLeft
  induction a with
  | nil => simp at h
  | cons x xs ih =>
    by_cases hx : x < v
    · simp only [List.takeWhile_cons, hx, decide_true, if_true, List.length_cons]
      obtain ⟨y, hy, hny⟩ := h
      simp only [List.mem_cons] at hy
      rcases hy with rfl | hy
      · exact absurd hx hny
      · have := ih ⟨y, hy, hny⟩; omega
    · simp [List.takeWhile_cons, hx]

/-- uniqueness on a non-decreasing array: the index is `k` iff `a[k-1] < v ≤ a[k]` -/
theorem searchsorted_eq_iff (a : List α) (v : α) (hs : List.Pairwise (· ≤ ·) a) (k : Nat) (hk : k < a.length) :
    searchsortedLeft a v = k ↔ ((∀ j (hj : j < k), a[j]'(by omega) < v) ∧ ¬ a[k] < v) := by
  constructor
  · rintro rfl
    have := searchsorted_spec a v
    exact ⟨fun j hj => this.1 j hj (by omega), this.2 hk⟩
  · rintro ⟨h1, h2⟩
    have sp := searchsorted_spec a v
    have hle := searchsorted_le_length a v
    rcases lt_trichotomy (searchsortedLeft a v) k with h | h | h
    · exact absurd (h1 _ h) (sp.2 (by omega))
    · exact h
    · exact absurd (sp.1 k h hk) h2

theorem cumsumFrom_length (acc : α) (l : List α) : (cumsumFrom acc l).length = l.length := by
  induction l generalizing acc with
  | nil => rfl
  | cons a as ih => simp [cumsumFrom, ih]

theorem cumsum_length (l : List α) : (cumsum l).length = l.length := by
  cases l with
  | nil => rfl
  | cons a as => simp [cumsum, cumsumFrom_length]

/-- all partial sums of non-negative numbers are at least the start value and non-decreasing -/
theorem cumsumFrom_pairwise (acc : α) (l : List α) (h : ∀ x ∈ l, 0 ≤ x) :
    List.Pairwise (· ≤ ·) (acc :: cumsumFrom acc l) := by
  induction l generalizing acc with
  | nil => simp [cumsumFrom]
  | cons a as ih =>
    simp only [cumsumFrom]
    have ha : 0 ≤ a := h a (by simp)
    have hrec := ih (acc + a) (fun x hx => h x (by simp [hx]))
    have hrec' := hrec
    rw [List.pairwise_cons] at hrec' ⊢
    refine ⟨?_, hrec⟩
    intro y hy
    simp only [List.mem_cons] at hy
    rcases hy with rfl | hy
    · linarith
    · have := hrec'.1 y hy; linarith

theorem cumsum_pairwise (l : List α) (h : ∀ x ∈ l, 0 ≤ x) : List.Pairwise (· ≤ ·) (cumsum l) := by
  cases l with
  | nil => simp [cumsum]
  | cons a as => exact cumsumFrom_pairwise a as (fun x hx => h x (by simp [hx]))

/-- consecutive partial sums differ by the corresponding term -/
theorem cumsumFrom_get (acc : α) (l : List α) (k : Nat) (hk : k < l.length) :
    (cumsumFrom acc l)[k]'(by rw [cumsumFrom_length]; exact hk) =
      (if h : k = 0 then acc else (cumsumFrom acc l)[k - 1]'(by rw [cumsumFrom_length]; omega)) + l[k] := by
  induction l generalizing acc k with
  | nil => simp at hk
  | cons a as ih =>
    cases k with
    | zero => simp [cumsumFrom]
    | succ k =>
      simp only [cumsumFrom, List.getElem_cons_succ, Nat.succ_ne_zero, dite_false, Nat.add_sub_cancel]
      have := ih (acc + a) k (by simpa using hk)
      rw [this]
      cases k with
      | zero => simp
      | succ k => simp

theorem cumsum_get_succ (l : List α) (k : Nat) (hk : k + 1 < l.length) :
    (cumsum l)[k + 1]'(by rw [cumsum_length]; exact hk) =
      (cumsum l)[k]'(by rw [cumsum_length]; omega) + l[k + 1] := by
  cases l with
  | nil => simp at hk
  | cons a as =>
    simp only [cumsum, List.getElem_cons_succ]
    have := cumsumFrom_get a as k (by simpa using hk)
    rw [this]
    cases k with
    | zero => simp
    | succ k => simp

theorem cumsum_get_zero (l : List α) (h : 0 < l.length) :
    (cumsum l)[0]'(by rw [cumsum_length]; exact h) = l[0] := by
  cases l with
  | nil => simp at h
  | cons a as => simp [cumsum]

end SampleLemmas
