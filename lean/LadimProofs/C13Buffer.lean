import LadimProofs.C13
/-!
# C13 (cache part) — the two-frame `Buffer` of `nk800met/gridforce.py` is transparent

Whatever the history of requests, `_get_var` returns for key `k` exactly the value `load k` of the
backing file, never a value loaded for another key.
-/
open Ladim Ladim.Nk800
set_option linter.unusedSectionVars false

namespace C13
variable {κ ν φ : Type} [DecidableEq κ] [DecidableEq φ]

/-! ## association lists -/

theorem lookup_nil {β : Type} (k : κ) : lookup ([] : List (κ × β)) k = none := rfl

theorem lookup_cons {β : Type} (p : κ × β) (l : List (κ × β)) (k : κ) :
    lookup (p :: l) k = if p.1 = k then some p.2 else lookup l k := by
  unfold lookup
  by_cases h : p.1 = k
  · simp [h]
  · simp [h]

theorem lookup_append {β : Type} (l m : List (κ × β)) (k : κ) :
    lookup (l ++ m) k = (lookup l k).or (lookup m k) := by
  induction l with
  | nil => simp [lookup_nil]
  | cons p l ih =>
    rw [List.cons_append, lookup_cons, lookup_cons, ih]
    by_cases h : p.1 = k <;> simp [h]

theorem lookup_eq_none_of_any_false {β : Type} (l : List (κ × β)) (k : κ)
    (h : l.any (fun p => p.1 == k) = false) : lookup l k = none := by
  induction l with
  | nil => rfl
  | cons p l ih =>
    rw [List.any_cons, Bool.or_eq_false_iff] at h
    have hp : ¬ p.1 = k := by simpa using h.1
    rw [lookup_cons, if_neg hp]; exact ih h.2

theorem any_iff_lookup {β : Type} (l : List (κ × β)) (k : κ) :
    l.any (fun p => p.1 == k) = true ↔ ∃ v, lookup l k = some v := by
  induction l with
  | nil => simp [lookup_nil]
  | cons p l ih =>
    rw [List.any_cons, lookup_cons]
    by_cases hp : p.1 = k
    · simp [hp]
    · simp only [if_neg hp, Bool.or_eq_true, ← ih]
      have : (p.1 == k) = false := by simpa using hp
      simp [this]

theorem mem_of_lookup {β : Type} (l : List (κ × β)) (k : κ) (v : β)
    (h : lookup l k = some v) : (k, v) ∈ l := by
  induction l with
  | nil => simp [lookup_nil] at h
  | cons p l ih =>
    rw [lookup_cons] at h
    by_cases hp : p.1 = k
    · rw [if_pos hp] at h
      have : p = (k, v) := by
        cases p; simp only [Option.some.injEq] at h hp; subst h; subst hp; rfl
      rw [this]; exact List.mem_cons_self
    · rw [if_neg hp] at h; exact List.mem_cons_of_mem _ (ih h)

theorem lookup_of_mem_nodup {β : Type} (l : List (κ × β)) (k : κ) (v : β)
    (hn : (l.map (·.1)).Nodup) (h : (k, v) ∈ l) : lookup l k = some v := by
  induction l with
  | nil => simp at h
  | cons p l ih =>
    rw [List.map_cons, List.nodup_cons] at hn
    rw [lookup_cons]
    rcases List.mem_cons.mp h with h | h
    · subst h; simp
    · have hp : ¬ p.1 = k := by
        intro hp
        apply hn.1
        rw [hp]
        exact List.mem_map.mpr ⟨(k, v), h, rfl⟩
      rw [if_neg hp]; exact ih hn.2 h

/-- filtering an association list with distinct keys only removes entries -/
theorem lookup_filter {β : Type} (l : List (κ × β)) (p : κ × β → Bool) (k : κ) (v : β)
    (hn : (l.map (·.1)).Nodup) (h : lookup (l.filter p) k = some v) : lookup l k = some v :=
  lookup_of_mem_nodup l k v hn (List.mem_filter.mp (mem_of_lookup _ k v h)).1

theorem nodup_keys_filter {β : Type} (l : List (κ × β)) (p : κ × β → Bool)
    (hn : (l.map (·.1)).Nodup) : ((l.filter p).map (·.1)).Nodup :=
  hn.sublist (List.filter_sublist.map _)

theorem lookup_map_self {β : Type} (l : List (κ × β)) (k : κ) (v : β)
    (h : l.any (fun p => p.1 == k) = true) :
    lookup (l.map (fun p => if p.1 == k then (k, v) else p)) k = some v := by
  induction l with
  | nil => simp at h
  | cons p l ih =>
    rw [List.map_cons, lookup_cons]
    by_cases hp : p.1 = k
    · simp [hp]
    · have hb : (p.1 == k) = false := by simpa using hp
      rw [List.any_cons, hb, Bool.false_or] at h
      simp only [hb, Bool.false_eq_true, if_false, if_neg hp]
      exact ih h

theorem lookup_map_other {β : Type} (l : List (κ × β)) (k k' : κ) (v : β) (hk : k' ≠ k) :
    lookup (l.map (fun p => if p.1 == k then (k, v) else p)) k' = lookup l k' := by
  induction l with
  | nil => rfl
  | cons p l ih =>
    rw [List.map_cons, lookup_cons, lookup_cons, ih]
    by_cases hp : p.1 = k
    · have h1 : ¬ k = k' := fun h => hk h.symm
      have h2 : ¬ p.1 = k' := fun h => hk (h.symm.trans hp)
      simp [hp, h1]
    · have hb : (p.1 == k) = false := by simpa using hp
      simp [hb]

/-- python `d[k] = v; d[k]` gives `v` -/
theorem lookup_assign_self {β : Type} (l : List (κ × β)) (k : κ) (v : β) :
    lookup (assign l k v) k = some v := by
  unfold assign
  by_cases h : l.any (fun p => p.1 == k) = true
  · rw [if_pos h]; exact lookup_map_self l k v h
  · rw [if_neg h]
    have h' : l.any (fun p => p.1 == k) = false := Bool.eq_false_iff.mpr h
    rw [lookup_append, lookup_eq_none_of_any_false l k h', lookup_cons]
    simp

/-- python `d[k] = v` leaves the other keys alone -/
theorem lookup_assign_other {β : Type} (l : List (κ × β)) (k k' : κ) (v : β) (hk : k' ≠ k) :
    lookup (assign l k v) k' = lookup l k' := by
  unfold assign
  by_cases h : l.any (fun p => p.1 == k) = true
  · rw [if_pos h]; exact lookup_map_other l k k' v hk
  · rw [if_neg h, lookup_append, lookup_cons, if_neg (fun h => hk h.symm), lookup_nil]
    simp

theorem nodup_keys_assign {β : Type} (l : List (κ × β)) (k : κ) (v : β)
    (hn : (l.map (·.1)).Nodup) : ((assign l k v).map (·.1)).Nodup := by
  unfold assign
  by_cases h : l.any (fun p => p.1 == k) = true
  · rw [if_pos h]
    have : (l.map (fun p => if p.1 == k then (k, v) else p)).map (·.1) = l.map (·.1) := by
      rw [List.map_map]
      apply List.map_congr_left
      intro p _
      by_cases hp : p.1 = k
      · simp [hp]
      · simp [hp]
    rw [this]; exact hn
  · rw [if_neg h, List.map_append, List.map_cons, List.map_nil]
    have h' : l.any (fun p => p.1 == k) = false := Bool.eq_false_iff.mpr h
    refine List.Nodup.append hn (List.nodup_singleton _) ?_
    intro a ha hb
    rw [List.mem_singleton] at hb
    subst hb
    obtain ⟨q, hq, hqa⟩ := List.mem_map.mp ha
    have : l.any (fun p => p.1 == a) = true := List.any_eq_true.mpr ⟨q, hq, by simpa using hqa⟩
    rw [h'] at this; exact Bool.false_ne_true this

/-! ## the buffer invariant -/

/-- every cached value is the value of the backing file for its key (and the dict keys are distinct) -/
def Valid (load : κ → ν) (b : Buffer κ ν φ) : Prop :=
  (∀ k v, b.get? k = some v → v = load k) ∧ (b.buf.map (·.1)).Nodup

theorem valid_empty (load : κ → ν) : Valid load (Buffer.empty : Buffer κ ν φ) := by
  constructor
  · intro k v h; simp [Buffer.get?, Buffer.empty, lookup_nil] at h
  · simp [Buffer.empty]

theorem valid_prune (load : κ → ν) (b : Buffer κ ν φ) (h : Valid load b) : Valid load b.prune := by
  constructor
  · intro k v hk
    exact h.1 k v (lookup_filter _ _ k v h.2 hk)
  · exact nodup_keys_filter _ _ h.2

/-- the buffer just before the two dict assignments of `push` -/
def prePush (b : Buffer κ ν φ) (f : φ) : Buffer κ ν φ :=
  if b.fidxList.contains (some f) then b
  else ({ b with fidxList := b.fidxList.tail ++ [some f] } : Buffer κ ν φ).prune

theorem push_eq (b : Buffer κ ν φ) (k : κ) (v : ν) (f : φ) :
    b.push k v f = { prePush b f with buf := assign (prePush b f).buf k v,
                                       fidx := assign (prePush b f).fidx k f } := rfl

theorem valid_prePush (load : κ → ν) (b : Buffer κ ν φ) (f : φ) (h : Valid load b) :
    Valid load (prePush b f) := by
  unfold prePush
  split
  · exact h
  · exact valid_prune load _ h

/-- a value just pushed is found, even though `push` may prune first -/
theorem get_push_self (b : Buffer κ ν φ) (k : κ) (v : ν) (f : φ) :
    (b.push k v f).get? k = some v := by
  rw [push_eq]; exact lookup_assign_self _ k v

theorem get_push_other (b : Buffer κ ν φ) (k k' : κ) (v : ν) (f : φ) (hk : k' ≠ k) :
    (b.push k v f).get? k' = (prePush b f).get? k' := by
  rw [push_eq]; exact lookup_assign_other _ k k' v hk

/-- pushing the backing-file value of `k` under any frame tag keeps the buffer valid -/
theorem valid_push (load : κ → ν) (b : Buffer κ ν φ) (k : κ) (f : φ) (h : Valid load b) :
    Valid load (b.push k (load k) f) := by
  have hp := valid_prePush load b f h
  constructor
  · intro k' v hk'
    by_cases hk : k' = k
    · subst hk
      rw [get_push_self] at hk'
      exact (Option.some.inj hk').symm
    · rw [get_push_other b k k' _ f hk] at hk'
      exact hp.1 k' v hk'
  · rw [push_eq]; exact nodup_keys_assign _ k _ hp.2

theorem contains_iff (b : Buffer κ ν φ) (k : κ) :
    b.contains k = true ↔ ∃ v, b.get? k = some v :=
  any_iff_lookup b.buf k

/-! ## `_get_var` is transparent -/

/-- a request for `k` returns `load k`, hit or miss, and leaves a valid buffer -/
theorem getVar_transparent (load : κ → ν) (frameOf : κ → φ) (b : Buffer κ ν φ) (k : κ)
    (h : Valid load b) :
    (getVar load frameOf b k).2.1 = some (load k) ∧ Valid load (getVar load frameOf b k).1 := by
  unfold getVar
  by_cases hc : b.contains k = true
  · rw [if_pos hc]
    obtain ⟨v, hv⟩ := (contains_iff b k).mp hc
    refine ⟨?_, h⟩
    show b.get? k = some (load k)
    rw [hv, h.1 k v hv]
  · rw [if_neg hc]
    exact ⟨get_push_self b k (load k) (frameOf k), valid_push load b k (frameOf k) h⟩

/-- the file is read exactly on a miss -/
theorem getVar_reads_iff_miss (load : κ → ν) (frameOf : κ → φ) (b : Buffer κ ν φ) (k : κ) :
    (getVar load frameOf b k).2.2 = !b.contains k := by
  unfold getVar
  by_cases hc : b.contains k = true
  · rw [if_pos hc, hc]; rfl
  · rw [if_neg hc]
    have : b.contains k = false := by simpa using hc
    rw [this]; rfl

/-! ## histories of requests -/

/-- the values served for a sequence of requests -/
def serve (load : κ → ν) (frameOf : κ → φ) (b : Buffer κ ν φ) : List κ → List (Option ν)
  | [] => []
  | k :: ks => (getVar load frameOf b k).2.1 :: serve load frameOf (getVar load frameOf b k).1 ks

theorem serve_of_valid (load : κ → ν) (frameOf : κ → φ) (reqs : List κ) (b : Buffer κ ν φ)
    (h : Valid load b) : serve load frameOf b reqs = reqs.map (fun k => some (load k)) := by
  induction reqs generalizing b with
  | nil => rfl
  | cons k ks ih =>
    obtain ⟨h1, h2⟩ := getVar_transparent load frameOf b k h
    rw [serve, h1, ih _ h2, List.map_cons]

/-- FULL STATEMENT (cache): for every history of requests — forward in time, repeated, back and
forth — each request for `k` is answered with `load k` -/
theorem buffer_transparent (load : κ → ν) (frameOf : κ → φ) (reqs : List κ) :
    serve load frameOf (Buffer.empty : Buffer κ ν φ) reqs = reqs.map (fun k => some (load k)) :=
  serve_of_valid load frameOf reqs _ (valid_empty load)

/-! ## capacity -/

theorem prune_fidxList (b : Buffer κ ν φ) : b.prune.fidxList = b.fidxList := rfl

/-- the number of live frame tags never grows (it is 2 from `Buffer.empty` on) -/
theorem push_live_frames (b : Buffer κ ν φ) (k : κ) (v : ν) (f : φ) (hne : b.fidxList ≠ []) :
    (b.push k v f).fidxList.length = b.fidxList.length := by
  rw [push_eq]
  show (prePush b f).fidxList.length = _
  unfold prePush
  split
  · rfl
  · rw [prune_fidxList]
    show (b.fidxList.tail ++ [some f]).length = _
    rw [List.length_append, List.length_tail, List.length_singleton]
    have : 0 < b.fidxList.length := List.length_pos_iff.mpr hne
    omega

theorem empty_live_frames : (Buffer.empty : Buffer κ ν φ).fidxList.length = 2 := rfl

/-- from `Buffer.empty` on there are always exactly two live frame tags -/
theorem push_two_live_frames (b : Buffer κ ν φ) (k : κ) (v : ν) (f : φ)
    (h : b.fidxList.length = 2) : (b.push k v f).fidxList.length = 2 := by
  rw [push_live_frames b k v f (by intro h0; rw [h0] at h; simp at h), h]

end C13
