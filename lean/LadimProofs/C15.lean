import LadimProofs.Basic
import LadimModel.Grid.Sample
/-!
# C15 — grid sampling: exact at nodes, bounded by neighbours, total at the domain edge
-/
open Ladim Ladim.GridSample
set_option linter.unusedVariables false
set_option linter.unusedSectionVars false

namespace C15

/-! ## cell indices are total: inside the array for *every* position, the nearest edge cell outside -/

theorem clampIdx_range (n : Nat) (i : Int) (hn : 0 < n) : 0 ≤ clampIdx n i ∧ clampIdx n i < n := by
  unfold clampIdx; omega

theorem clampIdx_inside (n : Nat) (i : Int) (h0 : 0 ≤ i) (h1 : i < n) : clampIdx n i = i := by
  unfold clampIdx; omega

/-- west / south of the array: the first cell; east / north: the last cell — whatever the distance -/
theorem clampIdx_edges (n : Nat) (i : Int) (hn : 0 < n) :
    (i < 0 → clampIdx n i = 0) ∧ ((n : Int) ≤ i → clampIdx n i = n - 1) := by
  unfold clampIdx; constructor <;> intro h <;> omega

/-- the clamped index is the in-array index nearest to the requested one -/
theorem clampIdx_nearest (n : Nat) (i k : Int) (hn : 0 < n) (hk0 : 0 ≤ k) (hk1 : k < n) :
    |clampIdx n i - i| ≤ |k - i| := by
  unfold clampIdx
  rcases lt_trichotomy i 0 with h | h | h
  · have : min (max i 0) ((n : Int) - 1) = 0 := by omega
    rw [this, abs_of_nonneg (by omega), abs_of_nonneg (by omega)]; omega
  · subst h
    have : min (max (0 : Int) 0) ((n : Int) - 1) = 0 := by omega
    rw [this]; simp
  · by_cases h2 : i < n
    · have : min (max i 0) ((n : Int) - 1) = i := by omega
      rw [this]; simp
    · have : min (max i 0) ((n : Int) - 1) = n - 1 := by omega
      rw [this, abs_of_nonpos (by omega), abs_of_nonpos (by omega)]; omega

/-- the *unclamped* index (the code before the `fix:` commit) wraps around to the opposite side one
cell west / south of the array … -/
theorem raw_wraps_fails : rawIdx 6 (-1) = some 5 := by decide

/-- … and raises one cell east / north of it -/
theorem raw_raises_fails : rawIdx 6 6 = none := by decide

theorem raw_agrees_inside (n : Nat) (i : Int) (h0 : 0 ≤ i) (h1 : i < n) : rawIdx n i = some (clampIdx n i) := by
  unfold rawIdx; rw [if_pos ⟨h0, h1⟩, clampIdx_inside n i h0 h1]

section real
variable {α : Type} [Field α] [LinearOrder α] [IsStrictOrderedRing α]

/-! ## bilinear bathymetry -/

theorem bilinear_at_node (h00 h01 h10 h11 : α) :
    bilinear 0 0 h00 h01 h10 h11 = h00 ∧ bilinear 1 0 h00 h01 h10 h11 = h01 ∧
    bilinear 0 1 h00 h01 h10 h11 = h10 ∧ bilinear 1 1 h00 h01 h10 h11 = h11 := by
  unfold bilinear; lits; refine ⟨by ring, by ring, by ring, by ring⟩

/-- elsewhere the value lies between the four surrounding depths -/
theorem bilinear_between (p q h00 h01 h10 h11 lo hi : α) (hp0 : 0 ≤ p) (hp1 : p ≤ 1) (hq0 : 0 ≤ q) (hq1 : q ≤ 1)
    (h1 : lo ≤ h00 ∧ h00 ≤ hi) (h2 : lo ≤ h01 ∧ h01 ≤ hi) (h3 : lo ≤ h10 ∧ h10 ≤ hi) (h4 : lo ≤ h11 ∧ h11 ≤ hi) :
    lo ≤ bilinear p q h00 h01 h10 h11 ∧ bilinear p q h00 h01 h10 h11 ≤ hi := by
  unfold bilinear; lits
  have a1 : lo ≤ (1 - p) * h00 + p * h01 ∧ (1 - p) * h00 + p * h01 ≤ hi := by
    constructor <;> nlinarith [mul_nonneg (sub_nonneg.mpr hp1) (sub_nonneg.mpr h1.1), mul_nonneg hp0 (sub_nonneg.mpr h2.1),
      mul_nonneg (sub_nonneg.mpr hp1) (sub_nonneg.mpr h1.2), mul_nonneg hp0 (sub_nonneg.mpr h2.2)]
  have a2 : lo ≤ (1 - p) * h10 + p * h11 ∧ (1 - p) * h10 + p * h11 ≤ hi := by
    constructor <;> nlinarith [mul_nonneg (sub_nonneg.mpr hp1) (sub_nonneg.mpr h3.1), mul_nonneg hp0 (sub_nonneg.mpr h4.1),
      mul_nonneg (sub_nonneg.mpr hp1) (sub_nonneg.mpr h3.2), mul_nonneg hp0 (sub_nonneg.mpr h4.2)]
  constructor <;> nlinarith [mul_nonneg (sub_nonneg.mpr hq1) (sub_nonneg.mpr a1.1), mul_nonneg hq0 (sub_nonneg.mpr a2.1),
    mul_nonneg (sub_nonneg.mpr hq1) (sub_nonneg.mpr a1.2), mul_nonneg hq0 (sub_nonneg.mpr a2.2)]

/-! ## sampled 3-D fields are convex combinations of the surrounding grid values -/

/-- the eight trilinear weights are non-negative and sum to one … -/
theorem trilinear_weights (P Q A : α) (hP0 : 0 ≤ P) (hP1 : P ≤ 1) (hQ0 : 0 ≤ Q) (hQ1 : Q ≤ 1) (hA0 : 0 ≤ A) (hA1 : A ≤ 1) :
    (1 - P) * (1 - Q) * (1 - A) + (1 - P) * Q * (1 - A) + P * (1 - Q) * (1 - A) + P * Q * (1 - A)
      + (1 - P) * (1 - Q) * A + (1 - P) * Q * A + P * (1 - Q) * A + P * Q * A = 1 ∧
    0 ≤ (1 - P) * (1 - Q) * (1 - A) ∧ 0 ≤ (1 - P) * Q * (1 - A) ∧ 0 ≤ P * (1 - Q) * (1 - A) ∧ 0 ≤ P * Q * (1 - A) ∧
    0 ≤ (1 - P) * (1 - Q) * A ∧ 0 ≤ (1 - P) * Q * A ∧ 0 ≤ P * (1 - Q) * A ∧ 0 ≤ P * Q * A := by
  have p' := sub_nonneg.mpr hP1; have q' := sub_nonneg.mpr hQ1; have a' := sub_nonneg.mpr hA1
  refine ⟨by ring, ?_, ?_, ?_, ?_, ?_, ?_, ?_, ?_⟩ <;> positivity

/-- … hence the sampled value lies between the smallest and the largest of the eight -/
theorem sample3D_convex (P Q A lo hi : α) (f : Fin 8 → α)
    (hP0 : 0 ≤ P) (hP1 : P ≤ 1) (hQ0 : 0 ≤ Q) (hQ1 : Q ≤ 1) (hA0 : 0 ≤ A) (hA1 : A ≤ 1)
    (hf : ∀ i, lo ≤ f i ∧ f i ≤ hi) :
    lo ≤ trilinear P Q A (f 0) (f 1) (f 2) (f 3) (f 4) (f 5) (f 6) (f 7) ∧
    trilinear P Q A (f 0) (f 1) (f 2) (f 3) (f 4) (f 5) (f 6) (f 7) ≤ hi := by
  obtain ⟨hs, w0, w1, w2, w3, w4, w5, w6, w7⟩ := trilinear_weights P Q A hP0 hP1 hQ0 hQ1 hA0 hA1
  unfold trilinear; lits
  constructor
  · have := fun i => (hf i).1
    nlinarith [mul_le_mul_of_nonneg_left (this 0) w0, mul_le_mul_of_nonneg_left (this 1) w1, mul_le_mul_of_nonneg_left (this 2) w2,
      mul_le_mul_of_nonneg_left (this 3) w3, mul_le_mul_of_nonneg_left (this 4) w4, mul_le_mul_of_nonneg_left (this 5) w5,
      mul_le_mul_of_nonneg_left (this 6) w6, mul_le_mul_of_nonneg_left (this 7) w7]
  · have := fun i => (hf i).2
    nlinarith [mul_le_mul_of_nonneg_left (this 0) w0, mul_le_mul_of_nonneg_left (this 1) w1, mul_le_mul_of_nonneg_left (this 2) w2,
      mul_le_mul_of_nonneg_left (this 3) w3, mul_le_mul_of_nonneg_left (this 4) w4, mul_le_mul_of_nonneg_left (this 5) w5,
      mul_le_mul_of_nonneg_left (this 6) w6, mul_le_mul_of_nonneg_left (this 7) w7]

/-- with weight `A = 1` (as `Forcing.velocity` sets it) the sample is the bilinear value of layer `K-1`
alone: the current of the layer that contains the particle -/
theorem velocity_is_layer_value (P Q : α) (f000 f010 f100 f110 f001 f011 f101 f111 : α) :
    trilinear P Q 1 f000 f010 f100 f110 f001 f011 f101 f111 =
      (1 - P) * (1 - Q) * f001 + (1 - P) * Q * f011 + P * (1 - Q) * f101 + P * Q * f111 := by
  unfold trilinear; lits; ring

/-! ## vertical level search -/

theorem z2sK_range (col : List α) (z : α) (h : 2 ≤ col.length) : 1 ≤ z2sK col z ∧ z2sK col z ≤ col.length - 1 := by
  unfold z2sK; omega

theorem z2sA_unit (col : List α) (z zero : α) : 0 ≤ z2sA col z zero ∧ z2sA col z zero ≤ 1 := by
  unfold z2sA fmin fmax; lits
  split_ifs <;> constructor <;> linarith

/-- for a strictly increasing column the number of levels below `-z` brackets the particle:
`col[c-1] < -z ≤ col[c]` -/
theorem countBelow_brackets (col : List α) (z : α) (hs : List.Pairwise (· < ·) col) :
    (∀ k (hk : k < col.length), k < countBelow col z → col[k] < -z) ∧
    (∀ k (hk : k < col.length), countBelow col z ≤ k → ¬ col[k] < -z) := by
  unfold countBelow
  induction col with
  | nil => simp
  | cons c cs ih =>
    rw [List.pairwise_cons] at hs
    obtain ⟨ih1, ih2⟩ := ih hs.2
    by_cases hc : c < -z
    · simp only [List.filter_cons, hc, decide_true, if_true, List.length_cons]
      constructor
      · intro k hk hlt
        cases k with
        | zero => simpa using hc
        | succ k => simpa using ih1 k (by simpa using hk) (by omega)
      · intro k hk hle
        cases k with
        | zero => omega
        | succ k => simpa using ih2 k (by simpa using hk) (by omega)
    · -- c ≥ -z: then nothing above is below either
      have hnone : cs.filter (fun x => decide (x < -z)) = [] := by
        rw [List.filter_eq_nil_iff]
        intro x hx
        have := hs.1 x hx
        simp only [decide_eq_true_eq, not_lt]
        linarith [not_lt.mp hc]
      have e : (c :: cs).filter (fun x => decide (x < -z)) = [] := by
        rw [List.filter_cons_of_neg (by simpa using hc), hnone]
      rw [e]
      constructor
      · intro k hk hlt; simp at hlt
      · intro k hk _
        cases k with
        | zero => simpa using hc
        | succ k =>
          have hk' : k < cs.length := by simpa using hk
          have := hs.1 cs[k] (List.getElem_mem hk')
          simp only [List.getElem_cons_succ, not_lt]
          linarith [not_lt.mp hc]

/-- inside the column (`col[0] < -z ≤ col[last]`) the interpolation weight reproduces the depth:
`A·col[K-1] + (1-A)·col[K] = -z` with `A ∈ [0,1]` -/
theorem z2s_reproduces_depth (lo hi z : α) (h1 : lo < -z) (h2 : -z ≤ hi) :
    let a := (hi + z) / (hi - lo)
    0 ≤ a ∧ a ≤ 1 ∧ a * lo + (1 - a) * hi = -z := by
  have hd : 0 < hi - lo := by linarith
  refine ⟨div_nonneg (by linarith) hd.le, by rw [div_le_one hd]; linarith, ?_⟩
  field_simp
  ring

/-! ## diffusivities -/

theorem vertdiffLevel_interior [HasRound α] [HasTrunc α] [HasOfInt α] (nw K : Nat) (A : α) (h : 3 ≤ nw) :
    1 ≤ vertdiffLevel nw K A ∧ vertdiffLevel nw K A ≤ (nw : Int) - 2 := by
  unfold vertdiffLevel; omega

theorem vertdiff_nonneg (f : α) : 0 ≤ vertdiffValue f := by
  unfold vertdiffValue fmax; lits; split_ifs <;> linarith

theorem horzdiff_nonneg (dx dudy dvdx : α) (s : Bool) (hdx : 0 ≤ dx) : 0 ≤ horzdiffValue dx dudy dvdx s := by
  unfold horzdiffValue fabs; lits
  split_ifs
  · have : (0 : α) ≤ 0.04 := by norm_num
    have : 0 ≤ -(dudy + dvdx) := by linarith
    positivity
  · have : (0 : α) ≤ 0.04 := by norm_num
    have : 0 ≤ dudy + dvdx := by linarith
    positivity
  · exact le_refl _

theorem horzdiff_zero_on_land (dx dudy dvdx : α) : horzdiffValue dx dudy dvdx false = 0 := by
  unfold horzdiffValue; lits; simp

end real

/-- non-vacuity -/
example : clampIdx 6 (-3) = 0 ∧ clampIdx 6 9 = 5 ∧ clampIdx 6 2 = 2 := by decide

end C15
