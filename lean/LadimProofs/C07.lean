import LadimProofs.Laws
import LadimModel.IBM.Chemicals
import LadimModel.IBM.Sedimentation
import LadimModel.IBM.Bio
/-!
# C07 — ageing, mortality and death are monotone, exact and step-size independent
-/
open Ladim
set_option linter.unusedSectionVars false
set_option linter.unusedVariables false

namespace C07
variable {α : Type} [Field α] [LinearOrder α] [IsStrictOrderedRing α]

/-! ## chemicals (age in seconds; dead when age > lifespan) -/
section chem
open Ladim.Chemicals
variable [HasSqrt α] [HasFloor α] [HasRound α]

theorem chem_age_advance (c : Config α) (e : Env α) (d : Draws α) (p : Particle α) (L : α)
    (hL : c.lifespan = some L) : (update c e d p).age = p.age + c.dt := by
  unfold update; simp only [hL]

theorem chem_age_untouched (c : Config α) (e : Env α) (d : Draws α) (p : Particle α)
    (hL : c.lifespan = none) : (update c e d p).age = p.age := by
  unfold update; simp only [hL]

theorem horizontal_alive_imp (c : Config α) (e : Env α) (d : Draws α) (x y z : α) (al : Bool) :
    (horizontal c e d x y z al).2.2.2 = true → al = true := by
  unfold horizontal
  cases c.horz with
  | none => simp
  | some hm =>
    obtain ⟨a, b⟩ := hm
    simp only []
    split_ifs <;> simp

/-- a dead particle is never alive again (one step) -/
theorem chem_alive_monotone (c : Config α) (e : Env α) (d : Draws α) (p : Particle α) :
    (update c e d p).alive = true → p.alive = true := by
  unfold update
  simp only []
  cases c.lifespan with
  | none => exact horizontal_alive_imp c e d _ _ _ _
  | some L =>
    simp only [Bool.and_eq_true]
    intro h
    exact horizontal_alive_imp c e d _ _ _ _ h.1

/-- exact death rule without horizontal diffusion: alive' ↔ alive ∧ age' ≤ lifespan -/
theorem chem_death_iff (c : Config α) (e : Env α) (d : Draws α) (p : Particle α) (L : α)
    (hL : c.lifespan = some L) (hh : c.horz = none) :
    (update c e d p).alive = true ↔ (p.alive = true ∧ p.age + c.dt ≤ L) := by
  unfold update horizontal
  simp only [hL, hh, Bool.and_eq_true, decide_eq_true_eq]

/-- with horizontal diffusion: additionally the particle must not leave the grid -/
theorem chem_death_iff_horz (c : Config α) (e : Env α) (d : Draws α) (p : Particle α) (L : α)
    (hL : c.lifespan = some L) :
    (update c e d p).alive = true →
      (p.alive = true ∧ (update c e d p).age ≤ L) := by
  intro h
  refine ⟨chem_alive_monotone c e d p h, ?_⟩
  unfold update at h ⊢
  simp only [hL, Bool.and_eq_true, decide_eq_true_eq] at h ⊢
  exact h.2

end chem

/-! ## sedimentation, mine -/
section sed
open Ladim.Sed
variable [HasSqrt α]

theorem sed_age_advance (c : Config α) (e : Env α) (xi : α) (p : Particle α) :
    (update c e xi p).age = p.age + c.stateDt := by
  unfold update; simp only []

theorem sed_alive_iff (c : Config α) (e : Env α) (xi : α) (p : Particle α) :
    (update c e xi p).alive = true ↔ (p.alive = true ∧ p.age + c.stateDt ≤ c.lifespan) := by
  unfold update; simp only [Bool.and_eq_true, decide_eq_true_eq]

theorem mine_age_advance (c : Mine.Config α) (e : Mine.Env α) (xi : α) (p : Particle α) :
    (Mine.update c e xi p).age = p.age + c.stateDt := by
  unfold Mine.update; simp only []

theorem ite_and_imp (c : Prop) [Decidable c] (a b : Bool) :
    (if c then (a && b) else a) = true → a = true := by
  split_ifs <;> simp_all

theorem mine_alive_monotone (c : Mine.Config α) (e : Mine.Env α) (xi : α) (p : Particle α) :
    (Mine.update c e xi p).alive = true → p.alive = true := by
  unfold Mine.update
  simp only [Bool.and_eq_true]
  intro h
  exact ite_and_imp _ _ _ h.1

/-- with resuspension configured the only cause of death is old age -/
theorem mine_alive_iff_resusp (c : Mine.Config α) (e : Mine.Env α) (xi : α) (p : Particle α) (t : α)
    (ht : c.taucrit = some t) :
    (Mine.update c e xi p).alive = true ↔ (p.alive = true ∧ p.age + c.stateDt ≤ c.lifespan) := by
  unfold Mine.update
  simp [ht]

/-- history: age after `n` updates is `age₀ + n · state.dt`.  The lifetime decision therefore agrees
with the documented "age in seconds" iff `state.dt` is the real step length (LADiM sets
`state.dt = solver.step`), independently of `config['dt']` (`clock_agreement`). -/
theorem sed_age_history (c : Config α) (steps : List (Env α × α)) (p : Particle α) :
    (steps.foldl (fun q s => update c s.1 s.2 q) p).age = p.age + steps.length * c.stateDt := by
  induction steps generalizing p with
  | nil => simp
  | cons s ss ih =>
    simp only [List.foldl, List.length_cons]
    rw [ih, sed_age_advance]
    push_cast; ring

end sed

/-! ## egg, larvae, saithe, salmon lice, shrimp, vps -/
section bio
open Ladim.Bio
variable [HasSqrt α] [HasExp α] [HasLog α] [HasSin α] [HasCos α] [HasAsin α] [HasRpow α] [HasPi α]

/-- degree-days: `age' = age + temp · (dt / 86400)` -/
theorem degree_day_age (age temp dt : α) : degreeDayAge age temp dt = age + temp * (dt / 86400) := by
  unfold degreeDayAge; norm_num; ring

theorem degree_day_monotone (age temp dt : α) (ht : 0 ≤ temp) (hdt : 0 ≤ dt) :
    age ≤ degreeDayAge age temp dt := by
  rw [degree_day_age]
  have : 0 ≤ temp * (dt / 86400) := mul_nonneg ht (div_nonneg hdt (by norm_num))
  linarith

theorem larva_age_advance [HasNarrow α] (c : LarvaCfg α) (temp salt buoy l0 : α) (xi : Option α)
    (p : Larva α) : (larvaUpdate c temp salt buoy l0 xi p).age = p.age + temp * (c.stateDt / 86400) := by
  unfold larvaUpdate; simp only []
  have e1 : (86400.0 : α) = 86400 := by norm_num
  rw [e1]; ring

theorem lice_age_advance (D dt sdt mf k sv temp salt l0 r : α) (xi : Option α) (p : Lice α) :
    (liceUpdate D dt sdt mf k sv temp salt l0 r xi p).age = p.age + temp * (sdt / 86400) ∧
    (liceUpdate D dt sdt mf k sv temp salt l0 r xi p).days = p.days + sdt / 86400 := by
  unfold liceUpdate; simp only []
  have e1 : (86400.0 : α) = 86400 := by norm_num
  have e2 : (1.0 : α) = 1 := by norm_num
  rw [e1, e2]
  constructor <;> ring

theorem lice_alive_iff (D dt sdt mf k sv temp salt l0 r : α) (xi : Option α) (p : Lice α) :
    (liceUpdate D dt sdt mf k sv temp salt l0 r xi p).alive = true ↔
      (p.alive = true ∧ (liceUpdate D dt sdt mf k sv temp salt l0 r xi p).age < 170) := by
  unfold liceUpdate; simp only [Bool.and_eq_true, decide_eq_true_eq]; norm_num

theorem lice_super (D dt sdt mf k sv temp salt l0 r : α) (xi : Option α) (p : Lice α) :
    (liceUpdate D dt sdt mf k sv temp salt l0 r xi p).super = p.super * mf := by
  unfold liceUpdate; simp only []

theorem exp_rate_add (hE : ExpLaws α) (c k a b : α) :
    exp (c * a / k) * exp (c * b / k) = exp (c * (a + b) / k) := by
  rw [← hE.exp_add]; congr 1; ring

/-- salmon-lice survival is independent of the way a time span is divided into steps:
`∏ exp(-0.17·dᵢ/86400) = exp(-0.17·Σdᵢ/86400)` for every list of step lengths. -/
theorem lice_survival_partition (hE : ExpLaws α) (ds : List α) :
    (ds.map (fun d => liceMortFactor d)).prod = liceMortFactor ds.sum := by
  induction ds with
  | nil =>
    simp only [List.map_nil, List.prod_nil, List.sum_nil, liceMortFactor]
    rw [mul_zero, zero_div, hE.exp_zero]
  | cons d ds ih =>
    simp only [List.map_cons, List.prod_cons, List.sum_cons, ih]
    unfold liceMortFactor
    exact exp_rate_add hE _ _ _ _

/-- survival after a whole history of updates with step lengths `ds` -/
theorem lice_survival_history (hE : ExpLaws α) (ds : List α) (s0 : α) :
    ds.foldl (fun s d => s * liceMortFactor d) s0 = s0 * liceMortFactor ds.sum := by
  induction ds generalizing s0 with
  | nil =>
    simp only [List.foldl_nil, List.sum_nil, liceMortFactor]
    rw [mul_zero, zero_div, hE.exp_zero, mul_one]
  | cons d ds ih =>
    simp only [List.foldl, List.sum_cons, ih]
    unfold liceMortFactor
    rw [mul_assoc, exp_rate_add hE]

/-- the per-day rate: one day reduces abundance by `exp(-0.17)` -/
theorem lice_one_day : liceMortFactor (86400 : α) = exp (-0.17 : α) := by
  unfold liceMortFactor; congr 1; norm_num

theorem shrimp_age_advance (temp dt : α) : Gen.shrimp_delta_age temp dt = dt / 86400 := by
  unfold Gen.shrimp_delta_age; norm_num

theorem vps_age_advance (m dt u fu fv : α) (p : Vps α) : (vpsUpdate m dt u fu fv p).age = p.age + dt := by
  unfold vpsUpdate; simp only []

theorem vps_alive_iff (m dt u fu fv : α) (p : Vps α) :
    (vpsUpdate m dt u fu fv p).alive = true ↔
      (p.alive = true ∧ p.age + dt < 1073741824 ∧ (fu ≠ 0 ∨ fv ≠ 0)) := by
  unfold vpsUpdate isZeroS
  simp only [Bool.and_eq_true, decide_eq_true_eq, Bool.or_eq_true, Bool.not_eq_true', Bool.not_eq_eq_eq_not,
    Bool.not_true, Bool.or_eq_false_iff, decide_eq_false_iff_not]
  norm_num
  tauto

end bio

/-! ## once dead, dead for ever -/

/-- if one update cannot revive, no history of updates can -/
theorem dead_forever {σ ι : Type} (alive : σ → Bool) (step : σ → ι → σ)
    (hmono : ∀ s i, alive (step s i) = true → alive s = true) (s₀ : σ) (is : List ι)
    (hdead : alive s₀ = false) : alive (is.foldl step s₀) = false := by
  induction is generalizing s₀ with
  | nil => simpa
  | cons i is ih =>
    apply ih
    by_contra h
    have := hmono s₀ i (by simpa using h)
    simp [hdead] at this

/-- instance: sedimentation particles -/
theorem sed_dead_forever [HasSqrt α] (c : Sed.Config α) (steps : List (Sed.Env α × α))
    (p : Sed.Particle α) (h : p.alive = false) :
    (steps.foldl (fun q s => Sed.update c s.1 s.2 q) p).alive = false :=
  dead_forever (fun q => q.alive) _ (fun q s hq => ((sed_alive_iff c s.1 s.2 q).mp hq).1) p steps h

/-- instance: chemicals particles -/
theorem chem_dead_forever [HasSqrt α] [HasFloor α] [HasRound α] (c : Chemicals.Config α)
    (e : Chemicals.Env α) (steps : List (Chemicals.Draws α)) (p : Chemicals.Particle α)
    (h : p.alive = false) :
    (steps.foldl (fun q d => Chemicals.update c e d q) p).alive = false :=
  dead_forever (fun q => q.alive) _ (fun q d hq => chem_alive_monotone c e d q hq) p steps h

section vpsHist
open Ladim.Bio
variable [HasSqrt α] [HasExp α] [HasLog α] [HasSin α] [HasCos α] [HasAsin α] [HasRpow α] [HasPi α]

/-- instance: vps fish — a dead fish (too old, or stopped where the velocity field vanishes) stays dead over every
history of further updates, whatever fields and time steps follow -/
theorem vps_dead_forever (steps : List (α × α × α × α × α)) (p : Vps α) (h : p.alive = false) :
    (steps.foldl (fun q s => vpsUpdate s.1 s.2.1 s.2.2.1 s.2.2.2.1 s.2.2.2.2 q) p).alive = false :=
  dead_forever (fun q => q.alive) _
    (fun q s hq => ((vps_alive_iff s.1 s.2.1 s.2.2.1 s.2.2.2.1 s.2.2.2.2 q).mp hq).1) p steps h

/-- age over a history = initial age + the sum of the time steps (alive or not) -/
theorem vps_age_history (steps : List (α × α × α × α × α)) (p : Vps α) :
    (steps.foldl (fun q s => vpsUpdate s.1 s.2.1 s.2.2.1 s.2.2.2.1 s.2.2.2.2 q) p).age =
      p.age + (steps.map (fun s => s.2.1)).sum := by
  induction steps generalizing p with
  | nil => simp
  | cons s ss ih =>
    simp only [List.foldl, List.map_cons, List.sum_cons]
    rw [ih, vps_age_advance]; ring

end vpsHist

/-- non-vacuity: the `ExpLaws` bundle is inhabited by the reals -/
example : ExpLaws ℝ := RealInst.expLaws

end C07
