import LadimProofs.SampleLemmas
import LadimProofs.C03
import LadimProofs.C04
/-!
# C17 — release positions are uniformly distributed over the release area

The code is a deterministic map of three `uniform01` draws per particle.  The theorems reduce "the
push-forward of the uniform law is uniform on the area" to elementary facts:

* the triangle choice `u ↦ k` has the *interval* `(cum_{k-1}/A, cum_k/A]` as preimage, of length
  `area_k / A` (`pick_interval`, `pick_interval_length`);
* the fold of the unit square onto the unit triangle is 2-to-1: a point reflection (an involutive
  affine isometry) on the upper half, the identity on the lower half (`fold_preimages`);
* `bary` is affine in `(s,t)` with constant Jacobian determinant `= ±2·area ≠ 0`, hence injective
  (`bary_det`, `bary_injective`);
* two-element ranges are affine in the draw (`C04.range_values`).

The last step ("an a.e.-bijection with constant Jacobian maps the uniform law to the uniform law") is
textbook measure theory, not formalised here (trusted base); the statistical layer of `harness/c17.py`
tests the conclusion on the implementation with exact binomial tail bounds.
-/
open Ladim Ladim.Sample
set_option linter.unusedVariables false
set_option linter.unusedSectionVars false

namespace C17
variable {α : Type} [Field α] [LinearOrder α] [IsStrictOrderedRing α]

/-- the normalised cumulative areas -/
def normCum (areas : List α) (tot : α) : List α := (cumsum areas).map (fun c => c / tot)

theorem normCum_length (areas : List α) (tot : α) : (normCum areas tot).length = areas.length := by
  unfold normCum; simp [SampleLemmas.cumsum_length]

theorem normCum_pairwise (areas : List α) (tot : α) (ht : 0 < tot) (hpos : ∀ a ∈ areas, 0 ≤ a) :
    List.Pairwise (· ≤ ·) (normCum areas tot) := by
  unfold normCum
  rw [List.pairwise_map]
  exact (SampleLemmas.cumsum_pairwise areas hpos).imp (fun h => div_le_div_of_nonneg_right h ht.le)

/-- triangle `k` is chosen exactly for `u` in the half-open interval
`(cum_{k-1}/A, cum_k/A]` (with `cum_{-1} = 0` understood as "no lower constraint" for `k = 0`) -/
theorem pick_interval (areas : List α) (tot u : α) (k : Nat) (hk : k < areas.length) (ht : 0 < tot)
    (hpos : ∀ a ∈ areas, 0 ≤ a) (hlast : (cumsum areas).getLast? = some tot) :
    pickTriangle areas u = k ↔
      ((∀ (h0 : 0 < k), (normCum areas tot)[k - 1]'(by rw [normCum_length]; omega) < u) ∧
        u ≤ (normCum areas tot)[k]'(by rw [normCum_length]; exact hk)) := by
  unfold pickTriangle
  simp only [hlast]
  have hs := normCum_pairwise areas tot ht hpos
  have hkl : k < (normCum areas tot).length := by rw [normCum_length]; exact hk
  change searchsortedLeft (normCum areas tot) u = k ↔ _
  rw [SampleLemmas.searchsorted_eq_iff _ u hs k hkl]
  constructor
  · rintro ⟨h1, h2⟩
    exact ⟨fun h0 => h1 (k - 1) (by omega), not_lt.mp h2⟩
  · rintro ⟨h1, h2⟩
    refine ⟨fun j hj => ?_, not_lt.mpr h2⟩
    have h0 : 0 < k := by omega
    have hjk : j ≤ k - 1 := by omega
    rcases Nat.eq_or_lt_of_le hjk with rfl | hlt
    · exact h1 h0
    · have := List.pairwise_iff_getElem.mp hs j (k - 1) (by omega) (by omega) hlt
      exact lt_of_le_of_lt this (h1 h0)

/-- the length of that interval is `area_k / A`: polygons (sets of triangles) therefore receive
particles in proportion to their areas -/
theorem pick_interval_length (areas : List α) (tot : α) (k : Nat) (hk : k + 1 < areas.length) :
    (normCum areas tot)[k + 1]'(by rw [normCum_length]; exact hk) -
      (normCum areas tot)[k]'(by rw [normCum_length]; omega) = areas[k + 1] / tot := by
  unfold normCum
  simp only [List.getElem_map]
  rw [SampleLemmas.cumsum_get_succ areas k hk]
  ring

theorem pick_interval_length_zero (areas : List α) (tot : α) (h : 0 < areas.length) :
    (normCum areas tot)[0]'(by rw [normCum_length]; exact h) = areas[0] / tot := by
  unfold normCum
  simp only [List.getElem_map]
  rw [SampleLemmas.cumsum_get_zero areas h]

/-- the last normalised cumulative area is 1: the intervals tile `(0, 1]` -/
theorem normCum_last (areas : List α) (tot : α) (ht : 0 < tot) (hlast : (cumsum areas).getLast? = some tot) :
    (normCum areas tot).getLast? = some 1 := by
  unfold normCum
  rw [List.getLast?_map, hlast]
  simp [div_self (ne_of_gt ht)]

/-- the fold is the identity below the diagonal and the point reflection `(s,t) ↦ (1−s, 1−t)` above
it, so every point `(a,b)` of the open unit triangle has exactly the two preimages `(a,b)` and
`(1−a, 1−b)`: constant density 2 -/
theorem fold_preimages (s t a b : α) (hab : a + b < 1) :
    foldUnit s t = (a, b) ↔ ((s, t) = (a, b) ∨ (s, t) = (1 - a, 1 - b)) := by
  unfold foldUnit
  lits
  constructor
  · intro h
    split_ifs at h with hst
    · right
      simp only [Prod.mk.injEq] at h ⊢
      constructor <;> linarith [h.1, h.2]
    · left; exact h
  · rintro (h | h)
    · simp only [Prod.mk.injEq] at h
      obtain ⟨rfl, rfl⟩ := h
      rw [if_neg (by linarith)]
    · simp only [Prod.mk.injEq] at h
      obtain ⟨rfl, rfl⟩ := h
      rw [if_pos (by linarith)]
      simp

/-- the reflection is an involution and an isometry (it preserves differences up to sign) -/
theorem fold_reflection_involutive (s t : α) : (1 - (1 - s), 1 - (1 - t)) = (s, t) := by simp

/-- `bary` is affine in `(s,t)` with constant Jacobian determinant equal to the signed double area -/
theorem bary_det (T : Tri α) (s t s' t' : α) :
    (bary T.x1 T.x2 T.x3 s t - bary T.x1 T.x2 T.x3 s' t') * (T.y3 - T.y1)
      - (bary T.y1 T.y2 T.y3 s t - bary T.y1 T.y2 T.y3 s' t') * (T.x3 - T.x1)
      = ((T.x2 - T.x1) * (T.y3 - T.y1) - (T.y2 - T.y1) * (T.x3 - T.x1)) * (s - s') ∧
    (bary T.y1 T.y2 T.y3 s t - bary T.y1 T.y2 T.y3 s' t') * (T.x2 - T.x1)
      - (bary T.x1 T.x2 T.x3 s t - bary T.x1 T.x2 T.x3 s' t') * (T.y2 - T.y1)
      = ((T.x2 - T.x1) * (T.y3 - T.y1) - (T.y2 - T.y1) * (T.x3 - T.x1)) * (t - t') := by
  unfold bary; constructor <;> ring

/-- … hence injective on non-degenerate triangles: distinct `(s,t)` give distinct positions -/
theorem bary_injective (T : Tri α) (s t s' t' : α) (hA : 0 < triArea T)
    (hx : bary T.x1 T.x2 T.x3 s t = bary T.x1 T.x2 T.x3 s' t')
    (hy : bary T.y1 T.y2 T.y3 s t = bary T.y1 T.y2 T.y3 s' t') : s = s' ∧ t = t' := by
  have hd : (T.x2 - T.x1) * (T.y3 - T.y1) - (T.y2 - T.y1) * (T.x3 - T.x1) ≠ 0 := by
    intro h0
    unfold triArea fabs at hA
    rw [h0] at hA
    lits
    simp at hA
  obtain ⟨h1, h2⟩ := bary_det T s t s' t'
  rw [hx, hy] at h1 h2
  simp only [sub_self, zero_mul] at h1 h2
  constructor
  · have := mul_eq_zero.mp h1.symm
    rcases this with h | h
    · exact absurd h hd
    · linarith
  · have := mul_eq_zero.mp h2.symm
    rcases this with h | h
    · exact absurd h hd
    · linarith

/-- the code's triangle area is `|cross|/2` — orientation independent, so clockwise and
counter-clockwise polygons get the same weights -/
theorem triangle_areas_abs (T : Tri α) :
    triArea T = |(T.x2 - T.x1) * (T.y3 - T.y1) - (T.y2 - T.y1) * (T.x3 - T.x1)| / 2 := by
  unfold triArea fabs; lits
  set c := (T.x2 - T.x1) * (T.y3 - T.y1) - (T.y2 - T.y1) * (T.x3 - T.x1)
  rcases lt_or_ge c 0 with h | h
  · rw [if_pos h, abs_of_neg h]; norm_num; ring
  · rw [if_neg (not_lt.mpr h), abs_of_nonneg h]; norm_num; ring

/-- non-vacuity: areas 1, 3 (total 4): triangle 1 is chosen for `u ∈ (1/4, 1]` -/
example : pickTriangle [(1 : ℚ), 3] (1/2) = 1 ∧ pickTriangle [(1 : ℚ), 3] (1/4) = 0 := by
  constructor <;> norm_num [pickTriangle, cumsum, cumsumFrom, searchsortedLeft, List.takeWhile]

end C17
