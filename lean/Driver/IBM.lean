import Driver.Proto
import LadimModel.IBM.Sedimentation
import LadimModel.IBM.Bio
import LadimModel.IBM.Memory
import LadimModel.IBM.Swim
import LadimModel.Grid.Sample
import LadimModel.IBM.Grain
import LadimModel.IBM.Develop
namespace Driver
open Ladim

def getCarrier : P Sed.Carrier := do
  pure (if (← getB) then Sed.Carrier.numeric else Sed.Carrier.bool)

def getSedParticle : P (Sed.Particle Float) := do
  let z ← getF; let a ← getN; let al ← getB; let age ← getF; let sv ← getF
  pure ⟨z, a, al, age, sv⟩

def outSedParticle (p : Sed.Particle Float) : String :=
  s!"{outF p.z} {p.active} {outB p.alive} {outF p.age} {outF p.sinkVel}"

/-- `sed.update dt stateDt lifespan mixkind [value] numeric? H ub vb taucrit? newSink xi  z active alive age sinkVel` -/
def hSedUpdate : Handler := do
  let dt ← getF; let sdt ← getF; let life ← getF
  let mk ← getN
  let mixing ← match mk with
    | 0 => pure Sed.Mixing.none
    | 1 => do pure (Sed.Mixing.const (← getF))
    | _ => do pure (Sed.Mixing.boundedLinear (← getF))
  let carrier ← getCarrier
  let H ← getF; let ub ← getF; let vb ← getF
  let tc ← getOpt getF
  let ns ← getF
  let xi ← getF
  let p ← getSedParticle
  pure (outSedParticle (Sed.update ⟨dt, sdt, life, mixing, carrier⟩ ⟨H, ub, vb, tc, ns⟩ xi p))

/-- `mine.update dt stateDt lifespan vdiff taucrit? vadv hasActive numeric? H ub vb w xi particle` -/
def hMineUpdate : Handler := do
  let dt ← getF; let sdt ← getF; let life ← getF; let vdiff ← getF
  let tc ← getOpt getF
  let vadv ← getB; let hasA ← getB
  let carrier ← getCarrier
  let H ← getF; let ub ← getF; let vb ← getF; let w ← getF
  let xi ← getF
  let p ← getSedParticle
  pure (outSedParticle (Sed.Mine.update ⟨dt, sdt, life, vdiff, tc, vadv, hasA, carrier⟩ ⟨H, ub, vb, w⟩ xi p))

def hSedTau : Handler := do
  let u ← getF; let v ← getF
  let us := Sed.ustar u v
  pure s!"{outF us} {outF (Sed.shearStress us)}"

/-- `egg.update D dt diam temp salt buoy xi? z age` -> z age W -/
def hEgg : Handler := do
  let D ← getF; let dt ← getF; let diam ← getF; let temp ← getF; let salt ← getF; let buoy ← getF
  let xi ← getOpt getF
  let z ← getF; let age ← getF
  pure s!"{outF (Bio.eggZ D dt diam temp salt buoy xi z)} {outF (Bio.degreeDayAge age temp dt)} {outF (Gen.egg_velocity temp salt buoy diam)}"

/-- `lice.update D dt stateDt k swimVel temp salt light0 r xi? z age days super alive` -/
def hLice : Handler := do
  let D ← getF; let dt ← getF; let sdt ← getF; let k ← getF; let sv ← getF
  let temp ← getF; let salt ← getF; let l0 ← getF; let r ← getF
  let xi ← getOpt getF
  let z ← getF; let age ← getF; let days ← getF; let sup ← getF; let alive ← getB
  let p := Bio.liceUpdate D dt sdt (Bio.liceMortFactor dt) k sv temp salt l0 r xi ⟨z, age, days, sup, alive⟩
  pure s!"{outF p.z} {outF p.age} {outF p.days} {outF p.super} {outB p.alive}"

/-- `larva.update hatchDay init swim desired minD maxD k D dt stateDt diam clipEggs temp salt buoy light0 xi? z age weight` -/
def hLarva : Handler := do
  let hatchDay ← getF; let init ← getF; let swim ← getF; let desired ← getF
  let minD ← getF; let maxD ← getF; let k ← getF; let D ← getF; let dt ← getF; let sdt ← getF
  let diam ← getF; let clipEggs ← getB
  let temp ← getF; let salt ← getF; let buoy ← getF; let l0 ← getF
  let xi ← getOpt getF
  let z ← getF; let age ← getF; let w ← getF
  let p := Bio.larvaUpdate ⟨hatchDay, init, swim, desired, minD, maxD, k, D, dt, sdt, diam, clipEggs⟩
    temp salt buoy l0 xi ⟨z, age, w⟩
  pure s!"{outF p.z} {outF p.age} {outF p.weight}"

def hSandeelZ : Handler := do
  let D ← getF; let dt ← getF; let md ← getF; let H ← getF; let xi ← getF; let z ← getF
  pure (outF (Bio.sandeelZ D dt md H xi z))

def hEelZ : Handler := do
  let D ← getF; let dt ← getF; let lo ← getF; let hi ← getF; let xi ← getF; let z ← getF
  pure (outF (Bio.eelZ D dt lo hi xi z))

/-- `shrimp.vert vertmix dt xi speed mind maxd q z` -> z after mixing, preferred, z after migration -/
def hShrimpVert : Handler := do
  let vm ← getF; let dt ← getF; let xi ← getF; let speed ← getF
  let mind ← getF; let maxd ← getF; let q ← getF; let z ← getF
  let z1 := Bio.shrimpMix vm dt xi z
  let pref := Bio.shrimpPreferred mind maxd q
  pure s!"{outF z1} {outF pref} {outF (Bio.shrimpMigrate dt speed pref z1)}"

/-- `shrimp.growth temp dt stage age` -> stage' age' -/
def hShrimpGrowth : Handler := do
  let temp ← getF; let dt ← getF; let stage ← getF; let age ← getF
  pure s!"{outF (Bio.shrimpStage temp dt stage)} {outF (age + Gen.shrimp_delta_age temp dt)}"

def hVpsZ : Handler := do
  let m ← getF; let u ← getF
  pure (outF (Bio.vpsZ m u))

/-- `vps.update maxDepth dt u fu fv z age alive` -/
def hVpsUpdate : Handler := do
  let m ← getF; let dt ← getF; let u ← getF; let fu ← getF; let fv ← getF
  let z ← getF; let age ← getF; let alive ← getB
  let p := Bio.vpsUpdate m dt u fu fv ⟨z, age, alive⟩
  pure s!"{outF p.z} {outF p.age} {outB p.alive}"

/-- `mem.stuck n (pid x y)^n pid x y` -/
def hMemStuck : Handler := do
  let mem ← getList (do let p ← getN; let x ← getF; let y ← getF; pure (⟨p, x, y⟩ : Memory.Rec Float))
  let p ← getN; let x ← getF; let y ← getF
  pure (outB (Memory.stuck mem ⟨p, x, y⟩))

/-- `grain.cell lon0 dlon imax lon` -/
def hGrainCell : Handler := do
  let lon0 ← getF; let dlon ← getF; let imax ← getI; let lon ← getF
  pure (outI (Grain.nearestCell lon0 dlon imax lon))

/-- `grain.taucrit method sed` (0 = bin (float32), 1 = poly) -/
def hGrainTaucrit : Handler := do
  let m ← getN; let sed ← getF
  pure (outF (if m == 0 then Grain.taucritBinF32 sed else Grain.taucritPoly sed))

/-- `sed.ladis kkind k0 k1 zs v0 v1 dt xi x0` : K profile as in `EnvSpec.profile`, v(x) = v0 + v1*x -/
def hLadis : Handler := do
  let kk ← getN; let k0 ← getF; let k1 ← getF; let zs ← getF
  let v0 ← getF; let v1 ← getF; let dt ← getF; let xi ← getF; let x0 ← getF
  let K : Float → Float := fun z => match kk with
    | 0 => k0
    | 1 => k0 + k1 * z
    | _ => if z < zs then k0 else k1
  pure (outF (Sed.ladis K (fun x => v0 + v1 * x) dt xi x0))

/-- `dev.sandeel bottomTemp temp hatchRate dt stage active` -/
def hDevSandeel : Handler := do
  let bt ← getF; let temp ← getF; let hr ← getF; let dt ← getF; let stage ← getF; let active ← getB
  let p := Dev.sandeelDevelop bt temp hr dt ⟨stage, active⟩
  pure s!"{outF p.stage} {outB p.active}"

def hDevHatch : Handler := do
  let r ← getF; let t ← getF
  pure (outF (Dev.hatchTime r t))

def hDevShrimpLen : Handler := do
  let s ← getF
  match Dev.shrimpLength s with
  | some l => pure (outF l)
  | none => throw "empty table"

/-- `mem.decides kind(0 snapshot|1 alias) realloc n (pid x y)^n pid x y` -/
def hMemDecides : Handler := do
  let k ← getN; let realloc ← getB
  let mem ← getList (do let p ← getN; let x ← getF; let y ← getF; pure (⟨p, x, y⟩ : Memory.Rec Float))
  let p ← getN; let x ← getF; let y ← getF
  pure (outB (Memory.decides (if k == 0 then .snapshot else .alias) mem realloc ⟨p, x, y⟩))

/-- `swim.saithe|swim.eel xmin xmax ymin ymax r c (r*c) sea^(r*c) x0 y0 x y` -> x y [alive] -/
def hSwim (eel : Bool) : Handler := do
  let xmin ← getF; let xmax ← getF; let ymin ← getF; let ymax ← getF
  let r ← getN; let c ← getN
  let bits ← getList getN
  let x0 ← getF; let y0 ← getF; let x ← getF; let y ← getF
  let sea : Float → Float → Bool := fun a b =>
    let i := (GridSample.cellIndex c 0 a).toNat
    let j := (GridSample.cellIndex r 0 b).toNat
    bits.getD (j * c + i) 0 > 0
  let ing := GridSample.ingrid xmin xmax ymin ymax
  if eel then
    let p := Swim.eelStep ing sea x0 y0 x y
    pure s!"{outF p.1} {outF p.2}"
  else
    let p := Swim.saitheStep ing sea x0 y0 x y
    pure s!"{outF p.1} {outF p.2.1} {outB p.2.2}"

def ibmHandlers : List (String × Handler) :=
  [("sed.update", hSedUpdate), ("mine.update", hMineUpdate), ("sed.tau", hSedTau),
   ("egg.update", hEgg), ("lice.update", hLice), ("larva.update", hLarva),
   ("sandeel.z", hSandeelZ), ("eel.z", hEelZ), ("shrimp.vert", hShrimpVert),
   ("shrimp.growth", hShrimpGrowth), ("vps.z", hVpsZ), ("vps.update", hVpsUpdate), ("mem.stuck", hMemStuck), ("mem.decides", hMemDecides), ("swim.saithe", hSwim false), ("swim.eel", hSwim true), ("grain.cell", hGrainCell), ("grain.taucrit", hGrainTaucrit), ("sed.ladis", hLadis), ("dev.sandeel", hDevSandeel), ("dev.hatchtime", hDevHatch), ("dev.shrimplen", hDevShrimpLen)]

end Driver
