import Std.Data.HashMap
import Driver.Proto
import Driver.Chemicals
import Driver.IBM
import Driver.Gen
import Driver.Release
import Driver.Post
import Driver.Grid
import Driver.Forcing
open Driver

def allHandlers : List (String × Handler) :=
  chemHandlers ++ ibmHandlers ++ genHandlers ++ releaseHandlers ++ postHandlers ++ gridHandlers ++ forcingHandlers ++ nkHandlers ++ nbHandlers

def table : Std.HashMap String Handler := Std.HashMap.ofList allHandlers

def step (line : String) : String :=
  let toks := (line.trimAscii.toString.splitOn " ").filter (· ≠ "") |>.toArray
  if h : 0 < toks.size then
    match table[toks[0]]? with
    | some hd => runHandler hd toks
    | none => "err unknown-fn " ++ toks[0]
  else "err empty"

partial def loop (hin : IO.FS.Stream) (hout : IO.FS.Stream) : IO Unit := do
  let line ← hin.getLine
  if line.isEmpty then return ()
  hout.putStrLn (step line)
  loop hin hout

def main : IO Unit := do
  loop (← IO.getStdin) (← IO.getStdout)
