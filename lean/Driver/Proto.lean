import LadimModel.Scalar
/-!
Line protocol of the model driver.

One request per line: `<fn> <tok> <tok> …`; one reply per line.  Floats travel as bit patterns
(16 hex digits for binary64, 8 for binary32), integers in decimal, booleans as 0/1, lists as a
decimal length followed by the elements.  A reply is either `ok <tok> …` or `err <message>`.
-/
namespace Driver

abbrev P := StateT (Array String × Nat) (Except String)

def next : P String := do
  let (toks, i) ← get
  if h : i < toks.size then
    set (toks, i + 1)
    pure toks[i]
  else throw "too few arguments"

def hexVal (c : Char) : Option Nat :=
  if '0' ≤ c ∧ c ≤ '9' then some (c.toNat - '0'.toNat)
  else if 'a' ≤ c ∧ c ≤ 'f' then some (c.toNat - 'a'.toNat + 10)
  else none

def parseHex (s : String) : Except String Nat :=
  s.foldl (fun acc c => do
    let a ← acc
    match hexVal c with
    | some v => pure (a * 16 + v)
    | none => throw s!"bad hex {s}") (pure 0)

def getF : P Float := do
  let s ← next
  match parseHex s with
  | .ok n => pure (Float.ofBits (UInt64.ofNat n))
  | .error e => throw e

def getG : P Float32 := do
  let s ← next
  match parseHex s with
  | .ok n => pure (Float32.ofBits (UInt32.ofNat n))
  | .error e => throw e

def getI : P Int := do
  let s ← next
  match s.toInt? with
  | some i => pure i
  | none => throw s!"bad int {s}"

def getN : P Nat := do
  let i ← getI
  if i < 0 then throw "negative nat" else pure i.toNat

def getB : P Bool := do
  let i ← getI
  pure (i != 0)

def getS : P String := next

def getList {β} (p : P β) : P (List β) := do
  let n ← getN
  let mut acc : Array β := #[]
  for _ in [0:n] do
    acc := acc.push (← p)
  pure acc.toList

def getOpt {β} (p : P β) : P (Option β) := do
  let b ← getB
  if b then some <$> p else pure none

def hexDigit (n : Nat) : Char :=
  if n < 10 then Char.ofNat ('0'.toNat + n) else Char.ofNat ('a'.toNat + n - 10)

def toHex (width : Nat) (n : Nat) : String :=
  let rec go (k : Nat) (n : Nat) (acc : List Char) : List Char :=
    match k with
    | 0 => acc
    | k + 1 => go k (n / 16) (hexDigit (n % 16) :: acc)
  String.ofList (go width n [])

def outF (x : Float) : String := toHex 16 x.toBits.toNat
def outG (x : Float32) : String := toHex 8 x.toBits.toNat
def outB (b : Bool) : String := if b then "1" else "0"
def outI (i : Int) : String := toString i
def outList {β} (f : β → String) (l : List β) : String :=
  " ".intercalate (toString l.length :: l.map f)

abbrev Handler := P String

def runHandler (h : Handler) (toks : Array String) : String :=
  match (h.run (toks, 1)) with
  | .ok (s, _) => "ok " ++ s
  | .error e => "err " ++ e

end Driver
