import Driver.Proto
import LadimModel.Generated.Formulas
namespace Driver
open Ladim

def f1 (f : Float → Float) : Handler := do pure (outF (f (← getF)))
def f2 (f : Float → Float → Float) : Handler := do
  let a ← getF; let b ← getF; pure (outF (f a b))
def f3 (f : Float → Float → Float → Float) : Handler := do
  let a ← getF; let b ← getF; let c ← getF; pure (outF (f a b c))
def f4 (f : Float → Float → Float → Float → Float) : Handler := do
  let a ← getF; let b ← getF; let c ← getF; let d ← getF; pure (outF (f a b c d))
def f3p (f : Float → Float → Float → Float × Float) : Handler := do
  let a ← getF; let b ← getF; let c ← getF
  let r := f a b c
  pure s!"{outF r.1} {outF r.2}"

def genHandlers : List (String × Handler) :=
  [("gen.eos_density", f2 Gen.eos_density), ("gen.eos_viscosity", f2 Gen.eos_viscosity),
   ("gen.egg_density", f2 Gen.egg_density), ("gen.egg_my_w", f2 Gen.egg_my_w), ("gen.egg_velocity", f4 Gen.egg_velocity),
   ("gen.larvae_sinkvel_egg", f4 Gen.larvae_sinkvel_egg), ("gen.larvae_growth", f3 Gen.larvae_growth),
   ("gen.larvae_weight_to_length", f1 Gen.larvae_weight_to_length),
   ("gen.sed_shear_stress", f1 Gen.sed_shear_stress), ("gen.mine_shear_stress", f1 Gen.mine_shear_stress),
   ("gen.light_at_depth", f3 Gen.light_at_depth), ("gen.surface_light", f4 Gen.surface_light),
   ("gen.surface_light_height", f4 Gen.surface_light_height),
   ("gen.surface_light_ratio", f4 Gen.surface_light_ratio),
   ("gen.shrimp_sunheight", f4 Gen.shrimp_sunheight),
   ("gen.metric_to_deg", f3p Gen.metric_to_deg), ("gen.deg_to_metric", f3p Gen.deg_to_metric),
   ("gen.shrimp_delta_stage", f2 Gen.shrimp_delta_stage), ("gen.shrimp_delta_age", f2 Gen.shrimp_delta_age),
   ("gen.sandeel_larval_stage", f3 Gen.sandeel_larval_stage),
   ("gen.sandeel_egg_increase", f2 Gen.sandeel_egg_increase)]

end Driver
