import Driver.Proto
import LadimModel.Grid.ComputeW
import LadimModel.Grid.Fjord
import LadimModel.Grid.Sample
import LadimModel.Grid.Neighbours
namespace Driver
open Ladim

def arr2 (a : Array Float) (nI : Nat) (j i : Int) : Float :=
  if 0 ≤ j ∧ 0 ≤ i ∧ i < nI then a.getD (j.toNat * nI + i.toNat) 0.0 else 0.0
def arr3 (a : Array Float) (nJ nI : Nat) (k : Nat) (j i : Int) : Float :=
  if 0 ≤ j ∧ j < nJ ∧ 0 ≤ i ∧ i < nI then a.getD ((k * nJ + j.toNat) * nI + i.toNat) 0.0 else 0.0

def getArr (n : Nat) : P (Array Float) := do
  let mut a : Array Float := Array.mkEmpty n
  for _ in [0:n] do
    a := a.push (← getF)
  pure a

/-- `cw.compute J I K pm pn zw zr u v` (row-major arrays) -> w as (K+1)*J*I values -/
def hComputeW : Handler := do
  let J ← getN; let I ← getN; let K ← getN
  let pm ← getArr (J * I); let pn ← getArr (J * I)
  let zw ← getArr ((K + 1) * J * I); let zr ← getArr (K * J * I)
  let u ← getArr (K * J * (I - 1)); let v ← getArr (K * (J - 1) * I)
  let g : ComputeW.Grid Float := { K := K, J := J, I := I, pm := arr2 pm I, pn := arr2 pn I,
                                   zw := arr3 zw J I, zr := arr3 zr J I }
  let uf := arr3 u J (I - 1)
  let vf := arr3 v (J - 1) I
  let mut out : Array String := #[]
  for k in [0:K + 1] do
    for j in [0:J] do
      for i in [0:I] do
        out := out.push (outF (ComputeW.computeW g uf vf k j i))
  pure (" ".intercalate out.toList)

/-- integer matrix `rows cols v*` -/
def getMat : P Fjord.Mat := do
  let r ← getN; let c ← getN
  let mut a : Array Int := Array.mkEmpty (r * c)
  for _ in [0:r * c] do
    a := a.push (← getI)
  pure { rows := r, cols := c, val := fun i j =>
    if 0 ≤ i ∧ i < r ∧ 0 ≤ j ∧ j < c then a.getD (i.toNat * c + j.toNat) 0 else 0 }

def outMat (m : Fjord.Mat) : String := Id.run do
  let mut out : Array String := #[]
  for i in [0:m.rows] do
    for j in [0:m.cols] do
      out := out.push (toString (m.val i j))
  " ".intercalate out.toList

/-- memoise a matrix (the model's `val` is a closure over the previous iteration) -/
def freeze (m : Fjord.Mat) : Fjord.Mat := Id.run do
  let mut a : Array Int := Array.mkEmpty (m.rows * m.cols)
  for i in [0:m.rows] do
    for j in [0:m.cols] do
      a := a.push (m.val i j)
  let r := m.rows; let c := m.cols
  { rows := r, cols := c, val := fun i j =>
    if 0 ≤ i ∧ i < r ∧ 0 ≤ j ∧ j < c then a.getD (i.toNat * c + j.toNat) 0 else 0 }

/-- same function as `Fjord.dilateIter` / `bdilateIter`, evaluated with memoisation between steps -/
def iterFrozen (step : Fjord.Mat → Fjord.Mat) (m : Fjord.Mat) : Nat → Fjord.Mat
  | 0 => m
  | k + 1 => freeze (step (iterFrozen step m k))

def fjordIndexFrozen (land : Fjord.Mat) (oceanDist : Int) : Fjord.Mat :=
  let n := land.rows * land.cols
  -- `Fjord.notOcean`: no dilation for an ocean distance of at most one cell
  let notOcean := if 1 < oceanDist then iterFrozen Fjord.bdilate land (oceanDist - 1).toNat else land
  let inp : Fjord.Mat := freeze { land with val := fun i j => -(notOcean.get 0 i j) - land.get 0 i j }
  iterFrozen Fjord.dilate inp n

/-- `fjord.dilate mat` -/
def hFjordDilate : Handler := do
  let m ← getMat
  pure (outMat (Fjord.dilate m))

/-- `fjord.index oceanDist land` -> fjord index, then direction codes -/
def hFjordIndex : Handler := do
  let d ← getI
  let land ← getMat
  let fi := fjordIndexFrozen land d
  let dirs : Fjord.Mat := { fi with val := fun i j => (Fjord.descentDir fi i j : Nat) }
  pure (outMat fi ++ " | " ++ outMat dirs)

/-- `gs.cell n i0 x` -/
def hGsCell : Handler := do
  let n ← getN; let i0 ← getI; let x ← getF
  pure (outI (GridSample.cellIndex n i0 x))

/-- `gs.z2s ncol col* z` -> K A -/
def hGsZ2s : Handler := do
  let col ← getList getF; let z ← getF
  pure s!"{GridSample.z2sK col z} {outF (GridSample.z2sA col z 0.0)}"

def hGsTri : Handler := do
  let P ← getF; let Q ← getF; let A ← getF
  let f ← getArr 8
  pure (outF (GridSample.trilinear P Q A f[0]! f[1]! f[2]! f[3]! f[4]! f[5]! f[6]! f[7]!))

def hGsBil : Handler := do
  let p ← getF; let q ← getF; let a ← getF; let b ← getF; let c ← getF; let d ← getF
  pure (outF (GridSample.bilinear p q a b c d))

def hGsVdLevel : Handler := do
  let nw ← getN; let K ← getN; let A ← getF
  pure (outI (GridSample.vertdiffLevel nw K A))

def gridHandlers : List (String × Handler) :=
  [("cw.compute", hComputeW), ("fjord.dilate", hFjordDilate), ("fjord.index", hFjordIndex), ("gs.cell", hGsCell), ("gs.z2s", hGsZ2s), ("gs.tri", hGsTri), ("gs.bil", hGsBil), ("gs.vdlevel", hGsVdLevel)]
end Driver

namespace Driver
open Ladim

def getMask : P Nb.Mask := do
  let r ← getN; let c ← getN
  let mut a : Array Bool := Array.mkEmpty (r * c)
  for _ in [0:r * c] do
    a := a.push (← getB)
  pure { rows := r, cols := c, val := fun j i =>
    if 0 ≤ j ∧ j < r ∧ 0 ≤ i ∧ i < c then a.getD (j.toNat * c + i.toNat) false else false }

/-- `nb.close land(rows cols bits) ic jc` -/
def hNbClose : Handler := do
  let m ← getMask; let ic ← getI; let jc ← getI
  pure (outB (Nb.isCloseToLand m ic jc))

/-- `nb.nearest masked x y ic jc` -/
def hNbNearest : Handler := do
  let m ← getMask; let x ← getF; let y ← getF; let ic ← getI; let jc ← getI
  match Nb.nearestUnmasked m x y ic jc with
  | some (i, j) => pure s!"{i} {j}"
  | none => pure "none"

def nbHandlers : List (String × Handler) := [("nb.close", hNbClose), ("nb.nearest", hNbNearest)]
end Driver
