import Driver.Proto
import LadimModel.Forcing.Roms
import LadimModel.Forcing.Nk800
namespace Driver
open Ladim

/-- `roms.steps dt n dtime*` -> forcing steps -/
def hRomsSteps : Handler := do
  let dt ← getI
  let ds ← getList getI
  pure (outList outI (ds.map (fun d => Roms.forcingStep d dt)))

/-- `roms.run catchup prestepdiv scalarinit nsteps (step vel sc)* nsched sched*`
 -> `init-ok` then per schedule step `U S` -/
def hRomsRun : Handler := do
  let cu ← getN; let pd ← getN; let si ← getN
  let frames ← getList (do let s ← getI; let v ← getF; let c ← getF; pure (s, v, c))
  let sched ← getList getI
  let look (sel : Int × Float × Float → Float) (n : Int) : Float :=
    -- the dictionary `frame_idx[step]` keeps the *last* frame registered for a step
    match (frames.reverse.find? (fun f => f.1 == n)) with
    | some f => sel f
    | none => 0.0
  let fr : Roms.Frames Float := { steps := frames.map (·.1), vel := look (·.2.1), sc := look (·.2.2) }
  match Roms.init (if pd == 0 then .prestep else .stepdiff) (if si == 0 then .next else .current) fr with
  | none => pure "noinit"
  | some st0 =>
    let c := if cu == 0 then Roms.CatchUp.none else Roms.CatchUp.loop
    let (_, outs) := sched.foldl (fun (acc : Roms.St Float × List String) t =>
      let st := Roms.update c fr acc.1 t
      (st, acc.2 ++ [s!"{outF st.U} {outF st.S}"])) (st0, [])
    pure (" ".intercalate ("init" :: outs))

def forcingHandlers : List (String × Handler) := [("roms.steps", hRomsSteps), ("roms.run", hRomsRun)]
end Driver

namespace Driver
open Ladim

/-- `nk.serve n (name hour)*` -> for each request `1` if the backing file was read, else `0` -/
def hNkServe : Handler := do
  let reqs ← getList (do let n ← getS; let h ← getI; pure (n, h))
  let load : String × Int → String := fun k => k.1 ++ "@" ++ toString k.2
  let frameOf : String × Int → Int := fun k => k.2
  let (_, outs) := reqs.foldl (fun (acc : Nk800.Buffer (String × Int) String Int × List String) k =>
    let r := Nk800.getVar load frameOf acc.1 k
    (r.1, acc.2 ++ [(if r.2.2 then "1" else "0") ++ (if r.2.1 == some (load k) then "" else "!")])) (Nk800.Buffer.empty, [])
  pure (outList id outs)

def hNkInterp : Handler := do
  let w ← getN; let v1 ← getF; let v2 ← getF; let q ← getF
  pure (outF (Nk800.interpW (if w == 0 then .backward else .forward) v1 v2 q))

def hNkMidx : Handler := do
  let hi ← getI; let r ← getI
  pure (outI (Nk800.metricIndex hi r))

def hNkHour : Handler := do
  let t ← getI
  pure s!"{Nk800.hourOf t} {(Nk800.hourFraction t).1}"

/-- `nk.hour_us timeUs` -> hour tag, microseconds into the hour -/
def hNkHourUs : Handler := do
  let t ← getI
  pure s!"{Nk800.hourOfUs t} {(Nk800.hourFractionUs t).1}"

/-- `nk.subtime start step t num den` -> time of the sub-step in microseconds -/
def hNkSubTime : Handler := do
  let start ← getI; let step ← getI; let t ← getI; let num ← getI; let den ← getI
  pure s!"{Nk800.subTimeUs start step t num den}"

def nkHandlers : List (String × Handler) :=
  [("nk.serve", hNkServe), ("nk.interp", hNkInterp), ("nk.midx", hNkMidx), ("nk.hour", hNkHour), ("nk.hour_us", hNkHourUs), ("nk.subtime", hNkSubTime)]
end Driver
