import Driver.Proto
import LadimModel.Forcing.Roms
namespace Driver
open Ladim

/-- `roms.steps dt n dtime*` -> forcing steps -/
def hRomsSteps : Handler := do
  let dt ← getI
  let ds ← getList getI
  pure (outList outI (ds.map (fun d => Roms.forcingStep d dt)))

/-- `roms.run catchup prestepdiv scalarinit nsteps (step vel sc)* nsched sched*`
 -> `init-ok` then per schedule step `U S` -/
def hRomsRun : Handler := do
  let cu ← getN; let pd ← getN; let si ← getN
  let frames ← getList (do let s ← getI; let v ← getF; let c ← getF; pure (s, v, c))
  let sched ← getList getI
  let look (sel : Int × Float × Float → Float) (n : Int) : Float :=
    -- the dictionary `frame_idx[step]` keeps the *last* frame registered for a step
    match (frames.reverse.find? (fun f => f.1 == n)) with
    | some f => sel f
    | none => 0.0
  let fr : Roms.Frames Float := { steps := frames.map (·.1), vel := look (·.2.1), sc := look (·.2.2) }
  match Roms.init (if pd == 0 then .prestep else .stepdiff) (if si == 0 then .next else .current) fr with
  | none => pure "noinit"
  | some st0 =>
    let c := if cu == 0 then Roms.CatchUp.none else Roms.CatchUp.loop
    let (_, outs) := sched.foldl (fun (acc : Roms.St Float × List String) t =>
      let st := Roms.update c fr acc.1 t
      (st, acc.2 ++ [s!"{outF st.U} {outF st.S}"])) (st0, [])
    pure (" ".intercalate ("init" :: outs))

def forcingHandlers : List (String × Handler) := [("roms.steps", hRomsSteps), ("roms.run", hRomsRun)]
end Driver
