import Driver.Proto
import LadimModel.IBM.Chemicals
namespace Driver
open Ladim Ladim.Chemicals

/-- analytic stub environment mirrored by `harness/stubs.py::LinEnv`:
depth = h0 + hx*x + hy*y ; wvel = w0 + wz*z ; vdiff(z) = profile ; hdiff = k0 + kx*x + ky*y ;
metric = dx ; ingrid = xmin-0.5 < x < xmax+0.5 etc. -/
structure EnvSpec where
  h0 : Float
  hx : Float
  hy : Float
  w0 : Float
  wz : Float
  -- vertical diffusivity profile: kind 0 const k0; 1 linear k0 + k1*z ; 2 step (k0 if z < zs else k1)
  kkind : Nat
  k0 : Float
  k1 : Float
  zs : Float
  a0 : Float
  ax : Float
  ay : Float
  dx : Float
  dy : Float
  xmin : Float
  xmax : Float
  ymin : Float
  ymax : Float

def getEnvSpec : P EnvSpec := do
  pure { h0 := ← getF, hx := ← getF, hy := ← getF, w0 := ← getF, wz := ← getF,
         kkind := ← getN, k0 := ← getF, k1 := ← getF, zs := ← getF,
         a0 := ← getF, ax := ← getF, ay := ← getF, dx := ← getF, dy := ← getF,
         xmin := ← getF, xmax := ← getF, ymin := ← getF, ymax := ← getF }

def EnvSpec.profile (s : EnvSpec) (z : Float) : Float :=
  match s.kkind with
  | 0 => s.k0
  | 1 => s.k0 + s.k1 * z
  | _ => if z < s.zs then s.k0 else s.k1

def EnvSpec.toEnv (s : EnvSpec) : Env Float where
  depth x y := s.h0 + s.hx * x + s.hy * y
  wvel _ _ z := s.w0 + s.wz * z
  vdiff _ _ z := s.profile z
  hdiff x y _ := s.a0 + s.ax * x + s.ay * y
  metric _ _ := s.dx
  metricY _ _ := s.dy
  ingrid x y := (s.xmin - 0.5 < x) && (x < s.xmax + 0.5) && (s.ymin - 0.5 < y) && (y < s.ymax + 0.5)

def getConfig : P (Config Float) := do
  let dt ← getF
  let vertadv ← getB
  let mk ← getN
  let mix ← match mk with
    | 0 => pure VertMix.none
    | 1 => do pure (VertMix.const (← getF))
    | _ => do
      let vdt ← getF; let dz ← getF; let vmax ← getF
      pure (VertMix.labolle vdt dz vmax)
  let horz ← getOpt (do let a ← getF; let b ← getF; pure (a, b))
  let lifespan ← getOpt getF
  let collisionClamp ← getB
  pure { dt, vertadv, mix, horz, lifespan, collisionClamp }

/-- `chem.update cfg env stuck repX repY nvert vert… hx hy x y z age alive` -/
def hChemUpdate : Handler := do
  let c ← getConfig
  let s ← getEnvSpec
  let stuck ← getB
  let repX ← getF; let repY ← getF
  let vert ← getList getF
  let hx ← getF; let hy ← getF
  let x ← getF; let y ← getF; let z ← getF; let age ← getF; let alive ← getB
  let p := update c s.toEnv ⟨stuck, repX, repY, vert, hx, hy⟩ ⟨x, y, z, age, alive⟩
  pure s!"{outF p.x} {outF p.y} {outF p.z} {outF p.age} {outB p.alive}"

def hChemReflect : Handler := do
  let H ← getF; let z ← getF
  pure (outF (reflect H z))

def hChemSubsteps : Handler := do
  let dt ← getF; let vdt ← getF
  pure (outList outF (substeps dt vdt 10000 0.0))

def hChemReseed : Handler := do
  let x ← getF; let u ← getF
  pure (outF (reseed x u))

def chemHandlers : List (String × Handler) :=
  [("chem.update", hChemUpdate), ("chem.reflect", hChemReflect), ("chem.substeps", hChemSubsteps), ("chem.reseed", hChemReseed)]

end Driver
