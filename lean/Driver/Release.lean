import Driver.Proto
import LadimModel.Release.Dates
import LadimModel.Release.Iso
import LadimModel.Release.Attr
import LadimModel.Release.Sample
import LadimModel.Release.Table
namespace Driver
open Ladim

/-- `dates.range perSec start stop num` -> `num (t | NaT)*` -/
def hDatesRange : Handler := do
  let perSec ← getI; let start ← getI; let stop ← getI; let num ← getN
  let r := Dates.dateRange Dates.divisor perSec start stop num
  pure (outList (fun o => match o with | some t => toString t | none => "NaT") r)

/-- `dates.render n secs*` -> the ISO strings (`np.datetime64(secs, 's').astype(str)`) -/
def hDatesRender : Handler := do
  let ts ← getList getI
  pure (outList (fun t => Dates.renderISO t) ts)

def getSpec : P (Attr.Spec Float) := do
  let k ← getN
  match k with
  | 0 => do pure (.const (← getF))
  | 1 => do pure (.list (← getList getF))
  | 2 => do
    let m ← getF; let sd ← getF; let mn ← getOpt getF; let mx ← getOpt getF
    pure (.gaussian m sd mn mx)
  | 3 => do
    let m ← getF; let mx ← getOpt getF
    pure (.exponential m mx)
  | 4 => do
    let ks ← getList getF; let cs ← getList getF
    pure (.piecewise ks cs)
  | _ => do pure (.callable (← getList getF))

/-- `attr.get variant spec num draws` -/
def hAttrGet : Handler := do
  let v ← getN
  let s ← getSpec
  let num ← getN
  let draws ← getList getF
  match Attr.getAttr (if v == 0 then .swapped else .correct) s num draws with
  | some vs => pure (outList outF vs)
  | none => pure "none"

def getTri : P (Sample.Tri Float) := do
  let x1 ← getF; let y1 ← getF; let x2 ← getF; let y2 ← getF; let x3 ← getF; let y3 ← getF
  pure ⟨x1, y1, x2, y2, x3, y3⟩

/-- `sample.points ntri tri* n (u s t)*` -> `n (x y k)*` -/
def hSamplePoints : Handler := do
  let tris ← getList getTri
  let pts ← getList (do let u ← getF; let s ← getF; let t ← getF; pure (u, s, t))
  let outs := pts.map (fun (u, s, t) =>
    match Sample.samplePoint tris u s t with
    | some (x, y, k) => s!"{outF x} {outF y} {k}"
    | none => "none none -1")
  pure (" ".intercalate (toString outs.length :: outs))

/-- `sample.areas ntri tri*` -> areas -/
def hSampleAreas : Handler := do
  let tris ← getList getTri
  pure (outList outF (tris.map Sample.triArea))

/-- percent-decoding of names / strings (`%XX`), so that tokens contain no blanks -/
def pctDecode (s : String) : String :=
  let rec go (cs : List Char) (acc : List Char) : List Char :=
    match cs with
    | '%' :: a :: b :: rest =>
      match hexVal a, hexVal b with
      | some x, some y => go rest (Char.ofNat (x * 16 + y) :: acc)
      | _, _ => go rest acc
    | c :: rest => go rest (c :: acc)
    | [] => acc.reverse
  String.ofList (go s.toList [])

def pctEncode (s : String) : String :=
  String.join (s.toList.map (fun c =>
    if c.isAlphanum || c == '-' || c == ':' || c == '.' || c == '_' then c.toString
    else "%" ++ toHex 2 c.toNat))

def getName : P String := do pure (pctDecode (← next))

def getCell : P (Table.Cell Float) := do
  let t ← next
  match t.toList with
  | 'n' :: rest =>
    match parseHex (String.ofList rest) with
    | .ok n => pure (.num (Float.ofBits (UInt64.ofNat n)))
    | .error e => throw e
  | 's' :: rest => pure (.str (pctDecode (String.ofList rest)))
  | _ => pure .nan

def getFrame : P (Table.Frame Float) := getList (do let n ← getName; let cs ← getList getCell; pure (n, cs))

def outCell : Table.Cell Float → String
  | .num v => "n" ++ outF v
  | .str s => "s" ++ pctEncode s
  | .nan => "x"

/-- `table.make ngroups (num date loc depthDefault implicit explicit)* hascols [cols]` -/
def hTableMake : Handler := do
  let groups ← getList (do
    let num ← getN
    let date ← getList getCell
    let loc ← getFrame; let dd ← getFrame; let imp ← getFrame; let exp ← getFrame
    pure (Table.singleRelease .depthFourth date loc dd imp exp, num))
  let cols ← getOpt (getList getName)
  match Table.makeTable 0.0 groups cols with
  | none => pure "none"
  | some (hdr, rows) =>
    pure (" ".intercalate ([toString hdr.length] ++ hdr.map pctEncode ++ [toString rows.length] ++
      rows.map (fun r => " ".intercalate (r.map outCell))))

/-- `table.validate kind …` -/
def hTableValidate : Handler := do
  let k ← getN
  let grp : P Table.RawGroup := do pure ⟨← getList getName⟩
  let c ← match k with
    | 0 => do pure (Table.Container.flat (← getList getName))
    | 1 => do pure (Table.Container.list (← getList grp))
    | _ => do
      let gl ← getList getName
      pure (Table.Container.grouped gl (← getList grp))
  match Table.validate c with
  | none => pure "accepted"
  | some bad => pure (" ".intercalate ("rejected" :: bad.map (fun m => s!"{m.1}:" ++ ",".intercalate m.2)))

def releaseHandlers : List (String × Handler) :=
  [("dates.range", hDatesRange), ("dates.render", hDatesRender), ("attr.get", hAttrGet), ("sample.points", hSamplePoints), ("sample.areas", hSampleAreas), ("table.make", hTableMake), ("table.validate", hTableValidate)]

end Driver
