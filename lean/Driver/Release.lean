import Driver.Proto
import LadimModel.Release.Dates
import LadimModel.Release.Attr
import LadimModel.Release.Sample
namespace Driver
open Ladim

/-- `dates.range perSec start stop num` -> `num (t | NaT)*` -/
def hDatesRange : Handler := do
  let perSec ← getI; let start ← getI; let stop ← getI; let num ← getN
  let r := Dates.dateRange Dates.divisor perSec start stop num
  pure (outList (fun o => match o with | some t => toString t | none => "NaT") r)

def getSpec : P (Attr.Spec Float) := do
  let k ← getN
  match k with
  | 0 => do pure (.const (← getF))
  | 1 => do pure (.list (← getList getF))
  | 2 => do
    let m ← getF; let sd ← getF; let mn ← getOpt getF; let mx ← getOpt getF
    pure (.gaussian m sd mn mx)
  | 3 => do
    let m ← getF; let mx ← getOpt getF
    pure (.exponential m mx)
  | 4 => do
    let ks ← getList getF; let cs ← getList getF
    pure (.piecewise ks cs)
  | _ => do pure (.callable (← getList getF))

/-- `attr.get variant spec num draws` -/
def hAttrGet : Handler := do
  let v ← getN
  let s ← getSpec
  let num ← getN
  let draws ← getList getF
  match Attr.getAttr (if v == 0 then .swapped else .correct) s num draws with
  | some vs => pure (outList outF vs)
  | none => pure "none"

def getTri : P (Sample.Tri Float) := do
  let x1 ← getF; let y1 ← getF; let x2 ← getF; let y2 ← getF; let x3 ← getF; let y3 ← getF
  pure ⟨x1, y1, x2, y2, x3, y3⟩

/-- `sample.points ntri tri* n (u s t)*` -> `n (x y k)*` -/
def hSamplePoints : Handler := do
  let tris ← getList getTri
  let pts ← getList (do let u ← getF; let s ← getF; let t ← getF; pure (u, s, t))
  let outs := pts.map (fun (u, s, t) =>
    match Sample.samplePoint tris u s t with
    | some (x, y, k) => s!"{outF x} {outF y} {k}"
    | none => "none none -1")
  pure (" ".intercalate (toString outs.length :: outs))

/-- `sample.areas ntri tri*` -> areas -/
def hSampleAreas : Handler := do
  let tris ← getList getTri
  pure (outList outF (tris.map Sample.triArea))

def releaseHandlers : List (String × Handler) :=
  [("dates.range", hDatesRange), ("attr.get", hAttrGet), ("sample.points", hSamplePoints), ("sample.areas", hSampleAreas)]

end Driver
