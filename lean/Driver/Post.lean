import Driver.Proto
import LadimModel.Post.Raster
namespace Driver
open Ladim

def hPostEdges : Handler := do
  let a ← getList getF
  pure (outList outF (Post.edges a))

/-- `post.bins nedges e* nx x*` -> bin index or -1 per x -/
def hPostBins : Handler := do
  let es ← getList getF
  let xs ← getList getF
  pure (outList (fun x => match Post.binIndex es x with | some k => toString k | none => "-1") xs)

def hPostSettled : Handler := do
  let pids ← getList getN
  pure (outList (fun p => s!"{p.1} {p.2}") (Post.settled pids))

/-- `post.slots ncounts c* ndata` -> flattened slices of [0..ndata) as `nslices (len idx*)*` -/
def hPostSlots : Handler := do
  let counts ← getList getN
  let n ← getN
  let sl := Post.slotSlices counts (List.range n)
  pure (" ".intercalate (toString sl.length :: sl.map (fun s => outList toString s)))

def postHandlers : List (String × Handler) :=
  [("post.edges", hPostEdges), ("post.bins", hPostBins), ("post.settled", hPostSettled), ("post.slots", hPostSlots)]
end Driver
