import LadimProofs.Basic
import LadimProofs.C05
import LadimProofs.Laws
import LadimProofs.C07
import LadimProofs.C10
import LadimProofs.C08
import LadimProofs.C20
