import LadimProofs.Basic
import LadimProofs.C05
