import LadimModel.Scalar
import LadimModel.Generated.Formulas
import LadimModel.IBM.Chemicals
import LadimModel.IBM.Sedimentation
import LadimModel.IBM.Bio
import LadimModel.IBM.Memory
import LadimModel.IBM.Grain
